import FluentProofs.SerializerML
/-!
# Serializer lemmas, part 11b: the `get_pattern` loop on the text of a class pattern (C04 / T3)

`mlLoop`: the loop of `get_pattern` on the elements of a class pattern written at an indent level — line-start texts,
blank lines, placeable-led lines, the common-indent bookkeeping — including the texts that contain a lone `\r`: a text
that ends with `\r` in front of the text `"\n"` is written with a second `\r` (`crPad`), `get_text_slice` cuts the slice
in front of that second `\r` (termination `.crlf`) and leaves the cursor at the `\n` with role `LineStart` (the
"pending line feed" alternative of the role hypothesis), and the next iteration pushes the `\n` as an element of its
own — so the elements come back as they were.
-/
namespace FluentProofs.Ser
open FluentModel FluentModel.Syntax FluentModel.Syntax.Ser FluentProofs.Parser

theorem crPad_of_notCr {v : Bytes} (h : endsCr v = false) (es : List (PatElem Bytes)) : crPad v es = [] := by
  cases es with
  | nil => rfl
  | cons e es' => cases e <;> simp [crPad, h]

theorem endsCr_of_endsNl {v : Bytes} (h : endsNl v = true) : endsCr v = false := by
  simp only [endsNl, beq_iff_eq] at h
  simp [endsCr, h]

theorem crPad_pl (v : Bytes) (x : Expr Bytes) (es : List (PatElem Bytes)) : crPad v (.placeable x :: es) = [] := rfl

theorem crPad_cr {v : Bytes} (h : endsCr v = true) (es : List (PatElem Bytes)) : crPad v (.text [10] :: es) = [13] := by
  simp [crPad, h]

/-- what follows a text element of a class pattern -/
theorem ml_next (v : Bytes) (es : List (PatElem Bytes)) (nl : Bool) (hml : mlElems nl (.text v :: es) = true)
    (hlast : mlLastOK (.text v :: es) = true) :
    (endsNl v = true ∧ es ≠ []) ∨ (endsNl v = false ∧ es = [] ∧ ∃ x, v.getLast? = some x ∧ x ≠ 32 ∧ x ≠ 10 ∧ x ≠ 13) ∨
      (endsNl v = false ∧ ∃ x es', es = .placeable x :: es') ∨
      (endsNl v = false ∧ endsCr v = true ∧ ∃ es', es = .text [10] :: es') := by
  simp only [mlElems, Bool.and_eq_true] at hml
  obtain ⟨⟨⟨hvok, hadj⟩, _⟩, _⟩ := hml
  cases hn : endsNl v
  · right
    cases es with
    | nil =>
      left
      refine ⟨rfl, rfl, ?_⟩
      have hne := mlTextOK_ne hvok
      cases hl : v.getLast? with
      | none => simp at hl; exact absurd hl hne
      | some x =>
        simp only [mlLastOK, hl, Bool.and_eq_true, bne_iff_ne, ne_eq, Option.some.injEq] at hlast
        exact ⟨x, rfl, hlast.1.1, hlast.1.2, hlast.2⟩
    | cons e es' =>
      right
      cases e with
      | text w =>
        right
        simp only [hn, Bool.false_or, Bool.and_eq_true, beq_iff_eq] at hadj
        exact ⟨rfl, hadj.1, es', by rw [hadj.2]⟩
      | placeable x => exact Or.inl ⟨rfl, x, es', rfl⟩
  · left
    refine ⟨rfl, ?_⟩
    intro h0; subst h0
    simp only [endsNl, beq_iff_eq] at hn
    simp [mlLastOK, hn] at hlast

/-- **the `get_pattern` loop on the elements of a class pattern** written at level `L` -/
theorem mlLoop {s : Src} (hs : AsciiThenBoundary s) (L : Nat) (es : List (PatElem Bytes)) :
    ∀ (hpl : ∀ x, PatElem.placeable x ∈ es → PlRT L x) (nl : Bool) (n p q' : Nat) (st : PatState) (cfin : Option Nat),
      mlElems nl es = true → mlLastOK es = true → (es = [] → nl = false) → (0 < L ∨ isMultiline es = false) →
      (nl = true → 0 < L) →
      (mlRole nl st.role ∨ (nl = false ∧ st.role = .lineStart ∧ ∃ es', es = .text [10] :: es')) →
      ciAfter (4 * L) st.commonIndent (excesses nl es) = cfin →
      (excesses nl es ≠ [] → cfin = some (4 * L)) → Bnd s p →
      At s p (elemsText L nl es ++ [10]) → PatFollow s (p + (elemsText L nl es).length + 1) q' →
      4 * (q' - p) + 8 ≤ n →
      ∃ phs tr, getPatternLoop s n st p =
          .ok ⟨st.elements ++ phs ++ tr,
            (if es.isEmpty then st.lastNonBlank else some (st.elements.length + phs.length - 1)),
            cfin, .lineStart, (if es.isEmpty then st.keptCommonIndent else cfin)⟩ q' ∧ MPh s cfin phs es := by
  induction es with
  | nil =>
    intro _ nl n p q' st cfin _ _ hnl _ _ hroleG hci _ hb hat hf hn
    have hrole : mlRole nl st.role := hroleG.resolve_right (by rintro ⟨_, _, _, h⟩; cases h)
    have hq' := hf.1
    have : nl = false := hnl rfl
    subst this
    simp only [elemsText, List.nil_append, at_cons, List.length_nil, Nat.add_zero] at hat hf hq'
    simp only [excesses, ciAfter] at hci
    obtain ⟨tr, htr⟩ := mlLoop_nil hs n p q' st (mlRole_false hrole) hb hat.1 hf (by omega)
    exact ⟨[], tr, by rw [htr, ← hci]; simp, by simp [MPh]⟩
  | cons e es ih =>
    intro hpl nl n p q' st cfin hml hlast _ hL hnlL hroleG hci hcf hb hat hf hn
    have hq' := hf.1
    have hpl' : ∀ x, PatElem.placeable x ∈ es → PlRT L x := fun x hx => hpl x (List.mem_cons_of_mem _ hx)
    have ih' := ih hpl'
    have hlast' := mlLastOK_tail hlast
    obtain ⟨m, rfl⟩ : ∃ m, n = m + 1 := ⟨n - 1, by omega⟩
    cases e with
    | placeable x =>
      have hrole : mlRole nl st.role := hroleG.resolve_right (by rintro ⟨_, _, _, h⟩; cases h)
      have hx := hpl x (List.mem_cons_self)
      have hml' : mlElems false es = true := by simpa [mlElems] using hml
      have hL' : 0 < L ∨ isMultiline es = false := by
        rcases hL with h | h
        · exact Or.inl h
        · exact Or.inr (isMultiline_tail h)
      cases nl with
      | false =>
        simp only [elemsText, Bool.false_eq_true, if_false, List.nil_append, List.append_assoc, List.length_append] at hat hf hq'
        rw [at_append] at hat
        obtain ⟨h123, hbq⟩ := exprText_bnd hs hx hat.1
        obtain ⟨ex, hpe, hme⟩ := hx.parse s p m hs hat.1 (by omega)
        rw [patternLoop_placeable_step s m st p ex _ h123 (mlRole_false hrole) hpe]
        have hxl := exprText_len hx
        simp only [excesses, Bool.false_eq_true, if_false, List.nil_append] at hci hcf
        obtain ⟨phs, tr, hloop, hrel⟩ := ih' false m _ q'
          ⟨st.elements ++ [.placeable ex], some st.elements.length, st.commonIndent, .continuation, st.commonIndent⟩ cfin
          hml' hlast' (fun _ => rfl) hL' (fun h => by cases h) (Or.inl (by simp [mlRole])) hci hcf hbq hat.2
          (by rw [← Nat.add_assoc] at hf; exact hf) (by omega)
        refine ⟨.placeable ex :: phs, tr, ?_, ?_⟩
        · rw [hloop]
          simp only [List.append_assoc, List.singleton_append, List.length_append, List.length_cons, List.length_nil,
            List.isEmpty_cons]
          cases es with
          | nil =>
            simp only [MPh] at hrel; subst hrel
            simp only [excesses, ciAfter] at hci
            simp [hci]
          | cons e2 rest =>
            have := MPh_ne hrel (by simp)
            simp only [List.isEmpty_cons, Bool.false_eq_true, if_false]
            congr 2
            cases phs with
            | nil => exact absurd rfl this
            | cons _ _ => simp; omega
        · simp only [MPh]; exact Or.inl ⟨ex, phs, rfl, hme, hrel⟩
      | true =>
        have hLp := hnlL rfl
        simp only [elemsText, if_true, List.append_assoc, List.length_append] at hat hf hq'
        rw [at_append, at_append] at hat
        obtain ⟨hsp0, hatx, hrest⟩ := hat
        have hspl : (spacesL (4 * L)).length = 4 * L := by simp [spacesL]
        rw [hspl] at hatx hrest hf hq'
        have hsp := at_spaces s p (4 * L) hsp0
        obtain ⟨h123, hbq⟩ := exprText_bnd hs hx hatx
        obtain ⟨m2, rfl⟩ : ∃ m2, m = m2 + 1 := ⟨m - 1, by have := exprText_len hx; omega⟩
        rw [step_ls_led s (m2 + 1) st p (4 * L) 0 (mlRole_true hrole) (by omega) (by simpa using hsp)
          (by simpa using h123)]
        simp only [Nat.add_zero]
        obtain ⟨ex, hpe, hme⟩ := hx.parse s (p + 4 * L) m2 hs hatx (by omega)
        rw [patternLoop_placeable_step s m2 _ (p + 4 * L) ex _ h123 rfl hpe]
        have hxl := exprText_len hx
        simp only [excesses, if_true, List.singleton_append, ciAfter] at hci hcf
        have hcfin : cfin = some (4 * L) := hcf (by simp)
        obtain ⟨phs, tr, hloop, hrel⟩ := ih' false m2 _ q'
          ⟨st.elements ++ [.text p (p + 4 * L) (4 * L) .lineStart] ++ [.placeable ex],
            some (st.elements ++ [Placeholder.text p (p + 4 * L) (4 * L) .lineStart]).length,
            ciStep (4 * L) st.commonIndent 0, .continuation, ciStep (4 * L) st.commonIndent 0⟩ cfin
          hml' hlast' (fun _ => rfl) hL' (fun h => by cases h) (Or.inl (by simp [mlRole])) hci (fun _ => hcfin) hbq hrest
          (by rw [← Nat.add_assoc, ← Nat.add_assoc] at hf; exact hf) (by omega)
        refine ⟨.text p (p + 4 * L) (4 * L) .lineStart :: .placeable ex :: phs, tr, ?_, ?_⟩
        · rw [hloop]
          simp only [List.append_assoc, List.singleton_append, List.length_append, List.length_cons, List.length_nil,
            List.isEmpty_cons, List.cons_append, List.nil_append]
          cases es with
          | nil =>
            simp only [MPh] at hrel; subst hrel
            simp only [excesses, ciAfter] at hci
            simp [hci]
          | cons e2 rest =>
            have := MPh_ne hrel (by simp)
            simp only [List.isEmpty_cons, Bool.false_eq_true, if_false]
            congr 2
            cases phs with
            | nil => exact absurd rfl this
            | cons _ _ => simp; omega
        · simp only [MPh]
          refine Or.inr ⟨p, p + 4 * L, 4 * L, ex, phs, rfl, ?_, hme, hrel⟩
          simp [effStart, hcfin]
    | text v =>
      have hnext := ml_next v es nl hml hlast
      simp only [mlElems, Bool.and_eq_true] at hml
      obtain ⟨⟨⟨hvok, hadj⟩, hls⟩, hml'⟩ := hml
      have hvne := mlTextOK_ne hvok
      have hvlen : 0 < v.length := by cases v <;> simp_all
      have hL' : 0 < L ∨ isMultiline es = false := by
        rcases hL with h | h
        · exact Or.inl h
        · exact Or.inr (isMultiline_tail h)
      have hLnl : endsNl v = true → 0 < L := by
        intro hnv
        rcases hL with h | h
        · exact h
        · simp only [isMultiline, Bool.or_eq_false_iff] at h
          have h10 : (10 : UInt8) ∈ v := by
            have : v.getLast? = some 10 := by simpa [endsNl] using hnv
            exact List.mem_of_getLast? this
          have := h.1
          rw [List.contains_eq_mem] at this
          simp [h10] at this
      have hpad3 : (endsNl v = true ∨ es = [] ∨ ∃ x es', es = .placeable x :: es') → crPad v es = [] := by
        rintro (h | h | ⟨x, es', h⟩)
        · exact crPad_of_notCr (endsCr_of_endsNl h) es
        · subst h; rfl
        · subst h; rfl
      cases nl with
      | false =>
        by_cases hpend : st.role = .lineStart ∧ ∃ es', PatElem.text v :: es = .text [10] :: es'
        · -- the `\n` of a `\r\n`, behind a text that ends with `\r`
          obtain ⟨hroleT, es'', hve⟩ := hpend
          have hv10 : v = [10] := by injection hve with h1 _; injection h1
          subst hv10
          have hnv : endsNl ([10] : Bytes) = true := by decide
          have hes : es ≠ [] := by
            rcases hnext with ⟨_, h⟩ | ⟨h, _⟩ | ⟨h, _⟩ | ⟨h, _⟩
            · exact h
            all_goals (rw [hnv] at h; cases h)
          have hpad : crPad [10] es = [] := crPad_of_notCr (by decide) es
          simp only [elemsText, Bool.false_eq_true, if_false, List.nil_append, hpad, List.append_assoc, List.length_append,
            hnv, List.cons_append, at_cons, List.length_cons, List.length_nil] at hat hf hq'
          rw [patternLoop_blank s m st p hroleT hat.1]
          simp only [excesses, Bool.false_and, Bool.false_eq_true, if_false, List.nil_append, hnv] at hci hcf
          rw [hnv] at hml'
          have hb2 : Bnd s (p + 1) := bnd_succ hs hat.1 (by decide)
          obtain ⟨phs, tr, hloop, hrel⟩ := ih' true m (p + 1) q'
            { st with elements := st.elements ++ [.text p (p + 1) 0 .lineStart] } cfin
            hml' hlast' (fun h => absurd h hes) hL' (fun _ => hLnl hnv) (Or.inl (by simp [mlRole, hroleT]))
            hci hcf hb2 hat.2
            (by rw [show p + 1 + (elemsText L true es).length + 1 = p + ((elemsText L true es).length + 1) + 1 by omega]
                exact hf)
            (by omega)
          have hesE : es.isEmpty = false := by
            cases es with
            | nil => exact absurd rfl hes
            | cons _ _ => rfl
          refine ⟨.text p (p + 1) 0 .lineStart :: phs, tr, ?_, ?_⟩
          · rw [hloop]
            have := MPh_ne hrel hes
            simp only [hesE, Bool.false_eq_true, if_false, List.append_assoc, List.singleton_append, List.length_append,
              List.length_cons, List.length_nil, List.isEmpty_cons]
            congr 2
            cases phs with
            | nil => exact absurd rfl this
            | cons _ _ => simp; omega
          · simp only [MPh]
            have heff : effStart cfin p 0 .lineStart = p := by
              cases cfin <;> simp [effStart]
            refine ⟨p, p + 1, 0, .lineStart, phs, rfl, ⟨?_, hb2, ?_, by simp, ?_⟩, hrel⟩
            · rw [heff]; exact hb
            · rw [heff]; simp [at_cons, hat.1]
            · simp [hesE, heff]
        · have hrole : mlRole false st.role := hroleG.resolve_right (by
            rintro ⟨_, h1, es', h2⟩; exact hpend ⟨h1, es', h2⟩)
          have hroleF := mlRole_false hrole
          simp only [elemsText, Bool.false_eq_true, if_false, List.nil_append, List.append_assoc, List.length_append] at hat hf hq'
          rw [at_append] at hat
          obtain ⟨hatv, hrest⟩ := hat
          simp only [excesses, Bool.false_and, Bool.false_eq_true, if_false, List.nil_append] at hci hcf
          have hp0 : s[p]? ≠ some 123 := by
            have hg := at_get hatv 0 hvlen
            rw [Nat.add_zero] at hg
            rw [hg]
            have := (mlTextOK_mem hvok _ (List.getElem_mem hvlen)).1
            simpa using this
          have hplt : p < s.size := by
            have hg := at_get hatv 0 hvlen
            rw [Nat.add_zero] at hg; exact get_lt hg
          have heff : effStart cfin p 0 st.role = p := by simp [effStart, hroleF]
          rcases hnext with ⟨hnv, hes⟩ | ⟨hnv, hes, x, hx, x1, x2, x3⟩ | ⟨hnv, x, es', hes⟩ | ⟨hnv, hcr, es', hes⟩
          · -- the text ends its line
            have hpad := hpad3 (Or.inl hnv)
            rw [hpad] at hrest hf hq'
            simp only [List.nil_append, List.length_nil, Nat.zero_add] at hrest hf hq'
            have hts := mlSlice_nl s v hvok hnv p hatv
            have hlf : s[p + v.length - 1]? = some 10 := by
              have hg := at_get hatv (v.length - 1) (by omega)
              rw [show p + (v.length - 1) = p + v.length - 1 by omega] at hg
              rw [hg]
              have : v.getLast? = some 10 := by simpa [endsNl] using hnv
              rw [List.getLast?_eq_getElem?, List.getElem?_eq_getElem (by omega)] at this
              exact this
            have hb2 : Bnd s (p + v.length) := by
              have := bnd_succ hs hlf (by decide)
              rwa [show p + v.length - 1 + 1 = p + v.length by omega] at this
            have hsl := slice_ok (show p ≤ p + v.length by omega) hb hb2
            rw [patternLoop_text_step s m st p _ _ _ .lineFeed hplt hp0 hroleF hts (by omega) hsl]
            obtain ⟨phs, tr, hloop, hrel⟩ := ih' true m _ q'
              ⟨st.elements ++ [.text p (p + v.length) 0 st.role], _, st.commonIndent, roleOf .lineFeed, _⟩ cfin
              (by rw [hnv] at hml'; exact hml') hlast' (fun h => absurd h hes) hL' (fun _ => hLnl hnv) (Or.inl (by simp [mlRole, roleOf]))
              (by rw [hnv] at hci; exact hci) (by rw [hnv] at hcf; exact hcf) hb2 (by rw [hnv] at hrest; exact hrest)
              (by rw [hnv] at hf; rw [← Nat.add_assoc] at hf; exact hf) (by rw [hnv] at hq'; omega)
            have hesE : es.isEmpty = false := by
              cases es with
              | nil => exact absurd rfl hes
              | cons _ _ => rfl
            refine ⟨.text p (p + v.length) 0 st.role :: phs, tr, ?_, ?_⟩
            · rw [hloop]
              have := MPh_ne hrel hes
              simp only [hesE, Bool.false_eq_true, if_false, List.append_assoc, List.singleton_append, List.length_append,
                List.length_cons, List.length_nil, List.isEmpty_cons]
              congr 2
              cases phs with
              | nil => exact absurd rfl this
              | cons _ _ => simp; omega
            · simp only [MPh]
              refine ⟨p, p + v.length, 0, st.role, phs, rfl, ⟨?_, hb2, ?_, hvne, ?_⟩, hrel⟩
              · rw [heff]; exact hb
              · rw [heff]; exact hatv
              · simp [hesE, heff]
          · -- the last element
            have hpad := hpad3 (Or.inr (Or.inl hes))
            rw [hpad] at hrest hf hq'
            simp only [List.nil_append, List.length_nil, Nat.zero_add] at hrest hf hq'
            subst hes
            simp only [elemsText, List.nil_append, at_cons, List.length_nil, Nat.add_zero] at hrest hf hq'
            have h10 := hrest.1
            have hts := mlSlice_last s v hvok hnv (by simp [endsCr, hx, x3]) p hatv h10
            have hb2 : Bnd s (p + v.length + 1) := bnd_succ hs h10 (by decide)
            have hsl := slice_ok (show p ≤ p + v.length + 1 by omega) hb hb2
            rw [patternLoop_text_step s m st p _ _ _ .lineFeed hplt hp0 hroleF hts (by omega) hsl]
            have hsc : s[p + v.length - 1]? = some x := by
              have hg := at_get hatv (v.length - 1) (by omega)
              rw [show p + (v.length - 1) = p + v.length - 1 by omega] at hg
              rw [hg]
              rw [List.getLast?_eq_getElem?, List.getElem?_eq_getElem (by omega)] at hx
              exact hx
            have htrim := trimEnd_lf s p (p + v.length) x (by omega) h10 hsc x1 x3 x2
            obtain ⟨hle, h10s, hstop⟩ := hf
            obtain ⟨tr, htr⟩ := patternLoop_finish s q' (q' - (p + v.length + 1)) m (p + v.length + 1)
              ⟨st.elements ++ [.text p (p + v.length + 1) 0 st.role], _, st.commonIndent, roleOf .lineFeed, _⟩
              rfl (by omega) h10s hstop (by omega)
            simp only [excesses, ciAfter] at hci
            refine ⟨[.text p (p + v.length + 1) 0 st.role], tr, ?_, ?_⟩
            · rw [htr]
              have h2 : (p + v.length != p) = true := by simp; omega
              simp [htrim, getLast_any_ne32 v x hx x1, h2, hci]
            · simp only [MPh]
              refine ⟨p, p + v.length + 1, 0, st.role, [], rfl, ⟨?_, hb2, ?_, hvne, ?_⟩, rfl⟩
              · rw [heff]; exact hb
              · rw [heff]; exact hatv
              · simp only [List.isEmpty_nil, if_true, heff]
                exact ⟨trivial, h10, x, hx, x1, x2, x3⟩
          · -- a placeable follows
            have hpad := hpad3 (Or.inr (Or.inr ⟨x, es', hes⟩))
            rw [hpad] at hrest hf hq'
            simp only [List.nil_append, List.length_nil, Nat.zero_add] at hrest hf hq'
            subst hes
            have hxp := hpl' x (List.mem_cons_self)
            have h123 : s[p + v.length]? = some 123 := by
              simp only [elemsText, Bool.false_eq_true, if_false, List.nil_append, List.append_assoc] at hrest
              rw [hnv] at hrest
              simp only [elemsText, Bool.false_eq_true, if_false, List.nil_append, List.append_assoc] at hrest
              rw [at_append] at hrest
              exact at_head hrest.1 hxp.head
            have hts := mlSlice_brace s v hvok hnv p hatv h123
            have hb2 : Bnd s (p + v.length) := bnd_of_ascii h123 (by decide)
            have hsl := slice_ok (show p ≤ p + v.length by omega) hb hb2
            rw [patternLoop_text_step s m st p _ _ _ .placeableStart hplt hp0 hroleF hts (by omega) hsl]
            obtain ⟨phs, tr, hloop, hrel⟩ := ih' false m _ q'
              ⟨st.elements ++ [.text p (p + v.length) 0 st.role], _, st.commonIndent, roleOf .placeableStart, _⟩ cfin
              (by rw [hnv] at hml'; exact hml') hlast' (fun h => by cases h) hL' (fun h => by cases h) (Or.inl (by simp [mlRole, roleOf]))
              (by rw [hnv] at hci; exact hci) (by rw [hnv] at hcf; exact hcf) hb2 (by rw [hnv] at hrest; exact hrest)
              (by rw [hnv] at hf; rw [← Nat.add_assoc] at hf; exact hf) (by rw [hnv] at hq'; omega)
            refine ⟨.text p (p + v.length) 0 st.role :: phs, tr, ?_, ?_⟩
            · rw [hloop]
              have := MPh_ne hrel (by simp)
              simp only [List.isEmpty_cons, Bool.false_eq_true, if_false, List.append_assoc, List.singleton_append,
                List.length_append, List.length_cons, List.length_nil]
              congr 2
              cases phs with
              | nil => exact absurd rfl this
              | cons _ _ => simp; omega
            · simp only [MPh]
              refine ⟨p, p + v.length, 0, st.role, phs, rfl, ⟨?_, hb2, ?_, hvne, ?_⟩, hrel⟩
              · rw [heff]; exact hb
              · rw [heff]; exact hatv
              · simp [heff]
          · -- the text ends with `\r` and `\r\n` follows (the writer has doubled the `\r`)
            subst hes
            rw [crPad_cr hcr, hnv] at hrest hf hq'
            simp only [List.cons_append, List.nil_append, at_cons, List.length_cons, List.length_nil] at hrest hf hq'
            obtain ⟨h13, hrest⟩ := hrest
            have h10 : s[p + v.length + 1]? = some 10 := at_head hrest (by simp [elemsText_text])
            have hts := mlSlice_crlf s v hvok hnv p hatv h13 h10
            have hb2 : Bnd s (p + v.length) := bnd_of_ascii h13 (by decide)
            have hb3 : Bnd s (p + v.length + 1) := bnd_succ hs h13 (by decide)
            have hsl := slice_ok (show p ≤ p + v.length by omega) hb hb2
            rw [patternLoop_text_step s m st p _ _ _ .crlf hplt hp0 hroleF hts (by omega) hsl]
            obtain ⟨phs, tr, hloop, hrel⟩ := ih' false m _ q'
              ⟨st.elements ++ [.text p (p + v.length) 0 st.role], _, st.commonIndent, roleOf .crlf, _⟩ cfin
              (by rw [hnv] at hml'; exact hml') hlast' (fun h => by cases h) hL' (fun h => by cases h)
              (Or.inr ⟨rfl, rfl, es', rfl⟩)
              (by rw [hnv] at hci; exact hci) (by rw [hnv] at hcf; exact hcf) hb3 hrest
              (by rw [show p + v.length + 1 + (elemsText L false (.text [10] :: es')).length + 1 =
                    p + (v.length + (0 + 1 + (elemsText L false (.text [10] :: es')).length)) + 1 by omega]; exact hf)
              (by omega)
            refine ⟨.text p (p + v.length) 0 st.role :: phs, tr, ?_, ?_⟩
            · rw [hloop]
              have := MPh_ne hrel (by simp)
              simp only [List.isEmpty_cons, Bool.false_eq_true, if_false, List.append_assoc, List.singleton_append,
                List.length_append, List.length_cons, List.length_nil]
              congr 2
              cases phs with
              | nil => exact absurd rfl this
              | cons _ _ => simp; omega
            · simp only [MPh]
              refine ⟨p, p + v.length, 0, st.role, phs, rfl, ⟨?_, hb2, ?_, hvne, ?_⟩, hrel⟩
              · rw [heff]; exact hb
              · rw [heff]; exact hatv
              · simp [heff]
      | true =>
        have hrole : mlRole true st.role := hroleG.resolve_right (by rintro ⟨h, _⟩; cases h)
        have hLp := hnlL rfl
        have hroleT := mlRole_true hrole
        simp only [elemsText, if_true, List.append_assoc, List.length_append] at hat hf hq'
        rw [at_append, at_append] at hat
        obtain ⟨hsp0, hatv, hrest⟩ := hat
        have hspl : (spacesL (4 * L)).length = 4 * L := by simp [spacesL]
        rw [hspl] at hatv hrest hf hq'
        have hsp := at_spaces s p (4 * L) hsp0
        have hbI : Bnd s (p + 4 * L) := by
          have := hsp (4 * L - 1) (by omega)
          have := bnd_succ hs this (by decide)
          rwa [show p + (4 * L - 1) + 1 = p + 4 * L by omega] at this
        by_cases hblank : v = [10]
        · -- a blank line
          subst hblank
          simp only [at_cons] at hatv
          have hes : es ≠ [] := by
            rcases hnext with ⟨_, h⟩ | ⟨h, _⟩ | ⟨h, _⟩ | ⟨h, _⟩
            · exact h
            · simp [endsNl] at h
            · simp [endsNl] at h
            · simp [endsNl] at h
          have hpad := hpad3 (Or.inl (by decide : endsNl ([10] : Bytes) = true))
          rw [hpad] at hrest hf hq'
          simp only [List.nil_append, List.length_nil, Nat.zero_add] at hrest hf hq'
          rw [step_ls_blank s m st p (4 * L) hroleT (by omega) hsp hatv.1]
          simp only [excesses, Bool.true_and, bne_self_eq_false, Bool.false_eq_true, if_false, List.nil_append] at hci hcf
          have hnv : endsNl ([10] : Bytes) = true := by decide
          rw [hnv] at hml' hci hcf hrest hf hq'
          simp only [List.length_cons, List.length_nil] at hrest hf hq'
          have hb2 : Bnd s (p + 4 * L + 1) := bnd_succ hs hatv.1 (by decide)
          obtain ⟨phs, tr, hloop, hrel⟩ := ih' true m _ q'
            ⟨st.elements ++ [.text (p + 4 * L) (p + 4 * L + 1) 0 .lineStart], st.lastNonBlank, st.commonIndent,
              .lineStart, st.keptCommonIndent⟩ cfin
            hml' hlast' (fun h => absurd h hes) hL' (fun _ => hLp) (Or.inl (by simp [mlRole]))
            hci hcf hb2 hrest
            (by rw [show p + 4 * L + 1 + (elemsText L true es).length + 1 =
                  p + (4 * L + (0 + 1 + (elemsText L true es).length)) + 1 by omega]
                exact hf)
            (by omega)
          have hesE : es.isEmpty = false := by
            cases es with
            | nil => exact absurd rfl hes
            | cons _ _ => rfl
          refine ⟨.text (p + 4 * L) (p + 4 * L + 1) 0 .lineStart :: phs, tr, ?_, ?_⟩
          · rw [hloop]
            have := MPh_ne hrel hes
            simp only [hesE, Bool.false_eq_true, if_false, List.append_assoc, List.singleton_append, List.length_append,
              List.length_cons, List.length_nil, List.isEmpty_cons]
            congr 2
            cases phs with
            | nil => exact absurd rfl this
            | cons _ _ => simp; omega
          · simp only [MPh]
            have heff : effStart cfin (p + 4 * L) 0 .lineStart = p + 4 * L := by
              cases cfin <;> simp [effStart]
            refine ⟨p + 4 * L, p + 4 * L + 1, 0, .lineStart, phs, rfl, ⟨?_, hb2, ?_, by simp, ?_⟩, hrel⟩
            · rw [heff]; exact hbI
            · rw [heff]; simp [at_cons, hatv.1]
            · simp [hesE, heff]
        · -- a line that starts with a text element
          have hlsok : lineStartOK v es = true := by
            simp only [Bool.not_true, Bool.false_or, Bool.or_eq_true, beq_iff_eq] at hls
            rcases hls with h | h
            · exact absurd h hblank
            · exact h
          have hvb : (v != [10]) = true := by simpa using hblank
          simp only [excesses, Bool.true_and, hvb, if_true, List.singleton_append, ciAfter] at hci hcf
          have hcfin : cfin = some (4 * L) := hcf (by simp)
          have hsplit := leadSpaces_split v
          generalize hk : leadSpaces v = k at hsplit hci
          have hvlen' : v.length = k + (v.dropWhile (fun b => b == 32)).length := by
            have := congrArg List.length hsplit; simpa [spacesL] using this
          have hatv2 : At s (p + 4 * L) (spacesL k) ∧ At s (p + 4 * L + k) (v.dropWhile (fun b => b == 32)) := by
            rw [hsplit, at_append] at hatv; simpa [spacesL] using hatv
          have hsp' : ∀ j, j < 4 * L + k → s[p + j]? = some 32 := by
            intro j hj
            by_cases h1 : j < 4 * L
            · exact hsp j h1
            · have := at_spaces s (p + 4 * L) k hatv2.1 (j - 4 * L) (by omega)
              rwa [show p + 4 * L + (j - 4 * L) = p + j by omega] at this
          have hbc : Bnd s (p + (4 * L + k)) := by
            have := hsp' (4 * L + k - 1) (by omega)
            have := bnd_succ hs this (by decide)
            rwa [show p + (4 * L + k - 1) + 1 = p + (4 * L + k) by omega] at this
          have heff : effStart cfin p (4 * L + k) .lineStart = p + 4 * L := by
            simp [effStart, hcfin]
          cases hu : v.dropWhile (fun b => b == 32) with
          | nil =>
            -- only spaces, in front of a placeable
            rw [hu] at hvlen'
            simp only [lineStartOK, hu] at hlsok
            obtain ⟨x, es', rfl⟩ : ∃ x es', es = .placeable x :: es' := by
              cases es with
              | nil => simp at hlsok
              | cons e es' => cases e with
                | text w => simp at hlsok
                | placeable x => exact ⟨x, es', rfl⟩
            simp only [crPad, List.nil_append, List.length_nil, Nat.zero_add] at hrest hf hq'
            have hnv : endsNl v = false := by
              have hk0 : 0 < k := by simp at hvlen'; omega
              have hv2 : v = spacesL k := by rw [hu] at hsplit; simpa using hsplit
              have : v.getLast? = some 32 := by
                rw [hv2]; simp [spacesL, List.getLast?_replicate]; omega
              simp [endsNl, this]
            rw [hnv] at hml' hci hcf hrest hf hq'
            have hxp := hpl' x (List.mem_cons_self)
            simp only [List.length_nil, Nat.add_zero] at hvlen'
            have hrest' : At s (p + (4 * L + k)) (elemsText L false (.placeable x :: es') ++ [10]) := by
              rw [hvlen'] at hrest; rwa [Nat.add_assoc] at hrest
            have h123 : s[p + (4 * L + k)]? = some 123 := by
              have := hrest'
              simp only [elemsText, Bool.false_eq_true, if_false, List.nil_append, List.append_assoc] at this
              rw [at_append] at this
              exact at_head this.1 hxp.head
            rw [step_ls_led s m st p (4 * L) k hroleT (by omega) hsp' h123]
            obtain ⟨phs, tr, hloop, hrel⟩ := ih' false m _ q'
              ⟨st.elements ++ [.text p (p + (4 * L + k)) (4 * L + k) .lineStart], st.lastNonBlank,
                ciStep (4 * L) st.commonIndent k, .continuation, st.keptCommonIndent⟩ cfin
              hml' hlast' (fun h => by cases h) hL' (fun h => by cases h) (Or.inl (by simp [mlRole]))
              hci (fun _ => hcfin) hbc hrest'
              (by rw [hvlen'] at hf
                  rw [show p + (4 * L + k) + (elemsText L false (.placeable x :: es')).length + 1 =
                    p + (4 * L + (k + (elemsText L false (.placeable x :: es')).length)) + 1 by omega]
                  exact hf)
              (by rw [hvlen'] at hq'; omega)
            refine ⟨.text p (p + (4 * L + k)) (4 * L + k) .lineStart :: phs, tr, ?_, ?_⟩
            · rw [hloop]
              have := MPh_ne hrel (by simp)
              simp only [List.isEmpty_cons, Bool.false_eq_true, if_false, List.append_assoc, List.singleton_append,
                List.length_append, List.length_cons, List.length_nil]
              congr 2
              cases phs with
              | nil => exact absurd rfl this
              | cons _ _ => simp; omega
            · simp only [MPh]
              refine ⟨p, p + (4 * L + k), 4 * L + k, .lineStart, phs, rfl, ⟨?_, hbc, ?_, hvne, ?_⟩, hrel⟩
              · rw [heff]; exact hbI
              · rw [heff]; exact hatv
              · simp only [List.isEmpty_cons, Bool.false_eq_true, if_false, heff]; omega
          | cons c u' =>
            rw [hu] at hvlen' hatv2
            simp only [lineStartOK, hu] at hlsok
            have hc0 : s[p + (4 * L + k)]? = some c := by
              have := hatv2.2; rw [at_cons] at this; rw [← Nat.add_assoc]; exact this.1
            have hcm : c ∈ v := by rw [hsplit, hu]; simp
            obtain ⟨hcont, hc32⟩ := cont_of_start c hlsok (mlTextOK_mem hvok c hcm).2
            have hc10 : c ≠ 10 := by simp [contentStartOK] at hlsok; exact hlsok.1.1.1.2
            have hklt : k < v.length := by simp at hvlen'; omega
            have hdrop : v.drop k = c :: u' := by rw [← hu, dropWhile_eq_drop, hk]
            have huok : mlTextOK (c :: u') = true := by rw [← hdrop]; exact mlTextOK_drop hvok k hklt
            have hveq : v = spacesL k ++ (c :: u') := by rw [← hu]; exact hsplit
            have hulast : (c :: u').getLast? = v.getLast? := by
              rw [hveq, List.getLast?_append]
              cases hg : (c :: u').getLast? with
              | none => simp at hg
              | some y => rfl
            have hatu : At s (p + (4 * L + k)) (c :: u') := by rw [← Nat.add_assoc]; exact hatv2.2
            have hulen : p + (4 * L + k) + (c :: u').length = p + 4 * L + v.length := by rw [hvlen']; omega
            rcases hnext with ⟨hnv, hes⟩ | ⟨hnv, hes, x, hx, x1, x2, x3⟩ | ⟨hnv, x, es', hes⟩ | ⟨hnv, hcr, es', hes⟩
            · -- the text ends its line
              have hpad := hpad3 (Or.inl hnv)
              rw [hpad] at hrest hf hq'
              simp only [List.nil_append, List.length_nil, Nat.zero_add] at hrest hf hq'
              have hnu : endsNl (c :: u') = true := by simp only [endsNl, hulast]; exact hnv
              have hts := mlSlice_nl s (c :: u') huok hnu _ hatu
              have hnb : ((c :: u').dropLast.any fun b => b != 32) = true := by
                cases u' with
                | nil => simp [endsNl] at hnu; exact absurd hnu hc10
                | cons y ys => simp [hc32]
              rw [hnb, hulen] at hts
              have hlf : s[p + 4 * L + v.length - 1]? = some 10 := by
                have hg := at_get hatv (v.length - 1) (by omega)
                rw [show p + 4 * L + (v.length - 1) = p + 4 * L + v.length - 1 by omega] at hg
                rw [hg]
                have : v.getLast? = some 10 := by simpa [endsNl] using hnv
                rw [List.getLast?_eq_getElem?, List.getElem?_eq_getElem (by omega)] at this
                exact this
              have hb2 : Bnd s (p + 4 * L + v.length) := by
                have := bnd_succ hs hlf (by decide)
                rwa [show p + 4 * L + v.length - 1 + 1 = p + 4 * L + v.length by omega] at this
              have hsl := slice_ok (show p + (4 * L + k) ≤ p + 4 * L + v.length by omega) hbc hb2
              rw [step_ls_content s m st p (4 * L) k c _ _ .lineFeed hroleT (by omega) hsp' hc0 hc32 hcont hts (by omega) hsl]
              rw [hnv] at hml' hci hcf hrest hf hq'
              obtain ⟨phs, tr, hloop, hrel⟩ := ih' true m _ q'
                ⟨st.elements ++ [.text p (p + 4 * L + v.length) (4 * L + k) .lineStart], _,
                  ciStep (4 * L) st.commonIndent k, roleOf .lineFeed, _⟩ cfin
                hml' hlast' (fun h => absurd h hes) hL' (fun _ => hLp) (Or.inl (by simp [mlRole, roleOf]))
                hci (fun _ => hcfin) hb2 hrest
                (by rw [show p + 4 * L + v.length + (elemsText L true es).length + 1 =
                      p + (4 * L + (v.length + (elemsText L true es).length)) + 1 by omega]; exact hf)
                (by omega)
              have hesE : es.isEmpty = false := by
                cases es with
                | nil => exact absurd rfl hes
                | cons _ _ => rfl
              refine ⟨.text p (p + 4 * L + v.length) (4 * L + k) .lineStart :: phs, tr, ?_, ?_⟩
              · rw [hloop]
                have := MPh_ne hrel hes
                simp only [hesE, Bool.false_eq_true, if_false, List.append_assoc, List.singleton_append,
                  List.length_append, List.length_cons, List.length_nil, List.isEmpty_cons]
                congr 2
                cases phs with
                | nil => exact absurd rfl this
                | cons _ _ => simp; omega
              · simp only [MPh]
                refine ⟨p, p + 4 * L + v.length, 4 * L + k, .lineStart, phs, rfl, ⟨?_, hb2, ?_, hvne, ?_⟩, hrel⟩
                · rw [heff]; exact hbI
                · rw [heff]; exact hatv
                · simp [hesE, heff]
            · -- the last element
              have hpad := hpad3 (Or.inr (Or.inl hes))
              rw [hpad] at hrest hf hq'
              simp only [List.nil_append, List.length_nil, Nat.zero_add] at hrest hf hq'
              subst hes
              rw [hnv] at hrest hf hq' hci
              simp only [elemsText, List.nil_append, at_cons, List.length_nil, Nat.add_zero] at hrest hf hq'
              simp only [excesses, ciAfter] at hci
              have h10 := hrest.1
              have hnu : endsNl (c :: u') = false := by simp only [endsNl, hulast]; exact hnv
              have h10' : s[p + (4 * L + k) + (c :: u').length]? = some 10 := by rw [hulen]; exact h10
              have hts := mlSlice_last s (c :: u') huok hnu (by simp [endsCr, hulast, hx, x3]) _ hatu h10'
              have hnb : ((c :: u').any fun b => b != 32) = true := by simp [hc32]
              rw [hnb, hulen] at hts
              have hb2 : Bnd s (p + 4 * L + v.length + 1) := bnd_succ hs h10 (by decide)
              have hsl := slice_ok (show p + (4 * L + k) ≤ p + 4 * L + v.length + 1 by omega) hbc hb2
              rw [step_ls_content s m st p (4 * L) k c _ _ .lineFeed hroleT (by omega) hsp' hc0 hc32 hcont hts (by omega) hsl]
              have hsc : s[p + 4 * L + v.length - 1]? = some x := by
                have hg := at_get hatv (v.length - 1) (by omega)
                rw [show p + 4 * L + (v.length - 1) = p + 4 * L + v.length - 1 by omega] at hg
                rw [hg]
                rw [List.getLast?_eq_getElem?, List.getElem?_eq_getElem (by omega)] at hx
                exact hx
              have hsv : ((trimEnd s ⟨p + (4 * L + k), p + 4 * L + v.length + 1⟩).stop != p + (4 * L + k)) = true := by
                rw [trimEnd_lf s (p + (4 * L + k)) (p + 4 * L + v.length) x (by omega) h10 hsc x1 x3 x2]
                simp; omega
              obtain ⟨hle, h10s, hstop⟩ := hf
              obtain ⟨tr, htr⟩ := patternLoop_finish s q' (q' - (p + 4 * L + v.length + 1)) m (p + 4 * L + v.length + 1)
                ⟨st.elements ++ [.text p (p + 4 * L + v.length + 1) (4 * L + k) .lineStart], _,
                  ciStep (4 * L) st.commonIndent k, roleOf .lineFeed, _⟩
                rfl (by omega) (fun j h1 h2 => h10s j (by omega) h2)
                hstop (by omega)
              refine ⟨[.text p (p + 4 * L + v.length + 1) (4 * L + k) .lineStart], tr, ?_, ?_⟩
              · rw [htr]
                simp [hsv, hci]
              · simp only [MPh]
                refine ⟨p, p + 4 * L + v.length + 1, 4 * L + k, .lineStart, [], rfl, ⟨?_, hb2, ?_, hvne, ?_⟩, rfl⟩
                · rw [heff]; exact hbI
                · rw [heff]; exact hatv
                · simp only [List.isEmpty_nil, if_true, heff]
                  exact ⟨trivial, h10, x, hx, x1, x2, x3⟩
            · -- a placeable follows
              have hpad := hpad3 (Or.inr (Or.inr ⟨x, es', hes⟩))
              rw [hpad] at hrest hf hq'
              simp only [List.nil_append, List.length_nil, Nat.zero_add] at hrest hf hq'
              subst hes
              rw [hnv] at hml' hci hcf hrest hf hq'
              have hxp := hpl' x (List.mem_cons_self)
              have h123 : s[p + 4 * L + v.length]? = some 123 := by
                have := hrest
                simp only [elemsText, Bool.false_eq_true, if_false, List.nil_append, List.append_assoc] at this
                rw [at_append] at this
                exact at_head this.1 hxp.head
              have hnu : endsNl (c :: u') = false := by simp only [endsNl, hulast]; exact hnv
              have h123' : s[p + (4 * L + k) + (c :: u').length]? = some 123 := by rw [hulen]; exact h123
              have hts := mlSlice_brace s (c :: u') huok hnu _ hatu h123'
              have hnb : ((c :: u').any fun b => b != 32) = true := by simp [hc32]
              rw [hnb, hulen] at hts
              have hb2 : Bnd s (p + 4 * L + v.length) := bnd_of_ascii h123 (by decide)
              have hsl := slice_ok (show p + (4 * L + k) ≤ p + 4 * L + v.length by omega) hbc hb2
              rw [step_ls_content s m st p (4 * L) k c _ _ .placeableStart hroleT (by omega) hsp' hc0 hc32 hcont hts
                (by omega) hsl]
              obtain ⟨phs, tr, hloop, hrel⟩ := ih' false m _ q'
                ⟨st.elements ++ [.text p (p + 4 * L + v.length) (4 * L + k) .lineStart], _,
                  ciStep (4 * L) st.commonIndent k, roleOf .placeableStart, _⟩ cfin
                hml' hlast' (fun h => by cases h) hL' (fun h => by cases h) (Or.inl (by simp [mlRole, roleOf]))
                hci (fun _ => hcfin) hb2 hrest
                (by rw [show p + 4 * L + v.length + (elemsText L false (.placeable x :: es')).length + 1 =
                      p + (4 * L + (v.length + (elemsText L false (.placeable x :: es')).length)) + 1 by omega]
                    exact hf)
                (by omega)
              refine ⟨.text p (p + 4 * L + v.length) (4 * L + k) .lineStart :: phs, tr, ?_, ?_⟩
              · rw [hloop]
                have := MPh_ne hrel (by simp)
                simp only [List.isEmpty_cons, Bool.false_eq_true, if_false, List.append_assoc, List.singleton_append,
                  List.length_append, List.length_cons, List.length_nil]
                congr 2
                cases phs with
                | nil => exact absurd rfl this
                | cons _ _ => simp; omega
              · simp only [MPh]
                refine ⟨p, p + 4 * L + v.length, 4 * L + k, .lineStart, phs, rfl, ⟨?_, hb2, ?_, hvne, ?_⟩, hrel⟩
                · rw [heff]; exact hbI
                · rw [heff]; exact hatv
                · simp [heff]
            · -- the text ends with `\r` and `\r\n` follows (the writer has doubled the `\r`)
              subst hes
              rw [crPad_cr hcr, hnv] at hrest hf hq'
              rw [hnv] at hml' hci hcf
              simp only [List.cons_append, List.nil_append, at_cons, List.length_cons, List.length_nil] at hrest hf hq'
              obtain ⟨h13, hrest⟩ := hrest
              have h10 : s[p + 4 * L + v.length + 1]? = some 10 := at_head hrest (by simp [elemsText_text])
              have hnu : endsNl (c :: u') = false := by simp only [endsNl, hulast]; exact hnv
              have h13' : s[p + (4 * L + k) + (c :: u').length]? = some 13 := by rw [hulen]; exact h13
              have h10' : s[p + (4 * L + k) + (c :: u').length + 1]? = some 10 := by rw [hulen]; exact h10
              have hts := mlSlice_crlf s (c :: u') huok hnu _ hatu h13' h10'
              have hnb : ((c :: u').any fun b => b != 32) = true := by simp [hc32]
              rw [hnb, hulen] at hts
              have hb2 : Bnd s (p + 4 * L + v.length) := bnd_of_ascii h13 (by decide)
              have hb3 : Bnd s (p + 4 * L + v.length + 1) := bnd_succ hs h13 (by decide)
              have hsl := slice_ok (show p + (4 * L + k) ≤ p + 4 * L + v.length by omega) hbc hb2
              rw [step_ls_content s m st p (4 * L) k c _ _ .crlf hroleT (by omega) hsp' hc0 hc32 hcont hts
                (by omega) hsl]
              obtain ⟨phs, tr, hloop, hrel⟩ := ih' false m _ q'
                ⟨st.elements ++ [.text p (p + 4 * L + v.length) (4 * L + k) .lineStart], _,
                  ciStep (4 * L) st.commonIndent k, roleOf .crlf, _⟩ cfin
                hml' hlast' (fun h => by cases h) hL' (fun h => by cases h) (Or.inr ⟨rfl, rfl, es', rfl⟩)
                hci (fun _ => hcfin) hb3 hrest
                (by rw [show p + 4 * L + v.length + 1 + (elemsText L false (.text [10] :: es')).length + 1 =
                      p + (4 * L + (v.length + (0 + 1 + (elemsText L false (.text [10] :: es')).length))) + 1 by omega]
                    exact hf)
                (by omega)
              refine ⟨.text p (p + 4 * L + v.length) (4 * L + k) .lineStart :: phs, tr, ?_, ?_⟩
              · rw [hloop]
                have := MPh_ne hrel (by simp)
                simp only [List.isEmpty_cons, Bool.false_eq_true, if_false, List.append_assoc, List.singleton_append,
                  List.length_append, List.length_cons, List.length_nil]
                congr 2
                cases phs with
                | nil => exact absurd rfl this
                | cons _ _ => simp; omega
              · simp only [MPh]
                refine ⟨p, p + 4 * L + v.length, 4 * L + k, .lineStart, phs, rfl, ⟨?_, hb2, ?_, hvne, ?_⟩, hrel⟩
                · rw [heff]; exact hbI
                · rw [heff]; exact hatv
                · simp [heff]

end FluentProofs.Ser
