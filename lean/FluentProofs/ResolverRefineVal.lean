import FluentProofs.ResolverRefineDirty
/-!
# Simulation, normal outcomes: a `.val` outcome of the reference semantics is what the resolver model computes

`ValAll env f` — for each of the eight functions of `ResolverSpec` at fuel `f`: if the spec call started from the
abstraction of a clean scope `sc` (`locals = sc.localArgs`, `stack = sc.travelled`, `count = sc.placeables`,
`log = sc.errors`) returns `.val out count' log'`, then the corresponding model call with ANY fuel `≥ 3 * f`
returns `.ok (w ++ out, sc')` where `sc'` is `sc` with `placeables := count'`, `errors := log'` and every other
field unchanged (so `localArgs` and `travelled` are restored, `dirty` is still false).
-/
namespace FluentProofs.ResolverRefine
open FluentModel FluentModel.Syntax FluentModel.Num FluentModel.Resolver FluentModel.ResolverSpec

/-- the stack the spec sees for the elements of `whole` when the code's `travelled` is `t`:
`maybe_track` pushes the pattern itself the first time a placeable is met with an empty `travelled` -/
def effStack (t : List (Pattern Bytes)) (whole : Pattern Bytes) : List (Pattern Bytes) :=
  if t.isEmpty then [whole] else t

theorem effStack_ne_nil (t : List (Pattern Bytes)) (whole : Pattern Bytes) : effStack t whole ≠ [] := by
  unfold effStack; split <;> simp_all

theorem effStack_of_ne_nil {t : List (Pattern Bytes)} (whole : Pattern Bytes) (h : t ≠ []) : effStack t whole = t := by
  unfold effStack; split <;> simp_all

theorem effStack_idem (t : List (Pattern Bytes)) (whole : Pattern Bytes) :
    effStack (effStack t whole) whole = effStack t whole := effStack_of_ne_nil _ (effStack_ne_nil _ _)

/-- one step of the element loop at a placeable below the limit -/
theorem writeElems_placeable (env : Env) (k : Nat) (whole : Pattern Bytes) (len : Nat) (e : Expr Bytes)
    (rest : List (PatElem Bytes)) (w : Bytes) (sc : Scope) (hd : sc.dirty = false)
    (hb : sc.placeables + 1 ≤ Generated.maxPlaceables) :
    writeElems env (k + 1) whole len (.placeable e :: rest) w sc =
      match writeExpr env k e (if (env.useIsolating && decide (len > 1) && isolatable e) = true then w ++ fsi else w)
          ⟨sc.localArgs, sc.placeables + 1, effStack sc.travelled whole, sc.errors, false⟩ with
      | .ok (w2, sc3) =>
        writeElems env k whole len rest
          (if (env.useIsolating && decide (len > 1) && isolatable e) = true then
            (if sc3.dirty = true then w2 ++ braced (exprWriteError e) else w2) ++ pdi
           else (if sc3.dirty = true then w2 ++ braced (exprWriteError e) else w2)) sc3
      | .panic m => .panic m
      | .fuel => .fuel := by
  have h255 : ¬ (sc.placeables + 1 > 255) := by simp [Generated.maxPlaceables] at hb; omega
  have hmax : ¬ (sc.placeables + 1 > Generated.maxPlaceables) := by omega
  have hsc : (if sc.travelled.isEmpty = true then
        ({ localArgs := sc.localArgs, placeables := sc.placeables + 1, travelled := [whole], errors := sc.errors, dirty := false } : Scope)
      else { localArgs := sc.localArgs, placeables := sc.placeables + 1, travelled := sc.travelled, errors := sc.errors, dirty := false })
      = ⟨sc.localArgs, sc.placeables + 1, effStack sc.travelled whole, sc.errors, false⟩ := by
    unfold effStack; split <;> simp
  simp only [writeElems, hd, h255, hmax, if_false, Bool.false_eq_true]
  rw [hsc]
  rfl

/-- the step that trips the limit -/
theorem writeElems_limit (env : Env) (k : Nat) (whole : Pattern Bytes) (len : Nat) (e : Expr Bytes)
    (rest : List (PatElem Bytes)) (w : Bytes) (sc : Scope) (hd : sc.dirty = false)
    (hb : sc.placeables ≤ Generated.maxPlaceables) (hl : sc.placeables + 1 > Generated.maxPlaceables) :
    writeElems env (k + 1) whole len (.placeable e :: rest) w sc =
      .ok (w, ⟨sc.localArgs, sc.placeables + 1, sc.travelled, sc.errors ++ [.tooManyPlaceables], true⟩) := by
  have h255 : ¬ (sc.placeables + 1 > 255) := by simp [Generated.maxPlaceables] at hb; omega
  simp [writeElems, hd, h255, hl, Scope.addError]

theorem writeElems_text (env : Env) (k : Nat) (whole : Pattern Bytes) (len : Nat) (v : Bytes)
    (rest : List (PatElem Bytes)) (w : Bytes) (sc : Scope) (hd : sc.dirty = false) :
    writeElems env (k + 1) whole len (.text v :: rest) w sc =
      writeElems env k whole len rest (w ++ (match env.transform with | some f => f v | .none => v)) sc := by
  simp only [writeElems, hd, Bool.false_eq_true, if_false]
  rfl


abbrev mx : Nat := Generated.maxPlaceables

/-- the variant chosen by a select expression: the first whose key matches a string or number selector -/
def chosen (env : Env) (vs : List (Variant Bytes)) : Value → RR (Option (Pattern Bytes))
  | .str b => selectVariant env vs (.str b)
  | .num n => selectVariant env vs (.num n)
  | _ => .ok .none

/-- `Expression::write` on a select expression, once the selector is resolved -/
theorem writeExpr_select (env : Env) (k : Nat) (sel : Inline Bytes) (vs : List (Variant Bytes)) (w : Bytes)
    (sc : Scope) (selector : Value) (sc1 : Scope) (h : resolveInline env k sel sc = .ok (selector, sc1)) :
    writeExpr env (k + 1) (.select sel vs) w sc =
      match chosen env vs selector with
      | .ok (some v) => writePattern env k v w sc1
      | .ok .none => writeDefault env k vs w sc1
      | .panic m => .panic m
      | .fuel => .fuel := by
  simp only [writeExpr, h]
  cases selector <;> rfl

/-- the spec's select clause in terms of `chosen` -/
theorem evalExpr_select (c : Ctx) (f : Nat) (sel : Inline Bytes) (vs : List (Variant Bytes)) (count : Nat) (log : List RErr) :
    evalExpr c (f + 1) (.select sel vs) count log =
      match evalValue c f sel count log with
      | .val selector count' log' =>
        (match chosen c.env vs selector with
         | .ok (some v) => evalElems c f v.length v count' log'
         | .ok .none =>
           (match defaultVariant vs with
            | some v => evalElems c f v.length v count' log'
            | .none => .val [] count' (log' ++ [.missingDefault]))
         | .panic m => .panic m
         | .fuel => .fuel)
      | .limit l => .limit l
      | .panic m => .panic m
      | .fuel => .fuel := by
  simp only [evalExpr]
  generalize evalValue c f sel count log = r
  cases r with
  | val selector c' l' => cases selector <;> rfl
  | _ => rfl

/-- the pattern a term reference points at -/
def termTarget (env : Env) (id : Bytes) (attr : Option Bytes) : Option (Pattern Bytes) :=
  match env.term id with
  | some t => (match attr with
    | some a => findAttr t.attributes a
    | .none => some t.value)
  | .none => .none

/-- `InlineExpression::write`, `TermReference` arm, once the call arguments are resolved -/
theorem writeInline_term (env : Env) (k : Nat) (id : Bytes) (attr : Option Bytes)
    (args : Option (List (Inline Bytes) × List (Bytes × Inline Bytes))) (w : Bytes) (sc : Scope)
    (rp : List Value) (named : ArgList) (sc1 : Scope) (h : getArguments env k args sc = .ok ((rp, named), sc1)) :
    writeInline env (k + 1) (.term id attr args) w sc =
      match (match termTarget env id attr with
          | some p => track env k p (.term id attr args) w { sc1 with localArgs := some named }
          | .none => writeRefError w { sc1 with localArgs := some named } (.term id attr args)) with
      | .ok (w1, sc3) => .ok (w1, { sc3 with localArgs := sc1.localArgs })
      | .panic m => .panic m
      | .fuel => .fuel := by
  simp only [writeInline, h]
  rfl

theorem evalInline_term (c : Ctx) (f : Nat) (id : Bytes) (attr : Option Bytes)
    (args : Option (List (Inline Bytes) × List (Bytes × Inline Bytes))) (count : Nat) (log : List RErr) :
    evalInline c (f + 1) (.term id attr args) count log =
      match evalArgs c f args count log with
      | .val (_, named) count' log' =>
        (match termTarget c.env id attr with
         | some p => evalRef { c with locals := some named } f p (.term id attr args) count' log'
         | .none => .val (braced (inlineWriteError (.term id attr args))) count' (log' ++ [.reference (.term id attr)]))
      | .limit l => .limit l
      | .panic m => .panic m
      | .fuel => .fuel := by
  simp only [evalInline]
  rfl

/-- a scope in which a call may start: the limit has not been exceeded, the counter is within the limit, and some
pattern is being resolved (true everywhere below the top-level `Pattern::write`) -/
structure Good (sc : Scope) : Prop where
  clean : sc.dirty = false
  bound : sc.placeables ≤ mx
  stack : sc.travelled ≠ []

/-- `sc` after a call that returned normally: new counter and log, every other field as before -/
def upd (sc : Scope) (count : Nat) (log : List RErr) : Scope := ⟨sc.localArgs, count, sc.travelled, log, false⟩

theorem upd_good {sc : Scope} (h : Good sc) {count : Nat} (log : List RErr) (hc : count ≤ mx) : Good (upd sc count log) :=
  ⟨rfl, hc, h.stack⟩

/-- the spec context that abstracts a scope -/
abbrev ctxOf (env : Env) (sc : Scope) : Ctx := ⟨env, sc.localArgs, sc.travelled⟩

def ValAll (env : Env) (f : Nat) : Prop :=
  (∀ whole len es sc st out count' log', sc.dirty = false → sc.placeables ≤ mx → st = effStack sc.travelled whole →
     evalElems ⟨env, sc.localArgs, st⟩ f len es sc.placeables sc.errors = .val out count' log' →
     count' ≤ mx ∧ ∀ fuel', 3 * f ≤ fuel' → ∀ w, ∃ t', (t' = sc.travelled ∨ t' = st) ∧
       writeElems env fuel' whole len es w sc = .ok (w ++ out, ⟨sc.localArgs, count', t', log', false⟩)) ∧
  (∀ p src sc out count' log', Good sc →
     evalRef (ctxOf env sc) f p src sc.placeables sc.errors = .val out count' log' →
     count' ≤ mx ∧ ∀ fuel', 3 * f ≤ fuel' → ∀ w, track env fuel' p src w sc = .ok (w ++ out, upd sc count' log')) ∧
  (∀ e sc out count' log', Good sc →
     evalExpr (ctxOf env sc) f e sc.placeables sc.errors = .val out count' log' →
     count' ≤ mx ∧ ∀ fuel', 3 * f ≤ fuel' → ∀ w, writeExpr env fuel' e w sc = .ok (w ++ out, upd sc count' log')) ∧
  (∀ e sc out count' log', Good sc →
     evalInline (ctxOf env sc) f e sc.placeables sc.errors = .val out count' log' →
     count' ≤ mx ∧ ∀ fuel', 3 * f ≤ fuel' → ∀ w, writeInline env fuel' e w sc = .ok (w ++ out, upd sc count' log')) ∧
  (∀ e sc v count' log', Good sc →
     evalValue (ctxOf env sc) f e sc.placeables sc.errors = .val v count' log' →
     count' ≤ mx ∧ ∀ fuel', 3 * f ≤ fuel' → resolveInline env fuel' e sc = .ok (v, upd sc count' log')) ∧
  (∀ a sc v count' log', Good sc →
     evalArgs (ctxOf env sc) f a sc.placeables sc.errors = .val v count' log' →
     count' ≤ mx ∧ ∀ fuel', 3 * f ≤ fuel' → getArguments env fuel' a sc = .ok (v, upd sc count' log')) ∧
  (∀ es sc v count' log', Good sc →
     evalList (ctxOf env sc) f es sc.placeables sc.errors = .val v count' log' →
     count' ≤ mx ∧ ∀ fuel', 3 * f ≤ fuel' → resolveList env fuel' es sc = .ok (v, upd sc count' log')) ∧
  (∀ es sc v count' log', Good sc →
     evalNamed (ctxOf env sc) f es sc.placeables sc.errors = .val v count' log' →
     count' ≤ mx ∧ ∀ fuel', 3 * f ≤ fuel' → resolveNamed env fuel' es sc = .ok (v, upd sc count' log'))

theorem valAll (env : Env) : ∀ f, ValAll env f := by
  intro f
  induction f with
  | zero =>
    refine ⟨?_, ?_, ?_, ?_, ?_, ?_, ?_, ?_⟩ <;> intros <;>
      simp_all [evalElems, evalRef, evalExpr, evalInline, evalValue, evalArgs, evalList, evalNamed]
  | succ f ih =>
    obtain ⟨iElems, iRef, iExpr, iInl, iVal, iArgs, iList, iNamed⟩ := ih
    have hPat : ∀ v sc1 out c2 l2, Good sc1 →
        evalElems (ctxOf env sc1) f v.length v sc1.placeables sc1.errors = .val out c2 l2 →
        c2 ≤ mx ∧ ∀ fuel', 3 * f + 1 ≤ fuel' → ∀ w, writePattern env fuel' v w sc1 = .ok (w ++ out, upd sc1 c2 l2) := by
      intro v sc1 out c2 l2 hg1 hs
      obtain ⟨hb2, hM⟩ := iElems v v.length v sc1 sc1.travelled out c2 l2 hg1.clean hg1.bound
        (effStack_of_ne_nil _ hg1.stack).symm hs
      refine ⟨hb2, fun fuel' hf w => ?_⟩
      obtain ⟨k, rfl⟩ : ∃ k, fuel' = k + 1 := ⟨fuel' - 1, by omega⟩
      obtain ⟨t', ht', hw⟩ := hM k (by omega) w
      have ht : t' = sc1.travelled := by rcases ht' with h | h <;> exact h
      subst ht
      simpa [writePattern, upd] using hw
    refine ⟨?_, ?_, ?_, ?_, ?_, ?_, ?_, ?_⟩
    · -- evalElems / writeElems
      intro whole len es sc st out count' log' hd hb hst hs
      match es with
      | [] =>
        simp only [evalElems, Out.val.injEq] at hs
        obtain ⟨rfl, rfl, rfl⟩ := hs
        refine ⟨hb, fun fuel' hf w => ⟨sc.travelled, .inl rfl, ?_⟩⟩
        obtain ⟨k, rfl⟩ : ∃ k, fuel' = k + 1 := ⟨fuel' - 1, by omega⟩
        simp [writeElems, ← hd]
      | .text v :: rest =>
        simp only [evalElems] at hs
        split at hs
        · rename_i r c2 l2 hR
          simp only [Out.val.injEq] at hs
          obtain ⟨rfl, rfl, rfl⟩ := hs
          obtain ⟨hb2, hM⟩ := iElems whole len rest sc st r c2 l2 hd hb hst hR
          refine ⟨hb2, fun fuel' hf w => ?_⟩
          obtain ⟨k, rfl⟩ : ∃ k, fuel' = k + 1 := ⟨fuel' - 1, by omega⟩
          obtain ⟨t', ht', hw⟩ := hM k (by omega) (w ++ (match env.transform with | some f => f v | .none => v))
          refine ⟨t', ht', ?_⟩
          rw [writeElems_text _ _ _ _ _ _ _ _ hd, hw]
          cases env.transform <;> simp
        · rename_i hne
          exact absurd hs (by intro h; exact hne _ _ _ h)
      | .placeable e :: rest =>
        simp only [evalElems] at hs
        split at hs
        · cases hs
        · rename_i hlim
          split at hs
          · rename_i s c1 l1 hE
            split at hs
            · rename_i r c2 l2 hR
              simp only [Out.val.injEq] at hs
              obtain ⟨rfl, rfl, rfl⟩ := hs
              have hg2 : Good ⟨sc.localArgs, sc.placeables + 1, st, sc.errors, false⟩ :=
                ⟨rfl, Nat.le_of_not_gt hlim, by rw [hst]; exact effStack_ne_nil _ _⟩
              obtain ⟨hb1, hME⟩ := iExpr e _ s c1 l1 hg2 hE
              obtain ⟨hb2, hMR⟩ := iElems whole len rest (upd ⟨sc.localArgs, sc.placeables + 1, st, sc.errors, false⟩ c1 l1)
                st r c2 l2 rfl hb1 (by show st = effStack st whole; rw [hst, effStack_idem]) hR
              refine ⟨hb2, fun fuel' hf w => ?_⟩
              obtain ⟨k, rfl⟩ : ∃ k, fuel' = k + 1 := ⟨fuel' - 1, by omega⟩
              have hb' : sc.placeables + 1 ≤ Generated.maxPlaceables := by omega
              rw [writeElems_placeable _ _ _ _ _ _ _ _ hd hb', ← hst, hME k (by omega)]
              dsimp only [upd]
              obtain ⟨t', ht', hw⟩ := hMR k (by omega)
                (if (env.useIsolating && decide (len > 1) && isolatable e) = true then
                  ((if (env.useIsolating && decide (len > 1) && isolatable e) = true then w ++ fsi else w) ++ s) ++ pdi
                 else ((if (env.useIsolating && decide (len > 1) && isolatable e) = true then w ++ fsi else w) ++ s))
              refine ⟨t', .inr (by rcases ht' with h | h <;> exact h), ?_⟩
              simp only [Bool.false_eq_true, if_false]
              simp only [upd] at hw ⊢
              rw [hw]
              split <;> simp
            · rename_i hne
              exact absurd hs (by intro h; exact hne _ _ _ h)
          all_goals cases hs
    · -- evalRef / track
      intro p src sc out count' log' hg hs
      have hd := hg.clean
      simp only [evalRef] at hs
      split at hs
      · rename_i hc
        simp only [Out.val.injEq] at hs
        obtain ⟨rfl, rfl, rfl⟩ := hs
        refine ⟨hg.bound, fun fuel' hf w => ?_⟩
        obtain ⟨k, rfl⟩ : ∃ k, fuel' = k + 1 := ⟨fuel' - 1, by omega⟩
        simp [track, hc, Scope.addError, upd, hd]
      · rename_i hc
        obtain ⟨hb2, hM⟩ := iElems p p.length p ⟨sc.localArgs, sc.placeables, sc.travelled ++ [p], sc.errors, false⟩
          (sc.travelled ++ [p]) out count' log' rfl hg.bound (by rw [effStack_of_ne_nil]; simp) hs
        refine ⟨hb2, fun fuel' hf w => ?_⟩
        obtain ⟨k, rfl⟩ : ∃ k, fuel' = k + 2 := ⟨fuel' - 2, by omega⟩
        obtain ⟨t', ht', hw⟩ := hM k (by omega) w
        have ht : t' = sc.travelled ++ [p] := by rcases ht' with h | h <;> exact h
        subst ht
        simp only [track, hc, writePattern, hd, Bool.false_eq_true, if_false]
        rw [hw]
        simp [upd]
    · -- evalExpr / writeExpr
      intro e sc out count' log' hg hs
      match e with
      | .inline e =>
        simp only [evalExpr] at hs
        obtain ⟨hb2, hM⟩ := iInl e sc out count' log' hg hs
        refine ⟨hb2, fun fuel' hf w => ?_⟩
        obtain ⟨k, rfl⟩ : ∃ k, fuel' = k + 1 := ⟨fuel' - 1, by omega⟩
        simp only [writeExpr]
        exact hM k (by omega) w
      | .select sel vs =>
        rw [evalExpr_select] at hs
        split at hs
        · rename_i selector c1 l1 hV
          obtain ⟨hb1, hMV⟩ := iVal sel sc selector c1 l1 hg hV
          have hg1 := upd_good hg l1 hb1
          have key : ∀ k, 3 * f + 2 ≤ k → ∀ w, writeExpr env (k + 1) (.select sel vs) w sc = _ :=
            fun k hk w => writeExpr_select env k sel vs w sc selector _ (hMV k (by omega))
          revert hs key
          generalize chosen env vs selector = ch
          intro hs key
          match ch with
          | .ok (some v) =>
            simp only [] at hs
            obtain ⟨hb2, hM⟩ := hPat v (upd sc c1 l1) out count' log' hg1 hs
            refine ⟨hb2, fun fuel' hf w => ?_⟩
            obtain ⟨k, rfl⟩ : ∃ k, fuel' = k + 1 := ⟨fuel' - 1, by omega⟩
            rw [key k (by omega) w]
            exact hM k (by omega) w
          | .ok .none =>
            simp only [] at hs
            split at hs
            · rename_i v hdv
              obtain ⟨hb2, hM⟩ := hPat v (upd sc c1 l1) out count' log' hg1 hs
              refine ⟨hb2, fun fuel' hf w => ?_⟩
              obtain ⟨k, rfl⟩ : ∃ k, fuel' = k + 2 := ⟨fuel' - 2, by omega⟩
              rw [key (k + 1) (by omega) w]
              simp only [writeDefault, hdv]
              exact hM k (by omega) w
            · rename_i hdv
              simp only [Out.val.injEq] at hs
              obtain ⟨rfl, rfl, rfl⟩ := hs
              refine ⟨hb1, fun fuel' hf w => ?_⟩
              obtain ⟨k, rfl⟩ : ∃ k, fuel' = k + 2 := ⟨fuel' - 2, by omega⟩
              rw [key (k + 1) (by omega) w]
              simp [writeDefault, hdv, Scope.addError, upd]
          | .panic m => simp at hs
          | .fuel => simp at hs
        all_goals cases hs
    · -- evalInline / writeInline
      intro e sc out count' log' hg hs
      have hd := hg.clean
      match e with
      | .str v =>
        simp only [evalInline, Out.val.injEq] at hs
        obtain ⟨rfl, rfl, rfl⟩ := hs
        refine ⟨hg.bound, fun fuel' hf w => ?_⟩
        obtain ⟨k, rfl⟩ : ∃ k, fuel' = k + 1 := ⟨fuel' - 1, by omega⟩
        simp [writeInline, upd, ← hd]
      | .num v =>
        simp only [evalInline, Out.val.injEq] at hs
        obtain ⟨rfl, rfl, rfl⟩ := hs
        refine ⟨hg.bound, fun fuel' hf w => ?_⟩
        obtain ⟨k, rfl⟩ : ∃ k, fuel' = k + 1 := ⟨fuel' - 1, by omega⟩
        simp [writeInline, upd, ← hd]
      | .placeable e =>
        simp only [evalInline] at hs
        obtain ⟨hb2, hM⟩ := iExpr e sc out count' log' hg hs
        refine ⟨hb2, fun fuel' hf w => ?_⟩
        obtain ⟨k, rfl⟩ : ∃ k, fuel' = k + 1 := ⟨fuel' - 1, by omega⟩
        simp only [writeInline]
        exact hM k (by omega) w
      | .var id =>
        simp only [evalInline] at hs
        refine ⟨by (repeat' split at hs) <;> simp only [Out.val.injEq] at hs <;> obtain ⟨_, rfl, _⟩ := hs <;> exact hg.bound,
          fun fuel' hf w => ?_⟩
        obtain ⟨k, rfl⟩ : ∃ k, fuel' = k + 1 := ⟨fuel' - 1, by omega⟩
        simp only [writeInline]
        cases hl : sc.localArgs with
        | some l =>
          simp only [hl] at hs
          cases hget : l.get id with
          | some v => simp [hget] at hs ⊢; obtain ⟨rfl, rfl, rfl⟩ := hs; cases sc; simp_all [upd]
          | none => simp [hget] at hs ⊢; obtain ⟨rfl, rfl, rfl⟩ := hs; cases sc; simp_all [upd]
        | none =>
          simp only [hl] at hs
          cases hget : env.args.bind (·.get id) with
          | some v => simp [hget] at hs ⊢; obtain ⟨rfl, rfl, rfl⟩ := hs; cases sc; simp_all [upd]
          | none => simp [hget] at hs ⊢; obtain ⟨rfl, rfl, rfl⟩ := hs; simp [upd, hd, hl, Scope.addError]
      | .msg id attr =>
        simp only [evalInline] at hs
        cases hm : env.msg id with
        | none =>
          simp only [hm, Out.val.injEq] at hs
          obtain ⟨rfl, rfl, rfl⟩ := hs
          refine ⟨hg.bound, fun fuel' hf w => ?_⟩
          obtain ⟨k, rfl⟩ : ∃ k, fuel' = k + 1 := ⟨fuel' - 1, by omega⟩
          simp [writeInline, hm, writeRefError, refKindOf, Scope.addError, upd, hd]
        | some m =>
          simp only [hm] at hs
          cases attr with
          | some a =>
            simp only [] at hs
            cases hfa : findAttr m.attributes a with
            | some p =>
              simp only [hfa] at hs
              obtain ⟨hb2, hM⟩ := iRef p (.msg id (some a)) sc out count' log' hg hs
              refine ⟨hb2, fun fuel' hf w => ?_⟩
              obtain ⟨k, rfl⟩ : ∃ k, fuel' = k + 1 := ⟨fuel' - 1, by omega⟩
              simp only [writeInline, hm, hfa]
              exact hM k (by omega) w
            | none =>
              simp only [hfa, Out.val.injEq] at hs
              obtain ⟨rfl, rfl, rfl⟩ := hs
              refine ⟨hg.bound, fun fuel' hf w => ?_⟩
              obtain ⟨k, rfl⟩ : ∃ k, fuel' = k + 1 := ⟨fuel' - 1, by omega⟩
              simp [writeInline, hm, hfa, writeRefError, refKindOf, Scope.addError, upd, hd]
          | none =>
            simp only [] at hs
            cases hv : m.value with
            | some p =>
              simp only [hv] at hs
              obtain ⟨hb2, hM⟩ := iRef p (.msg id .none) sc out count' log' hg hs
              refine ⟨hb2, fun fuel' hf w => ?_⟩
              obtain ⟨k, rfl⟩ : ∃ k, fuel' = k + 1 := ⟨fuel' - 1, by omega⟩
              simp only [writeInline, hm, hv]
              exact hM k (by omega) w
            | none =>
              simp only [hv, Out.val.injEq] at hs
              obtain ⟨rfl, rfl, rfl⟩ := hs
              refine ⟨hg.bound, fun fuel' hf w => ?_⟩
              obtain ⟨k, rfl⟩ : ∃ k, fuel' = k + 1 := ⟨fuel' - 1, by omega⟩
              simp [writeInline, hm, hv, Scope.addError, upd, hd]
      | .fn id pos named =>
        simp only [evalInline] at hs
        split at hs
        · rename_i rp rn c1 l1 hA
          obtain ⟨hb1, hMA⟩ := iArgs (some (pos, named)) sc (rp, rn) c1 l1 hg hA
          have hc1 : count' = c1 := by
            (repeat' split at hs) <;> simp only [Out.val.injEq] at hs <;> exact hs.2.1.symm
          refine ⟨hc1 ▸ hb1, fun fuel' hf w => ?_⟩
          obtain ⟨k, rfl⟩ : ∃ k, fuel' = k + 1 := ⟨fuel' - 1, by omega⟩
          simp only [writeInline, hMA k (by omega)]
          cases hfn : env.fn id with
          | none =>
            simp only [hfn, Out.val.injEq] at hs
            obtain ⟨rfl, rfl, rfl⟩ := hs
            simp [writeRefError, refKindOf, Scope.addError, upd]
          | some fn =>
            simp only [hfn] at hs ⊢
            split at hs
            · rename_i hr
              simp only [Out.val.injEq] at hs
              obtain ⟨rfl, rfl, rfl⟩ := hs
              simp [hr]
            · rename_i hr
              simp only [Out.val.injEq] at hs
              obtain ⟨rfl, rfl, rfl⟩ := hs
              split
              · rename_i hr'; exact absurd hr' hr
              · rfl
        all_goals cases hs
      | .term id attr args =>
        rw [evalInline_term] at hs
        split at hs
        · rename_i rp named c1 l1 hA
          obtain ⟨hb1, hMA⟩ := iArgs args sc (rp, named) c1 l1 hg hA
          have key : ∀ k, 3 * f ≤ k → ∀ w, writeInline env (k + 1) (.term id attr args) w sc = _ :=
            fun k hk w => writeInline_term env k id attr args w sc rp named _ (hMA k hk)
          simp only [] at hs
          cases ht : termTarget env id attr with
          | none =>
            simp only [ht, Out.val.injEq] at hs
            obtain ⟨rfl, rfl, rfl⟩ := hs
            refine ⟨hb1, fun fuel' hf w => ?_⟩
            obtain ⟨k, rfl⟩ : ∃ k, fuel' = k + 1 := ⟨fuel' - 1, by omega⟩
            rw [key k (by omega) w, ht]
            simp [writeRefError, refKindOf, Scope.addError, upd]
          | some p =>
            simp only [ht] at hs
            have hg2 : Good ⟨some named, c1, sc.travelled, l1, false⟩ := ⟨rfl, hb1, hg.stack⟩
            obtain ⟨hb2, hM⟩ := iRef p (.term id attr args) _ out count' log' hg2 hs
            refine ⟨hb2, fun fuel' hf w => ?_⟩
            obtain ⟨k, rfl⟩ : ∃ k, fuel' = k + 1 := ⟨fuel' - 1, by omega⟩
            rw [key k (by omega) w, ht]
            simp only [upd] at hM ⊢
            rw [hM k (by omega) w]
        all_goals cases hs
    · -- evalValue / resolveInline
      intro e sc v count' log' hg hs
      have hd := hg.clean
      have hw : ∀ e : Inline Bytes,
          (match evalInline (ctxOf env sc) f e sc.placeables sc.errors with
            | .val s count' log' => Out.val (Value.str s) count' log'
            | .limit l => .limit l
            | .panic m => .panic m
            | .fuel => .fuel) = .val v count' log' →
          count' ≤ mx ∧ ∀ k, 3 * f ≤ k →
            (match writeInline env k e [] sc with
              | .ok (w, sc1) => RR.ok (Value.str w, sc1)
              | .panic m => .panic m
              | .fuel => .fuel) = .ok (v, upd sc count' log') := by
        intro e hs
        split at hs
        · rename_i s c1 l1 hI
          simp only [Out.val.injEq] at hs
          obtain ⟨rfl, rfl, rfl⟩ := hs
          obtain ⟨hb2, hM⟩ := iInl e sc s c1 l1 hg hI
          exact ⟨hb2, fun k hk => by rw [hM k hk []]; simp⟩
        all_goals cases hs
      match e with
      | .str s =>
        simp only [evalValue, Out.val.injEq] at hs
        obtain ⟨rfl, rfl, rfl⟩ := hs
        refine ⟨hg.bound, fun fuel' hf => ?_⟩
        obtain ⟨k, rfl⟩ : ∃ k, fuel' = k + 1 := ⟨fuel' - 1, by omega⟩
        simp [resolveInline, upd, ← hd]
      | .num s =>
        simp only [evalValue, Out.val.injEq] at hs
        obtain ⟨rfl, rfl, rfl⟩ := hs
        refine ⟨hg.bound, fun fuel' hf => ?_⟩
        obtain ⟨k, rfl⟩ : ∃ k, fuel' = k + 1 := ⟨fuel' - 1, by omega⟩
        simp [resolveInline, upd, ← hd]
      | .placeable e =>
        simp only [evalValue] at hs
        obtain ⟨hb2, hM⟩ := hw _ hs
        refine ⟨hb2, fun fuel' hf => ?_⟩
        obtain ⟨k, rfl⟩ : ∃ k, fuel' = k + 1 := ⟨fuel' - 1, by omega⟩
        simp only [resolveInline]
        exact hM k (by omega)
      | .msg id attr =>
        simp only [evalValue] at hs
        obtain ⟨hb2, hM⟩ := hw _ hs
        refine ⟨hb2, fun fuel' hf => ?_⟩
        obtain ⟨k, rfl⟩ : ∃ k, fuel' = k + 1 := ⟨fuel' - 1, by omega⟩
        simp only [resolveInline]
        exact hM k (by omega)
      | .term id attr args =>
        simp only [evalValue] at hs
        obtain ⟨hb2, hM⟩ := hw _ hs
        refine ⟨hb2, fun fuel' hf => ?_⟩
        obtain ⟨k, rfl⟩ : ∃ k, fuel' = k + 1 := ⟨fuel' - 1, by omega⟩
        simp only [resolveInline]
        exact hM k (by omega)
      | .var id =>
        simp only [evalValue] at hs
        refine ⟨by (repeat' split at hs) <;> simp only [Out.val.injEq] at hs <;> obtain ⟨_, rfl, _⟩ := hs <;> exact hg.bound,
          fun fuel' hf => ?_⟩
        obtain ⟨k, rfl⟩ : ∃ k, fuel' = k + 1 := ⟨fuel' - 1, by omega⟩
        simp only [resolveInline]
        cases hl : sc.localArgs with
        | some l =>
          simp only [hl] at hs
          cases hget : l.get id with
          | some v => simp [hget] at hs ⊢; obtain ⟨rfl, rfl, rfl⟩ := hs; cases sc; simp_all [upd]
          | none => simp [hget] at hs ⊢; obtain ⟨rfl, rfl, rfl⟩ := hs; cases sc; simp_all [upd]
        | none =>
          simp only [hl] at hs
          cases hget : env.args.bind (·.get id) with
          | some v => simp [hget] at hs ⊢; obtain ⟨rfl, rfl, rfl⟩ := hs; cases sc; simp_all [upd]
          | none => simp [hget] at hs ⊢; obtain ⟨rfl, rfl, rfl⟩ := hs; simp [upd, hd, hl, Scope.addError]
      | .fn id pos named =>
        simp only [evalValue] at hs
        split at hs
        · rename_i rp rn c1 l1 hA
          obtain ⟨hb1, hMA⟩ := iArgs (some (pos, named)) sc (rp, rn) c1 l1 hg hA
          have hc1 : count' = c1 := by
            (repeat' split at hs) <;> simp only [Out.val.injEq] at hs <;> exact hs.2.1.symm
          refine ⟨hc1 ▸ hb1, fun fuel' hf => ?_⟩
          obtain ⟨k, rfl⟩ : ∃ k, fuel' = k + 1 := ⟨fuel' - 1, by omega⟩
          simp only [resolveInline, hMA k (by omega)]
          cases hfn : env.fn id with
          | none =>
            simp only [hfn, Out.val.injEq] at hs
            obtain ⟨rfl, rfl, rfl⟩ := hs
            simp [Scope.addError, upd]
          | some fn =>
            simp only [hfn, Out.val.injEq] at hs ⊢
            obtain ⟨rfl, rfl, rfl⟩ := hs
            rfl
        all_goals cases hs
    · -- evalArgs / getArguments
      intro a sc v count' log' hg hs
      have hd := hg.clean
      match a with
      | .none =>
        simp only [evalArgs, Out.val.injEq] at hs
        obtain ⟨rfl, rfl, rfl⟩ := hs
        refine ⟨hg.bound, fun fuel' hf => ?_⟩
        obtain ⟨k, rfl⟩ : ∃ k, fuel' = k + 1 := ⟨fuel' - 1, by omega⟩
        simp [getArguments, upd, ← hd]
      | some (pos, named) =>
        simp only [evalArgs] at hs
        split at hs
        · rename_i vs c1 l1 hL
          obtain ⟨hb1, hML⟩ := iList pos sc vs c1 l1 hg hL
          split at hs
          · rename_i ns c2 l2 hN
            simp only [Out.val.injEq] at hs
            obtain ⟨rfl, rfl, rfl⟩ := hs
            obtain ⟨hb2, hMN⟩ := iNamed named (upd sc c1 l1) ns c2 l2 (upd_good hg l1 hb1) hN
            refine ⟨hb2, fun fuel' hf => ?_⟩
            obtain ⟨k, rfl⟩ : ∃ k, fuel' = k + 1 := ⟨fuel' - 1, by omega⟩
            simp only [getArguments, hML k (by omega), hMN k (by omega)]
            simp [upd]
          all_goals cases hs
        all_goals cases hs
    · -- evalList / resolveList
      intro es sc v count' log' hg hs
      have hd := hg.clean
      match es with
      | [] =>
        simp only [evalList, Out.val.injEq] at hs
        obtain ⟨rfl, rfl, rfl⟩ := hs
        refine ⟨hg.bound, fun fuel' hf => ?_⟩
        obtain ⟨k, rfl⟩ : ∃ k, fuel' = k + 1 := ⟨fuel' - 1, by omega⟩
        simp [resolveList, upd, ← hd]
      | e :: es =>
        simp only [evalList] at hs
        split at hs
        · rename_i v1 c1 l1 hV
          obtain ⟨hb1, hMV⟩ := iVal e sc v1 c1 l1 hg hV
          split at hs
          · rename_i vs c2 l2 hL
            simp only [Out.val.injEq] at hs
            obtain ⟨rfl, rfl, rfl⟩ := hs
            obtain ⟨hb2, hML⟩ := iList es (upd sc c1 l1) vs c2 l2 (upd_good hg l1 hb1) hL
            refine ⟨hb2, fun fuel' hf => ?_⟩
            obtain ⟨k, rfl⟩ : ∃ k, fuel' = k + 1 := ⟨fuel' - 1, by omega⟩
            simp only [resolveList, hMV k (by omega), hML k (by omega)]
            simp [upd]
          · rename_i hne
            exact absurd hs (by intro h; exact hne _ _ _ h)
        all_goals cases hs
    · -- evalNamed / resolveNamed
      intro es sc v count' log' hg hs
      have hd := hg.clean
      match es with
      | [] =>
        simp only [evalNamed, Out.val.injEq] at hs
        obtain ⟨rfl, rfl, rfl⟩ := hs
        refine ⟨hg.bound, fun fuel' hf => ?_⟩
        obtain ⟨k, rfl⟩ : ∃ k, fuel' = k + 1 := ⟨fuel' - 1, by omega⟩
        simp [resolveNamed, upd, ← hd]
      | (n, e) :: es =>
        simp only [evalNamed] at hs
        split at hs
        · rename_i v1 c1 l1 hV
          obtain ⟨hb1, hMV⟩ := iVal e sc v1 c1 l1 hg hV
          split at hs
          · rename_i vs c2 l2 hL
            simp only [Out.val.injEq] at hs
            obtain ⟨rfl, rfl, rfl⟩ := hs
            obtain ⟨hb2, hML⟩ := iNamed es (upd sc c1 l1) vs c2 l2 (upd_good hg l1 hb1) hL
            refine ⟨hb2, fun fuel' hf => ?_⟩
            obtain ⟨k, rfl⟩ : ∃ k, fuel' = k + 1 := ⟨fuel' - 1, by omega⟩
            simp only [resolveNamed, hMV k (by omega), hML k (by omega)]
            simp [upd]
          · rename_i hne
            exact absurd hs (by intro h; exact hne _ _ _ h)
        all_goals cases hs

end FluentProofs.ResolverRefine
