import FluentModel.Resolver
/-!
# The fuel of the resolver model is an artefact (C06, part 4): results do not depend on it

If a function of the mutual block returns anything but `.fuel` at fuel `n`, it returns the same at
every larger fuel.  So "the" result of a call is well defined (the value at any sufficient fuel), and
`Props/C06.format_total` gives an explicit sufficient fuel.
-/
namespace FluentProofs.Resolver
open FluentModel FluentModel.Syntax FluentModel.Resolver

structure Mono (env : Env) (n : Nat) : Prop where
  writeElems : ∀ whole len els w sc, writeElems env n whole len els w sc ≠ .fuel →
    writeElems env (n + 1) whole len els w sc = writeElems env n whole len els w sc
  writePattern : ∀ p w sc, writePattern env n p w sc ≠ .fuel →
    writePattern env (n + 1) p w sc = writePattern env n p w sc
  track : ∀ p e w sc, track env n p e w sc ≠ .fuel → track env (n + 1) p e w sc = track env n p e w sc
  writeExpr : ∀ e w sc, writeExpr env n e w sc ≠ .fuel → writeExpr env (n + 1) e w sc = writeExpr env n e w sc
  writeDefault : ∀ vs w sc, writeDefault env n vs w sc ≠ .fuel →
    writeDefault env (n + 1) vs w sc = writeDefault env n vs w sc
  writeInline : ∀ e w sc, writeInline env n e w sc ≠ .fuel →
    writeInline env (n + 1) e w sc = writeInline env n e w sc
  resolveInline : ∀ e sc, resolveInline env n e sc ≠ .fuel →
    resolveInline env (n + 1) e sc = resolveInline env n e sc
  getArguments : ∀ a sc, getArguments env n a sc ≠ .fuel →
    getArguments env (n + 1) a sc = getArguments env n a sc
  resolveList : ∀ es sc, resolveList env n es sc ≠ .fuel →
    resolveList env (n + 1) es sc = resolveList env n es sc
  resolveNamed : ∀ es sc, resolveNamed env n es sc ≠ .fuel →
    resolveNamed env (n + 1) es sc = resolveNamed env n es sc

theorem mono_zero (env : Env) : Mono env 0 := by
  constructor <;> intros <;> rename_i h <;> exfalso <;> apply h <;>
    simp [writeElems, writePattern, track, writeExpr, writeDefault, writeInline,
      resolveInline, getArguments, resolveList, resolveNamed]

section step
variable {env : Env} {n : Nat} (IH : Mono env n)
include IH

theorem writePattern_mono (p : Pattern Bytes) (w : Bytes) (sc : Scope)
    (h : writePattern env (n + 1) p w sc ≠ .fuel) :
    writePattern env (n + 1 + 1) p w sc = writePattern env (n + 1) p w sc := by
  simp only [writePattern] at h ⊢
  exact IH.writeElems _ _ _ _ _ h

theorem writeDefault_mono (vs : List (Variant Bytes)) (w : Bytes) (sc : Scope)
    (h : writeDefault env (n + 1) vs w sc ≠ .fuel) :
    writeDefault env (n + 1 + 1) vs w sc = writeDefault env (n + 1) vs w sc := by
  simp only [writeDefault] at h ⊢
  cases hd : defaultVariant vs with
  | none => rfl
  | some v => rw [hd] at h; exact IH.writePattern _ _ _ h

theorem track_mono (p : Pattern Bytes) (e : Inline Bytes) (w : Bytes) (sc : Scope)
    (h : track env (n + 1) p e w sc ≠ .fuel) :
    track env (n + 1 + 1) p e w sc = track env (n + 1) p e w sc := by
  simp only [track] at h ⊢
  by_cases hc : travelledContains sc.travelled p = true
  · simp only [hc, if_true]
  · simp only [hc] at h ⊢
    have hA : writePattern env n p w { sc with travelled := sc.travelled ++ [p] } ≠ .fuel := by
      intro e; rw [e] at h; exact h rfl
    rw [IH.writePattern _ _ _ hA]

theorem select_tail_mono (vs : List (Variant Bytes)) (w : Bytes) (sc1 : Scope) (selector : Value)
    (h : (match selectVariant env vs selector with
      | .ok (some v) => writePattern env n v w sc1
      | .ok .none => writeDefault env n vs w sc1
      | .panic m => .panic m
      | .fuel => .fuel) ≠ .fuel) :
    (match selectVariant env vs selector with
      | .ok (some v) => writePattern env (n + 1) v w sc1
      | .ok .none => writeDefault env (n + 1) vs w sc1
      | .panic m => .panic m
      | .fuel => .fuel) =
    (match selectVariant env vs selector with
      | .ok (some v) => writePattern env n v w sc1
      | .ok .none => writeDefault env n vs w sc1
      | .panic m => .panic m
      | .fuel => .fuel) := by
  rcases hs : selectVariant env vs selector with ⟨_ | v⟩ | ⟨m⟩ | _ <;> rw [hs] at h <;> simp only [] at h ⊢
  · exact IH.writeDefault _ _ _ h
  · exact IH.writePattern _ _ _ h

theorem writeExpr_mono (e : Expr Bytes) (w : Bytes) (sc : Scope)
    (h : writeExpr env (n + 1) e w sc ≠ .fuel) :
    writeExpr env (n + 1 + 1) e w sc = writeExpr env (n + 1) e w sc := by
  cases e with
  | inline e => simp only [writeExpr] at h ⊢; exact IH.writeInline _ _ _ h
  | select sel vs =>
    simp only [writeExpr] at h ⊢
    have hA : resolveInline env n sel sc ≠ .fuel := by intro e; rw [e] at h; exact h rfl
    rw [IH.resolveInline _ _ hA]
    rcases hr : resolveInline env n sel sc with ⟨⟨selector, sc1⟩⟩ | ⟨m⟩ | _ <;> rw [hr] at h <;> simp only [] at h ⊢
    cases selector with
    | str b => exact select_tail_mono IH vs w sc1 _ h
    | num b => exact select_tail_mono IH vs w sc1 _ h
    | custom t => exact IH.writeDefault _ _ _ h
    | none => exact IH.writeDefault _ _ _ h
    | error => exact IH.writeDefault _ _ _ h

theorem getArguments_mono (a : Option (List (Inline Bytes) × List (Bytes × Inline Bytes))) (sc : Scope)
    (h : getArguments env (n + 1) a sc ≠ .fuel) :
    getArguments env (n + 1 + 1) a sc = getArguments env (n + 1) a sc := by
  cases a with
  | none => simp only [getArguments]
  | some pn =>
    obtain ⟨pos, named⟩ := pn
    simp only [getArguments] at h ⊢
    have hA : resolveList env n pos sc ≠ .fuel := by intro e; rw [e] at h; exact h rfl
    rw [IH.resolveList _ _ hA]
    rcases hr : resolveList env n pos sc with ⟨⟨vs, sc1⟩⟩ | ⟨m⟩ | _ <;> rw [hr] at h <;> simp only [] at h ⊢
    have hB : resolveNamed env n named sc1 ≠ .fuel := by intro e; rw [e] at h; exact h rfl
    rw [IH.resolveNamed _ _ hB]

theorem resolveList_mono (es : List (Inline Bytes)) (sc : Scope)
    (h : resolveList env (n + 1) es sc ≠ .fuel) :
    resolveList env (n + 1 + 1) es sc = resolveList env (n + 1) es sc := by
  cases es with
  | nil => simp only [resolveList]
  | cons e es =>
    simp only [resolveList] at h ⊢
    have hA : resolveInline env n e sc ≠ .fuel := by intro e; rw [e] at h; exact h rfl
    rw [IH.resolveInline _ _ hA]
    rcases hr : resolveInline env n e sc with ⟨⟨v, sc1⟩⟩ | ⟨m⟩ | _ <;> rw [hr] at h <;> simp only [] at h ⊢
    have hB : resolveList env n es sc1 ≠ .fuel := by intro e; rw [e] at h; exact h rfl
    rw [IH.resolveList _ _ hB]

theorem resolveNamed_mono (es : List (Bytes × Inline Bytes)) (sc : Scope)
    (h : resolveNamed env (n + 1) es sc ≠ .fuel) :
    resolveNamed env (n + 1 + 1) es sc = resolveNamed env (n + 1) es sc := by
  cases es with
  | nil => simp only [resolveNamed]
  | cons ke es =>
    obtain ⟨k, e⟩ := ke
    simp only [resolveNamed] at h ⊢
    have hA : resolveInline env n e sc ≠ .fuel := by intro e; rw [e] at h; exact h rfl
    rw [IH.resolveInline _ _ hA]
    rcases hr : resolveInline env n e sc with ⟨⟨v, sc1⟩⟩ | ⟨m⟩ | _ <;> rw [hr] at h <;> simp only [] at h ⊢
    have hB : resolveNamed env n es sc1 ≠ .fuel := by intro e; rw [e] at h; exact h rfl
    rw [IH.resolveNamed _ _ hB]

omit IH in
theorem restore_congr {r r' : RR (Bytes × Scope)} (outer : Option ArgList) : r' = r →
    (match r' with
      | .ok (w1, sc3) => (.ok (w1, { sc3 with localArgs := outer }) : RR (Bytes × Scope))
      | .panic m => .panic m
      | .fuel => .fuel) =
    (match r with
      | .ok (w1, sc3) => (.ok (w1, { sc3 with localArgs := outer }) : RR (Bytes × Scope))
      | .panic m => .panic m
      | .fuel => .fuel) := by intro h; rw [h]

omit IH in
theorem restore_ne_fuel' {r : RR (Bytes × Scope)} {outer : Option ArgList}
    (h : (match r with
      | .ok (w1, sc3) => (.ok (w1, { sc3 with localArgs := outer }) : RR (Bytes × Scope))
      | .panic m => .panic m
      | .fuel => .fuel) ≠ .fuel) : r ≠ .fuel := by
  intro e; rw [e] at h; exact h rfl

theorem writeInline_mono (e : Inline Bytes) (w : Bytes) (sc : Scope)
    (h : writeInline env (n + 1) e w sc ≠ .fuel) :
    writeInline env (n + 1 + 1) e w sc = writeInline env (n + 1) e w sc := by
  cases e with
  | str v => simp only [writeInline]
  | num v => simp only [writeInline]
  | var id => simp only [writeInline]
  | placeable e => simp only [writeInline] at h ⊢; exact IH.writeExpr _ _ _ h
  | msg id attr =>
    simp only [writeInline] at h ⊢
    cases hm : env.msg id with
    | none => rfl
    | some m =>
      rw [hm] at h
      cases attr with
      | some a =>
        simp only [] at h ⊢
        cases hp : findAttr m.attributes a with
        | none => rfl
        | some p => rw [hp] at h; exact IH.track _ _ _ _ h
      | none =>
        simp only [] at h ⊢
        cases hp : m.value with
        | none => rfl
        | some p => rw [hp] at h; exact IH.track _ _ _ _ h
  | fn id pos named =>
    simp only [writeInline] at h ⊢
    have hA : getArguments env n (some (pos, named)) sc ≠ .fuel := by intro e; rw [e] at h; exact h rfl
    rw [IH.getArguments _ _ hA]
  | term id attr args =>
    simp only [writeInline] at h ⊢
    have hA : getArguments env n args sc ≠ .fuel := by intro e; rw [e] at h; exact h rfl
    rw [IH.getArguments _ _ hA]
    rcases hr : getArguments env n args sc with ⟨⟨⟨rp, named⟩, sc1⟩⟩ | ⟨m⟩ | _ <;> rw [hr] at h <;> simp only [] at h ⊢
    have h' := restore_ne_fuel' h
    apply restore_congr
    cases ht : env.term id with
    | none => rfl
    | some t =>
      rw [ht] at h'
      cases attr with
      | none => exact IH.track _ _ _ _ h'
      | some a =>
        simp only [] at h' ⊢
        cases hp : findAttr t.attributes a with
        | none => rfl
        | some p => rw [hp] at h'; exact IH.track _ _ _ _ h'

theorem resolveInline_mono (e : Inline Bytes) (sc : Scope)
    (h : resolveInline env (n + 1) e sc ≠ .fuel) :
    resolveInline env (n + 1 + 1) e sc = resolveInline env (n + 1) e sc := by
  have viaWrite : (match writeInline env n e [] sc with
        | .ok (w, sc1) => (.ok (.str w, sc1) : RR (Value × Scope))
        | .panic m => .panic m
        | .fuel => .fuel) ≠ .fuel →
      (match writeInline env (n + 1) e [] sc with
        | .ok (w, sc1) => (.ok (.str w, sc1) : RR (Value × Scope))
        | .panic m => .panic m
        | .fuel => .fuel) =
      (match writeInline env n e [] sc with
        | .ok (w, sc1) => (.ok (.str w, sc1) : RR (Value × Scope))
        | .panic m => .panic m
        | .fuel => .fuel) := by
    intro h
    have hA : writeInline env n e [] sc ≠ .fuel := by intro e; rw [e] at h; exact h rfl
    rw [IH.writeInline _ _ _ hA]
  cases e with
  | str v => simp only [resolveInline]
  | num v => simp only [resolveInline]
  | var id => simp only [resolveInline]
  | fn id pos named =>
    simp only [resolveInline] at h ⊢
    have hA : getArguments env n (some (pos, named)) sc ≠ .fuel := by intro e; rw [e] at h; exact h rfl
    rw [IH.getArguments _ _ hA]
  | msg id attr => simp only [resolveInline] at h ⊢; exact viaWrite h
  | term id attr args => simp only [resolveInline] at h ⊢; exact viaWrite h
  | placeable e => simp only [resolveInline] at h ⊢; exact viaWrite h

theorem writeElems_mono (whole : Pattern Bytes) (len : Nat) (els : List (PatElem Bytes)) (w : Bytes) (sc : Scope)
    (h : writeElems env (n + 1) whole len els w sc ≠ .fuel) :
    writeElems env (n + 1 + 1) whole len els w sc = writeElems env (n + 1) whole len els w sc := by
  cases els with
  | nil => simp only [writeElems]
  | cons el rest =>
    cases el with
    | text v =>
      simp only [writeElems] at h ⊢
      by_cases hd : sc.dirty = true
      · simp only [if_pos hd]
      · simp only [if_neg hd] at h ⊢
        exact IH.writeElems _ _ _ _ _ h
    | placeable e =>
      simp only [writeElems] at h ⊢
      by_cases hd : sc.dirty = true
      · simp only [if_pos hd]
      simp only [if_neg hd] at h ⊢
      by_cases h1 : sc.placeables + 1 > 255
      · simp only [if_pos h1]
      simp only [if_neg h1] at h ⊢
      by_cases h2 : ({ sc with placeables := sc.placeables + 1 } : Scope).placeables > Generated.maxPlaceables
      · simp only [if_pos h2]
      simp only [if_neg h2] at h ⊢
      generalize (if ({ sc with placeables := sc.placeables + 1 } : Scope).travelled.isEmpty = true
          then { sc with placeables := sc.placeables + 1, travelled := [whole] }
          else { sc with placeables := sc.placeables + 1 }) = sc2 at h ⊢
      generalize (if (env.useIsolating && decide (len > 1) && isolatable e) = true then w ++ fsi else w) = w1 at h ⊢
      have hA : writeExpr env n e w1 sc2 ≠ .fuel := by intro e; rw [e] at h; exact h rfl
      rw [IH.writeExpr _ _ _ hA]
      rcases hr : writeExpr env n e w1 sc2 with ⟨⟨w2, sc3⟩⟩ | ⟨m⟩ | _ <;> rw [hr] at h <;> simp only [] at h ⊢
      exact IH.writeElems _ _ _ _ _ h

end step

theorem mono_all (env : Env) : ∀ n, Mono env n := by
  intro n
  induction n with
  | zero => exact mono_zero env
  | succ n IH =>
    exact ⟨writeElems_mono IH, writePattern_mono IH, track_mono IH, writeExpr_mono IH, writeDefault_mono IH,
      writeInline_mono IH, resolveInline_mono IH, getArguments_mono IH, resolveList_mono IH, resolveNamed_mono IH⟩

theorem writePattern_fuel_irrelevant (env : Env) (n k : Nat) (p : Pattern Bytes) (w : Bytes) (sc : Scope)
    (h : writePattern env n p w sc ≠ .fuel) : writePattern env (n + k) p w sc = writePattern env n p w sc := by
  induction k with
  | zero => rfl
  | succ k ih =>
    have := (mono_all env (n + k)).writePattern p w sc (by rw [ih]; exact h)
    rw [← Nat.add_assoc, this, ih]

theorem resolvePattern_fuel_irrelevant (env : Env) (n k : Nat) (p : Pattern Bytes) (sc : Scope)
    (h : resolvePattern env n p sc ≠ .fuel) : resolvePattern env (n + k) p sc = resolvePattern env n p sc := by
  by_cases hp : ∃ v, p = [.text v]
  · obtain ⟨v, rfl⟩ := hp; rfl
  · have key : ∀ m, resolvePattern env m p sc = writePattern env m p [] sc := by
      intro m; unfold resolvePattern
      split
      · rename_i v; exact absurd ⟨v, rfl⟩ hp
      · rfl
    rw [key] at h
    rw [key, key]
    exact writePattern_fuel_irrelevant env n k p [] sc h

theorem formatPattern_fuel_irrelevant (env : Env) (n m : Nat) (hnm : n ≤ m) (p : Pattern Bytes)
    (h : formatPattern env n p ≠ .fuel) : formatPattern env m p = formatPattern env n p := by
  obtain ⟨k, rfl⟩ := Nat.exists_eq_add_of_le hnm
  unfold formatPattern at *
  have hA : resolvePattern env n p {} ≠ .fuel := by intro e; simp only [e] at h; exact h rfl
  rw [resolvePattern_fuel_irrelevant env n k p {} hA]

theorem writePatternTop_fuel_irrelevant (env : Env) (n m : Nat) (hnm : n ≤ m) (p : Pattern Bytes)
    (h : writePatternTop env n p ≠ .fuel) : writePatternTop env m p = writePatternTop env n p := by
  obtain ⟨k, rfl⟩ := Nat.exists_eq_add_of_le hnm
  unfold writePatternTop at *
  have hA : writePattern env n p [] {} ≠ .fuel := by intro e; simp only [e] at h; exact h rfl
  rw [writePattern_fuel_irrelevant env n k p [] {} hA]

end FluentProofs.Resolver
