import FluentProofs.SerializerCongr
import FluentProofs.ParserBasics
/-!
# Serializer lemmas, part 3: the text of an inline expression (C04 / T2, serializer half)

`inlineBytes e` is the byte string the serializer writes for the inline expression `e`; for every
`validInline` expression `serInline w e = some (w.writeLiteral (inlineBytes e))` — whatever the
state of the writer — by mutual structural induction (`serInline_eq_bytes`).
-/
namespace FluentProofs.Ser
open FluentModel FluentModel.Syntax FluentModel.Syntax.Ser FluentProofs.Parser

/-! ## the literals -/
@[simp] theorem lit_quote : lit "\"" = [34] := rfl
@[simp] theorem lit_dollar : lit "$" = [36] := rfl
@[simp] theorem lit_lparen : lit "(" = [40] := rfl
@[simp] theorem lit_rparen : lit ")" = [41] := rfl
@[simp] theorem lit_dot : lit "." = [46] := rfl
@[simp] theorem lit_minus : lit "-" = [45] := rfl
@[simp] theorem lit_lbrace : lit "{" = [123] := rfl
@[simp] theorem lit_rbrace : lit "}" = [125] := rfl
@[simp] theorem lit_comma : lit ", " = [44, 32] := rfl
@[simp] theorem lit_colon : lit ": " = [58, 32] := rfl
@[simp] theorem lit_lbrace_sp : lit "{ " = [123, 32] := rfl
@[simp] theorem lit_sp_rbrace : lit " }" = [32, 125] := rfl
@[simp] theorem lit_eq : lit " =" = [32, 61] := rfl
@[simp] theorem lit_sp : lit " " = [32] := rfl

/-! ## validity (decidable) -/

/-- `[a-zA-Z][a-zA-Z0-9_-]*` -/
def validIdent : Bytes → Bool
  | [] => false
  | b :: rest => isAlpha b && rest.all isIdentByte

/-- a number literal without its sign -/
def numBody : Bytes → Bytes
  | 45 :: r => r
  | v => v

/-- `[0-9]+(\.[0-9]+)?` -/
def validNumBody (body : Bytes) : Bool :=
  !(body.takeWhile isDigit).isEmpty &&
    (match body.dropWhile isDigit with
     | [] => true
     | 46 :: fr => !fr.isEmpty && fr.all isDigit
     | _ => false)

/-- `-?[0-9]+(\.[0-9]+)?` -/
def validNumber (v : Bytes) : Bool := validNumBody (numBody v)

/-- body of a string literal: no raw `"` or `\n`, backslash only in `\\`, `\"`, `\uXXXX`, `\UXXXXXX` -/
def validStrBody : Bytes → Bool
  | [] => true
  | 92 :: 92 :: r => validStrBody r
  | 92 :: 34 :: r => validStrBody r
  | 92 :: 117 :: a :: b :: c :: d :: r =>
    isHexDigit a && isHexDigit b && isHexDigit c && isHexDigit d && validStrBody r
  | 92 :: 85 :: a :: b :: c :: d :: e :: f :: r =>
    isHexDigit a && isHexDigit b && isHexDigit c && isHexDigit d && isHexDigit e && isHexDigit f && validStrBody r
  | 92 :: _ => false
  | 34 :: _ => false
  | 10 :: _ => false
  | _ :: r => validStrBody r

/-- `is_callee` on the name -/
def isCalleeName (id : Bytes) : Bool := id.all fun c => isUpper c || isDigit c || c == 95 || c == 45

def isLiteral : Inline Bytes → Bool
  | .str _ => true
  | .num _ => true
  | _ => false

/-- what `get_inline_expression(only_literal = true)` accepts as the value of a named argument: string and
number literals, and — the `is_ascii_alphabetic` branch is not guarded by `only_literal` — message references
and function calls -/
def isNamedValue : Inline Bytes → Bool
  | .str _ => true
  | .num _ => true
  | .msg _ _ => true
  | .fn _ _ _ => true
  | _ => false

def optIdent : Option Bytes → Bool
  | none => true
  | some a => validIdent a

/-- named-argument names are pairwise different -/
def namesNodup (named : List (Bytes × Inline Bytes)) : Bool := decide (named.map Prod.fst).Nodup

mutual
/-- **`ValidInline`**: the inline expressions that can be written in FTL syntax: identifiers and
number literals well-shaped, string literals with valid escapes only and no raw newline/quote,
callee names upper-case, named-argument names unique with values that are literals, message references or
function calls (`isNamedValue`), a nested placeable
contains an inline expression (no select) that is not a term attribute. -/
def validInline : Inline Bytes → Bool
  | .str v => validStrBody v
  | .num v => validNumber v
  | .var id => validIdent id
  | .msg id attr => validIdent id && optIdent attr
  | .term id attr none => validIdent id && optIdent attr
  | .term id attr (some (pos, named)) =>
    validIdent id && optIdent attr && validInl pos && validNamed named && namesNodup named
  | .fn id pos named => validIdent id && isCalleeName id && validInl pos && validNamed named && namesNodup named
  | .placeable e => validInner e
def validInl : List (Inline Bytes) → Bool
  | [] => true
  | x :: xs => validInline x && validInl xs
def validNamed : List (Bytes × Inline Bytes) → Bool
  | [] => true
  | (n, v) :: xs => validIdent n && isNamedValue v && validInline v && validNamed xs
/-- the expression inside `{ … }` -/
def validInner : Expr Bytes → Bool
  | .inline (.term _ (some _) _) => false
  | .inline i => validInline i
  | .select _ _ => false
end

/-! ## the text -/

def attrBytes : Option Bytes → Bytes
  | none => []
  | some a => 46 :: a

mutual
/-- the text the serializer writes for an inline expression -/
def inlineBytes : Inline Bytes → Bytes
  | .str v => 34 :: (v ++ [34])
  | .num v => v
  | .var id => 36 :: id
  | .msg id attr => id ++ attrBytes attr
  | .term id attr none => 45 :: (id ++ attrBytes attr)
  | .term id attr (some (pos, named)) => 45 :: (id ++ attrBytes attr ++ 40 :: posTail pos named.isEmpty (namedTail named))
  | .fn id pos named => id ++ 40 :: posTail pos named.isEmpty (namedTail named)
  | .placeable e => 123 :: (innerBytes e ++ [125])
/-- positional arguments from the start of one of them, then the named ones, then `)` -/
def posTail : List (Inline Bytes) → (noNamed : Bool) → (namedText : Bytes) → Bytes
  | [], _, nt => nt
  | x :: xs, nn, nt => inlineBytes x ++ (if xs.isEmpty && nn then [] else [44, 32]) ++ posTail xs nn nt
/-- named arguments from the start of one of them, then `)` -/
def namedTail : List (Bytes × Inline Bytes) → Bytes
  | [] => [41]
  | (n, v) :: xs => n ++ [58, 32] ++ inlineBytes v ++ (if xs.isEmpty then [] else [44, 32]) ++ namedTail xs
def innerBytes : Expr Bytes → Bytes
  | .inline i => inlineBytes i
  | .select _ _ => []
end

/-! ## facts about valid pieces -/

theorem isHexDigit_ne10 : ∀ b : UInt8, isHexDigit b = true → b ≠ 10 := by apply forall_uint8; decide +kernel
theorem isIdentByte_ne : ∀ b : UInt8, isIdentByte b = true → b ≠ 10 ∧ b ≠ 13 := by apply forall_uint8; decide +kernel
theorem isAlpha_ne : ∀ b : UInt8, isAlpha b = true → b ≠ 10 ∧ b ≠ 13 := by apply forall_uint8; decide +kernel
theorem isDigit_ne : ∀ b : UInt8, isDigit b = true → b ≠ 10 ∧ b ≠ 13 := by apply forall_uint8; decide +kernel

theorem validStrBody_no_nl (v : Bytes) (h : validStrBody v = true) : 10 ∉ v := by
  fun_induction validStrBody v <;> simp_all
  all_goals grind [isHexDigit_ne10]

theorem mem_takeWhile_pred {α : Type} (p : α → Bool) (l : List α) : ∀ b ∈ l.takeWhile p, p b = true := by
  induction l with
  | nil => simp
  | cons x xs ih =>
    intro b hb
    rw [List.takeWhile_cons] at hb
    split at hb
    · simp at hb
      rcases hb with rfl | hb
      · assumption
      · exact ih b hb
    · simp at hb

/-- number literals: sign, integer digits, optional fraction -/
theorem validNumber_decomp (v : Bytes) (h : validNumber v = true) :
    ∃ sign ip frac : Bytes, v = sign ++ ip ++ frac ∧ (sign = [] ∨ sign = [45]) ∧ ip ≠ [] ∧
      (∀ b ∈ ip, isDigit b = true) ∧
      (frac = [] ∨ ∃ fr, frac = 46 :: fr ∧ fr ≠ [] ∧ ∀ b ∈ fr, isDigit b = true) := by
  unfold validNumber validNumBody at h
  generalize hbody : numBody v = body at h
  simp only [Bool.and_eq_true, Bool.not_eq_true', List.isEmpty_eq_false_iff] at h
  obtain ⟨h1, h2⟩ := h
  have key : ∀ body : Bytes, body.takeWhile isDigit ≠ [] →
      (match body.dropWhile isDigit with
       | [] => true
       | 46 :: fr => !fr.isEmpty && fr.all isDigit
       | _ => false) = true →
      ∃ ip frac : Bytes, body = ip ++ frac ∧ ip ≠ [] ∧ (∀ b ∈ ip, isDigit b = true) ∧
        (frac = [] ∨ ∃ fr, frac = 46 :: fr ∧ fr ≠ [] ∧ ∀ b ∈ fr, isDigit b = true) := by
    intro body hb1 hb2
    refine ⟨body.takeWhile isDigit, body.dropWhile isDigit, (List.takeWhile_append_dropWhile).symm, hb1,
      mem_takeWhile_pred _ _, ?_⟩
    split at hb2
    · left; assumption
    · right
      rename_i fr heq
      simp at hb2
      exact ⟨fr, heq, hb2.1, hb2.2⟩
    · cases hb2
  obtain ⟨ip, frac, e, h3, h4, h5⟩ := key body h1 h2
  unfold numBody at hbody
  split at hbody
  · exact ⟨[45], ip, frac, by simp [← e, hbody], Or.inr rfl, h3, h4, h5⟩
  · exact ⟨[], ip, frac, by simp [← e, hbody], Or.inl rfl, h3, h4, h5⟩

/-- ends with a byte that is neither `\n` nor `\r` (so whatever is written next is simply appended) -/
def tidy (x : Bytes) : Bool :=
  match x.getLast? with
  | none => false
  | some b => b != 10 && b != 13

theorem tidy_joinOK {a : Bytes} (h : tidy a = true) (b : Bytes) : JoinOK a b := by
  unfold tidy at h
  split at h
  · cases h
  · rename_i x hx
    simp at h
    refine ⟨by intro h0; simp [h0] at hx, by simp [hx, h.1], by simp [hx, h.2]⟩

theorem join_tidy (w : Writer) (a b : Bytes) (h : tidy a = true) :
    (w.writeLiteral a).writeLiteral b = w.writeLiteral (a ++ b) := writeLiteral_join w a b (tidy_joinOK h b)

theorem tidy_append (a b : Bytes) (h : tidy b = true) : tidy (a ++ b) = true := by
  unfold tidy at h ⊢
  split at h
  · cases h
  · rename_i x hx; simp [List.getLast?_append, hx, h]

theorem tidy_append_nil (a : Bytes) (h : tidy a = true) : tidy (a ++ []) = true := by simpa using h

theorem tidy_concat (a : Bytes) (c : UInt8) (h1 : c ≠ 10) (h2 : c ≠ 13) : tidy (a ++ [c]) = true := by
  apply tidy_append; simp [tidy, h1, h2]

theorem tidy_of_all (x : Bytes) (hne : x ≠ []) (h : ∀ b ∈ x, b ≠ 10 ∧ b ≠ 13) : tidy x = true := by
  unfold tidy
  cases hx : x.getLast? with
  | none => simp at hx; exact absurd hx hne
  | some b =>
    have := h b (List.mem_of_getLast? hx)
    simp [this]

theorem validIdent_ne_nil {id : Bytes} (h : validIdent id = true) : id ≠ [] := by
  cases id <;> simp_all [validIdent]

theorem validIdent_all {id : Bytes} (h : validIdent id = true) : ∀ b ∈ id, isIdentByte b = true := by
  cases id with
  | nil => simp [validIdent] at h
  | cons x xs =>
    simp [validIdent] at h
    intro b hb
    simp at hb
    rcases hb with rfl | hb
    · simp [isIdentByte, h.1]
    · exact h.2 b hb

theorem validIdent_tidy {id : Bytes} (h : validIdent id = true) : tidy id = true :=
  tidy_of_all id (validIdent_ne_nil h) (fun b hb => isIdentByte_ne b (validIdent_all h b hb))

theorem validNumber_tidy {v : Bytes} (h : validNumber v = true) : tidy v = true := by
  obtain ⟨sign, ip, frac, rfl, _, h3, h4, h5⟩ := validNumber_decomp v h
  rcases h5 with rfl | ⟨fr, rfl, h6, h7⟩
  · simp only [List.append_nil]
    exact tidy_append _ _ (tidy_of_all ip h3 (fun b hb => isDigit_ne b (h4 b hb)))
  · apply tidy_append
    exact tidy_of_all _ (by simp) (fun b hb => by
      simp at hb
      rcases hb with rfl | hb
      · decide
      · exact isDigit_ne b (h7 b hb))

/-! ## `serInline` writes `inlineBytes` -/

/-- `serialize_call_arguments` after the `(` -/
def serArgs (w : Writer) (written : Bool) (pos : List (Inline Bytes)) (named : List (Bytes × Inline Bytes)) :
    Option Writer :=
  match serPositional w written pos with
  | none => none
  | some (w1, wr) => (serNamed w1 wr named).map fun w2 => w2.writeLiteral [41]

theorem serInline_fn (w : Writer) (id : Bytes) (pos : List (Inline Bytes)) (named : List (Bytes × Inline Bytes)) :
    serInline w (.fn id pos named) = serArgs ((w.writeLiteral id).writeLiteral [40]) false pos named := by
  simp only [serInline, serArgs, lit_lparen, lit_rparen]
  generalize serPositional ((w.writeLiteral id).writeLiteral [40]) false pos = r
  cases r <;> rfl

theorem serInline_term_args (w : Writer) (id : Bytes) (attr : Option Bytes) (pos : List (Inline Bytes))
    (named : List (Bytes × Inline Bytes)) :
    serInline w (.term id attr (some (pos, named))) =
      serArgs (((match attr with
        | some a => (((w.writeLiteral [45]).writeLiteral id).writeLiteral [46]).writeLiteral a
        | none => (w.writeLiteral [45]).writeLiteral id)).writeLiteral [40]) false pos named := by
  cases attr <;> simp only [serInline, serArgs, lit_minus, lit_dot, lit_lparen, lit_rparen]
  · generalize serPositional (((w.writeLiteral [45]).writeLiteral id).writeLiteral [40]) false pos = r
    cases r <;> rfl
  · rename_i a
    generalize serPositional (((((w.writeLiteral [45]).writeLiteral id).writeLiteral [46]).writeLiteral a).writeLiteral [40])
      false pos = r
    cases r <;> rfl

theorem serInline_str (w : Writer) (v : Bytes) (h : validStrBody v = true) :
    serInline w (.str v) = some (w.writeLiteral (inlineBytes (.str v))) ∧ tidy (inlineBytes (.str v)) = true := by
  have h10 := validStrBody_no_nl v h
  constructor
  · simp only [serInline, lit_quote, inlineBytes]
    rw [join_tidy _ [34] v (by decide)]
    rw [writeLiteral_join _ ([34] ++ v) [34] ⟨by simp, ?_, by simp⟩]
    · simp
    · intro hl
      have := List.mem_of_getLast? hl
      simp at this
      exact h10 this
  · simp only [inlineBytes]
    exact tidy_concat (34 :: v) 34 (by decide) (by decide)

theorem serInline_num (w : Writer) (v : Bytes) (h : validNumber v = true) :
    serInline w (.num v) = some (w.writeLiteral (inlineBytes (.num v))) ∧ tidy (inlineBytes (.num v)) = true := by
  simp only [serInline, inlineBytes, validNumber_tidy h, and_self]

theorem serInline_literal (w : Writer) (v : Inline Bytes) (hl : isLiteral v = true) (hv : validInline v = true) :
    serInline w v = some (w.writeLiteral (inlineBytes v)) ∧ tidy (inlineBytes v) = true := by
  cases v with
  | str v => exact serInline_str w v (by simpa [validInline] using hv)
  | num v => exact serInline_num w v (by simpa [validInline] using hv)
  | _ => simp [isLiteral] at hl

theorem tidy_app3 (acc : Bytes) (b : Bool) (h : tidy acc = true) :
    tidy (acc ++ if b then [44, 32] else []) = true := by
  cases b
  · simpa using h
  · exact tidy_append _ _ (by decide)

theorem validInner_inline {i : Inline Bytes} (h : validInner (.inline i) = true) : validInline i = true := by
  unfold validInner at h
  split at h
  · cases h
  · rename_i j heq; cases heq; exact h
  · rename_i heq; cases heq

theorem attr_join_some (w : Writer) (acc a : Bytes) (ha : tidy acc = true) (hv : validIdent a = true) :
    ((w.writeLiteral acc).writeLiteral [46]).writeLiteral a = w.writeLiteral (acc ++ 46 :: a) ∧
    tidy (acc ++ 46 :: a) = true := by
  rw [join_tidy _ _ _ ha, join_tidy _ _ _ (tidy_append _ _ (by decide))]
  exact ⟨by simp, tidy_append _ _ (by simpa using tidy_append [46] a (validIdent_tidy hv))⟩

theorem namedTail_tidy (named : List (Bytes × Inline Bytes)) : tidy (namedTail named) = true := by
  cases named with
  | nil => decide
  | cons x xs =>
    obtain ⟨n, v⟩ := x
    rw [namedTail]
    exact tidy_append _ _ (namedTail_tidy xs)

theorem posTail_tidy (xs : List (Inline Bytes)) (nn : Bool) (nt : Bytes) (h : tidy nt = true) :
    tidy (posTail xs nn nt) = true := by
  induction xs with
  | nil => simpa [posTail] using h
  | cons x xs ih => rw [posTail]; exact tidy_append _ _ ih

theorem serArgs_cons (w : Writer) (written : Bool) (x : Inline Bytes) (xs : List (Inline Bytes))
    (named : List (Bytes × Inline Bytes)) :
    serArgs w written (x :: xs) named =
      match serInline (if written then w.writeLiteral [44, 32] else w) x with
      | none => none
      | some w2 => serArgs w2 true xs named := by
  simp only [serArgs, serPositional, lit_comma]
  cases serInline (if written = true then w.writeLiteral [44, 32] else w) x <;> rfl

/-- what `serNamed_eq` proves about the named arguments (passed to `serArgs_eq` as a hypothesis, so that the
mutual induction stays structural) -/
def NamedSerOK (w : Writer) (named : List (Bytes × Inline Bytes)) : Prop :=
  ∀ (acc : Bytes) (written : Bool), tidy acc = true →
    (serNamed (w.writeLiteral acc) written named).map (fun w2 => w2.writeLiteral [41]) =
      some (w.writeLiteral (acc ++ (if written && !named.isEmpty then [44, 32] else []) ++ namedTail named))

mutual

/-- **T2, serializer half.**  For a valid inline expression the serializer writes exactly
`inlineBytes e` (as one literal: whatever the writer's state, nothing is inserted inside), and that
text ends with a byte other than `\n`/`\r`. -/
theorem serInline_eq_bytes (e : Inline Bytes) (hv : validInline e = true) (w : Writer) :
    serInline w e = some (w.writeLiteral (inlineBytes e)) ∧ tidy (inlineBytes e) = true := by
  cases e with
  | str v => exact serInline_str w v (by simpa [validInline] using hv)
  | num v => exact serInline_num w v (by simpa [validInline] using hv)
  | var id =>
    simp only [validInline] at hv
    simp only [serInline, lit_dollar, inlineBytes]
    rw [join_tidy _ _ _ (by decide)]
    exact ⟨rfl, tidy_append [36] id (validIdent_tidy hv)⟩
  | msg id attr =>
    simp only [validInline, Bool.and_eq_true] at hv
    cases attr with
    | none => simp [serInline, inlineBytes, attrBytes, validIdent_tidy hv.1]
    | some a =>
      have := attr_join_some w id a (validIdent_tidy hv.1) hv.2
      simp only [serInline, inlineBytes, attrBytes, lit_dot]
      exact ⟨by rw [this.1], this.2⟩
  | fn id pos named =>
    simp only [validInline, Bool.and_eq_true] at hv
    obtain ⟨⟨⟨⟨hid, _⟩, hpos⟩, hnamed⟩, _⟩ := hv
    rw [serInline_fn, join_tidy _ _ _ (validIdent_tidy hid)]
    have := serArgs_eq pos hpos w (id ++ [40]) false named (tidy_append _ _ (by decide))
          (fun acc wr ha => serNamed_eq named hnamed w acc wr ha)
    simp only [inlineBytes]
    simpa using this
  | term id attr args =>
    cases args with
    | none =>
      simp only [validInline, Bool.and_eq_true] at hv
      have t1 : tidy ([45] ++ id) = true := tidy_append _ _ (validIdent_tidy hv.1)
      cases attr with
      | none =>
        simp only [serInline, inlineBytes, attrBytes, lit_minus, List.append_nil]
        rw [join_tidy _ [45] id (by decide)]
        exact ⟨rfl, t1⟩
      | some a =>
        have := attr_join_some w ([45] ++ id) a t1 hv.2
        simp only [serInline, inlineBytes, attrBytes, lit_minus, lit_dot]
        rw [join_tidy _ [45] id (by decide)]
        exact ⟨by rw [this.1]; rfl, this.2⟩
    | some pn =>
      obtain ⟨pos, named⟩ := pn
      simp only [validInline, Bool.and_eq_true] at hv
      obtain ⟨⟨⟨⟨hid, hattr⟩, hpos⟩, hnamed⟩, _⟩ := hv
      have t1 : tidy ([45] ++ id) = true := tidy_append _ _ (validIdent_tidy hid)
      rw [serInline_term_args]
      cases attr with
      | none =>
        simp only [inlineBytes, attrBytes, List.append_nil]
        rw [join_tidy _ [45] id (by decide), join_tidy _ _ _ t1]
        have := serArgs_eq pos hpos w ([45] ++ id ++ [40]) false named (tidy_append _ _ (by decide))
          (fun acc wr ha => serNamed_eq named hnamed w acc wr ha)
        simpa using this
      | some a =>
        have hj := attr_join_some w ([45] ++ id) a t1 hattr
        simp only [inlineBytes, attrBytes]
        rw [join_tidy _ [45] id (by decide), hj.1, join_tidy _ _ _ hj.2]
        have := serArgs_eq pos hpos w ([45] ++ id ++ 46 :: a ++ [40]) false named (tidy_append _ _ (by decide))
          (fun acc wr ha => serNamed_eq named hnamed w acc wr ha)
        simpa using this
  | placeable e =>
    cases e with
    | select sel vs => simp [validInline, validInner] at hv
    | inline i =>
      have hi : validInline i = true := validInner_inline (by simpa [validInline] using hv)
      obtain ⟨e1, t1⟩ := serInline_eq_bytes i hi (w.writeLiteral [123])
      simp only [serInline, serExpr, lit_lbrace, lit_rbrace, inlineBytes, innerBytes, e1, Option.map_some]
      rw [join_tidy _ [123] _ (by decide)]
      have t2 : tidy (123 :: inlineBytes i) = true := tidy_append [123] _ t1
      exact ⟨by simp [join_tidy _ _ [125] t2], tidy_concat (123 :: inlineBytes i) 125 (by decide) (by decide)⟩

theorem serArgs_eq (xs : List (Inline Bytes)) (hv : validInl xs = true) (w : Writer) (acc : Bytes) (written : Bool)
    (named : List (Bytes × Inline Bytes)) (ha : tidy acc = true) (hn : NamedSerOK w named) :
    serArgs (w.writeLiteral acc) written xs named =
        some (w.writeLiteral (acc ++ (if written && !(xs.isEmpty && named.isEmpty) then [44, 32] else []) ++
          posTail xs named.isEmpty (namedTail named))) ∧
      tidy (acc ++ (if written && !(xs.isEmpty && named.isEmpty) then [44, 32] else []) ++
          posTail xs named.isEmpty (namedTail named)) = true := by
  cases xs with
  | nil =>
    have := hn acc written ha
    simp only [serArgs, serPositional, posTail, List.isEmpty_nil, Bool.true_and]
    exact ⟨this, tidy_append _ _ (namedTail_tidy named)⟩
  | cons x xs =>
    simp only [validInl, Bool.and_eq_true] at hv
    have e1 : (if written = true then (w.writeLiteral acc).writeLiteral [44, 32] else w.writeLiteral acc) =
        w.writeLiteral (acc ++ if written then [44, 32] else []) := by
      cases written <;> simp [join_tidy _ _ _ ha]
    have t1 := tidy_app3 acc written ha
    obtain ⟨e2, t2⟩ := serInline_eq_bytes x hv.1 (w.writeLiteral (acc ++ if written then [44, 32] else []))
    rw [serArgs_cons, e1, e2]
    simp only []
    rw [join_tidy _ _ _ t1]
    obtain ⟨e3, t3⟩ := serArgs_eq xs hv.2 w ((acc ++ if written then [44, 32] else []) ++ inlineBytes x) true named
      (tidy_append _ _ t2) hn
    rw [e3]
    have e4 : (acc ++ if written then [44, 32] else []) ++ inlineBytes x ++
        (if (true && !(xs.isEmpty && named.isEmpty)) = true then [44, 32] else []) ++
        posTail xs named.isEmpty (namedTail named) =
        acc ++ (if (written && !((x :: xs).isEmpty && named.isEmpty)) = true then [44, 32] else []) ++
        posTail (x :: xs) named.isEmpty (namedTail named) := by
      rw [posTail]
      cases written <;> cases xs <;> cases named <;> simp
    rw [e4] at e3 t3
    exact ⟨by rw [← e4], t3⟩

theorem serNamed_eq (named : List (Bytes × Inline Bytes)) (hv : validNamed named = true) (w : Writer) (acc : Bytes)
    (written : Bool) (ha : tidy acc = true) :
    (serNamed (w.writeLiteral acc) written named).map (fun w2 => w2.writeLiteral [41]) =
      some (w.writeLiteral (acc ++ (if written && !named.isEmpty then [44, 32] else []) ++ namedTail named)) := by
  cases named with
  | nil => simp [serNamed, namedTail, join_tidy _ _ _ ha]
  | cons x xs =>
    obtain ⟨n, v⟩ := x
    simp only [validNamed, Bool.and_eq_true] at hv
    obtain ⟨⟨⟨hn, _⟩, hvv⟩, hxs⟩ := hv
    rw [serNamed]
    simp only [lit_comma, lit_colon]
    have e1 : (if written = true then (w.writeLiteral acc).writeLiteral [44, 32] else w.writeLiteral acc) =
        w.writeLiteral (acc ++ if written then [44, 32] else []) := by
      cases written <;> simp [join_tidy _ _ _ ha]
    have t1 := tidy_app3 acc written ha
    rw [e1, join_tidy _ _ _ t1, join_tidy _ _ _ (tidy_append _ _ (validIdent_tidy hn))]
    have t2 : tidy ((acc ++ if written then [44, 32] else []) ++ n ++ [58, 32]) = true :=
      tidy_append _ _ (by decide)
    obtain ⟨e3, t3⟩ := serInline_eq_bytes v hvv (w.writeLiteral ((acc ++ if written then [44, 32] else []) ++ n ++ [58, 32]))
    rw [e3]
    simp only []
    rw [join_tidy _ _ _ t2, serNamed_eq xs hxs _ _ true (tidy_append _ _ t3)]
    simp [namedTail]

end

end FluentProofs.Ser
