import FluentProofs.SerializerJunkText
import FluentProofs.ParserLocalSimDefs
/-!
# Serializer lemmas, part 19: what stands at the start of a successfully parsed entry (C04, Junk)

A successful `get_message` / `get_term` at a line start `p` means `p` holds an entry head (`Bar`: identifier, blanks,
`=`); a successful comment means `p` holds a `#`.  And: what the entry loop puts first when a comment is pending.
-/
namespace FluentProofs.Ser
open FluentModel FluentModel.Syntax FluentModel.Syntax.Ser FluentProofs.Parser

theorem isAlpha_ident_real : ∀ b : UInt8, isAlpha b = true → isIdentByte b = true ∧ isReal b = true := by
  apply forall_uint8; decide +kernel

/-- inversion of a successful `get_identifier` (no assumption on the source) -/
theorem getIdentifier_ok_inv {s : Src} {p : Nat} {id : Span} {q : Nat} (h : getIdentifier s p = .ok id q) :
    (∃ b, s[p]? = some b ∧ isAlpha b = true) ∧ id = ⟨p, q⟩ ∧ p < q ∧ q ≤ s.size ∧
      ∀ j, p + 1 ≤ j → j < q → ∃ b, s[j]? = some b ∧ isIdentByte b = true := by
  unfold getIdentifier at h
  split at h
  · cases h
  · rename_i hst
    have hst : isIdentifierStart s p = true := by simpa using hst
    unfold getIdentifierUnchecked at h
    simp only [usub, show (1 : Nat) ≤ p + 1 by omega, if_true, Nat.add_sub_cancel] at h
    split at h
    · rename_i sp hsl
      injection h with h1 h2
      subst h1
      have hq : scanWhile s isIdentByte (p + 1) = q := h2
      have hsp := slice_some_eq hsl
      have hsz : scanWhile s isIdentByte (p + 1) ≤ s.size := by
        unfold slice at hsl
        split at hsl
        · rename_i hc; exact hc.2.1
        · cases hsl
      have hge := scanWhile_le s isIdentByte (p + 1)
      refine ⟨(isIdentifierStart_iff s p).mp hst, by rw [hsp, hq], by omega, by omega, ?_⟩
      intro j h1 h2
      rw [← hq] at h2
      exact scanWhileGo_bytes s isIdentByte _ (p + 1) j h1 h2
    · cases h

/-- identifier at `a`, blanks, `=`: every byte of `[a, E)` is an identifier byte or a space -/
theorem ident_eq_head {s : Src} {a : Nat} {id : Span} {q : Nat} (h1 : getIdentifier s a = .ok id q) {u : Unit} {q2 : Nat}
    (h2 : expectByte s (skipBlankInline s q) 61 = .ok u q2) :
    a < skipBlankInline s q ∧ s[skipBlankInline s q]? = some 61 ∧
      (∃ b, s[a]? = some b ∧ isAlpha b = true) ∧
      ∀ i, a ≤ i → i < skipBlankInline s q → ∃ b, s[i]? = some b ∧ (isIdentByte b = true ∨ b = 32) := by
  obtain ⟨hb, _, hlt, _, hby⟩ := getIdentifier_ok_inv h1
  have hge : q ≤ skipBlankInline s q := by
    rcases skipBlankInline_after s q with h | ⟨h, _⟩ <;> omega
  refine ⟨by omega, (pre_expectByte_ok h2).2, hb, ?_⟩
  intro i hi1 hi2
  by_cases hia : i = a
  · obtain ⟨b, hb1, hb2⟩ := hb
    exact ⟨b, hia ▸ hb1, Or.inl (isAlpha_ident_real b hb2).1⟩
  · by_cases hiq : i < q
    · obtain ⟨b, hb1, hb2⟩ := hby i (by omega) hiq
      exact ⟨b, hb1, Or.inl hb2⟩
    · exact ⟨32, skipBlankInline_spaces s q i (by omega) hi2, Or.inr rfl⟩

theorem getMessage_bar {s : Src} {F es p : Nat} {m : Message Span} {q : Nat} (h : getMessage s F es p = .ok m q)
    (hls : LS s p) : (∃ E, Bar s p E) ∧ m.id.start = p ∧ p < m.id.stop ∧ m.id.stop ≤ s.size ∧ m.comment = none := by
  have hcn := getMessage_comment_none s F es p m q h
  unfold getMessage at h
  cases h1 : getIdentifier s p <;> simp only [h1] at h <;> try cases h
  rename_i id q1
  cases h2 : expectByte s (skipBlankInline s q1) 61 <;> simp only [h2] at h <;> try cases h
  rename_i u q2
  obtain ⟨hlt, heq, ⟨b, hb1, hb2⟩, hhead⟩ := ident_eq_head h1 h2
  obtain ⟨_, hid, hpq, hsz, _⟩ := getIdentifier_ok_inv h1
  have hmid : m.id = id := by
    cases h3 : getPattern s F q2 <;> simp only [h3] at h <;> try cases h
    rename_i pat q3
    cases h4 : getAttributes s F (skipBlankBlock s q3).1 <;> simp only [h4] at h <;> try cases h
    rename_i attrs q5
    split at h
    · cases h
    · injection h with h _; rw [← h]
  refine ⟨⟨_, ⟨hls, hlt, ⟨b, hb1, (isAlpha_ident_real b hb2).2⟩, hhead, heq⟩⟩, ?_, ?_, ?_, hcn⟩ <;>
    rw [hmid, hid] <;> simp <;> omega

theorem getTerm_bar {s : Src} {F es p : Nat} {t : Term Span} {q : Nat} (h : getTerm s F es p = .ok t q)
    (hls : LS s p) : (∃ E, Bar s p E) ∧ s[p]? = some 45 ∧ t.comment = none := by
  have hcn := getTerm_comment_none s F es p t q h
  unfold getTerm at h
  cases h0 : expectByte s p 45 <;> simp only [h0] at h <;> try cases h
  rename_i u0 p0
  obtain ⟨rfl, h45⟩ := pre_expectByte_ok h0
  cases h1 : getIdentifier s (p + 1) <;> simp only [h1] at h <;> try cases h
  rename_i id q1
  cases h2 : expectByte s (skipBlankInline s q1) 61 <;> simp only [h2] at h <;> try cases h
  rename_i u q2
  obtain ⟨hlt, heq, _, hhead⟩ := ident_eq_head h1 h2
  refine ⟨⟨_, ⟨hls, by omega, ⟨45, h45, by decide⟩, ?_, heq⟩⟩, h45, hcn⟩
  intro i hi1 hi2
  by_cases hip : i = p
  · exact ⟨45, hip ▸ h45, Or.inl (by decide)⟩
  · exact hhead i (by omega) hi2

/-- at a `#`, `get_entry` returns one of the three comment kinds -/
theorem getEntry_hash_kind {s : Src} {F p : Nat} {e : Entry Span} {q : Nat} (h35 : s[p]? = some 35)
    (h : getEntry s F p = .ok e q) : (∃ c, e = .comment c) ∨ (∃ c, e = .groupComment c) ∨ (∃ c, e = .resourceComment c) := by
  unfold getEntry at h
  simp only [h35] at h
  cases hg : getComment s p with
  | ok cl q1 =>
    obtain ⟨content, level⟩ := cl
    simp only [hg] at h
    split at h
    · injection h with h _; exact Or.inl ⟨_, h.symm⟩
    · split at h
      · injection h with h _; exact Or.inr (Or.inl ⟨_, h.symm⟩)
      · split at h
        · injection h with h _; exact Or.inr (Or.inr ⟨_, h.symm⟩)
        · cases h
  | err e q1 => simp only [hg] at h; cases h
  | panic m => simp only [hg] at h; cases h
  | fuel => simp only [hg] at h; cases h

/-- the three comment kinds come from a `#` -/
theorem getEntry_comment_hash {s : Src} {F p : Nat} {e : Entry Span} {q : Nat} (h : getEntry s F p = .ok e q)
    (he : (∃ c, e = .comment c) ∨ (∃ c, e = .groupComment c) ∨ (∃ c, e = .resourceComment c)) : s[p]? = some 35 := by
  apply Classical.byContradiction
  intro h35
  rw [getEntry_of_not_hash s F p h35] at h
  split at h
  · cases hg : getTerm s F p p <;> simp only [hg] at h <;> cases h
    rcases he with ⟨c, hc⟩ | ⟨c, hc⟩ | ⟨c, hc⟩ <;> cases hc
  · cases hg : getMessage s F p p <;> simp only [hg] at h <;> cases h
    rcases he with ⟨c, hc⟩ | ⟨c, hc⟩ | ⟨c, hc⟩ <;> cases hc

/-- a message / term returned by `get_entry` comes from `get_message` / `get_term` at a byte other than `#` -/
theorem getEntry_ok_message {s : Src} {F p : Nat} {m : Message Span} {q : Nat} (h : getEntry s F p = .ok (.message m) q) :
    getMessage s F p p = .ok m q ∧ s[p]? ≠ some 35 := by
  have h35 : s[p]? ≠ some 35 := by
    intro h35
    rcases getEntry_hash_kind h35 h with ⟨c, hc⟩ | ⟨c, hc⟩ | ⟨c, hc⟩ <;> cases hc
  refine ⟨?_, h35⟩
  rw [getEntry_of_not_hash s F p h35] at h
  split at h
  · cases hg : getTerm s F p p <;> simp only [hg] at h <;> cases h
  · cases hg : getMessage s F p p <;> simp only [hg] at h <;> cases h
    rfl

theorem getEntry_ok_term {s : Src} {F p : Nat} {t : Term Span} {q : Nat} (h : getEntry s F p = .ok (.term t) q) :
    getTerm s F p p = .ok t q ∧ s[p]? = some 45 := by
  have h35 : s[p]? ≠ some 35 := by
    intro h35
    rcases getEntry_hash_kind h35 h with ⟨c, hc⟩ | ⟨c, hc⟩ | ⟨c, hc⟩ <;> cases hc
  rw [getEntry_of_not_hash s F p h35] at h
  split at h
  · rename_i h45
    cases hg : getTerm s F p p <;> simp only [hg] at h <;> cases h
    exact ⟨rfl, h45⟩
  · cases hg : getMessage s F p p <;> simp only [hg] at h <;> cases h

/-- with a comment `c` pending, the first entry the loop produces is the comment itself, or the message / term it is
attached to -/
theorem parseLoop_pending_head {s : Src} {F N : Nat} {c : List Span} {cnt p : Nat} {l : List (Entry Span)} {errs : List PErr}
    (h : parseLoop s F N [] [] (some c) cnt p = .done (l, errs)) :
    ∃ rest, l = .comment c :: rest ∨ (∃ m : Message Span, l = .message { m with comment := some c } :: rest) ∨
      (∃ t : Term Span, l = .term { t with comment := some c } :: rest) := by
  cases N with
  | zero => rw [parseLoop_zero] at h; cases h
  | succ N =>
    rw [parseLoop_succ] at h
    split at h
    · -- the shape of what the first iteration adds
      have key : ∀ ab ae lc' cnt' p', loopStep s F (some c) cnt p = .next ab ae lc' cnt' p' →
          ∃ r0, ab = .comment c :: r0 ∨ (∃ m : Message Span, ab = .message { m with comment := some c } :: r0) ∨
            (∃ t : Term Span, ab = .term { t with comment := some c } :: r0) := by
        intro ab ae lc' cnt' p' hst
        unfold loopStep at hst
        cases hg : getEntry s F p with
        | ok e q =>
          simp only [hg] at hst
          cases e with
          | message m =>
            simp only [] at hst
            split at hst
            · injection hst with hst; exact ⟨_, Or.inr (Or.inl ⟨m, hst.symm⟩)⟩
            · injection hst with hst; exact ⟨_, Or.inl hst.symm⟩
          | term t =>
            simp only [] at hst
            split at hst
            · injection hst with hst; exact ⟨_, Or.inr (Or.inr ⟨t, hst.symm⟩)⟩
            · injection hst with hst; exact ⟨_, Or.inl hst.symm⟩
          | comment c' => injection hst with hst; exact ⟨_, Or.inl hst.symm⟩
          | groupComment c' => injection hst with hst; exact ⟨_, Or.inl hst.symm⟩
          | resourceComment c' => injection hst with hst; exact ⟨_, Or.inl hst.symm⟩
          | junk c' => injection hst with hst; exact ⟨_, Or.inl hst.symm⟩
        | err e q =>
          simp only [hg] at hst
          cases hq : skipToNextEntryStart s p q with
          | none => simp only [hq] at hst; cases hst
          | some q1 =>
            simp only [hq] at hst
            cases hsl : slice s p q1 with
            | none => simp only [hsl] at hst; cases hst
            | some content => simp only [hsl] at hst; injection hst with hst; exact ⟨_, Or.inl hst.symm⟩
        | panic m => simp only [hg] at hst; cases hst
        | fuel => simp only [hg] at hst; cases hst
      cases hst : loopStep s F (some c) cnt p with
      | next ab ae lc' cnt' p' =>
        simp only [hst] at h
        rw [parseLoop_acc_eq] at h
        obtain ⟨r, _, hr⟩ := mapD_eq_done h
        have hl : l = ab ++ r.1 := by
          have := congrArg Prod.fst hr
          simpa [prep] using this.symm
        obtain ⟨r0, hab⟩ := key _ _ _ _ _ hst
        refine ⟨r0 ++ r.1, ?_⟩
        rcases hab with hab | ⟨m, hab⟩ | ⟨t, hab⟩
        · exact Or.inl (by rw [hl, hab]; rfl)
        · exact Or.inr (Or.inl ⟨m, by rw [hl, hab]; rfl⟩)
        · exact Or.inr (Or.inr ⟨t, by rw [hl, hab]; rfl⟩)
      | panic m => simp only [hst] at h; cases h
      | fuel => simp only [hst] at h; cases h
    · injection h with h
      have hl := congrArg Prod.fst h
      simp only [Parser.flushC, List.nil_append] at hl
      exact ⟨[], Or.inl hl.symm⟩

end FluentProofs.Ser
