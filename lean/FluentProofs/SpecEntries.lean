import FluentProofs.SpecPatLoop
/-!
# Entries and the resource loop (C02, layers 3 and 4)
-/
namespace FluentProofs.SpecEntries
open FluentModel FluentModel.Syntax FluentModel.SpecGrammar FluentProofs.Parser FluentProofs.SpecLex
open FluentProofs.SpecRefine FluentProofs.PatFlat FluentProofs.PatLoop

/-! ## blank blocks again -/

theorem scan_pos_indep (i ls : List UInt8) (c : Nat) : ∀ c', 0 < c → 0 < c' →
    (blankBlockScan i ls c).map (·.2) = (blankBlockScan i ls c').map (·.2) := by
  fun_induction blankBlockScan i ls c <;> intro c' h1 h2 <;> simp_all [blankBlockScan]
  all_goals (try (first | omega | grind [blankBlockScan]))

theorem scan_succ (i ls : List UInt8) (c : Nat) :
    (blankBlockScan i ls (c + 1)).map (·.2) =
      some (match blankBlockScan i ls c with | some (_, x) => x | none => ls) := by
  fun_induction blankBlockScan i ls c
  · rename_i r ls c ih; simpa [blankBlockScan] using ih
  · rename_i r ls c ih
    simp only [blankBlockScan]
    rw [scan_pos_indep r r (c + 1 + 1) (c + 1) (by omega) (by omega)]
    have := blankBlockScan_isSome_of_pos r r (c + 1) (by omega)
    cases h : blankBlockScan r r (c + 1) with
    | none => rw [h] at this; cases this
    | some v => simp
  · rename_i r ls c ih
    simp only [blankBlockScan]
    rw [scan_pos_indep r r (c + 1 + 1) (c + 1) (by omega) (by omega)]
    have := blankBlockScan_isSome_of_pos r r (c + 1) (by omega)
    cases h : blankBlockScan r r (c + 1) with
    | none => rw [h] at this; cases this
    | some v => simp
  · simp [blankBlockScan]
  · rename_i b r ls c h1 h2 h3 h4
    have e1 : blankBlockScan (b :: r) ls (c + 1) = some (c + 1, ls) := by
      unfold blankBlockScan; split <;> simp_all
    rw [e1]; simp
  · rename_i b r ls c h1 h2 h3 h4
    have e1 : blankBlockScan (b :: r) ls (c + 1) = some (c + 1, ls) := by
      unfold blankBlockScan; split <;> simp_all
    rw [e1]; simp


theorem afterBlank_lineEnd {r r' : List UInt8} (h : lineEnd r = some r') : afterBlank r = afterBlank r' := by
  have key : ∀ X : List UInt8, (match blankBlockScan X X 1 with | some (_, x) => x | none => X) = afterBlank X := by
    intro X
    have h1 := scan_succ X X 0
    have h2 := blankBlockScan_isSome_of_pos X X 1 (by omega)
    cases hs : blankBlockScan X X 1 with
    | none => rw [hs] at h2; cases h2
    | some v =>
      rw [hs] at h1
      simp only [Option.map_some] at h1
      injection h1 with h1
      all_goals (simp only [afterBlank, blankBlock]; exact h1)
  unfold lineEnd at h
  split at h
  · rename_i r0
    injection h with h; subst h
    rw [← key r0]
    simp only [afterBlank, blankBlock, blankBlockScan]
    have := blankBlockScan_isSome_of_pos r0 r0 1 (by omega)
    cases hs : blankBlockScan r0 r0 (0 + 1) with
    | none => simp at hs; rw [hs] at this; cases this
    | some v => rfl
  · rename_i r0
    injection h with h; subst h
    rw [← key r0]
    simp only [afterBlank, blankBlock, blankBlockScan]
    have := blankBlockScan_isSome_of_pos r0 r0 1 (by omega)
    cases hs : blankBlockScan r0 r0 (0 + 1) with
    | none => simp at hs; rw [hs] at this; cases this
    | some v => rfl
  · injection h with h; subst h; rfl
  · cases h

/-- a byte that is neither a space nor the beginning of a line end -/
def NonBlankHead (l : List UInt8) : Prop :=
  ∃ b t, l = b :: t ∧ b ≠ 32 ∧ b ≠ 10 ∧ ¬ (b = 13 ∧ ∃ t', t = 10 :: t')

theorem scan_result (i ls : List UInt8) (c : Nat) : ∀ (c' : Nat) (x : List UInt8), spaces ls = spaces i →
    blankBlockScan i ls c = some (c', x) → x = [] ∨ NonBlankHead (spaces x) := by
  fun_induction blankBlockScan i ls c <;> intro c' x h0 h <;> simp_all [spaces]
  · rename_i b r ls c h1 h2 h3 h4
    right
    exact ⟨b, r, rfl, fun hb => h1 hb, fun hb => h2 hb, fun ⟨hb, t', ht⟩ => h3 t' hb ht⟩

theorem afterBlank_head {i : List UInt8} (h : (blankBlock i).isSome = true) :
    afterBlank i = [] ∨ NonBlankHead (spaces (afterBlank i)) := by
  unfold afterBlank
  cases hb : blankBlock i with
  | none => rw [hb] at h; cases h
  | some v =>
    obtain ⟨c, x⟩ := v
    exact scan_result i i 0 c x rfl hb

theorem blankOpt_of_nonBlankHead {l : List UInt8} (h : NonBlankHead l) : blankOpt l = l := by
  obtain ⟨b, t, rfl, h1, h2, h3⟩ := h
  by_cases h13 : b = 13
  · subst h13
    cases t with
    | nil => exact blankOpt_cr_eof
    | cons c t' =>
      have : c ≠ 10 := by intro hc; subst hc; exact h3 ⟨rfl, t', rfl⟩
      exact blankOpt_cr_other _ this
  · exact blankOpt_other _ h1 h2 h13

/-- after the blank lines the rest of the line's first non-space byte is the first non-blank byte at all -/
theorem afterBlank_spaces {i : List UInt8} (h : (blankBlock i).isSome = true) :
    spaces (afterBlank i) = blankOpt i := by
  rw [← blankOpt_afterBlank i, ← blankOpt_spaces]
  rcases afterBlank_head h with h1 | h1
  · rw [h1]; simp [spaces, blankOpt]
  · exact (blankOpt_of_nonBlankHead h1).symm

theorem blankBlock_isSome_of_lineEnd {i : List UInt8} (h : (lineEnd i).isSome = true) : (blankBlock i).isSome = true := by
  rcases lineEnd_isSome_cases h with rfl | ⟨X, rfl | rfl⟩
  · simp [blankBlock, blankBlockScan]
  · rw [blankBlock_nl]; exact blankBlockScan_isSome_of_pos _ _ 1 (by omega)
  · rw [blankBlock_crlf]; exact blankBlockScan_isSome_of_pos _ _ 1 (by omega)


/-! ## attributes -/

def jAttr (s : Src) (a : Attribute Span) : Attribute Bytes := ⟨spanBytes s a.id, jPat s a.value⟩
def jAttrs (s : Src) (l : List (Attribute Span)) : List (Attribute Bytes) := l.map (jAttr s)

/-- what follows an entry's last pattern: what follows a pattern, and not an attribute -/
def EntryFollow (r : List UInt8) : Prop := PatFollow r ∧ ∀ t, blankOpt r ≠ 46 :: t

theorem patFollow_of_dot {r t : List UInt8} (hl : (lineEnd r).isSome = true) (h : blankOpt r = 46 :: t) : PatFollow r := by
  refine ⟨hl, fun b t' h' => ?_⟩
  rw [h] at h'
  injection h' with e1 _
  subst e1
  exact ⟨by decide, Or.inl rfl⟩

theorem attributeP_head {sf : Nat} {i r : List UInt8} {a : Attribute Bytes} (h : attributeP sf i = .ok a r) :
    (lineEnd i).isSome = true ∧ ∃ t, blankOpt i = 46 :: t := by
  unfold attributeP at h
  split at h
  · cases h
  · rename_i r0 hle
    refine ⟨by simp [hle], ?_⟩
    rw [blankOpt_lineEnd hle]
    split at h
    · rename_i r1 hb; exact ⟨r1, hb⟩
    · cases h

/-- the position `get_pattern` leaves is not a blank line, so `skip_blank_block` stays -/
theorem skipBlankBlock_stay {s : Src} {p : Nat} (hp : p ≤ s.size)
    (h : rest s p = [] ∨ NonBlankHead (spaces (rest s p))) : (skipBlankBlock s p).1 = p := by
  have hp1le := (skipBlankInline_after s p).le
  have hp1s := (skipBlankInline_after s p).le_size hp
  unfold skipBlankBlock
  obtain ⟨n0, hn0⟩ : ∃ n0, s.size - p + 1 = n0 + 1 := ⟨s.size - p, rfl⟩
  rw [hn0]
  simp only [skipBlankBlockGo]
  rcases h with h | h
  · have hps : p = s.size := by have := rest_eq_nil_iff.mp h; omega
    have hp1 : skipBlankInline s p = p := by omega
    have : skipEol s (skipBlankInline s p) = none := by
      apply skipEol_none_of_nonblank; left; simp; omega
    rw [this]
    simp only
    split
    · rfl
    · exact hp1
  · rw [spaces_eq_skipBlankInline] at h
    obtain ⟨b, t, hb, h1, h2, h3⟩ := h
    have hsb := rest_head hb
    have hlt := get_lt hsb
    have : skipEol s (skipBlankInline s p) = none := by
      apply skipEol_none_of_nonblank
      right
      refine ⟨b, hsb, h2, ?_⟩
      rintro ⟨h13, h10⟩
      exact h3 ⟨h13, _, by rw [(rest_cons_inv hb).2]; exact rest_cons h10⟩
    rw [this]
    simp [hlt]

def AttrsRef (s : Src) (sf : Nat) (n : Nat) : Prop :=
  ∀ pf n' p i acc as r4, attributesP sf n i = .ok as r4 → EntryFollow r4 → (lineEnd i).isSome = true →
    rest s p = afterBlank i → p ≤ s.size → Bnd s p → 4 * (s.size - p) + 2 ≤ pf → s.size - p + 1 ≤ n' →
    ∃ as' q, getAttributesGo s pf n' acc p = .ok (acc ++ as') q ∧ jAttrs s as' = as ∧ rest s q = afterBlank r4 ∧
      q ≤ s.size ∧ Bnd s q ∧ p ≤ q

theorem attrsRef {s : Src} (hs : AsciiThenBoundary s) (hSurv : Surv s) (sf : Nat) : ∀ n, AttrsRef s sf n := by
  intro n
  induction n with
  | zero => intro pf n' p i acc as r4 h; simp [attributesP] at h
  | succ n ih =>
    intro pf n' p i acc as r4 hA hfol hle hrest hp hbp hpf hn'
    obtain ⟨n0, rfl⟩ : ∃ n0, n' = n0 + 1 := ⟨n' - 1, by omega⟩
    have hp1le := (skipBlankInline_after s p).le
    have hp1s := (skipBlankInline_after s p).le_size hp
    have hb1 : Bnd s (skipBlankInline s p) := (skipBlankInline_after s p).bnd hs hbp
    have hsp : rest s (skipBlankInline s p) = blankOpt i := by
      rw [← spaces_eq_skipBlankInline, hrest, afterBlank_spaces (blankBlock_isSome_of_lineEnd hle)]
    simp only [attributesP] at hA
    cases ha : attributeP sf i with
    | fuel => rw [ha] at hA; cases hA
    | fail =>
      rw [ha] at hA
      injection hA with e1 e2; subst e1; subst e2
      -- the line does not start with a dot
      have hnd : isCurrentByte s (skipBlankInline s p) 46 = false := by
        cases h46 : isCurrentByte s (skipBlankInline s p) 46 with
        | false => rfl
        | true =>
          exfalso
          have := (isCurrentByte_iff _ _ _).mp h46
          exact hfol.2 _ (by rw [← hsp]; exact rest_cons this)
      refine ⟨[], p, ?_, rfl, hrest, hp, hbp, Nat.le_refl _⟩
      simp [getAttributesGo, takeByteIf, hnd]
    | ok a r =>
      rw [ha] at hA
      simp only at hA
      cases hmore : attributesP sf n r with
      | fuel => rw [hmore] at hA; cases hA
      | fail => rw [hmore] at hA; cases hA
      | ok more r' =>
        rw [hmore] at hA
        injection hA with e1 e2; subst e1; subst e2
        -- one attribute
        unfold attributeP at ha
        split at ha
        · cases ha
        · rename_i r0 hle0
          split at ha
          · rename_i r1 hdot
            rw [← blankOpt_lineEnd hle0, ← hsp] at hdot
            obtain ⟨h46, hr1⟩ := rest_cons_inv hdot
            have hlt1 := get_lt h46
            split at ha
            · rename_i id r2 hid
              rw [hr1] at hid
              obtain ⟨q, i1, i2, i3, i4, i5, _⟩ := identifier_fwd hs hid
              split at ha
              · rename_i r3 heq
                rw [i5, spaces_eq_skipBlankInline] at heq
                obtain ⟨h61, hr3⟩ := rest_cons_inv heq
                have hq1 := (skipBlankInline_after s q).le
                have hlt3 := get_lt h61
                cases hpat : pattern sf (spaces r3) with
                | fuel => rw [hpat] at ha; cases ha
                | fail => rw [hpat] at ha; cases ha
                | ok pat r4a =>
                  rw [hpat] at ha
                  injection ha with e1 e2; subst e1; subst e2
                  rw [hr3] at hpat
                  -- what follows this attribute's pattern
                  have hfol1 : PatFollow r4a ∧ (lineEnd r4a).isSome = true := by
                    cases n with
                    | zero => simp [attributesP] at hmore
                    | succ n1 =>
                      simp only [attributesP] at hmore
                      cases ha2 : attributeP sf r4a with
                      | ok a2 r2' =>
                        obtain ⟨g1, t, g2⟩ := attributeP_head ha2
                        exact ⟨patFollow_of_dot g1 g2, g1⟩
                      | fail => rw [ha2] at hmore; injection hmore with _ e2; subst e2; exact ⟨hfol.1, hfol.1.1⟩
                      | fuel => rw [ha2] at hmore; cases hmore
                  have hbq2 : Bnd s (skipBlankInline s q + 1) := bnd_succ hs h61 (by decide)
                  obtain ⟨pat', q3, g1, g2, g3, g4, g5⟩ :=
                    patternRef_all hs hSurv sf pf (skipBlankInline s q + 1) pat r4a hpat hfol1.1 (by omega) hbq2 (by omega)
                  have hbq3 : Bnd s q3 := by
                    have := (specs_all hs pf).pattern (skipBlankInline s q + 1) (by omega) hbq2 (by omega)
                    rw [g1] at this
                    exact ((good_ok _ _ _ _ _).mp this).2.2.1
                  obtain ⟨as', q', f1, f2, f3, f4, f5, f6⟩ :=
                    ih pf n0 q3 r4a (acc ++ [⟨⟨skipBlankInline s p + 1, q⟩, pat'⟩]) more r' hmore hfol hfol1.2 g5 g3 hbq3
                      (by omega) (by omega)
                  have htb : takeByteIf s (skipBlankInline s p) 46 = (skipBlankInline s p + 1, true) := by
                    simp [takeByteIf, isCurrentByte, h46]
                  have heb : expectByte s (skipBlankInline s q) 61 = .ok () (skipBlankInline s q + 1) := by
                    simp [expectByte, isCurrentByte, h61]
                  refine ⟨⟨⟨skipBlankInline s p + 1, q⟩, pat'⟩ :: as', q', ?_, ?_, f3, f4, f5, by omega⟩
                  · simp only [getAttributesGo, htb, Bool.not_true, Bool.false_eq_true, if_false,
                      getAttribute, i1, heb, g1, f1]
                    simp
                  · simp only [jAttrs, List.map_cons, jAttr, g2, ← i4]
                    exact congrArg _ f2
              · cases ha
            · cases ha
          · cases ha


/-! ## messages and terms -/

/-- a message without a value: after `=` only a line end follows, then attributes; `get_pattern` returns `None` -/
theorem getPattern_none {s : Src} (hs : AsciiThenBoundary s) {n p0 : Nat} (hp0 : p0 ≤ s.size) (hb0 : Bnd s p0)
    (hfol : PatFollow (spaces (rest s p0))) (hX : ∃ X, spaces (rest s p0) = 10 :: X ∨ spaces (rest s p0) = 13 :: 10 :: X)
    (hn : 4 * (s.size - p0) + 2 ≤ n + 1) :
    ∃ q, getPattern s (n + 1) p0 = .ok none q ∧ rest s q = afterBlank (spaces (rest s p0)) ∧ q ≤ s.size ∧ Bnd s q ∧ p0 ≤ q := by
  rw [spaces_eq_skipBlankInline] at hfol hX ⊢
  have hA1 := skipBlankInline_after s p0
  have hp1le := hA1.le
  have hp1s := hA1.le_size hp0
  have hb1 : Bnd s (skipBlankInline s p0) := hA1.bnd hs hb0
  -- the line end
  have hse : ∃ q0, skipEol s (skipBlankInline s p0) = some q0 := by
    obtain ⟨X, h | h⟩ := hX
    · have := rest_head h; exact ⟨skipBlankInline s p0 + 1, by simp [skipEol, this]⟩
    · obtain ⟨h13, ht⟩ := rest_cons_inv h
      have h10 := rest_head ht.symm
      exact ⟨skipBlankInline s p0 + 2, by simp [skipEol, h13, h10]⟩
  obtain ⟨q0, hse⟩ := hse
  have hq := skipEol_some hse
  have hqs : q0 ≤ s.size := (skipEol_after hse).le_size hp1s
  have hbq : Bnd s q0 := (skipEol_after hse).bnd hs hb1
  obtain ⟨i1, i2, i3, i4, i5⟩ := skipBlankBlockGo_scan hs (s.size - q0 + 1) q0 1 (Nat.le_refl _) hqs hbq
  have hshift := skipBlankBlockGo_shift s (s.size - q0 + 1) q0 1
  rw [hshift] at i1 i2 i3 i4 i5
  simp only at i1 i2 i3 i4 i5
  have hsb : skipBlankBlockGo s (s.size - q0 + 1) q0 0 = skipBlankBlock s q0 := rfl
  rw [hsb] at i1 i2 i3 i4 i5
  have hsync : blankBlock (rest s (skipBlankInline s p0)) =
      blankBlockScan (rest s (skipBlankBlock s q0).1) (rest s (skipBlankBlock s q0).1) (1 + (skipBlankBlock s q0).2) := by
    rcases skipEol_head hse with ⟨h10, hq1⟩ | ⟨h13, h10, hq1⟩
    · subst hq1; rw [rest_cons h10, blankBlock_nl]; exact i1
    · subst hq1; rw [rest_cons h13, rest_cons h10, blankBlock_crlf]; exact i1
  obtain ⟨q, g1, g2, g3⟩ := end_s2 (n := n) (st := ⟨[], none, none, .lineStart, none⟩) rfl i4 i2 hsync hX hfol
    (by have := get_lt (skipEol_some hse).2.1; omega)
  have hgp : getPattern s (n + 1) p0 = .ok none q := by
    rw [getPattern_block hse, g1]; rfl
  have hgood := (specs_all hs (n + 1)).pattern p0 hp0 hb0 hn
  rw [hgp] at hgood
  obtain ⟨k1, k2, k3, _⟩ := (good_ok _ _ _ _ _).mp hgood
  exact ⟨q, hgp, g2, g3, k3, k1⟩


def jMsg (s : Src) (m : Message Span) : Message Bytes :=
  ⟨spanBytes s m.id, m.value.map (jPat s), jAttrs s m.attributes, m.comment.map (List.map (spanBytes s))⟩
def jTerm (s : Src) (t : Term Span) : Term Bytes :=
  ⟨spanBytes s t.id, jPat s t.value, jAttrs s t.attributes, t.comment.map (List.map (spanBytes s))⟩

theorem attributesP_follow {sf n : Nat} {i r4 : List UInt8} {as : List (Attribute Bytes)}
    (h : attributesP sf n i = .ok as r4) (hfol : EntryFollow r4) : PatFollow i := by
  cases n with
  | zero => simp [attributesP] at h
  | succ n =>
    simp only [attributesP] at h
    cases ha : attributeP sf i with
    | ok a r =>
      obtain ⟨g1, t, g2⟩ := attributeP_head ha
      exact patFollow_of_dot g1 g2
    | fail => rw [ha] at h; injection h with _ e2; subst e2; exact hfol.1
    | fuel => rw [ha] at h; cases h

theorem rest_afterBlank_head {s : Src} {q : Nat} {r : List UInt8} (h : rest s q = afterBlank r)
    (hl : (lineEnd r).isSome = true) : rest s q = [] ∨ NonBlankHead (spaces (rest s q)) := by
  rw [h]; exact afterBlank_head (blankBlock_isSome_of_lineEnd hl)

theorem getPattern_bnd {s : Src} (hs : AsciiThenBoundary s) {n p q : Nat} {o : Option (Pattern Span)}
    (h : getPattern s n p = .ok o q) (hp : p ≤ s.size) (hb : Bnd s p) (hn : 4 * (s.size - p) + 2 ≤ n) : Bnd s q := by
  have := (specs_all hs n).pattern p hp hb hn
  rw [h] at this
  exact ((good_ok _ _ _ _ _).mp this).2.2.1

/-- `Message` against `get_message` -/
theorem message_ref {s : Src} (hs : AsciiThenBoundary s) (hSurv : Surv s) {sf pf es p : Nat} {msg : Message Bytes}
    {r4 : List UInt8} (h : messageP sf (rest s p) = .ok msg r4) (hfol : EntryFollow r4) (hp : p ≤ s.size)
    (hpf : 4 * (s.size - p) + 2 ≤ pf) :
    ∃ m' q, getMessage s pf es p = .ok m' q ∧ jMsg s m' = msg ∧ rest s q = afterBlank r4 ∧ q ≤ s.size ∧ Bnd s q ∧ p < q := by
  unfold messageP at h
  split at h
  · cases h
  · rename_i id r hid
    obtain ⟨q, i1, i2, i3, i4, i5, b, hb, hba⟩ := identifier_fwd hs hid
    split at h
    · rename_i r1 heq
      rw [i5, spaces_eq_skipBlankInline] at heq
      obtain ⟨h61, hr1⟩ := rest_cons_inv heq
      have hq1 := (skipBlankInline_after s q).le
      have hlt3 := get_lt h61
      have heb : expectByte s (skipBlankInline s q) 61 = .ok () (skipBlankInline s q + 1) := by
        simp [expectByte, isCurrentByte, h61]
      have hbq2 : Bnd s (skipBlankInline s q + 1) := bnd_succ hs h61 (by decide)
      simp only at h
      rw [hr1] at h
      cases hpat : pattern sf (spaces (rest s (skipBlankInline s q + 1))) with
      | fuel => rw [hpat] at h; cases h
      | ok pat r3 =>
        rw [hpat] at h
        simp only at h
        cases hat : attributesP sf sf r3 with
        | fuel => rw [hat] at h; cases h
        | fail => rw [hat] at h; cases h
        | ok as r4' =>
          rw [hat] at h
          injection h with e1 e2; subst e1; subst e2
          have hpf3 := attributesP_follow hat hfol
          obtain ⟨pat', q3, g1, g2, g3, g4, g5⟩ :=
            patternRef_all hs hSurv sf pf (skipBlankInline s q + 1) pat r3 hpat hpf3 (by omega) hbq2 (by omega)
          have hbq3 := getPattern_bnd hs g1 (by omega) hbq2 (by omega)
          have hstay := skipBlankBlock_stay g3 (rest_afterBlank_head g5 hpf3.1)
          obtain ⟨as', q5, f1, f2, f3, f4, f5, f6⟩ :=
            attrsRef hs hSurv sf sf pf (s.size - q3 + 1) q3 r3 [] as r4' hat hfol hpf3.1 g5 g3 hbq3 (by omega) (Nat.le_refl _)
          refine ⟨⟨⟨p, q⟩, some pat', as', none⟩, q5, ?_, ?_, f3, f4, f5, by omega⟩
          · simp only [getMessage, i1, heb, g1, hstay, getAttributes, f1]
            simp
          · simp only [jMsg, Option.map_some, g2, f2, ← i4, Option.map_none]
      | fail =>
        rw [hpat] at h
        simp only at h
        split at h
        · cases h
        · rename_i as r4' hne hat
          injection h with e1 e2; subst e1; subst e2
          -- attributes only: after `=` a line end
          have hne' : as ≠ [] := fun hc => hne hc
          have hhead : (lineEnd (spaces (rest s (skipBlankInline s q + 1)))).isSome = true ∧
              ∃ t, blankOpt (spaces (rest s (skipBlankInline s q + 1))) = 46 :: t := by
            cases sf with
            | zero => simp [attributesP] at hat
            | succ sf' =>
              simp only [attributesP] at hat
              cases ha : attributeP (sf' + 1) (spaces (rest s (skipBlankInline s q + 1))) with
              | ok a r => exact attributeP_head ha
              | fail => rw [ha] at hat; injection hat with e1 _; exact absurd e1.symm hne'
              | fuel => rw [ha] at hat; cases hat
          obtain ⟨hl2, t2, hd2⟩ := hhead
          have hpf2 := patFollow_of_dot hl2 hd2
          have hX : ∃ X, spaces (rest s (skipBlankInline s q + 1)) = 10 :: X ∨
              spaces (rest s (skipBlankInline s q + 1)) = 13 :: 10 :: X := by
            rcases lineEnd_isSome_cases hl2 with h0 | h0
            · rw [h0] at hd2; simp [blankOpt] at hd2
            · exact h0
          obtain ⟨n0, hn0⟩ : ∃ n0, pf = n0 + 1 := ⟨pf - 1, by omega⟩
          subst hn0
          obtain ⟨q3, g1, g5, g3, hbq3, g4⟩ := getPattern_none hs (n := n0) (p0 := skipBlankInline s q + 1) (by omega) hbq2 hpf2 hX (by omega)
          have hstay := skipBlankBlock_stay g3 (rest_afterBlank_head g5 hl2)
          obtain ⟨as', q5, f1, f2, f3, f4, f5, f6⟩ :=
            attrsRef hs hSurv sf sf (n0 + 1) (s.size - q3 + 1) q3 _ [] as r4' hat hfol hl2 g5 g3 hbq3 (by omega) (Nat.le_refl _)
          have has' : as' ≠ [] := by
            intro hc; subst hc; simp [jAttrs] at f2; exact hne' f2
          refine ⟨⟨⟨p, q⟩, none, as', none⟩, q5, ?_, ?_, f3, f4, f5, by omega⟩
          · simp only [getMessage, i1, heb, g1, hstay, getAttributes, f1]
            cases as' with
            | nil => exact absurd rfl has'
            | cons a t => simp
          · simp only [jMsg, Option.map_none, f2, ← i4]
        · cases h
        · cases h
    · cases h


theorem spaces_idem (i : List UInt8) : spaces (spaces i) = spaces i := by
  fun_induction spaces i <;> simp_all [spaces]

/-- `Term` against `get_term` -/
theorem term_ref {s : Src} (hs : AsciiThenBoundary s) (hSurv : Surv s) {sf pf es p : Nat} {trm : Term Bytes}
    {r4 : List UInt8} (h : termP sf (rest s p) = .ok trm r4) (hfol : EntryFollow r4) (hp : p ≤ s.size)
    (hpf : 4 * (s.size - p) + 2 ≤ pf) :
    ∃ t' q, getTerm s pf es p = .ok t' q ∧ jTerm s t' = trm ∧ rest s q = afterBlank r4 ∧ q ≤ s.size ∧ Bnd s q ∧ p < q := by
  unfold termP at h
  split at h
  · rename_i r00 hr00
    obtain ⟨h45, hr0⟩ := rest_cons_inv hr00
    have hlt0 := get_lt h45
    subst hr0
    split at h
    · cases h
    · rename_i id r hid
      obtain ⟨q, i1, i2, i3, i4, i5, b, hb, hba⟩ := identifier_fwd hs hid
      split at h
      · rename_i r1 heq
        rw [i5, spaces_eq_skipBlankInline] at heq
        obtain ⟨h61, hr1⟩ := rest_cons_inv heq
        have hq1 := (skipBlankInline_after s q).le
        have hlt3 := get_lt h61
        have heb : expectByte s (skipBlankInline s q) 61 = .ok () (skipBlankInline s q + 1) := by
          simp [expectByte, isCurrentByte, h61]
        have he45 : expectByte s p 45 = .ok () (p + 1) := by simp [expectByte, isCurrentByte, h45]
        have hbq2 : Bnd s (skipBlankInline s q + 1) := bnd_succ hs h61 (by decide)
        have hA2 := skipBlankInline_after s (skipBlankInline s q + 1)
        have hq2le := hA2.le
        have hq2s := hA2.le_size (by omega)
        have hbq2' : Bnd s (skipBlankInline s (skipBlankInline s q + 1)) := hA2.bnd hs hbq2
        rw [hr1] at h
        cases hpat : pattern sf (spaces (rest s (skipBlankInline s q + 1))) with
        | fuel => rw [hpat] at h; cases h
        | fail => rw [hpat] at h; cases h
        | ok pat r3 =>
          rw [hpat] at h
          simp only at h
          cases hat : attributesP sf sf r3 with
          | fuel => rw [hat] at h; cases h
          | fail => rw [hat] at h; cases h
          | ok as r4' =>
            rw [hat] at h
            injection h with e1 e2; subst e1; subst e2
            have hpf3 := attributesP_follow hat hfol
            have hpat' : pattern sf (spaces (rest s (skipBlankInline s (skipBlankInline s q + 1)))) = .ok pat r3 := by
              rw [← spaces_eq_skipBlankInline, spaces_idem]; exact hpat
            obtain ⟨pat', q3, g1, g2, g3, g4, g5⟩ :=
              patternRef_all hs hSurv sf pf _ pat r3 hpat' hpf3 hq2s hbq2' (by omega)
            have hbq3 := getPattern_bnd hs g1 hq2s hbq2' (by omega)
            have hstay := skipBlankBlock_stay g3 (rest_afterBlank_head g5 hpf3.1)
            obtain ⟨as', q5, f1, f2, f3, f4, f5, f6⟩ :=
              attrsRef hs hSurv sf sf pf (s.size - q3 + 1) q3 r3 [] as r4' hat hfol hpf3.1 g5 g3 hbq3 (by omega) (Nat.le_refl _)
            refine ⟨⟨⟨p + 1, q⟩, pat', as', none⟩, q5, ?_, ?_, f3, f4, f5, by omega⟩
            · simp only [getTerm, he45, i1, heb, g1, hstay, getAttributes, f1]
              simp
            · simp only [jTerm, g2, f2, ← i4, Option.map_none]
      · cases h
  · cases h


/-! ## the abstract syntax of a resource, item by item -/

/-- `dropBlanks ∘ attachComments ∘ joinComments` -/
def assemble (raw : List (Option (Entry Bytes))) : Resource Bytes := dropBlanks (attachComments (joinComments raw))

theorem parse_eq_assemble (i : List UInt8) :
    SpecGrammar.parse i = (resourceRaw (fuelFor i) (i.length + 1) i).map assemble := rfl

theorem assemble_nil : assemble [] = [] := by simp [assemble, joinComments, attachComments, dropBlanks]

theorem joinComments_none (X : List (Option (Entry Bytes))) : joinComments (none :: X) = none :: joinComments X := by
  simp [joinComments]

theorem assemble_none (X : List (Option (Entry Bytes))) : assemble (none :: X) = assemble X := by
  simp [assemble, joinComments, attachComments, dropBlanks]

theorem assemble_message (m : Message Bytes) (X : List (Option (Entry Bytes))) :
    assemble (some (.message m) :: X) = .message m :: assemble X := by
  simp [assemble, joinComments, attachComments, dropBlanks]

theorem assemble_term (t : Term Bytes) (X : List (Option (Entry Bytes))) :
    assemble (some (.term t) :: X) = .term t :: assemble X := by
  simp [assemble, joinComments, attachComments, dropBlanks]

/-- is the first item a comment line of level `l`? -/
def headLevel : List (Option (Entry Bytes)) → Nat
  | some (.comment _) :: _ => 1
  | some (.groupComment _) :: _ => 2
  | some (.resourceComment _) :: _ => 3
  | _ => 0

theorem headLevel_joinComments (X : List (Option (Entry Bytes))) : headLevel (joinComments X) = headLevel X := by
  cases X with
  | nil => rfl
  | cons x r =>
    cases x with
    | none => simp [joinComments, headLevel]
    | some e =>
      cases e with
      | comment a => simp only [joinComments]; split <;> simp [headLevel]
      | groupComment a => simp only [joinComments]; split <;> simp [headLevel]
      | resourceComment a => simp only [joinComments]; split <;> simp [headLevel]
      | message m => simp [joinComments, headLevel]
      | term t => simp [joinComments, headLevel]
      | junk c => simp [joinComments, headLevel]


/-- does the list begin with a message or a term (something a comment attaches to)? -/
def attachHead : List (Option (Entry Bytes)) → Bool
  | some (.message _) :: _ => true
  | some (.term _) :: _ => true
  | _ => false

theorem attachHead_joinComments (X : List (Option (Entry Bytes))) : attachHead (joinComments X) = attachHead X := by
  cases X with
  | nil => rfl
  | cons x r =>
    cases x with
    | none => simp [joinComments, attachHead]
    | some e =>
      cases e with
      | comment a => simp only [joinComments]; split <;> simp [attachHead]
      | groupComment a => simp only [joinComments]; split <;> simp [attachHead]
      | resourceComment a => simp only [joinComments]; split <;> simp [attachHead]
      | message m => simp [joinComments, attachHead]
      | term t => simp [joinComments, attachHead]
      | junk c => simp [joinComments, attachHead]

theorem joinComments_comment_nomerge (a : List Bytes) (X : List (Option (Entry Bytes))) (h : headLevel X ≠ 1) :
    joinComments (some (.comment a) :: X) = some (.comment a) :: joinComments X := by
  have h' : headLevel (joinComments X) ≠ 1 := by rw [headLevel_joinComments]; exact h
  simp only [joinComments]
  split
  · rename_i b rest' heq; rw [heq] at h'; simp [headLevel] at h'
  · rfl

theorem joinComments_gc_nomerge (a : List Bytes) (X : List (Option (Entry Bytes))) (h : headLevel X ≠ 2) :
    joinComments (some (.groupComment a) :: X) = some (.groupComment a) :: joinComments X := by
  have h' : headLevel (joinComments X) ≠ 2 := by rw [headLevel_joinComments]; exact h
  simp only [joinComments]
  split
  · rename_i b rest' heq; rw [heq] at h'; simp [headLevel] at h'
  · rfl

theorem joinComments_rc_nomerge (a : List Bytes) (X : List (Option (Entry Bytes))) (h : headLevel X ≠ 3) :
    joinComments (some (.resourceComment a) :: X) = some (.resourceComment a) :: joinComments X := by
  have h' : headLevel (joinComments X) ≠ 3 := by rw [headLevel_joinComments]; exact h
  simp only [joinComments]
  split
  · rename_i b rest' heq; rw [heq] at h'; simp [headLevel] at h'
  · rfl

theorem joinComments_comment_merge (a b : List Bytes) (X : List (Option (Entry Bytes))) :
    joinComments (some (.comment a) :: some (.comment b) :: X) = joinComments (some (.comment (a ++ b)) :: X) := by
  simp only [joinComments]
  generalize joinComments X = Y
  cases Y with
  | nil => simp
  | cons y r =>
    cases y with
    | none => simp
    | some e => cases e <;> simp [List.append_assoc]

theorem joinComments_gc_merge (a b : List Bytes) (X : List (Option (Entry Bytes))) :
    joinComments (some (.groupComment a) :: some (.groupComment b) :: X) = joinComments (some (.groupComment (a ++ b)) :: X) := by
  simp only [joinComments]
  generalize joinComments X = Y
  cases Y with
  | nil => simp
  | cons y r =>
    cases y with
    | none => simp
    | some e => cases e <;> simp [List.append_assoc]

theorem joinComments_rc_merge (a b : List Bytes) (X : List (Option (Entry Bytes))) :
    joinComments (some (.resourceComment a) :: some (.resourceComment b) :: X) =
      joinComments (some (.resourceComment (a ++ b)) :: X) := by
  simp only [joinComments]
  generalize joinComments X = Y
  cases Y with
  | nil => simp
  | cons y r =>
    cases y with
    | none => simp
    | some e => cases e <;> simp [List.append_assoc]

theorem assemble_gc (a : List Bytes) (X : List (Option (Entry Bytes))) (h : headLevel X ≠ 2) :
    assemble (some (.groupComment a) :: X) = .groupComment a :: assemble X := by
  simp [assemble, joinComments_gc_nomerge a X h, attachComments, dropBlanks]

theorem assemble_rc (a : List Bytes) (X : List (Option (Entry Bytes))) (h : headLevel X ≠ 3) :
    assemble (some (.resourceComment a) :: X) = .resourceComment a :: assemble X := by
  simp [assemble, joinComments_rc_nomerge a X h, attachComments, dropBlanks]

theorem assemble_comment_message (c : List Bytes) (m : Message Bytes) (X : List (Option (Entry Bytes))) :
    assemble (some (.comment c) :: some (.message m) :: X) = .message { m with comment := some c } :: assemble X := by
  rw [assemble, joinComments_comment_nomerge c _ (by simp [headLevel])]
  simp [assemble, joinComments, attachComments, dropBlanks]

theorem assemble_comment_term (c : List Bytes) (t : Term Bytes) (X : List (Option (Entry Bytes))) :
    assemble (some (.comment c) :: some (.term t) :: X) = .term { t with comment := some c } :: assemble X := by
  rw [assemble, joinComments_comment_nomerge c _ (by simp [headLevel])]
  simp [assemble, joinComments, attachComments, dropBlanks]

theorem assemble_comment_other (c : List Bytes) (X : List (Option (Entry Bytes))) (h1 : headLevel X ≠ 1)
    (h2 : attachHead X = false) : assemble (some (.comment c) :: X) = .comment c :: assemble X := by
  simp only [assemble]
  rw [joinComments_comment_nomerge c X h1]
  have h2' : attachHead (joinComments X) = false := by rw [attachHead_joinComments]; exact h2
  generalize joinComments X = Y at h2' ⊢
  cases Y with
  | nil => simp [attachComments, dropBlanks, assemble]
  | cons y r =>
    cases y with
    | none => simp [attachComments, dropBlanks, assemble]
    | some e =>
      cases e with
      | message m => simp [attachHead] at h2'
      | term t => simp [attachHead] at h2'
      | comment a => simp [attachComments, dropBlanks, assemble]
      | groupComment a => simp [attachComments, dropBlanks, assemble]
      | resourceComment a => simp [attachComments, dropBlanks, assemble]
      | junk j => simp [attachComments, dropBlanks, assemble]

end FluentProofs.SpecEntries
