import FluentProofs.SerializerResource
import FluentProofs.SerializerLineSplit
import FluentProofs.ParserValidLeaf
import FluentProofs.ParserRuntime
/-!
# Serializer lemmas, part 19: the comments the parser produces are of the class (C04, "parser output is in the class")

For EVERY source (`parse_comments_all`; the versions with a hypothesis on the byte 13 are kept for their users): every
comment of the tree returned by `parse` (stand-alone comments
of the three levels and the comments attached to messages and terms) is non-empty and none of its
lines contains a `\n` (`rtComment`; a lone `\r` stays inside the line — a comment line ends at the first `\n` or
`\r\n`).
-/
namespace FluentProofs.Ser
open FluentModel FluentModel.Syntax FluentModel.Syntax.Ser FluentProofs.Parser

/-! ## one comment line -/

/-- no end-of-line position (`\n`, `\r\n`) in the byte range -/
def LineOK (s : Src) (sp : Span) : Prop := ∀ j, sp.start ≤ j → j < sp.stop → isEol s j = false

/-- every carriage return is followed by a line feed (`NoLoneCR` of `SerializerOutCr1`, stated here in full to
keep this file independent) -/
abbrev CrLfOnly (s : Src) : Prop := ∀ j : Nat, s[j]? = some (13 : UInt8) → s[j + 1]? = some (10 : UInt8)

theorem CrLfOnly.of_noCR {s : Src} (h : ∀ j : Nat, s[j]? ≠ some (13 : UInt8)) : CrLfOnly s :=
  fun j hj => absurd hj (h j)

theorem isEol_false_ne10 {s : Src} {p : Nat} (h : isEol s p = false) : s[p]? ≠ some 10 := by
  intro h10
  simp [isEol, h10] at h

theorem isEol_false_ne13 {s : Src} (hcr : CrLfOnly s) {p : Nat} (h : isEol s p = false) : s[p]? ≠ some 13 := by
  intro h13
  have := hcr p h13
  simp [isEol, h13, this] at h

theorem commentLineEndGo_noeol (s : Src) : ∀ (n p j : Nat), p ≤ j → j < commentLineEndGo s n p → isEol s j = false := by
  intro n
  induction n with
  | zero => intro p j h1 h2; simp [commentLineEndGo] at h2; omega
  | succ n ih =>
    intro p j h1 h2
    rw [commentLineEndGo] at h2
    split at h2
    · omega
    · rename_i he
      by_cases hj : j = p
      · subst hj; simpa using he
      · exact ih (p + 1) j (by omega) h2

theorem getCommentLine_ok {s : Src} {p : Nat} {line : Span} {q : Nat} (h : getCommentLine s p = .ok line q) :
    LineOK s line := by
  simp only [getCommentLine] at h
  split at h
  · rename_i sp hsl
    cases h
    obtain ⟨rfl, _⟩ := slice_eq_some hsl
    intro j h1 h2
    exact commentLineEndGo_noeol s _ p j h1 h2
  · cases h

theorem commentLineOK_of' {s : Src} {sp : Span} (h : LineOK s sp) :
    commentLineOK (spanBytes s sp) = true := by
  obtain ⟨a, b⟩ := sp
  unfold commentLineOK
  apply spanBytes_all
  intro j h1 h2 c hc
  have h10 := isEol_false_ne10 (h j h1 h2)
  rw [hc] at h10
  simp only [bne_iff_ne, ne_eq]
  exact fun e => h10 (by rw [e])

theorem commentLineOK_of {s : Src} (_hcr : CrLfOnly s) {sp : Span} (h : LineOK s sp) :
    commentLineOK (spanBytes s sp) = true := commentLineOK_of' h

/-! ## `get_comment` -/

theorem getCommentLevel_pos {s : Src} {p : Nat} (h : s[p]? = some 35) : (getCommentLevel s p).1 ≠ 0 := by
  unfold getCommentLevel
  simp only [isCurrentByte, h, beq_self_eq_true, if_true]
  by_cases a : (s[p + 1]? == some 35) = true <;> by_cases b : (s[p + 2]? == some 35) = true <;> simp [a, b]

theorem mem_snoc' {α : Type} {l : List α} {x y : α} (h : y ∈ l ++ [x]) : y ∈ l ∨ y = x := by
  simpa using h

theorem getCommentGo_lines (s : Src) : ∀ (n level : Nat) (content : List Span) (p : Nat) (c : List Span) (l q : Nat),
    (∀ x ∈ content, LineOK s x) → getCommentGo s n level content p = .ok (c, l) q → ∀ x ∈ c, LineOK s x := by
  intro n
  induction n with
  | zero => intro level content p c l q _ h; simp [getCommentGo] at h
  | succ n ih =>
    intro level content p c l q hc h
    simp only [getCommentGo] at h
    have hsn : ∀ line : Span, LineOK s line → ∀ x ∈ content ++ [line], LineOK s x := by
      intro line hl x hx
      rcases mem_snoc' hx with hx | rfl
      · exact hc x hx
      · exact hl
    split at h
    · cases hcl : getCommentLevel s p with
      | mk lineLevel p1 =>
        simp only [hcl] at h
        split at h
        · split at h
          · cases h; exact hc
          · cases h
        · split at h
          · split at h
            · cases h; exact hc
            · cases h
          · split at h
            · split at h <;> try (cases h; done)
              rename_i line q1 hline
              exact ih _ _ _ _ _ _ (hsn line (getCommentLine_ok hline)) h
            · split at h
              · split at h
                · cases h
                · split at h
                  · cases h; exact hc
                  · cases h
              · split at h <;> try (cases h; done)
                rename_i line q1 hline
                exact ih _ _ _ _ _ _ (hsn line (getCommentLine_ok hline)) h
              · cases h
              · cases h
    · cases h; exact hc

theorem getCommentGo_ne (s : Src) : ∀ (n level : Nat) (content : List Span) (p : Nat) (c : List Span) (l q : Nat),
    (content ≠ [] ∨ (level = 0 ∧ s[p]? = some 35)) → getCommentGo s n level content p = .ok (c, l) q → c ≠ [] := by
  intro n
  induction n with
  | zero => intro level content p c l q _ h; simp [getCommentGo] at h
  | succ n ih =>
    intro level content p c l q hc h
    simp only [getCommentGo] at h
    split at h
    · cases hcl : getCommentLevel s p with
      | mk lineLevel p1 =>
        have hpos : s[p]? = some 35 → lineLevel ≠ 0 := fun h35 => by
          have := getCommentLevel_pos h35; rwa [hcl] at this
        simp only [hcl] at h
        split at h
        · rename_i hz
          have hz' : lineLevel = 0 := by simpa using hz
          rcases hc with hc | ⟨_, h35⟩
          · split at h
            · cases h; exact hc
            · cases h
          · exact absurd hz' (hpos h35)
        · split at h
          · rename_i hlv
            rcases hc with hc | ⟨h0, _⟩
            · split at h
              · cases h; exact hc
              · cases h
            · subst h0; simp at hlv
          · split at h
            · split at h <;> try (cases h; done)
              exact ih _ _ _ _ _ _ (Or.inl (by simp)) h
            · split at h
              · split at h
                · cases h
                · rename_i hemp
                  split at h
                  · cases h
                    intro h0; subst h0; simp at hemp
                  · cases h
              · split at h <;> try (cases h; done)
                exact ih _ _ _ _ _ _ (Or.inl (by simp)) h
              · cases h
              · cases h
    · cases h
      rcases hc with hc | ⟨_, h35⟩
      · exact hc
      · rename_i hlt
        have := get_lt h35
        omega

/-! ## entries -/

/-- a comment of the class -/
def CmtOK (s : Src) (c : List Span) : Prop := rtComment (c.map (spanBytes s)) = true

theorem cmtOK_of {s : Src} {c : List Span} (hne : c ≠ [])
    (hl : ∀ x ∈ c, LineOK s x) : CmtOK s c := by
  simp only [CmtOK, rtComment, Bool.and_eq_true, Bool.not_eq_true', List.isEmpty_eq_false_iff, List.all_eq_true,
    List.mem_map, ne_eq, List.map_eq_nil_iff]
  refine ⟨hne, ?_⟩
  rintro _ ⟨x, hx, rfl⟩
  exact commentLineOK_of' (hl x hx)

def OptCmtOK (s : Src) (o : Option (List Span)) : Prop := ∀ c, o = some c → CmtOK s c

/-- every comment of the entry (stand-alone or attached) is of the class -/
def cEntry (s : Src) : Entry Span → Prop
  | .message m => OptCmtOK s m.comment
  | .term t => OptCmtOK s t.comment
  | .comment c => CmtOK s c
  | .groupComment c => CmtOK s c
  | .resourceComment c => CmtOK s c
  | .junk _ => True

theorem getEntry_c {s : Src} (fuel p : Nat) :
    Post (getEntry s fuel p) (cEntry s) := by
  intro a q h
  simp only [getEntry] at h
  split at h
  · -- comment
    rename_i h35
    split at h <;> try (cases h; done)
    rename_i content level q1 hgc
    have hok : CmtOK s content := by
      unfold getComment at hgc
      exact cmtOK_of (getCommentGo_ne s _ _ _ _ _ _ _ (Or.inr ⟨rfl, h35⟩) hgc)
        (getCommentGo_lines s _ _ _ _ _ _ _ (by intro x hx; simp at hx) hgc)
    split at h
    · cases h; exact hok
    · split at h
      · cases h; exact hok
      · split at h
        · cases h; exact hok
        · cases h
  · -- term
    split at h <;> try (cases h; done)
    rename_i t q1 ht
    cases h
    intro c hc
    rw [getTerm_comment_none s fuel _ _ t _ ht] at hc
    cases hc
  · -- message
    split at h <;> try (cases h; done)
    rename_i m q1 hm
    cases h
    intro c hc
    rw [getMessage_comment_none s fuel _ _ m _ hm] at hc
    cases hc

theorem parseLoop_c {s : Src} (fuel : Nat) :
    ∀ (n : Nat) (body : List (Entry Span)) (errors : List PErr)
    (lc : Option (List Span)) (cnt p : Nat) (t : List (Entry Span)) (errs : List PErr),
    (∀ e ∈ body, cEntry s e) → OptCmtOK s lc → parseLoop s fuel n body errors lc cnt p = .done (t, errs) →
    ∀ e ∈ t, cEntry s e := by
  intro n
  induction n with
  | zero => intro body errors lc cnt p t errs _ _ h; simp [parseLoop] at h
  | succ n ih =>
    intro body errors lc cnt p t errs hbody hlc h
    simp only [parseLoop] at h
    have hn : OptCmtOK s none := fun c hc => by cases hc
    have hsn : ∀ (b : List (Entry Span)) (x : Entry Span), (∀ e ∈ b, cEntry s e) → cEntry s x →
        ∀ e ∈ b ++ [x], cEntry s e := by
      intro b x hb hx e he
      rcases mem_snoc he with he | rfl
      · exact hb e he
      · exact hx
    split at h
    · have hr := getEntry_c (s := s) fuel p
      have hjunk : ∀ content : Span, cEntry s (.junk content) := fun c => trivial
      cases hge : getEntry s fuel p with
      | panic m => cases lc <;> simp [hge] at h
      | fuel => cases lc <;> simp [hge] at h
      | err er q =>
        cases lc with
        | none =>
          simp only [hge] at h
          split at h
          · cases h
          · split at h
            · exact ih _ _ _ _ _ _ _ (hsn _ _ hbody (hjunk _)) hn h
            · cases h
        | some c =>
          have hc : cEntry s (.comment c) := hlc c rfl
          simp only [hge] at h
          split at h
          · cases h
          · split at h
            · exact ih _ _ _ _ _ _ _ (hsn _ _ (hsn _ _ hbody hc) (hjunk _)) hn h
            · cases h
      | ok e q =>
        have he := hr e q hge
        cases lc with
        | none =>
          simp only [hge] at h
          cases e with
          | comment c' => exact ih _ _ _ _ _ _ _ hbody (fun c hc => by cases hc; exact he) h
          | message m => exact ih _ _ _ _ _ _ _ (hsn _ _ hbody he) hn h
          | term t' => exact ih _ _ _ _ _ _ _ (hsn _ _ hbody he) hn h
          | groupComment c' => exact ih _ _ _ _ _ _ _ (hsn _ _ hbody he) hn h
          | resourceComment c' => exact ih _ _ _ _ _ _ _ (hsn _ _ hbody he) hn h
          | junk c' => exact ih _ _ _ _ _ _ _ (hsn _ _ hbody he) hn h
        | some c =>
          have hc : cEntry s (.comment c) := hlc c rfl
          simp only [hge] at h
          cases e with
          | comment c' => exact ih _ _ _ _ _ _ _ (hsn _ _ hbody hc) (fun c hc => by cases hc; exact he) h
          | message m =>
            by_cases hcnt : cnt < 2
            · simp only [hcnt, if_true] at h
              refine ih _ _ _ _ _ _ _ (hsn _ _ hbody ?_) hn h
              intro c0 hc0; cases hc0; exact hc
            · simp only [hcnt, if_false] at h
              exact ih _ _ _ _ _ _ _ (hsn _ _ (hsn _ _ hbody hc) he) hn h
          | term t' =>
            by_cases hcnt : cnt < 2
            · simp only [hcnt, if_true] at h
              refine ih _ _ _ _ _ _ _ (hsn _ _ hbody ?_) hn h
              intro c0 hc0; cases hc0; exact hc
            · simp only [hcnt, if_false] at h
              exact ih _ _ _ _ _ _ _ (hsn _ _ (hsn _ _ hbody hc) he) hn h
          | groupComment c' => exact ih _ _ _ _ _ _ _ (hsn _ _ (hsn _ _ hbody hc) he) hn h
          | resourceComment c' => exact ih _ _ _ _ _ _ _ (hsn _ _ (hsn _ _ hbody hc) he) hn h
          | junk c' => exact ih _ _ _ _ _ _ _ (hsn _ _ (hsn _ _ hbody hc) he) hn h
    · split at h
      · cases h; exact hsn _ _ hbody (hlc _ rfl)
      · cases h; exact hbody

/-- **The comments the parser produces are of the class** — for sources in which every `\r` is followed by
`\n`: every stand-alone comment (`#`, `##`, `###`) of the tree returned by `parse` and every comment attached to
a message or a term is non-empty and none of its lines contains a line break (a comment line ends at the first
`\n` or `\r\n`). -/
theorem parse_comments_cr (s : Src) (_hcr : ∀ j : Nat, s[j]? = some (13 : UInt8) → s[j + 1]? = some (10 : UInt8))
    (t : Resource Span) (errs : List PErr) (h : parse s = .done (t, errs)) : ∀ e ∈ t, cEntry s e := by
  unfold parse at h
  exact parseLoop_c _ _ [] [] none 0 _ t errs (by simp) (fun c hc => by cases hc) h

/-- **The comments the parser produces are of the class — every source**: every comment of the tree returned by `parse`
(stand-alone or attached) is non-empty and none of its lines contains a `\n` (a comment line ends at the first `\n` or
`\r\n`; a lone `\r` stays inside the line, which the class admits). -/
theorem parse_comments_all (s : Src) (t : Resource Span) (errs : List PErr) (h : parse s = .done (t, errs)) :
    ∀ e ∈ t, cEntry s e := by
  unfold parse at h
  exact parseLoop_c _ _ [] [] none 0 _ t errs (by simp) (fun c hc => by cases hc) h

/-- **The comments the parser produces are of the class.**  For a source without the byte 13: every
stand-alone comment (`#`, `##`, `###`) of the tree returned by `parse` and every comment attached to a
message or a term is non-empty and none of its lines contains a line break. -/
theorem parse_comments (s : Src) (hcr : ∀ j : Nat, s[j]? ≠ some (13 : UInt8))
    (t : Resource Span) (errs : List PErr) (h : parse s = .done (t, errs)) : ∀ e ∈ t, cEntry s e :=
  parse_comments_cr s (CrLfOnly.of_noCR hcr) t errs h

/-- the same, entry kind by entry kind -/
theorem parse_comments' (s : Src) (hcr : ∀ j : Nat, s[j]? ≠ some (13 : UInt8))
    (t : Resource Span) (errs : List PErr) (h : parse s = .done (t, errs)) :
    (∀ c, Entry.comment c ∈ t → rtComment (c.map (spanBytes s)) = true) ∧
    (∀ c, Entry.groupComment c ∈ t → rtComment (c.map (spanBytes s)) = true) ∧
    (∀ c, Entry.resourceComment c ∈ t → rtComment (c.map (spanBytes s)) = true) ∧
    (∀ m c, Entry.message m ∈ t → m.comment = some c → rtComment (c.map (spanBytes s)) = true) ∧
    (∀ tm c, Entry.term tm ∈ t → tm.comment = some c → rtComment (c.map (spanBytes s)) = true) := by
  have H := parse_comments s hcr t errs h
  exact ⟨fun c hc => H _ hc, fun c hc => H _ hc, fun c hc => H _ hc, fun m c hm hc => H _ hm c hc,
    fun tm c hm hc => H _ hm c hc⟩

end FluentProofs.Ser
