import FluentModel.Generated
import FluentModel.ResMgr
/-!
# Constant tie: literals of the hand-written models = constants re-extracted from /repo source

`tools/extract_consts.py` regenerates `FluentModel/Generated.lean` from the Rust source on every
run.  The models below contain the same constants as literals (byte tests, marks, keyword tables).
Each theorem here states that a model literal equals the extracted value; they are imported by the
property files that depend on the literal, so a change of the constant in the Rust source turns
into a failed proof obligation of exactly those properties (in addition to whatever the
correspondence check observes).  All are closed terms decided by kernel evaluation.
-/
namespace FluentProofs.ConstTie
open FluentModel FluentModel.Generated

/-- C19: the two path placeholders, in the order `get_resource` substitutes them -/
theorem path_placeholders_from_source :
    pathPlaceholders.map strBytes = [ResMgr.localePat, ResMgr.resIdPat] := by decide +kernel


end FluentProofs.ConstTie
