import FluentProofs.SpecEntries
/-!
# The resource loop (C02, layers 3 and 4)
-/
namespace FluentProofs.SpecResource
open FluentModel FluentModel.Syntax FluentModel.SpecGrammar FluentProofs.Parser FluentProofs.SpecLex
open FluentProofs.SpecRefine FluentProofs.PatFlat FluentProofs.PatLoop FluentProofs.SpecEntries

/-! ## blank blocks, with their line count -/

theorem scan_succ_cnt (i ls : List UInt8) (c : Nat) :
    blankBlockScan i ls (c + 1) =
      some (match blankBlockScan i ls c with | some (k, x) => (k + 1, x) | none => (c + 1, ls)) := by
  fun_induction blankBlockScan i ls c
  · rename_i r ls c ih; simpa [blankBlockScan] using ih
  · rename_i r ls c ih
    simp only [blankBlockScan]
    have := blankBlockScan_isSome_of_pos r r (c + 1) (by omega)
    rw [ih]
    cases h : blankBlockScan r r (c + 1) with
    | none => rw [h] at this; cases this
    | some v => rfl
  · rename_i r ls c ih
    simp only [blankBlockScan]
    have := blankBlockScan_isSome_of_pos r r (c + 1) (by omega)
    rw [ih]
    cases h : blankBlockScan r r (c + 1) with
    | none => rw [h] at this; cases this
    | some v => rfl
  · simp [blankBlockScan]
  · rename_i b r ls c h1 h2 h3 h4
    have e1 : blankBlockScan (b :: r) ls (c + 1) = some (c + 1, ls) := by
      unfold blankBlockScan; split <;> simp_all
    rw [e1]
  · rename_i b r ls c h1 h2 h3 h4
    have e1 : blankBlockScan (b :: r) ls (c + 1) = some (c + 1, ls) := by
      unfold blankBlockScan; split <;> simp_all
    rw [e1]

/-- a position where no blank block starts: the end of input or a line with something on it -/
def Canon (X : List UInt8) : Prop := X = [] ∨ NonBlankHead (spaces X)

theorem scan_spaces (i ls : List UInt8) (c : Nat) : blankBlockScan i ls c = blankBlockScan (spaces i) ls c := by
  induction i with
  | nil => rfl
  | cons b r ih =>
    by_cases hb : b = 32
    · subst hb; simpa [spaces, blankBlockScan] using ih
    · rw [spaces_cons_ne _ hb]

theorem blankBlock_none_of_nonBlankHead {X : List UInt8} (h : NonBlankHead (spaces X)) : blankBlock X = none := by
  unfold blankBlock
  rw [scan_spaces]
  obtain ⟨b, t, e, h1, h2, h3⟩ := h
  rw [e]
  by_cases h13 : b = 13
  · subst h13
    cases t with
    | nil => simp [scan_cr_eof]
    | cons c t' =>
      have : c ≠ 10 := by intro hc; subst hc; exact h3 ⟨rfl, t', rfl⟩
      simp [scan_cr_other _ _ _ this]
  · simp [scan_other _ _ _ h1 h2 h13]

theorem nonBlankHead_of_scan_none (i ls : List UInt8) (c : Nat) (h : blankBlockScan i ls c = none) :
    NonBlankHead (spaces i) := by
  fun_induction blankBlockScan i ls c
  · rename_i r ls c ih; simpa [spaces] using ih h
  · rename_i r ls c ih
    have := blankBlockScan_isSome_of_pos r r (c + 1) (by omega); rw [h] at this; cases this
  · rename_i r ls c ih
    have := blankBlockScan_isSome_of_pos r r (c + 1) (by omega); rw [h] at this; cases this
  · cases h
  · rename_i b r ls c h1 h2 h3 h4
    rw [spaces_cons_ne _ (fun hb => h1 hb)]
    exact ⟨b, r, rfl, fun hb => h1 hb, fun hb => h2 hb, fun ⟨hb, t', ht⟩ => h3 t' hb ht⟩
  · rename_i b r ls c h1 h2 h3 h4
    rw [spaces_cons_ne _ (fun hb => h1 hb)]
    exact ⟨b, r, rfl, fun hb => h1 hb, fun hb => h2 hb, fun ⟨hb, t', ht⟩ => h3 t' hb ht⟩

theorem canon_afterBlank (X : List UInt8) : Canon (afterBlank X) := by
  cases hb : blankBlock X with
  | none =>
    have : afterBlank X = X := by simp [afterBlank, hb]
    rw [this]; right; exact nonBlankHead_of_scan_none X X 0 hb
  | some v => exact afterBlank_head (by simp [hb])

theorem afterBlank_of_canon {X : List UInt8} (h : Canon X) : afterBlank X = X := by
  rcases h with h | h
  · subst h; simp [afterBlank, blankBlock, blankBlockScan]
  · simp [afterBlank, blankBlock_none_of_nonBlankHead h]

theorem afterBlank_idem (X : List UInt8) : afterBlank (afterBlank X) = afterBlank X :=
  afterBlank_of_canon (canon_afterBlank X)

/-- the head byte of an input on which a blank block starts -/
theorem blankBlock_head {b : UInt8} {t : List UInt8} (h : (blankBlock (b :: t)).isSome = true) :
    b = 32 ∨ b = 10 ∨ b = 13 := by
  by_cases h1 : b = 32
  · exact Or.inl h1
  · by_cases h2 : b = 10
    · exact Or.inr (Or.inl h2)
    · by_cases h3 : b = 13
      · exact Or.inr (Or.inr h3)
      · simp [blankBlock, scan_other _ _ _ h1 h2 h3] at h


/-! ## reading the grammar's raw item list from the front -/

def hasJunk : List (Option (Entry Bytes)) → Bool
  | [] => false
  | some (.junk _) :: _ => true
  | _ :: r => hasJunk r

/-- the one-line comment entry of a level -/
def mkC : Nat → List Bytes → Entry Bytes
  | 1, c => .comment c
  | 2, c => .groupComment c
  | _, c => .resourceComment c

theorem messageP_head {sf : Nat} {i r : List UInt8} {m : Message Bytes} (h : messageP sf i = .ok m r) :
    ∃ b t, i = b :: t ∧ isAlphaC b = true := by
  unfold messageP at h
  split at h
  · cases h
  · rename_i id r0 hid
    unfold identifier at hid
    split at hid
    · rename_i b t
      split at hid
      · rename_i hb; exact ⟨b, t, rfl, hb⟩
      · cases hid
    · cases hid

theorem termP_head {sf : Nat} {i r : List UInt8} {m : Term Bytes} (h : termP sf i = .ok m r) :
    ∃ t, i = 45 :: t := by
  unfold termP at h
  split at h
  · rename_i r0; exact ⟨r0, rfl⟩
  · cases h

theorem commentMarker_inv {i r : List UInt8} {l : Nat} (h : commentMarker i = some (l, r)) :
    (∃ t, i = 35 :: t) ∧ (l = 1 ∨ l = 2 ∨ l = 3) := by
  unfold commentMarker at h
  split at h
  · injection h with h; injection h with h1 h2; exact ⟨⟨_, rfl⟩, by omega⟩
  · injection h with h; injection h with h1 h2; exact ⟨⟨_, rfl⟩, by omega⟩
  · injection h with h; injection h with h1 h2; exact ⟨⟨_, rfl⟩, by omega⟩
  · cases h

theorem commentLine_inv {i r : List UInt8} {l : Nat} {c : Bytes} (h : commentLine i = some ((l, c), r)) :
    ∃ r0, commentMarker i = some (l, r0) ∧ c = (commentBody r0).1 ∧ lineEnd (commentBody r0).2 = some r := by
  unfold commentLine at h
  split at h
  · cases h
  · rename_i l0 r0 hm
    split at h
    · rename_i r2 hl
      injection h with h; injection h with h1 h2; injection h1 with h3 h4
      subst h3 h4 h2
      exact ⟨r0, hm, rfl, hl⟩
    · cases h

/-- which alternative of `Entry` matched -/
theorem entryP_inv {sf : Nat} {i r5 : List UInt8} {e : Entry Bytes} (h : entryP sf i = .ok e r5) :
    (∃ m r4, messageP sf i = .ok m r4 ∧ lineEnd r4 = some r5 ∧ e = .message m) ∨
    (∃ t r4, termP sf i = .ok t r4 ∧ lineEnd r4 = some r5 ∧ e = .term t) ∨
    (∃ l c, commentLine i = some ((l, c), r5) ∧ e = mkC l [c]) := by
  unfold entryP at h
  cases hm : messageP sf i with
  | ok m r4 =>
    rw [hm] at h
    cases hl : lineEnd r4 with
    | some r' =>
      simp only [hl] at h
      injection h with h1 h2; subst h1 h2
      exact Or.inl ⟨m, r4, rfl, hl, rfl⟩
    | none =>
      obtain ⟨b, t, hi, hb⟩ := messageP_head hm
      simp only [hl] at h
      have ht : termP sf i = .fail := by
        subst hi; unfold termP; split
        · rename_i r0 heq; injection heq with e1 _; subst e1; simp [isAlphaC] at hb
        · rfl
      have hc : commentLine i = none := by
        subst hi; unfold commentLine
        have : commentMarker (b :: t) = none := by
          unfold commentMarker; split <;> first | rfl | (rename_i heq; injection heq with e1 _; subst e1; simp [isAlphaC] at hb)
        rw [this]
      rw [ht, hc] at h
      simp at h
  | fuel => rw [hm] at h; simp at h
  | fail =>
    rw [hm] at h
    simp only at h
    cases ht : termP sf i with
    | ok t r4 =>
      rw [ht] at h
      cases hl : lineEnd r4 with
      | some r' =>
        simp only [hl] at h
        injection h with h1 h2; subst h1 h2
        exact Or.inr (Or.inl ⟨t, r4, rfl, hl, rfl⟩)
      | none =>
        obtain ⟨t0, hi⟩ := termP_head ht
        simp only [hl] at h
        have hc : commentLine i = none := by
          subst hi; simp [commentLine, commentMarker]
        rw [hc] at h
        simp at h
    | fuel => rw [ht] at h; simp at h
    | fail =>
      rw [ht] at h
      simp only at h
      split at h
      · rename_i c r hc
        injection h with h1 h2; subst h1 h2
        exact Or.inr (Or.inr ⟨1, c, hc, rfl⟩)
      · rename_i c r hc
        injection h with h1 h2; subst h1 h2
        exact Or.inr (Or.inr ⟨2, c, hc, rfl⟩)
      · rename_i l c r h1' h2' hc
        injection h with h1 h2; subst h1 h2
        refine Or.inr (Or.inr ⟨l, c, hc, ?_⟩)
        unfold mkC
        split
        · exact absurd rfl h1'
        · exact absurd rfl h2'
        · rfl
      · cases h

theorem entryP_head {sf : Nat} {i r5 : List UInt8} {e : Entry Bytes} (h : entryP sf i = .ok e r5) :
    ∃ b t, i = b :: t ∧ (isAlphaC b = true ∨ b = 45 ∨ b = 35) := by
  rcases entryP_inv h with ⟨m, r4, h1, _, _⟩ | ⟨t, r4, h1, _, _⟩ | ⟨l, c, h1, _⟩
  · obtain ⟨b, t, e1, e2⟩ := messageP_head h1; exact ⟨b, t, e1, Or.inl e2⟩
  · obtain ⟨t, e1⟩ := termP_head h1; exact ⟨45, t, e1, Or.inr (Or.inl rfl)⟩
  · obtain ⟨r0, g1, _, _⟩ := commentLine_inv h1
    obtain ⟨⟨t, e1⟩, _⟩ := commentMarker_inv g1
    exact ⟨35, t, e1, Or.inr (Or.inr rfl)⟩

theorem entryP_junkfree {sf : Nat} {i r5 : List UInt8} {e : Entry Bytes} (h : entryP sf i = .ok e r5) :
    ∀ c, e ≠ .junk c := by
  intro c
  rcases entryP_inv h with ⟨m, r4, _, _, h1⟩ | ⟨t, r4, _, _, h1⟩ | ⟨l, c', _, h1⟩
  · subst h1; simp
  · subst h1; simp
  · subst h1; unfold mkC; split <;> simp


theorem entryP_fail_of_head {sf : Nat} {b : UInt8} {t : List UInt8} (h1 : isAlphaC b = false) (h2 : b ≠ 45) (h3 : b ≠ 35) :
    entryP sf (b :: t) = .fail := by
  cases h : entryP sf (b :: t) with
  | fail => rfl
  | ok e r =>
    obtain ⟨b', t', e1, e2⟩ := entryP_head h
    injection e1 with e1 _; subst e1
    rcases e2 with e2 | e2 | e2
    · rw [h1] at e2; cases e2
    · exact absurd e2 h2
    · exact absurd e2 h3
  | fuel =>
    exfalso
    unfold entryP at h
    have hm : messageP sf (b :: t) = .fail := by simp [messageP, identifier, h1]
    have ht : termP sf (b :: t) = .fail := by
      unfold termP; split
      · rename_i r0 heq; injection heq with e1 _; exact absurd e1 h2
      · rfl
    rw [hm, ht] at h
    simp only at h
    split at h <;> cases h

theorem blank_not_entry_head {b : UInt8} (h : b = 32 ∨ b = 10 ∨ b = 13) : isAlphaC b = false ∧ b ≠ 45 ∧ b ≠ 35 := by
  rcases h with h | h | h <;> subst h <;> decide

/-- skipping a blank block of the source consumes at most one `none` item -/
theorem raw_skip_blank {sf m : Nat} {R : List UInt8} {raw : List (Option (Entry Bytes))}
    (h : resourceRaw sf m R = some raw) :
    ∃ raw' m', m' ≤ m ∧ resourceRaw sf m' (afterBlank R) = some raw' ∧
      ((raw = raw' ∧ (R = [] ∨ blankBlock R = none)) ∨ (raw = none :: raw' ∧ (blankBlock R).isSome = true ∧ R ≠ [])) := by
  cases m with
  | zero => simp [resourceRaw] at h
  | succ n =>
    cases R with
    | nil =>
      refine ⟨raw, n + 1, Nat.le_refl _, ?_, Or.inl ⟨rfl, Or.inl rfl⟩⟩
      have : afterBlank [] = [] := by simp [afterBlank, blankBlock, blankBlockScan]
      rw [this]; exact h
    | cons b t =>
      cases hb : blankBlock (b :: t) with
      | none =>
        refine ⟨raw, n + 1, Nat.le_refl _, ?_, Or.inl ⟨rfl, Or.inr rfl⟩⟩
        have : afterBlank (b :: t) = b :: t := by simp [afterBlank, hb]
        rw [this]; exact h
      | some v =>
        obtain ⟨c, r6⟩ := v
        obtain ⟨g1, g2, g3⟩ := blank_not_entry_head (blankBlock_head (b := b) (t := t) (by rw [hb]; rfl))
        simp only [resourceRaw, entryP_fail_of_head g1 g2 g3, hb] at h
        cases h6 : resourceRaw sf n r6 with
        | none => rw [h6] at h; cases h
        | some raw' =>
          rw [h6] at h
          simp only [Option.map_some] at h
          injection h with h
          refine ⟨raw', n, Nat.le_succ _, ?_, Or.inr ⟨h.symm, by simp, by simp⟩⟩
          have : afterBlank (b :: t) = r6 := by simp [afterBlank, hb]
          rw [this]; exact h6

/-- at a position where no blank block starts, a junk-free item list begins with an `Entry` -/
theorem raw_entry_inv {sf m : Nat} {b : UInt8} {t : List UInt8} {raw : List (Option (Entry Bytes))}
    (h : resourceRaw sf m (b :: t) = some raw) (hb : blankBlock (b :: t) = none) (hj : hasJunk raw = false) :
    ∃ m' e r5 raw1, m = m' + 1 ∧ entryP sf (b :: t) = .ok e r5 ∧ raw = some e :: raw1 ∧
      resourceRaw sf m' r5 = some raw1 ∧ hasJunk raw1 = false := by
  cases m with
  | zero => simp [resourceRaw] at h
  | succ n =>
    simp only [resourceRaw] at h
    cases he : entryP sf (b :: t) with
    | ok e r5 =>
      rw [he] at h
      simp only at h
      cases h6 : resourceRaw sf n r5 with
      | none => rw [h6] at h; cases h
      | some raw1 =>
        rw [h6] at h
        simp only [Option.map_some] at h
        injection h with h
        subst h
        refine ⟨n, e, r5, raw1, rfl, rfl, rfl, h6, ?_⟩
        have := entryP_junkfree he
        cases e with
        | junk c => exact absurd rfl (this c)
        | message m => simpa [hasJunk] using hj
        | term m => simpa [hasJunk] using hj
        | comment m => simpa [hasJunk] using hj
        | groupComment m => simpa [hasJunk] using hj
        | resourceComment m => simpa [hasJunk] using hj
    | fuel => rw [he] at h; cases h
    | fail =>
      rw [he, hb] at h
      simp only at h
      cases h6 : resourceRaw sf n (junk (b :: t)).2 with
      | none => rw [h6] at h; cases h
      | some raw1 =>
        rw [h6] at h
        simp only [Option.map_some] at h
        injection h with h
        subst h
        simp [hasJunk] at hj

/-- in a junk-free source every line that is not blank begins with a letter, `-` or `#` -/
theorem next_head {sf m : Nat} {X : List UInt8} {raw : List (Option (Entry Bytes))}
    (h : resourceRaw sf m X = some raw) (hj : hasJunk raw = false) (hc : Canon X) :
    X = [] ∨ ∃ b t, X = b :: t ∧ (isAlphaC b = true ∨ b = 45 ∨ b = 35) := by
  rcases hc with hc | hc
  · exact Or.inl hc
  · right
    have hb := blankBlock_none_of_nonBlankHead hc
    cases X with
    | nil => obtain ⟨b, t, e, _⟩ := hc; simp [spaces] at e
    | cons b t =>
      obtain ⟨m', e, r5, raw1, _, he, _⟩ := raw_entry_inv h hb hj
      exact entryP_head he

theorem hasJunk_tail {x : Option (Entry Bytes)} {raw : List (Option (Entry Bytes))} (h : hasJunk (x :: raw) = false) :
    hasJunk raw = false := by
  cases x with
  | none => simpa [hasJunk] using h
  | some e => cases e <;> simp_all [hasJunk]

/-- what follows a Message or Term in a junk-free source satisfies the follow condition of the entry layer -/
theorem follow_of_raw {sf m : Nat} {r4 r5 : List UInt8} {raw : List (Option (Entry Bytes))}
    (hl : lineEnd r4 = some r5) (h : resourceRaw sf m r5 = some raw) (hj : hasJunk raw = false) : EntryFollow r4 := by
  obtain ⟨raw', m', _, h', hcase⟩ := raw_skip_blank h
  have hj' : hasJunk raw' = false := by
    rcases hcase with ⟨e, _⟩ | ⟨e, _⟩
    · rw [← e]; exact hj
    · rw [e] at hj; exact hasJunk_tail hj
  have hX : afterBlank r4 = afterBlank r5 := afterBlank_lineEnd hl
  have hbo : blankOpt r4 = blankOpt (afterBlank r5) := by rw [← hX, blankOpt_afterBlank]
  rcases next_head h' hj' (canon_afterBlank r5) with h0 | ⟨b, t, h0, hb⟩
  · have : blankOpt r4 = [] := by rw [hbo, h0]; simp [blankOpt]
    refine ⟨⟨by simp [hl], fun b t hbt => ?_⟩, fun t hbt => ?_⟩ <;> rw [this] at hbt <;> cases hbt
  · have hne : b ≠ 32 ∧ b ≠ 10 ∧ b ≠ 13 ∧ b ≠ 123 ∧ b ≠ 46 := by
      rcases hb with hb | hb | hb
      · refine ⟨?_, ?_, ?_, ?_, ?_⟩ <;> (intro hh; subst hh; simp [isAlphaC] at hb)
      · subst hb; decide
      · subst hb; decide
    have : blankOpt r4 = b :: t := by rw [hbo, h0]; exact blankOpt_other _ hne.1 hne.2.1 hne.2.2.1
    refine ⟨⟨by simp [hl], fun b' t' hbt => ?_⟩, fun t' hbt => ?_⟩
    · rw [this] at hbt; injection hbt with e1 e2; subst e1 e2
      exact ⟨hne.2.2.2.1, Or.inr (Or.inr (Or.inr (Or.inr (by rw [hX, h0]))))⟩
    · rw [this] at hbt; injection hbt with e1 e2; exact hne.2.2.2.2 e1


/-! ## comment lines -/

theorem isEol_of_lineEnd {s : Src} {p : Nat} (h : (lineEnd (rest s p)).isSome = true) : isEol s p = true := by
  rcases lineEnd_isSome_cases h with h0 | ⟨X, h0 | h0⟩
  · have : s[p]? = none := by have := rest_eq_nil_iff.mp h0; simp; omega
    simp [isEol, this]
  · simp [isEol, rest_head h0]
  · obtain ⟨h1, h2⟩ := rest_cons_inv h0
    have h3 := rest_head h2.symm
    simp [isEol, h1, h3]

theorem commentChars_of_isEol {s : Src} {p : Nat} (h : isEol s p = true) :
    commentChars (rest s p) = ([], rest s p) := by
  rcases isEol_cases h with h0 | h0 | ⟨h0, h1⟩
  · rw [rest_nil h0]; simp [commentChars]
  · rw [rest_cons h0]; simp [commentChars]
  · rw [rest_cons h0, rest_cons h1]; simp [commentChars]

theorem commentBody_of_ne {s : Src} {p : Nat} (h : s[p]? ≠ some 32) : commentBody (rest s p) = ([], rest s p) := by
  unfold commentBody
  split
  · rename_i r' heq; exact absurd (rest_head heq) h
  · rfl

/-- one `CommentLine` of the grammar against one round of `get_comment`'s loop: the level, the two ways the
content starts (directly at a line end, or after one space), the content span and the cursor after the line end -/
theorem comment_line_step {s : Src} (hs : AsciiThenBoundary s) {p l : Nat} {c : Bytes} {r5 : List UInt8}
    (h : commentLine (rest s p) = some ((l, c), r5)) :
    ∃ p2 e, getCommentLevel s p = (l, p + l) ∧ (l = 1 ∨ l = 2 ∨ l = 3) ∧ s[p]? = some 35 ∧
      ((isEol s (p + l) = true ∧ p2 = p + l) ∨ (isEol s (p + l) = false ∧ s[p + l]? = some 32 ∧ p2 = p + l + 1)) ∧
      getCommentLine s p2 = .ok ⟨p2, e⟩ e ∧ spanBytes s ⟨p2, e⟩ = c ∧ rest s ((skipEol s e).getD e) = r5 ∧
      p < (skipEol s e).getD e ∧ (skipEol s e).getD e ≤ s.size ∧
      ((skipEol s e).getD e < s.size → s[(skipEol s e).getD e - 1]? = some 10) := by
  obtain ⟨r0, hm, hc, hl⟩ := commentLine_inv h
  rw [commentMarker_eq_getCommentLevel] at hm
  rcases getCommentLevel_cases s p with ⟨g0, _⟩ | ⟨l', g1, g2, g3, g4, g5⟩
  · rw [g0] at hm; simp at hm
  · rw [g3] at hm
    have hl0 : ¬ l' = 0 := by omega
    simp only [hl0, if_false] at hm
    injection hm with hm; injection hm with e1 e2
    subst e1
    have hbl : Bnd s (p + l') := by
      have := bnd_succ hs g5 (by decide)
      have e : p + l' - 1 + 1 = p + l' := by omega
      rw [e] at this; exact this
    have hlle : p + l' ≤ s.size := hbl.le
    -- the line, from the content start `p2`
    have fin : ∀ p2, Bnd s p2 → p + l' ≤ p2 → commentChars (rest s p2) = (c, (commentBody r0).2) →
        ∃ e, getCommentLine s p2 = .ok ⟨p2, e⟩ e ∧ spanBytes s ⟨p2, e⟩ = c ∧ rest s ((skipEol s e).getD e) = r5 ∧
          p < (skipEol s e).getD e ∧ (skipEol s e).getD e ≤ s.size ∧
          ((skipEol s e).getD e < s.size → s[(skipEol s e).getD e - 1]? = some 10) := by
      intro p2 hb2 hle hcc
      obtain ⟨e, ge1, ge2⟩ := commentChars_eq_getCommentLine p2 hb2
      have hg := getCommentLine_good p2 hb2
      rw [ge1] at hg
      obtain ⟨k1, k2, _, k4⟩ := (good_ok _ _ _ _ _).mp hg
      rw [hcc] at ge2
      injection ge2 with ge2 ge3
      rw [ge3, lineEnd_eq_skipEol] at hl
      refine ⟨e, ge1, ge2.symm, ?_⟩
      cases hse : skipEol s e with
      | some q =>
        rw [hse] at hl
        simp only at hl
        injection hl with hl
        simp only [Option.getD_some]
        unfold skipEol at hse
        split at hse
        · rename_i h10; injection hse with hse; subst hse
          have := get_lt h10
          exact ⟨hl, by omega, by omega, fun _ => by simpa using h10⟩
        · rename_i h13
          split at hse
          · rename_i h10'
            injection hse with hse; subst hse
            have h10 : s[e + 1]? = some 10 := by simpa using h10'
            have := get_lt h10
            exact ⟨hl, by omega, by omega, fun _ => by simpa using h10⟩
          · cases hse
        · cases hse
      | none =>
        rw [hse] at hl
        simp only at hl
        split at hl
        · rename_i hsz
          injection hl with hl
          simp only [Option.getD_none]
          have : e = s.size := by omega
          subst this
          exact ⟨by rw [← hl]; exact rest_eq_nil_iff.mpr (Nat.le_refl _), by omega, Nat.le_refl _, fun hh => by omega⟩
        · cases hl
    by_cases heol : isEol s (p + l') = true
    · have hne : s[p + l']? ≠ some 32 := by
        rcases isEol_cases heol with h0 | h0 | ⟨h0, _⟩ <;> rw [h0] <;> simp
      have hcb := commentBody_of_ne hne
      rw [e2] at hcb
      have hcc : commentChars (rest s (p + l')) = (c, (commentBody r0).2) := by
        rw [commentChars_of_isEol heol, hc, hcb, e2]
      obtain ⟨e, k⟩ := fin (p + l') hbl (Nat.le_refl _) hcc
      exact ⟨p + l', e, g3, by omega, g4, Or.inl ⟨heol, rfl⟩, k⟩
    · have heol' : isEol s (p + l') = false := by simpa using heol
      by_cases h32 : s[p + l']? = some 32
      · have hb2 : Bnd s (p + l' + 1) := bnd_succ hs h32 (by decide)
        have hcc : commentChars (rest s (p + l' + 1)) = (c, (commentBody r0).2) := by
          rw [hc, ← e2, rest_cons h32]; simp [commentBody]
        obtain ⟨e, k⟩ := fin (p + l' + 1) hb2 (by omega) hcc
        exact ⟨p + l' + 1, e, g3, by omega, g4, Or.inr ⟨heol', h32, rfl⟩, k⟩
      · exfalso
        have hcb := commentBody_of_ne h32
        rw [e2] at hcb
        rw [hcb] at hl
        have := isEol_of_lineEnd (s := s) (p := p + l') (by rw [e2]; simp only at hl; rw [hl]; rfl)
        exact heol this


theorem headLevel_mkC {l : Nat} (hl : l = 1 ∨ l = 2 ∨ l = 3) (x : List Bytes) (X : List (Option (Entry Bytes))) :
    headLevel (some (mkC l x) :: X) = l := by
  rcases hl with h | h | h <;> subst h <;> simp [mkC, headLevel]

theorem headLevel_hash {sf m : Nat} {b : UInt8} {t : List UInt8} {raw : List (Option (Entry Bytes))}
    (h : resourceRaw sf m (b :: t) = some raw) (hl : headLevel raw ≠ 0) : b = 35 := by
  cases m with
  | zero => simp [resourceRaw] at h
  | succ n =>
    simp only [resourceRaw] at h
    cases he : entryP sf (b :: t) with
    | ok e r5 =>
      rw [he] at h
      simp only at h
      cases h6 : resourceRaw sf n r5 with
      | none => rw [h6] at h; cases h
      | some raw1 =>
        rw [h6] at h
        simp only [Option.map_some] at h
        injection h with h
        subst h
        rcases entryP_inv he with ⟨m, r4, _, _, h1⟩ | ⟨t, r4, _, _, h1⟩ | ⟨l, c, h1, _⟩
        · subst h1; simp [headLevel] at hl
        · subst h1; simp [headLevel] at hl
        · obtain ⟨r0, g1, _, _⟩ := commentLine_inv h1
          obtain ⟨⟨t', e1⟩, _⟩ := commentMarker_inv g1
          injection e1 with e1 _
    | fuel => rw [he] at h; cases h
    | fail =>
      rw [he] at h
      simp only at h
      cases hb : blankBlock (b :: t) with
      | some v =>
        rw [hb] at h
        simp only at h
        cases h6 : resourceRaw sf n v.2 with
        | none => rw [h6] at h; cases h
        | some raw1 =>
          rw [h6] at h
          simp only [Option.map_some] at h
          injection h with h
          subst h
          simp [headLevel] at hl
      | none =>
        rw [hb] at h
        simp only at h
        cases h6 : resourceRaw sf n (junk (b :: t)).2 with
        | none => rw [h6] at h; cases h
        | some raw1 =>
          rw [h6] at h
          simp only [Option.map_some] at h
          injection h with h
          subst h
          simp [headLevel] at hl

/-- a line that begins with `#` in a junk-free source is a `CommentLine` -/
theorem raw_comment_inv {sf m : Nat} {s : Src} {p : Nat} {raw : List (Option (Entry Bytes))}
    (h : resourceRaw sf m (rest s p) = some raw) (h35 : s[p]? = some 35) (hj : hasJunk raw = false) :
    ∃ m' l c r5 raw1, m = m' + 1 ∧ commentLine (rest s p) = some ((l, c), r5) ∧ raw = some (mkC l [c]) :: raw1 ∧
      resourceRaw sf m' r5 = some raw1 ∧ hasJunk raw1 = false := by
  rw [rest_cons h35] at h ⊢
  have hb : blankBlock (35 :: rest s (p + 1)) = none := by
    simp [blankBlock, scan_other _ _ _ (by decide : (35 : UInt8) ≠ 32) (by decide : (35 : UInt8) ≠ 10) (by decide : (35 : UInt8) ≠ 13)]
  obtain ⟨m', e, r5, raw1, e1, he, e2, h5, hj1⟩ := raw_entry_inv h hb hj
  rcases entryP_inv he with ⟨m, r4, h1, _, _⟩ | ⟨t, r4, h1, _, _⟩ | ⟨l, c, h1, h2⟩
  · obtain ⟨b, t, e3, e4⟩ := messageP_head h1
    injection e3 with e3 _; subst e3; simp [isAlphaC] at e4
  · obtain ⟨t, e3⟩ := termP_head h1
    injection e3 with e3 _; cases e3
  · subst h2
    exact ⟨m', l, c, r5, raw1, e1, h1, e2, h5, hj1⟩


/-- the raw items of `k` comment lines of one level -/
def runItems (s : Src) (L : Nat) (spans : List Span) : List (Option (Entry Bytes)) :=
  spans.map fun sp => some (mkC L [spanBytes s sp])

/-- **`get_comment`'s loop against the grammar's comment lines.**  From a line start `p` of a junk-free source the
loop consumes exactly the maximal run of `CommentLine`s of the comment's level `L`; what it returns as cursor is
either the start `p1` of the next line (end of input, or a `#` line of another level) or the `\n` in front of it
(the next line does not begin with `#`), which `skip_blank_block` then counts as one blank line. -/
theorem comment_run {s : Src} (hs : AsciiThenBoundary s) (sf : Nat) {L : Nat} (hL : L = 1 ∨ L = 2 ∨ L = 3) :
    ∀ (g m p lv : Nat) (content : List Span) (raw : List (Option (Entry Bytes))), p ≤ s.size → s.size - p + 1 ≤ g →
      resourceRaw sf m (rest s p) = some raw → hasJunk raw = false →
      ((lv = L ∧ (p < s.size → 0 < p ∧ s[p - 1]? = some 10)) ∨ (lv = 0 ∧ headLevel raw = L)) →
      ∃ spans raw1 q p1 m1,
        raw = runItems s L spans ++ raw1 ∧
        getCommentGo s g lv content p = .ok (content ++ spans, L) q ∧
        resourceRaw sf m1 (rest s p1) = some raw1 ∧ m1 ≤ m ∧ hasJunk raw1 = false ∧ headLevel raw1 ≠ L ∧
        p ≤ p1 ∧ p1 ≤ s.size ∧ (lv = 0 → p < p1) ∧
        ((q = p1 ∧ (s.size ≤ p1 ∨ s[p1]? = some 35)) ∨
         (q + 1 = p1 ∧ s[q]? = some 10 ∧ p1 < s.size ∧ s[p1]? ≠ some 35)) := by
  have hL0 : L ≠ 0 := by omega
  intro g
  induction g with
  | zero => intro m p lv content raw hp hg; omega
  | succ g ih =>
    intro m p lv content raw hp hg hraw hj hlv
    simp only [getCommentGo]
    by_cases hlt : p < s.size
    · simp only [hlt, if_true]
      rcases getCommentLevel_cases s p with ⟨g0, hne⟩ | ⟨l, g1, g2, g3, g4, g5⟩
      · -- the next line does not begin with `#`
        obtain ⟨b, hb, hrest⟩ : ∃ b, s[p]? = some b ∧ rest s p = b :: rest s (p + 1) := by
          rcases rest_cases s p with ⟨h1, _⟩ | h1
          · have : s.size ≤ p := by simpa using h1
            omega
          · exact h1
        have hb35 : b ≠ 35 := by intro hh; subst hh; exact hne hb
        have hhl : headLevel raw = 0 := by
          apply Classical.byContradiction
          intro hh
          rw [hrest] at hraw
          exact hb35 (headLevel_hash hraw hh)
        rcases hlv with ⟨e1, hprev⟩ | ⟨_, e2⟩
        · obtain ⟨hp0, h10⟩ := hprev hlt
          rw [g0]
          simp only [beq_self_eq_true, if_true, usub]
          have : 1 ≤ p := hp0
          simp only [this, if_true]
          refine ⟨[], raw, p - 1, p, m, by simp [runItems], by simp [e1], hraw, Nat.le_refl _, hj, by omega,
            Nat.le_refl _, hp, by omega, Or.inr ⟨by omega, h10, hlt, hne⟩⟩
        · omega
      · -- a `#` line
        obtain ⟨m', l2, c, r5, raw1', em, hcl, eraw, h5, hj1⟩ := raw_comment_inv hraw g4 hj
        obtain ⟨p2, e, k1, k2, k3, k4, k5, k6, k7, k8, k9, k10⟩ := comment_line_step hs hcl
        have el : l2 = l := by rw [g3] at k1; injection k1 with k1 _; exact k1.symm
        subst el
        have hhl : headLevel raw = l2 := by rw [eraw]; exact headLevel_mkC k2 _ _
        rw [g3]
        have hl0 : (l2 == 0) = false := by simp; omega
        simp only [hl0, Bool.false_eq_true, if_false]
        by_cases hsame : l2 = L
        · subst hsame
          have hcond : (lv != 0 && l2 != lv) = false := by
            rcases hlv with ⟨e1, _⟩ | ⟨e1, _⟩ <;> subst e1 <;> simp
          simp only [hcond, Bool.false_eq_true, if_false]
          -- both arms read the line and go round again
          have hnext : ∃ spans raw1 q p1 m1,
              raw1' = runItems s l2 spans ++ raw1 ∧
              getCommentGo s g l2 (content ++ [⟨p2, e⟩]) ((skipEol s e).getD e) = .ok (content ++ [⟨p2, e⟩] ++ spans, l2) q ∧
              resourceRaw sf m1 (rest s p1) = some raw1 ∧ m1 ≤ m' ∧ hasJunk raw1 = false ∧ headLevel raw1 ≠ l2 ∧
              (skipEol s e).getD e ≤ p1 ∧ p1 ≤ s.size ∧
              ((q = p1 ∧ (s.size ≤ p1 ∨ s[p1]? = some 35)) ∨
               (q + 1 = p1 ∧ s[q]? = some 10 ∧ p1 < s.size ∧ s[p1]? ≠ some 35)) := by
            obtain ⟨spans, raw1, q, p1, m1, a1, a2, a3, a4, a5, a6, a7, a8, _, a10⟩ :=
              ih m' ((skipEol s e).getD e) l2 (content ++ [⟨p2, e⟩]) raw1' k9 (by omega) (by rw [k7]; exact h5) hj1
                (Or.inl ⟨rfl, fun hh => ⟨by omega, k10 hh⟩⟩)
            exact ⟨spans, raw1, q, p1, m1, a1, a2, a3, a4, a5, a6, a7, a8, a10⟩
          obtain ⟨spans, raw1, q, p1, m1, a1, a2, a3, a4, a5, a6, a7, a8, a10⟩ := hnext
          have hgoal : getCommentGo s g l2 (content ++ [⟨p2, e⟩]) ((skipEol s e).getD e) =
              .ok (content ++ (⟨p2, e⟩ :: spans), l2) q := by
            rw [a2]; simp
          refine ⟨⟨p2, e⟩ :: spans, raw1, q, p1, m1, ?_, ?_, a3, by omega, a5, a6, by omega, a8, fun _ => by omega, a10⟩
          · rw [eraw, a1, ← k6]; simp [runItems]
          · rcases k4 with ⟨heol, ep2⟩ | ⟨heol, h32, ep2⟩
            · subst ep2
              simp only [heol, if_true, k5]
              exact hgoal
            · subst ep2
              have hexp : expectByte s (p + l2) 32 = .ok () (p + l2 + 1) := by
                simp [expectByte, (isCurrentByte_iff s (p + l2) 32).mpr h32]
              simp only [heol, Bool.false_eq_true, if_false, hexp, k5]
              exact hgoal
        · -- a comment line of another level ends the run
          rcases hlv with ⟨e1, _⟩ | ⟨_, e2⟩
          · subst e1
            have hcond : (lv != 0 && l2 != lv) = true := by simp; exact ⟨hL0, hsame⟩
            simp only [hcond, if_true, usub]
            have : l2 ≤ p + l2 := by omega
            simp only [this, if_true]
            refine ⟨[], raw, p, p, m, by simp [runItems], by simp, hraw, Nat.le_refl _, hj, by omega,
              Nat.le_refl _, hp, fun hh => absurd hh hL0, Or.inl ⟨rfl, Or.inr g4⟩⟩
          · omega
    · -- end of input
      simp only [hlt, if_false]
      have hnil : rest s p = [] := rest_eq_nil_iff.mpr (by omega)
      have hraw0 : raw = [] := by
        rw [hnil] at hraw
        cases m with
        | zero => simp [resourceRaw] at hraw
        | succ n => simpa [resourceRaw] using hraw.symm
      rcases hlv with ⟨e1, _⟩ | ⟨_, e2⟩
      · subst e1
        refine ⟨[], raw, p, p, m, by simp [runItems], by simp, hraw, Nat.le_refl _, hj, ?_,
          Nat.le_refl _, hp, fun hh => absurd hh hL0, Or.inl ⟨rfl, Or.inl (by omega)⟩⟩
        rw [hraw0]; simp [headLevel]; omega
      · rw [hraw0] at e2; simp [headLevel] at e2; omega


/-! ## the blank block after a comment, with `skip_blank_block`'s count -/

theorem scan_count (i ls : List UInt8) (c : Nat) : ∀ (k : Nat) (x : List UInt8),
    blankBlockScan i ls c = some (k, x) → c ≤ k ∧ (k = 0 → x = []) := by
  fun_induction blankBlockScan i ls c <;> intro k x h
  · rename_i r ls c ih; exact ih k x h
  · rename_i r ls c ih; have := ih k x h; exact ⟨by omega, fun hk => by omega⟩
  · rename_i r ls c ih; have := ih k x h; exact ⟨by omega, fun hk => by omega⟩
  · injection h with h; injection h with h1 h2; subst h1 h2; exact ⟨Nat.le_refl _, fun _ => rfl⟩
  · cases h
  · rename_i b r ls c h1 h2 h3 h4
    injection h with h; injection h with h1' h2'; subst h1'
    have : c ≠ 0 := by simpa using h4
    exact ⟨Nat.le_refl _, fun hk => absurd hk this⟩

theorem resourceRaw_nil {sf m : Nat} {raw : List (Option (Entry Bytes))} (h : resourceRaw sf m [] = some raw) : raw = [] := by
  cases m with
  | zero => simp [resourceRaw] at h
  | succ n => simpa [resourceRaw] using h.symm

/-- where `skip_blank_block` goes from the cursor `get_comment` returned, which items of the grammar that skips, and
what the count says: `< 2` exactly when no blank block follows the comment (or nothing follows at all) -/
theorem blank_after_comment {s : Src} {sf m1 q p1 : Nat} {raw1 : List (Option (Entry Bytes))}
    (hraw : resourceRaw sf m1 (rest s p1) = some raw1) (hj : hasJunk raw1 = false) (hp1 : p1 ≤ s.size)
    (hq : (q = p1 ∧ (s.size ≤ p1 ∨ s[p1]? = some 35)) ∨ (q + 1 = p1 ∧ s[q]? = some 10 ∧ p1 < s.size ∧ s[p1]? ≠ some 35)) :
    ∃ raw2 m2, resourceRaw sf m2 (rest s (skipBlankBlock s q).1) = some raw2 ∧ hasJunk raw2 = false ∧
      Canon (rest s (skipBlankBlock s q).1) ∧ q ≤ (skipBlankBlock s q).1 ∧ (skipBlankBlock s q).1 ≤ s.size ∧
      ((raw1 = raw2 ∧ (skipBlankBlock s q).2 < 2) ∨ (raw1 = none :: raw2 ∧ (2 ≤ (skipBlankBlock s q).2 ∨ raw2 = []))) := by
  have hqs : q ≤ s.size := by omega
  have hge := (skipBlankBlock_after s q).le
  have hle := (skipBlankBlock_after s q).le_size hqs
  have hbb := blankBlock_eq_skipBlankBlock s q hqs
  simp only at hbb
  rcases hq with ⟨e1, h2⟩ | ⟨e1, h10, hlt, hne⟩
  · subst e1
    have hcanon : Canon (rest s q) := by
      rcases h2 with h2 | h2
      · exact Or.inl (rest_eq_nil_iff.mpr h2)
      · right
        rw [rest_cons h2, spaces_cons_ne _ (by decide)]
        exact ⟨35, _, rfl, by decide, by decide, fun ⟨h, _⟩ => by cases h⟩
    have hstay : (skipBlankBlock s q).1 = q := skipBlankBlock_stay hqs hcanon
    have hcnt : (skipBlankBlock s q).2 = 0 := by
      rcases hcanon with h0 | h0
      · rw [h0] at hbb
        simp only [blankBlock, blankBlockScan] at hbb
        split at hbb
        · cases hbb
        · injection hbb with hbb; injection hbb with hbb _; exact hbb.symm
      · rw [blankBlock_none_of_nonBlankHead h0] at hbb
        split at hbb
        · rename_i hc; exact hc.1
        · cases hbb
    rw [hstay, hcnt]
    exact ⟨raw1, m1, hraw, hj, hcanon, Nat.le_refl _, hqs, Or.inl ⟨rfl, by omega⟩⟩
  · subst e1
    rw [rest_cons h10, blankBlock_nl, scan_succ_cnt] at hbb
    have hbb' : ∀ v, some v = (if (skipBlankBlock s q).2 = 0 ∧ (skipBlankBlock s q).1 < s.size then none
        else some ((skipBlankBlock s q).2, rest s (skipBlankBlock s q).1)) →
        v = ((skipBlankBlock s q).2, rest s (skipBlankBlock s q).1) := by
      intro v hv
      split at hv
      · cases hv
      · injection hv
    cases hR : blankBlock (rest s (q + 1)) with
    | none =>
      have hR' : blankBlockScan (rest s (q + 1)) (rest s (q + 1)) 0 = none := hR
      rw [hR'] at hbb
      have hbb := hbb' _ hbb
      injection hbb with hb1 hb2
      have : (skipBlankBlock s q).1 = q + 1 := (rest_inj (by omega) hle hb2).symm
      rw [this, ← hb1]
      exact ⟨raw1, m1, hraw, hj, Or.inr (nonBlankHead_of_scan_none _ _ 0 hR), by omega, by omega, Or.inl ⟨rfl, by omega⟩⟩
    | some v =>
      obtain ⟨k, x⟩ := v
      have hR' : blankBlockScan (rest s (q + 1)) (rest s (q + 1)) 0 = some (k, x) := hR
      rw [hR'] at hbb
      have hbb := hbb' _ hbb
      injection hbb with hb1 hb2
      obtain ⟨raw2, m2, _, h2, hcase⟩ := raw_skip_blank hraw
      have hab : afterBlank (rest s (q + 1)) = x := by simp [afterBlank, hR]
      have hne0 : rest s (q + 1) ≠ [] := by
        intro h0; have := rest_eq_nil_iff.mp h0; omega
      rcases hcase with ⟨_, h0 | h0⟩ | ⟨e2, _, _⟩
      · exact absurd h0 hne0
      · rw [hR] at h0; cases h0
      · rw [hab, hb2] at h2
        have hj2 : hasJunk raw2 = false := by rw [e2] at hj; exact hasJunk_tail hj
        refine ⟨raw2, m2, h2, hj2, ?_, hge, hle, Or.inr ⟨e2, ?_⟩⟩
        · rw [← hb2, ← hab]; exact canon_afterBlank _
        · rw [← hb1]
          by_cases hk : k = 0
          · right
            have := (scan_count _ _ 0 k x hR').2 hk
            rw [← hb2, this] at h2
            exact resourceRaw_nil h2
          · left; omega


/-! ## joining a run of comment lines -/

theorem joinComments_mkC_merge {L : Nat} (a b : List Bytes) (X : List (Option (Entry Bytes))) :
    joinComments (some (mkC L a) :: some (mkC L b) :: X) = joinComments (some (mkC L (a ++ b)) :: X) := by
  unfold mkC
  split
  · exact joinComments_comment_merge a b X
  · exact joinComments_gc_merge a b X
  · exact joinComments_rc_merge a b X

theorem joinComments_run (s : Src) (L : Nat) (spans : List Span) : ∀ (a : List Bytes) (X : List (Option (Entry Bytes))),
    joinComments (some (mkC L a) :: (runItems s L spans ++ X)) =
      joinComments (some (mkC L (a ++ spans.map (spanBytes s))) :: X) := by
  induction spans with
  | nil => intro a X; simp [runItems]
  | cons sp spans ih =>
    intro a X
    have : runItems s L (sp :: spans) ++ X = some (mkC L [spanBytes s sp]) :: (runItems s L spans ++ X) := by
      simp [runItems]
    rw [this, joinComments_mkC_merge, ih]
    simp [List.append_assoc]

theorem assemble_run (s : Src) (L : Nat) (sp : Span) (spans : List Span) (X : List (Option (Entry Bytes))) :
    assemble (runItems s L (sp :: spans) ++ X) = assemble (some (mkC L ((sp :: spans).map (spanBytes s))) :: X) := by
  have : runItems s L (sp :: spans) ++ X = some (mkC L [spanBytes s sp]) :: (runItems s L spans ++ X) := by
    simp [runItems]
  simp only [assemble]
  rw [this, joinComments_run]
  simp

/-! ## the parser's tree, resolved and text-joined, entry by entry -/

def jEntry (s : Src) (e : Entry Span) : Entry Bytes := (Entry.mapS (spanBytes s) e).joinText

theorem jRes_eq (s : Src) (t : Resource Span) : Resource.joinText (resolve s t) = t.map (jEntry s) := by
  simp [Resource.joinText, resolve, jEntry, List.map_map, Function.comp_def]

theorem jAttrs_eq (s : Src) (l : List (Attribute Span)) :
    (l.map (Attribute.mapS (spanBytes s))).map Attribute.joinText = jAttrs s l := by
  simp [jAttrs, jAttr, jPat, List.map_map, Function.comp_def, Attribute.mapS, Attribute.joinText]

theorem jEntry_message (s : Src) (m : Message Span) : jEntry s (.message m) = .message (jMsg s m) := by
  simp only [jEntry, Entry.mapS, Entry.joinText, jMsg, jAttrs_eq]
  congr 2
  cases m.value <;> simp [jPat]

theorem jEntry_term (s : Src) (t : Term Span) : jEntry s (.term t) = .term (jTerm s t) := by
  simp only [jEntry, Entry.mapS, Entry.joinText, jTerm, jAttrs_eq]
  rfl

theorem jEntry_comment (s : Src) (c : List Span) : jEntry s (.comment c) = .comment (c.map (spanBytes s)) := rfl
theorem jEntry_groupComment (s : Src) (c : List Span) : jEntry s (.groupComment c) = .groupComment (c.map (spanBytes s)) := rfl
theorem jEntry_resourceComment (s : Src) (c : List Span) :
    jEntry s (.resourceComment c) = .resourceComment (c.map (spanBytes s)) := rfl

theorem jMsg_comment (s : Src) (m : Message Span) (c : List Span) :
    jMsg s { m with comment := some c } = { jMsg s m with comment := some (c.map (spanBytes s)) } := rfl
theorem jTerm_comment (s : Src) (t : Term Span) (c : List Span) :
    jTerm s { t with comment := some c } = { jTerm s t with comment := some (c.map (spanBytes s)) } := rfl

/-! ## one round of `Parser::parse`'s loop -/

theorem step_none_entry {s : Src} {pf n p q cnt : Nat} {body : List (Entry Span)} {errors : List PErr} {e : Entry Span}
    (hlt : p < s.size) (hge : getEntry s pf p = .ok e q) (hne : ∀ c, e ≠ .comment c) :
    parseLoop s pf (n + 1) body errors none cnt p =
      parseLoop s pf n (body ++ [e]) errors none (skipBlankBlock s q).2 (skipBlankBlock s q).1 := by
  cases e with
  | comment c => exact absurd rfl (hne c)
  | _ => simp only [parseLoop, hlt, if_true, hge]

theorem step_none_comment {s : Src} {pf n p q cnt : Nat} {body : List (Entry Span)} {errors : List PErr} {c : List Span}
    (hlt : p < s.size) (hge : getEntry s pf p = .ok (.comment c) q) :
    parseLoop s pf (n + 1) body errors none cnt p =
      parseLoop s pf n body errors (some c) (skipBlankBlock s q).2 (skipBlankBlock s q).1 := by
  simp only [parseLoop, hlt, if_true, hge]

theorem step_attach_message {s : Src} {pf n p q cnt : Nat} {body : List (Entry Span)} {errors : List PErr} {c : List Span}
    {m : Message Span} (hlt : p < s.size) (hge : getEntry s pf p = .ok (.message m) q) (hc : cnt < 2) :
    parseLoop s pf (n + 1) body errors (some c) cnt p =
      parseLoop s pf n (body ++ [.message { m with comment := some c }]) errors none
        (skipBlankBlock s q).2 (skipBlankBlock s q).1 := by
  simp only [parseLoop, hlt, if_true, hge, hc]

theorem step_attach_term {s : Src} {pf n p q cnt : Nat} {body : List (Entry Span)} {errors : List PErr} {c : List Span}
    {t : Term Span} (hlt : p < s.size) (hge : getEntry s pf p = .ok (.term t) q) (hc : cnt < 2) :
    parseLoop s pf (n + 1) body errors (some c) cnt p =
      parseLoop s pf n (body ++ [.term { t with comment := some c }]) errors none
        (skipBlankBlock s q).2 (skipBlankBlock s q).1 := by
  simp only [parseLoop, hlt, if_true, hge, hc]

/-- a pending comment that does not attach is emitted as a stand-alone comment -/
theorem step_flush {s : Src} {pf n p cnt : Nat} {body : List (Entry Span)} {errors : List PErr} {c : List Span}
    (hlt : p < s.size)
    (h1 : ∀ m q, getEntry s pf p = .ok (.message m) q → 2 ≤ cnt)
    (h2 : ∀ t q, getEntry s pf p = .ok (.term t) q → 2 ≤ cnt) :
    parseLoop s pf (n + 1) body errors (some c) cnt p =
      parseLoop s pf (n + 1) (body ++ [.comment c]) errors none cnt p := by
  simp only [parseLoop, hlt, if_true]
  cases hge : getEntry s pf p with
  | ok e q =>
    cases e with
    | message m =>
      have : ¬ cnt < 2 := by have := h1 m q hge; omega
      simp only [this, if_false]
    | term t =>
      have : ¬ cnt < 2 := by have := h2 t q hge; omega
      simp only [this, if_false]
    | _ => rfl
  | err e q => rfl
  | panic m => rfl
  | fuel => rfl

theorem step_end {s : Src} {pf n p cnt : Nat} {body : List (Entry Span)} {errors : List PErr} (lc : Option (List Span))
    (hge : s.size ≤ p) :
    parseLoop s pf (n + 1) body errors lc cnt p =
      .done (match lc with | some c => body ++ [.comment c] | none => body, errors) := by
  have : ¬ p < s.size := by omega
  simp only [parseLoop, this, if_false]
  cases lc <;> rfl


/-! ## `get_entry` -/

def mkCS : Nat → List Span → Entry Span
  | 1, c => .comment c
  | 2, c => .groupComment c
  | _, c => .resourceComment c

theorem getEntry_message {s : Src} {pf p q : Nat} {b : UInt8} {m : Message Span} (hb : s[p]? = some b)
    (ha : isAlphaC b = true) (h : getMessage s pf p p = .ok m q) : getEntry s pf p = .ok (.message m) q := by
  unfold getEntry
  split
  · rename_i h35; rw [hb] at h35; injection h35 with h35; subst h35; simp [isAlphaC] at ha
  · rename_i h45; rw [hb] at h45; injection h45 with h45; subst h45; simp [isAlphaC] at ha
  · rw [h]

theorem getEntry_term {s : Src} {pf p q : Nat} {t : Term Span} (hb : s[p]? = some 45)
    (h : getTerm s pf p p = .ok t q) : getEntry s pf p = .ok (.term t) q := by
  unfold getEntry
  split
  · rename_i h35; rw [hb] at h35; cases h35
  · rw [h]
  · rename_i h1 h2; exact absurd hb h2

theorem getEntry_comment {s : Src} {pf p q L : Nat} {c : List Span} (hb : s[p]? = some 35)
    (h : getComment s p = .ok (c, L) q) (hL : L = 1 ∨ L = 2 ∨ L = 3) : getEntry s pf p = .ok (mkCS L c) q := by
  unfold getEntry
  split
  · rw [h]
    rcases hL with e | e | e <;> subst e <;> simp [mkCS]
  · rename_i h45; rw [hb] at h45; cases h45
  · rename_i h1 h2; exact absurd hb h1

theorem getEntry_hash {s : Src} {pf p : Nat} (hb : s[p]? = some 35) :
    (∀ m q, getEntry s pf p ≠ .ok (.message m) q) ∧ (∀ t q, getEntry s pf p ≠ .ok (.term t) q) := by
  have key : ∀ e q, getEntry s pf p = .ok e q → (∃ c, e = .comment c) ∨ (∃ c, e = .groupComment c) ∨ (∃ c, e = .resourceComment c) := by
    intro e q h
    unfold getEntry at h
    split at h
    · split at h
      · rename_i content level q' hc
        split at h
        · injection h with h _; exact Or.inl ⟨_, h.symm⟩
        · split at h
          · injection h with h _; exact Or.inr (Or.inl ⟨_, h.symm⟩)
          · split at h
            · injection h with h _; exact Or.inr (Or.inr ⟨_, h.symm⟩)
            · cases h
      all_goals cases h
    · rename_i h45; rw [hb] at h45; cases h45
    · rename_i h1 h2; exact absurd hb h1
  constructor
  · intro m q h
    rcases key _ _ h with ⟨c, e⟩ | ⟨c, e⟩ | ⟨c, e⟩ <;> cases e
  · intro t q h
    rcases key _ _ h with ⟨c, e⟩ | ⟨c, e⟩ | ⟨c, e⟩ <;> cases e

theorem assemble_skip {raw1 raw2 : List (Option (Entry Bytes))} (h : raw1 = raw2 ∨ raw1 = none :: raw2) :
    assemble raw1 = assemble raw2 := by
  rcases h with h | h
  · rw [h]
  · rw [h, assemble_none]

/-- a `Message` entry of a junk-free source: `get_entry` returns it, leaves the cursor at the start of the next
non-blank line, and the grammar goes on from there (less a blank block, which does not matter to the tree) -/
theorem entry_message_ref {s : Src} (hs : AsciiThenBoundary s) (hSurv : Surv s) {sf pf p m1 : Nat} {msg : Message Bytes}
    {r4 r5 : List UInt8} {raw1 : List (Option (Entry Bytes))}
    (h : messageP sf (rest s p) = .ok msg r4) (hl : lineEnd r4 = some r5) (h5 : resourceRaw sf m1 r5 = some raw1)
    (hj : hasJunk raw1 = false) (hp : p ≤ s.size) (hpf : 4 * s.size + 2 ≤ pf) :
    ∃ m' q raw2 m2, getEntry s pf p = .ok (.message m') q ∧ jMsg s m' = msg ∧ p < q ∧ q ≤ s.size ∧
      (skipBlankBlock s q).1 = q ∧ resourceRaw sf m2 (rest s q) = some raw2 ∧ hasJunk raw2 = false ∧
      Canon (rest s q) ∧ assemble raw1 = assemble raw2 := by
  obtain ⟨m', q, g1, g2, g3, g4, _, g6⟩ :=
    message_ref hs hSurv (pf := pf) (es := p) h (follow_of_raw hl h5 hj) hp (by omega)
  obtain ⟨b, t, e1, e2⟩ := messageP_head h
  have hb := rest_head e1
  have hX : afterBlank r4 = afterBlank r5 := afterBlank_lineEnd hl
  have hcan : Canon (rest s q) := by rw [g3]; exact canon_afterBlank _
  obtain ⟨raw2, m2, _, h2, hcase⟩ := raw_skip_blank h5
  rw [← hX, ← g3] at h2
  have hj2 : hasJunk raw2 = false := by
    rcases hcase with ⟨e, _⟩ | ⟨e, _⟩
    · rw [← e]; exact hj
    · rw [e] at hj; exact hasJunk_tail hj
  refine ⟨m', q, raw2, m2, getEntry_message hb e2 g1, g2, g6, g4, skipBlankBlock_stay g4 hcan, h2, hj2, hcan, ?_⟩
  exact assemble_skip (by rcases hcase with ⟨e, _⟩ | ⟨e, _⟩ <;> simp [e])

theorem entry_term_ref {s : Src} (hs : AsciiThenBoundary s) (hSurv : Surv s) {sf pf p m1 : Nat} {trm : Term Bytes}
    {r4 r5 : List UInt8} {raw1 : List (Option (Entry Bytes))}
    (h : termP sf (rest s p) = .ok trm r4) (hl : lineEnd r4 = some r5) (h5 : resourceRaw sf m1 r5 = some raw1)
    (hj : hasJunk raw1 = false) (hp : p ≤ s.size) (hpf : 4 * s.size + 2 ≤ pf) :
    ∃ t' q raw2 m2, getEntry s pf p = .ok (.term t') q ∧ jTerm s t' = trm ∧ p < q ∧ q ≤ s.size ∧
      (skipBlankBlock s q).1 = q ∧ resourceRaw sf m2 (rest s q) = some raw2 ∧ hasJunk raw2 = false ∧
      Canon (rest s q) ∧ assemble raw1 = assemble raw2 := by
  obtain ⟨t', q, g1, g2, g3, g4, _, g6⟩ :=
    term_ref hs hSurv (pf := pf) (es := p) h (follow_of_raw hl h5 hj) hp (by omega)
  obtain ⟨t, e1⟩ := termP_head h
  have hb := rest_head e1
  have hX : afterBlank r4 = afterBlank r5 := afterBlank_lineEnd hl
  have hcan : Canon (rest s q) := by rw [g3]; exact canon_afterBlank _
  obtain ⟨raw2, m2, _, h2, hcase⟩ := raw_skip_blank h5
  rw [← hX, ← g3] at h2
  have hj2 : hasJunk raw2 = false := by
    rcases hcase with ⟨e, _⟩ | ⟨e, _⟩
    · rw [← e]; exact hj
    · rw [e] at hj; exact hasJunk_tail hj
  refine ⟨t', q, raw2, m2, getEntry_term hb g1, g2, g6, g4, skipBlankBlock_stay g4 hcan, h2, hj2, hcan, ?_⟩
  exact assemble_skip (by rcases hcase with ⟨e, _⟩ | ⟨e, _⟩ <;> simp [e])


/-! ## the resource loop -/

theorem canon_cons_blank {b : UInt8} {t : List UInt8} (h : Canon (b :: t)) : blankBlock (b :: t) = none := by
  rcases h with h | h
  · cases h
  · exact blankBlock_none_of_nonBlankHead h

theorem rest_cons_of_lt {s : Src} {p : Nat} (h : p < s.size) : ∃ b, s[p]? = some b ∧ rest s p = b :: rest s (p + 1) := by
  rcases rest_cases s p with ⟨h1, _⟩ | h1
  · have : s.size ≤ p := by simpa using h1
    omega
  · exact h1

theorem attachHead_mkC (l : Nat) (c : List Bytes) (X : List (Option (Entry Bytes))) : attachHead (some (mkC l c) :: X) = false := by
  unfold mkC; split <;> rfl

/-- **T3, the resource loop.**  From the start `p` of a non-blank line of a junk-free source (the grammar's raw item
list from there is `raw`), `Parser::parse`'s loop — with no pending comment — finishes without an error and appends
exactly the entries `assemble raw`: comment lines joined by level, `#` comments attached to the Message/Term that
follows without a blank line, blank blocks dropped. -/
theorem resource_loop {s : Src} (hs : AsciiThenBoundary s) (hSurv : Surv s) {sf pf : Nat} (hpf : 4 * s.size + 2 ≤ pf) :
    ∀ (N m p : Nat) (raw : List (Option (Entry Bytes))) (body : List (Entry Span)) (cnt : Nat),
      resourceRaw sf m (rest s p) = some raw → hasJunk raw = false → Canon (rest s p) → p ≤ s.size →
      s.size - p + 1 ≤ N →
      ∃ out, parseLoop s pf N body [] none cnt p = .done (body ++ out, []) ∧ out.map (jEntry s) = assemble raw := by
  intro N
  induction N using Nat.strongRecOn with
  | ind N ih =>
    intro m p raw body cnt hraw hj hcan hp hN
    cases N with
    | zero => omega
    | succ N =>
      by_cases hlt : p < s.size
      · obtain ⟨b, hb, hrest⟩ := rest_cons_of_lt hlt
        have hraw0 := hraw
        rw [hrest] at hraw hcan
        obtain ⟨m', e, r5, raw1, em, he, eraw, h5, hj1⟩ := raw_entry_inv hraw (canon_cons_blank hcan) hj
        rw [← hrest] at he
        rcases entryP_inv he with ⟨msg, r4, h1, hl, ee⟩ | ⟨trm, r4, h1, hl, ee⟩ | ⟨l, c, h1, ee⟩
        · -- a Message
          obtain ⟨m2', q, raw2, m2, g1, g2, g3, g4, g5, g6, g7, g8, g9⟩ := entry_message_ref hs hSurv h1 hl h5 hj1 hp hpf
          obtain ⟨out, o1, o2⟩ := ih N (by omega) m2 q raw2 (body ++ [.message m2']) (skipBlankBlock s q).2 g6 g7 g8 g4 (by omega)
          rw [step_none_entry hlt g1 (by intro c hc; cases hc), g5, o1]
          refine ⟨.message m2' :: out, by simp, ?_⟩
          rw [List.map_cons, jEntry_message, g2, o2, eraw, ee, assemble_message, g9]
        · -- a Term
          obtain ⟨t2', q, raw2, m2, g1, g2, g3, g4, g5, g6, g7, g8, g9⟩ := entry_term_ref hs hSurv h1 hl h5 hj1 hp hpf
          obtain ⟨out, o1, o2⟩ := ih N (by omega) m2 q raw2 (body ++ [.term t2']) (skipBlankBlock s q).2 g6 g7 g8 g4 (by omega)
          rw [step_none_entry hlt g1 (by intro c hc; cases hc), g5, o1]
          refine ⟨.term t2' :: out, by simp, ?_⟩
          rw [List.map_cons, jEntry_term, g2, o2, eraw, ee, assemble_term, g9]
        · -- a comment
          obtain ⟨r0, hm0, _, _⟩ := commentLine_inv h1
          obtain ⟨⟨t0, et0⟩, hL⟩ := commentMarker_inv hm0
          have h35 : s[p]? = some 35 := rest_head et0
          have hhl : headLevel raw = l := by rw [eraw, ee]; exact headLevel_mkC hL _ _
          obtain ⟨spans, raw1', q, p1, m1, a1, a2, a3, a4, a5, a6, a7, a8, a9, a10⟩ :=
            comment_run hs sf hL (s.size - p + 1) m p 0 [] raw hp (Nat.le_refl _) hraw0 hj (Or.inr ⟨rfl, hhl⟩)
          have hpp1 := a9 rfl
          cases spans with
          | nil => simp [runItems] at a1; rw [a1] at hhl; exact absurd hhl a6
          | cons sp sps =>
            have hgc : getComment s p = .ok (sp :: sps, l) q := by
              unfold getComment; rw [a2]; simp
            have hge := getEntry_comment (pf := pf) h35 hgc hL
            obtain ⟨raw2, m2, b1, b2, b3, b4, b5, b6⟩ := blank_after_comment a3 a5 a8 a10
            have hpq : p < q := by
              rcases a10 with ⟨e1, _⟩ | ⟨e1, e2, _⟩
              · omega
              · have : p ≠ q := by intro hh; subst hh; rw [h35] at e2; cases e2
                omega
            have hasm : assemble raw = assemble (some (mkC l ((sp :: sps).map (spanBytes s))) :: raw1') := by
              rw [a1, assemble_run]
            have hskip : assemble raw1' = assemble raw2 :=
              assemble_skip (by rcases b6 with ⟨e, _⟩ | ⟨e, _⟩ <;> simp [e])
            rcases hL with el | el | el
            · -- a `#` comment stays pending
              subst el
              simp only [mkCS] at hge
              rw [step_none_comment hlt hge]
              obtain ⟨N', eN⟩ : ∃ N', N = N' + 1 := ⟨N - 1, by omega⟩
              subst eN
              by_cases hlt' : (skipBlankBlock s q).1 < s.size
              · obtain ⟨b', hb', hrest'⟩ := rest_cons_of_lt hlt'
                have b1' := b1
                rw [hrest'] at b1 b3
                obtain ⟨m3, e2, r5', raw3, em3, he2, eraw2, h53, hj3⟩ := raw_entry_inv b1 (canon_cons_blank b3) b2
                rw [← hrest'] at he2 b3
                -- the route when the comment does not attach
                have hflush : attachHead raw1' = false →
                    (∀ mm qq, getEntry s pf (skipBlankBlock s q).1 = .ok (.message mm) qq → 2 ≤ (skipBlankBlock s q).2) →
                    (∀ tt qq, getEntry s pf (skipBlankBlock s q).1 = .ok (.term tt) qq → 2 ≤ (skipBlankBlock s q).2) →
                    ∃ out, parseLoop s pf (N' + 1) body [] (some (sp :: sps)) (skipBlankBlock s q).2 (skipBlankBlock s q).1 =
                        .done (body ++ out, []) ∧ out.map (jEntry s) = assemble raw := by
                  intro hat hf1 hf2
                  obtain ⟨out, o1, o2⟩ := ih (N' + 1) (by omega) m2 (skipBlankBlock s q).1 raw2 (body ++ [.comment (sp :: sps)])
                    (skipBlankBlock s q).2 b1' b2 b3 b5 (by omega)
                  rw [step_flush hlt' hf1 hf2, o1]
                  refine ⟨.comment (sp :: sps) :: out, by simp, ?_⟩
                  rw [List.map_cons, jEntry_comment, o2, hasm]
                  simp only [mkC]
                  rw [assemble_comment_other _ _ a6 hat, hskip]
                have hne2 : raw2 ≠ [] := by rw [eraw2]; simp
                rcases entryP_inv he2 with ⟨msg, r4, h1', hl', ee'⟩ | ⟨trm, r4, h1', hl', ee'⟩ | ⟨l', c', h1', ee'⟩
                · by_cases hc : (skipBlankBlock s q).2 < 2
                  · have e12 : raw1' = raw2 := by
                      rcases b6 with ⟨e, _⟩ | ⟨_, e | e⟩
                      · exact e
                      · omega
                      · exact absurd e hne2
                    obtain ⟨m2', q2, raw4, m4, g1, g2, g3, g4, g5, g6, g7, g8, g9⟩ :=
                      entry_message_ref hs hSurv h1' hl' h53 hj3 b5 hpf
                    obtain ⟨out, o1, o2⟩ := ih N' (by omega) m4 q2 raw4 (body ++ [.message { m2' with comment := some (sp :: sps) }])
                      (skipBlankBlock s q2).2 g6 g7 g8 g4 (by omega)
                    rw [step_attach_message hlt' g1 hc, g5, o1]
                    refine ⟨.message { m2' with comment := some (sp :: sps) } :: out, by simp, ?_⟩
                    rw [List.map_cons, jEntry_message, jMsg_comment, g2, o2, hasm, e12, eraw2, ee']
                    simp only [mkC]
                    rw [assemble_comment_message, g9]
                  · have e12 : raw1' = none :: raw2 := by
                      rcases b6 with ⟨_, e⟩ | ⟨e, _⟩
                      · omega
                      · exact e
                    exact hflush (by rw [e12]; rfl) (fun _ _ _ => by omega) (fun _ _ _ => by omega)
                · by_cases hc : (skipBlankBlock s q).2 < 2
                  · have e12 : raw1' = raw2 := by
                      rcases b6 with ⟨e, _⟩ | ⟨_, e | e⟩
                      · exact e
                      · omega
                      · exact absurd e hne2
                    obtain ⟨t2', q2, raw4, m4, g1, g2, g3, g4, g5, g6, g7, g8, g9⟩ :=
                      entry_term_ref hs hSurv h1' hl' h53 hj3 b5 hpf
                    obtain ⟨out, o1, o2⟩ := ih N' (by omega) m4 q2 raw4 (body ++ [.term { t2' with comment := some (sp :: sps) }])
                      (skipBlankBlock s q2).2 g6 g7 g8 g4 (by omega)
                    rw [step_attach_term hlt' g1 hc, g5, o1]
                    refine ⟨.term { t2' with comment := some (sp :: sps) } :: out, by simp, ?_⟩
                    rw [List.map_cons, jEntry_term, jTerm_comment, g2, o2, hasm, e12, eraw2, ee']
                    simp only [mkC]
                    rw [assemble_comment_term, g9]
                  · have e12 : raw1' = none :: raw2 := by
                      rcases b6 with ⟨_, e⟩ | ⟨e, _⟩
                      · omega
                      · exact e
                    exact hflush (by rw [e12]; rfl) (fun _ _ _ => by omega) (fun _ _ _ => by omega)
                · obtain ⟨r0', hm0', _, _⟩ := commentLine_inv h1'
                  obtain ⟨⟨t0', et0'⟩, _⟩ := commentMarker_inv hm0'
                  have h35' : s[(skipBlankBlock s q).1]? = some 35 := rest_head et0'
                  obtain ⟨k1, k2⟩ := getEntry_hash (pf := pf) h35'
                  refine hflush ?_ (fun mm qq hh => absurd hh (k1 mm qq)) (fun tt qq hh => absurd hh (k2 tt qq))
                  rcases b6 with ⟨e, _⟩ | ⟨e, _⟩
                  · rw [e, eraw2, ee']; exact attachHead_mkC _ _ _
                  · rw [e]; rfl
              · -- the comment is the last thing in the source
                rw [step_end (some (sp :: sps)) (by omega)]
                refine ⟨[.comment (sp :: sps)], rfl, ?_⟩
                have hnil : rest s (skipBlankBlock s q).1 = [] := rest_eq_nil_iff.mpr (by omega)
                rw [hnil] at b1
                have e2 := resourceRaw_nil b1
                have hat : attachHead raw1' = false := by
                  rcases b6 with ⟨e, _⟩ | ⟨e, _⟩
                  · rw [e, e2]; rfl
                  · rw [e]; rfl
                rw [hasm]
                simp only [mkC]
                rw [assemble_comment_other _ _ a6 hat, hskip, e2, assemble_nil]
                rfl
            · -- `##`
              subst el
              simp only [mkCS] at hge
              obtain ⟨out, o1, o2⟩ := ih N (by omega) m2 (skipBlankBlock s q).1 raw2 (body ++ [.groupComment (sp :: sps)])
                (skipBlankBlock s q).2 b1 b2 b3 b5 (by omega)
              rw [step_none_entry hlt hge (by intro c hc; cases hc), o1]
              refine ⟨.groupComment (sp :: sps) :: out, by simp, ?_⟩
              rw [List.map_cons, jEntry_groupComment, o2, hasm]
              simp only [mkC]
              rw [assemble_gc _ _ a6, hskip]
            · -- `###`
              subst el
              simp only [mkCS] at hge
              obtain ⟨out, o1, o2⟩ := ih N (by omega) m2 (skipBlankBlock s q).1 raw2 (body ++ [.resourceComment (sp :: sps)])
                (skipBlankBlock s q).2 b1 b2 b3 b5 (by omega)
              rw [step_none_entry hlt hge (by intro c hc; cases hc), o1]
              refine ⟨.resourceComment (sp :: sps) :: out, by simp, ?_⟩
              rw [List.map_cons, jEntry_resourceComment, o2, hasm]
              simp only [mkC]
              rw [assemble_rc _ _ a6, hskip]
      · -- end of input
        rw [step_end none (by omega)]
        have hnil : rest s p = [] := rest_eq_nil_iff.mpr (by omega)
        rw [hnil] at hraw
        rw [resourceRaw_nil hraw]
        exact ⟨[], by simp, by simp [assemble_nil]⟩


/-! ## the whole resource -/

def isJunkO : Option (Entry Bytes) → Bool
  | some (.junk _) => true
  | _ => false

theorem hasJunk_cons (x : Option (Entry Bytes)) (X : List (Option (Entry Bytes))) :
    hasJunk (x :: X) = (isJunkO x || hasJunk X) := by
  cases x with
  | none => simp [hasJunk, isJunkO]
  | some e => cases e <;> simp [hasJunk, isJunkO]

theorem hasJunk_dropBlanks (X : List (Option (Entry Bytes))) : (dropBlanks X).any isJunk = hasJunk X := by
  induction X with
  | nil => rfl
  | cons x X ih =>
    cases x with
    | none => simp [dropBlanks, hasJunk_cons, isJunkO, ih]
    | some e => cases e <;> simp [dropBlanks, hasJunk_cons, isJunkO, isJunk, ih]

theorem hasJunk_attachComments (X : List (Option (Entry Bytes))) : hasJunk (attachComments X) = hasJunk X := by
  fun_induction attachComments X
  · rename_i c m rest ih; simp [hasJunk_cons, isJunkO, ih]
  · rename_i c t rest ih; simp [hasJunk_cons, isJunkO, ih]
  · rename_i e rest h1 h2 ih; simp [hasJunk_cons, ih]
  · rfl

theorem hasJunk_joinComments (X : List (Option (Entry Bytes))) : hasJunk (joinComments X) = hasJunk X := by
  induction X with
  | nil => rfl
  | cons x r ih =>
    cases x with
    | none => simp [joinComments, hasJunk_cons, ih]
    | some e =>
      cases e with
      | comment a =>
        simp only [joinComments]
        split
        · rename_i b rest' heq; rw [heq] at ih; simpa [hasJunk_cons, isJunkO] using ih
        · simp [hasJunk_cons, isJunkO, ih]
      | groupComment a =>
        simp only [joinComments]
        split
        · rename_i b rest' heq; rw [heq] at ih; simpa [hasJunk_cons, isJunkO] using ih
        · simp [hasJunk_cons, isJunkO, ih]
      | resourceComment a =>
        simp only [joinComments]
        split
        · rename_i b rest' heq; rw [heq] at ih; simpa [hasJunk_cons, isJunkO] using ih
        · simp [hasJunk_cons, isJunkO, ih]
      | message m => simp [joinComments, hasJunk_cons, ih]
      | term t => simp [joinComments, hasJunk_cons, ih]
      | junk c => simp [joinComments, hasJunk_cons, ih]

theorem hasJunk_assemble (X : List (Option (Entry Bytes))) : (assemble X).any isJunk = hasJunk X := by
  rw [assemble, hasJunk_dropBlanks, hasJunk_attachComments, hasJunk_joinComments]

/-- `skip_blank_block` lands where the grammar's optional blank block ends -/
theorem rest_skipBlankBlock (s : Src) (p : Nat) (hp : p ≤ s.size) :
    rest s (skipBlankBlock s p).1 = afterBlank (rest s p) := by
  have hbb := blankBlock_eq_skipBlankBlock s p hp
  simp only at hbb
  cases hR : blankBlock (rest s p) with
  | none =>
    have hcan : Canon (rest s p) := Or.inr (nonBlankHead_of_scan_none _ _ 0 hR)
    rw [skipBlankBlock_stay hp hcan]
    simp [afterBlank, hR]
  | some v =>
    rw [hR] at hbb
    split at hbb
    · cases hbb
    · injection hbb with hbb
      simp [afterBlank, hR, hbb]

/-- **C02, the whole-resource statement on the byte level.**  For a source that the grammar calls well-formed (its
tree has no Junk) and that satisfies the side condition `Surv` (which excludes exactly the shape of the known
finding F30), the parser model returns no error and its tree — spans resolved to bytes, adjacent text elements
joined — IS the tree the grammar assigns. -/
theorem parse_refines {s : Src} (hs : AsciiThenBoundary s) (hSurv : Surv s) (hwf : wellFormed s.toList = true) :
    ∃ t, parse s = .done (t, []) ∧ SpecGrammar.parse s.toList = some (Resource.joinText (resolve s t)) := by
  unfold wellFormed at hwf
  rw [parse_eq_assemble] at hwf ⊢
  cases hraw : resourceRaw (fuelFor s.toList) (s.toList.length + 1) s.toList with
  | none => rw [hraw] at hwf; simp at hwf
  | some raw =>
    rw [hraw] at hwf
    simp only [Option.map_some] at hwf ⊢
    have hj : hasJunk raw = false := by
      rw [← hasJunk_assemble]
      simpa using hwf
    have h0 : rest s 0 = s.toList := by simp [rest]
    rw [← h0] at hraw
    obtain ⟨raw', m', _, h', hcase⟩ := raw_skip_blank hraw
    have hj' : hasJunk raw' = false := by
      rcases hcase with ⟨e, _⟩ | ⟨e, _⟩
      · rw [← e]; exact hj
      · rw [e] at hj; exact hasJunk_tail hj
    have hasm : assemble raw = assemble raw' := assemble_skip (by rcases hcase with ⟨e, _⟩ | ⟨e, _⟩ <;> simp [e])
    have hp0 := (skipBlankBlock_after s 0).le_size (Nat.zero_le _)
    rw [← rest_skipBlankBlock s 0 (Nat.zero_le _)] at h'
    have hcan : Canon (rest s (skipBlankBlock s 0).1) := by
      rw [rest_skipBlankBlock s 0 (Nat.zero_le _)]; exact canon_afterBlank _
    obtain ⟨out, o1, o2⟩ := resource_loop hs hSurv (pf := exprFuel s) (by unfold exprFuel; omega) (s.size + 1) m'
      (skipBlankBlock s 0).1 raw' [] 0 h' hj' hcan hp0 (by omega)
    refine ⟨out, ?_, ?_⟩
    · unfold FluentModel.Syntax.parse
      simpa using o1
    · rw [jRes_eq, o2, hasm]

end FluentProofs.SpecResource
