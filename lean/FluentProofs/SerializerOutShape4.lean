import FluentProofs.SerializerOutShape3
/-!
# Serializer lemmas, part 20: `finishElements` turns well-shaped placeholders into a pattern of the class (C04)

`FinOK`: the elements `finishElements` returns for a `chk`-shaped placeholder list — dedented by the
kept common indent `c`, cut after `last_non_blank`, the last text trimmed — satisfy `mlElems`,
`mlLastOK`, and their `excesses` are the line indents minus the common indent.
-/
namespace FluentProofs.Ser
open FluentModel FluentModel.Syntax FluentModel.Syntax.Ser FluentProofs.Parser

/-- what remains of a line's indent after the common indent `c` is removed -/
def eff (c : Option Nat) (ind : Nat) : Nat :=
  match c with
  | none => 0
  | some c => ind - min ind c

theorem eff_zero (c : Option Nat) : eff c 0 = 0 := by cases c <;> simp [eff]

theorem effStart_ls (c : Option Nat) (a ind : Nat) : effStart c a ind .lineStart + eff c ind = a + ind := by
  cases c with
  | none => simp [effStart, eff]
  | some c => simp only [effStart, eff, beq_self_eq_true, if_true]; omega

theorem effStart_ge (c : Option Nat) (a ind : Nat) (role : TextPos) : a ≤ effStart c a ind role := by
  unfold effStart; split
  · split <;> omega
  · omega

theorem effStart_nls (c : Option Nat) (a ind : Nat) (role : TextPos) (h : (role == .lineStart) = false) :
    effStart c a ind role = a := by simp [effStart, h]

/-! ## tree-level unfoldings -/

theorem mlElems_text (nl : Bool) (v : Bytes) (es : List (PatElem Bytes)) :
    mlElems nl (.text v :: es) =
      (mlTextOK v && (match es with | .text u :: _ => endsNl v || (endsCr v && u == [10]) | _ => true) &&
        (!nl || v == [10] || lineStartOK v es) && mlElems (endsNl v) es) := by
  cases es with
  | nil => simp [mlElems]
  | cons e es' => cases e <;> simp [mlElems]

theorem mlElems_pl (nl : Bool) (x : Expr Bytes) (es : List (PatElem Bytes)) :
    mlElems nl (.placeable x :: es) = mlElems false es := by
  rw [mlElems]

theorem mlLastOK_cons (e : PatElem Bytes) (es : List (PatElem Bytes)) (h : es ≠ []) :
    mlLastOK (e :: es) = mlLastOK es := by
  cases es with
  | nil => exact absurd rfl h
  | cons x xs => cases e <;> simp [mlLastOK]

theorem excesses_text (nl : Bool) (v : Bytes) (es : List (PatElem Bytes)) :
    excesses nl (.text v :: es) = (if nl && v != [10] then [leadSpaces v] else []) ++ excesses (endsNl v) es := by
  rw [excesses]

theorem excesses_pl (nl : Bool) (x : Expr Bytes) (es : List (PatElem Bytes)) :
    excesses nl (.placeable x :: es) = (if nl then [0] else []) ++ excesses false es := by
  rw [excesses]

/-! ## `finishElements`, unfolded -/

theorem fin_past (s : Src) (c : Option Nat) (lnb i : Nat) (l : List Placeholder) (h : i > lnb) :
    finishElements s c lnb i l = some [] := by
  cases l with
  | nil => rfl
  | cons ph rest => simp [finishElements, h]

theorem fe_pl (s : Src) (c : Option Nat) (lnb i : Nat) (e : Expr Span) (rest : List Placeholder) (hi : i ≤ lnb) :
    finishElements s c lnb i (.placeable e :: rest) =
      (finishElements s c lnb (i + 1) rest).map (PatElem.placeable e :: ·) := by
  have : ¬ i > lnb := by omega
  simp only [finishElements, this, if_false]

theorem fe_text (s : Src) (c : Option Nat) (lnb i a b ind : Nat) (role : TextPos) (rest : List Placeholder)
    (hi : i ≤ lnb) :
    finishElements s c lnb i (.text a b ind role :: rest) =
      if effStart c a ind role == b then finishElements s c lnb (i + 1) rest
      else match slice s (effStart c a ind role) b with
        | none => none
        | some sp =>
          (finishElements s c lnb (i + 1) rest).map (PatElem.text (if lnb == i then trimEnd s sp else sp) :: ·) := by
  have : ¬ i > lnb := by omega
  simp only [finishElements, this, if_false]
  rfl

/-! ## the result -/

structure FinOK (s : Src) (c : Option Nat) (E : PSt) (l : List Placeholder) (k : Nat)
    (B : List (PatElem Bytes)) : Prop where
  ml : mlElems (nlOf E) B = true
  last : mlLastOK B = true
  ne : B ≠ []
  exc : excesses (nlOf E) B = (lineInds s E (l.take k)).map (eff c)
  noText : E = .afterText ∨ E = .afterGhost → ∀ v es, B ≠ .text v :: es
  firstI : E = .first .initialLineStart → ∀ v es, B = .text v :: es → ∃ x, v.head? = some x ∧ x ≠ 32 ∧ x ≠ 10
  firstL : E = .first .lineStart → ∀ v es, B = .text v :: es → v ≠ [10]

/-- what is known about the elements after the first one -/
def TailOK (s : Src) (c : Option Nat) (lnb i : Nat) (E' : PSt) (rest : List Placeholder)
    (r' : List (PatElem Span)) : Prop :=
  (i = lnb ∧ r' = []) ∨ (i < lnb ∧ FinOK s c E' rest (lnb - i) (mapPat (spanBytes s) r'))

theorem take_cons_k {α : Type} (x : α) (l : List α) (lnb i : Nat) (hi : i ≤ lnb) :
    (x :: l).take (lnb + 1 - i) = x :: l.take (lnb - i) := by
  rw [show lnb + 1 - i = (lnb - i) + 1 by omega, List.take_succ_cons]

/-- a placeable -/
theorem fin_pl {s : Src} {c : Option Nat} {lnb i : Nat} {E : PSt} {e : Expr Span} {rest : List Placeholder}
    {r' : List (PatElem Span)} (hi : i ≤ lnb) (hT : TailOK s c lnb i .afterPl rest r') :
    FinOK s c E (.placeable e :: rest) (lnb + 1 - i) (mapPat (spanBytes s) (.placeable e :: r')) := by
  simp only [mapPat, PatElem.mapS]
  rcases hT with ⟨rfl, rfl⟩ | ⟨hlt, hF⟩
  · exact {
      ml := by simp [mapPat, mlElems]
      last := by simp [mapPat, mlLastOK]
      ne := by simp
      exc := by
        rw [take_cons_k _ _ _ _ hi]
        simp only [mapPat, excesses_pl, excesses, Nat.sub_self, List.take_zero, lineInds, lineInd, List.append_nil]
        split <;> simp [eff_zero]
      noText := by intro _ v es h; cases h
      firstI := by intro _ v es h; cases h
      firstL := by intro _ v es h; cases h }
  · exact {
      ml := by rw [mlElems_pl]; exact hF.ml
      last := by rw [mlLastOK_cons _ _ hF.ne]; exact hF.last
      ne := by simp
      exc := by
        rw [take_cons_k _ _ _ _ hi, excesses_pl, lineInds, List.map_append]
        simp only [nxt]
        rw [← hF.exc]
        simp only [lineInd, nlOf]
        split <;> simp [eff_zero]
      noText := by intro _ v es h; cases h
      firstI := by intro _ v es h; cases h
      firstL := by intro _ v es h; cases h }

/-- a text element that is kept and is not the last one -/
theorem fin_text_keep {s : Src} {c : Option Nat} {lnb i : Nat} {E E' : PSt} {ph : Placeholder}
    {rest : List Placeholder} {B' : List (PatElem Bytes)} (hi : i < lnb)
    (hF : FinOK s c E' rest (lnb - i) B') (v : Bytes) (hv : mlTextOK v = true)
    (hnx : nxt s ph = E') (hnl : nlOf E' = endsNl v)
    (hnt : endsNl v = false → E' = .afterText ∨ E' = .afterGhost)
    (hls : nlOf E = true → (v == [10] || lineStartOK v B') = true)
    (hexc : (if nlOf E && v != [10] then [leadSpaces v] else []) = (lineInd s E ph).map (eff c))
    (hE : E ≠ .afterText ∧ E ≠ .afterGhost)
    (hfI : E = .first .initialLineStart → ∃ x, v.head? = some x ∧ x ≠ 32 ∧ x ≠ 10)
    (hfL : E = .first .lineStart → v ≠ [10]) :
    FinOK s c E (ph :: rest) (lnb + 1 - i) (.text v :: B') := by
  exact {
    ml := by
      rw [mlElems_text, hv, ← hnl, hF.ml]
      simp only [Bool.true_and, Bool.and_true, Bool.and_eq_true]
      constructor
      · cases hB : B' with
        | nil => rfl
        | cons x xs =>
          cases x with
          | placeable _ => rfl
          | text w =>
            simp only []
            cases hen : endsNl v with
            | true => rw [hnl]; simp [hen]
            | false => exact absurd hB (hF.noText (hnt hen) w xs)
      · cases hn : nlOf E with
        | false => rfl
        | true => simpa using hls hn
    last := by rw [mlLastOK_cons _ _ hF.ne]; exact hF.last
    ne := by simp
    exc := by
      rw [take_cons_k _ _ _ _ (Nat.le_of_lt hi), excesses_text, lineInds, List.map_append, hnx, ← hF.exc, ← hnl, hexc]
    noText := by intro h; rcases h with h | h; exact absurd h hE.1; exact absurd h hE.2
    firstI := by intro h w es hw; cases hw; exact hfI h
    firstL := by intro h w es hw; cases hw; exact hfL h }

/-- a text element that is the last one (already trimmed) -/
theorem fin_text_last {s : Src} {c : Option Nat} {lnb : Nat} {E : PSt} {ph : Placeholder}
    {rest : List Placeholder} (v : Bytes) (hv : mlTextOK v = true)
    (hlast : v.getLast? ≠ some 32 ∧ v.getLast? ≠ some 10 ∧ v.getLast? ≠ some 13)
    (hls : nlOf E = true → (v == [10] || lineStartOK v []) = true)
    (hexc : (if nlOf E && v != [10] then [leadSpaces v] else []) = (lineInd s E ph).map (eff c))
    (hE : E ≠ .afterText ∧ E ≠ .afterGhost)
    (hfI : E = .first .initialLineStart → ∃ x, v.head? = some x ∧ x ≠ 32 ∧ x ≠ 10)
    (hfL : E = .first .lineStart → v ≠ [10]) :
    FinOK s c E (ph :: rest) (lnb + 1 - lnb) [.text v] := by
  exact {
    ml := by
      rw [mlElems_text, hv]
      simp only [mlElems, Bool.true_and, Bool.and_true]
      cases hn : nlOf E with
      | false => rfl
      | true => simpa using hls hn
    last := by simp [mlLastOK, hlast.1, hlast.2.1, hlast.2.2]
    ne := by simp
    exc := by
      rw [take_cons_k _ _ _ _ (Nat.le_refl _), excesses_text]
      simp only [excesses, List.append_nil, Nat.sub_self, List.take_zero, lineInds, hexc]
    noText := by intro h; rcases h with h | h; exact absurd h hE.1; exact absurd h hE.2
    firstI := by intro h w es hw; cases hw; exact hfI h
    firstL := by intro h w es hw; cases hw; exact hfL h }

theorem nxt_text_noghost (s : Src) (a b ind : Nat) (role : TextPos) (hg : isGhost a b ind role = false) :
    nxt s (.text a b ind role) = if endsLF s b then .afterNl else .afterText := by
  simp [nxt, hg]

/-- **a text placeholder that is not a ghost**: content line, blank line, or text in the middle of a line -/
theorem fin_text_gen {s : Src} {c : Option Nat} {lnb i : Nat} {E : PSt} {a b ind : Nat} {role : TextPos}
    {rest : List Placeholder} {r : List (PatElem Span)}
    (hi : i ≤ lnb) (a' : Nat) (ha' : effStart c a ind role = a') (h1 : a ≤ a') (h2 : a' ≤ a + ind) (hab : a' < b)
    (hg : isGhost a b ind role = false) (hTB : TextBytes s a b) (hE : E ≠ .afterText ∧ E ≠ .afterGhost)
    (hls : nlOf E = true → ∀ t B', a' < t → t ≤ b → (a + ind < t ∨ t = b) →
      (spanBytes s ⟨a', t⟩ == [10] || lineStartOK (spanBytes s ⟨a', t⟩) B') = true)
    (hexc : ∀ t, a' < t → t ≤ b → (a + ind < t ∨ t = b) →
      (if nlOf E && spanBytes s ⟨a', t⟩ != [10] then [leadSpaces (spanBytes s ⟨a', t⟩)] else []) =
        (lineInd s E (.text a b ind role)).map (eff c))
    (hfI : E = .first .initialLineStart → ∀ t, a' < t → t ≤ b → ∃ x, (spanBytes s ⟨a', t⟩).head? = some x ∧ x ≠ 32 ∧ x ≠ 10)
    (hfL : E = .first .lineStart → ∀ t, a' < t → t ≤ b → (a + ind < t ∨ t = b) → spanBytes s ⟨a', t⟩ ≠ [10])
    (hsurv : i = lnb → Surv s (.text a b ind role))
    (htail : ∀ r', finishElements s c lnb (i + 1) rest = some r' →
      TailOK s c lnb i (nxt s (.text a b ind role)) rest r')
    (h : finishElements s c lnb i (.text a b ind role :: rest) = some r) :
    FinOK s c E (.text a b ind role :: rest) (lnb + 1 - i) (mapPat (spanBytes s) r) := by
  rw [fe_text _ _ _ _ _ _ _ _ _ hi, ha'] at h
  have hne : (a' == b) = false := by simp; omega
  simp only [hne, Bool.false_eq_true, if_false] at h
  split at h
  · cases h
  · rename_i sp hsl
    obtain ⟨rfl, _⟩ := slice_eq_some hsl
    simp only [Option.map_eq_some_iff] at h
    obtain ⟨r', hr', rfl⟩ := h
    have hbs := hTB.1
    rcases htail r' hr' with ⟨rfl, rfl⟩ | ⟨hlt, hF⟩
    · -- the last element: trimmed
      obtain ⟨hle, hsv⟩ := hsurv rfl
      obtain ⟨e1, e2, e3⟩ := trimEnd_mono s (a + ind) a' b h2 hle hsv
      have htr : trimEnd s ⟨a', b⟩ = ⟨a', (trimEnd s ⟨a', b⟩).stop⟩ := rfl
      generalize ht : (trimEnd s ⟨a', b⟩).stop = t at htr e1
      have hat : a + ind < t := by omega
      have htb : t ≤ b := by omega
      have hv := mlTextOK_span hTB h1 (by omega : a' < t) htb
      simp only [beq_self_eq_true, if_true, htr, mapPat, PatElem.mapS]
      refine fin_text_last _ hv ?_ (fun hn => hls hn t [] (by omega) htb (Or.inl hat))
        (hexc t (by omega) htb (Or.inl hat)) hE (fun h0 => hfI h0 t (by omega) htb)
        (fun h0 => hfL h0 t (by omega) htb (Or.inl hat))
      rw [spanBytes_getLast (by omega) (by omega)]
      have hgo : t = trimEndGo s a' (b - a') b := by rw [← ht]; rfl
      obtain ⟨x, hx, x1, x2, x3⟩ := trimEndGo_last s a' (b - a') b (Nat.le_refl _) hbs (by rw [← hgo]; omega)
      rw [← hgo] at hx
      rw [hx]
      exact ⟨fun h0 => x1 (by cases h0; rfl), fun h0 => x2 (by cases h0; rfl), fun h0 => x3 (by cases h0; rfl)⟩
    · -- not the last element
      have hni : (lnb == i) = false := by simp; omega
      simp only [hni, Bool.false_eq_true, if_false, mapPat, PatElem.mapS]
      have hv := mlTextOK_span hTB h1 hab (Nat.le_refl _)
      have hen := endsNl_span hab hbs
      rw [nxt_text_noghost s a b ind role hg] at hF
      refine fin_text_keep hlt hF _ hv (nxt_text_noghost s a b ind role hg) ?_ ?_
        (fun hn => hls hn b _ hab (Nat.le_refl _) (Or.inr rfl))
        (hexc b hab (Nat.le_refl _) (Or.inr rfl)) hE (fun h0 => hfI h0 b hab (Nat.le_refl _))
        (fun h0 => hfL h0 b hab (Nat.le_refl _) (Or.inr rfl))
      · rw [hen]; cases endsLF s b <;> rfl
      · rw [hen]; intro h0; rw [h0]; exact Or.inl rfl

/-- text in the middle of a line -/
theorem fin_plain {s : Src} {c : Option Nat} {lnb i : Nat} {E : PSt} {a b ind : Nat} {role : TextPos}
    {rest : List Placeholder} {r : List (PatElem Span)} (hi : i ≤ lnb)
    (hr : (role == .lineStart) = false) (hab : a < b) (hTB : TextBytes s a b)
    (hE : (E = .first .initialLineStart ∧ ∃ x, s[a]? = some x ∧ x ≠ 32 ∧ x ≠ 10) ∨ E = .afterPl)
    (hsurv : i = lnb → Surv s (.text a b ind role))
    (htail : ∀ r', finishElements s c lnb (i + 1) rest = some r' →
      TailOK s c lnb i (nxt s (.text a b ind role)) rest r')
    (h : finishElements s c lnb i (.text a b ind role :: rest) = some r) :
    FinOK s c E (.text a b ind role :: rest) (lnb + 1 - i) (mapPat (spanBytes s) r) := by
  have hnl : nlOf E = false := by rcases hE with ⟨h, _⟩ | h <;> rw [h] <;> rfl
  refine fin_text_gen hi a (effStart_nls c a ind role hr) (Nat.le_refl _) (by omega) hab (by simp [isGhost, hr]) hTB
    (by rcases hE with ⟨h, _⟩ | h <;> rw [h] <;> exact ⟨by simp, by simp⟩)
    (fun hn => by rw [hnl] at hn; cases hn) (fun t _ _ _ => by simp [hnl, lineInd, hr]) ?_
    (fun h0 => by rcases hE with ⟨h, _⟩ | h <;> rw [h] at h0 <;> cases h0) hsurv htail h
  intro h0 t h1 h2
  rcases hE with ⟨_, x, hx, hx1, hx2⟩ | h
  · exact ⟨x, by rw [spanBytes_head h1 (by have := hTB.1; omega)]; exact hx, hx1, hx2⟩
  · rw [h] at h0; cases h0

/-- a line with content -/
theorem fin_content {s : Src} {c : Option Nat} {lnb i : Nat} {E : PSt} {a b ind : Nat}
    {rest : List Placeholder} {r : List (PatElem Span)} (hi : i ≤ lnb)
    (hE : E = .first .lineStart ∨ E = .afterNl) (hcl : ContentLine s a b ind)
    (hsurv : i = lnb → Surv s (.text a b ind .lineStart))
    (htail : ∀ r', finishElements s c lnb (i + 1) rest = some r' →
      TailOK s c lnb i (nxt s (.text a b ind .lineStart)) rest r')
    (h : finishElements s c lnb i (.text a b ind .lineStart :: rest) = some r) :
    FinOK s c E (.text a b ind .lineStart :: rest) (lnb + 1 - i) (mapPat (spanBytes s) r) := by
  obtain ⟨hlt, hsp, ⟨c0, hc0, n32, n10, n46, n91, n42⟩, hTB⟩ := hcl
  have hnl : nlOf E = true := by rcases hE with h | h <;> rw [h] <;> rfl
  have hes := effStart_ls c a ind
  have hge := effStart_ge c a ind .lineStart
  generalize ha' : effStart c a ind .lineStart = a' at hes hge
  have hbs := hTB.1
  -- the shape of the text, whatever its end
  have hsplit : ∀ t, a + ind < t → t ≤ b →
      spanBytes s ⟨a', t⟩ = spacesL (eff c ind) ++ c0 :: spanBytes s ⟨a + ind + 1, t⟩ := by
    intro t t1 t2
    rw [span_split (fun j j1 j2 => hsp j (by omega) j2) hc0 (by omega) t1 (by omega)]
    congr 2; omega
  have hne10 : ∀ t, a + ind < t → t ≤ b → spanBytes s ⟨a', t⟩ ≠ [10] := by
    intro t t1 t2 h0
    have := dropWhile_spaces_cons (eff c ind) c0 (spanBytes s ⟨a + ind + 1, t⟩) n32
    rw [← hsplit t t1 t2, h0] at this
    simp at this
    exact n10 this.1.symm
  have hblank : isBlankPh s a b ind = false := by
    simp only [isBlankPh, Bool.and_eq_false_iff, beq_eq_false_iff_ne]
    by_cases hi0 : ind = 0
    · right; subst hi0; rw [Nat.add_zero] at hc0; rw [hc0]; intro h0; cases h0; exact n10 rfl
    · left; left; exact hi0
  have htt : ∀ t, a' < t → t ≤ b → (a + ind < t ∨ t = b) → a + ind < t := by
    intro t _ _ h0; rcases h0 with h0 | h0 <;> omega
  refine fin_text_gen hi a' ha' hge (by omega) (by omega) (by simp [isGhost]; omega) hTB
    (by rcases hE with h | h <;> rw [h] <;> exact ⟨by simp, by simp⟩) ?_ ?_
    (fun h0 => by rcases hE with h | h <;> rw [h] at h0 <;> cases h0)
    (fun _ t t1 t2 t3 => hne10 t (htt t t1 t2 t3) t2) hsurv htail h
  · intro _ t B' t1 t2 t3
    rw [hsplit t (htt t t1 t2 t3) t2]
    simp only [lineStartOK, dropWhile_spaces_cons _ _ _ n32, contentStartOK, Bool.or_eq_true]
    right
    simp [n32, n10, n46, n91, n42]
  · intro t t1 t2 t3
    have hne := hne10 t (htt t t1 t2 t3) t2
    have : (spanBytes s ⟨a', t⟩ != [10]) = true := by simpa using hne
    simp only [hnl, this, Bool.and_self, if_true, lineInd, beq_self_eq_true, hblank, Bool.not_false,
      List.map_cons, List.map_nil]
    rw [hsplit t (htt t t1 t2 t3) t2, leadSpaces_spaces_cons _ _ _ n32]

/-- a blank line -/
theorem fin_blank {s : Src} {c : Option Nat} {lnb i : Nat} {a b ind : Nat}
    {rest : List Placeholder} {r : List (PatElem Span)} (hi : i ≤ lnb) (hbl : BlankPh s a b ind)
    (hsurv : i = lnb → Surv s (.text a b ind .lineStart))
    (htail : ∀ r', finishElements s c lnb (i + 1) rest = some r' →
      TailOK s c lnb i (nxt s (.text a b ind .lineStart)) rest r')
    (h : finishElements s c lnb i (.text a b ind .lineStart :: rest) = some r) :
    FinOK s c .afterNl (.text a b ind .lineStart :: rest) (lnb + 1 - i) (mapPat (spanBytes s) r) := by
  obtain ⟨rfl, rfl, h10⟩ := hbl
  have hlt := get_lt h10
  have ha' : effStart c a 0 .lineStart = a := by
    have := effStart_ls c a 0; rw [eff_zero] at this; omega
  have hv : ∀ t, a < t → t ≤ a + 1 → spanBytes s ⟨a, t⟩ = [10] := by
    intro t t1 t2
    have : t = a + 1 := by omega
    subst this
    rw [spanBytes_cons h10 (by omega), spanBytes_nil (Nat.le_refl _)]
  have hTB : TextBytes s a (a + 1) := by
    refine ⟨by omega, ?_, fun j j1 j2 => by omega, fun j j1 j2 => by omega⟩
    intro j j1 j2
    have : j = a := by omega
    subst this; rw [h10]; exact ⟨by decide, by decide⟩
  have hblank : isBlankPh s a (a + 1) 0 = true := by simp [isBlankPh, h10]
  refine fin_text_gen hi a ha' (Nat.le_refl _) (by omega) (by omega) (by simp [isGhost]) hTB ⟨by simp, by simp⟩
    (fun _ t B' t1 t2 _ => by rw [hv t t1 t2]; rfl) ?_ (fun h0 => by cases h0) (fun h0 => by cases h0) hsurv htail h
  intro t t1 t2 _
  rw [hv t t1 t2]
  simp [lineInd, hblank]

/-- the indentation in front of a placeable that starts a line -/
theorem fin_ghost {s : Src} {c : Option Nat} {lnb i : Nat} {E : PSt} {a b ind : Nat}
    {rest : List Placeholder} {r : List (PatElem Span)} (hi : i ≤ lnb)
    (hE : E = .first .lineStart ∨ E = .afterNl) (hgl : GhostLine s a b ind)
    (hsurv : i = lnb → Surv s (.text a b ind .lineStart))
    (htail : ∀ r', finishElements s c lnb (i + 1) rest = some r' → TailOK s c lnb i .afterGhost rest r')
    (h : finishElements s c lnb i (.text a b ind .lineStart :: rest) = some r) :
    FinOK s c E (.text a b ind .lineStart :: rest) (lnb + 1 - i) (mapPat (spanBytes s) r) := by
  obtain ⟨rfl, hbs, hsp⟩ := hgl
  have hnl : nlOf E = true := by rcases hE with h | h <;> rw [h] <;> rfl
  have hE' : E ≠ .afterText ∧ E ≠ .afterGhost := by rcases hE with h | h <;> rw [h] <;> exact ⟨by simp, by simp⟩
  have hnI : E ≠ .first .initialLineStart := by rcases hE with h | h <;> rw [h] <;> simp
  have hlt : i < lnb := by
    rcases Nat.lt_or_ge i lnb with h0 | h0
    · exact h0
    · exfalso
      obtain ⟨_, hsv⟩ := hsurv (by omega)
      exact hsv (by simp [trimEnd, trimEndGo])
  have hes := effStart_ls c a ind
  have hge := effStart_ge c a ind .lineStart
  have hblank : isBlankPh s a (a + ind) ind = false := by
    simp only [isBlankPh, Bool.and_eq_false_iff, beq_eq_false_iff_ne]
    by_cases hi0 : ind = 0
    · left; right; omega
    · left; left; exact hi0
  have hli : lineInd s E (.text a (a + ind) ind .lineStart) = [ind] := by simp [lineInd, hblank]
  have hnx : nxt s (.text a (a + ind) ind .lineStart) = .afterGhost := by simp [nxt, isGhost]
  rw [fe_text _ _ _ _ _ _ _ _ _ hi] at h
  generalize ha' : effStart c a ind .lineStart = a' at hes hge h
  by_cases hd : a' = a + ind
  · -- the indent is all common indent: no element
    have he0 : eff c ind = 0 := by omega
    simp only [hd, beq_self_eq_true, if_true] at h
    rcases htail r h with ⟨h0, _⟩ | ⟨_, hF⟩
    · omega
    · generalize mapPat (spanBytes s) r = B at hF ⊢
      cases B with
      | nil => exact absurd rfl hF.ne
      | cons x B'' =>
        cases x with
        | text w => exact absurd rfl (hF.noText (Or.inr rfl) w B'')
        | placeable x =>
          exact {
            ml := by have := hF.ml; rw [mlElems_pl] at this ⊢; exact this
            last := hF.last
            ne := by simp
            exc := by
              have := hF.exc
              rw [excesses_pl] at this ⊢
              rw [take_cons_k _ _ _ _ hi, lineInds, List.map_append, hnx, ← this, hli, hnl]
              simp [nlOf, he0]
            noText := fun h0 => by rcases h0 with h0 | h0; exact absurd h0 hE'.1; exact absurd h0 hE'.2
            firstI := fun h0 => absurd h0 hnI
            firstL := by intro _ w es hw; cases hw }
  · -- some indentation remains: a text of spaces
    have hne : (a' == a + ind) = false := by simpa using hd
    simp only [hne, Bool.false_eq_true, if_false] at h
    split at h
    · cases h
    · rename_i sp hsl
      obtain ⟨rfl, _⟩ := slice_eq_some hsl
      simp only [Option.map_eq_some_iff] at h
      obtain ⟨r', hr', rfl⟩ := h
      rcases htail r' hr' with ⟨h0, _⟩ | ⟨_, hF⟩
      · omega
      · have hni : (lnb == i) = false := by simp; omega
        simp only [hni, Bool.false_eq_true, if_false, mapPat, PatElem.mapS]
        have hv : spanBytes s ⟨a', a + ind⟩ = spacesL (eff c ind) := by
          rw [spanBytes_spaces hbs (fun j j1 j2 => hsp j (by omega) j2)]; congr 1; omega
        have hpos : 0 < eff c ind := by omega
        rw [hv]
        have hne10 : spacesL (eff c ind) ≠ [10] := by
          intro h0
          have := leadSpaces_spaces (eff c ind)
          rw [h0] at this; simp [leadSpaces] at this; omega
        refine fin_text_keep hlt hF _ (mlTextOK_spaces _ hpos) hnx (by rw [endsNl_spaces]; rfl)
          (fun _ => Or.inr rfl) ?_ ?_ hE' (fun h0 => absurd h0 hnI) (fun _ => hne10)
        · intro _
          generalize mapPat (spanBytes s) r' = B at hF ⊢
          cases B with
          | nil => exact absurd rfl hF.ne
          | cons x B'' =>
            cases x with
            | text w => exact absurd rfl (hF.noText (Or.inr rfl) w B'')
            | placeable x => simp [lineStartOK, dropWhile_spaces]
        · have : (spacesL (eff c ind) != [10]) = true := by simpa using hne10
          simp [hnl, this, hli, leadSpaces_spaces]

/-- **`finishElements` on well-shaped placeholders** -/
theorem fin_shape {s : Src} (c : Option Nat) (lnb : Nat) :
    ∀ (n : Nat) (l : List Placeholder), l.length ≤ n → ∀ (i : Nat) (E : PSt) (r : List (PatElem Span)),
      chk s E l → i ≤ lnb → lnb < i + l.length → (∀ ph, l[lnb - i]? = some ph → Surv s ph) →
      finishElements s c lnb i l = some r → FinOK s c E l (lnb + 1 - i) (mapPat (spanBytes s) r) := by
  intro n
  induction n with
  | zero =>
    intro l hl i E r _ h1 h2 _ _
    have : l.length = 0 := by omega
    omega
  | succ n ih =>
    intro l hl i E r hchk hi hlen hsv h
    cases l with
    | nil => simp at hlen; omega
    | cons ph rest =>
      simp only [chk] at hchk
      obtain ⟨hok, hchk'⟩ := hchk
      simp only [List.length_cons] at hl hlen
      have hsurv : i = lnb → Surv s ph := fun h0 => hsv ph (by subst h0; simp)
      have htail : ∀ r', finishElements s c lnb (i + 1) rest = some r' → TailOK s c lnb i (nxt s ph) rest r' := by
        intro r' hr'
        by_cases h0 : i = lnb
        · left
          rw [fin_past s c lnb (i + 1) rest (by omega)] at hr'
          cases hr'
          exact ⟨h0, rfl⟩
        · right
          refine ⟨by omega, ?_⟩
          have := ih rest (by omega) (i + 1) (nxt s ph) r' hchk' (by omega) (by omega)
            (fun x hx => hsv x (by
              rw [show lnb - i = (lnb - (i + 1)) + 1 by omega, List.getElem?_cons_succ]; exact hx)) hr'
          rwa [show lnb + 1 - (i + 1) = lnb - i by omega] at this
      cases ph with
      | placeable e =>
        rw [fe_pl _ _ _ _ _ _ hi] at h
        simp only [Option.map_eq_some_iff] at h
        obtain ⟨r', hr', rfl⟩ := h
        exact fin_pl hi (htail r' hr')
      | text a b ind role =>
        cases E with
        | first r0 =>
          cases r0 with
          | initialLineStart =>
            obtain ⟨hr, hab, hTB, hx⟩ := hok
            subst hr
            exact fin_plain hi rfl hab hTB (Or.inl ⟨rfl, hx⟩) hsurv htail h
          | lineStart =>
            obtain ⟨hr, hk⟩ := hok
            subst hr
            rcases hk with hk | hk
            · exact fin_content hi (Or.inl rfl) hk hsurv htail h
            · have hnx : nxt s (.text a b ind .lineStart) = .afterGhost := by
                obtain ⟨rfl, _, _⟩ := hk; simp [nxt, isGhost]
              rw [hnx] at htail
              exact fin_ghost hi (Or.inl rfl) hk hsurv htail h
          | continuation => exact absurd hok id
        | afterNl =>
          obtain ⟨hr, hk⟩ := hok
          subst hr
          rcases hk with hk | hk | hk
          · exact fin_content hi (Or.inr rfl) hk hsurv htail h
          · have hnx : nxt s (.text a b ind .lineStart) = .afterGhost := by
              obtain ⟨rfl, _, _⟩ := hk; simp [nxt, isGhost]
            rw [hnx] at htail
            exact fin_ghost hi (Or.inr rfl) hk hsurv htail h
          · exact fin_blank hi hk hsurv htail h
        | afterGhost => exact absurd hok id
        | afterText => exact absurd hok id
        | afterPl =>
          obtain ⟨hr, hab, hTB⟩ := hok
          subst hr
          exact fin_plain hi rfl hab hTB (Or.inr rfl) hsurv htail h

end FluentProofs.Ser
