import FluentModel.ResMgr
import FluentProofs.Registry
/-!
# Lemmas for C19 (ResourceManager)

A. `str::replace`: characterisation of `strReplace` (no match / first match / pieces).
B. path substitution for schemes given as segments.
C. cache / read-log invariant `MInv` and the extension order `Ext`.
D. the loading loop as a pure assembly over the per-resource outcomes.
E. the `get_bundles` iterator.
-/
namespace FluentModel.ResMgr
open FluentModel FluentModel.Registry

/-! ## A. `str::replace` -/

theorem replaceGo_nil (pat to : Bytes) (n : Nat) : replaceGo pat to n [] = [] := by
  cases n <;> rfl

theorem replaceGo_skip (pat to : Bytes) (a b : Bytes) :
    replaceGo pat to a.length (a ++ b) = replaceGo pat to 0 b := by
  induction a with
  | nil => rfl
  | cons x a ih => simpa [replaceGo] using ih

/-- a match at the cursor is replaced and scanning resumes after it (the replacement is not rescanned) -/
theorem strReplace_match (pat to rest : Bytes) (hp : pat ≠ []) :
    strReplace (pat ++ rest) pat to = to ++ strReplace rest pat to := by
  cases pat with
  | nil => exact absurd rfl hp
  | cons p ps =>
    unfold strReplace
    have hpre : (p :: ps).isPrefixOf (p :: (ps ++ rest)) = true := by
      rw [List.isPrefixOf_iff_prefix]
      exact List.prefix_append (p :: ps) rest
    show replaceGo (p :: ps) to 0 (p :: (ps ++ rest)) = _
    rw [replaceGo, if_pos hpre]
    have : (p :: ps).length - 1 = ps.length := by simp
    rw [this, replaceGo_skip]

/-- bytes at which no match starts are copied -/
theorem strReplace_skip (pat to : Bytes) (s rest : Bytes)
    (h : ∀ k, k < s.length → ¬ pat <+: (s ++ rest).drop k) :
    strReplace (s ++ rest) pat to = s ++ strReplace rest pat to := by
  induction s with
  | nil => rfl
  | cons c s ih =>
    have h0 : ¬ pat.isPrefixOf (c :: (s ++ rest)) = true := by
      rw [List.isPrefixOf_iff_prefix]
      exact h 0 (by simp)
    have ih' := ih (fun k hk => by
      have := h (k + 1) (by simpa using hk)
      simpa using this)
    unfold strReplace at ih' ⊢
    show replaceGo pat to 0 (c :: (s ++ rest)) = _
    rw [replaceGo, if_neg h0, ih']
    rfl

/-- **no placeholder**: a string without any occurrence of the pattern is unchanged -/
theorem strReplace_no_match (pat to s : Bytes) (h : ∀ k, k < s.length → ¬ pat <+: s.drop k) :
    strReplace s pat to = s := by
  have := strReplace_skip pat to s [] (by simpa using h)
  simpa [strReplace, replaceGo_nil] using this

/-- **leftmost match first**: if the first occurrence of the pattern in `u ++ pat ++ rest` is the one
after `u`, the result is `u ++ to ++ (rest with the remaining occurrences replaced)` -/
theorem strReplace_first_match (pat to u rest : Bytes) (hp : pat ≠ [])
    (h : ∀ k, k < u.length → ¬ pat <+: (u ++ (pat ++ rest)).drop k) :
    strReplace (u ++ (pat ++ rest)) pat to = u ++ (to ++ strReplace rest pat to) := by
  rw [strReplace_skip pat to u (pat ++ rest) h, strReplace_match pat to rest hp]

/-- no match of `pat` can begin inside `s`, whatever follows `s` -/
def Inert (pat s : Bytes) : Prop := ∀ k, k < s.length → ∀ tail, ¬ pat <+: (s.drop k ++ tail)

theorem Inert.nil (pat : Bytes) : Inert pat [] := fun k hk => absurd hk (by simp)

theorem Inert.cons {pat s : Bytes} {c : UInt8} (h0 : ∀ tail, ¬ pat <+: (c :: s ++ tail))
    (h : Inert pat s) : Inert pat (c :: s) := by
  intro k hk tail
  cases k with
  | zero => simpa using h0 tail
  | succ k => simpa using h k (by simpa using hk) tail

/-- a string that does not contain the first byte of the pattern is inert -/
theorem inert_of_not_mem (p : UInt8) (ps s : Bytes) (h : p ∉ s) : Inert (p :: ps) s := by
  induction s with
  | nil => exact Inert.nil _
  | cons c s ih =>
    refine Inert.cons ?_ (ih (fun hm => h (List.mem_cons_of_mem _ hm)))
    intro tail hpre
    have : p = c := by
      have := List.cons_prefix_cons.1 hpre
      exact this.1
    exact h (by simp [this])

/-- **pieces**: a string made of inert pieces and occurrences of the pattern (in any number, at any
position, adjacent or not) is rewritten piece by piece -/
theorem strReplace_pieces (pat to : Bytes) (hp : pat ≠ []) (ps : List (Option Bytes))
    (h : ∀ s, some s ∈ ps → Inert pat s) :
    strReplace (ps.flatMap (fun | none => pat | some s => s)) pat to
      = ps.flatMap (fun | none => to | some s => s) := by
  induction ps with
  | nil => rfl
  | cons x ps ih =>
    have ih' := ih (fun s hs => h s (List.mem_cons_of_mem _ hs))
    cases x with
    | none =>
      simp only [List.flatMap_cons]
      rw [strReplace_match _ _ _ hp, ih']
    | some s =>
      simp only [List.flatMap_cons]
      rw [strReplace_skip, ih']
      intro k hk
      rw [List.drop_append_of_le_length (Nat.le_of_lt hk)]
      exact h s (List.mem_cons_self) k hk _

/-! ## B. schemes as segments -/

/-- a path scheme written as literal text and placeholders -/
inductive Seg where
  | lit (s : Bytes)
  | locale
  | resId

def Seg.render : Seg → Bytes
  | .lit s => s
  | .locale => localePat
  | .resId => resIdPat

/-- the scheme string -/
def renderScheme (segs : List Seg) : Bytes := segs.flatMap Seg.render

def Seg.subst (loc rid : Bytes) : Seg → Bytes
  | .lit s => s
  | .locale => loc
  | .resId => rid

/-- the intended path: every placeholder replaced by its value -/
def substScheme (loc rid : Bytes) (segs : List Seg) : Bytes := segs.flatMap (Seg.subst loc rid)

/-- contains no `{` -/
def Clean (s : Bytes) : Prop := (123 : UInt8) ∉ s

theorem inert_localePat_resIdPat : Inert localePat resIdPat := by
  unfold localePat resIdPat
  refine Inert.cons ?_ (inert_of_not_mem _ _ _ (by decide))
  intro tail h
  have h1 := (List.cons_prefix_cons.1 h).2
  have h2 := (List.cons_prefix_cons.1 h1).1
  exact absurd h2 (by decide)

theorem path_of_segments (segs : List Seg) (loc rid : Bytes)
    (hl : ∀ s, Seg.lit s ∈ segs → Clean s) (hloc : Clean loc) :
    pathOf (renderScheme segs) loc rid = substScheme loc rid segs := by
  unfold pathOf
  -- first pass: `{locale}`
  have h1 : renderScheme segs =
      (segs.map (fun | .lit s => some s | .locale => none | .resId => some resIdPat)).flatMap
        (fun | none => localePat | some s => s) := by
    unfold renderScheme
    rw [List.flatMap_map]
    congr 1
    funext sg
    cases sg <;> rfl
  rw [h1, strReplace_pieces localePat loc (by decide)]
  · have h2 : (segs.map (fun | .lit s => some s | .locale => none | .resId => some resIdPat)).flatMap
          (fun | none => loc | some s => s) =
        (segs.map (fun | .lit s => some s | .locale => some loc | .resId => none)).flatMap
          (fun | none => resIdPat | some s => s) := by
      rw [List.flatMap_map, List.flatMap_map]
      congr 1
      funext sg
      cases sg <;> rfl
    rw [h2, strReplace_pieces resIdPat rid (by decide)]
    · unfold substScheme
      rw [List.flatMap_map]
      congr 1
      funext sg
      cases sg <;> rfl
    · intro s hs
      obtain ⟨sg, hsg, he⟩ := List.mem_map.1 hs
      cases sg with
      | lit t =>
        simp at he; subst he
        exact inert_of_not_mem _ _ _ (hl t hsg)
      | locale =>
        simp at he; subst he
        exact inert_of_not_mem _ _ _ hloc
      | resId => simp at he
  · intro s hs
    obtain ⟨sg, hsg, he⟩ := List.mem_map.1 hs
    cases sg with
    | lit t =>
      simp at he; subst he
      exact inert_of_not_mem _ _ _ (hl t hsg)
    | locale => simp at he
    | resId =>
      simp at he; subst he
      exact inert_localePat_resIdPat

/-! ## C. cache and read log -/

theorem cacheGet_append (c d : Cache) (q : Path) :
    cacheGet (c ++ d) q = match cacheGet c q with
      | some v => some v
      | none => cacheGet d q := by
  induction c with
  | nil => rfl
  | cons x c ih =>
    obtain ⟨k, v⟩ := x
    by_cases hk : k = q <;> simp [cacheGet, hk, ih]

/-- finite-map law of the `FrozenMap` stand-in for an absent key -/
theorem cacheGet_insert (c : Cache) (p : Path) (r : Resource) (q : Path) (h : cacheGet c p = none) :
    cacheGet (cacheInsert c p r) q = if p = q then some r else cacheGet c q := by
  unfold cacheInsert
  rw [h]
  simp only [cacheGet_append]
  by_cases hq : p = q
  · subst hq; simp [h, cacheGet]
  · cases cacheGet c q <;> simp [cacheGet, hq]

/-- the read succeeded -/
def IsOk (e : LogEntry) : Prop := ∃ c, e.result = .ok c

/-- what is true of a manager at every moment (against the world `w`) -/
structure MInv (w : World) (parse : Bytes → Resource) (m : Mgr) : Prop where
  /-- the log is the sequence of reads number `0 … clock-1` -/
  ticks : m.log.map (·.tick) = List.range m.clock
  /-- every logged result is what the file system answered at that moment -/
  faithful : ∀ e ∈ m.log, e.result = w e.tick e.path
  /-- a path that was read successfully is cached with the parse of what was read -/
  cached_of_ok : ∀ e ∈ m.log, ∀ c, e.result = .ok c → cacheGet m.cache e.path = some (parse c)
  /-- everything in the cache comes from a successful read of that path -/
  ok_of_cached : ∀ p r, cacheGet m.cache p = some r →
    ∃ e ∈ m.log, e.path = p ∧ ∃ c, e.result = .ok c ∧ r = parse c
  /-- after a successful read of a path that path is never read again -/
  once : m.log.Pairwise (fun e e' => IsOk e → e'.path ≠ e.path)

/-- `m'` is a later state of `m`: same scheme, cache only grows, log only grows and the new reads are of
paths satisfying `P` -/
structure Step (m m' : Mgr) (P : Path → Prop) : Prop where
  scheme : m'.scheme = m.scheme
  cache : ∀ p r, cacheGet m.cache p = some r → cacheGet m'.cache p = some r
  reads : ∃ new, m'.log = m.log ++ new ∧ ∀ e ∈ new, P e.path

theorem Step.refl (m : Mgr) (P : Path → Prop) : Step m m P :=
  ⟨rfl, fun _ _ h => h, [], by simp, by simp⟩

theorem Step.trans {m₁ m₂ m₃ : Mgr} {P : Path → Prop} (h₁ : Step m₁ m₂ P) (h₂ : Step m₂ m₃ P) :
    Step m₁ m₃ P := by
  obtain ⟨n₁, e₁, p₁⟩ := h₁.reads
  obtain ⟨n₂, e₂, p₂⟩ := h₂.reads
  refine ⟨h₂.scheme.trans h₁.scheme, fun p r h => h₂.cache p r (h₁.cache p r h), n₁ ++ n₂, ?_, ?_⟩
  · rw [e₂, e₁, List.append_assoc]
  · intro e he
    rcases List.mem_append.1 he with he | he
    · exact p₁ e he
    · exact p₂ e he

theorem Step.mono {m m' : Mgr} {P Q : Path → Prop} (h : Step m m' P) (hpq : ∀ p, P p → Q p) :
    Step m m' Q := by
  obtain ⟨n, e, p⟩ := h.reads
  exact ⟨h.scheme, h.cache, n, e, fun x hx => hpq _ (p x hx)⟩

theorem Step.log_prefix {m m' : Mgr} {P : Path → Prop} (h : Step m m' P) : m.log <+: m'.log := by
  obtain ⟨n, e, _⟩ := h.reads
  exact ⟨n, e.symm⟩

theorem new_inv (w : World) (parse : Bytes → Resource) (scheme : Bytes) : MInv w parse (Mgr.new scheme) := by
  refine ⟨by simp [Mgr.new], ?_, ?_, ?_, ?_⟩ <;> simp [Mgr.new, cacheGet]

/-- `get_resource`: invariant, monotonicity, and the only path it can read -/
theorem getResource_step (w : World) (parse : Bytes → Resource) (m : Mgr) (rid loc : Bytes)
    (h : MInv w parse m) :
    MInv w parse (getResource w parse m rid loc).1 ∧
    Step m (getResource w parse m rid loc).1 (fun p => p = pathOf m.scheme loc rid) := by
  unfold getResource
  simp only
  cases hc : cacheGet m.cache (pathOf m.scheme loc rid) with
  | some r => exact ⟨h, Step.refl _ _⟩
  | none =>
    -- no successful read of this path so far
    have hno : ∀ e ∈ m.log, IsOk e → e.path ≠ pathOf m.scheme loc rid := by
      intro e he ⟨c, hok⟩ hp
      have := h.cached_of_ok e he c hok
      rw [hp, hc] at this
      exact absurd this (by simp)
    cases hw : w m.clock (pathOf m.scheme loc rid) with
    | err er =>
      simp only
      refine ⟨⟨?_, ?_, ?_, ?_, ?_⟩, ⟨rfl, fun _ _ h => h, [_], rfl, by simp⟩⟩
      · simp [h.ticks, List.range_succ]
      · intro e he
        rcases List.mem_append.1 he with he | he
        · exact h.faithful e he
        · simp at he; subst he; exact hw.symm
      · intro e he c hok
        rcases List.mem_append.1 he with he | he
        · exact h.cached_of_ok e he c hok
        · simp at he; subst he; simp at hok
      · intro p r hp
        obtain ⟨e, he, h1, h2⟩ := h.ok_of_cached p r hp
        exact ⟨e, List.mem_append_left _ he, h1, h2⟩
      · rw [List.pairwise_append]
        refine ⟨h.once, by simp, ?_⟩
        intro a ha b hb hok
        simp at hb; subst hb
        exact fun heq => hno a ha hok heq.symm
    | ok content =>
      simp only
      refine ⟨⟨?_, ?_, ?_, ?_, ?_⟩, ⟨rfl, ?_, [_], rfl, by simp⟩⟩
      · simp [h.ticks, List.range_succ]
      · intro e he
        rcases List.mem_append.1 he with he | he
        · exact h.faithful e he
        · simp at he; subst he; exact hw.symm
      · intro e he c hok
        rw [cacheGet_insert _ _ _ _ hc]
        rcases List.mem_append.1 he with he | he
        · have hne := hno e he ⟨c, hok⟩
          have : ¬ pathOf m.scheme loc rid = e.path := fun x => hne x.symm
          simp only [this, if_false]
          exact h.cached_of_ok e he c hok
        · simp at he; subst he
          simp at hok; subst hok
          simp
      · intro p r hp
        rw [cacheGet_insert _ _ _ _ hc] at hp
        by_cases hq : pathOf m.scheme loc rid = p
        · simp [hq] at hp
          subst hp
          exact ⟨⟨m.clock, pathOf m.scheme loc rid, .ok content⟩, by simp, hq, content, rfl, rfl⟩
        · simp [hq] at hp
          obtain ⟨e, he, h1, h2⟩ := h.ok_of_cached p r hp
          exact ⟨e, List.mem_append_left _ he, h1, h2⟩
      · rw [List.pairwise_append]
        refine ⟨h.once, by simp, ?_⟩
        intro a ha b hb hok
        simp at hb; subst hb
        exact fun heq => hno a ha hok heq.symm
      · intro p r hp
        rw [cacheGet_insert _ _ _ _ hc]
        by_cases hq : pathOf m.scheme loc rid = p
        · subst hq; rw [hc] at hp; exact absurd hp (by simp)
        · simpa [hq] using hp

/-- **first-loaded content sticks**: once a path has been read successfully, `get_resource` answers
from the cache with the parse of that first content and performs no read -/
theorem getResource_of_loaded (w : World) (parse : Bytes → Resource) (m : Mgr) (rid loc : Bytes)
    (h : MInv w parse m) (e : LogEntry) (he : e ∈ m.log) (hp : e.path = pathOf m.scheme loc rid)
    (c : Bytes) (hok : e.result = .ok c) :
    getResource w parse m rid loc = (m, .ok (parse c)) := by
  have := h.cached_of_ok e he c hok
  rw [hp] at this
  unfold getResource
  simp only [this]

/-! ## D. the loading loop -/

/-- outcomes of the successive `get_resource` calls of one loading loop -/
def loads (w : World) (parse : Bytes → Resource) (locale : Bytes) :
    List Bytes → Mgr → Mgr × List (Except IoErr Resource)
  | [], m => (m, [])
  | rid :: rest, m =>
    ((loads w parse locale rest (getResource w parse m rid locale).1).1,
     (getResource w parse m rid locale).2 :: (loads w parse locale rest (getResource w parse m rid locale).1).2)

/-- what the loop does with those outcomes (no I/O) -/
def assemble : List (Except IoErr Resource) → Bundle → Bundle × List MgrError
  | [], b => (b, [])
  | .ok res :: rest, b =>
    ((assemble rest (addResource b res).1).1,
     (addResource b res).2.map MgrError.fluent ++ (assemble rest (addResource b res).1).2)
  | .error e :: rest, b => ((assemble rest b).1, MgrError.io e :: (assemble rest b).2)

theorem loadLoop_eq (w : World) (parse : Bytes → Resource) (locale : Bytes) (ids : List Bytes) :
    ∀ (m : Mgr) (b : Bundle), loadLoop w parse locale ids m b =
      ((loads w parse locale ids m).1, (assemble (loads w parse locale ids m).2 b).1,
        (assemble (loads w parse locale ids m).2 b).2) := by
  induction ids with
  | nil => intro m b; rfl
  | cons rid rest ih =>
    intro m b
    unfold loadLoop loads
    cases hg : getResource w parse m rid locale with
    | mk m' o =>
      cases o with
      | ok res => simp only [assemble, ih]
      | error e => simp only [assemble, ih]

theorem loads_length (w : World) (parse : Bytes → Resource) (locale : Bytes) (ids : List Bytes) :
    ∀ m, (loads w parse locale ids m).2.length = ids.length := by
  induction ids with
  | nil => intro m; rfl
  | cons rid rest ih => intro m; simp [loads, ih]

theorem loads_step (w : World) (parse : Bytes → Resource) (locale : Bytes) (ids : List Bytes) :
    ∀ m, MInv w parse m →
      MInv w parse (loads w parse locale ids m).1 ∧
      Step m (loads w parse locale ids m).1 (fun p => ∃ rid ∈ ids, p = pathOf m.scheme locale rid) := by
  induction ids with
  | nil => intro m h; exact ⟨h, Step.refl _ _⟩
  | cons rid rest ih =>
    intro m h
    have h1 := getResource_step w parse m rid locale h
    have h2 := ih _ h1.1
    refine ⟨h2.1, Step.trans (h1.2.mono ?_) (h2.2.mono ?_)⟩
    · intro p hp; exact ⟨rid, List.mem_cons_self, hp⟩
    · intro p ⟨r, hr, hp⟩
      rw [h1.2.scheme] at hp
      exact ⟨r, List.mem_cons_of_mem _ hr, hp⟩

/-- no error collected: every resource was obtained and every `add_resource` was clean -/
theorem assemble_ok (outs : List (Except IoErr Resource)) :
    ∀ b, (assemble outs b).2 = [] →
      ∃ rs : List Resource, outs = rs.map Except.ok ∧
        (assemble outs b).1 = (rs.map Op.add).foldl (fun b op => (step b op).1) b ∧
        ∀ l ∈ trace b (rs.map Op.add), l = [] := by
  induction outs with
  | nil => intro b _; exact ⟨[], rfl, rfl, by simp [trace]⟩
  | cons o rest ih =>
    intro b h
    cases o with
    | error e => simp [assemble] at h
    | ok res =>
      simp only [assemble, List.append_eq_nil_iff, List.map_eq_nil_iff] at h
      obtain ⟨rs, h1, h2, h3⟩ := ih _ h.2
      refine ⟨res :: rs, by simp [h1], ?_, ?_⟩
      · simp only [assemble, List.map_cons, List.foldl_cons, step]
        exact h2
      · intro l hl
        simp only [List.map_cons, trace, step, List.mem_cons] at hl
        rcases hl with hl | hl
        · rw [hl]; exact h.1
        · exact h3 l hl

/-- the failures `get_bundle` must report: for every listed resource in order, its I/O error, or —
when it was obtained — one `Overriding` for every entry whose id already occurs in the resources
obtained before it (`pre`) or earlier in the resource itself -/
def failures : List (Except IoErr Resource) → List AstEntry → List MgrError
  | [], _ => []
  | .error e :: rest, pre => MgrError.io e :: failures rest pre
  | .ok r :: rest, pre =>
    (expectedErrors (fun _ => false) pre r).map MgrError.fluent ++ failures rest (pre ++ r)

theorem expectedErrors_shift (taken : Id → Bool) (pre : List AstEntry)
    (ht : ∀ id, taken id = (idsOf pre).contains id) (r : List AstEntry) :
    ∀ p, expectedErrors taken p r = expectedErrors (fun _ => false) (pre ++ p) r := by
  induction r with
  | nil => intro p; rfl
  | cons e rest ih =>
    intro p
    simp only [expectedErrors]
    rw [ih (p ++ [e]), List.append_assoc]
    congr 1
    cases hde : defOf e with
    | none => rfl
    | some x =>
      obtain ⟨i, k, d⟩ := x
      simp only [ht i, idsOf_append, Bool.false_or]
      have : (idsOf pre ++ idsOf p).contains i = ((idsOf pre).contains i || (idsOf p).contains i) := by
        simp [List.contains_iff_mem, List.mem_append]
      rw [this]

theorem isSome_abs_addResource (b : Bundle) (hb : b.Inv) (r : Resource) (id : Id) :
    ((addResource b r).1.abs id).isSome = ((b.abs id).isSome || (idsOf r).contains id) := by
  rw [(addResource_refines b r hb).2.1, specAdd_lookup]
  cases hb' : b.abs id with
  | some d => simp
  | none =>
    simp only [Option.isSome_none, Bool.false_or]
    cases hf : firstDef r id with
    | none =>
      have := (firstDef_eq_none_iff r id).1 hf
      simp [this]
    | some d =>
      have : id ∈ idsOf r := by
        apply Classical.byContradiction
        intro hn
        rw [(firstDef_eq_none_iff r id).2 hn] at hf
        exact absurd hf (by simp)
      simp [this]

/-- **exact failure list** of the loop -/
theorem assemble_errors (outs : List (Except IoErr Resource)) :
    ∀ (b : Bundle) (pre : List AstEntry), b.Inv →
      (∀ id, (b.abs id).isSome = (idsOf pre).contains id) →
      (assemble outs b).2 = failures outs pre := by
  induction outs with
  | nil => intro b pre _ _; rfl
  | cons o rest ih =>
    intro b pre hb hpre
    cases o with
    | error e =>
      simp only [assemble, failures]
      rw [ih b pre hb hpre]
    | ok r =>
      simp only [assemble, failures]
      have herr : (addResource b r).2 = expectedErrors (fun _ => false) pre r := by
        rw [(addResource_refines b r hb).2.2, specAdd_errors,
          expectedErrors_shift (fun id => (b.abs id).isSome) pre hpre r []]
        simp
      rw [herr, ih _ (pre ++ r) (addResource_refines b r hb).1]
      intro id
      rw [isSome_abs_addResource b hb r id, hpre id, idsOf_append]
      simp [List.contains_iff_mem, List.mem_append]

/-- no `Overriding` at all means no id is defined twice -/
theorem expectedErrors_nil (taken : Id → Bool) (r : List AstEntry) :
    ∀ pre, expectedErrors taken pre r = [] →
      (idsOf r).Nodup ∧ ∀ id ∈ idsOf r, taken id = false ∧ id ∉ idsOf pre := by
  induction r with
  | nil => intro pre _; simp [idsOf]
  | cons e rest ih =>
    intro pre h
    simp only [expectedErrors, List.append_eq_nil_iff] at h
    obtain ⟨ih1, ih2⟩ := ih _ h.2
    cases hde : defOf e with
    | none =>
      have hids : idsOf (e :: rest) = idsOf rest := by simp [idsOf, hde]
      rw [hids]
      refine ⟨ih1, fun id hid => ?_⟩
      have := ih2 id hid
      rw [mem_idsOf_snoc, hde] at this
      simpa using this
    | some x =>
      obtain ⟨i, k, d⟩ := x
      have hids : idsOf (e :: rest) = i :: idsOf rest := by simp [idsOf, hde]
      have h1 := h.1
      rw [hde] at h1
      simp only at h1
      have hi : taken i = false ∧ i ∉ idsOf pre := by
        cases ht : taken i <;> simp [ht] at h1 ⊢
        simpa [List.contains_iff_mem] using h1
      rw [hids]
      refine ⟨List.nodup_cons.2 ⟨?_, ih1⟩, ?_⟩
      · intro hmem
        have := (ih2 i hmem).2
        rw [mem_idsOf_snoc, hde] at this
        simp at this
      · intro id hid
        rcases List.mem_cons.1 hid with rfl | hid
        · exact hi
        · have := ih2 id hid
          rw [mem_idsOf_snoc, hde] at this
          simp at this
          exact ⟨this.1, this.2.1⟩

theorem adds_clean_nodup (rs : List Resource) :
    ∀ b : Bundle, b.Inv → (∀ l ∈ trace b (rs.map Op.add), l = []) →
      (idsOf rs.flatten).Nodup ∧ ∀ id ∈ idsOf rs.flatten, b.abs id = none := by
  induction rs with
  | nil => intro b _ _; simp [idsOf]
  | cons r rs ih =>
    intro b hb h
    simp only [List.map_cons, trace, step, List.mem_cons, forall_eq_or_imp] at h
    have hr := addResource_refines b r hb
    have he : expectedErrors (fun id => (b.abs id).isSome) [] r = [] := by
      rw [← specAdd_errors, ← hr.2.2]; exact h.1
    obtain ⟨n1, n2⟩ := expectedErrors_nil _ r [] he
    obtain ⟨i1, i2⟩ := ih _ hr.1 h.2
    simp only [List.flatten_cons, idsOf_append]
    refine ⟨List.nodup_append.2 ⟨n1, i1, ?_⟩, ?_⟩
    · intro a ha b' hb' hab
      subst hab
      have h1 := i2 a hb'
      have h2 := isSome_abs_addResource b hb r a
      rw [h1] at h2
      simp [ha] at h2
    · intro id hid
      rcases List.mem_append.1 hid with hid | hid
      · have := (n2 id hid).1
        simpa using this
      · have h1 := i2 id hid
        have h2 := isSome_abs_addResource b hb r id
        rw [h1] at h2
        cases hb'' : b.abs id with
        | none => rfl
        | some d => simp [hb''] at h2

/-! ## E. requests -/

theorem getBundle_eq (w : World) (parse : Bytes → Resource) (m : Mgr) (loc : Bytes) (ls ids : List Bytes) :
    getBundle w parse m (loc :: ls) ids =
      ((loads w parse loc ids m).1,
       .done (finish (loc :: ls) (assemble (loads w parse loc ids m).2 Bundle.empty).1
          (assemble (loads w parse loc ids m).2 Bundle.empty).2)) := by
  simp only [getBundle, loadLoop_eq]

theorem getBundle_step (w : World) (parse : Bytes → Resource) (m : Mgr) (locales ids : List Bytes)
    (h : MInv w parse m) :
    MInv w parse (getBundle w parse m locales ids).1 ∧
    Step m (getBundle w parse m locales ids).1
      (fun p => ∃ loc, locales.head? = some loc ∧ ∃ rid ∈ ids, p = pathOf m.scheme loc rid) := by
  cases locales with
  | nil => exact ⟨h, Step.refl _ _⟩
  | cons loc ls =>
    rw [getBundle_eq]
    have := loads_step w parse loc ids m h
    exact ⟨this.1, this.2.mono (fun p hp => ⟨loc, rfl, hp⟩)⟩

theorem next_some (w : World) (parse : Bytes → Resource) (m : Mgr) (it : BundlesIter) (loc : Bytes)
    (h : it.locales[it.idx]? = some loc) :
    it.next w parse m =
      ((loads w parse loc it.ids m).1, { it with idx := it.idx + 1 },
       some (finish [loc] (assemble (loads w parse loc it.ids m).2 Bundle.empty).1
          (assemble (loads w parse loc it.ids m).2 Bundle.empty).2)) := by
  simp only [BundlesIter.next, h, loadLoop_eq]

theorem next_none (w : World) (parse : Bytes → Resource) (m : Mgr) (it : BundlesIter)
    (h : it.locales[it.idx]? = none) : it.next w parse m = (m, it, none) := by
  simp only [BundlesIter.next, h]

theorem next_step (w : World) (parse : Bytes → Resource) (m : Mgr) (it : BundlesIter)
    (h : MInv w parse m) :
    MInv w parse (it.next w parse m).1 ∧
    Step m (it.next w parse m).1
      (fun p => ∃ loc, it.locales[it.idx]? = some loc ∧ ∃ rid ∈ it.ids, p = pathOf m.scheme loc rid) := by
  cases hl : it.locales[it.idx]? with
  | none => rw [next_none _ _ _ _ hl]; exact ⟨h, Step.refl _ _⟩
  | some loc =>
    rw [next_some _ _ _ _ _ hl]
    have := loads_step w parse loc it.ids m h
    exact ⟨this.1, this.2.mono (fun p hp => ⟨loc, rfl, hp⟩)⟩

theorem stepReq_step (w : World) (parse : Bytes → Resource) (s : Sys) (r : Req) (h : MInv w parse s.mgr) :
    MInv w parse (stepReq w parse s r).1.mgr ∧ Step s.mgr (stepReq w parse s r).1.mgr (fun _ => True) := by
  cases r with
  | bundle locales ids =>
    have := getBundle_step w parse s.mgr locales ids h
    exact ⟨this.1, this.2.mono (fun _ _ => trivial)⟩
  | openIter locales ids => exact ⟨h, Step.refl _ _⟩
  | next k =>
    simp only [stepReq]
    cases hk : s.iters[k]? with
    | none => exact ⟨h, Step.refl _ _⟩
    | some it =>
      have := next_step w parse s.mgr it h
      exact ⟨this.1, this.2.mono (fun _ _ => trivial)⟩

theorem foldl_stepReq_step (w : World) (parse : Bytes → Resource) (reqs : List Req) :
    ∀ s : Sys, MInv w parse s.mgr →
      MInv w parse (reqs.foldl (fun s r => (stepReq w parse s r).1) s).mgr ∧
      Step s.mgr (reqs.foldl (fun s r => (stepReq w parse s r).1) s).mgr (fun _ => True) := by
  induction reqs with
  | nil => intro s h; exact ⟨h, Step.refl _ _⟩
  | cons r reqs ih =>
    intro s h
    have h1 := stepReq_step w parse s r h
    have h2 := ih _ h1.1
    exact ⟨h2.1, h1.2.trans h2.2⟩

/-- `n` calls of `next()` on one iterator, nothing else in between -/
def pulls (w : World) (parse : Bytes → Resource) :
    Nat → Mgr → BundlesIter → Mgr × BundlesIter × List (Option BundleResult)
  | 0, m, it => (m, it, [])
  | n + 1, m, it =>
    ((pulls w parse n (it.next w parse m).1 (it.next w parse m).2.1).1,
     (pulls w parse n (it.next w parse m).1 (it.next w parse m).2.1).2.1,
     (it.next w parse m).2.2 :: (pulls w parse n (it.next w parse m).1 (it.next w parse m).2.1).2.2)

/-- the single-locale bundle requests for the given locales, one after the other -/
def seqBundles (w : World) (parse : Bytes → Resource) (ids : List Bytes) :
    List Bytes → Mgr → Mgr × List BundleResult
  | [], m => (m, [])
  | loc :: rest, m =>
    ((seqBundles w parse ids rest (loadLoop w parse loc ids m Bundle.empty).1).1,
     finish [loc] (loadLoop w parse loc ids m Bundle.empty).2.1 (loadLoop w parse loc ids m Bundle.empty).2.2
       :: (seqBundles w parse ids rest (loadLoop w parse loc ids m Bundle.empty).1).2)

theorem pulls_end (w : World) (parse : Bytes → Resource) (m : Mgr) (it : BundlesIter)
    (h : it.locales[it.idx]? = none) :
    ∀ k, pulls w parse k m it = (m, it, List.replicate k none) := by
  intro k
  induction k with
  | zero => rfl
  | succ k ih =>
    simp only [pulls, next_none _ _ _ _ h, ih, List.replicate_succ]

theorem pulls_drop (w : World) (parse : Bytes → Resource) (locales ids : List Bytes) (k : Nat) :
    ∀ (rest : List Bytes) (i : Nat) (m : Mgr), locales.drop i = rest →
      pulls w parse (rest.length + k) m ⟨locales, ids, i⟩ =
        ((seqBundles w parse ids rest m).1, ⟨locales, ids, i + rest.length⟩,
         (seqBundles w parse ids rest m).2.map some ++ List.replicate k none) := by
  intro rest
  induction rest with
  | nil =>
    intro i m h
    have hi : locales[i]? = none := by
      have := List.drop_eq_nil_iff.1 h
      exact List.getElem?_eq_none this
    simpa [seqBundles] using pulls_end w parse m ⟨locales, ids, i⟩ hi k
  | cons loc rest ih =>
    intro i m h
    have hi : locales[i]? = some loc := by
      have := congrArg (fun l => l[0]?) h
      simpa using this
    have hd : locales.drop (i + 1) = rest := by
      have := congrArg List.tail h
      simpa using this
    have hn : (loc :: rest).length + k = (rest.length + k) + 1 := by simp; omega
    rw [hn]
    have hnext : BundlesIter.next w parse m ⟨locales, ids, i⟩ =
        ((loadLoop w parse loc ids m Bundle.empty).1, ⟨locales, ids, i + 1⟩,
          some (finish [loc] (loadLoop w parse loc ids m Bundle.empty).2.1
            (loadLoop w parse loc ids m Bundle.empty).2.2)) := by
      simp only [BundlesIter.next, hi]
    simp only [pulls, hnext, ih (i + 1) _ hd, seqBundles, List.map_cons, List.cons_append]
    have : i + 1 + rest.length = i + (rest.length + 1) := by omega
    simp [this]

/-! ## F. locality: a request consults the world only at the ticks of its own reads

Consequence (`piecewise_glue`): a run in which every request is evaluated against its own world (for
instance the file-system snapshot of that moment, as the correspondence driver does) is a run against
one global world, so every theorem about `runReqs` applies to it. -/

def AgreeOn (a b : Nat) (w w' : World) : Prop := ∀ t, a ≤ t → t < b → w t = w' t

theorem getResource_clock (w : World) (parse : Bytes → Resource) (m : Mgr) (rid loc : Bytes) :
    (getResource w parse m rid loc).1.clock =
      if cacheGet m.cache (pathOf m.scheme loc rid) = none then m.clock + 1 else m.clock := by
  unfold getResource
  simp only
  cases hc : cacheGet m.cache (pathOf m.scheme loc rid) with
  | some r => simp
  | none => cases w m.clock (pathOf m.scheme loc rid) <;> simp

theorem getResource_local (w w' : World) (parse : Bytes → Resource) (m : Mgr) (rid loc : Bytes)
    (h : cacheGet m.cache (pathOf m.scheme loc rid) = none → w m.clock = w' m.clock) :
    getResource w parse m rid loc = getResource w' parse m rid loc := by
  unfold getResource
  simp only
  cases hc : cacheGet m.cache (pathOf m.scheme loc rid) with
  | some r => rfl
  | none => rw [h hc]

theorem loads_clock_le (w : World) (parse : Bytes → Resource) (locale : Bytes) (ids : List Bytes) :
    ∀ m, m.clock ≤ (loads w parse locale ids m).1.clock := by
  induction ids with
  | nil => intro m; exact Nat.le_refl _
  | cons rid rest ih =>
    intro m
    have h1 : m.clock ≤ (getResource w parse m rid locale).1.clock := by
      rw [getResource_clock]; split <;> omega
    exact Nat.le_trans h1 (ih _)

theorem loads_agree (w w' : World) (parse : Bytes → Resource) (locale : Bytes) (ids : List Bytes) :
    ∀ m, AgreeOn m.clock (loads w parse locale ids m).1.clock w w' →
      loads w parse locale ids m = loads w' parse locale ids m := by
  induction ids with
  | nil => intro m _; rfl
  | cons rid rest ih =>
    intro m h
    have hfin := loads_clock_le w parse locale rest (getResource w parse m rid locale).1
    have hg : getResource w parse m rid locale = getResource w' parse m rid locale := by
      apply getResource_local
      intro hc
      apply h m.clock (Nat.le_refl _)
      have := getResource_clock w parse m rid locale
      rw [if_pos hc] at this
      simp only [loads]
      omega
    have hle : m.clock ≤ (getResource w parse m rid locale).1.clock := by
      rw [getResource_clock]; split <;> omega
    have ih' := ih (getResource w parse m rid locale).1
      (fun t ht1 ht2 => h t (Nat.le_trans hle ht1) (by simpa [loads] using ht2))
    simp only [loads]
    rw [← hg, ih']

theorem stepReq_clock_le (w : World) (parse : Bytes → Resource) (s : Sys) (r : Req) :
    s.mgr.clock ≤ (stepReq w parse s r).1.mgr.clock := by
  cases r with
  | bundle locales ids =>
    cases locales with
    | nil => exact Nat.le_refl _
    | cons loc ls =>
      simp only [stepReq, getBundle_eq]
      exact loads_clock_le _ _ _ _ _
  | openIter locales ids => exact Nat.le_refl _
  | next k =>
    simp only [stepReq]
    cases hk : s.iters[k]? with
    | none => exact Nat.le_refl _
    | some it =>
      cases hl : it.locales[it.idx]? with
      | none => simp only [next_none _ _ _ _ hl]; exact Nat.le_refl _
      | some loc => simp only [next_some _ _ _ _ _ hl]; exact loads_clock_le _ _ _ _ _

theorem stepReq_agree (w w' : World) (parse : Bytes → Resource) (s : Sys) (r : Req)
    (h : AgreeOn s.mgr.clock (stepReq w parse s r).1.mgr.clock w w') :
    stepReq w parse s r = stepReq w' parse s r := by
  cases r with
  | bundle locales ids =>
    cases locales with
    | nil => rfl
    | cons loc ls =>
      simp only [stepReq, getBundle_eq] at h ⊢
      rw [loads_agree w w' parse loc ids s.mgr h]
  | openIter locales ids => rfl
  | next k =>
    simp only [stepReq] at h ⊢
    cases hk : s.iters[k]? with
    | none => rfl
    | some it =>
      simp only [hk] at h
      cases hl : it.locales[it.idx]? with
      | none => simp only [next_none _ _ _ _ hl]
      | some loc =>
        simp only [next_some _ _ _ _ _ hl] at h ⊢
        rw [loads_agree w w' parse loc it.ids s.mgr h]

/-- responses of a history against one world -/
def resps (w : World) (parse : Bytes → Resource) : Sys → List Req → List Resp
  | _, [] => []
  | s, r :: rest => (stepReq w parse s r).2 :: resps w parse (stepReq w parse s r).1 rest

/-- final state and responses of a history in which every request comes with its own world -/
def runPW (parse : Bytes → Resource) : Sys → List (World × Req) → Sys × List Resp
  | s, [] => (s, [])
  | s, (w, r) :: rest =>
    ((runPW parse (stepReq w parse s r).1 rest).1,
     (stepReq w parse s r).2 :: (runPW parse (stepReq w parse s r).1 rest).2)

theorem run_agree (w w' : World) (parse : Bytes → Resource) (reqs : List Req) :
    ∀ s : Sys, (∀ t, s.mgr.clock ≤ t → w t = w' t) →
      reqs.foldl (fun s r => (stepReq w parse s r).1) s = reqs.foldl (fun s r => (stepReq w' parse s r).1) s ∧
      resps w parse s reqs = resps w' parse s reqs := by
  induction reqs with
  | nil => intro s _; exact ⟨rfl, rfl⟩
  | cons r reqs ih =>
    intro s h
    have h1 : stepReq w parse s r = stepReq w' parse s r :=
      stepReq_agree w w' parse s r (fun t ht _ => h t ht)
    have h2 := ih (stepReq w parse s r).1
      (fun t ht => h t (Nat.le_trans (stepReq_clock_le w parse s r) ht))
    simp only [List.foldl_cons, resps]
    rw [← h1]
    exact ⟨h2.1, by rw [h2.2]⟩

theorem piecewise_glue (parse : Bytes → Resource) (steps : List (World × Req)) :
    ∀ s : Sys, ∃ W : World,
      (runPW parse s steps).1 = (steps.map (·.2)).foldl (fun s r => (stepReq W parse s r).1) s ∧
      (runPW parse s steps).2 = resps W parse s (steps.map (·.2)) := by
  induction steps with
  | nil => intro s; exact ⟨fun _ _ => .err .notFound, rfl, rfl⟩
  | cons wr rest ih =>
    obtain ⟨w, r⟩ := wr
    intro s
    obtain ⟨W', hW1, hW2⟩ := ih (stepReq w parse s r).1
    let W : World := fun t => if t < (stepReq w parse s r).1.mgr.clock then w t else W' t
    have hstep : stepReq W parse s r = stepReq w parse s r := by
      symm
      apply stepReq_agree
      intro t _ ht2
      simp [W, ht2]
    have hrest := run_agree W' W parse (rest.map (·.2)) (stepReq w parse s r).1
      (fun t ht => by simp [W, Nat.not_lt.2 ht])
    refine ⟨W, ?_, ?_⟩
    · simp only [runPW, List.map_cons, List.foldl_cons, hstep]
      rw [hW1, hrest.1]
    · simp only [runPW, List.map_cons, resps, hstep]
      rw [hW2, hrest.2]

end FluentModel.ResMgr
