import FluentProofs.SerializerLineSplit
import FluentProofs.ParserLinesWF
import FluentProofs.ParserValidLeaf
/-!
# Serializer lemmas, part 17: the shape of what `get_pattern` produces (C04, "parser output is in the class")

Part 1: a state machine over the placeholders that `get_pattern`'s loop collects (`chk`), and the loop
invariant `PInv` (the placeholders collected so far are well-shaped, the role/cursor fit the last
placeholder, `common_indent` is the minimum over the lines seen so far, `kept_common_indent` the
minimum over the lines up to `last_non_blank`), for sources without the byte 13.
-/
namespace FluentProofs.Ser
open FluentModel FluentModel.Syntax FluentModel.Syntax.Ser FluentProofs.Parser

/-- the source contains no carriage return -/
def NoCR (s : Src) : Prop := ∀ j : Nat, s[j]? ≠ some (13 : UInt8)

/-! ## the state machine -/

/-- what the loop has just pushed -/
inductive PSt where
  | first (r : TextPos)   -- nothing yet; `r` = the initial role
  | afterNl               -- a text that ends with a line feed
  | afterGhost            -- the indentation in front of a placeable that starts a line
  | afterText             -- a text that ends in front of `{` or at the end of input
  | afterPl               -- a placeable
  deriving DecidableEq

/-- the next element starts a line -/
def nlOf : PSt → Bool
  | .first .lineStart => true
  | .afterNl => true
  | _ => false

def isGhost (a b ind : Nat) (role : TextPos) : Bool := role == .lineStart && b == a + ind

def endsLF (s : Src) (b : Nat) : Bool := s[b - 1]? == some 10

def nxt (s : Src) : Placeholder → PSt
  | .placeable _ => .afterPl
  | .text a b ind role => if isGhost a b ind role then .afterGhost else if endsLF s b then .afterNl else .afterText

/-- the bytes of `[a, b)`: no braces, `\n` only as the last byte, and that `\n` not directly behind a `\r`
(a `\r` that is not followed by `\n` is an ordinary text byte) -/
def TextBytes (s : Src) (a b : Nat) : Prop :=
  b ≤ s.size ∧ (∀ j, a ≤ j → j < b → s[j]? ≠ some 123 ∧ s[j]? ≠ some 125) ∧
    (∀ j, a ≤ j → j + 1 < b → s[j]? ≠ some 10) ∧
    (∀ j, a ≤ j → j + 1 < b → s[j]? = some 13 → s[j + 1]? ≠ some 10)

/-- a line with content: `ind` spaces, then a byte that may continue a pattern -/
def ContentLine (s : Src) (a b ind : Nat) : Prop :=
  a + ind < b ∧ (∀ j, a ≤ j → j < a + ind → s[j]? = some 32) ∧
    (∃ c, s[a + ind]? = some c ∧ c ≠ 32 ∧ c ≠ 10 ∧ c ≠ 46 ∧ c ≠ 91 ∧ c ≠ 42) ∧ TextBytes s a b

/-- the indentation in front of a placeable -/
def GhostLine (s : Src) (a b ind : Nat) : Prop :=
  b = a + ind ∧ b ≤ s.size ∧ (∀ j, a ≤ j → j < b → s[j]? = some 32)

/-- a blank line: only its line feed -/
def BlankPh (s : Src) (a b ind : Nat) : Prop := ind = 0 ∧ b = a + 1 ∧ s[a]? = some 10

def isBlankPh (s : Src) (a b ind : Nat) : Bool := ind == 0 && b == a + 1 && s[a]? == some 10

/-- the placeholder `ph` may follow state `E` -/
def okPh (s : Src) : PSt → Placeholder → Prop
  | _, .placeable _ => True
  | .first .initialLineStart, .text a b _ role =>
    role = .initialLineStart ∧ a < b ∧ TextBytes s a b ∧ ∃ c, s[a]? = some c ∧ c ≠ 32 ∧ c ≠ 10
  | .first .lineStart, .text a b ind role =>
    role = .lineStart ∧ (ContentLine s a b ind ∨ GhostLine s a b ind)
  | .afterNl, .text a b ind role =>
    role = .lineStart ∧ (ContentLine s a b ind ∨ GhostLine s a b ind ∨ BlankPh s a b ind)
  | .afterPl, .text a b _ role => role = .continuation ∧ a < b ∧ TextBytes s a b
  | _, .text _ _ _ _ => False

def chk (s : Src) : PSt → List Placeholder → Prop
  | _, [] => True
  | E, ph :: l => okPh s E ph ∧ chk s (nxt s ph) l

def endSt (s : Src) : PSt → List Placeholder → PSt
  | E, [] => E
  | _, ph :: l => endSt s (nxt s ph) l

/-- the indent of the line a placeholder starts (if it starts one that counts for the common indent) -/
def lineInd (s : Src) : PSt → Placeholder → List Nat
  | E, .placeable _ => if nlOf E then [0] else []
  | _, .text a b ind role => if role == .lineStart && !isBlankPh s a b ind then [ind] else []

def lineInds (s : Src) : PSt → List Placeholder → List Nat
  | _, [] => []
  | E, ph :: l => lineInd s E ph ++ lineInds s (nxt s ph) l

theorem chk_append (s : Src) (E : PSt) (l1 l2 : List Placeholder) :
    chk s E (l1 ++ l2) ↔ chk s E l1 ∧ chk s (endSt s E l1) l2 := by
  induction l1 generalizing E with
  | nil => simp [chk, endSt]
  | cons ph l ih => simp [chk, endSt, ih, and_assoc]

theorem endSt_append (s : Src) (E : PSt) (l1 l2 : List Placeholder) :
    endSt s E (l1 ++ l2) = endSt s (endSt s E l1) l2 := by
  induction l1 generalizing E with
  | nil => rfl
  | cons ph l ih => simp [endSt, ih]

theorem lineInds_append (s : Src) (E : PSt) (l1 l2 : List Placeholder) :
    lineInds s E (l1 ++ l2) = lineInds s E l1 ++ lineInds s (endSt s E l1) l2 := by
  induction l1 generalizing E with
  | nil => rfl
  | cons ph l ih => simp [lineInds, endSt, ih]

/-! ## minimum of a list, as the loop computes it -/

def stepMin (c : Option Nat) (x : Nat) : Option Nat :=
  match c with
  | some c => if x < c then some x else some c
  | none => some x

def minL : List Nat → Option Nat
  | [] => none
  | x :: xs => stepMin (minL xs) x

theorem stepMin_some (c x : Nat) : stepMin (some c) x = some (min x c) := by
  simp only [stepMin]; split <;> (congr 1; omega)

theorem stepMin_comm (c : Option Nat) (x y : Nat) : stepMin (stepMin c x) y = stepMin (stepMin c y) x := by
  cases c with
  | none =>
    show stepMin (some x) y = stepMin (some y) x
    simp only [stepMin_some]; congr 1; omega
  | some c => simp only [stepMin_some]; congr 1; omega

theorem minL_snoc (l : List Nat) (x : Nat) : minL (l ++ [x]) = stepMin (minL l) x := by
  induction l with
  | nil => rfl
  | cons y ys ih => simp only [List.cons_append, minL, ih, stepMin_comm]

theorem minL_append_nil (l : List Nat) : minL (l ++ []) = minL l := by simp

/-- the minimum is attained, and is a lower bound -/
theorem minL_spec (l : List Nat) :
    (minL l = none ↔ l = []) ∧ ∀ c, minL l = some c → c ∈ l ∧ ∀ x ∈ l, c ≤ x := by
  induction l with
  | nil => simp [minL]
  | cons y ys ih =>
    constructor
    · simp only [minL, stepMin]; split <;> simp; split <;> simp
    · intro c hc
      simp only [minL] at hc
      cases hm : minL ys with
      | none =>
        have : ys = [] := ih.1.mp hm
        subst this
        simp [hm, stepMin] at hc; subst hc; simp
      | some m =>
        obtain ⟨h1, h2⟩ := ih.2 m hm
        simp only [hm, stepMin] at hc
        split at hc
        · cases hc
          refine ⟨by simp, ?_⟩
          intro x hx
          simp only [List.mem_cons] at hx
          rcases hx with rfl | hx
          · omega
          · have := h2 x hx; omega
        · cases hc
          refine ⟨by simp [h1], ?_⟩
          intro x hx
          simp only [List.mem_cons] at hx
          rcases hx with rfl | hx
          · omega
          · exact h2 x hx

/-! ## `get_text_slice` on a source without `\r` -/

/-- no line feed and no brace in `[a, b)` -/
def Clean (s : Src) (a b : Nat) : Prop :=
  ∀ j, a ≤ j → j < b → s[j]? ≠ some 10 ∧ s[j]? ≠ some 123 ∧ s[j]? ≠ some 125

theorem noBrace_ne {s : Src} {j : Nat} (h : ∀ b, s[j]? = some b → noBrace b = true) :
    s[j]? ≠ some 123 ∧ s[j]? ≠ some 125 := by
  constructor
  · intro h'; have := h _ h'; simp [noBrace] at this
  · intro h'; have := h _ h'; simp [noBrace] at this

theorem memchr3_clean_some {s : Src} {p e : Nat} (h : memchr3 s p = some e) : Clean s p e := by
  intro j h1 h2
  have hb := noBrace_ne ((memchr3Go_range (s := s)).1 e h j h1 h2)
  exact ⟨memchr3Go_first h j h1 h2, hb.1, hb.2⟩

theorem memchr3_clean_none {s : Src} {p : Nat} (h : memchr3 s p = none) (hp : p ≤ s.size) : Clean s p s.size := by
  intro j h1 _
  have hb := noBrace_ne ((memchr3Go_range (s := s)).2 h (by omega) j h1)
  exact ⟨memchr3Go_none h (Nat.le_refl _) j h1, hb.1, hb.2⟩

theorem getTextSlice_nocr {s : Src} (hcr : NoCR s) {p start stop : Nat} {nb : Bool} {term : Termination} {q : Nat}
    (hp : p ≤ s.size) (h : getTextSlice s p = .ok (start, stop, nb, term) q) :
    start = p ∧ stop ≤ s.size ∧
    ((term = .lineFeed ∧ p < stop ∧ s[stop - 1]? = some 10 ∧ q = stop ∧ nb = nonBlank s p (stop - 1) ∧
        Clean s p (stop - 1)) ∨
     (term = .placeableStart ∧ p ≤ stop ∧ s[stop]? = some 123 ∧ q = stop ∧ nb = nonBlank s p stop ∧ Clean s p stop) ∨
     (term = .eof ∧ p ≤ stop ∧ stop = s.size ∧ q = s.size ∧ nb = nonBlank s p stop ∧ Clean s p stop)) := by
  unfold getTextSlice at h
  have hng : ¬ p > s.size := by omega
  simp only [hng, if_false] at h
  split at h
  · rename_i hm
    cases h
    exact ⟨rfl, Nat.le_refl _, Or.inr (Or.inr ⟨rfl, hp, rfl, rfl, rfl, memchr3_clean_none hm hp⟩)⟩
  · rename_i e hm
    have hcl := memchr3_clean_some hm
    have hpe := (memchr3Go_some hm).1
    split at h
    · cases h
    · rename_i h10
      have hlt := get_lt h10
      split at h
      · rename_i hc
        exfalso
        have : s[e - 1]? = some 13 := by simpa using hc.2
        exact hcr _ this
      · cases h
        refine ⟨rfl, by omega, Or.inl ⟨rfl, by omega, by simpa using h10, rfl, by simp, ?_⟩⟩
        simpa using hcl
    · rename_i h123
      have hlt := get_lt h123
      cases h
      exact ⟨rfl, by omega, Or.inr (Or.inl ⟨rfl, hpe, h123, rfl, rfl, hcl⟩)⟩
    · cases h

/-! ## small facts about the leaf scanners -/

theorem sbiGo_stop (s : Src) : ∀ (n p : Nat), s.size - p ≤ n → s[skipBlankInlineGo s n p]? ≠ some 32 := by
  intro n
  induction n with
  | zero =>
    intro p hn h
    simp only [skipBlankInlineGo] at h
    have := get_lt h; omega
  | succ n ih =>
    intro p hn
    simp only [skipBlankInlineGo]
    split
    · exact ih (p + 1) (by omega)
    · rename_i h; simpa using h

theorem sbi_stop (s : Src) (p : Nat) : s[skipBlankInline s p]? ≠ some 32 :=
  sbiGo_stop s _ p (Nat.le_refl _)

theorem nonBlank_self (s : Src) (a : Nat) : nonBlank s a a = false := by
  simp [nonBlank, nonBlankGo]

theorem nonBlank_first {s : Src} {a b : Nat} {c : UInt8} (hab : a < b) (hc : s[a]? = some c) (h32 : c ≠ 32) :
    nonBlank s a b = true := by
  unfold nonBlank
  obtain ⟨n, hn⟩ : ∃ n, b - a = n + 1 := ⟨b - a - 1, by omega⟩
  rw [hn, nonBlankGo]
  simp [hab, hc, h32]

/-! ## the loop invariant -/

/-- the role and the cursor fit the last placeholder -/
def RoleOK (s : Src) (E : PSt) (role : TextPos) (p : Nat) : Prop :=
  match E with
  | .first .initialLineStart => role = .initialLineStart ∧ ∀ c, s[p]? = some c → c ≠ 32 ∧ c ≠ 10
  | .first .lineStart => role = .lineStart ∧ s[skipBlankInline s p]? ≠ some 10
  | .first .continuation => False
  | .afterNl => role = .lineStart
  | .afterGhost => role = .continuation ∧ s[p]? = some 123
  | .afterText => role = .continuation ∧ (s[p]? = some 123 ∨ s.size ≤ p)
  | .afterPl => role = .continuation

theorem roleOK_nl {s : Src} {E : PSt} {role : TextPos} {p : Nat} (h : RoleOK s E role p) :
    (role == .lineStart) = nlOf E := by
  cases E with
  | first r => cases r <;> simp only [RoleOK] at h <;> first | (rw [h.1]; rfl) | exact absurd h id
  | afterNl => simp only [RoleOK] at h; rw [h]; rfl
  | afterGhost => simp only [RoleOK] at h; rw [h.1]; rfl
  | afterText => simp only [RoleOK] at h; rw [h.1]; rfl
  | afterPl => simp only [RoleOK] at h; rw [h]; rfl

structure PInv (s : Src) (r0 : TextPos) (st : PatState) (p : Nat) : Prop where
  chk : chk s (.first r0) st.elements
  role : RoleOK s (endSt s (.first r0) st.elements) st.role p
  ci : st.commonIndent = minL (lineInds s (.first r0) st.elements)
  lnb : ∀ i, st.lastNonBlank = some i → (∃ ph, st.elements[i]? = some ph ∧ Surv s ph) ∧
    st.keptCommonIndent = minL (lineInds s (.first r0) (st.elements.take (i + 1)))

theorem getElem?_lt_length {α : Type} {l : List α} {i : Nat} {x : α} (h : l[i]? = some x) : i < l.length := by
  rcases Nat.lt_or_ge i l.length with h' | h'
  · exact h'
  · rw [List.getElem?_eq_none h'] at h; cases h

/-- pushing one well-shaped placeholder keeps the invariant -/
theorem push_pinv {s : Src} {r0 : TextPos} {st : PatState} {p : Nat} (hI : PInv s r0 st p) (ph : Placeholder)
    (ci' : Option Nat) (sv : Bool) (role' : TextPos) (q : Nat)
    (hok : okPh s (endSt s (.first r0) st.elements) ph)
    (hci : ci' = minL (lineInds s (.first r0) st.elements ++ lineInd s (endSt s (.first r0) st.elements) ph))
    (hsv : sv = true → Surv s ph)
    (hrole : RoleOK s (nxt s ph) role' q) :
    PInv s r0 { st with commonIndent := ci',
                        lastNonBlank := if sv then some st.elements.length else st.lastNonBlank,
                        keptCommonIndent := if sv then ci' else st.keptCommonIndent,
                        elements := st.elements ++ [ph], role := role' } q := by
  have hli : lineInds s (.first r0) (st.elements ++ [ph]) =
      lineInds s (.first r0) st.elements ++ lineInd s (endSt s (.first r0) st.elements) ph := by
    rw [lineInds_append]; simp [lineInds]
  constructor
  · show chk s _ (st.elements ++ [ph])
    rw [chk_append]
    exact ⟨hI.chk, hok, trivial⟩
  · show RoleOK s (endSt s _ (st.elements ++ [ph])) role' q
    rw [endSt_append]
    exact hrole
  · show ci' = minL (lineInds s _ (st.elements ++ [ph]))
    rw [hli]; exact hci
  · intro i hi
    simp only [] at hi ⊢
    cases sv with
    | true =>
      simp only [if_true, Option.some.injEq] at hi ⊢
      subst hi
      refine ⟨⟨ph, by simp, hsv rfl⟩, ?_⟩
      rw [List.take_of_length_le (by simp), hli]; exact hci
    | false =>
      simp only [Bool.false_eq_true, if_false] at hi ⊢
      obtain ⟨⟨x, h1, h2⟩, h3⟩ := hI.lnb i hi
      have hlt := getElem?_lt_length h1
      refine ⟨⟨x, getElem?_append_old _ _ _ _ h1, h2⟩, ?_⟩
      rw [List.take_append_of_le_length (by omega)]
      exact h3

/-! ## one text slice -/

/-- `st2Of` when an element is pushed -/
theorem st2Of_push {s : Src} {st : PatState} {p indent start stop : Nat} {nb : Bool} {term : Termination}
    {st2 : PatState}
    (hne : (start != stop || (st.role == .lineStart && term == .placeableStart && start == stop)) = true)
    (hcond : (st.role != .lineStart || nb || term == .lineFeed ||
      (st.role == .lineStart && term == .placeableStart && start == stop)) = true)
    (h : st2Of s st p indent start stop nb term = some st2) :
    ∃ e sv, elOf st p indent stop nb (st.role == .lineStart && term == .placeableStart && start == stop) = some e ∧
      survivesOf s start stop nb = some sv ∧
      st2 = { st with
        commonIndent :=
          (if st.role == .lineStart && (nb || (st.role == .lineStart && term == .placeableStart && start == stop))
            then stepMin st.commonIndent indent else st.commonIndent),
        lastNonBlank := if sv then some st.elements.length else st.lastNonBlank,
        keptCommonIndent :=
          if sv then
            (if st.role == .lineStart && (nb || (st.role == .lineStart && term == .placeableStart && start == stop))
              then stepMin st.commonIndent indent else st.commonIndent)
          else st.keptCommonIndent,
        elements := st.elements ++ [e] } := by
  unfold st2Of at h
  simp only [hne, hcond, if_true] at h
  split at h
  · rename_i e sv he hsv
    refine ⟨e, sv, he, hsv, ?_⟩
    cases h
    rfl
  · cases h

/-! ## one iteration of the loop, unfolded (as in `SpecPatLoop`) -/

/-- replica of the model's local `pre` (indent and cursor of a line-start slice, `none` = `break`) -/
def preOf (s : Src) (st : PatState) (p : Nat) : Option (Nat × Nat) :=
  if st.role == .lineStart then
    let p1 := skipBlankInline s p
    let indent := p1 - p
    match s[p1]? with
    | some b =>
      if indent == 0 then
        if !isEol s p1 then none else some (indent, p1)
      else if !isBytePatternContinuation b then none
      else some (indent, p1)
    | none => none
  else some (0, p)

/-- replica of the cursor after `break` -/
def pEndOf (s : Src) (p : Nat) : Nat :=
  let p1 := skipBlankInline s p
  let indent := p1 - p
  match s[p1]? with
  | some b => if indent == 0 then p1 else if !isBytePatternContinuation b then p else p1
  | none => p1

def pRoleOf : Termination → TextPos
  | .lineFeed => .lineStart
  | .crlf => .lineStart
  | .placeableStart => .continuation
  | .eof => .continuation

theorem loop_unfold (s : Src) (n : Nat) (st : PatState) (p : Nat) (hlt : p < s.size)
    (h123 : isCurrentByte s p 123 = false) :
    getPatternLoop s (n + 1) st p =
      (match preOf s st p with
       | none => .ok st (pEndOf s p)
       | some (indent, p1) =>
         match getTextSlice s p1 with
         | .ok (start, stop, nb, term) q =>
           (match st2Of s st p indent start stop nb term with
            | some st2 => getPatternLoop s n { st2 with role := pRoleOf term } q
            | none => .panic "get_pattern: end - 1 underflow or text slice")
         | .err e q => .err e q
         | .panic m => .panic m
         | .fuel => .fuel) := by
  simp only [getPatternLoop, hlt, if_true, h123, Bool.false_eq_true, if_false]
  rfl

theorem loop_placeable (s : Src) (n : Nat) (st : PatState) (p : Nat) (hlt : p < s.size)
    (h123 : s[p]? = some 123) {e : Expr Span} {q : Nat} (hpl : getPlaceable s n (p + 1) = .ok e q) :
    getPatternLoop s (n + 1) st p =
      getPatternLoop s n
        { elements := st.elements ++ [.placeable e], lastNonBlank := some st.elements.length,
          commonIndent := if st.role == .lineStart then some 0 else st.commonIndent,
          role := .continuation,
          keptCommonIndent := if st.role == .lineStart then some 0 else st.commonIndent } q := by
  have : isCurrentByte s p 123 = true := by simp [isCurrentByte, h123]
  simp only [getPatternLoop, hlt, if_true, this, hpl]
  split <;> rfl

/-- what `pre = some (indent, p1)` says -/
theorem preOf_facts {s : Src} (hcr : NoCR s) {st : PatState} {p indent p1 : Nat} (h : preOf s st p = some (indent, p1)) :
    (st.role = .lineStart ∧ p1 = skipBlankInline s p ∧ p + indent = p1 ∧
      ∃ b, s[p1]? = some b ∧ b ≠ 32 ∧ (indent = 0 → b = 10) ∧ (0 < indent → b ≠ 46 ∧ b ≠ 125 ∧ b ≠ 91 ∧ b ≠ 42)) ∨
    ((st.role == .lineStart) = false ∧ indent = 0 ∧ p1 = p) := by
  unfold preOf at h
  split at h
  · rename_i hr
    left
    have hr' : st.role = .lineStart := by simpa using hr
    have hle := (skipBlankInline_after s p).le
    simp only [] at h
    split at h
    · rename_i b hb
      have h32 : b ≠ 32 := fun h0 => sbi_stop s p (by rw [hb, h0])
      split at h
      · rename_i hi
        split at h
        · cases h
        · rename_i he
          simp only [Option.some.injEq, Prod.mk.injEq] at h
          obtain ⟨rfl, rfl⟩ := h
          have hi' : skipBlankInline s p - p = 0 := by simpa using hi
          refine ⟨hr', rfl, by omega, b, hb, h32, fun _ => ?_, fun h0 => by omega⟩
          have he' : isEol s (skipBlankInline s p) = true := by simpa using he
          rcases isEol_cases he' with h1 | h1 | ⟨h1, _⟩
          · rw [hb] at h1; cases h1
          · rw [hb] at h1; cases h1; rfl
          · exact absurd h1 (hcr _)
      · rename_i hi
        split at h
        · cases h
        · rename_i hc
          simp only [Option.some.injEq, Prod.mk.injEq] at h
          obtain ⟨rfl, rfl⟩ := h
          have hi' : skipBlankInline s p - p ≠ 0 := by simpa using hi
          refine ⟨hr', rfl, by omega, b, hb, h32, fun h0 => by omega, fun _ => ?_⟩
          simp only [isBytePatternContinuation, Bool.not_not] at hc
          refine ⟨?_, ?_, ?_, ?_⟩ <;> (intro h0; apply hc; subst h0; decide)
    · cases h
  · rename_i hr
    right
    simp only [Option.some.injEq, Prod.mk.injEq] at h
    exact ⟨by simpa using hr, h.1.symm, h.2.symm⟩

/-! ## the text step keeps the invariant -/

theorem roleOK_ls {s : Src} {E : PSt} {role : TextPos} {p : Nat} (h : RoleOK s E role p) (hr : role = .lineStart) :
    (E = .first .lineStart ∧ s[skipBlankInline s p]? ≠ some 10) ∨ E = .afterNl := by
  subst hr
  cases E with
  | first r => cases r <;> simp only [RoleOK] at h <;> first | exact Or.inl ⟨rfl, h.2⟩ | (exfalso; simp at h)
  | afterNl => exact Or.inr rfl
  | afterGhost => simp [RoleOK] at h
  | afterText => simp [RoleOK] at h
  | afterPl => simp [RoleOK] at h

theorem roleOK_nls {s : Src} {E : PSt} {role : TextPos} {p : Nat} (h : RoleOK s E role p)
    (hr : (role == .lineStart) = false) (hp : p < s.size) (h123 : s[p]? ≠ some 123) :
    (E = .first .initialLineStart ∧ role = .initialLineStart ∧ ∀ c, s[p]? = some c → c ≠ 32 ∧ c ≠ 10) ∨
    (E = .afterPl ∧ role = .continuation) := by
  cases E with
  | first r =>
    cases r <;> simp only [RoleOK] at h
    · exact Or.inl ⟨rfl, h.1, h.2⟩
    · rw [h.1] at hr; simp at hr
  | afterNl => simp only [RoleOK] at h; rw [h] at hr; simp at hr
  | afterGhost => simp only [RoleOK] at h; exact absurd h.2 h123
  | afterText => simp only [RoleOK] at h; rcases h.2 with h' | h'; exact absurd h' h123; omega
  | afterPl => exact Or.inr ⟨rfl, h⟩

theorem surv_of_survives {s : Src} {p indent start stop : Nat} {nb : Bool} {role : TextPos}
    (hst : start = p + indent) (h : survivesOf s start stop nb = some true) : Surv s (.text p stop indent role) := by
  unfold survivesOf at h
  split at h
  · simp only [Option.map_eq_some_iff] at h
    obtain ⟨sp, hsl, hsp⟩ := h
    obtain ⟨rfl, hvs⟩ := slice_eq_some hsl
    subst hst
    exact ⟨hvs.1, by simpa using hsp⟩
  · simp at h

/-- assembling one pushed text element -/
theorem text_push {s : Src} {r0 : TextPos} {st : PatState} {p : Nat} (hI : PInv s r0 st p)
    {indent start stop : Nat} {nb : Bool} {term : Termination} {st2 : PatState} {q : Nat}
    (h2 : st2Of s st p indent start stop nb term = some st2)
    (hne : (start != stop || (st.role == .lineStart && term == .placeableStart && start == stop)) = true)
    (hcond : (st.role != .lineStart || nb || term == .lineFeed ||
      (st.role == .lineStart && term == .placeableStart && start == stop)) = true)
    (e : Placeholder)
    (he : elOf st p indent stop nb (st.role == .lineStart && term == .placeableStart && start == stop) = some e)
    (hok : okPh s (endSt s (.first r0) st.elements) e)
    (hci : (if st.role == .lineStart && (nb || (st.role == .lineStart && term == .placeableStart && start == stop))
        then stepMin st.commonIndent indent else st.commonIndent) =
      minL (lineInds s (.first r0) st.elements ++ lineInd s (endSt s (.first r0) st.elements) e))
    (hsv : survivesOf s start stop nb = some true → Surv s e)
    (hrole : RoleOK s (nxt s e) (pRoleOf term) q) : PInv s r0 { st2 with role := pRoleOf term } q := by
  obtain ⟨e', sv, he', hsv', rfl⟩ := st2Of_push hne hcond h2
  rw [he] at he'
  cases he'
  exact push_pinv hI e _ sv (pRoleOf term) q hok hci (fun h => hsv (by rw [hsv', h])) hrole

end FluentProofs.Ser
