import FluentProofs.ParserHoareEntry
import FluentProofs.ParserRuntime
/-!
# Line structure of the two entry loops (C03 line-start / error-position part, C05 simulation basics)

Everything here is hypothesis-free (any byte array, any fuel): the facts are about runs that
ended in `ok`/`err`/`done`.

* `LS s p`: `p` is the start of a line; `LSE`: line start or at/after the end of input;
  `NextOk`: additionally "at a `\n` byte" (what `get_comment`/`skip_comment` may leave behind, and
  what `skip_blank_block` repairs).
* `RealStart s x`: a line start whose byte is `[a-zA-Z]` or `-` (where a message or term can begin);
  `NoRS s a b`: no such position in `[a, b)`.
* `Mono p r`: the outcome `r` of a parser function started at `p` has its `ok` cursor and its
  error position at or after `p`.
-/
namespace FluentProofs.Parser
open FluentModel.Syntax

/-- `p` is the start of a line -/
def LS (s : Src) (p : Nat) : Prop := p = 0 ∨ s[p - 1]? = some 10
/-- a line start, or at/after the end of input -/
def LSE (s : Src) (p : Nat) : Prop := LS s p ∨ s.size ≤ p
/-- a line start, the end of input, or at a `\n` byte -/
def NextOk (s : Src) (q : Nat) : Prop := LS s q ∨ s.size ≤ q ∨ s[q]? = some 10

theorem LSE.next {s : Src} {q : Nat} (h : LSE s q) : NextOk s q := by
  rcases h with h | h
  · exact Or.inl h
  · exact Or.inr (Or.inl h)

theorem LS_zero (s : Src) : LS s 0 := Or.inl rfl

theorem LS_succ {s : Src} {p : Nat} (h : s[p]? = some 10) : LS s (p + 1) := Or.inr (by simpa using h)

theorem skipEol_LS {s : Src} {p q : Nat} (h : skipEol s p = some q) : LS s q :=
  Or.inr (skipEol_some h).2.1

theorem skipBlankInline_of_ne {s : Src} {q : Nat} (h : s[q]? ≠ some 32) : skipBlankInline s q = q := by
  unfold skipBlankInline
  cases (s.size - q) with
  | zero => rfl
  | succ n => simp [skipBlankInlineGo, h]

theorem skipBlankBlockGo_LS (s : Src) (n p c : Nat) :
    (skipBlankBlockGo s n p c).1 = p ∨ LS s (skipBlankBlockGo s n p c).1 ∨ s.size ≤ (skipBlankBlockGo s n p c).1 := by
  induction n generalizing p c with
  | zero => left; rfl
  | succ n ih =>
    simp only [skipBlankBlockGo]
    split
    · rename_i p' h
      right
      rcases ih p' (c + 1) with h1 | h1 | h1
      · rw [h1]; exact Or.inl (skipEol_LS h)
      · exact Or.inl h1
      · exact Or.inr h1
    · split
      · left; rfl
      · right; right; simp only []; omega

/-- `skip_blank_block` turns every cursor an entry parser can leave behind into a line start (or EOF) -/
theorem skipBlankBlock_LSE {s : Src} {q : Nat} (h : NextOk s q) : LSE s (skipBlankBlock s q).1 := by
  rcases h with h | h | h
  · rcases skipBlankBlockGo_LS s (s.size - q + 1) q 0 with h1 | h1 | h1
    · unfold skipBlankBlock; rw [h1]; exact Or.inl h
    · exact Or.inl h1
    · exact Or.inr h1
  · rcases skipBlankBlockGo_LS s (s.size - q + 1) q 0 with h1 | h1 | h1
    · unfold skipBlankBlock; rw [h1]; exact Or.inr h
    · exact Or.inl h1
    · exact Or.inr h1
  · unfold skipBlankBlock
    simp only [skipBlankBlockGo]
    have h32 : s[q]? ≠ some 32 := by rw [h]; decide
    rw [skipBlankInline_of_ne h32]
    have he : skipEol s q = some (q + 1) := by simp [skipEol, h]
    simp only [he]
    rcases skipBlankBlockGo_LS s (s.size - q) (q + 1) 1 with h1 | h1 | h1
    · rw [h1]; exact Or.inl (LS_succ h)
    · exact Or.inl h1
    · exact Or.inr h1

/-! ### positions where a message or term can start -/

def isReal (b : UInt8) : Bool := isAlpha b || b == 45

/-- a line start holding a byte a message (`[a-zA-Z]`) or term (`-`) can begin with -/
def RealStart (s : Src) (x : Nat) : Prop := LS s x ∧ ∃ b, s[x]? = some b ∧ isReal b = true

/-- no message/term start in `[a, b)` -/
def NoRS (s : Src) (a b : Nat) : Prop := ∀ x, a ≤ x → x < b → ¬ RealStart s x

theorem NoRS.refl (s : Src) (a : Nat) : NoRS s a a := fun x h1 h2 => by omega

theorem NoRS.trans {s : Src} {a b c : Nat} (h1 : NoRS s a b) (h2 : NoRS s b c) : NoRS s a c := by
  intro x hx1 hx2
  by_cases h : x < b
  · exact h1 x hx1 h
  · exact h2 x (by omega) hx2

theorem NoRS.mono {s : Src} {a b a' b' : Nat} (h : NoRS s a b) (ha : a ≤ a') (hb : b' ≤ b) : NoRS s a' b' :=
  fun x h1 h2 => h x (by omega) (by omega)

theorem noRS_of_bytes {s : Src} {a b : Nat} (h : ∀ x, a ≤ x → x < b → ∀ c, s[x]? = some c → isReal c = false) :
    NoRS s a b := by
  intro x h1 h2 ⟨_, c, hc, hr⟩
  rw [h x h1 h2 c hc] at hr
  cases hr

/-- no line start strictly inside a newline-free stretch -/
theorem noRS_of_noNl {s : Src} {a b : Nat} (h : ∀ j, a ≤ j → j < b → s[j]? ≠ some 10) : NoRS s (a + 1) (b + 1) := by
  intro x h1 h2 ⟨hls, _⟩
  rcases hls with h0 | h0
  · omega
  · exact h (x - 1) (by omega) (by omega) h0

theorem noRS_single {s : Src} {a : Nat} (h : ¬ RealStart s a) : NoRS s a (a + 1) := by
  intro x h1 h2
  have : x = a := by omega
  subst this; exact h

theorem skipBlankInline_noRS (s : Src) (p : Nat) : NoRS s p (skipBlankInline s p) :=
  noRS_of_bytes fun x h1 h2 c hc => by
    have := skipBlankInline_spaces s p x h1 h2
    rw [this] at hc
    cases hc; decide

theorem skipEol_noRS {s : Src} {p q : Nat} (h : skipEol s p = some q) : NoRS s p q := by
  apply noRS_of_bytes
  intro x h1 h2 c hc
  unfold skipEol at h
  split at h
  · rename_i h0
    simp at h; subst h
    have : x = p := by omega
    subst this; rw [h0] at hc; cases hc; decide
  · rename_i h0
    split at h <;> simp at h
    rename_i h1'
    subst h
    have h1' : s[p + 1]? = some 10 := by simpa using h1'
    by_cases hx : x = p
    · subst hx; rw [h0] at hc; cases hc; decide
    · have : x = p + 1 := by omega
      subst this; rw [h1'] at hc; cases hc; decide
  · simp at h

theorem skipBlankBlockGo_noRS (s : Src) (n p c : Nat) : NoRS s p (skipBlankBlockGo s n p c).1 := by
  induction n generalizing p c with
  | zero => exact NoRS.refl _ _
  | succ n ih =>
    simp only [skipBlankBlockGo]
    split
    · rename_i p' h
      exact ((skipBlankInline_noRS s p).trans (skipEol_noRS h)).trans (ih p' (c + 1))
    · split
      · exact NoRS.refl _ _
      · exact skipBlankInline_noRS s p

theorem skipBlankBlock_noRS (s : Src) (p : Nat) : NoRS s p (skipBlankBlock s p).1 :=
  skipBlankBlockGo_noRS s _ p 0

theorem skipBlankBlock_le (s : Src) (p : Nat) : p ≤ (skipBlankBlock s p).1 := (skipBlankBlock_after s p).le

/-! ### junk recovery -/

theorem skipToNextEntryStartGo_le (s : Src) (n p : Nat) : p ≤ skipToNextEntryStartGo s n p := by
  induction n generalizing p with
  | zero => exact Nat.le_refl _
  | succ n ih =>
    simp only [skipToNextEntryStartGo]
    split
    · exact Nat.le_refl _
    · split
      · exact Nat.le_refl _
      · have := ih (p + 1); omega

theorem isReal_entry {b : UInt8} (h : isReal b = true) : (isAlpha b || b == 45 || b == 35) = true := by
  unfold isReal at h; simp [h]

theorem skipToNextEntryStartGo_noRS (s : Src) (n p : Nat) : NoRS s p (skipToNextEntryStartGo s n p) := by
  induction n generalizing p with
  | zero => exact NoRS.refl _ _
  | succ n ih =>
    simp only [skipToNextEntryStartGo]
    split
    · exact NoRS.refl _ _
    · rename_i b hb
      split
      · exact NoRS.refl _ _
      · rename_i hc
        refine (noRS_single ?_).trans (ih (p + 1))
        intro ⟨hls, b', hb', hr⟩
        rw [hb] at hb'; cases hb'
        apply hc
        have hnl : (p == 0 || s[p - 1]? == some 10) = true := by
          rcases hls with h | h
          · simp [h]
          · simp [h]
        simp only [hnl, isReal_entry hr, Bool.and_self]

theorem rposNewlineGo_some' {s : Src} {a n b nl : Nat} (h : rposNewlineGo s a n b = some nl) :
    a ≤ nl ∧ nl < b ∧ s[nl]? = some 10 := by
  induction n generalizing b with
  | zero => simp [rposNewlineGo] at h
  | succ n ih =>
    simp only [rposNewlineGo] at h
    split at h
    · split at h
      · rename_i h1 h2
        simp at h; subst h
        exact ⟨by omega, by omega, by simpa using h2⟩
      · have := ih h; exact ⟨this.1, by omega, this.2.2⟩
    · simp at h

/-- junk recovery never moves before the entry start, and ends at a line start or the end of input -/
theorem skipToNextEntryStart_ge {s : Src} {entryStart q q1 : Nat} (h : skipToNextEntryStart s entryStart q = some q1) :
    entryStart ≤ q1 := by
  unfold skipToNextEntryStart at h
  simp only at h
  split at h
  · rename_i hle
    simp only [Option.some.injEq] at h
    subst h
    split
    · rename_i nl hnl
      have := rposNewlineGo_some' hnl
      have := skipToNextEntryStartGo_le s (s.size - (nl + 1)) (nl + 1)
      omega
    · have := skipToNextEntryStartGo_le s (s.size - q) q
      have : min q s.size ≤ q := Nat.min_le_left _ _
      omega
  · cases h

theorem endsAtEntryStart_LSE {s : Src} {b : Nat} (h : EndsAtEntryStart s b) : LSE s b := by
  rcases h with h | ⟨c, _, _, h⟩
  · exact Or.inr h
  · exact Or.inl h

theorem skipToNextEntryStart_LSE {s : Src} {entryStart q q1 : Nat} (h : skipToNextEntryStart s entryStart q = some q1) :
    LSE s q1 := endsAtEntryStart_LSE (skipToNextEntryStart_ends s entryStart q q1 h)

/-! ### cursors and error positions never move before the start (`Mono`) -/

/-- the `ok` cursor and the error position of an outcome are at or after `p` -/
def Mono {α : Type} (p : Nat) (r : R α) : Prop :=
  match r with
  | .ok _ q => p ≤ q
  | .err e _ => p ≤ e.posStart
  | .panic _ => True
  | .fuel => True

@[simp] theorem mono_ok {α : Type} (p : Nat) (a : α) (q : Nat) : Mono p (.ok a q : R α) ↔ p ≤ q := Iff.rfl
@[simp] theorem mono_err {α : Type} (p : Nat) (e : PErr) (q : Nat) : Mono p (.err e q : R α) ↔ p ≤ e.posStart := Iff.rfl
@[simp] theorem mono_panic {α : Type} (p : Nat) (m : String) : Mono p (.panic m : R α) ↔ True := Iff.rfl
@[simp] theorem mono_fuel {α : Type} (p : Nat) : Mono p (.fuel : R α) ↔ True := Iff.rfl

theorem Mono.cases {α : Type} {p : Nat} {r : R α} (h : Mono p r) :
    (∃ a q, r = .ok a q ∧ p ≤ q) ∨ (∃ e q, r = .err e q ∧ p ≤ e.posStart) ∨ (∃ m, r = .panic m) ∨ r = .fuel := by
  cases r with
  | ok a q => exact Or.inl ⟨a, q, rfl, h⟩
  | err e q => exact Or.inr (Or.inl ⟨e, q, rfl, h⟩)
  | panic m => exact Or.inr (Or.inr (Or.inl ⟨m, rfl⟩))
  | fuel => exact Or.inr (Or.inr (Or.inr rfl))

theorem Mono.weaken {α : Type} {p p' : Nat} {r : R α} (h : Mono p r) (hp : p' ≤ p) : Mono p' r := by
  cases r <;> simp only [mono_ok, mono_err, mono_panic, mono_fuel] at h ⊢ <;> omega

/-- closes `Mono` goals on constructor outcomes -/
macro "mono_close" : tactic =>
  `(tactic| first
    | trivial
    | (simp only [↓reduceIte, Bool.false_eq_true, mono_ok, mono_err, mono_panic, mono_fuel, mkErr, mkErr2]; omega)
    | omega)

theorem expectByte_mono (s : Src) (p : Nat) (b : UInt8) : Mono p (expectByte s p b) := by
  unfold expectByte
  split <;> mono_close

theorem takeByteIf_le (s : Src) (p : Nat) (b : UInt8) : p ≤ (takeByteIf s p b).1 := by
  unfold takeByteIf; split <;> simp

theorem scanWhileGo_le (s : Src) (pred : UInt8 → Bool) (n p : Nat) : p ≤ scanWhileGo s pred n p := by
  induction n generalizing p with
  | zero => exact Nat.le_refl _
  | succ n ih =>
    simp only [scanWhileGo]
    split
    · split
      · have := ih (p + 1); omega
      · exact Nat.le_refl _
    · exact Nat.le_refl _

theorem scanWhile_le (s : Src) (pred : UInt8 → Bool) (p : Nat) : p ≤ scanWhile s pred p := scanWhileGo_le s pred _ p

theorem skipDigits_mono (s : Src) (p : Nat) : Mono p (skipDigits s p) := by
  unfold skipDigits
  have := scanWhile_le s isDigit p
  simp only []
  split <;> mono_close

theorem getNumberLiteral_mono (s : Src) (p : Nat) : Mono p (getNumberLiteral s p) := by
  unfold getNumberLiteral
  have h0 := takeByteIf_le s p 45
  generalize takeByteIf s p 45 = t at h0 ⊢
  obtain ⟨p1, d1⟩ := t
  simp only [] at h0 ⊢
  rcases (skipDigits_mono s p1).cases with ⟨_, p2, hr, h1⟩ | ⟨e, q, hr, h1⟩ | ⟨m, hr⟩ | hr <;> simp only [hr] <;>
    try mono_close
  have h2 := takeByteIf_le s p2 46
  generalize takeByteIf s p2 46 = t at h2 ⊢
  obtain ⟨p3, dot⟩ := t
  simp only [] at h2 ⊢
  split
  · rcases (skipDigits_mono s p3).cases with ⟨_, p4, hr, h3⟩ | ⟨e, q, hr, h3⟩ | ⟨m, hr⟩ | hr <;> simp only [hr] <;>
      try mono_close
    split <;> mono_close
  · split <;> mono_close

theorem getIdentifierUnchecked_mono (s : Src) (p : Nat) : Mono p (getIdentifierUnchecked s p) := by
  unfold getIdentifierUnchecked
  have := scanWhile_le s isIdentByte p
  simp only []
  split
  · mono_close
  · split <;> mono_close

theorem getIdentifier_mono (s : Src) (p : Nat) : Mono p (getIdentifier s p) := by
  unfold getIdentifier
  split
  · mono_close
  · exact (getIdentifierUnchecked_mono s (p + 1)).weaken (by omega)

/-- an identifier consumes at least one byte -/
theorem getIdentifier_ok_lt {s : Src} {p : Nat} {id : Span} {q : Nat} (h : getIdentifier s p = .ok id q) : p < q := by
  unfold getIdentifier at h
  split at h
  · cases h
  · have := getIdentifierUnchecked_mono s (p + 1)
    rw [h] at this
    simp only [mono_ok] at this; omega

theorem getAttributeAccessor_mono (s : Src) (p : Nat) : Mono p (getAttributeAccessor s p) := by
  unfold getAttributeAccessor
  have h0 := takeByteIf_le s p 46
  generalize takeByteIf s p 46 = t at h0 ⊢
  obtain ⟨p1, dot⟩ := t
  simp only [] at h0 ⊢
  split
  · rcases (getIdentifier_mono s p1).cases with ⟨_, p2, hr, h1⟩ | ⟨e, q, hr, h1⟩ | ⟨m, hr⟩ | hr <;> simp only [hr] <;>
      mono_close
  · mono_close

theorem skipHexGo_le (s : Src) (n p : Nat) : p ≤ skipHexGo s n p := (skipHexGo_after s n p).le

theorem skipUnicodeEscapeSequence_mono (s : Src) (p len : Nat) : Mono p (skipUnicodeEscapeSequence s p len) := by
  unfold skipUnicodeEscapeSequence
  have := skipHexGo_le s len p
  simp only []
  split
  · split <;> mono_close
  · mono_close

theorem scanStringGo_mono (s : Src) (n p : Nat) : Mono p (scanStringGo s n p) := by
  induction n generalizing p with
  | zero => simp [scanStringGo]
  | succ n ih =>
    simp only [scanStringGo]
    split
    · mono_close
    · split
      · exact (ih (p + 2)).weaken (by omega)
      · exact (ih (p + 2)).weaken (by omega)
      · rcases (skipUnicodeEscapeSequence_mono s (p + 2) 4).cases with ⟨_, q, hr, h1⟩ | ⟨e, q, hr, h1⟩ | ⟨m, hr⟩ | hr <;>
          simp only [hr] <;> try mono_close
        exact (ih q).weaken (by omega)
      · rcases (skipUnicodeEscapeSequence_mono s (p + 2) 6).cases with ⟨_, q, hr, h1⟩ | ⟨e, q, hr, h1⟩ | ⟨m, hr⟩ | hr <;>
          simp only [hr] <;> try mono_close
        exact (ih q).weaken (by omega)
      · mono_close
    · mono_close
    · mono_close
    · exact (ih (p + 1)).weaken (by omega)

theorem scanString_mono (s : Src) (p : Nat) : Mono p (scanString s p) := scanStringGo_mono s _ p

theorem memchr3Go_ge {s : Src} {n p e : Nat} (h : memchr3Go s n p = some e) : p ≤ e := (memchr3Go_some h).1

theorem getTextSlice_mono (s : Src) (p : Nat) : Mono p (getTextSlice s p) := by
  unfold getTextSlice
  split
  · mono_close
  · split
    · mono_close
    · rename_i e he
      have := memchr3Go_ge he
      split
      · mono_close
      · split <;> mono_close
      · mono_close
      · mono_close

/-- joint `Mono` specification of the eight mutually recursive functions at fuel `n` -/
structure MSpecs (s : Src) (n : Nat) : Prop where
  patternLoop : ∀ st p, Mono p (getPatternLoop s n st p)
  pattern : ∀ p, Mono p (getPattern s n p)
  placeable : ∀ p, Mono p (getPlaceable s n p)
  expression : ∀ p, Mono p (getExpression s n p)
  inline : ∀ ol p, Mono p (getInline s n ol p)
  callArguments : ∀ p, Mono p (getCallArguments s n p)
  callArgsLoop : ∀ pos named p, Mono p (getCallArgsLoop s n pos named p)
  variants : ∀ hd acc p, Mono p (getVariants s n hd acc p)

theorem placeable_mono_step {s : Src} {n : Nat} (IH : MSpecs s n) (p : Nat) : Mono p (getPlaceable s (n + 1) p) := by
  simp only [getPlaceable]
  have h0 := (skipBlank_after s p).le
  rcases (IH.expression (skipBlank s p)).cases with ⟨e, q, hr, h1⟩ | ⟨e, q, hr, h1⟩ | ⟨m, hr⟩ | hr <;> simp only [hr] <;>
    try mono_close
  have h2 := (skipBlankInline_after s q).le
  rcases (expectByte_mono s (skipBlankInline s q) 125).cases with ⟨_, q2, hr2, h3⟩ | ⟨e2, q2, hr2, h3⟩ | ⟨m, hr2⟩ | hr2 <;>
    simp only [hr2] <;> try mono_close
  split <;> mono_close

theorem pattern_mono_step {s : Src} {n : Nat} (IH : MSpecs s n) (p : Nat) : Mono p (getPattern s (n + 1) p) := by
  have key : ∀ role p2, p ≤ p2 →
      Mono p (match getPatternLoop s n ⟨[], none, none, role, none⟩ p2 with
        | .ok st q =>
          (match st.lastNonBlank with
           | some lnb =>
             (match finishElements s st.keptCommonIndent lnb 0 st.elements with
              | some els => .ok (some els) q
              | none => .panic "get_pattern slice")
           | none => .ok none q)
        | .err e q => .err e q
        | .panic m => .panic m
        | .fuel => .fuel) := by
    intro role p2 hle
    rcases (IH.patternLoop ⟨[], none, none, role, none⟩ p2).cases with ⟨st, q, hr, h1⟩ | ⟨e, q, hr, h1⟩ | ⟨m, hr⟩ | hr <;>
      simp only [hr] <;> try mono_close
    split
    · split <;> mono_close
    · mono_close
  simp only [getPattern]
  have hA1 := (skipBlankInline_after s p).le
  cases hE : skipEol s (skipBlankInline s p) with
  | none => exact key _ _ hA1
  | some q =>
    have h1 := (skipEol_after hE).le
    have h2 := skipBlankBlock_le s q
    have h3 : p ≤ (skipBlankBlock s q).1 := by omega
    exact key _ _ h3

theorem callArguments_mono_step {s : Src} {n : Nat} (IH : MSpecs s n) (p : Nat) :
    Mono p (getCallArguments s (n + 1) p) := by
  simp only [getCallArguments]
  have h1 := (skipBlank_after s p).le
  rcases takeByteIf_cases s (skipBlank s p) 40 with ⟨h, h'⟩ | ⟨h, _⟩ <;> rw [h] <;> simp only []
  · have h3 := (skipBlank_after s (skipBlank s p + 1)).le
    simp only [Bool.not_true, Bool.false_eq_true, if_false]
    rcases (IH.callArgsLoop [] [] (skipBlank s (skipBlank s p + 1))).cases with
      ⟨⟨pos, named⟩, q, hr, h5⟩ | ⟨e, q, hr, h5⟩ | ⟨m, hr⟩ | hr <;> simp only [hr] <;> try mono_close
    rcases (expectByte_mono s q 41).cases with ⟨_, q2, hr2, h8⟩ | ⟨e2, q2, hr2, h8⟩ | ⟨m, hr2⟩ | hr2 <;>
      simp only [hr2] <;> mono_close
  · simp; omega

theorem expression_mono_step {s : Src} {n : Nat} (IH : MSpecs s n) (p : Nat) : Mono p (getExpression s (n + 1) p) := by
  simp only [getExpression]
  rcases (IH.inline false p).cases with ⟨exp, q, hr, h1⟩ | ⟨e, q, hr, h1⟩ | ⟨m, hr⟩ | hr <;> simp only [hr] <;>
    try mono_close
  have h5 := (skipBlank_after s q).le
  split
  · split <;> mono_close
  · split
    · mono_close
    · have h7 := (skipBlankInline_after s (skipBlank s q + 2)).le
      split
      · mono_close
      · rename_i q3 hq3
        have h8 := (skipEol_after hq3).le
        have h9 := (skipBlank_after s q3).le
        rcases (IH.variants false [] (skipBlank s q3)).cases with ⟨vs, q5, hr5, h11⟩ | ⟨e, q5, hr5, h11⟩ | ⟨m, hr5⟩ | hr5 <;>
          simp only [hr5] <;> mono_close

theorem variantKey_mono (s : Src) (p : Nat) : Mono p (variantKey s p) := by
  unfold variantKey
  split
  · rcases (getNumberLiteral_mono s p).cases with ⟨sp, q, hr, h1⟩ | ⟨e, q, hr, h1⟩ | ⟨m, hr⟩ | hr <;> simp only [hr] <;>
      mono_close
  · rcases (getIdentifier_mono s p).cases with ⟨sp, q, hr, h1⟩ | ⟨e, q, hr, h1⟩ | ⟨m, hr⟩ | hr <;> simp only [hr] <;>
      mono_close

theorem variants_mono_step {s : Src} {n : Nat} (IH : MSpecs s n) (hd : Bool) (acc : List (Variant Span)) (p : Nat) :
    Mono p (getVariants s (n + 1) hd acc p) := by
  simp only [getVariants]
  have h1 := takeByteIf_le s p 42
  generalize takeByteIf s p 42 = t at h1 ⊢
  obtain ⟨p1, dflt⟩ := t
  simp only [] at h1 ⊢
  split
  · mono_close
  · rcases takeByteIf_cases s p1 91 with ⟨h, h'⟩ | ⟨h, _⟩ <;> rw [h] <;> simp only []
    · simp only [Bool.not_true, Bool.false_eq_true, if_false]
      have h3 := (skipBlank_after s (p1 + 1)).le
      have hk := variantKey_mono s (skipBlank s (p1 + 1))
      split
      · rename_i key q heq
        rw [show variantKey s (skipBlank s (p1 + 1)) = R.ok key q from heq] at hk
        simp only [mono_ok] at hk
        have h9 := (skipBlank_after s q).le
        rcases (expectByte_mono s (skipBlank s q) 93).cases with ⟨_, q2, hr2, h11⟩ | ⟨e2, q2, hr2, h11⟩ | ⟨m, hr2⟩ | hr2 <;>
          simp only [hr2] <;> try mono_close
        rcases (IH.pattern q2).cases with ⟨o, q3, hr3, h15⟩ | ⟨e3, q3, hr3, h15⟩ | ⟨m, hr3⟩ | hr3 <;>
          simp only [hr3] <;> try mono_close
        cases o with
        | none => mono_close
        | some value =>
          simp only []
          have h19 := (skipBlank_after s q3).le
          exact (IH.variants _ _ (skipBlank s q3)).weaken (by omega)
      · rename_i e q heq
        rw [show variantKey s (skipBlank s (p1 + 1)) = R.err e q from heq] at hk
        simp only [mono_err] at hk
        mono_close
      · mono_close
      · mono_close
    · simp only [Bool.not_false, if_true]
      (repeat' split) <;> mono_close

theorem callArgsLoop_mono_step {s : Src} {n : Nat} (IH : MSpecs s n)
    (pos : List (Inline Span)) (named : List (Span × Inline Span)) (p : Nat) :
    Mono p (getCallArgsLoop s (n + 1) pos named p) := by
  simp only [getCallArgsLoop]
  split
  · split
    · mono_close
    · have next_ok : ∀ pos' named' q', p ≤ q' →
          Mono p (getCallArgsLoop s n pos' named' (skipBlank s (takeByteIf s (skipBlank s q') 44).fst)) := by
        intro pos' named' q' h1
        have h2 := (skipBlank_after s q').le
        have h3 := takeByteIf_le s (skipBlank s q') 44
        have h4 := (skipBlank_after s (takeByteIf s (skipBlank s q') 44).fst).le
        exact (IH.callArgsLoop pos' named' _).weaken (by omega)
      rcases (IH.inline false p).cases with ⟨exp, q, hr, h1⟩ | ⟨e, q, hr, h1⟩ | ⟨m, hr⟩ | hr <;> simp only [hr] <;>
        try mono_close
      have h5 := (skipBlank_after s q).le
      split
      · rename_i id
        split
        · split
          · mono_close
          · have h7 := (skipBlank_after s (skipBlank s q + 1)).le
            rcases (IH.inline true (skipBlank s (skipBlank s q + 1))).cases with
              ⟨val, q3, hr3, h9⟩ | ⟨e, q3, hr3, h9⟩ | ⟨m, hr3⟩ | hr3 <;> simp only [hr3] <;> try mono_close
            exact next_ok _ _ q3 (by omega)
        · split
          · mono_close
          · exact next_ok _ _ _ (by omega)
      · split
        · mono_close
        · exact next_ok _ _ _ (by omega)
  · mono_close

theorem inline_mono_step {s : Src} {n : Nat} (IH : MSpecs s n) (ol : Bool) (p : Nat) :
    Mono p (getInline s (n + 1) ol p) := by
  simp only [getInline]
  have hfb : Mono p (if ol = true then (R.err (mkErr .expectedLiteral p) p : R (Inline Span))
      else .err (mkErr .expectedInlineExpression p) p) := by
    split <;> mono_close
  split
  · exact hfb
  · rename_i b hb
    split
    · rcases (scanString_mono s (p + 1)).cases with ⟨_, q, hr, h1⟩ | ⟨e, q, hr, h1⟩ | ⟨m, hr⟩ | hr <;> simp only [hr] <;>
        try mono_close
      rcases (expectByte_mono s q 34).cases with ⟨_, q1, hr1, h3⟩ | ⟨e, q1, hr1, h3⟩ | ⟨m, hr1⟩ | hr1 <;> simp only [hr1] <;>
        try mono_close
      split
      · mono_close
      · split <;> mono_close
    · split
      · rcases (getNumberLiteral_mono s p).cases with ⟨sp, q, hr, h1⟩ | ⟨e, q, hr, h1⟩ | ⟨m, hr⟩ | hr <;> simp only [hr] <;>
          mono_close
      · split
        · split
          · rcases (getIdentifierUnchecked_mono s (p + 2)).cases with ⟨id, q, hr, h1⟩ | ⟨e, q, hr, h1⟩ | ⟨m, hr⟩ | hr <;>
              simp only [hr] <;> try mono_close
            rcases (getAttributeAccessor_mono s q).cases with ⟨attr, q1, hr1, h6⟩ | ⟨e, q1, hr1, h6⟩ | ⟨m, hr1⟩ | hr1 <;>
              simp only [hr1] <;> try mono_close
            rcases (IH.callArguments q1).cases with ⟨args, q2, hr2, h9⟩ | ⟨e, q2, hr2, h9⟩ | ⟨m, hr2⟩ | hr2 <;>
              simp only [hr2] <;> mono_close
          · rcases (getNumberLiteral_mono s p).cases with ⟨sp, q, hr, h1⟩ | ⟨e, q, hr, h1⟩ | ⟨m, hr⟩ | hr <;>
              simp only [hr] <;> mono_close
        · split
          · rcases (getIdentifier_mono s (p + 1)).cases with ⟨id, q, hr, h1⟩ | ⟨e, q, hr, h1⟩ | ⟨m, hr⟩ | hr <;>
              simp only [hr] <;> mono_close
          · split
            · rcases (getIdentifierUnchecked_mono s (p + 1)).cases with ⟨id, q, hr, h1⟩ | ⟨e, q, hr, h1⟩ | ⟨m, hr⟩ | hr <;>
                simp only [hr] <;> try mono_close
              rcases (IH.callArguments q).cases with ⟨args, q1, hr1, h6⟩ | ⟨e, q1, hr1, h6⟩ | ⟨m, hr1⟩ | hr1 <;>
                simp only [hr1] <;> try mono_close
              cases args with
              | some pn =>
                obtain ⟨pos, named⟩ := pn
                simp only []
                split <;> mono_close
              | none =>
                simp only []
                rcases (getAttributeAccessor_mono s q1).cases with ⟨attr, q2, hr2, h9⟩ | ⟨e, q2, hr2, h9⟩ | ⟨m, hr2⟩ | hr2 <;>
                  simp only [hr2] <;> mono_close
            · split
              · rcases (IH.placeable (p + 1)).cases with ⟨e, q, hr, h1⟩ | ⟨e, q, hr, h1⟩ | ⟨m, hr⟩ | hr <;>
                  simp only [hr] <;> mono_close
              · exact hfb

theorem patternLoop_mono_step {s : Src} {n : Nat} (IH : MSpecs s n) (st : PatState) (p : Nat) :
    Mono p (getPatternLoop s (n + 1) st p) := by
  simp only [getPatternLoop]
  split
  · split
    · rcases (IH.placeable (p + 1)).cases with ⟨e, q, hr, h1⟩ | ⟨e, q, hr, h1⟩ | ⟨m, hr⟩ | hr <;>
        simp only [hr] <;> try mono_close
      exact (IH.patternLoop _ q).weaken (by omega)
    · have hle := (skipBlankInline_after s p).le
      split
      · simp only [mono_ok]
        split
        · split
          · exact hle
          · split
            · exact Nat.le_refl _
            · exact hle
        · exact hle
      · rename_i indent p1 hpre
        have hp1 : p ≤ p1 := by
          split at hpre
          · split at hpre
            · split at hpre <;> split at hpre <;> simp at hpre <;> obtain ⟨_, rfl⟩ := hpre <;> exact hle
            · simp at hpre
          · simp at hpre
            obtain ⟨_, rfl⟩ := hpre
            exact Nat.le_refl _
        clear hpre
        rcases (getTextSlice_mono s p1).cases with ⟨⟨start, stop, nb, term⟩, q, hr, h1⟩ | ⟨e, q, hr, h1⟩ | ⟨m, hr⟩ | hr <;>
          simp only [hr] <;> try mono_close
        split
        · exact (IH.patternLoop _ q).weaken (by omega)
        · mono_close
  · mono_close

theorem mspecs_all (s : Src) (n : Nat) : MSpecs s n := by
  induction n with
  | zero =>
    refine ⟨?_, ?_, ?_, ?_, ?_, ?_, ?_, ?_⟩ <;> intros <;>
      simp [getPatternLoop, getPattern, getPlaceable, getExpression, getInline, getCallArguments, getCallArgsLoop,
        getVariants]
  | succ n ih =>
    exact {
      patternLoop := fun st p => patternLoop_mono_step ih st p
      pattern := fun p => pattern_mono_step ih p
      placeable := fun p => placeable_mono_step ih p
      expression := fun p => expression_mono_step ih p
      inline := fun ol p => inline_mono_step ih ol p
      callArguments := fun p => callArguments_mono_step ih p
      callArgsLoop := fun pos named p => callArgsLoop_mono_step ih pos named p
      variants := fun hd acc p => variants_mono_step ih hd acc p }

theorem getPattern_mono (s : Src) (fuel p : Nat) : Mono p (getPattern s fuel p) := (mspecs_all s fuel).pattern p

/-! ### where a pattern can end -/

theorem getTextSlice_term {s : Src} {p start stop : Nat} {nb : Bool} {term : Termination} {q : Nat}
    (h : getTextSlice s p = .ok (start, stop, nb, term) q) :
    (term = .lineFeed → LS s q) ∧ (term = .crlf → s[q]? = some 10) := by
  unfold getTextSlice at h
  split at h
  · simp at h; obtain ⟨⟨_, _, _, rfl⟩, _⟩ := h; simp
  · split at h
    · simp at h; obtain ⟨⟨_, _, _, rfl⟩, _⟩ := h; simp
    · rename_i e he
      split at h
      · cases h
      · rename_i h10
        split at h
        · simp at h; obtain ⟨⟨_, _, _, rfl⟩, rfl⟩ := h; simp [h10]
        · simp at h; obtain ⟨⟨_, _, _, rfl⟩, rfl⟩ := h; simp; exact LS_succ h10
      · simp at h; obtain ⟨⟨_, _, _, rfl⟩, _⟩ := h; simp
      · cases h

theorem getPatternLoop_LSE (s : Src) (n : Nat) (st : PatState) (p : Nat)
    (h : st.role = .lineStart → NextOk s p) :
    ∀ st' q, getPatternLoop s n st p = .ok st' q → LSE s q := by
  induction n generalizing st p with
  | zero => intro st' q hq; simp [getPatternLoop] at hq
  | succ n ih =>
    intro st' q hq
    simp only [getPatternLoop] at hq
    split at hq
    · rename_i hlt
      split at hq
      · split at hq
        · exact ih _ _ (by simp) st' q hq
        all_goals cases hq
      · split at hq
        · rename_i hpre
          have hle := (skipBlankInline_after s p).le
          have hsp := skipBlankInline_spaces s p
          split at hpre
          · rename_i hrole
            have hrole : st.role = .lineStart := by simpa using hrole
            have hls := h hrole
            cases hs1 : s[skipBlankInline s p]? with
            | none =>
              simp only [hs1, R.ok.injEq] at hq
              obtain ⟨_, rfl⟩ := hq
              right; simpa using hs1
            | some b =>
              simp only [hs1] at hq hpre
              by_cases hind : skipBlankInline s p - p = 0
              · simp only [hind, beq_self_eq_true, if_true, R.ok.injEq] at hq hpre
                obtain ⟨_, rfl⟩ := hq
                have hpp : skipBlankInline s p = p := by omega
                rw [hpp] at hpre ⊢
                left
                rcases hls with hls | hls | hls
                · exact hls
                · omega
                · have : isEol s p = true := by simp [isEol, hls]
                  simp [this] at hpre
              · have hne : (skipBlankInline s p - p == 0) = false := by simpa using hind
                simp only [hne, Bool.false_eq_true, if_false] at hq hpre
                split at hpre
                · rename_i hc
                  simp only [hc, if_true, R.ok.injEq] at hq
                  obtain ⟨_, rfl⟩ := hq
                  left
                  rcases hls with hls | hls | hls
                  · exact hls
                  · omega
                  · have := hsp p (Nat.le_refl _) (by omega)
                    rw [this] at hls; cases hls
                · cases hpre
          · cases hpre
        · rename_i indent p1 hpre
          split at hq
          · rename_i start stop nb term q' hts
            split at hq
            · refine ih _ _ ?_ st' q hq
              intro hrole
              have ht := getTextSlice_term hts
              cases term with
              | lineFeed => exact Or.inl (ht.1 rfl)
              | crlf => exact Or.inr (Or.inr (ht.2 rfl))
              | placeableStart => simp at hrole
              | eof => simp at hrole
            · cases hq
          all_goals cases hq
    · cases hq; exact Or.inr (by omega)

theorem getPattern_LSE {s : Src} {n p : Nat} {o : Option (Pattern Span)} {q : Nat}
    (h : getPattern s n p = .ok o q) : LSE s q := by
  cases n with
  | zero => simp [getPattern] at h
  | succ n =>
    have key : ∀ role p2, (role = .lineStart → NextOk s p2) →
        (match getPatternLoop s n ⟨[], none, none, role, none⟩ p2 with
          | .ok st q =>
            (match st.lastNonBlank with
             | some lnb =>
               (match finishElements s st.keptCommonIndent lnb 0 st.elements with
                | some els => .ok (some els) q
                | none => .panic "get_pattern slice")
             | none => .ok none q)
          | .err e q => .err e q
          | .panic m => .panic m
          | .fuel => .fuel) = R.ok o q → LSE s q := by
      intro role p2 hrole hm
      split at hm
      · rename_i st q' hl
        have := getPatternLoop_LSE s n _ p2 hrole st q' hl
        split at hm
        · split at hm
          · cases hm; exact this
          · cases hm
        · cases hm; exact this
      all_goals cases hm
    simp only [getPattern] at h
    cases hE : skipEol s (skipBlankInline s p) with
    | none =>
      rw [hE] at h
      exact key _ _ (by simp) h
    | some q0 =>
      rw [hE] at h
      exact key _ _ (fun _ => (skipBlankBlock_LSE (Or.inl (skipEol_LS hE))).next) h

/-! ### attributes, messages, terms: cursor on success, error position on failure -/

theorem getAttribute_mono (s : Src) (fuel p : Nat) : Mono p (getAttribute s fuel p) := by
  unfold getAttribute
  rcases (getIdentifier_mono s p).cases with ⟨id, q, hr, h1⟩ | ⟨e, q, hr, h1⟩ | ⟨m, hr⟩ | hr <;> simp only [hr] <;>
    try mono_close
  have h2 := (skipBlankInline_after s q).le
  rcases (expectByte_mono s (skipBlankInline s q) 61).cases with ⟨_, q2, hr2, h3⟩ | ⟨e2, q2, hr2, h3⟩ | ⟨m, hr2⟩ | hr2 <;>
    simp only [hr2] <;> try mono_close
  rcases (getPattern_mono s fuel q2).cases with ⟨o, q3, hr3, h4⟩ | ⟨e3, q3, hr3, h4⟩ | ⟨m, hr3⟩ | hr3 <;>
    simp only [hr3] <;> try mono_close
  cases o <;> mono_close

theorem getAttribute_LSE {s : Src} {fuel p : Nat} {a : Attribute Span} {q : Nat}
    (h : getAttribute s fuel p = .ok a q) : LSE s q := by
  unfold getAttribute at h
  split at h
  · simp only [] at h
    split at h
    · split at h
      · rename_i hp; cases h; exact getPattern_LSE hp
      all_goals cases h
    all_goals cases h
  all_goals cases h

theorem getAttributesGo_post (s : Src) (fuel n : Nat) (acc : List (Attribute Span)) (p : Nat) (hp : LSE s p) :
    ∀ attrs q, getAttributesGo s fuel n acc p = .ok attrs q → p ≤ q ∧ LSE s q := by
  induction n generalizing acc p with
  | zero => intro attrs q h; simp [getAttributesGo] at h
  | succ n ih =>
    intro attrs q h
    simp only [getAttributesGo] at h
    split at h
    · cases h; exact ⟨Nat.le_refl _, hp⟩
    · split at h
      · rename_i a q' ha
        have h1 := (skipBlankInline_after s p).le
        have h2 := takeByteIf_le s (skipBlankInline s p) 46
        have h3 := getAttribute_mono s fuel (takeByteIf s (skipBlankInline s p) 46).fst
        rw [ha] at h3
        simp only [mono_ok] at h3
        have := ih _ q' (getAttribute_LSE ha) attrs q h
        exact ⟨by omega, this.2⟩
      · cases h; exact ⟨Nat.le_refl _, hp⟩
      · cases h
      · cases h

theorem getAttributesGo_noErr (s : Src) (fuel n : Nat) (acc : List (Attribute Span)) (p : Nat) :
    ∀ e q, getAttributesGo s fuel n acc p ≠ .err e q := by
  induction n generalizing acc p with
  | zero => intro e q h; simp [getAttributesGo] at h
  | succ n ih =>
    intro e q h
    simp only [getAttributesGo] at h
    split at h
    · cases h
    · split at h
      · exact ih _ _ e q h
      all_goals cases h

/-- postcondition of an entry parser started at `p`: on success the cursor is after `p` and satisfies
`Q`; the error position is at or after `lo` -/
def Post {α : Type} (Q : Nat → Prop) (p lo : Nat) (r : R α) : Prop :=
  match r with
  | .ok _ q => p < q ∧ Q q
  | .err e _ => lo ≤ e.posStart
  | .panic _ => True
  | .fuel => True

@[simp] theorem post_ok {α : Type} (Q : Nat → Prop) (p lo : Nat) (a : α) (q : Nat) :
    Post Q p lo (.ok a q : R α) ↔ (p < q ∧ Q q) := Iff.rfl
@[simp] theorem post_err {α : Type} (Q : Nat → Prop) (p lo : Nat) (e : PErr) (q : Nat) :
    Post Q p lo (.err e q : R α) ↔ lo ≤ e.posStart := Iff.rfl
@[simp] theorem post_panic {α : Type} (Q : Nat → Prop) (p lo : Nat) (m : String) :
    Post Q p lo (.panic m : R α) ↔ True := Iff.rfl
@[simp] theorem post_fuel {α : Type} (Q : Nat → Prop) (p lo : Nat) : Post Q p lo (.fuel : R α) ↔ True := Iff.rfl

macro "post_close" : tactic =>
  `(tactic| first
    | trivial
    | (simp only [↓reduceIte, Bool.false_eq_true, post_ok, post_err, post_panic, post_fuel, mkErr, mkErr2]; omega)
    | omega)

/-- `get_message` -/
theorem getMessage_post (s : Src) (fuel es p : Nat) (hes : p ≤ es) :
    Post (LSE s) p p (getMessage s fuel es p) := by
  unfold getMessage
  rcases (getIdentifier_mono s p).cases with ⟨id, q, hr, h1⟩ | ⟨e, q, hr, h1⟩ | ⟨m, hr⟩ | hr <;> simp only [hr] <;>
    try post_close
  have h1 := getIdentifier_ok_lt hr
  have h2 := (skipBlankInline_after s q).le
  rcases (expectByte_mono s (skipBlankInline s q) 61).cases with ⟨_, q2, hr2, h3⟩ | ⟨e2, q2, hr2, h3⟩ | ⟨m, hr2⟩ | hr2 <;>
    simp only [hr2] <;> try post_close
  rcases (getPattern_mono s fuel q2).cases with ⟨o, q3, hr3, h4⟩ | ⟨e3, q3, hr3, h4⟩ | ⟨m, hr3⟩ | hr3 <;>
    simp only [hr3] <;> try post_close
  have h5 := skipBlankBlock_le s q3
  have hl := skipBlankBlock_LSE (getPattern_LSE hr3).next
  cases hr5 : getAttributes s fuel (skipBlankBlock s q3).fst with
  | ok attrs q5 =>
    have := getAttributesGo_post s fuel _ [] _ hl attrs q5 hr5
    simp only []
    split
    · post_close
    · exact ⟨by omega, this.2⟩
  | err e q5 => exact (getAttributesGo_noErr s fuel _ [] _ e q5 hr5).elim
  | panic m => trivial
  | fuel => trivial

/-- `get_term` -/
theorem getTerm_post (s : Src) (fuel es p : Nat) (hes : p ≤ es) :
    Post (LSE s) p p (getTerm s fuel es p) := by
  unfold getTerm
  rcases (expectByte_mono s p 45).cases with ⟨_, p0, hr0, h0⟩ | ⟨e, q, hr0, h0⟩ | ⟨m, hr0⟩ | hr0 <;> simp only [hr0] <;>
    try post_close
  rcases (getIdentifier_mono s p0).cases with ⟨id, q, hr, h1⟩ | ⟨e, q, hr, h1⟩ | ⟨m, hr⟩ | hr <;> simp only [hr] <;>
    try post_close
  have h1 := getIdentifier_ok_lt hr
  have h2 := (skipBlankInline_after s q).le
  rcases (expectByte_mono s (skipBlankInline s q) 61).cases with ⟨_, q2, hr2, h3⟩ | ⟨e2, q2, hr2, h3⟩ | ⟨m, hr2⟩ | hr2 <;>
    simp only [hr2] <;> try post_close
  have h3' := (skipBlankInline_after s q2).le
  rcases (getPattern_mono s fuel (skipBlankInline s q2)).cases with ⟨o, q3, hr3, h4⟩ | ⟨e3, q3, hr3, h4⟩ | ⟨m, hr3⟩ | hr3 <;>
    simp only [hr3] <;> try post_close
  have h5 := skipBlankBlock_le s q3
  have hl := skipBlankBlock_LSE (getPattern_LSE hr3).next
  cases hr5 : getAttributes s fuel (skipBlankBlock s q3).fst with
  | ok attrs q5 =>
    have := getAttributesGo_post s fuel _ [] _ hl attrs q5 hr5
    simp only []
    cases o with
    | none => post_close
    | some v => exact ⟨by omega, this.2⟩
  | err e q5 => exact (getAttributesGo_noErr s fuel _ [] _ e q5 hr5).elim
  | panic m => trivial
  | fuel => trivial

/-! ### comments -/

theorem getCommentLevel_spec (s : Src) (p : Nat) :
    ∃ l, getCommentLevel s p = (l, p + l) ∧ l ≤ 3 ∧ (∀ j, j < l → s[p + j]? = some 35) ∧ (l = 0 → s[p]? ≠ some 35) := by
  unfold getCommentLevel
  simp only [isCurrentByte_iff]
  split
  · rename_i h0
    split
    · rename_i h1
      split
      · rename_i h2
        refine ⟨3, rfl, by omega, ?_, by omega⟩
        intro j hj
        have : j = 0 ∨ j = 1 ∨ j = 2 := by omega
        rcases this with rfl | rfl | rfl <;> assumption
      · refine ⟨2, rfl, by omega, ?_, by omega⟩
        intro j hj
        have : j = 0 ∨ j = 1 := by omega
        rcases this with rfl | rfl <;> assumption
    · refine ⟨1, rfl, by omega, ?_, by omega⟩
      intro j hj
      have : j = 0 := by omega
      subst this; assumption
  · rename_i h0
    exact ⟨0, rfl, by omega, fun j hj => by omega, fun _ => h0⟩

theorem isEol_of_none {s : Src} {p : Nat} (h : s.size ≤ p) : isEol s p = true := by
  have : s[p]? = none := by simp; omega
  simp [isEol, this]

theorem not_isEol_ne {s : Src} {p : Nat} (h : ¬ isEol s p = true) : s[p]? ≠ some 10 := by
  intro h10; apply h; simp [isEol, h10]

/-- the end of a comment line: an end of line, with no `\n` before it -/
theorem commentLineEndGo_eol (s : Src) (n p : Nat) (hn : s.size ≤ p + n) :
    p ≤ commentLineEndGo s n p ∧ isEol s (commentLineEndGo s n p) = true ∧
      ∀ j, p ≤ j → j < commentLineEndGo s n p → s[j]? ≠ some 10 := by
  induction n generalizing p with
  | zero =>
    simp only [commentLineEndGo]
    exact ⟨Nat.le_refl _, isEol_of_none (by omega), fun j h1 h2 => by omega⟩
  | succ n ih =>
    simp only [commentLineEndGo]
    split
    · rename_i hc; exact ⟨Nat.le_refl _, hc, fun j h1 h2 => by omega⟩
    · rename_i hc
      have := ih (p + 1) (by omega)
      refine ⟨by omega, this.2.1, ?_⟩
      intro j h1 h2
      by_cases hj : j = p
      · subst hj; exact not_isEol_ne hc
      · exact this.2.2 j (by omega) h2

theorem commentLineEnd_eol (s : Src) (p : Nat) :
    p ≤ commentLineEndGo s (s.size - p) p ∧ isEol s (commentLineEndGo s (s.size - p) p) = true ∧
      ∀ j, p ≤ j → j < commentLineEndGo s (s.size - p) p → s[j]? ≠ some 10 :=
  commentLineEndGo_eol s _ p (by omega)

/-- after a line whose first byte is not a message/term start: the cursor behind the line's end of line is a
line start (or EOF), and no message/term start was passed -/
theorem line_step {s : Src} {pc e : Nat} (hpc : ¬ RealStart s pc) (hle : pc ≤ e) (heol : isEol s e = true)
    (hnl : ∀ j, pc ≤ j → j < e → s[j]? ≠ some 10) :
    e ≤ (skipEol s e).getD e ∧ LSE s ((skipEol s e).getD e) ∧ NoRS s pc ((skipEol s e).getD e) := by
  have hz : NoRS s pc (e + 1) := (noRS_single hpc).trans (noRS_of_noNl hnl)
  rcases isEol_cases heol with h | h | ⟨h, h'⟩
  · have : s.size ≤ e := by simpa using h
    have he : skipEol s e = none := by simp [skipEol, h]
    rw [he]
    exact ⟨Nat.le_refl _, Or.inr this, hz.mono (Nat.le_refl _) (by simp)⟩
  · have he : skipEol s e = some (e + 1) := by simp [skipEol, h]
    rw [he]
    exact ⟨by simp, Or.inl (LS_succ h), hz⟩
  · have he : skipEol s e = some (e + 2) := by simp [skipEol, h, h']
    rw [he]
    refine ⟨by simp, Or.inl (LS_succ h'), ?_⟩
    simp only [Option.getD_some]
    have hnl' : ∀ j, pc ≤ j → j < e + 1 → s[j]? ≠ some 10 := by
      intro j h1 h2
      by_cases hj : j = e
      · subst hj; rw [h]; decide
      · exact hnl j h1 (by omega)
    exact (noRS_single hpc).trans (noRS_of_noNl hnl')

theorem not_realStart_of_byte {s : Src} {p : Nat} {b : UInt8} (h : s[p]? = some b) (hb : isReal b = false) :
    ¬ RealStart s p := by
  intro ⟨_, b', hb', hr⟩
  rw [h] at hb'; cases hb'; rw [hb] at hr; cases hr

theorem not_realStart_hash {s : Src} {p : Nat} (h : s[p]? = some 35) : ¬ RealStart s p :=
  not_realStart_of_byte h (by decide)

/-- postcondition of the `get_comment` loop (comment started at `p0`) -/
def CPost (s : Src) (p0 : Nat) (content : List Span) (r : R (List Span × Nat)) : Prop :=
  match r with
  | .ok _ q => p0 ≤ q ∧ NextOk s q ∧ NoRS s p0 q
  | .err e q => content = [] ∧ p0 ≤ e.posStart ∧ ∃ l, 1 ≤ l ∧ l ≤ 3 ∧ q = p0 + l ∧ ∀ j, j < l → s[p0 + j]? = some 35
  | .panic _ => True
  | .fuel => True

theorem CPost.of_append {s : Src} {p0 : Nat} {content : List Span} {line : Span} {r : R (List Span × Nat)}
    (h : CPost s p0 (content ++ [line]) r) : CPost s p0 content r := by
  cases r with
  | ok a q => exact h
  | err e q => exact absurd h.1 (by simp)
  | panic m => trivial
  | fuel => trivial

theorem getCommentGo_post (s : Src) (n level : Nat) (content : List Span) (pc p0 : Nat)
    (hinv : (level = 0 ∧ content = [] ∧ pc = p0 ∧ s[pc]? = some 35) ∨
      (content ≠ [] ∧ p0 < pc ∧ LSE s pc ∧ NoRS s p0 pc)) :
    CPost s p0 content (getCommentGo s n level content pc) := by
  induction n generalizing level content pc with
  | zero => simp [getCommentGo, CPost]
  | succ n ih =>
    have hz0 : p0 ≤ pc ∧ NoRS s p0 pc := by
      rcases hinv with ⟨_, _, rfl, _⟩ | ⟨_, h1, _, h2⟩
      · exact ⟨Nat.le_refl _, NoRS.refl _ _⟩
      · exact ⟨by omega, h2⟩
    simp only [getCommentGo]
    split
    · rename_i hlt
      obtain ⟨l, hl, hl3, hbytes, hl0⟩ := getCommentLevel_spec s pc
      rw [hl]
      simp only []
      -- the recursive step shared by the two `get_comment_line` arms
      have step : ∀ p2, 1 ≤ l → pc + l ≤ p2 → (∀ j, pc ≤ j → j < p2 → s[j]? ≠ some 10) →
          CPost s p0 content
            (match getCommentLine s p2 with
             | .ok line q => getCommentGo s n l (content ++ [line]) ((skipEol s q).getD q)
             | .err e q => .err e q
             | .panic m => .panic m
             | .fuel => .fuel) := by
        intro p2 hl1 hp2 hnl
        unfold getCommentLine
        simp only []
        have he := commentLineEnd_eol s p2
        generalize commentLineEndGo s (s.size - p2) p2 = e at he
        cases hsl : slice s p2 e with
        | none => trivial
        | some sp =>
          simp only []
          have hnl' : ∀ j, pc ≤ j → j < e → s[j]? ≠ some 10 := by
            intro j h1 h2
            by_cases hj : j < p2
            · exact hnl j h1 hj
            · exact he.2.2 j (by omega) h2
          have hpc : ¬ RealStart s pc := not_realStart_hash (by simpa using hbytes 0 (by omega))
          have hs := line_step hpc (by omega) he.2.1 hnl'
          refine (ih l (content ++ [sp]) _ (Or.inr ⟨by simp, by omega, hs.2.1, hz0.2.trans hs.2.2⟩)).of_append
      split
      · -- not a comment line: `ptr -= 1`
        rename_i hl0'
        have hl0' : l = 0 := by simpa using hl0'
        subst hl0'
        rcases hinv with ⟨_, _, _, h35⟩ | ⟨hc, hlt0, hlse, hz⟩
        · exact absurd h35 (hl0 rfl)
        · have h1 : 1 ≤ pc := by omega
          simp only [usub, Nat.add_zero, h1, if_true]
          refine ⟨by omega, ?_, hz.mono (Nat.le_refl _) (by omega)⟩
          rcases hlse with hls | hsz
          · rcases hls with h0 | h10
            · omega
            · exact Or.inr (Or.inr h10)
          · omega
      · rename_i hlne
        have hl1 : 1 ≤ l := by
          have : l ≠ 0 := by simpa using hlne
          omega
        split
        · -- a comment of another level: `ptr -= level`
          rename_i hdiff
          simp only [usub, Nat.le_add_left, if_true, Nat.add_sub_cancel]
          rcases hinv with ⟨i0, _⟩ | ⟨hc, hlt0, hlse, hz⟩
          · simp [i0] at hdiff
          · exact ⟨by omega, hlse.next, hz⟩
        · have hnl0 : ∀ j, pc ≤ j → j < pc + l → s[j]? ≠ some 10 := by
            intro j h1 h2
            have := hbytes (j - pc) (by omega)
            rw [show pc + (j - pc) = j by omega] at this
            rw [this]; decide
          split
          · exact step (pc + l) hl1 (Nat.le_refl _) hnl0
          · cases hx : expectByte s (pc + l) 32 with
            | ok u p2 =>
              simp only []
              have hx' : p2 = pc + l + 1 ∧ s[pc + l]? = some 32 := by
                unfold expectByte at hx
                split at hx
                · rename_i hc
                  cases hx
                  exact ⟨rfl, (isCurrentByte_iff _ _ _).mp hc⟩
                · cases hx
              obtain ⟨rfl, h32⟩ := hx'
              refine step (pc + l + 1) hl1 (by omega) ?_
              intro j h1 h2
              by_cases hj : j = pc + l
              · subst hj; rw [h32]; decide
              · exact hnl0 j h1 (by omega)
            | err e q =>
              simp only []
              have hx' : q = pc + l ∧ e.posStart = pc + l := by
                unfold expectByte at hx
                split at hx
                · cases hx
                · cases hx; exact ⟨rfl, rfl⟩
              split
              · rename_i hce
                have hce : content = [] := by simpa using hce
                rcases hinv with ⟨_, _, hpc, _⟩ | ⟨hc, _⟩
                · subst hpc
                  exact ⟨hce, by omega, l, hl1, hl3, hx'.1, hbytes⟩
                · exact absurd hce hc
              · rename_i hce
                simp only [usub, Nat.le_add_left, if_true, Nat.add_sub_cancel]
                rcases hinv with ⟨_, hc, _⟩ | ⟨hc, hlt0, hlse, hz⟩
                · simp [hc] at hce
                · exact ⟨by omega, hlse.next, hz⟩
            | panic m => trivial
            | fuel => trivial
    · rename_i hge
      rcases hinv with ⟨_, _, _, h35⟩ | ⟨hc, hlt0, hlse, hz⟩
      · have := get_lt h35; omega
      · exact ⟨by omega, hlse.next, hz⟩

theorem getComment_post {s : Src} {p : Nat} (h : s[p]? = some 35) : CPost s p [] (getComment s p) :=
  getCommentGo_post s _ 0 [] p p (Or.inl ⟨rfl, rfl, rfl, h⟩)

/-- `skip_comment` (runtime parser) -/
theorem skipCommentGo_post (s : Src) (n p : Nat) (hp : ¬ RealStart s p) (hn : s.size - p + 1 ≤ n) :
    p < skipCommentGo s n p ∧ NextOk s (skipCommentGo s n p) ∧ NoRS s p (skipCommentGo s n p) := by
  induction n generalizing p with
  | zero => omega
  | succ n ih =>
    simp only [skipCommentGo]
    have he := commentLineEnd_eol s p
    generalize commentLineEndGo s (s.size - p) p = e at he
    have hz : NoRS s p (e + 1) := (noRS_single hp).trans (noRS_of_noNl he.2.2)
    split
    · rename_i hc
      have h35 := (isCurrentByte_iff _ _ _).mp hc
      have hlt := get_lt h35
      have hnr : ¬ RealStart s (e + 1 + 1) := by
        intro ⟨hls, _⟩
        rcases hls with h | h
        · omega
        · simp only [Nat.add_sub_cancel] at h
          rw [h35] at h; cases h
      have := ih (e + 1 + 1) hnr (by omega)
      exact ⟨by omega, this.2.1, (hz.trans (noRS_single (not_realStart_hash h35))).trans this.2.2⟩
    · refine ⟨by omega, ?_, hz⟩
      rcases isEol_cases he.2.1 with h | h | ⟨h, h'⟩
      · have : s.size ≤ e := by simpa using h
        exact Or.inr (Or.inl (by omega))
      · exact Or.inl (LS_succ h)
      · exact Or.inr (Or.inr h')

theorem skipComment_post {s : Src} {p : Nat} (h : s[p]? = some 35) :
    p < skipComment s p ∧ NextOk s (skipComment s p) ∧ NoRS s p (skipComment s p) :=
  skipCommentGo_post s _ p (not_realStart_hash h) (Nat.le_refl _)

/-! ### junk recovery after an error on a line that cannot start a message or term -/

theorem skipToNextEntryStart_noRS {s : Src} {p q q1 : Nat} (hp : ¬ RealStart s p) (_hle : p ≤ q)
    (hnl : ∀ j, p ≤ j → j < q → s[j]? ≠ some 10) (h : skipToNextEntryStart s p q = some q1) : NoRS s p q1 := by
  unfold skipToNextEntryStart at h
  simp only at h
  split at h
  · simp only [Option.some.injEq] at h
    subst h
    split
    · rename_i nl hnl'
      have := rposNewlineGo_some' hnl'
      have hm : min q s.size ≤ q := Nat.min_le_left _ _
      exact absurd this.2.2 (hnl nl this.1 (by omega))
    · have h1 : NoRS s p (q + 1) := (noRS_single hp).trans (noRS_of_noNl hnl)
      exact (h1.mono (Nat.le_refl _) (by omega)).trans (skipToNextEntryStartGo_noRS s _ q)
  · cases h

/-! ### the two entry dispatchers -/

theorem msgsTerms_append (a b : List (Entry Span)) : msgsTerms (a ++ b) = msgsTerms a ++ msgsTerms b := by
  induction a with
  | nil => rfl
  | cons e rest ih => cases e <;> simp [msgsTerms, ih]

theorem not_real_of_not_realStart {s : Src} {p : Nat} (hls : LS s p) (h : ¬ RealStart s p) :
    ∀ b, s[p]? = some b → isReal b = false := by
  intro b hb
  cases hr : isReal b with
  | false => rfl
  | true => exact absurd ⟨hls, b, hb, hr⟩ h

/-- on a byte that is not `[a-zA-Z]`, `get_message` fails right there -/
theorem getMessage_err_of_not_alpha {s : Src} {fuel es p : Nat} (h : isIdentifierStart s p = false) :
    ∃ e, getMessage s fuel es p = .err e p ∧ e.posStart = p := by
  unfold getMessage getIdentifier
  simp [h, mkErr]

theorem isIdentifierStart_false_of_not_real {s : Src} {p : Nat} (h : ∀ b, s[p]? = some b → isReal b = false) :
    isIdentifierStart s p = false := by
  unfold isIdentifierStart
  split
  · rename_i b hb
    have := h b hb
    unfold isReal at this
    simp only [Bool.or_eq_false_iff] at this
    exact this.1
  · rfl

theorem not_45_of_not_real {s : Src} {p : Nat} (h : ∀ b, s[p]? = some b → isReal b = false) : s[p]? ≠ some 45 := by
  intro h45
  have := h 45 h45
  revert this; decide

/-- outcome of an entry dispatcher started at `p`:
* on success the cursor is at or after `p` and is a line start, EOF, or at a `\n`;
* the error position is at or after `p`;
* if `p` is a line start that cannot start a message or term, then no message/term is produced (`noMT`) and
  neither the parsed entry nor the junk recovery passes a position where a message or term could start. -/
def ELines {α : Type} (s : Src) (p : Nat) (noMT : α → Prop) (r : R α) : Prop :=
  match r with
  | .ok e q => p ≤ q ∧ NextOk s q ∧ (LS s p → ¬ RealStart s p → noMT e ∧ NoRS s p q)
  | .err e q => p ≤ e.posStart ∧
      (LS s p → ¬ RealStart s p → ∀ q1, skipToNextEntryStart s p q = some q1 → NoRS s p q1)
  | .panic _ => True
  | .fuel => True

theorem noreal_facts {s : Src} {fuel p : Nat} (hls : LS s p) (hnr : ¬ RealStart s p) :
    (∃ e, getMessage s fuel p p = .err e p ∧ e.posStart = p) ∧ s[p]? ≠ some 45 := by
  have := not_real_of_not_realStart hls hnr
  exact ⟨getMessage_err_of_not_alpha (isIdentifierStart_false_of_not_real this), not_45_of_not_real this⟩

/-- the part of both dispatchers that is shared: a term or a message -/
theorem termOrMessage_lines {α : Type} (s : Src) (fuel p : Nat) (noMT : α → Prop) (ft : Term Span → α)
    (fm : Message Span → α) :
    ELines s p noMT
      (if s[p]? = some 45 then
        (match getTerm s fuel p p with
         | .ok t q => .ok (ft t) q | .err e q => .err e q | .panic m => .panic m | .fuel => .fuel)
      else
        (match getMessage s fuel p p with
         | .ok m q => .ok (fm m) q | .err e q => .err e q | .panic m => .panic m | .fuel => .fuel)) := by
  split
  · rename_i h45
    have hp := getTerm_post s fuel p p (Nat.le_refl _)
    cases hr : getTerm s fuel p p with
    | ok t q =>
      rw [hr] at hp
      exact ⟨by have := hp.1; omega, hp.2.next, fun hls hnr => absurd h45 (noreal_facts (fuel := fuel) hls hnr).2⟩
    | err e q =>
      rw [hr] at hp
      exact ⟨hp, fun hls hnr => absurd h45 (noreal_facts (fuel := fuel) hls hnr).2⟩
    | panic m => trivial
    | fuel => trivial
  · have hp := getMessage_post s fuel p p (Nat.le_refl _)
    cases hr : getMessage s fuel p p with
    | ok t q =>
      rw [hr] at hp
      refine ⟨by have := hp.1; omega, hp.2.next, fun hls hnr => ?_⟩
      obtain ⟨⟨e, he, _⟩, _⟩ := noreal_facts (fuel := fuel) hls hnr
      rw [he] at hr; cases hr
    | err e q =>
      rw [hr] at hp
      refine ⟨hp, fun hls hnr q1 hq1 => ?_⟩
      obtain ⟨⟨e', he, _⟩, _⟩ := noreal_facts (fuel := fuel) hls hnr
      rw [he] at hr; cases hr
      exact skipToNextEntryStart_noRS hnr (Nat.le_refl _) (fun j h1 h2 => by omega) hq1
    | panic m => trivial
    | fuel => trivial

/-- `get_entry` -/
theorem getEntry_lines (s : Src) (fuel p : Nat) :
    ELines s p (fun e => msgsTerms [e] = []) (getEntry s fuel p) := by
  by_cases h35 : s[p]? = some 35
  · have hc := getComment_post h35
    unfold getEntry
    simp only [h35]
    cases hr : getComment s p with
    | ok r q =>
      rw [hr] at hc
      obtain ⟨content, level⟩ := r
      simp only []
      split
      · exact ⟨hc.1, hc.2.1, fun _ _ => ⟨rfl, hc.2.2⟩⟩
      · split
        · exact ⟨hc.1, hc.2.1, fun _ _ => ⟨rfl, hc.2.2⟩⟩
        · split
          · exact ⟨hc.1, hc.2.1, fun _ _ => ⟨rfl, hc.2.2⟩⟩
          · trivial
    | err e q =>
      rw [hr] at hc
      obtain ⟨_, hpos, l, hl1, hl3, rfl, hbytes⟩ := hc
      refine ⟨hpos, fun _ hnr q1 hq1 => ?_⟩
      refine skipToNextEntryStart_noRS hnr (by omega) ?_ hq1
      intro j h1 h2
      have := hbytes (j - p) (by omega)
      rw [show p + (j - p) = j by omega] at this
      rw [this]; decide
    | panic m => trivial
    | fuel => trivial
  · rw [getEntry_of_not_hash s fuel p h35]
    exact termOrMessage_lines s fuel p _ _ _

/-- `get_entry_runtime` -/
theorem getEntryRuntime_lines (s : Src) (fuel p : Nat) :
    ELines s p (fun o => o = none) (getEntryRuntime s fuel p) := by
  by_cases h35 : s[p]? = some 35
  · have hc := skipComment_post h35
    unfold getEntryRuntime
    simp only [h35]
    exact ⟨by omega, hc.2.1, fun _ _ => ⟨rfl, hc.2.2⟩⟩
  · rw [getEntryRuntime_of_not_hash s fuel p h35]
    exact termOrMessage_lines s fuel p _ _ _

/-! ### one iteration of each entry loop -/

/-- one iteration of the full parser's loop: either an entry was parsed (the body grows by at most a flushed
comment and the entry; `errors` is unchanged) or a Junk was recorded. -/
theorem parseLoop_step {s : Src} {fuel n : Nat} {body : List (Entry Span)} {errors : List PErr}
    {lc : Option (List Span)} {lbc p : Nat} {r : List (Entry Span) × List PErr} (hp : p < s.size)
    (h : parseLoop s fuel (n + 1) body errors lc lbc p = .done r) :
    (∃ e q body' lc', getEntry s fuel p = .ok e q ∧
        parseLoop s fuel n body' errors lc' (skipBlankBlock s q).2 (skipBlankBlock s q).1 = .done r ∧
        msgsTerms body' = msgsTerms body ++ msgsTerms [e] ∧ junkSpans body' = junkSpans body) ∨
    (∃ e q q1 content body', getEntry s fuel p = .err e q ∧ skipToNextEntryStart s p q = some q1 ∧
        slice s p q1 = some content ∧
        parseLoop s fuel n (body' ++ [.junk content]) (errors ++ [{ clampErr e q1 with slice := some (p, q1) }]) none
          (skipBlankBlock s q1).2 (skipBlankBlock s q1).1 = .done r ∧
        msgsTerms body' = msgsTerms body ∧ junkSpans body' = junkSpans body) := by
  unfold parseLoop at h
  simp only [hp, if_true] at h
  cases hr : getEntry s fuel p with
  | ok ent q =>
    left
    have hnj := getEntry_not_junk s fuel p ent q hr
    cases lc with
    | none =>
      simp only [hr] at h
      cases ent with
      | comment c => exact ⟨_, _, _, _, rfl, h, by simp [msgsTerms], rfl⟩
      | junk c => simp [Entry.isJunk] at hnj
      | message m => exact ⟨_, _, _, _, rfl, h, by simp [msgsTerms_append], by simp [junkSpans_append, junkSpans]⟩
      | term t => exact ⟨_, _, _, _, rfl, h, by simp [msgsTerms_append], by simp [junkSpans_append, junkSpans]⟩
      | groupComment c => exact ⟨_, _, _, _, rfl, h, by simp [msgsTerms_append], by simp [junkSpans_append, junkSpans]⟩
      | resourceComment c =>
        exact ⟨_, _, _, _, rfl, h, by simp [msgsTerms_append], by simp [junkSpans_append, junkSpans]⟩
    | some c0 =>
      simp only [hr] at h
      cases ent with
      | comment c =>
        exact ⟨_, _, _, _, rfl, h, by simp [msgsTerms_append, msgsTerms], by simp [junkSpans_append, junkSpans]⟩
      | junk c => simp [Entry.isJunk] at hnj
      | message m =>
        by_cases hl : lbc < 2
        · simp only [hl, if_true] at h
          exact ⟨_, _, _, _, rfl, h, by simp [msgsTerms_append, msgsTerms], by simp [junkSpans_append, junkSpans]⟩
        · simp only [hl, if_false] at h
          exact ⟨_, _, _, _, rfl, h, by simp [msgsTerms_append, msgsTerms], by simp [junkSpans_append, junkSpans]⟩
      | term t =>
        by_cases hl : lbc < 2
        · simp only [hl, if_true] at h
          exact ⟨_, _, _, _, rfl, h, by simp [msgsTerms_append, msgsTerms], by simp [junkSpans_append, junkSpans]⟩
        · simp only [hl, if_false] at h
          exact ⟨_, _, _, _, rfl, h, by simp [msgsTerms_append, msgsTerms], by simp [junkSpans_append, junkSpans]⟩
      | groupComment c =>
        exact ⟨_, _, _, _, rfl, h, by simp [msgsTerms_append, msgsTerms], by simp [junkSpans_append, junkSpans]⟩
      | resourceComment c =>
        exact ⟨_, _, _, _, rfl, h, by simp [msgsTerms_append, msgsTerms], by simp [junkSpans_append, junkSpans]⟩
  | err er q =>
    right
    cases lc with
    | none =>
      simp only [hr] at h
      split at h
      · cases h
      · rename_i q1 hq1
        split at h
        · rename_i content hcontent
          exact ⟨_, _, _, _, _, rfl, hq1, hcontent, h, rfl, rfl⟩
        · cases h
    | some c0 =>
      simp only [hr] at h
      split at h
      · cases h
      · rename_i q1 hq1
        split at h
        · rename_i content hcontent
          exact ⟨_, _, _, _, _, rfl, hq1, hcontent, h, by simp [msgsTerms_append, msgsTerms],
            by simp [junkSpans_append, junkSpans]⟩
        · cases h
  | panic m => cases lc <;> simp [hr] at h
  | fuel => cases lc <;> simp [hr] at h

/-- the end of the full parser's loop -/
theorem parseLoop_end {s : Src} {fuel n : Nat} {body : List (Entry Span)} {errors : List PErr}
    {lc : Option (List Span)} {lbc p : Nat} {r : List (Entry Span) × List PErr} (hp : ¬ p < s.size)
    (h : parseLoop s fuel (n + 1) body errors lc lbc p = .done r) :
    r.2 = errors ∧ msgsTerms r.1 = msgsTerms body ∧ junkSpans r.1 = junkSpans body := by
  unfold parseLoop at h
  simp only [hp, if_false] at h
  split at h
  · cases h; exact ⟨rfl, by simp [msgsTerms_append, msgsTerms], by simp [junkSpans_append, junkSpans]⟩
  · cases h; exact ⟨rfl, rfl, rfl⟩

/-- one iteration of the runtime parser's loop -/
theorem parseRuntimeLoop_step {s : Src} {fuel n : Nat} {body : List (Entry Span)} {errors : List PErr}
    {p : Nat} {r : List (Entry Span) × List PErr} (hp : p < s.size)
    (h : parseRuntimeLoop s fuel (n + 1) body errors p = .done r) :
    (∃ o q body', getEntryRuntime s fuel p = .ok o q ∧
        parseRuntimeLoop s fuel n body' errors (skipBlankBlock s q).1 = .done r ∧
        msgsTerms body' = msgsTerms body ++ msgsTerms o.toList ∧ junkSpans body' = junkSpans body) ∨
    (∃ e q q1 content, getEntryRuntime s fuel p = .err e q ∧ skipToNextEntryStart s p q = some q1 ∧
        slice s p q1 = some content ∧
        parseRuntimeLoop s fuel n (body ++ [.junk content]) (errors ++ [{ clampErr e q1 with slice := some (p, q1) }])
          (skipBlankBlock s q1).1 = .done r) := by
  unfold parseRuntimeLoop at h
  simp only [hp, if_true] at h
  cases hr : getEntryRuntime s fuel p with
  | ok o q =>
    left
    simp only [hr] at h
    cases o with
    | none => exact ⟨_, _, _, rfl, h, by simp [msgsTerms], rfl⟩
    | some ent =>
      have hnj := getEntryRuntime_not_junk s fuel p ent q hr
      refine ⟨_, _, _, rfl, h, by simp [msgsTerms_append], ?_⟩
      rw [junkSpans_append, junkSpans_single_nonjunk ent hnj, List.append_nil]
  | err er q =>
    right
    simp only [hr] at h
    split at h
    · cases h
    · rename_i q1 hq1
      split at h
      · rename_i content hcontent
        exact ⟨_, _, _, _, rfl, hq1, hcontent, h⟩
      · cases h
  | panic m => simp [hr] at h
  | fuel => simp [hr] at h

theorem parseRuntimeLoop_end {s : Src} {fuel n : Nat} {body : List (Entry Span)} {errors : List PErr}
    {p : Nat} {r : List (Entry Span) × List PErr} (hp : ¬ p < s.size)
    (h : parseRuntimeLoop s fuel (n + 1) body errors p = .done r) : r = (body, errors) := by
  unfold parseRuntimeLoop at h
  simp only [hp, if_false] at h
  cases h; rfl

/-! ### C03: every Junk starts at a line start and contains its error's position -/

/-- the error carries a slice that starts at a line start, at or before the reported position -/
def ErrPos (s : Src) (e : PErr) : Prop :=
  ∃ a b, e.slice = some (a, b) ∧ a ≤ e.posStart ∧ (a = 0 ∨ s[a - 1]? = some 10)

theorem clampErr_ge {e : PErr} {q p : Nat} (h1 : p ≤ e.posStart) (h2 : p ≤ q) : p ≤ (clampErr e q).posStart := by
  unfold clampErr; split <;> simp_all

theorem LSE.ls {s : Src} {p : Nat} (h : LSE s p) (hp : p < s.size) : LS s p := by
  rcases h with h | h
  · exact h
  · omega

theorem errPos_junk {s : Src} {e : PErr} {p q q1 : Nat} (hls : LS s p) (hpos : p ≤ e.posStart)
    (hq1 : skipToNextEntryStart s p q = some q1) :
    ErrPos s { clampErr e q1 with slice := some (p, q1) } :=
  ⟨p, q1, rfl, clampErr_ge hpos (skipToNextEntryStart_ge hq1), hls⟩

theorem forall_mem_append_one {α : Type} {P : α → Prop} {l : List α} {a : α} (h : ∀ x ∈ l, P x) (ha : P a) :
    ∀ x ∈ l ++ [a], P x := by
  intro x hx
  simp only [List.mem_append, List.mem_singleton] at hx
  rcases hx with hx | rfl
  · exact h x hx
  · exact ha

theorem parseLoop_errPos (s : Src) (fuel n : Nat) (body : List (Entry Span)) (errors : List PErr)
    (lc : Option (List Span)) (lbc p : Nat) (hp : LSE s p) (herr : ∀ e ∈ errors, ErrPos s e) :
    ∀ r, parseLoop s fuel n body errors lc lbc p = .done r → ∀ e ∈ r.2, ErrPos s e := by
  induction n generalizing body errors lc lbc p with
  | zero => intro r h; simp [parseLoop] at h
  | succ n ih =>
    intro r h
    by_cases hlt : p < s.size
    · have hel := getEntry_lines s fuel p
      rcases parseLoop_step hlt h with ⟨e, q, body', lc', hr, hloop, _, _⟩ | ⟨e, q, q1, content, body', hr, hq1, _, hloop, _, _⟩
      · rw [hr] at hel
        exact ih _ _ _ _ _ (skipBlankBlock_LSE hel.2.1) herr r hloop
      · rw [hr] at hel
        refine ih _ _ _ _ _ (skipBlankBlock_LSE (skipToNextEntryStart_LSE hq1).next) ?_ r hloop
        exact forall_mem_append_one herr (errPos_junk (hp.ls hlt) hel.1 hq1)
    · have := (parseLoop_end hlt h).1
      rw [this]; exact herr

theorem parseRuntimeLoop_errPos (s : Src) (fuel n : Nat) (body : List (Entry Span)) (errors : List PErr)
    (p : Nat) (hp : LSE s p) (herr : ∀ e ∈ errors, ErrPos s e) :
    ∀ r, parseRuntimeLoop s fuel n body errors p = .done r → ∀ e ∈ r.2, ErrPos s e := by
  induction n generalizing body errors p with
  | zero => intro r h; simp [parseRuntimeLoop] at h
  | succ n ih =>
    intro r h
    by_cases hlt : p < s.size
    · have hel := getEntryRuntime_lines s fuel p
      rcases parseRuntimeLoop_step hlt h with ⟨o, q, body', hr, hloop, _, _⟩ | ⟨e, q, q1, content, hr, hq1, _, hloop⟩
      · rw [hr] at hel
        exact ih _ _ _ (skipBlankBlock_LSE hel.2.1) herr r hloop
      · rw [hr] at hel
        refine ih _ _ _ (skipBlankBlock_LSE (skipToNextEntryStart_LSE hq1).next) ?_ r hloop
        exact forall_mem_append_one herr (errPos_junk (hp.ls hlt) hel.1 hq1)
    · have := parseRuntimeLoop_end hlt h
      rw [this]; exact herr

theorem start_LSE (s : Src) : LSE s (skipBlankBlock s 0).1 := skipBlankBlock_LSE (Or.inl (LS_zero s))

/-- **C03**: every error of `parse` has a slice starting at a line start, at or before the error position -/
theorem parse_errPos (s : Src) (body : List (Entry Span)) (errs : List PErr) (h : parse s = .done (body, errs)) :
    ∀ e ∈ errs, ErrPos s e :=
  parseLoop_errPos s _ _ [] [] none 0 _ (start_LSE s) (by simp) _ h

theorem parseRuntime_errPos (s : Src) (body : List (Entry Span)) (errs : List PErr)
    (h : parseRuntime s = .done (body, errs)) : ∀ e ∈ errs, ErrPos s e :=
  parseRuntimeLoop_errPos s _ _ [] [] _ (start_LSE s) (by simp) _ h

end FluentProofs.Parser
