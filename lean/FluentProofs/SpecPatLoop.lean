import FluentProofs.SpecRefine
import FluentProofs.SpecPatFlat
/-!
# The pattern loop (C02, pattern layer, part 2): `get_pattern` against `Pattern ::= PatternElement+`
-/
namespace FluentProofs.PatLoop
open FluentModel FluentModel.Syntax FluentModel.SpecGrammar FluentProofs.Parser FluentProofs.SpecLex
open FluentProofs.SpecRefine FluentProofs.PatFlat

/-! ## one iteration of the loop, unfolded -/

/-- replica of the model's local `pre` (indent and cursor of a line-start slice, `none` = `break`) -/
def preOf (s : Src) (st : PatState) (p : Nat) : Option (Nat × Nat) :=
  if st.role == .lineStart then
    let p1 := skipBlankInline s p
    let indent := p1 - p
    match s[p1]? with
    | some b =>
      if indent == 0 then
        if !isEol s p1 then none else some (indent, p1)
      else if !isBytePatternContinuation b then none
      else some (indent, p1)
    | none => none
  else some (0, p)

/-- replica of the cursor after `break` -/
def pEndOf (s : Src) (p : Nat) : Nat :=
  let p1 := skipBlankInline s p
  let indent := p1 - p
  match s[p1]? with
  | some b => if indent == 0 then p1 else if !isBytePatternContinuation b then p else p1
  | none => p1

def roleOf : Termination → TextPos
  | .lineFeed => .lineStart
  | .crlf => .lineStart
  | .placeableStart => .continuation
  | .eof => .continuation

theorem loop_unfold (s : Src) (n : Nat) (st : PatState) (p : Nat) (hlt : p < s.size)
    (h123 : isCurrentByte s p 123 = false) :
    getPatternLoop s (n + 1) st p =
      (match preOf s st p with
       | none => .ok st (pEndOf s p)
       | some (indent, p1) =>
         match getTextSlice s p1 with
         | .ok (start, stop, nb, term) q =>
           (match st2Of s st p indent start stop nb term with
            | some st2 => getPatternLoop s n { st2 with role := roleOf term } q
            | none => .panic "get_pattern: end - 1 underflow or text slice")
         | .err e q => .err e q
         | .panic m => .panic m
         | .fuel => .fuel) := by
  simp only [getPatternLoop, hlt, if_true, h123, Bool.false_eq_true, if_false]
  rfl

theorem loop_placeable (s : Src) (n : Nat) (st : PatState) (p : Nat) (hlt : p < s.size)
    (h123 : s[p]? = some 123) {e : Expr Span} {q : Nat} (hpl : getPlaceable s n (p + 1) = .ok e q) :
    getPatternLoop s (n + 1) st p =
      getPatternLoop s n
        { elements := st.elements ++ [.placeable e], lastNonBlank := some st.elements.length,
          commonIndent := if st.role == .lineStart then some 0 else st.commonIndent,
          role := .continuation,
          keptCommonIndent := if st.role == .lineStart then some 0 else st.commonIndent } q := by
  have : isCurrentByte s p 123 = true := by simp [isCurrentByte, h123]
  simp only [getPatternLoop, hlt, if_true, this, hpl]
  split <;> rfl

theorem loop_exit (s : Src) (n : Nat) (st : PatState) (p : Nat) (h : s.size ≤ p) :
    getPatternLoop s (n + 1) st p = .ok st p := by
  have : ¬ p < s.size := by omega
  simp only [getPatternLoop, this, if_false]


/-! ## flattening placeholders and raw elements -/

def nl (k : Nat) : List Item := List.replicate k (Sum.inl 10)
def sps (k : Nat) : List Item := List.replicate k (Sum.inl 32)

/-- start of the text a placeholder contributes once `c` spaces of indent are removed -/
def phStart (c : Option Nat) (start indent : Nat) (role : TextPos) : Nat :=
  if role == .lineStart then
    match c with
    | none => start + indent
    | some c => start + min indent c
  else start

def phFlat (s : Src) (c : Option Nat) : Placeholder → List Item
  | .placeable e => [Sum.inr (jE s e)]
  | .text start stop indent role => chars (seg s (phStart c start indent role) stop)

def phsFlat (s : Src) (c : Option Nat) : List Placeholder → List Item
  | [] => []
  | ph :: l => phFlat s c ph ++ phsFlat s c l

theorem phsFlat_append (s : Src) (c : Option Nat) (a b : List Placeholder) :
    phsFlat s c (a ++ b) = phsFlat s c a ++ phsFlat s c b := by
  induction a with
  | nil => rfl
  | cons x t ih => simp [phsFlat, ih]

def rawFlat (c : Nat) (raws : List RawEl) : List Item := flat (raws.map (dedent c))

theorem rawFlat_append (c : Nat) (a b : List RawEl) : rawFlat c (a ++ b) = rawFlat c a ++ rawFlat c b := by
  simp [rawFlat, flat_append]

theorem rawFlat_text (c : Nat) (t : Bytes) : rawFlat c [.text t] = chars t := by simp [rawFlat, dedent, flat]
theorem rawFlat_indent (c k : Nat) : rawFlat c [.indent k] = sps (k - c) := by
  simp [rawFlat, dedent, flat, chars, sps]
theorem rawFlat_placeable (c : Nat) (e : Expr Bytes) : rawFlat c [.placeable e] = [Sum.inr e] := by
  simp [rawFlat, dedent, flat]

theorem chars_replicate (k : Nat) (b : UInt8) : chars (List.replicate k b) = List.replicate k (Sum.inl b) := by
  simp [chars]

/-! ## the invariant -/

/-- a placeholder whose text survives the final trim: a placeable, or text with a byte that is not
white space after its indent -/
def Survivor (s : Src) : Placeholder → Prop
  | .placeable _ => True
  | .text start stop indent _ =>
    start + indent ≤ stop ∧ stop ≤ s.size ∧ ∃ j b, start + indent ≤ j ∧ j < stop ∧ s[j]? = some b ∧ isTrailingWs b = false

def AllWs (l : List Item) : Prop := ∀ x ∈ l, isWs x = true

/-- the elements after the last survivor contribute white space only -/
def TrailOK (s : Src) (st : PatState) : Prop :=
  match st.lastNonBlank with
  | none => ∀ c, AllWs (phsFlat s c st.elements)
  | some l => ∃ E1 x E2, st.elements = E1 ++ x :: E2 ∧ E1.length = l ∧ Survivor s x ∧ ∀ c, AllWs (phsFlat s c E2)

/-- well-formedness of a text placeholder: in range, and its indent consists of spaces -/
def TxOk (s : Src) : Placeholder → Prop
  | .placeable _ => True
  | .text start stop indent _ => start + indent ≤ stop ∧ stop ≤ s.size ∧ ∀ j, j < indent → s[start + j]? = some 32

structure Inv (s : Src) (st : PatState) (acc : List RawEl) (k lead : Nat) : Prop where
  flatEq : ∀ c : Nat, rawFlat c acc ++ nl k = nl lead ++ phsFlat s (some c) st.elements
  ci : st.commonIndent = commonIndent acc
  kept : st.keptCommonIndent = st.commonIndent
  trail : TrailOK s st
  noneInd : st.commonIndent = none → ∀ c, phsFlat s none st.elements = phsFlat s (some c) st.elements
  headOK : st.elements = [] ∨ ∀ c, ∃ x t, phsFlat s (some c) st.elements = x :: t ∧ x ≠ Sum.inl 10
  txOK : ∀ ph ∈ st.elements, TxOk s ph


theorem Inv.head_ne {s : Src} {st : PatState} {acc : List RawEl} {k lead : Nat} (hI : Inv s st acc k lead) (c : Nat) :
    ∀ t, phsFlat s (some c) st.elements ≠ Sum.inl 10 :: t := by
  intro t h
  rcases hI.headOK with he | hh
  · rw [he] at h; simp [phsFlat] at h
  · obtain ⟨x, t', h1, h2⟩ := hh c
    rw [h1] at h
    injection h with h _
    exact h2 h

/-! ## from the final state to the pattern -/

def flatP (s : Src) (l : List (PatElem Span)) : List Item := flatJ (mapPat (spanBytes s) l)

theorem flatP_nil (s : Src) : flatP s [] = [] := by simp [flatP, mapPat, flatJ]
theorem flatP_text (s : Src) (sp : Span) (l : List (PatElem Span)) :
    flatP s (.text sp :: l) = chars (spanBytes s sp) ++ flatP s l := by
  simp [flatP, mapPat, PatElem.mapS, flatJ]
theorem flatP_placeable (s : Src) (e : Expr Span) (l : List (PatElem Span)) :
    flatP s (.placeable e :: l) = Sum.inr (jE s e) :: flatP s l := by
  simp [flatP, mapPat, PatElem.mapS, flatJ, jE]

/-- every text element of a resolved pattern is non-empty -/
def TextsNonEmpty (s : Src) (l : List (PatElem Span)) : Prop :=
  ∀ e ∈ mapPat (spanBytes s) l, nonEmptyEl e = true

theorem textsNonEmpty_nil (s : Src) : TextsNonEmpty s [] := by intro e he; simp [mapPat] at he
theorem textsNonEmpty_cons_placeable {s : Src} {e : Expr Span} {l : List (PatElem Span)} (h : TextsNonEmpty s l) :
    TextsNonEmpty s (.placeable e :: l) := by
  intro x hx
  simp only [mapPat, PatElem.mapS, List.mem_cons] at hx
  rcases hx with rfl | hx
  · rfl
  · exact h x hx
theorem textsNonEmpty_cons_text {s : Src} {sp : Span} {l : List (PatElem Span)} (h : TextsNonEmpty s l)
    (hne : spanBytes s sp ≠ []) : TextsNonEmpty s (.text sp :: l) := by
  intro x hx
  simp only [mapPat, PatElem.mapS, List.mem_cons] at hx
  rcases hx with rfl | hx
  · cases hb : spanBytes s sp with
    | nil => exact absurd hb hne
    | cons a t => rfl
  · exact h x hx
theorem textsNonEmpty_append {s : Src} {a b : List (PatElem Span)} (ha : TextsNonEmpty s a) (hb : TextsNonEmpty s b) :
    TextsNonEmpty s (a ++ b) := by
  induction a with
  | nil => exact hb
  | cons x t ih =>
    have ht : TextsNonEmpty s t := fun e he => ha e (by
      cases x <;> simp only [mapPat, List.mem_cons] <;> exact Or.inr he)
    cases x with
    | placeable e => exact textsNonEmpty_cons_placeable (ih ht)
    | text sp =>
      apply textsNonEmpty_cons_text (ih ht)
      intro hn
      have := ha (.text (spanBytes s sp)) (by simp [mapPat, PatElem.mapS])
      rw [hn] at this
      simp [nonEmptyEl] at this

theorem flatP_append (s : Src) (a b : List (PatElem Span)) : flatP s (a ++ b) = flatP s a ++ flatP s b := by
  induction a with
  | nil => simp [flatP_nil]
  | cons x t ih =>
    cases x with
    | text sp => simp [flatP_text, ih]
    | placeable e => simp [flatP_placeable, ih]

theorem seg_ne_nil {s : Src} {a b : Nat} (hab : a < b) (hb : b ≤ s.size) : seg s a b ≠ [] := by
  intro h
  have := seg_length (s := s) (p := a) (q := b) hb
  rw [h] at this
  simp at this; omega

theorem finishElements_text (s : Src) (c : Option Nat) (lnb i start stop indent : Nat) (role : TextPos)
    (rest : List Placeholder) :
    finishElements s c lnb i (.text start stop indent role :: rest) =
      if i > lnb then some [] else
      if phStart c start indent role == stop then finishElements s c lnb (i + 1) rest
      else match slice s (phStart c start indent role) stop with
        | none => none
        | some sp =>
          (finishElements s c lnb (i + 1) rest).map (PatElem.text (if lnb == i then trimEnd s sp else sp) :: ·) := by
  simp only [finishElements, phStart]
  rfl

theorem finishElements_placeable (s : Src) (c : Option Nat) (lnb i : Nat) (e : Expr Span) (rest : List Placeholder) :
    finishElements s c lnb i (.placeable e :: rest) =
      if i > lnb then some [] else (finishElements s c lnb (i + 1) rest).map (PatElem.placeable e :: ·) := by
  simp only [finishElements]

/-- the placeholders before the last survivor -/
theorem fe_prefix (s : Src) (c : Option Nat) (lnb : Nat) (E1 rest : List Placeholder) :
    ∀ (i : Nat) (R : List (PatElem Span)), i + E1.length ≤ lnb →
      finishElements s c lnb i (E1 ++ rest) = some R →
      ∃ R1 R2, R = R1 ++ R2 ∧ finishElements s c lnb (i + E1.length) rest = some R2 ∧
        flatP s R1 = phsFlat s c E1 ∧ TextsNonEmpty s R1 := by
  induction E1 with
  | nil => intro i R _ h; exact ⟨[], R, rfl, by simpa using h, by simp [flatP_nil, phsFlat], textsNonEmpty_nil s⟩
  | cons ph t ih =>
    intro i R hi h
    simp only [List.length_cons] at hi
    have hnot : ¬ i > lnb := by omega
    cases ph with
    | placeable e =>
      rw [List.cons_append, finishElements_placeable] at h
      simp only [hnot, if_false] at h
      cases hr : finishElements s c lnb (i + 1) (t ++ rest) with
      | none => rw [hr] at h; simp at h
      | some R' =>
        rw [hr] at h
        simp only [Option.map_some] at h
        injection h with h; subst h
        obtain ⟨R1, R2, e1, e2, e3, e4⟩ := ih (i + 1) R' (by omega) hr
        refine ⟨.placeable e :: R1, R2, by simp [e1], by rw [← e2]; congr 1; simp only [List.length_cons]; omega, ?_,
          textsNonEmpty_cons_placeable e4⟩
        rw [flatP_placeable, e3]; simp [phsFlat, phFlat]
    | text start stop indent role =>
      rw [List.cons_append, finishElements_text] at h
      simp only [hnot, if_false] at h
      split at h
      · rename_i heq
        have heq : phStart c start indent role = stop := by simpa using heq
        obtain ⟨R1, R2, e1, e2, e3, e4⟩ := ih (i + 1) R (by omega) h
        refine ⟨R1, R2, e1, by rw [← e2]; congr 1; simp only [List.length_cons]; omega, ?_, e4⟩
        rw [e3]; simp [phsFlat, phFlat, heq, seg_self, chars]
      · rename_i hne
        have hne : phStart c start indent role ≠ stop := by simpa using hne
        split at h
        · cases h
        · rename_i sp hsl
          obtain ⟨esp, hv⟩ := slice_eq_some hsl
          have hi2 : ¬ lnb = i := by omega
          have hi3 : (lnb == i) = false := by simpa using hi2
          simp only [hi3, Bool.false_eq_true, if_false] at h
          cases hr : finishElements s c lnb (i + 1) (t ++ rest) with
          | none => rw [hr] at h; simp at h
          | some R' =>
            rw [hr] at h
            simp only [Option.map_some] at h
            injection h with h; subst h
            obtain ⟨R1, R2, e1, e2, e3, e4⟩ := ih (i + 1) R' (by omega) hr
            have hle : phStart c start indent role < stop := by
              have := hv.1; rw [esp] at this; simp only at this; omega
            have hsz : stop ≤ s.size := by have := hv.2.2.le; rw [esp] at this; exact this
            refine ⟨.text sp :: R1, R2, by simp [e1], by rw [← e2]; congr 1; simp only [List.length_cons]; omega, ?_, ?_⟩
            · rw [flatP_text, e3, esp, spanBytes_eq_seg]; simp [phsFlat, phFlat]
            · apply textsNonEmpty_cons_text e4
              rw [esp, spanBytes_eq_seg]; exact seg_ne_nil hle hsz


theorem phStart_le (c : Option Nat) (start indent : Nat) (role : TextPos) :
    start ≤ phStart c start indent role ∧ phStart c start indent role ≤ start + indent := by
  unfold phStart
  split
  · cases c with
    | none => simp
    | some c => simp only; omega
  · omega

theorem seg_mem {s : Src} {a b j : Nat} {x : UInt8} (h1 : a ≤ j) (h2 : j < b) (hx : s[j]? = some x) : x ∈ seg s a b := by
  induction hd : j - a generalizing a with
  | zero =>
    have : a = j := by omega
    subst this
    rw [seg_cons hx h2]; simp
  | succ d ih =>
    have hlt : a < s.size := by have := get_lt hx; omega
    have hsome : s[a]? = some s[a] := by simp [hlt]
    rw [seg_cons hsome (by omega)]
    exact List.mem_cons_of_mem _ (ih (by omega) (by omega))

theorem seg_mem_inv {s : Src} {a b : Nat} {x : UInt8} (hb : b ≤ s.size) (hx : x ∈ seg s a b) :
    ∃ j, a ≤ j ∧ j < b ∧ s[j]? = some x := by
  induction hd : b - a generalizing a with
  | zero =>
    have : seg s a b = [] := by unfold seg; rw [hd]; simp
    rw [this] at hx; cases hx
  | succ d ih =>
    have hlt : a < s.size := by omega
    have hsome : s[a]? = some s[a] := by simp [hlt]
    rw [seg_cons hsome (by omega)] at hx
    rcases List.mem_cons.mp hx with rfl | hx
    · exact ⟨a, Nat.le_refl _, by omega, hsome⟩
    · obtain ⟨j, j1, j2, j3⟩ := ih hx (by omega)
      exact ⟨j, by omega, j2, j3⟩

theorem dropTrailingWs_ne_nil {t : Bytes} {x : UInt8} (hx : x ∈ t) (hw : isTrailingWs x = false) : dropTrailingWs t ≠ [] := by
  unfold dropTrailingWs
  intro h
  have h' : t.reverse.dropWhile isTrailingWs = [] := by simpa using h
  have hall : ∀ (l : Bytes), l.dropWhile isTrailingWs = [] → ∀ y ∈ l, isTrailingWs y = true := by
    intro l
    induction l with
    | nil => intro _ y hy; cases hy
    | cons a r ih =>
      intro hd y hy
      by_cases ha : isTrailingWs a = true
      · simp only [List.dropWhile_cons, ha, if_true] at hd
        rcases List.mem_cons.mp hy with rfl | hy
        · exact ha
        · exact ih hd y hy
      · simp [List.dropWhile_cons, ha] at hd
  have := hall _ h' x (by simpa using hx)
  rw [hw] at this; cases this

theorem trimR_allWs (X W : List Item) (hW : AllWs W) : trimR (X ++ W) = trimR X := by
  unfold trimR
  rw [List.reverse_append]
  have : ∀ (Z : List Item) (Y : List Item), (∀ x ∈ Z, isWs x = true) → (Z ++ Y).dropWhile isWs = Y.dropWhile isWs := by
    intro Z Y hZ
    induction Z with
    | nil => rfl
    | cons z r ih =>
      simp only [List.cons_append, List.dropWhile_cons, hZ z (by simp), if_true]
      exact ih (fun x hx => hZ x (List.mem_cons_of_mem _ hx))
  rw [this W.reverse X.reverse (fun x hx => hW x (by simpa using hx))]

theorem fe_last (s : Src) (c : Option Nat) (lnb : Nat) (x : Placeholder) (E2 : List Placeholder) (R : List (PatElem Span))
    (h : finishElements s c lnb lnb (x :: E2) = some R) (hsv : Survivor s x) :
    flatP s R = trimR (phFlat s c x) ∧ TextsNonEmpty s R ∧ trimR (phFlat s c x) ≠ [] := by
  have htail : finishElements s c lnb (lnb + 1) E2 = some [] := by
    cases E2 with
    | nil => rfl
    | cons y r => simp [finishElements]
  cases x with
  | placeable e =>
    rw [finishElements_placeable, htail] at h
    simp only [Nat.lt_irrefl, gt_iff_lt, if_false, Option.map_some] at h
    injection h with h; subst h
    simp only [phFlat]
    rw [trimR_inr_cons]
    exact ⟨by rw [flatP_placeable, flatP_nil]; rfl, textsNonEmpty_cons_placeable (textsNonEmpty_nil s), by simp⟩
  | text start stop indent role =>
    obtain ⟨h1, h2, j, b, h3, h4, h5, h6⟩ := hsv
    have hps := phStart_le c start indent role
    rw [finishElements_text, htail] at h
    simp only [Nat.lt_irrefl, gt_iff_lt, if_false] at h
    have hne : (phStart c start indent role == stop) = false := by
      have : phStart c start indent role ≠ stop := by omega
      simpa using this
    simp only [hne, Bool.false_eq_true, if_false, beq_self_eq_true, if_true, Option.map_some] at h
    split at h
    · cases h
    · rename_i sp hsl
      obtain ⟨esp, hv⟩ := slice_eq_some hsl
      injection h with h; subst h
      have hmem : b ∈ seg s (phStart c start indent role) stop := seg_mem (by omega) h4 h5
      have hflat : chars (spanBytes s (trimEnd s sp)) = trimR (chars (seg s (phStart c start indent role) stop)) := by
        rw [FluentProofs.SpecDedent.trimEnd_eq_dropTrailingWs s sp (by rw [esp]; exact h2), trimR_chars, esp, spanBytes_eq_seg]
      have hnn : dropTrailingWs (seg s (phStart c start indent role) stop) ≠ [] := dropTrailingWs_ne_nil hmem h6
      refine ⟨by rw [flatP_text, flatP_nil, hflat]; simp [phFlat], ?_, ?_⟩
      · apply textsNonEmpty_cons_text (textsNonEmpty_nil s)
        rw [FluentProofs.SpecDedent.trimEnd_eq_dropTrailingWs s sp (by rw [esp]; exact h2), esp, spanBytes_eq_seg]
        exact hnn
      · simp only [phFlat]
        rw [trimR_chars]
        intro hc
        apply hnn
        cases hd : dropTrailingWs (seg s (phStart c start indent role) stop) with
        | nil => rfl
        | cons a t => rw [hd] at hc; simp [chars] at hc

/-- the pattern `get_pattern` builds from its final state, as a flattening: all placeholders, dedented,
minus the trailing white space -/
theorem finish_flat {s : Src} {st : PatState} {l : Nat} (hl : st.lastNonBlank = some l) (ht : TrailOK s st)
    (c : Option Nat) {R : List (PatElem Span)} (h : finishElements s c l 0 st.elements = some R) :
    flatP s R = trimR (phsFlat s c st.elements) ∧ TextsNonEmpty s R ∧ trimR (phsFlat s c st.elements) ≠ [] := by
  unfold TrailOK at ht
  rw [hl] at ht
  obtain ⟨E1, x, E2, he, hlen, hsv, hws⟩ := ht
  rw [he] at h ⊢
  obtain ⟨R1, R2, e1, e2, e3, e4⟩ := fe_prefix s c l E1 (x :: E2) 0 R (by omega) h
  rw [Nat.zero_add, hlen] at e2
  obtain ⟨f1, f2, f3⟩ := fe_last s c l x E2 R2 e2 hsv
  have hflat : trimR (phsFlat s c (E1 ++ x :: E2)) = phsFlat s c E1 ++ trimR (phFlat s c x) := by
    rw [phsFlat_append]
    simp only [phsFlat]
    rw [← List.append_assoc, trimR_allWs _ _ (hws c), trimR_append_of_ne _ _ f3]
  refine ⟨by rw [e1, flatP_append, e3, f1, hflat], by rw [e1]; exact textsNonEmpty_append e4 f2, ?_⟩
  rw [hflat]
  intro hc
  have := List.append_eq_nil_iff.mp hc
  exact f3 this.2


theorem trimL_nl_append (k : Nat) (B : List Item) (hB : ∀ t, B ≠ Sum.inl 10 :: t) : trimL (nl k ++ B) = B := by
  induction k with
  | zero =>
    simp only [nl, List.replicate_zero, List.nil_append, trimL]
    cases B with
    | nil => rfl
    | cons x r =>
      cases x with
      | inr e => simp [List.dropWhile_cons, isNl]
      | inl b =>
        have : b ≠ 10 := by intro h; subst h; exact hB r rfl
        simp [List.dropWhile_cons, isNl, this]
  | succ k ih =>
    simp only [nl, List.replicate_succ, List.cons_append, trimL, List.dropWhile_cons, isNl, beq_self_eq_true, if_true]
    exact ih

theorem allWs_nl (k : Nat) : AllWs (nl k) := by
  intro x hx
  simp only [nl, List.mem_replicate] at hx
  rw [hx.2]; rfl

theorem trimR_trimL_nl (A : List Item) (k : Nat) : trimR (trimL (A ++ nl k)) = trimR (trimL A) := by
  induction A with
  | nil =>
    have h1 : trimL ([] ++ nl k) = [] := by
      simp only [List.nil_append, trimL, nl]
      induction k with
      | zero => rfl
      | succ k ih => simp [List.replicate_succ, List.dropWhile_cons, isNl, ih]
    rw [h1]; rfl
  | cons x r ih =>
    by_cases hx : isNl x = true
    · simp only [List.cons_append, trimL, List.dropWhile_cons, hx, if_true]
      exact ih
    · simp only [List.cons_append, trimL, List.dropWhile_cons, hx, Bool.false_eq_true, if_false]
      rw [← List.cons_append]
      exact trimR_allWs _ _ (allWs_nl k)

theorem trimR_allWs_nil (W : List Item) (h : AllWs W) : trimR W = [] := by
  have := trimR_allWs [] W h
  simpa [trimR] using this

theorem flat_eq_nil_of_nonEmpty (l : List (PatElem Bytes)) (h : ∀ e ∈ l, nonEmptyEl e = true) (hf : flat l = []) : l = [] := by
  cases l with
  | nil => rfl
  | cons e r =>
    cases e with
    | placeable x => simp [flat] at hf
    | text t =>
      have := h (.text t) (by simp)
      cases t with
      | nil => simp [nonEmptyEl] at this
      | cons a b => simp [flat, chars] at hf

/-- **closing the loop**: a final state that satisfies the invariant yields exactly the grammar's pattern -/
theorem pattern_close {s : Src} {st : PatState} {acc : List RawEl} {k lead : Nat} (hI : Inv s st acc k lead)
    (hne : (finishPattern acc).isEmpty = false)
    (hfin : ∀ l, st.lastNonBlank = some l → ∃ R, finishElements s st.keptCommonIndent l 0 st.elements = some R) :
    ∃ l R, st.lastNonBlank = some l ∧ finishElements s st.keptCommonIndent l 0 st.elements = some R ∧
      jPat s R = finishPattern acc := by
  have hB : phsFlat s st.keptCommonIndent st.elements = phsFlat s (some ((commonIndent acc).getD 0)) st.elements := by
    rw [hI.kept]
    cases hc : st.commonIndent with
    | none => exact hI.noneInd hc _
    | some c => rw [← hI.ci, hc]; rfl
  have hflat : flat (finishPattern acc) = trimR (phsFlat s st.keptCommonIndent st.elements) := by
    rw [flat_finishPattern, hB]
    have hE := hI.flatEq ((commonIndent acc).getD 0)
    unfold rawFlat at hE
    rw [← trimR_trimL_nl _ k, hE, trimL_nl_append _ _ (hI.head_ne _)]
  cases hl : st.lastNonBlank with
  | none =>
    exfalso
    have ht := hI.trail
    unfold TrailOK at ht
    rw [hl] at ht
    rw [trimR_allWs_nil _ (ht _)] at hflat
    have := flat_eq_nil_of_nonEmpty _ (FluentProofs.SpecDedent.finishPattern_nonEmpty acc) hflat
    rw [this] at hne
    simp at hne
  | some l =>
    obtain ⟨R, hR⟩ := hfin l hl
    obtain ⟨f1, f2, _⟩ := finish_flat hl hI.trail st.keptCommonIndent hR
    refine ⟨l, R, rfl, hR, ?_⟩
    exact joinPat_eq_of_flat _ f2 acc (by rw [hflat]; exact f1)


/-! ## extending the invariant -/

theorem commonIndent_append_noindent (acc els : List RawEl) (h : ∀ e ∈ els, ∀ k, e ≠ .indent k) :
    commonIndent (acc ++ els) = commonIndent acc := by
  induction acc with
  | nil =>
    induction els with
    | nil => rfl
    | cons e r ih =>
      have hr := ih (fun x hx => h x (List.mem_cons_of_mem _ hx))
      cases e with
      | indent k => exact absurd rfl (h _ (by simp) k)
      | text t => simpa [commonIndent] using hr
      | placeable x => simpa [commonIndent] using hr
  | cons a t ih =>
    cases a with
    | indent k => simp only [List.cons_append, commonIndent, ih]
    | text x => simpa [commonIndent] using ih
    | placeable x => simpa [commonIndent] using ih

def minOpt (c : Option Nat) (k : Nat) : Option Nat :=
  match c with
  | some c => if k < c then some k else some c
  | none => some k

theorem commonIndent_append_block (acc : List RawEl) (t : Bytes) (k : Nat) (x : RawEl) (hx : ∀ j, x ≠ .indent j) :
    commonIndent (acc ++ [.text t, .indent k, x]) = minOpt (commonIndent acc) k := by
  induction acc with
  | nil =>
    have : commonIndent [x] = none := by
      cases x with
      | indent j => exact absurd rfl (hx j)
      | text _ => rfl
      | placeable _ => rfl
    simp [commonIndent, this, minOpt]
  | cons a r ih =>
    cases a with
    | text _ => simpa [commonIndent] using ih
    | placeable _ => simpa [commonIndent] using ih
    | indent j =>
      simp only [List.cons_append, commonIndent, ih]
      cases hc : commonIndent r with
      | none =>
        simp only [minOpt]
        by_cases h : k < j
        · simp [h]; omega
        · simp [h]; omega
      | some c =>
        simp only [minOpt]
        by_cases h1 : k < c
        · by_cases h2 : k < min j c
          · simp [h1, h2]; omega
          · simp [h1, h2]; omega
        · by_cases h2 : k < min j c
          · simp [h1, h2]; omega
          · simp [h1, h2]

/-- appending placeholders `Δ` (parser) and raw elements `els` (grammar) -/
theorem Inv.push {s : Src} {st st' : PatState} {acc : List RawEl} {k lead : Nat} (hI : Inv s st acc k lead)
    (Δ : List Placeholder) (els : List RawEl) (k' : Nat)
    (hel : st'.elements = st.elements ++ Δ)
    (hdelta : ∀ c, nl k ++ phsFlat s (some c) Δ = rawFlat c els ++ nl k')
    (hci : st'.commonIndent = commonIndent (acc ++ els))
    (hkept : st'.keptCommonIndent = st'.commonIndent)
    (htrail : TrailOK s st')
    (hnone : st'.commonIndent = none → st.commonIndent = none ∧ ∀ c, phsFlat s none Δ = phsFlat s (some c) Δ)
    (hhead : st.elements = [] → Δ = [] ∨ ∀ c, ∃ x t, phsFlat s (some c) Δ = x :: t ∧ x ≠ Sum.inl 10)
    (htx : ∀ ph ∈ Δ, TxOk s ph) : Inv s st' (acc ++ els) k' lead where
  flatEq := by
    intro c
    rw [rawFlat_append, hel, phsFlat_append, List.append_assoc, ← hdelta c, ← List.append_assoc, hI.flatEq c,
      List.append_assoc]
  ci := hci
  kept := hkept
  trail := htrail
  noneInd := by
    intro h c
    obtain ⟨h1, h2⟩ := hnone h
    rw [hel, phsFlat_append, phsFlat_append, hI.noneInd h1 c, h2 c]
  headOK := by
    rcases hI.headOK with he | hh
    · rcases hhead he with hd | hd
      · left; rw [hel, he, hd]; rfl
      · right; intro c
        obtain ⟨x, t, h1, h2⟩ := hd c
        exact ⟨x, t, by rw [hel, he, List.nil_append, h1], h2⟩
    · right; intro c
      obtain ⟨x, t, h1, h2⟩ := hh c
      exact ⟨x, t ++ phsFlat s (some c) Δ, by rw [hel, phsFlat_append, h1]; rfl, h2⟩
  txOK := by
    intro ph hph
    rw [hel] at hph
    rcases List.mem_append.mp hph with h | h
    · exact hI.txOK ph h
    · exact htx ph h

theorem trailOK_push_ws {s : Src} {st st' : PatState} (ht : TrailOK s st) (Δ : List Placeholder)
    (hel : st'.elements = st.elements ++ Δ) (hl : st'.lastNonBlank = st.lastNonBlank)
    (hws : ∀ c, AllWs (phsFlat s c Δ)) : TrailOK s st' := by
  unfold TrailOK at ht ⊢
  rw [hl]
  cases hlb : st.lastNonBlank with
  | none =>
    rw [hlb] at ht
    intro c x hx
    rw [hel, phsFlat_append] at hx
    rcases List.mem_append.mp hx with h | h
    · exact ht c x h
    · exact hws c x h
  | some l =>
    rw [hlb] at ht
    obtain ⟨E1, x, E2, h1, h2, h3, h4⟩ := ht
    refine ⟨E1, x, E2 ++ Δ, by rw [hel, h1]; simp, h2, h3, ?_⟩
    intro c y hy
    rw [phsFlat_append] at hy
    rcases List.mem_append.mp hy with h | h
    · exact h4 c y h
    · exact hws c y h

theorem trailOK_push_survivor {s : Src} {st st' : PatState} (W : List Placeholder) (x : Placeholder)
    (hel : st'.elements = st.elements ++ W ++ [x]) (hl : st'.lastNonBlank = some (st.elements ++ W).length)
    (hsv : Survivor s x) : TrailOK s st' := by
  unfold TrailOK
  rw [hl]
  exact ⟨st.elements ++ W, x, [], by rw [hel], rfl, hsv, by intro c y hy; simp [phsFlat] at hy⟩


/-! ## facts about one text slice -/

theorem getTextSlice_nb {s : Src} {p start stop q : Nat} {nb : Bool} {term : Termination}
    (h : getTextSlice s p = .ok (start, stop, nb, term) q) (hp : p ≤ s.size) :
    nb = nonBlank s p (textStop term stop) := by
  unfold getTextSlice at h
  have hng : ¬ p > s.size := by omega
  simp only [hng, if_false] at h
  split at h
  · injection h with h; injection h with _ h; injection h with h1 h; injection h with h2 h3
    subst h1; subst h2; subst h3; rfl
  · split at h
    · cases h
    · split at h
      · injection h with h; injection h with _ h; injection h with h1 h; injection h with h2 h3
        subst h1; subst h2; subst h3; rfl
      · injection h with h; injection h with _ h; injection h with h1 h; injection h with h2 h3
        subst h1; subst h2; subst h3; simp [textStop]
    · injection h with h; injection h with _ h; injection h with h1 h; injection h with h2 h3
      subst h1; subst h2; subst h3; rfl
    · cases h

theorem nonBlankGo_false (s : Src) (n a b : Nat) (hn : b - a ≤ n) (hb : b ≤ s.size) (h : nonBlankGo s n a b = false) :
    ∀ j, a ≤ j → j < b → s[j]? = some 32 := by
  induction n generalizing a with
  | zero => intro j h1 h2; omega
  | succ n ih =>
    intro j h1 h2
    simp only [nonBlankGo] at h
    have hab : a < b := by omega
    simp only [hab, if_true] at h
    have hlt : a < s.size := by omega
    have hsome : s[a]? = some s[a] := by simp [hlt]
    rw [hsome] at h
    simp only at h
    split at h
    · cases h
    · rename_i hc
      have ha : s[a] = 32 := by simpa using hc
      by_cases hj : j = a
      · subst hj; rw [hsome, ha]
      · exact ih (a + 1) (by omega) h j (by omega) h2

theorem nonBlank_false {s : Src} {a b : Nat} (hb : b ≤ s.size) (h : nonBlank s a b = false) :
    ∀ j, a ≤ j → j < b → s[j]? = some 32 :=
  nonBlankGo_false s _ a b (Nat.le_refl _) hb h

theorem nonBlankGo_true (s : Src) (n a b : Nat) (h : nonBlankGo s n a b = true) :
    ∃ j x, a ≤ j ∧ j < b ∧ s[j]? = some x ∧ x ≠ 32 := by
  induction n generalizing a with
  | zero => simp [nonBlankGo] at h
  | succ n ih =>
    simp only [nonBlankGo] at h
    split at h
    · rename_i hab
      split at h
      · rename_i c hc
        split at h
        · rename_i hne
          exact ⟨a, c, Nat.le_refl _, hab, hc, by simpa using hne⟩
        · obtain ⟨j, x, h1, h2, h3, h4⟩ := ih (a + 1) h
          exact ⟨j, x, by omega, h2, h3, h4⟩
      · cases h
    · cases h

theorem nonBlank_true {s : Src} {a b : Nat} (h : nonBlank s a b = true) :
    ∃ j x, a ≤ j ∧ j < b ∧ s[j]? = some x ∧ x ≠ 32 := nonBlankGo_true s _ a b h

def TermFacts (s : Src) (p stop q : Nat) : Termination → Prop
  | .lineFeed => s[stop - 1]? = some 10 ∧ q = stop ∧ p < stop
  | .crlf => s[stop]? = some 13 ∧ s[stop + 1]? = some 10 ∧ q = stop + 1
  | .placeableStart => s[stop]? = some 123 ∧ q = stop
  | .eof => stop = s.size ∧ q = s.size

/-- everything the loop needs to know about `get_text_slice` at `p` -/
structure SliceFacts (s : Src) (p start stop : Nat) (nb : Bool) (term : Termination) (q : Nat) : Prop where
  start_eq : start = p
  run : textRun (rest s p) = (seg s p (textStop term stop), rest s (textStop term stop))
  nbeq : nb = nonBlank s p (textStop term stop)
  bstop : Bnd s stop
  bq : Bnd s q
  ple : p ≤ textStop term stop
  stople : stop ≤ s.size
  tle : textStop term stop ≤ stop
  termf : TermFacts s p stop q term

theorem sliceFacts {s : Src} (hs : AsciiThenBoundary s) {p : Nat} (hlt : p < s.size) {start stop q : Nat} {nb : Bool}
    {term : Termination} (h : getTextSlice s p = .ok (start, stop, nb, term) q) :
    SliceFacts s p start stop nb term q := by
  have hT := textRun_eq_getTextSlice s p (by omega)
  have hG := getTextSlice_good hs p hlt
  rw [h] at hT hG
  obtain ⟨t1, t2, t3⟩ := hT
  obtain ⟨_, _, g1, g2, g3, g4, g5, g6⟩ := (good_ok _ _ _ _ _).mp hG
  simp only at g1 g2 g3 g4
  have hsz := g3.le
  have t3' : TermFacts s p stop q term := by cases term <;> exact t3
  refine ⟨t1, t2, getTextSlice_nb h (by omega), g3, g4, ?_, hsz, ?_, t3'⟩
  · cases term <;> simp only [textStop] <;> simp only [TermFacts] at t3' <;> omega
  · cases term <;> simp only [textStop] <;> omega


/-! ## side condition: text that is not blank survives the final trim -/

/-- **Side condition (excludes the deliberate deviation F30).**  Every text slice `get_text_slice` returns
that is not blank contains a byte the final trim keeps (one that is not a space, `\r` or `\n`).  It fails
exactly when some line (or line remainder) consists only of spaces and lone carriage returns — the shape of
known finding F30; it holds for every source without a lone `\r`. -/
def Surv (s : Src) : Prop :=
  ∀ p start stop nb term q, p < s.size → getTextSlice s p = .ok (start, stop, nb, term) q → nb = true →
    ∃ j b, p ≤ j ∧ j < textStop term stop ∧ s[j]? = some b ∧ isTrailingWs b = false

theorem survivesOf_true {s : Src} {a b j : Nat} {x : UInt8} (ha : Bnd s a) (hb : Bnd s b) (h1 : a ≤ j) (h2 : j < b)
    (hx : s[j]? = some x) (hw : isTrailingWs x = false) : survivesOf s a b true = some true := by
  unfold survivesOf
  have hsl : slice s a b = some ⟨a, b⟩ := slice_ok (by omega) ha hb
  simp only [if_true, hsl, Option.map_some]
  have hbytes := FluentProofs.SpecDedent.trimEnd_eq_dropTrailingWs s ⟨a, b⟩ hb.le
  have hne : dropTrailingWs (spanBytes s ⟨a, b⟩) ≠ [] := by
    rw [spanBytes_eq_seg]; exact dropTrailingWs_ne_nil (seg_mem h1 h2 hx) hw
  have : (trimEnd s ⟨a, b⟩).stop ≠ a := by
    intro heq
    apply hne
    rw [← hbytes]
    have : trimEnd s ⟨a, b⟩ = ⟨a, a⟩ := by
      cases ht : trimEnd s ⟨a, b⟩ with
      | mk st sp =>
        have h3 : st = a := by simp [trimEnd] at ht; exact ht.1.symm
        rw [ht] at heq; simp only at heq
        rw [h3, heq]
    rw [this, spanBytes_eq_seg, seg_self]
  simpa using this

theorem survivesOf_false (s : Src) (a b : Nat) : survivesOf s a b false = some false := by simp [survivesOf]

/-! ## synchronisation of the parser's cursor with the grammar's input -/

/-- mid-line (`role ≠ lineStart`) both are at the same place; at a line start the parser has already
consumed the line break(s) — `k` of them are pending on the grammar's side — and what the grammar will
read as a `blank_block` from its position is what remains to be scanned from the parser's -/
def Sync (s : Src) (role : TextPos) (p : Nat) (i : List UInt8) (k : Nat) : Prop :=
  p ≤ s.size ∧ Bnd s p ∧
    if role = .lineStart then
      blankBlock i = blankBlockScan (rest s p) (rest s p) k ∧ ∃ X, i = 10 :: X ∨ i = 13 :: 10 :: X
    else i = rest s p ∧ k = 0

theorem st2Of_mid {s : Src} {st : PatState} {p stop : Nat} {nb sv : Bool} {term : Termination}
    (hrole : st.role ≠ .lineStart) (hne : p < stop) (hsv : survivesOf s p stop nb = some sv) :
    st2Of s st p 0 p stop nb term =
      some { st with lastNonBlank := if sv then some st.elements.length else st.lastNonBlank,
                     keptCommonIndent := if sv then st.commonIndent else st.keptCommonIndent,
                     elements := st.elements ++ [.text p stop 0 st.role] } := by
  have h1 : (st.role == TextPos.lineStart) = false := by
    cases hr : st.role <;> simp_all
  have h2 : (p != stop) = true := by simp; omega
  simp [st2Of, elOf, h1, h2, hsv]
  intro h; exact absurd h hrole


/-! ## the steps: one grammar element ↔ one or more iterations of the loop -/

/-- the parser gets from `(n, st, p)` to `(n', st', p')` having read what the grammar reads as `els`, ending
at the grammar's rest `r'` -/
def Step (s : Src) (n : Nat) (st : PatState) (p : Nat) (acc : List RawEl) (lead : Nat) (els : List RawEl)
    (r' : List UInt8) : Prop :=
  ∃ n' st' p' k', getPatternLoop s n st p = getPatternLoop s n' st' p' ∧ Inv s st' (acc ++ els) k' lead ∧
    Sync s st'.role p' r' k' ∧ 4 * (s.size - p') + 1 ≤ n' ∧ p ≤ p' ∧ st'.elements ≠ []

theorem textRun_head_ne {i r : List UInt8} {b : UInt8} {t : Bytes} (h : textRun i = (b :: t, r)) :
    ∃ r0, i = b :: r0 ∧ b ≠ 123 ∧ b ≠ 125 ∧ b ≠ 10 := by
  cases i with
  | nil => simp [textRun] at h
  | cons x r0 =>
    unfold textRun at h
    split at h
    · cases h
    · rename_i b' r1 heq
      injection heq with h1 h2; subst h1; subst h2
      split at h
      · cases h
      · rename_i hc
        injection h with h1 _; injection h1 with h1 _
        subst h1
        refine ⟨r0, rfl, ?_, ?_, ?_⟩ <;> (intro hx; subst hx; simp at hc)
    · rename_i heq; cases heq

theorem blankBlock_nl (X : List UInt8) : blankBlock (10 :: X) = blankBlockScan X X 1 := by
  simp [blankBlock, blankBlockScan]
theorem blankBlock_crlf (X : List UInt8) : blankBlock (13 :: 10 :: X) = blankBlockScan X X 1 := by
  simp [blankBlock, blankBlockScan]
theorem blankBlockScan_nl (X ls : List UInt8) (k : Nat) : blankBlockScan (10 :: X) ls k = blankBlockScan X X (k + 1) := by
  simp [blankBlockScan]

theorem blankBlockScan_isSome_of_pos (i ls : List UInt8) (c : Nat) (hc : 0 < c) : (blankBlockScan i ls c).isSome = true := by
  fun_induction blankBlockScan i ls c <;> simp_all
  all_goals omega

/-- **T**: `inline_text` in the middle of a line -/
theorem step_text {s : Src} (hs : AsciiThenBoundary s) (hSurv : Surv s) {n : Nat} {st : PatState} {p : Nat}
    {acc : List RawEl} {lead : Nat} (hI : Inv s st acc 0 lead) (hrole : st.role ≠ .lineStart)
    (hp : p ≤ s.size) (hbp : Bnd s p) {b : UInt8} {t : Bytes} {r' : List UInt8}
    (hrun : textRun (rest s p) = (b :: t, r')) (hnc : ∀ t', r' ≠ 125 :: t') (hn : 4 * (s.size - p) + 1 ≤ n) :
    Step s n st p acc lead [.text (b :: t)] r' := by
  obtain ⟨r0, hr0, hb1, hb2, hb3⟩ := textRun_head_ne hrun
  have hbp0 := rest_head hr0
  have hlt := get_lt hbp0
  obtain ⟨n0, rfl⟩ : ∃ n0, n = n0 + 1 := ⟨n - 1, by omega⟩
  have h123 : isCurrentByte s p 123 = false := by simp [isCurrentByte, hbp0, hb1]
  have hpre : preOf s st p = some (0, p) := by
    have : (st.role == TextPos.lineStart) = false := by cases hr : st.role <;> simp_all
    simp [preOf, this]
  unfold Step
  rw [loop_unfold s n0 st p hlt h123, hpre]
  simp only
  have hT := textRun_eq_getTextSlice s p hp
  rcases hts : getTextSlice s p with ⟨⟨start, stop, nb, term⟩, q⟩ | ⟨e, q⟩ | m | _
  · have hF := sliceFacts hs hlt hts
    have hstart := hF.start_eq
    subst hstart
    have hrun2 := hF.run
    rw [hrun] at hrun2
    injection hrun2 with e1 e2
    have hts_lt : start < textStop term stop := by
      by_cases hc : start < textStop term stop
      · exact hc
      · have : textStop term stop = start := by have := hF.ple; omega
        rw [this, seg_self] at e1; cases e1
    have hstop := hF.tle
    -- does the slice survive the trim?
    have hsv : ∃ sv, survivesOf s start stop nb = some sv ∧ (nb = true → sv = true ∧
        ∃ j x, start ≤ j ∧ j < stop ∧ s[j]? = some x ∧ isTrailingWs x = false) ∧ (nb = false → sv = false) := by
      cases hnb : nb with
      | true =>
        obtain ⟨j, x, j1, j2, j3, j4⟩ := hSurv start start stop nb term q hlt hts hnb
        exact ⟨true, survivesOf_true hbp hF.bstop j1 (by omega) j3 j4, fun _ => ⟨rfl, j, x, j1, by omega, j3, j4⟩,
          fun h => (by cases h)⟩
      | false => exact ⟨false, survivesOf_false s start stop, fun h => (by cases h), fun _ => rfl⟩
    obtain ⟨sv, hsv1, hsv2, hsv3⟩ := hsv
    simp only
    rw [st2Of_mid hrole (by omega) hsv1]
    simp only
    -- pending line breaks and the new synchronisation
    have hk : ∃ k', (∀ c : Nat, nl 0 ++ chars (seg s start stop) = chars (b :: t) ++ nl k') ∧
        Sync s (roleOf term) q r' k' ∧ start < q ∧ q ≤ s.size := by
      have htf := hF.termf
      cases term with
      | lineFeed =>
        simp only [TermFacts] at htf
        simp only [textStop] at e1 e2 hts_lt
        obtain ⟨f1, f2, f3⟩ := htf
        subst f2
        refine ⟨1, ?_, ⟨hF.stople, hF.bq, ?_⟩, by omega, hF.stople⟩
        · intro c
          rw [e1, FluentProofs.SpecDedent.seg_snoc (s := s) (a := start) (e := q) f3 f1]
          simp [nl, chars]
        · simp only [roleOf, if_true]
          have hrq : rest s (q - 1) = 10 :: rest s q := by
            have := rest_cons f1
            rwa [show q - 1 + 1 = q by omega] at this
          rw [e2, hrq, blankBlock_nl]
          exact ⟨rfl, _, by first | exact Or.inl rfl | exact Or.inr rfl⟩
      | crlf =>
        simp only [TermFacts] at htf
        simp only [textStop] at e1 e2 hts_lt
        obtain ⟨f1, f2, f3⟩ := htf
        subst f3
        have hlt2 := get_lt f2
        refine ⟨0, ?_, ⟨by omega, hF.bq, ?_⟩, by omega, by omega⟩
        · intro c; rw [e1]; simp [nl]
        · simp only [roleOf, if_true]
          have h1 : rest s stop = 13 :: 10 :: rest s (stop + 1 + 1) := by
            rw [rest_cons f1, rest_cons f2]
          rw [e2, h1, blankBlock_crlf, rest_cons f2, blankBlockScan_nl]
          exact ⟨rfl, _, by first | exact Or.inl rfl | exact Or.inr rfl⟩
      | placeableStart =>
        simp only [TermFacts] at htf
        simp only [textStop] at e1 e2 hts_lt
        obtain ⟨f1, f2⟩ := htf
        subst f2
        refine ⟨0, ?_, ⟨hF.stople, hF.bq, ?_⟩, by omega, hF.stople⟩
        · intro c; rw [e1]; simp [nl]
        · simp only [roleOf]; exact ⟨e2, by trivial⟩
      | eof =>
        simp only [TermFacts] at htf
        simp only [textStop] at e1 e2 hts_lt
        obtain ⟨f1, f2⟩ := htf
        subst f2
        refine ⟨0, ?_, ⟨Nat.le_refl _, hF.bq, ?_⟩, by omega, Nat.le_refl _⟩
        · intro c; rw [e1, f1]; simp [nl]
        · simp only [roleOf]; exact ⟨by rw [e2, f1], by trivial⟩
    obtain ⟨k', hdelta, hsync', hq1, hq2⟩ := hk
    refine ⟨n0, _, q, k', rfl, ?_, hsync', by omega, by omega, by simp⟩
    have hph : ∀ c, phsFlat s c [Placeholder.text start stop 0 st.role] = chars (seg s start stop) := by
      intro c
      have : phStart c start 0 st.role = start := by
        unfold phStart
        have : (st.role == TextPos.lineStart) = false := by cases hr : st.role <;> simp_all
        simp [this]
      simp [phsFlat, phFlat, this]
    apply hI.push [.text start stop 0 st.role] [.text (b :: t)] k'
    · rfl
    · intro c; rw [hph, rawFlat_text]; exact hdelta c
    · simp only
      rw [hI.ci, commonIndent_append_noindent]
      intro e he k; simp at he; subst he; exact RawEl.noConfusion
    · simp only
      cases sv with
      | true => simp
      | false => simpa using hI.kept
    · cases hnb : nb with
      | true =>
        obtain ⟨e1', j, x, j1, j2, j3, j4⟩ := hsv2 hnb
        subst e1'
        have hsvv : Survivor s (Placeholder.text start stop 0 st.role) := ⟨by omega, hF.stople, j, x, by omega, j2, j3, j4⟩
        exact trailOK_push_survivor (st := st) [] (Placeholder.text start stop 0 st.role) (by simp) (by simp) hsvv
      | false =>
        have := hsv3 hnb
        subst this
        apply trailOK_push_ws hI.trail [.text start stop 0 st.role] (by simp) (by simp)
        intro c
        rw [hph]
        -- only spaces, then perhaps the line feed
        intro y hy
        simp only [chars, List.mem_map] at hy
        obtain ⟨x, hx, rfl⟩ := hy
        have hsp := nonBlank_false (s := s) (a := start) (b := textStop term stop) (by have := hF.stople; omega)
          (by rw [← hF.nbeq]; exact hnb)
        -- x is at some index j of the slice
        obtain ⟨j, hj1, hj2, hj3⟩ := seg_mem_inv hF.stople hx
        by_cases hjt : j < textStop term stop
        · have := hsp j hj1 hjt
          rw [hj3] at this; injection this with this; subst this; rfl
        · cases term with
          | lineFeed =>
            have htf := hF.termf
            simp only [TermFacts] at htf
            simp only [textStop] at hjt
            have : j = stop - 1 := by omega
            subst this
            rw [htf.1] at hj3; injection hj3 with hj3; subst hj3; rfl
          | crlf => simp only [textStop] at hjt; omega
          | placeableStart => simp only [textStop] at hjt; omega
          | eof => simp only [textStop] at hjt; omega
    · intro hnone
      exact ⟨hnone, fun c => by rw [hph, hph]⟩
    · intro _
      right
      intro c
      rw [hph]
      have : seg s start stop = b :: seg s (start + 1) stop := seg_cons hbp0 (by omega)
      rw [this]
      exact ⟨Sum.inl b, _, rfl, by intro h; injection h with h; exact hb3 h⟩
    · intro ph hph'
      simp only [List.mem_singleton] at hph'
      subst hph'
      exact ⟨by omega, hF.stople, fun j hj => by omega⟩
  · rw [hts] at hT
    obtain ⟨h1, h2⟩ := hT
    rw [hrun] at h2
    injection h2 with _ e2
    exact absurd (by rw [e2]; exact rest_cons h1) (hnc _)
  · rw [hts] at hT; exact hT.elim
  · rw [hts] at hT; exact hT.elim


theorem getPlaceable_bnd {s : Src} (hs : AsciiThenBoundary s) {n p q : Nat} {e : Expr Span}
    (h : getPlaceable s n p = .ok e q) (hp : p ≤ s.size) (hn : 4 * (s.size - p) + 3 ≤ n) : Bnd s q ∧ p ≤ q := by
  have := (specs_all hs n).placeable p hp hn
  rw [h] at this
  obtain ⟨h1, _, h3, _⟩ := (good_ok _ _ _ _ _).mp this
  exact ⟨h3, h1⟩

/-- **IP**: `inline_placeable` in the middle of a line -/
theorem step_placeable {s : Src} (hs : AsciiThenBoundary s) {m : Nat} (hpl : PlaceableRef s m) {n : Nat} {st : PatState}
    {p : Nat} {acc : List RawEl} {lead : Nat} (hI : Inv s st acc 0 lead) (hrole : st.role ≠ .lineStart)
    {e : Expr Bytes} {r' : List UInt8} (hip : inlinePlaceable m (rest s p) = .ok e r')
    (hn : 4 * (s.size - p) + 1 ≤ n) :
    Step s n st p acc lead [.placeable e] r' := by
  obtain ⟨t0, ht0⟩ := inlinePlaceable_head hip
  have h123 := rest_head ht0
  have hlt := get_lt h123
  obtain ⟨n0, rfl⟩ : ∃ n0, n = n0 + 1 := ⟨n - 1, by omega⟩
  obtain ⟨e', q, g1, g2, g3, g4⟩ := hpl n0 p e r' hip (by omega)
  obtain ⟨hbq, hpq⟩ := getPlaceable_bnd hs g1 (by omega) (by omega)
  have hr : (st.role == TextPos.lineStart) = false := by cases hr : st.role <;> simp_all
  unfold Step
  rw [loop_placeable s n0 st p hlt h123 g1]
  simp only [hr, Bool.false_eq_true, if_false]
  refine ⟨n0, _, q, 0, rfl, ?_, ⟨g3, hbq, by simp [g4]⟩, by omega, by omega, by simp⟩
  have hph : ∀ c, phsFlat s c [Placeholder.placeable e'] = [Sum.inr e] := by
    intro c; simp [phsFlat, phFlat, g2]
  apply hI.push [.placeable e'] [.placeable e] 0
  · rfl
  · intro c; rw [hph, rawFlat_placeable]; simp [nl]
  · simp only
    rw [hI.ci, commonIndent_append_noindent]
    intro x hx k; simp at hx; subst hx; exact RawEl.noConfusion
  · rfl
  · exact trailOK_push_survivor (st := st) [] (Placeholder.placeable e') (by simp) (by simp) trivial
  · intro hnone
    exact ⟨hnone, fun c => by rw [hph, hph]⟩
  · intro _
    right; intro c
    rw [hph]
    exact ⟨_, _, rfl, by intro h; cases h⟩
  · intro ph hph'
    simp only [List.mem_singleton] at hph'
    subst hph'
    trivial


/-! ## line ends and blank lines -/

theorem Inv.congr {s : Src} {st st' : PatState} {acc : List RawEl} {k lead : Nat} (hI : Inv s st acc k lead)
    (h1 : st'.elements = st.elements) (h2 : st'.lastNonBlank = st.lastNonBlank)
    (h3 : st'.commonIndent = st.commonIndent) (h4 : st'.keptCommonIndent = st.keptCommonIndent) :
    Inv s st' acc k lead where
  flatEq := by rw [h1]; exact hI.flatEq
  ci := by rw [h3]; exact hI.ci
  kept := by rw [h3, h4]; exact hI.kept
  trail := by
    have := hI.trail
    unfold TrailOK at this ⊢
    rw [h1, h2]; exact this
  noneInd := by rw [h1, h3]; exact hI.noneInd
  headOK := by rw [h1]; exact hI.headOK
  txOK := by rw [h1]; exact hI.txOK

theorem scan_skip_spaces (s : Src) (ls : List UInt8) (c p : Nat) :
    blankBlockScan (rest s p) ls c = blankBlockScan (rest s (skipBlankInline s p)) ls c :=
  scan_spaces_go s ls c (s.size - p) p (Nat.le_refl _)

/-- the slice `get_text_slice` returns at a line feed -/
theorem slice_at_lf {s : Src} (hs : AsciiThenBoundary s) {p : Nat} (h10 : s[p]? = some 10) :
    ∃ nb, getTextSlice s p = .ok (p, p + 1, nb, .lineFeed) (p + 1) ∧ nb = false := by
  have hlt := get_lt h10
  have hT := textRun_eq_getTextSlice s p (by omega)
  rcases hts : getTextSlice s p with ⟨⟨start, stop, nb, term⟩, q⟩ | ⟨e, q⟩ | m | _
  · have hF := sliceFacts hs hlt hts
    have hrun := hF.run
    rw [rest_cons h10, textRun_special _ (Or.inl rfl)] at hrun
    injection hrun with e1 e2
    have hts0 : textStop term stop = p := by
      by_cases hc : p < textStop term stop
      · have := seg_ne_nil (s := s) hc (by have := hF.stople; have := hF.tle; omega)
        exact absurd e1.symm this
      · have := hF.ple; omega
    have hst := hF.start_eq
    have htf := hF.termf
    cases term with
    | lineFeed =>
      simp only [textStop] at hts0
      simp only [TermFacts] at htf
      have : stop = p + 1 := by omega
      subst this
      obtain ⟨_, f2, _⟩ := htf
      subst f2; subst hst
      refine ⟨nb, rfl, ?_⟩
      rw [hF.nbeq]
      simp [textStop, nonBlank, nonBlankGo]
    | crlf =>
      simp only [textStop] at hts0; simp only [TermFacts] at htf
      rw [hts0, h10] at htf; cases htf.1
    | placeableStart =>
      simp only [textStop] at hts0; simp only [TermFacts] at htf
      rw [hts0, h10] at htf; cases htf.1
    | eof =>
      simp only [textStop] at hts0; simp only [TermFacts] at htf
      omega
  · rw [hts] at hT
    rw [rest_cons h10, textRun_special _ (Or.inl rfl)] at hT
    obtain ⟨h1, h2⟩ := hT
    injection h2 with e1 e2
    have : q = p := by
      by_cases hc : p < q
      · have := seg_ne_nil (s := s) hc (by have := get_lt h1; omega)
        exact absurd e1.symm this
      · have hpq : rest s q = rest s p := by rw [← e2, ← rest_cons h10]
        have := rest_inj (by have := get_lt h1; omega) (by omega) hpq
        omega
    subst this
    rw [h10] at h1; cases h1
  · rw [hts] at hT; exact hT.elim
  · rw [hts] at hT; exact hT.elim

/-- … and at a CRLF: an empty slice, the cursor on the line feed -/
theorem slice_at_crlf {s : Src} (hs : AsciiThenBoundary s) {p : Nat} (h13 : s[p]? = some 13) (h10 : s[p + 1]? = some 10) :
    ∃ nb, getTextSlice s p = .ok (p, p, nb, .crlf) (p + 1) := by
  have hlt := get_lt h13
  have hT := textRun_eq_getTextSlice s p (by omega)
  have hrest : rest s p = 13 :: 10 :: rest s (p + 1 + 1) := by rw [rest_cons h13, rest_cons h10]
  rcases hts : getTextSlice s p with ⟨⟨start, stop, nb, term⟩, q⟩ | ⟨e, q⟩ | m | _
  · have hF := sliceFacts hs hlt hts
    have hrun := hF.run
    rw [hrest, textRun_crlf] at hrun
    injection hrun with e1 e2
    have hts0 : textStop term stop = p := by
      by_cases hc : p < textStop term stop
      · have := seg_ne_nil (s := s) hc (by have := hF.stople; have := hF.tle; omega)
        exact absurd e1.symm this
      · have := hF.ple; omega
    have hst := hF.start_eq
    have htf := hF.termf
    cases term with
    | lineFeed =>
      simp only [textStop] at hts0; simp only [TermFacts] at htf
      have : stop = p + 1 := by omega
      subst this
      simp only [Nat.add_sub_cancel] at htf
      rw [h13] at htf; cases htf.1
    | crlf =>
      simp only [textStop] at hts0; simp only [TermFacts] at htf
      subst hts0; subst hst
      obtain ⟨_, _, f3⟩ := htf
      subst f3
      exact ⟨nb, rfl⟩
    | placeableStart =>
      simp only [textStop] at hts0; simp only [TermFacts] at htf
      rw [hts0, h13] at htf; cases htf.1
    | eof =>
      simp only [textStop] at hts0; simp only [TermFacts] at htf
      omega
  · rw [hts] at hT
    rw [hrest, textRun_crlf] at hT
    obtain ⟨h1, h2⟩ := hT
    injection h2 with e1 e2
    have : q = p := by
      by_cases hc : p < q
      · have := seg_ne_nil (s := s) hc (by have := get_lt h1; omega)
        exact absurd e1.symm this
      · have hpq : rest s q = rest s p := by rw [← e2, ← hrest]
        have := rest_inj (by have := get_lt h1; omega) (by omega) hpq
        omega
    subst this
    rw [h13] at h1; cases h1
  · rw [hts] at hT; exact hT.elim
  · rw [hts] at hT; exact hT.elim


theorem lineEnd_cases {s : Src} {p : Nat} (hlt : p < s.size) (h : (lineEnd (rest s p)).isSome = true) :
    s[p]? = some 10 ∨ (s[p]? = some 13 ∧ s[p + 1]? = some 10) := by
  have hT := lineEnd_eq_skipEol s p
  rw [hT] at h
  cases hse : skipEol s p with
  | none =>
    rw [hse] at h
    have : ¬ s.size ≤ p := by omega
    simp [this] at h
  | some q =>
    unfold skipEol at hse
    split at hse
    · rename_i h10; exact Or.inl h10
    · rename_i h13
      split at hse
      · rename_i h2; exact Or.inr ⟨h13, by simpa using h2⟩
      · cases hse
    · cases hse

theorem st2Of_empty {s : Src} {st : PatState} {p indent start : Nat} {nb : Bool} {term : Termination}
    (hterm : term ≠ .placeableStart ∨ st.role ≠ .lineStart) :
    st2Of s st p indent start start nb term = some st := by
  have : (st.role == TextPos.lineStart && term == Termination.placeableStart) = false := by
    rcases hterm with h | h
    · cases term <;> simp_all
    · cases hr : st.role <;> simp_all
  simp [st2Of, this]

/-- a line end in the middle of a line (after a placeable): the parser moves to the next line start -/
theorem shift_lineend {s : Src} (hs : AsciiThenBoundary s) {n : Nat} {st : PatState} {p : Nat}
    {acc : List RawEl} {lead : Nat} (hI : Inv s st acc 0 lead) (hrole : st.role ≠ .lineStart)
    (hne : st.elements ≠ []) (hlt : p < s.size) (hbp : Bnd s p)
    (hle : (lineEnd (rest s p)).isSome = true) (hn : 4 * (s.size - p) + 1 ≤ n) :
    ∃ n' st' p' k', getPatternLoop s n st p = getPatternLoop s n' st' p' ∧ Inv s st' acc k' lead ∧
      st'.role = .lineStart ∧ Sync s .lineStart p' (rest s p) k' ∧ 4 * (s.size - p') + 1 ≤ n' ∧ p < p' ∧
      st'.elements ≠ [] := by
  obtain ⟨n0, rfl⟩ : ∃ n0, n = n0 + 1 := ⟨n - 1, by omega⟩
  have hpre : preOf s st p = some (0, p) := by
    have : (st.role == TextPos.lineStart) = false := by cases hr : st.role <;> simp_all
    simp [preOf, this]
  rcases lineEnd_cases hlt hle with h10 | ⟨h13, h10⟩
  · have h123 : isCurrentByte s p 123 = false := by simp [isCurrentByte, h10]
    obtain ⟨nb, hts, hnb⟩ := slice_at_lf hs h10
    subst hnb
    rw [loop_unfold s n0 st p hlt h123, hpre]
    simp only [hts]
    rw [st2Of_mid hrole (by omega) (survivesOf_false s p (p + 1))]
    simp only [Bool.false_eq_true, if_false, roleOf]
    have hbq : Bnd s (p + 1) := bnd_succ hs h10 (by decide)
    refine ⟨n0, _, p + 1, 1, rfl, ?_, rfl, ⟨by omega, hbq, ?_⟩, by omega, by omega, by simp⟩
    · have hph : ∀ c, phsFlat s c [Placeholder.text p (p + 1) 0 st.role] = nl 1 := by
        intro c
        have : phStart c p 0 st.role = p := by
          unfold phStart
          have : (st.role == TextPos.lineStart) = false := by cases hr : st.role <;> simp_all
          simp [this]
        simp [phsFlat, phFlat, this, seg_one h10, chars, nl]
      rw [← List.append_nil acc]
      apply hI.push [.text p (p + 1) 0 st.role] [] 1
      · rfl
      · intro c; rw [hph]; simp [rawFlat, flat, nl]
      · simp only [List.append_nil]; exact hI.ci
      · exact hI.kept
      · exact trailOK_push_ws hI.trail [.text p (p + 1) 0 st.role] rfl rfl (by intro c; rw [hph]; exact allWs_nl 1)
      · intro hnone; exact ⟨hnone, fun c => by rw [hph, hph]⟩
      · intro h; exact absurd h hne
      · intro ph hph'
        simp only [List.mem_singleton] at hph'
        subst hph'
        exact ⟨by omega, by omega, fun j hj => by omega⟩
    · simp only [if_true]
      rw [rest_cons h10, blankBlock_nl]
      exact ⟨rfl, _, by first | exact Or.inl rfl | exact Or.inr rfl⟩
  · have h123 : isCurrentByte s p 123 = false := by simp [isCurrentByte, h13]
    obtain ⟨nb, hts⟩ := slice_at_crlf hs h13 h10
    have hlt2 := get_lt h10
    rw [loop_unfold s n0 st p hlt h123, hpre]
    simp only [hts]
    rw [st2Of_empty (Or.inl (by decide))]
    simp only [roleOf]
    have hbq : Bnd s (p + 1) := bnd_of_ascii h10 (by decide)
    refine ⟨n0, _, p + 1, 0, rfl, hI.congr rfl rfl rfl rfl, rfl, ⟨by omega, hbq, ?_⟩, by omega, by omega, hne⟩
    simp only [if_true]
    rw [rest_cons h13, rest_cons h10, blankBlock_crlf, blankBlockScan_nl]
    exact ⟨rfl, _, by first | exact Or.inl rfl | exact Or.inr rfl⟩


/-- the line at `p` (after its leading spaces) is not a blank line: end of input or a byte that does not
start a line end -/
def NonBlankLine (s : Src) (p : Nat) : Prop :=
  s[skipBlankInline s p]? = none ∨
    ∃ b, s[skipBlankInline s p]? = some b ∧ b ≠ 10 ∧ ¬ (b = 13 ∧ s[skipBlankInline s p + 1]? = some 10)

theorem line_cases (s : Src) (p : Nat) :
    s[skipBlankInline s p]? = some 10 ∨
    (s[skipBlankInline s p]? = some 13 ∧ s[skipBlankInline s p + 1]? = some 10) ∨ NonBlankLine s p := by
  unfold NonBlankLine
  cases h : s[skipBlankInline s p]? with
  | none => exact Or.inr (Or.inr (Or.inl rfl))
  | some b =>
    by_cases h10 : b = 10
    · subst h10; exact Or.inl rfl
    · by_cases hc : b = 13 ∧ s[skipBlankInline s p + 1]? = some 10
      · exact Or.inr (Or.inl ⟨by rw [hc.1], hc.2⟩)
      · exact Or.inr (Or.inr (Or.inr ⟨b, rfl, h10, hc⟩))

theorem st2Of_blank {s : Src} {st : PatState} {p indent p1 : Nat} (hrole : st.role = .lineStart) :
    st2Of s st p indent p1 (p1 + 1) false .lineFeed =
      some { st with elements := st.elements ++ [.text p1 (p1 + 1) 0 .lineStart] } := by
  have h2 : (p1 != p1 + 1) = true := by simp
  simp [st2Of, elOf, survivesOf, hrole, h2, usub]

theorem line_start_not_brace {s : Src} {p : Nat} {b : UInt8} (hb : s[skipBlankInline s p]? = some b) (hne : b ≠ 123) :
    isCurrentByte s p 123 = false := by
  by_cases hp : skipBlankInline s p = p
  · rw [hp] at hb; simp [isCurrentByte, hb, hne]
  · have hle := (skipBlankInline_after s p).le
    have := skipBlankInline_spaces s p p (Nat.le_refl _) (by omega)
    simp [isCurrentByte, this]

/-- one blank line at a line start -/
theorem shift_blank {s : Src} (hs : AsciiThenBoundary s) {n : Nat} {st : PatState} {p : Nat}
    {acc : List RawEl} {k lead : Nat} (hI : Inv s st acc k lead) (hrole : st.role = .lineStart)
    (hne : st.elements ≠ []) (hp : p ≤ s.size) (hbp : Bnd s p)
    (hblank : s[skipBlankInline s p]? = some 10 ∨
      (s[skipBlankInline s p]? = some 13 ∧ s[skipBlankInline s p + 1]? = some 10))
    (hn : 4 * (s.size - p) + 1 ≤ n) :
    ∃ n' st' p' k', getPatternLoop s n st p = getPatternLoop s n' st' p' ∧ Inv s st' acc k' lead ∧
      st'.role = .lineStart ∧ p' ≤ s.size ∧ Bnd s p' ∧
      blankBlockScan (rest s p') (rest s p') k' = blankBlockScan (rest s p) (rest s p) k ∧
      4 * (s.size - p') + 1 ≤ n' ∧ p < p' ∧ st'.elements ≠ [] := by
  have hle := (skipBlankInline_after s p).le
  have hb1 : Bnd s (skipBlankInline s p) := (skipBlankInline_after s p).bnd hs hbp
  have hscan := scan_skip_spaces s (rest s p) k p
  rcases hblank with h10 | ⟨h13, h10⟩
  · have hlt1 := get_lt h10
    obtain ⟨n0, rfl⟩ : ∃ n0, n = n0 + 1 := ⟨n - 1, by omega⟩
    have h123 := line_start_not_brace h10 (by decide)
    have hpre : preOf s st p = some (skipBlankInline s p - p, skipBlankInline s p) := by
      have he : isEol s (skipBlankInline s p) = true := by simp [isEol, h10]
      have hc : isBytePatternContinuation 10 = true := by decide
      simp only [preOf, hrole, beq_self_eq_true, if_true, h10]
      split <;> simp [he, hc]
    obtain ⟨nb, hts, hnb⟩ := slice_at_lf hs h10
    subst hnb
    rw [loop_unfold s n0 st p (by omega) h123, hpre]
    simp only [hts]
    rw [st2Of_blank hrole]
    simp only [roleOf]
    have hbq : Bnd s (skipBlankInline s p + 1) := bnd_succ hs h10 (by decide)
    refine ⟨n0, _, skipBlankInline s p + 1, k + 1, rfl, ?_, rfl, by omega, hbq, ?_, by omega, by omega, by simp⟩
    · have hph : ∀ c, phsFlat s c [Placeholder.text (skipBlankInline s p) (skipBlankInline s p + 1) 0 .lineStart] = nl 1 := by
        intro c
        have : phStart c (skipBlankInline s p) 0 .lineStart = skipBlankInline s p := by
          unfold phStart; cases c <;> simp
        simp [phsFlat, phFlat, this, seg_one h10, chars, nl]
      rw [← List.append_nil acc]
      apply hI.push [.text (skipBlankInline s p) (skipBlankInline s p + 1) 0 .lineStart] [] (k + 1)
      · rfl
      · intro c; rw [hph]; simp [rawFlat, flat, nl, List.replicate_succ']
      · simp only [List.append_nil]; exact hI.ci
      · exact hI.kept
      · exact trailOK_push_ws hI.trail _ rfl rfl (by intro c; rw [hph]; exact allWs_nl 1)
      · intro hnone; exact ⟨hnone, fun c => by rw [hph, hph]⟩
      · intro h; exact absurd h hne
      · intro ph hph'
        simp only [List.mem_singleton] at hph'
        subst hph'
        exact ⟨by omega, by omega, fun j hj => by omega⟩
    · rw [hscan, rest_cons h10, blankBlockScan_nl]
  · have hlt1 := get_lt h10
    obtain ⟨n0, rfl⟩ : ∃ n0, n = n0 + 1 := ⟨n - 1, by omega⟩
    have h123 := line_start_not_brace h13 (by decide)
    have hpre : preOf s st p = some (skipBlankInline s p - p, skipBlankInline s p) := by
      have he : isEol s (skipBlankInline s p) = true := by simp [isEol, h13, h10]
      have hc : isBytePatternContinuation 13 = true := by decide
      simp only [preOf, hrole, beq_self_eq_true, if_true, h13]
      split <;> simp [he, hc]
    obtain ⟨nb, hts⟩ := slice_at_crlf hs h13 h10
    rw [loop_unfold s n0 st p (by omega) h123, hpre]
    simp only [hts]
    rw [st2Of_empty (Or.inl (by decide))]
    simp only [roleOf]
    have hbq : Bnd s (skipBlankInline s p + 1) := bnd_of_ascii h10 (by decide)
    refine ⟨n0, _, skipBlankInline s p + 1, k, rfl, hI.congr rfl rfl rfl rfl, rfl, by omega, hbq, ?_, by omega, by omega, hne⟩
    rw [hscan, rest_cons h13, rest_cons h10]
    simp [blankBlockScan]


/-- at a line start the parser runs through the blank lines that follow -/
theorem s2_skip {s : Src} (hs : AsciiThenBoundary s) : ∀ (d p : Nat), s.size - p ≤ d →
    ∀ (n : Nat) (st : PatState) (acc : List RawEl) (k lead : Nat), Inv s st acc k lead → st.role = .lineStart →
      (st.elements ≠ [] ∨ NonBlankLine s p) → p ≤ s.size → Bnd s p → 4 * (s.size - p) + 1 ≤ n →
      ∃ n' st' p' k', getPatternLoop s n st p = getPatternLoop s n' st' p' ∧ Inv s st' acc k' lead ∧
        st'.role = .lineStart ∧ p' ≤ s.size ∧ Bnd s p' ∧
        blankBlockScan (rest s p') (rest s p') k' = blankBlockScan (rest s p) (rest s p) k ∧
        4 * (s.size - p') + 1 ≤ n' ∧ p ≤ p' ∧ NonBlankLine s p' ∧ (st.elements ≠ [] → st'.elements ≠ []) := by
  intro d
  induction d with
  | zero =>
    intro p hd n st acc k lead hI hrole hne hp hbp hn
    have hps : p = s.size := by omega
    have hnb : NonBlankLine s p := by
      left
      have := (skipBlankInline_after s p).le
      simp; omega
    exact ⟨n, st, p, k, rfl, hI, hrole, hp, hbp, rfl, hn, Nat.le_refl _, hnb, id⟩
  | succ d ih =>
    intro p hd n st acc k lead hI hrole hne hp hbp hn
    rcases line_cases s p with h | h | h
    · have hne' : st.elements ≠ [] := by
        rcases hne with h1 | h1
        · exact h1
        · exfalso
          rcases h1 with h2 | ⟨b, h2, h3, _⟩
          · rw [h] at h2; cases h2
          · rw [h] at h2; injection h2 with h2; exact h3 h2.symm
      obtain ⟨n1, st1, p1, k1, e1, e2, e3, e4, e5, e6, e7, e8, e9⟩ := shift_blank hs hI hrole hne' hp hbp (Or.inl h) hn
      obtain ⟨n2, st2, p2, k2, f1, f2, f3, f4, f5, f6, f7, f8, f9, f10⟩ :=
        ih p1 (by omega) n1 st1 acc k1 lead e2 e3 (Or.inl e9) e4 e5 e7
      exact ⟨n2, st2, p2, k2, by rw [e1, f1], f2, f3, f4, f5, by rw [f6, e6], f7, by omega, f9, fun _ => f10 e9⟩
    · have hne' : st.elements ≠ [] := by
        rcases hne with h1 | h1
        · exact h1
        · exfalso
          rcases h1 with h2 | ⟨b, h2, h3, h4⟩
          · rw [h.1] at h2; cases h2
          · rw [h.1] at h2; injection h2 with h2; exact h4 ⟨h2.symm, h.2⟩
      obtain ⟨n1, st1, p1, k1, e1, e2, e3, e4, e5, e6, e7, e8, e9⟩ := shift_blank hs hI hrole hne' hp hbp (Or.inr h) hn
      obtain ⟨n2, st2, p2, k2, f1, f2, f3, f4, f5, f6, f7, f8, f9, f10⟩ :=
        ih p1 (by omega) n1 st1 acc k1 lead e2 e3 (Or.inl e9) e4 e5 e7
      exact ⟨n2, st2, p2, k2, by rw [e1, f1], f2, f3, f4, f5, by rw [f6, e6], f7, by omega, f9, fun _ => f10 e9⟩
    · exact ⟨n, st, p, k, rfl, hI, hrole, hp, hbp, rfl, hn, Nat.le_refl _, h, id⟩


/-! ## a non-blank line at a line start -/

theorem skipEol_none_of_nonblank {s : Src} {p1 : Nat}
    (h : s[p1]? = none ∨ ∃ b, s[p1]? = some b ∧ b ≠ 10 ∧ ¬ (b = 13 ∧ s[p1 + 1]? = some 10)) : skipEol s p1 = none := by
  unfold skipEol
  rcases h with h | ⟨b, h1, h2, h3⟩
  · simp [h]
  · rw [h1]
    split
    · rename_i heq; injection heq with heq; exact absurd heq h2
    · rename_i heq; injection heq with heq
      split
      · rename_i h10; exact absurd ⟨heq, by simpa using h10⟩ h3
      · rfl
    · rfl

theorem scan_nonblank (s : Src) (p k : Nat) (h : NonBlankLine s p) :
    blankBlockScan (rest s p) (rest s p) k =
      if s.size ≤ skipBlankInline s p then some (k, []) else if k == 0 then none else some (k, rest s p) := by
  rw [scan_skip_spaces, scan_line s (rest s p) k _ (skipBlankInline_stop s p), skipEol_none_of_nonblank h]

/-- what follows a text slice: the pending line breaks and the new synchronisation -/
theorem after_slice {s : Src} {p1 start stop q : Nat} {nb : Bool} {term : Termination}
    (hF : SliceFacts s p1 start stop nb term q) (hlt : p1 < textStop term stop) :
    ∃ k', chars (seg s p1 stop) = chars (seg s p1 (textStop term stop)) ++ nl k' ∧
      Sync s (roleOf term) q (rest s (textStop term stop)) k' ∧ p1 < q ∧ q ≤ s.size := by
  have htf := hF.termf
  cases term with
  | lineFeed =>
    simp only [TermFacts] at htf
    simp only [textStop] at hlt ⊢
    obtain ⟨f1, f2, f3⟩ := htf
    subst f2
    refine ⟨1, ?_, ⟨hF.stople, hF.bq, ?_⟩, by omega, hF.stople⟩
    · rw [FluentProofs.SpecDedent.seg_snoc (s := s) (a := p1) (e := q) f3 f1]
      simp [nl, chars]
    · simp only [roleOf, if_true]
      have hrq : rest s (q - 1) = 10 :: rest s q := by
        have := rest_cons f1
        rwa [show q - 1 + 1 = q by omega] at this
      rw [hrq, blankBlock_nl]
      exact ⟨rfl, _, by first | exact Or.inl rfl | exact Or.inr rfl⟩
  | crlf =>
    simp only [TermFacts] at htf
    simp only [textStop] at hlt ⊢
    obtain ⟨f1, f2, f3⟩ := htf
    subst f3
    have hlt2 := get_lt f2
    refine ⟨0, by simp [nl], ⟨by omega, hF.bq, ?_⟩, by omega, by omega⟩
    simp only [roleOf, if_true]
    have h1 : rest s stop = 13 :: 10 :: rest s (stop + 1 + 1) := by rw [rest_cons f1, rest_cons f2]
    rw [h1, blankBlock_crlf, rest_cons f2, blankBlockScan_nl]
    exact ⟨rfl, _, by first | exact Or.inl rfl | exact Or.inr rfl⟩
  | placeableStart =>
    simp only [TermFacts] at htf
    simp only [textStop] at hlt ⊢
    obtain ⟨f1, f2⟩ := htf
    subst f2
    refine ⟨0, by simp [nl], ⟨hF.stople, hF.bq, ?_⟩, by omega, hF.stople⟩
    simp only [roleOf]; simp
  | eof =>
    simp only [TermFacts] at htf
    simp only [textStop] at hlt ⊢
    obtain ⟨f1, f2⟩ := htf
    subst f2
    refine ⟨0, by simp [nl], ⟨Nat.le_refl _, hF.bq, ?_⟩, by omega, Nat.le_refl _⟩
    simp only [roleOf]; exact ⟨by rw [f1], by trivial⟩

theorem st2Of_textline {s : Src} {st : PatState} {p indent p1 stop : Nat} {term : Termination}
    (hrole : st.role = .lineStart) (hne : p1 < stop) (hsv : survivesOf s p1 stop true = some true) :
    st2Of s st p indent p1 stop true term =
      some { st with commonIndent := minOpt st.commonIndent indent,
                     lastNonBlank := some st.elements.length,
                     keptCommonIndent := minOpt st.commonIndent indent,
                     elements := st.elements ++ [.text p stop indent .lineStart] } := by
  have h2 : (p1 != stop) = true := by simp; omega
  have h3 : (p1 == stop) = false := by simp; omega
  simp only [st2Of, elOf, hrole, h2, h3, hsv, minOpt]
  cases st.commonIndent <;> simp


theorem startsIndentedChar_facts {i : List UInt8} (h : startsIndentedChar i = true) :
    ∃ b r, i = b :: r ∧ b ≠ 123 ∧ b ≠ 125 ∧ b ≠ 10 ∧ b ≠ 91 ∧ b ≠ 42 ∧ b ≠ 46 ∧ ∃ t r', textRun i = (b :: t, r') := by
  cases i with
  | nil => simp [startsIndentedChar] at h
  | cons b r =>
    unfold startsIndentedChar at h
    split at h
    · cases h
    · rename_i b' r0 hnc heq
      injection heq with e1 e2; subst e1; subst e2
      have hb : b ≠ 123 ∧ b ≠ 125 ∧ b ≠ 10 ∧ b ≠ 91 ∧ b ≠ 42 ∧ b ≠ 46 := by
        simp only [Bool.not_eq_true', Bool.or_eq_false_iff, beq_eq_false_iff_ne] at h
        obtain ⟨⟨⟨⟨⟨h1, h2⟩, h3⟩, h4⟩, h5⟩, h6⟩ := h
        exact ⟨h1, h2, h3, h4, h5, h6⟩
      refine ⟨b, r, rfl, hb.1, hb.2.1, hb.2.2.1, hb.2.2.2.1, hb.2.2.2.2.1, hb.2.2.2.2.2, ?_⟩
      by_cases h13 : b = 13
      · subst h13
        cases r with
        | nil => exact ⟨[], [], by simp [textRun]⟩
        | cons c r2 =>
          have hc : c ≠ 10 := by intro hc; subst hc; exact hnc r2 rfl rfl
          exact ⟨_, _, textRun_cr_other r2 hc⟩
      · exact ⟨_, _, textRun_plain r hb.2.2.1 hb.1 hb.2.1 h13⟩
    · rename_i heq; cases heq

/-- **BT**: `block_text` — a continuation line that starts with text -/
theorem step_blockText {s : Src} (hs : AsciiThenBoundary s) (hSurv : Surv s) {n : Nat} {st : PatState} {p : Nat}
    {acc : List RawEl} {k lead : Nat} {i : List UInt8} (hI : Inv s st acc k lead) (hrole : st.role = .lineStart)
    (hp : p ≤ s.size) (hbp : Bnd s p) (hnb : NonBlankLine s p)
    (hsync : blankBlock i = blankBlockScan (rest s p) (rest s p) k)
    {els : List RawEl} {r' : List UInt8} (hbt : blockText i = some (els, r'))
    (hnc : ∀ t', r' ≠ 125 :: t') (hn : 4 * (s.size - p) + 1 ≤ n) :
    Step s n st p acc lead els r' := by
  have hp1le := (skipBlankInline_after s p).le
  have hp1s := (skipBlankInline_after s p).le_size hp
  have hb1 : Bnd s (skipBlankInline s p) := (skipBlankInline_after s p).bnd hs hbp
  unfold blockText at hbt
  rw [hsync, scan_nonblank s p k hnb] at hbt
  split at hbt
  · rename_i c r1 hbb
    split at hbb
    · -- only spaces up to the end of input: no block text
      injection hbb with hbb; injection hbb with _ e2; subst e2
      simp [blankInline] at hbt
    · split at hbb
      · cases hbb
      · rename_i hk0
        injection hbb with hbb; injection hbb with e1 e2; subst e1; subst e2
        split at hbt
        · rename_i r2 hbi
          -- the indent
          have h32 : s[p]? = some 32 := by
            rcases rest_cases s p with ⟨_, g2⟩ | ⟨b, g1, g2⟩
            · rw [g2] at hbi; simp [blankInline] at hbi
            · rw [g2] at hbi
              by_cases hb : b = 32
              · subst hb; exact g1
              · exfalso
                unfold blankInline at hbi
                split at hbi
                · rename_i heq; injection heq with hx _; exact hb hx
                · cases hbi
          have hr2 : r2 = rest s (skipBlankInline s p) := by
            rw [rest_cons h32] at hbi
            simp only [blankInline] at hbi
            injection hbi with hbi
            rw [← hbi, ← spaces_eq_skipBlankInline, rest_cons h32]
            simp [spaces]
          subst hr2
          have hp1gt : p < skipBlankInline s p := by
            by_cases hc : p < skipBlankInline s p
            · exact hc
            · have : skipBlankInline s p = p := by omega
              have := skipBlankInline_stop s p
              rw [‹skipBlankInline s p = p›] at this
              exact absurd h32 this
          split at hbt
          · rename_i hind
            obtain ⟨b, rb, hb0, b1, b2, b3, b4, b5, b6, t, r3, hrun⟩ := startsIndentedChar_facts hind
            rw [hrun] at hbt
            simp only at hbt
            injection hbt with hbt; injection hbt with e1 e2; subst e1; subst e2
            have hsb := rest_head hb0
            have hlt1 := get_lt hsb
            have hindent : (rest s p).length - (rest s (skipBlankInline s p)).length = skipBlankInline s p - p := by
              simp only [rest_length]; omega
            rw [hindent]
            obtain ⟨n0, rfl⟩ : ∃ n0, n = n0 + 1 := ⟨n - 1, by omega⟩
            have h123 : isCurrentByte s p 123 = false := by simp [isCurrentByte, h32]
            have hpre : preOf s st p = some (skipBlankInline s p - p, skipBlankInline s p) := by
              have hne0 : (skipBlankInline s p - p == 0) = false := by simp; omega
              have hcont : isBytePatternContinuation b = true := by
                simp [isBytePatternContinuation, b6, b2, b4, b5]
              simp [preOf, hrole, hsb, hne0, hcont]
            unfold Step
            rw [loop_unfold s n0 st p (by omega) h123, hpre]
            simp only
            have hT := textRun_eq_getTextSlice s (skipBlankInline s p) hp1s
            rcases hts : getTextSlice s (skipBlankInline s p) with ⟨⟨start, stop, nb, term⟩, q⟩ | ⟨e, q⟩ | m | _
            · have hF := sliceFacts hs hlt1 hts
              have hstart := hF.start_eq
              subst hstart
              have hrun2 := hF.run
              rw [hrun] at hrun2
              injection hrun2 with e1 e2
              have hts_lt : skipBlankInline s p < textStop term stop := by
                by_cases hc : skipBlankInline s p < textStop term stop
                · exact hc
                · have : textStop term stop = skipBlankInline s p := by have := hF.ple; omega
                  rw [this, seg_self] at e1; cases e1
              have hstop := hF.tle
              -- the line is not blank
              have hnbt : nb = true := by
                rw [hF.nbeq]
                have : nonBlank s (skipBlankInline s p) (textStop term stop) = true := by
                  cases hx : nonBlank s (skipBlankInline s p) (textStop term stop) with
                  | true => rfl
                  | false =>
                    have := nonBlank_false (s := s) (by have := hF.stople; omega) hx (skipBlankInline s p) (Nat.le_refl _) hts_lt
                    exact absurd this (skipBlankInline_stop s p)
                exact this
              subst hnbt
              obtain ⟨j, x, j1, j2, j3, j4⟩ := hSurv _ _ stop true term q hlt1 hts rfl
              have hsv := survivesOf_true hb1 hF.bstop j1 (by omega : j < stop) j3 j4
              simp only
              rw [st2Of_textline hrole (by omega) hsv]
              simp only
              obtain ⟨k', hd1, hsync', hq1, hq2⟩ := after_slice hF hts_lt
              rw [← e2] at hsync'
              refine ⟨n0, _, q, k', rfl, ?_, hsync', by omega, by omega, by simp⟩
              have hsp := skipBlankInline_spaces s p
              have hph : ∀ c : Nat, phsFlat s (some c) [Placeholder.text p stop (skipBlankInline s p - p) .lineStart] =
                  sps (skipBlankInline s p - p - c) ++ chars (seg s (skipBlankInline s p) stop) := by
                intro c
                have h1 : phStart (some c) p (skipBlankInline s p - p) .lineStart = p + min (skipBlankInline s p - p) c := by
                  simp [phStart]
                have h2 := FluentProofs.SpecDedent.dedent_offset s p stop (skipBlankInline s p - p) c
                  (fun j' hj1 hj2 => hsp j' hj1 (by omega)) (by omega)
                simp only [spanBytes_eq_seg] at h2
                rw [show p + (skipBlankInline s p - p) = skipBlankInline s p by omega] at h2
                simp only [phsFlat, phFlat, h1, List.append_nil, h2, chars_append,
                  FluentProofs.SpecDedent.dedentText_eq, chars_replicate, sps]
              apply hI.push [.text p stop (skipBlankInline s p - p) .lineStart]
                [.text (newlines k), .indent (skipBlankInline s p - p), .text (b :: t)] k'
              · rfl
              · intro c
                rw [hph c, hd1, ← e1]
                have : rawFlat c [RawEl.text (newlines k), RawEl.indent (skipBlankInline s p - p), RawEl.text (b :: t)] =
                    nl k ++ sps (skipBlankInline s p - p - c) ++ chars (b :: t) := by
                  simp [rawFlat, dedent, flat, chars, newlines, nl, sps]
                rw [this]; simp
              · simp only
                rw [hI.ci, commonIndent_append_block]
                intro j'; exact RawEl.noConfusion
              · rfl
              · have hsvv : Survivor s (Placeholder.text p stop (skipBlankInline s p - p) .lineStart) :=
                  ⟨by omega, hF.stople, j, x, by omega, by omega, j3, j4⟩
                exact trailOK_push_survivor (st := st) [] _ (by simp) (by simp) hsvv
              · intro hnone
                simp only [minOpt] at hnone
                split at hnone
                · split at hnone <;> cases hnone
                · cases hnone
              · intro _
                right; intro c
                rw [hph c]
                have hseg : seg s (skipBlankInline s p) stop = b :: seg s (skipBlankInline s p + 1) stop :=
                  seg_cons hsb (by omega)
                by_cases hz : skipBlankInline s p - p - c = 0
                · rw [hz, hseg]
                  exact ⟨Sum.inl b, chars (seg s (skipBlankInline s p + 1) stop), by simp [sps, chars],
                    by intro h; injection h with h; exact b3 h⟩
                · obtain ⟨z, hz'⟩ : ∃ z, skipBlankInline s p - p - c = z + 1 := ⟨_, (Nat.succ_pred_eq_of_ne_zero hz).symm⟩
                  rw [hz']
                  exact ⟨Sum.inl 32, sps z ++ chars (seg s (skipBlankInline s p) stop), by simp [sps, List.replicate_succ],
                    by intro h; injection h with h; cases h⟩
              · intro ph hph'
                simp only [List.mem_singleton] at hph'
                subst hph'
                exact ⟨by omega, hF.stople, fun j' hj => hsp (p + j') (by omega) (by omega)⟩
            · rw [hts] at hT
              obtain ⟨h1, h2⟩ := hT
              rw [hrun] at h2
              injection h2 with _ e2
              exact absurd (by rw [e2]; exact rest_cons h1) (hnc _)
            · rw [hts] at hT; exact hT.elim
            · rw [hts] at hT; exact hT.elim
          · cases hbt
        · cases hbt
  · cases hbt


theorem minOpt_zero (c : Option Nat) : minOpt c 0 = some 0 := by
  cases c with
  | none => rfl
  | some c => simp only [minOpt]; split <;> simp; omega

theorem st2Of_placeableLed {s : Src} {st : PatState} {p indent p1 : Nat} (hrole : st.role = .lineStart) :
    st2Of s st p indent p1 p1 false .placeableStart =
      some { st with commonIndent := minOpt st.commonIndent indent,
                     elements := st.elements ++ [.text p p1 indent .lineStart] } := by
  simp only [st2Of, elOf, survivesOf, hrole, minOpt]
  cases st.commonIndent <;> simp

/-- the empty slice in front of a placeable -/
theorem slice_at_brace {s : Src} (hs : AsciiThenBoundary s) {p : Nat} (h123 : s[p]? = some 123) :
    ∃ nb, getTextSlice s p = .ok (p, p, nb, .placeableStart) p ∧ nb = false := by
  have hlt := get_lt h123
  have hT := textRun_eq_getTextSlice s p (by omega)
  rcases hts : getTextSlice s p with ⟨⟨start, stop, nb, term⟩, q⟩ | ⟨e, q⟩ | m | _
  · have hF := sliceFacts hs hlt hts
    have hrun := hF.run
    rw [rest_cons h123, textRun_special _ (Or.inr (Or.inl rfl))] at hrun
    injection hrun with e1 e2
    have hts0 : textStop term stop = p := by
      by_cases hc : p < textStop term stop
      · have := seg_ne_nil (s := s) hc (by have := hF.stople; have := hF.tle; omega)
        exact absurd e1.symm this
      · have := hF.ple; omega
    have hst := hF.start_eq
    have htf := hF.termf
    cases term with
    | lineFeed =>
      simp only [textStop] at hts0; simp only [TermFacts] at htf
      have : stop = p + 1 := by omega
      subst this
      simp only [Nat.add_sub_cancel] at htf
      rw [h123] at htf; cases htf.1
    | crlf =>
      simp only [textStop] at hts0; simp only [TermFacts] at htf
      rw [hts0, h123] at htf; cases htf.1
    | placeableStart =>
      simp only [textStop] at hts0; simp only [TermFacts] at htf
      subst hts0; subst hst
      obtain ⟨_, f2⟩ := htf
      subst f2
      refine ⟨nb, rfl, ?_⟩
      rw [hF.nbeq]; simp [textStop, nonBlank, nonBlankGo]
    | eof =>
      simp only [textStop] at hts0; simp only [TermFacts] at htf
      omega
  · rw [hts] at hT
    rw [rest_cons h123, textRun_special _ (Or.inr (Or.inl rfl))] at hT
    obtain ⟨h1, h2⟩ := hT
    injection h2 with e1 e2
    have : q = p := by
      by_cases hc : p < q
      · have := seg_ne_nil (s := s) hc (by have := get_lt h1; omega)
        exact absurd e1.symm this
      · have hpq : rest s q = rest s p := by rw [← e2, ← rest_cons h123]
        have := rest_inj (by have := get_lt h1; omega) (by omega) hpq
        omega
    subst this
    rw [h123] at h1; cases h1
  · rw [hts] at hT; exact hT.elim
  · rw [hts] at hT; exact hT.elim

/-- **BP**: `block_placeable` — a continuation line that starts with a placeable -/
theorem step_blockPlaceable {s : Src} (hs : AsciiThenBoundary s) {m : Nat} (hpl : PlaceableRef s m) {n : Nat}
    {st : PatState} {p : Nat} {acc : List RawEl} {k lead : Nat} {i : List UInt8} (hI : Inv s st acc k lead)
    (hrole : st.role = .lineStart) (hp : p ≤ s.size) (hbp : Bnd s p) (hnb : NonBlankLine s p)
    (hsync : blankBlock i = blankBlockScan (rest s p) (rest s p) k)
    {c : Nat} {r1 : List UInt8} (hbb : blankBlock i = some (c, r1))
    {e : Expr Bytes} {r' : List UInt8} (hip : inlinePlaceable m (spaces r1) = .ok e r')
    (hn : 4 * (s.size - p) + 1 ≤ n) :
    Step s n st p acc lead [.text (newlines c), .indent (r1.length - (spaces r1).length), .placeable e] r' := by
  have hp1le := (skipBlankInline_after s p).le
  have hp1s := (skipBlankInline_after s p).le_size hp
  have hb1 : Bnd s (skipBlankInline s p) := (skipBlankInline_after s p).bnd hs hbp
  rw [hsync, scan_nonblank s p k hnb] at hbb
  obtain ⟨t0, ht0⟩ := inlinePlaceable_head hip
  split at hbb
  · injection hbb with hbb; injection hbb with _ e2; subst e2
    simp [spaces] at ht0
  · split at hbb
    · cases hbb
    · rename_i hk0
      injection hbb with hbb; injection hbb with e1 e2; subst e1; subst e2
      rw [spaces_eq_skipBlankInline] at hip ht0 ⊢
      have h123 := rest_head ht0
      have hlt1 := get_lt h123
      have hindent : (rest s p).length - (rest s (skipBlankInline s p)).length = skipBlankInline s p - p := by
        simp only [rest_length]; omega
      rw [hindent]
      obtain ⟨n0, rfl⟩ : ∃ n0, n = n0 + 1 := ⟨n - 1, by omega⟩
      by_cases hp0 : skipBlankInline s p = p
      · -- the placeable starts in column 0
        rw [hp0] at hip h123 hlt1 ⊢
        obtain ⟨e', q, g1, g2, g3, g4⟩ := hpl n0 p e r' hip (by omega)
        obtain ⟨hbq, hpq⟩ := getPlaceable_bnd hs g1 (by omega) (by omega)
        unfold Step
        rw [loop_placeable s n0 st p hlt1 h123 g1]
        simp only [hrole, beq_self_eq_true, if_true]
        refine ⟨n0, _, q, 0, rfl, ?_, ⟨g3, hbq, by simp [g4]⟩, by omega, by omega, by simp⟩
        have hph : ∀ c, phsFlat s c [Placeholder.placeable e'] = [Sum.inr e] := by
          intro c; simp [phsFlat, phFlat, g2]
        apply hI.push [.placeable e'] [.text (newlines k), .indent (p - p), .placeable e] 0
        · rfl
        · intro c
          rw [hph]
          simp [rawFlat, dedent, flat, chars, newlines, nl]
        · simp only
          rw [commonIndent_append_block _ _ _ _ (by intro j; exact RawEl.noConfusion), Nat.sub_self, minOpt_zero]
        · rfl
        · exact trailOK_push_survivor (st := st) [] (Placeholder.placeable e') (by simp) (by simp) trivial
        · intro hnone; cases hnone
        · intro _
          right; intro c
          rw [hph]
          exact ⟨_, _, rfl, by intro h; cases h⟩
        · intro ph hph'
          simp only [List.mem_singleton] at hph'
          subst hph'
          trivial
      · -- an indented placeable: the indent is a text slice of its own
        have hp1gt : p < skipBlankInline s p := by omega
        have hsp := skipBlankInline_spaces s p
        have h32 : s[p]? = some 32 := hsp p (Nat.le_refl _) hp1gt
        have hb123 : isCurrentByte s p 123 = false := by simp [isCurrentByte, h32]
        have hpre : preOf s st p = some (skipBlankInline s p - p, skipBlankInline s p) := by
          have hne0 : (skipBlankInline s p - p == 0) = false := by simp; omega
          have hcont : isBytePatternContinuation 123 = true := by decide
          simp [preOf, hrole, h123, hne0, hcont]
        obtain ⟨nb, hts, hnbf⟩ := slice_at_brace hs h123
        subst hnbf
        obtain ⟨n1, rfl⟩ : ∃ n1, n0 = n1 + 1 := ⟨n0 - 1, by omega⟩
        obtain ⟨e', q, g1, g2, g3, g4⟩ := hpl n1 (skipBlankInline s p) e r' hip (by omega)
        obtain ⟨hbq, hpq⟩ := getPlaceable_bnd hs g1 (by omega) (by omega)
        unfold Step
        rw [loop_unfold s (n1 + 1) st p (by omega) hb123, hpre]
        simp only [hts]
        rw [st2Of_placeableLed hrole]
        simp only [roleOf]
        rw [loop_placeable s n1 _ (skipBlankInline s p) hlt1 h123 g1]
        simp only [beq_iff_eq, reduceCtorEq, if_false]
        refine ⟨n1, _, q, 0, rfl, ?_, ⟨g3, hbq, by simp [g4]⟩, by omega, by omega, by simp⟩
        have hph : ∀ c : Nat, phsFlat s (some c) [Placeholder.text p (skipBlankInline s p) (skipBlankInline s p - p) .lineStart,
            Placeholder.placeable e'] = sps (skipBlankInline s p - p - c) ++ [Sum.inr e] := by
          intro c
          have h1 : phStart (some c) p (skipBlankInline s p - p) .lineStart = p + min (skipBlankInline s p - p) c := by
            simp [phStart]
          have h2 := FluentProofs.SpecDedent.seg_spaces s (p + min (skipBlankInline s p - p) c)
            (skipBlankInline s p - p - c) (fun j' hj1 hj2 => hsp j' (by omega) (by omega))
          rw [show p + min (skipBlankInline s p - p) c + (skipBlankInline s p - p - c) = skipBlankInline s p by omega] at h2
          simp only [phsFlat, phFlat, h1, h2, chars_replicate, sps, g2, List.append_nil]
        apply hI.push [.text p (skipBlankInline s p) (skipBlankInline s p - p) .lineStart, .placeable e']
          [.text (newlines k), .indent (skipBlankInline s p - p), .placeable e] 0
        · simp
        · intro c
          rw [hph c]
          simp [rawFlat, dedent, flat, chars, newlines, nl, sps]
        · simp only
          rw [hI.ci, commonIndent_append_block _ _ _ _ (by intro j; exact RawEl.noConfusion)]
        · rfl
        · exact trailOK_push_survivor (st := st) [.text p (skipBlankInline s p) (skipBlankInline s p - p) .lineStart]
            (Placeholder.placeable e') (by simp) (by simp) trivial
        · intro hnone
          simp only [minOpt] at hnone
          split at hnone
          · split at hnone <;> cases hnone
          · cases hnone
        · intro _
          right; intro c
          rw [hph c]
          by_cases hz : skipBlankInline s p - p - c = 0
          · rw [hz]; exact ⟨Sum.inr e, [], by simp [sps], by intro h; cases h⟩
          · obtain ⟨z, hz'⟩ : ∃ z, skipBlankInline s p - p - c = z + 1 := ⟨_, (Nat.succ_pred_eq_of_ne_zero hz).symm⟩
            rw [hz']
            exact ⟨Sum.inl 32, sps z ++ [Sum.inr e], by simp [sps, List.replicate_succ], by intro h; injection h with h; cases h⟩
        · intro ph hph'
          simp only [List.mem_cons, List.mem_singleton, List.not_mem_nil, or_false] at hph'
          rcases hph' with rfl | rfl
          · exact ⟨by omega, hp1s, fun j' hj => hsp (p + j') (by omega) (by omega)⟩
          · trivial


/-! ## the end of a pattern -/

theorem blankOpt_spaces (i : List UInt8) : blankOpt (spaces i) = blankOpt i := by
  fun_induction spaces i <;> simp_all [blankOpt]

theorem blankOpt_nonblank {s : Src} {p1 : Nat} {b : UInt8} (h : s[p1]? = some b) (h32 : b ≠ 32) (h10 : b ≠ 10)
    (hcr : ¬ (b = 13 ∧ s[p1 + 1]? = some 10)) : blankOpt (rest s p1) = rest s p1 := by
  rw [rest_cons h]
  by_cases h13 : b = 13
  · subst h13
    rcases rest_cases s (p1 + 1) with ⟨_, g2⟩ | ⟨c, g1, g2⟩
    · rw [g2]; exact blankOpt_cr_eof
    · rw [g2]
      have : c ≠ 10 := by intro hc; subst hc; exact hcr ⟨rfl, g1⟩
      exact blankOpt_cr_other _ this
  · exact blankOpt_other _ h32 h10 h13

/-- at a line start with a non-blank line that does not continue the pattern, the loop ends -/
theorem end_s2 {s : Src} {n : Nat} {st : PatState} {p k : Nat} {i : List UInt8} (hrole : st.role = .lineStart)
    (hp : p ≤ s.size) (hnb : NonBlankLine s p)
    (hsync : blankBlock i = blankBlockScan (rest s p) (rest s p) k) (hX : ∃ X, i = 10 :: X ∨ i = 13 :: 10 :: X)
    (hfol : PatFollow i) (hn : 1 ≤ n) :
    ∃ q, getPatternLoop s n st p = .ok st q ∧ rest s q = afterBlank i ∧ q ≤ s.size := by
  obtain ⟨n0, rfl⟩ : ∃ n0, n = n0 + 1 := ⟨n - 1, by omega⟩
  have hp1le := (skipBlankInline_after s p).le
  have hp1s := (skipBlankInline_after s p).le_size hp
  have hbsome : (blankBlock i).isSome = true := by
    obtain ⟨X, h | h⟩ := hX
    · rw [h, blankBlock_nl]; exact blankBlockScan_isSome_of_pos _ _ 1 (by omega)
    · rw [h, blankBlock_crlf]; exact blankBlockScan_isSome_of_pos _ _ 1 (by omega)
  have hscan := scan_nonblank s p k hnb
  rw [← hsync] at hscan
  rcases hnb with hnone | ⟨b, hb, hb10, hbcr⟩
  · -- only spaces up to the end of input
    have hsz : s.size ≤ skipBlankInline s p := by simpa using hnone
    simp only [hsz, if_true] at hscan
    have haft : afterBlank i = [] := by simp [afterBlank, hscan]
    by_cases hlt : p < s.size
    · have h123 : isCurrentByte s p 123 = false := by
        by_cases hpp : skipBlankInline s p = p
        · omega
        · have := skipBlankInline_spaces s p p (Nat.le_refl _) (by omega)
          simp [isCurrentByte, this]
      have hpre : preOf s st p = none := by simp [preOf, hrole, hnone]
      rw [loop_unfold s n0 st p hlt h123, hpre]
      refine ⟨skipBlankInline s p, by simp [pEndOf, hnone], ?_, hp1s⟩
      rw [haft]; exact rest_eq_nil_iff.mpr hsz
    · refine ⟨p, loop_exit s n0 st p (by omega), ?_, hp⟩
      rw [haft]; exact rest_eq_nil_iff.mpr (by omega)
  · have hlt1 := get_lt hb
    have hnsz : ¬ s.size ≤ skipBlankInline s p := by omega
    simp only [hnsz, if_false] at hscan
    have hk0 : (k == 0) = false := by
      cases hk : (k == 0) with
      | false => rfl
      | true => rw [hk] at hscan; simp at hscan; rw [hscan] at hbsome; cases hbsome
    rw [hk0] at hscan
    simp only [Bool.false_eq_true, if_false] at hscan
    have haft : afterBlank i = rest s p := by simp [afterBlank, hscan]
    have hb32 : b ≠ 32 := by intro h; subst h; exact skipBlankInline_stop s p hb
    -- the first non-blank byte
    have hbo : blankOpt i = rest s (skipBlankInline s p) := by
      rw [← blankOpt_afterBlank, haft, ← blankOpt_spaces, spaces_eq_skipBlankInline]
      exact blankOpt_nonblank hb hb32 hb10 hbcr
    obtain ⟨hf1, hf2⟩ := hfol.2 b _ (by rw [hbo]; exact rest_cons hb)
    have h123 := line_start_not_brace hb hf1
    have hnotEol : isEol s (skipBlankInline s p) = false := by
      unfold isEol
      rw [hb]
      split
      · rename_i heq; injection heq with heq; exact absurd heq hb10
      · rename_i heq; injection heq with heq
        cases h2 : s[skipBlankInline s p + 1]? == some 10 with
        | false => rfl
        | true => exact absurd ⟨heq, by simpa using h2⟩ hbcr
      · rename_i heq; cases heq
      · rfl
    have hpre : preOf s st p = none ∧ pEndOf s p = p := by
      by_cases hpp : skipBlankInline s p = p
      · have hb' : s[p]? = some b := by rw [← hpp]; exact hb
        have hne' : isEol s p = false := by rw [← hpp]; exact hnotEol
        constructor
        · simp [preOf, hrole, hpp, hb', hne']
        · simp [pEndOf, hpp, hb']
      · have hne0 : (skipBlankInline s p - p == 0) = false := by simp; omega
        have hspecial : isBytePatternContinuation b = false := by
          rcases hf2 with h | h | h | h | h
          · subst h; decide
          · subst h; decide
          · subst h; decide
          · subst h; decide
          · exfalso
            rw [haft] at h
            have h32 := skipBlankInline_spaces s p p (Nat.le_refl _) (by omega)
            have := rest_head h
            rw [h32] at this
            injection this with this
            exact hb32 this.symm
        constructor
        · simp [preOf, hrole, hb, hne0, hspecial]
        · simp [pEndOf, hb, hne0, hspecial]
    rw [loop_unfold s n0 st p (by omega) h123, hpre.1]
    exact ⟨p, by simp [hpre.2], haft.symm, hp⟩


/-- when the grammar stands at a line end, the parser gets to the start of the next non-blank line
(or both are at the end of input) -/
theorem to_nonblank {s : Src} (hs : AsciiThenBoundary s) {n : Nat} {st : PatState} {p : Nat} {acc : List RawEl}
    {k lead : Nat} {i : List UInt8} (hI : Inv s st acc k lead) (hsync : Sync s st.role p i k)
    (hi : i = [] ∨ ∃ X, i = 10 :: X ∨ i = 13 :: 10 :: X)
    (hinit : st.elements ≠ [] ∨ (st.role = .lineStart ∧ NonBlankLine s p) ∨ (st.role ≠ .lineStart ∧ i = []))
    (hn : 4 * (s.size - p) + 1 ≤ n) :
    (i = [] ∧ st.role ≠ .lineStart ∧ p = s.size) ∨
    ∃ n' st' p' k', getPatternLoop s n st p = getPatternLoop s n' st' p' ∧ Inv s st' acc k' lead ∧
      st'.role = .lineStart ∧ p' ≤ s.size ∧ Bnd s p' ∧
      blankBlock i = blankBlockScan (rest s p') (rest s p') k' ∧ (∃ X, i = 10 :: X ∨ i = 13 :: 10 :: X) ∧
      NonBlankLine s p' ∧ 4 * (s.size - p') + 1 ≤ n' ∧ p ≤ p' ∧ (st.elements ≠ [] → st'.elements ≠ []) := by
  obtain ⟨hp, hbp, hsy⟩ := hsync
  by_cases hrole : st.role = .lineStart
  · simp only [hrole, if_true] at hsy
    obtain ⟨hsc, hX⟩ := hsy
    have hinit' : st.elements ≠ [] ∨ NonBlankLine s p := by
      rcases hinit with h | ⟨_, h⟩ | ⟨h, _⟩
      · exact Or.inl h
      · exact Or.inr h
      · exact absurd hrole h
    obtain ⟨n2, st2, p2, k2, f1, f2, f3, f4, f5, f6, f7, f8, f9, f10⟩ :=
      s2_skip hs (s.size - p) p (Nat.le_refl _) n st acc k lead hI hrole hinit' hp hbp hn
    exact Or.inr ⟨n2, st2, p2, k2, f1, f2, f3, f4, f5, by rw [f6, hsc], hX, f9, f7, f8, f10⟩
  · simp only [hrole, if_false] at hsy
    obtain ⟨hi0, hk0⟩ := hsy
    subst hk0
    rcases hi with hnil | hX
    · left
      refine ⟨hnil, hrole, ?_⟩
      rw [hi0] at hnil
      have := rest_eq_nil_iff.mp hnil
      omega
    · right
      have hlt : p < s.size := by
        obtain ⟨X, h | h⟩ := hX <;> (rw [hi0] at h; exact rest_lt h)
      have hne : st.elements ≠ [] := by
        rcases hinit with h | ⟨h, _⟩ | ⟨_, h⟩
        · exact h
        · exact absurd h hrole
        · obtain ⟨X, h' | h'⟩ := hX <;> (rw [h] at h'; cases h')
      have hle : (lineEnd (rest s p)).isSome = true := by
        obtain ⟨X, h | h⟩ := hX <;> (rw [← hi0, h]; simp [lineEnd])
      obtain ⟨n1, st1, p1, k1, e1, e2, e3, ⟨e4a, e4b, e4c⟩, e5, e6, e7⟩ := shift_lineend hs hI hrole hne hlt hbp hle hn
      simp only [if_true] at e4c
      obtain ⟨n2, st2, p2, k2, f1, f2, f3, f4, f5, f6, f7, f8, f9, f10⟩ :=
        s2_skip hs (s.size - p1) p1 (Nat.le_refl _) n1 st1 acc k1 lead e2 e3 (Or.inl e7) e4a e4b e5
      refine ⟨n2, st2, p2, k2, by rw [e1, f1], f2, f3, f4, f5, ?_, hX, f9, f7, by omega, fun _ => f10 e7⟩
      rw [f6, hi0, e4c.1]


/-! ## the loop against `PatternElement*` -/

theorem lineEnd_isSome_cases {i : List UInt8} (h : (lineEnd i).isSome = true) :
    i = [] ∨ ∃ X, i = 10 :: X ∨ i = 13 :: 10 :: X := by
  unfold lineEnd at h
  split at h
  · rename_i r; exact Or.inr ⟨r, Or.inr rfl⟩
  · rename_i r; exact Or.inr ⟨r, Or.inl rfl⟩
  · exact Or.inl rfl
  · cases h

theorem textRun_lineend {i : List UInt8} (h : ∃ X, i = 10 :: X ∨ i = 13 :: 10 :: X) : textRun i = ([], i) := by
  obtain ⟨X, h | h⟩ := h
  · rw [h]; exact textRun_special _ (Or.inl rfl)
  · rw [h]; exact textRun_crlf _

theorem textRun_empty_cases {i i' : List UInt8} (h : textRun i = ([], i')) :
    i = [] ∨ (∃ X, i = 10 :: X ∨ i = 13 :: 10 :: X) ∨ ∃ t, i = 123 :: t ∨ i = 125 :: t := by
  cases i with
  | nil => exact Or.inl rfl
  | cons b r =>
    right
    unfold textRun at h
    split at h
    · rename_i r0 heq; exact Or.inl ⟨r0, Or.inr heq⟩
    · rename_i b' r0 _ heq
      injection heq with e1 e2; subst e1; subst e2
      split at h
      · rename_i hc
        simp only [Bool.or_eq_true, beq_iff_eq] at hc
        rcases hc with (hc | hc) | hc
        · exact Or.inr ⟨r, Or.inl (by rw [hc])⟩
        · exact Or.inr ⟨r, Or.inr (by rw [hc])⟩
        · exact Or.inl ⟨r, Or.inl (by rw [hc])⟩
      · cases h
    · rename_i heq; cases heq

theorem blankBlock_brace_none (b : UInt8) (t : List UInt8) (hb : b = 123 ∨ b = 125) : blankBlock (b :: t) = none := by
  rcases hb with rfl | rfl <;> simp [blankBlock, blankBlockScan]

/-- at a line end of the grammar: what `blank_block` can match there -/
theorem lineend_of_blankBlock {i i' : List UInt8} (h : textRun i = ([], i')) (hb : (blankBlock i).isSome = true) :
    i = [] ∨ ∃ X, i = 10 :: X ∨ i = 13 :: 10 :: X := by
  rcases textRun_empty_cases h with h1 | h1 | ⟨t, h1 | h1⟩
  · exact Or.inl h1
  · exact Or.inr h1
  · rw [h1, blankBlock_brace_none _ _ (Or.inl rfl)] at hb; cases hb
  · rw [h1, blankBlock_brace_none _ _ (Or.inr rfl)] at hb; cases hb

theorem patternElements_close {m : Nat} {t r : List UInt8} {more : List RawEl}
    (h : patternElements m (125 :: t) = .ok more r) : r = 125 :: t := by
  cases m with
  | zero => simp [patternElements] at h
  | succ m =>
    simp only [patternElements] at h
    cases m with
    | zero => simp [patternElement] at h
    | succ m' =>
      have hpe : patternElement (m' + 1) (125 :: t) = .fail ∨ patternElement (m' + 1) (125 :: t) = .fuel := by
        simp only [patternElement, textRun_special t (Or.inr (Or.inr rfl))]
        have hbt : blockText (125 :: t) = none := by
          simp [blockText, blankBlock_brace_none _ _ (Or.inr rfl)]
        rw [hbt, blankBlock_brace_none _ _ (Or.inr rfl)]
        cases m' with
        | zero => right; simp [inlinePlaceable]
        | succ m'' => left; simp [inlinePlaceable]
      rcases hpe with hpe | hpe
      · rw [hpe] at h; injection h with _ h2; exact h2.symm
      · rw [hpe] at h; cases h

def InitOK (s : Src) (st : PatState) (p : Nat) (i : List UInt8) : Prop :=
  st.elements ≠ [] ∨ (st.role = .lineStart ∧ NonBlankLine s p) ∨
    (st.role ≠ .lineStart ∧ (i = [] ∨ (lineEnd i).isSome = false))

theorem InitOK.toHinit {s : Src} {st : PatState} {p : Nat} {i : List UInt8} (h : InitOK s st p i)
    (hi : i = [] ∨ ∃ X, i = 10 :: X ∨ i = 13 :: 10 :: X) :
    st.elements ≠ [] ∨ (st.role = .lineStart ∧ NonBlankLine s p) ∨ (st.role ≠ .lineStart ∧ i = []) := by
  rcases h with h | h | ⟨h1, h2⟩
  · exact Or.inl h
  · exact Or.inr (Or.inl h)
  · rcases h2 with h2 | h2
    · exact Or.inr (Or.inr ⟨h1, h2⟩)
    · rcases hi with hi | ⟨X, hi | hi⟩
      · exact Or.inr (Or.inr ⟨h1, hi⟩)
      · rw [hi] at h2; simp [lineEnd] at h2
      · rw [hi] at h2; simp [lineEnd] at h2

def LoopRef (s : Src) (m : Nat) : Prop :=
  ∀ n st p i acc k lead raws r, patternElements m i = .ok raws r → Inv s st acc k lead → Sync s st.role p i k →
    InitOK s st p i → PatFollow r → 4 * (s.size - p) + 1 ≤ n →
    ∃ st' q k', getPatternLoop s n st p = .ok st' q ∧ Inv s st' (acc ++ raws) k' lead ∧
      rest s q = afterBlank r ∧ q ≤ s.size


theorem afterBlank_nil : afterBlank [] = [] := by simp [afterBlank, blankBlock, blankBlockScan]

theorem sync_not_lineStart_of_head {s : Src} {role : TextPos} {p k : Nat} {i : List UInt8} (h : Sync s role p i k)
    (hhead : ∀ X, i ≠ 10 :: X ∧ i ≠ 13 :: 10 :: X) : role ≠ .lineStart ∧ i = rest s p ∧ k = 0 := by
  obtain ⟨_, _, h3⟩ := h
  by_cases hr : role = .lineStart
  · simp only [hr, if_true] at h3
    obtain ⟨_, X, hX | hX⟩ := h3
    · exact absurd hX (hhead X).1
    · exact absurd hX (hhead X).2
  · simp only [hr, if_false] at h3
    exact ⟨hr, h3.1, h3.2⟩

/-- **The loop.** `PatternElement*` of the grammar against the `while` loop of `get_pattern`, from any
synchronised state that satisfies the invariant -/
theorem loop_step {s : Src} (hs : AsciiThenBoundary s) (hSurv : Surv s) {m : Nat}
    (hpl : ∀ j, j ≤ m → PlaceableRef s j) (ih : LoopRef s m) : LoopRef s (m + 1) := by
  intro n st p i acc k lead raws r hPE hI hsync hinit hfol hn
  simp only [patternElements] at hPE
  cases hpe : patternElement m i with
  | fuel => rw [hpe] at hPE; cases hPE
  | fail =>
    -- the pattern ends here
    rw [hpe] at hPE
    injection hPE with e1 e2; subst e1; subst e2
    have hi := lineEnd_isSome_cases hfol.1
    rcases to_nonblank hs hI hsync hi (hinit.toHinit hi) hn with ⟨h1, h2, h3⟩ | ⟨n1, st1, p1, k1, f1, f2, f3, f4, f5, f6, f7, f8, f9, f10, f11⟩
    · obtain ⟨n0, rfl⟩ : ∃ n0, n = n0 + 1 := ⟨n - 1, by omega⟩
      refine ⟨st, p, k, loop_exit s n0 st p (by omega), by simpa using hI, ?_, hsync.1⟩
      rw [h1, afterBlank_nil]; exact rest_eq_nil_iff.mpr (by omega)
    · obtain ⟨q, g1, g2, g3⟩ := end_s2 (n := n1) (st := st1) f3 f4 f8 f6 f7 hfol (by omega)
      exact ⟨st1, q, k1, by rw [f1, g1], by simpa using f2, g2, g3⟩
  | ok els r1 =>
    rw [hpe] at hPE
    simp only at hPE
    cases hmore : patternElements m r1 with
    | fuel => rw [hmore] at hPE; cases hPE
    | fail => rw [hmore] at hPE; cases hPE
    | ok more r2 =>
      rw [hmore] at hPE
      injection hPE with e1 e2; subst e1; subst e2
      -- the rest does not begin with a closing brace
      have hnc : ∀ t', r1 ≠ 125 :: t' := by
        intro t' ht
        rw [ht] at hmore
        have := patternElements_close hmore
        have hl := hfol.1
        rw [this] at hl
        simp [lineEnd] at hl
      -- one element
      have hstep : Step s n st p acc lead els r1 := by
        cases m with
        | zero => simp [patternElement] at hpe
        | succ m' =>
          simp only [patternElement] at hpe
          split at hpe
          · -- inline_text
            rename_i b t r' hrun
            injection hpe with e1 e2; subst e1; subst e2
            have hhead : ∀ X, i ≠ 10 :: X ∧ i ≠ 13 :: 10 :: X := by
              intro X
              constructor <;> (intro hX; rw [textRun_lineend ⟨X, by first | exact Or.inl hX | exact Or.inr hX⟩] at hrun; cases hrun)
            obtain ⟨hr, hi0, hk0⟩ := sync_not_lineStart_of_head hsync hhead
            subst hk0; subst hi0
            exact step_text hs hSurv hI hr hsync.1 hsync.2.1 hrun hnc hn
          · rename_i r' hrun
            split at hpe
            · -- block_text
              rename_i els' r1' hbt
              injection hpe with e1 e2; subst e1; subst e2
              have hbs : (blankBlock i).isSome = true := by
                unfold blockText at hbt
                split at hbt
                · rename_i heq; simp [heq]
                · cases hbt
              have hi := lineend_of_blankBlock hrun hbs
              rcases to_nonblank hs hI hsync hi (hinit.toHinit hi) hn with ⟨h1, _, _⟩ | ⟨n1, st1, p1, k1, f1, f2, f3, f4, f5, f6, f7, f8, f9, f10, f11⟩
              · rw [h1] at hbt; simp [blockText, blankBlock, blankBlockScan, blankInline] at hbt
              · obtain ⟨n2, st2, p2, k2, g1, g2, g3, g4, g5, g6⟩ := step_blockText hs hSurv f2 f3 f4 f5 f8 f6 hbt hnc f9
                exact ⟨n2, st2, p2, k2, by rw [f1, g1], g2, g3, g4, by omega, g6⟩
            · rename_i hbt
              cases hip : inlinePlaceable m' i with
              | ok e r1' =>
                -- inline_placeable
                rw [hip] at hpe
                injection hpe with e1 e2; subst e1; subst e2
                obtain ⟨t0, ht0⟩ := inlinePlaceable_head hip
                have hhead : ∀ X, i ≠ 10 :: X ∧ i ≠ 13 :: 10 :: X := by
                  intro X; rw [ht0]; constructor <;> (intro h; cases h)
                obtain ⟨hr, hi0, hk0⟩ := sync_not_lineStart_of_head hsync hhead
                subst hk0; subst hi0
                exact step_placeable hs (hpl m' (by omega)) hI hr hip hn
              | fuel => rw [hip] at hpe; cases hpe
              | fail =>
                rw [hip] at hpe
                simp only at hpe
                split at hpe
                · -- block_placeable
                  rename_i c r1b hbb
                  cases hip2 : inlinePlaceable m' (spaces r1b) with
                  | ok e r1' =>
                    rw [hip2] at hpe
                    injection hpe with e1 e2; subst e1; subst e2
                    have hi := lineend_of_blankBlock hrun (by simp [hbb])
                    rcases to_nonblank hs hI hsync hi (hinit.toHinit hi) hn with ⟨h1, _, _⟩ | ⟨n1, st1, p1, k1, f1, f2, f3, f4, f5, f6, f7, f8, f9, f10, f11⟩
                    · rw [h1] at hbb
                      simp [blankBlock, blankBlockScan] at hbb
                      obtain ⟨_, hb2⟩ := hbb
                      subst hb2
                      obtain ⟨t0, ht0⟩ := inlinePlaceable_head hip2
                      simp [spaces] at ht0
                    · obtain ⟨n2, st2, p2, k2, g1, g2, g3, g4, g5, g6⟩ :=
                        step_blockPlaceable hs (hpl m' (by omega)) f2 f3 f4 f5 f8 f6 hbb hip2 f9
                      exact ⟨n2, st2, p2, k2, by rw [f1, g1], g2, g3, g4, by omega, g6⟩
                  | fail => rw [hip2] at hpe; cases hpe
                  | fuel => rw [hip2] at hpe; cases hpe
                · cases hpe
      obtain ⟨n2, st2, p2, k2, g1, g2, g3, g4, g5, g6⟩ := hstep
      obtain ⟨st', q, k', h1, h2, h3, h4⟩ := ih n2 st2 p2 r1 (acc ++ els) k2 lead more r2 hmore g2 g3 (Or.inl g6) hfol g4
      exact ⟨st', q, k', by rw [g1, h1], by rw [← List.append_assoc]; exact h2, h3, h4⟩


/-! ## `get_pattern` -/

theorem loopRef_zero (s : Src) : LoopRef s 0 := by
  intro n st p i acc k lead raws r h; simp [patternElements] at h

theorem skipBlankBlockGo_shift (s : Src) (n p c : Nat) :
    skipBlankBlockGo s n p c = ((skipBlankBlockGo s n p 0).1, c + (skipBlankBlockGo s n p 0).2) := by
  induction n generalizing p c with
  | zero => simp [skipBlankBlockGo]
  | succ n ih =>
    simp only [skipBlankBlockGo]
    split
    · rename_i p' _
      rw [ih p' (c + 1), ih p' (0 + 1)]
      simp only [Prod.mk.injEq, true_and]
      omega
    · split <;> simp

/-- where `skip_blank_block` stops, the grammar's scan goes on from; the line there is not blank -/
theorem skipBlankBlockGo_scan {s : Src} (hs : AsciiThenBoundary s) (n p c : Nat) (hn : s.size - p + 1 ≤ n) (hp : p ≤ s.size)
    (hbp : Bnd s p) :
    blankBlockScan (rest s p) (rest s p) c =
        blankBlockScan (rest s (skipBlankBlockGo s n p c).1) (rest s (skipBlankBlockGo s n p c).1) (skipBlankBlockGo s n p c).2 ∧
      NonBlankLine s (skipBlankBlockGo s n p c).1 ∧ p ≤ (skipBlankBlockGo s n p c).1 ∧
      (skipBlankBlockGo s n p c).1 ≤ s.size ∧ Bnd s (skipBlankBlockGo s n p c).1 := by
  induction n generalizing p c with
  | zero => omega
  | succ n ih =>
    have hp1le := (skipBlankInline_after s p).le
    have hp1s := (skipBlankInline_after s p).le_size hp
    have hb1 : Bnd s (skipBlankInline s p) := (skipBlankInline_after s p).bnd hs hbp
    simp only [skipBlankBlockGo]
    cases hse : skipEol s (skipBlankInline s p) with
    | some q =>
      simp only
      have hq := skipEol_some hse
      have hqs : q ≤ s.size := (skipEol_after hse).le_size hp1s
      have hbq : Bnd s q := (skipEol_after hse).bnd hs hb1
      obtain ⟨i1, i2, i3, i4, i5⟩ := ih q (c + 1) (by omega) hqs hbq
      refine ⟨?_, i2, by omega, i4, i5⟩
      rw [← i1, scan_skip_spaces, scan_line s (rest s p) c _ (skipBlankInline_stop s p), hse]
    | none =>
      simp only
      by_cases hlt : skipBlankInline s p < s.size
      · simp only [hlt, if_true]
        refine ⟨trivial, ?_, Nat.le_refl _, hp, hbp⟩
        right
        have hsome : s[skipBlankInline s p]? = some s[skipBlankInline s p] := by simp [hlt]
        refine ⟨_, hsome, ?_, ?_⟩
        · intro h10
          rw [h10] at hsome
          simp [skipEol, hsome] at hse
        · rintro ⟨h13, h10⟩
          rw [h13] at hsome
          simp [skipEol, hsome, h10] at hse
      · simp only [hlt, if_false]
        have hnil : rest s (skipBlankInline s p) = [] := rest_eq_nil_iff.mpr (by omega)
        refine ⟨?_, ?_, hp1le, hp1s, hb1⟩
        · rw [scan_skip_spaces, hnil]
          simp [blankBlockScan]
        · left
          have := (skipBlankInline_after s (skipBlankInline s p)).le
          simp; omega


theorem skipEol_head {s : Src} {p q : Nat} (h : skipEol s p = some q) :
    (s[p]? = some 10 ∧ q = p + 1) ∨ (s[p]? = some 13 ∧ s[p + 1]? = some 10 ∧ q = p + 2) := by
  unfold skipEol at h
  split at h
  · rename_i h10; injection h with h; exact Or.inl ⟨h10, h.symm⟩
  · rename_i h13
    split at h
    · rename_i h2; injection h with h; exact Or.inr ⟨h13, by simpa using h2, h.symm⟩
    · cases h
  · cases h

theorem inv_init (s : Src) (role : TextPos) (k : Nat) : Inv s ⟨[], none, none, role, none⟩ [] k k where
  flatEq := by intro c; simp [rawFlat, flat, phsFlat]
  ci := rfl
  kept := rfl
  trail := by intro c x hx; simp [phsFlat] at hx
  noneInd := by intro _ c; rfl
  headOK := Or.inl rfl
  txOK := by intro ph h; cases h

/-- the part of `get_pattern` after the loop -/
def patFinish (s : Src) (r : R PatState) : R (Option (Pattern Span)) :=
  match r with
  | .ok st q =>
    (match st.lastNonBlank with
     | some lnb =>
       (match finishElements s st.keptCommonIndent lnb 0 st.elements with
        | some els => .ok (some els) q
        | none => .panic "get_pattern slice")
     | none => .ok none q)
  | .err e q => .err e q
  | .panic m => .panic m
  | .fuel => .fuel

theorem getPattern_inline {s : Src} {n p0 : Nat} (h : skipEol s (skipBlankInline s p0) = none) :
    getPattern s (n + 1) p0 =
      patFinish s (getPatternLoop s n ⟨[], none, none, .initialLineStart, none⟩ (skipBlankInline s p0)) := by
  simp only [getPattern, h, patFinish]
  rfl

theorem getPattern_block {s : Src} {n p0 q : Nat} (h : skipEol s (skipBlankInline s p0) = some q) :
    getPattern s (n + 1) p0 =
      patFinish s (getPatternLoop s n ⟨[], none, none, .lineStart, none⟩ (skipBlankBlock s q).1) := by
  simp only [getPattern, h, patFinish]
  rfl

/-- **Pattern layer.** `Pattern ::= PatternElement+` with the abstract-syntax pass (`finishPattern`) against
`get_pattern`: the same pattern after joining text, and the parser stops at the start of the first line that
is not part of the pattern. -/
theorem pattern_step {s : Src} (hs : AsciiThenBoundary s) {m : Nat} (hloop : LoopRef s m) :
    PatternRef s (m + 1) := by
  intro n p0 pat r hP hfol hp0 hb0 hn
  obtain ⟨n0, rfl⟩ : ∃ n0, n = n0 + 1 := ⟨n - 1, by omega⟩
  simp only [pattern] at hP
  cases hpe : patternElements m (spaces (rest s p0)) with
  | fail => rw [hpe] at hP; cases hP
  | fuel => rw [hpe] at hP; cases hP
  | ok els r' =>
    rw [hpe] at hP
    simp only at hP
    split at hP
    · cases hP
    · rename_i hne
      injection hP with e1 e2; subst e1; subst e2
      have hne' : (finishPattern els).isEmpty = false := by simpa using hne
      rw [spaces_eq_skipBlankInline] at hpe
      have hA1 := skipBlankInline_after s p0
      have hp1le := hA1.le
      have hp1s := hA1.le_size hp0
      have hb1 : Bnd s (skipBlankInline s p0) := hA1.bnd hs hb0
      have hgood := (specs_all hs (n0 + 1)).pattern p0 hp0 hb0 hn
      -- run the loop from the initial state
      have hrun : ∃ role p2 k,
          getPattern s (n0 + 1) p0 = patFinish s (getPatternLoop s n0 ⟨[], none, none, role, none⟩ p2) ∧
          Sync s role p2 (rest s (skipBlankInline s p0)) k ∧
          InitOK s ⟨[], none, none, role, none⟩ p2 (rest s (skipBlankInline s p0)) ∧ p0 ≤ p2 := by
        cases hse : skipEol s (skipBlankInline s p0) with
        | none =>
          refine ⟨.initialLineStart, skipBlankInline s p0, 0, getPattern_inline hse, ⟨hp1s, hb1, by simp⟩, ?_, hp1le⟩
          right; right
          refine ⟨by simp, ?_⟩
          have hT := lineEnd_eq_skipEol s (skipBlankInline s p0)
          rw [hse] at hT
          simp only at hT
          by_cases hsz : s.size ≤ skipBlankInline s p0
          · left; exact rest_eq_nil_iff.mpr hsz
          · right; rw [hT]; simp [hsz]
        | some q =>
          have hq := skipEol_some hse
          have hqs : q ≤ s.size := (skipEol_after hse).le_size hp1s
          have hbq : Bnd s q := (skipEol_after hse).bnd hs hb1
          obtain ⟨i1, i2, i3, i4, i5⟩ := skipBlankBlockGo_scan hs (s.size - q + 1) q 1 (Nat.le_refl _) hqs hbq
          have hshift := skipBlankBlockGo_shift s (s.size - q + 1) q 1
          rw [hshift] at i1 i2 i3 i4 i5
          simp only at i1 i2 i3 i4 i5
          refine ⟨.lineStart, (skipBlankBlock s q).1, 1 + (skipBlankBlock s q).2, getPattern_block hse, ⟨i4, i5, ?_⟩, ?_, by
            unfold skipBlankBlock; omega⟩
          · simp only [if_true]
            rcases skipEol_head hse with ⟨h10, hq1⟩ | ⟨h13, h10, hq1⟩
            · subst hq1
              refine ⟨?_, _, Or.inl (rest_cons h10)⟩
              rw [rest_cons h10, blankBlock_nl]; exact i1
            · subst hq1
              refine ⟨?_, _, Or.inr (by rw [rest_cons h13, rest_cons h10])⟩
              rw [rest_cons h13, rest_cons h10, blankBlock_crlf]; exact i1
          · right; left; exact ⟨rfl, i2⟩
      obtain ⟨role, p2, k, hinit, hsync, hiok, hp2⟩ := hrun
      obtain ⟨st', q, k', l1, l2, l3, l4⟩ :=
        hloop n0 ⟨[], none, none, role, none⟩ p2 _ [] k k els r' hpe (inv_init s role k) hsync hiok hfol
          (by have := hsync.1; omega)
      simp only [List.nil_append] at l2
      -- the result of `get_pattern`
      have hgp : getPattern s (n0 + 1) p0 =
          (match st'.lastNonBlank with
           | some lnb =>
             (match finishElements s st'.keptCommonIndent lnb 0 st'.elements with
              | some els => .ok (some els) q
              | none => .panic "get_pattern slice")
           | none => .ok none q) := by
        rw [hinit, l1]; rfl
      have hfin : ∀ l, st'.lastNonBlank = some l → ∃ R, finishElements s st'.keptCommonIndent l 0 st'.elements = some R := by
        intro l hl
        cases hfe : finishElements s st'.keptCommonIndent l 0 st'.elements with
        | some R => exact ⟨R, rfl⟩
        | none =>
          exfalso
          rw [hgp, hl] at hgood
          simp only [hfe] at hgood
          exact hgood
      obtain ⟨l, R, c1, c2, c3⟩ := pattern_close l2 hne' hfin
      refine ⟨R, q, ?_, c3, l4, ?_, l3⟩
      · rw [hgp, c1]; simp only [c2]
      · have := (specs_all hs (n0 + 1)).pattern p0 hp0 hb0 hn
        rw [hgp, c1] at this
        simp only [c2] at this
        exact ((good_ok _ _ _ _ _).mp this).1


/-! ## expression layer and pattern layer together -/

theorem patternRef_zero (s : Src) : PatternRef s 0 := by
  intro n p0 pat r h; simp [pattern] at h

/-- **T2 + T3 (expressions and patterns).** Under the side condition `Surv s`, for every spec fuel: wherever a
production of the grammar — inline expression, call arguments, placeable, select expression, variant list,
pattern — accepts, the parser model returns the same tree (spans resolved, adjacent text joined) and stops
at the corresponding position. -/
theorem allRef {s : Src} (hs : AsciiThenBoundary s) (hSurv : Surv s) :
    ∀ m, ∀ j, j ≤ m → ExprRef s j ∧ PatternRef s j ∧ LoopRef s j := by
  intro m
  induction m with
  | zero =>
    intro j hj
    have : j = 0 := by omega
    subst this
    exact ⟨exprRef_zero s, patternRef_zero s, loopRef_zero s⟩
  | succ m ih =>
    intro j hj
    by_cases hjm : j ≤ m
    · exact ih j hjm
    · have : j = m + 1 := by omega
      subst this
      obtain ⟨he, hp, hl⟩ := ih m (Nat.le_refl _)
      exact ⟨exprRef_step hs he hp,
        pattern_step hs hl,
        loop_step hs hSurv (fun j hj => (ih j hj).1.placeable) hl⟩

theorem exprRef_all {s : Src} (hs : AsciiThenBoundary s) (hSurv : Surv s) (m : Nat) : ExprRef s m :=
  (allRef hs hSurv m m (Nat.le_refl _)).1

theorem patternRef_all {s : Src} (hs : AsciiThenBoundary s) (hSurv : Surv s) (m : Nat) : PatternRef s m :=
  (allRef hs hSurv m m (Nat.le_refl _)).2.1


/-! ## the side condition -/

/-- every carriage return is part of a CRLF -/
def NoLoneCR (s : Src) : Prop := ∀ p : Nat, s[p]? = some (13 : UInt8) → s[p + 1]? = some (10 : UInt8)

theorem textRun_step {b b' : UInt8} {r t r' : List UInt8} (h : textRun (b :: r) = (b' :: t, r')) :
    b' = b ∧ b ≠ 10 ∧ ¬ (b = 13 ∧ ∃ r2, r = 10 :: r2) ∧ textRun r = (t, r') := by
  obtain ⟨r0, h0, h1, h2, h3⟩ := textRun_head_ne h
  injection h0 with e1 e2
  subst e2
  rw [e1] at h ⊢
  by_cases h13 : b' = 13
  · subst h13
    cases r with
    | nil =>
      rw [textRun_cr_eof] at h
      injection h with e1' e2'; injection e1' with _ e3
      subst e3; subst e2'
      refine ⟨rfl, h3, ?_, ?_⟩ <;> first | (rintro ⟨_, r2, hr⟩; cases hr) | simp [textRun]
    | cons c r2 =>
      by_cases hc : c = 10
      · subst hc; rw [textRun_crlf] at h; cases h
      · rw [textRun_cr_other _ hc] at h
        injection h with e1' e2'; injection e1' with _ e3
        refine ⟨rfl, h3, ?_, by rw [← e3, ← e2']⟩
        rintro ⟨_, r3, hr⟩; injection hr with hr _; exact hc hr
  · rw [textRun_plain _ h3 h1 h2 h13] at h
    injection h with e1' e2'; injection e1' with _ e3
    exact ⟨rfl, h3, by rintro ⟨h, _⟩; exact h13 h, by rw [← e3, ← e2']⟩

/-- inside a run of text chars there is no line end -/
theorem textRun_no_eol {s : Src} : ∀ (d p ts : Nat), ts - p ≤ d → ts ≤ s.size →
    textRun (rest s p) = (seg s p ts, rest s ts) →
    ∀ j, p ≤ j → j < ts → s[j]? ≠ some 10 ∧ ¬ (s[j]? = some 13 ∧ s[j + 1]? = some 10) := by
  intro d
  induction d with
  | zero => intro p ts hd _ _ j h1 h2; omega
  | succ d ih =>
    intro p ts hd hts hrun j h1 h2
    have hlt : p < s.size := by omega
    have hsome : s[p]? = some s[p] := by simp [hlt]
    rw [rest_cons hsome, seg_cons hsome (by omega)] at hrun
    obtain ⟨_, e2, e3, e4⟩ := textRun_step hrun
    by_cases hj : j = p
    · subst hj
      rw [hsome]
      refine ⟨by intro h; injection h with h; exact e2 h, ?_⟩
      rintro ⟨h13, h10⟩
      injection h13 with h13
      exact e3 ⟨h13, _, rest_cons h10⟩
    · exact ih (p + 1) ts (by omega) hts e4 j (by omega) h2

/-- a source without lone carriage returns satisfies the side condition -/
theorem surv_of_noLoneCR {s : Src} (hs : AsciiThenBoundary s) (h : NoLoneCR s) : Surv s := by
  intro p start stop nb term q hlt hts hnb
  have hF := sliceFacts hs hlt hts
  rw [hF.nbeq] at hnb
  obtain ⟨j, x, j1, j2, j3, j4⟩ := nonBlank_true hnb
  have hno := textRun_no_eol (s := s) (textStop term stop - p) p (textStop term stop) (Nat.le_refl _)
    (by have := hF.stople; have := hF.tle; omega) hF.run j j1 j2
  refine ⟨j, x, j1, j2, j3, ?_⟩
  have h10 : x ≠ 10 := by intro hx; subst hx; exact hno.1 j3
  have h13 : x ≠ 13 := by
    intro hx; subst hx
    exact hno.2 ⟨j3, h j j3⟩
  simp [isTrailingWs, j4, h10, h13]


/-- the witness of the known finding F30 (`a =\n  x\n \r`) violates the side condition: its last line is
a lone carriage return, a text slice that is not blank and yet is trimmed away entirely -/
theorem f30_witness_not_surv : ¬ Surv (strBytes "a =\n  x\n \r").toArray := by
  intro h
  obtain ⟨j, b, h1, h2, h3, h4⟩ := h 9 9 10 true .eof 10 (by decide) (by rfl) rfl
  have hj : j = 9 := by simp only [textStop] at h2; omega
  subst hj
  have h9 : (strBytes "a =\n  x\n \r").toArray[9]? = some 13 := by decide +kernel
  rw [h9] at h3
  injection h3 with h3
  subst h3
  simp [isTrailingWs] at h4

end FluentProofs.PatLoop
