import FluentProofs.Serializer
import FluentProofs.ParserHoareAst
/-!
# Serializer lemmas, part 9: the serializer's output keeps the `&str` invariant (C04)

If every string of a tree satisfies `GoodB` (does not start with a UTF-8 continuation byte, and no
ASCII byte in it is followed by a continuation byte — true for every slice of a `&str` taken at
char boundaries), then the serializer's output satisfies `AsciiThenBoundary`, the one UTF-8 fact the
parser model relies on.  Mutual structural induction along the serializer with the writer invariant
`ATBl buffer`.
-/
namespace FluentProofs.Ser
open FluentModel FluentModel.Syntax FluentModel.Syntax.Ser FluentProofs.Parser

def notCont (b : UInt8) : Bool := (b &&& 0xC0) != 0x80

/-- no ASCII byte is followed by a continuation byte -/
def ATBl (l : Bytes) : Prop := ∀ (i : Nat) (b c : UInt8), l[i]? = some b → b < 128 → l[i + 1]? = some c → notCont c = true

/-- does not start with a continuation byte -/
def NCH (l : Bytes) : Prop := ∀ b : UInt8, l.head? = some b → notCont b = true

def GoodB (l : Bytes) : Prop := ATBl l ∧ NCH l

theorem atb_append {a b : Bytes} (ha : ATBl a) (hb : ATBl b) (hh : NCH b) : ATBl (a ++ b) := by
  intro i x c hx hx128 hc
  by_cases h1 : i + 1 < a.length
  · rw [List.getElem?_append_left (by omega)] at hx
    rw [List.getElem?_append_left h1] at hc
    exact ha i x c hx hx128 hc
  · by_cases h2 : i < a.length
    · -- the seam
      have : i + 1 = a.length := by omega
      rw [List.getElem?_append_right (by omega), this, Nat.sub_self] at hc
      apply hh c
      cases b with
      | nil => simp at hc
      | cons y ys => simpa using hc
    · rw [List.getElem?_append_right (by omega)] at hx
      rw [List.getElem?_append_right (by omega)] at hc
      rw [show i + 1 - a.length = (i - a.length) + 1 by omega] at hc
      exact hb _ x c hx hx128 hc

theorem atb_prefix {a b : Bytes} (h : ATBl (a ++ b)) : ATBl a := by
  intro i x c hx hx128 hc
  have h1 : i + 1 < a.length := by
    rcases Nat.lt_or_ge (i + 1) a.length with h | h
    · exact h
    · rw [List.getElem?_eq_none h] at hc; cases hc
  exact h i x c (by rw [List.getElem?_append_left (by omega)]; exact hx) hx128
    (by rw [List.getElem?_append_left h1]; exact hc)

theorem nch_append {a b : Bytes} (ha : NCH a) (hb : NCH b) : NCH (a ++ b) := by
  cases a with
  | nil => simpa using hb
  | cons x xs => intro c hc; exact ha c (by simpa using hc)

theorem goodB_append {a b : Bytes} (ha : GoodB a) (hb : GoodB b) : GoodB (a ++ b) :=
  ⟨atb_append ha.1 hb.1 hb.2, nch_append ha.2 hb.2⟩

theorem goodB_ascii {l : Bytes} (h : ∀ b ∈ l, b < 128) : GoodB l := by
  constructor
  · intro i b c _ _ hc
    have := h c (List.mem_of_getElem? hc)
    exact ascii_not_cont c this
  · intro b hb
    have : b ∈ l := by cases l <;> simp_all
    exact ascii_not_cont b (h b this)

theorem goodB_nil : GoodB [] := goodB_ascii (by simp)

/-- a slice of a `&str` at char boundaries is good -/
theorem goodB_span {s : Src} (hs : AsciiThenBoundary s) (hs0 : NCH s.toList) {sp : Span} (h : VSpan s sp) :
    GoodB (spanBytes s sp) := by
  obtain ⟨hle, hba, hbb⟩ := h
  have hsz := hbb.le
  have hget : ∀ j, j < sp.stop - sp.start → (spanBytes s sp)[j]? = s[sp.start + j]? := by
    intro j hj
    simp only [spanBytes, Array.getElem?_toList, Array.getElem?_extract]
    simp
    intro h'; omega
  have hlen : (spanBytes s sp).length = sp.stop - sp.start := by simp [spanBytes]; omega
  constructor
  · intro i b c hb hb128 hc
    have hi : i + 1 < sp.stop - sp.start := by
      rcases Nat.lt_or_ge (i + 1) (spanBytes s sp).length with h | h
      · omega
      · rw [List.getElem?_eq_none h] at hc; cases hc
    rw [hget i (by omega)] at hb
    rw [hget (i + 1) hi] at hc
    have := hs (sp.start + i) b hb hb128
    simp only [isBoundary] at this
    rw [show sp.start + i + 1 = sp.start + (i + 1) by omega, hc] at this
    have h1 : ¬ (sp.start + (i + 1) = 0) := by omega
    have h2 : ¬ (sp.start + (i + 1) = s.size) := by omega
    simpa [h1, h2, notCont] using this
  · intro b hb
    have h0 : 0 < sp.stop - sp.start := by
      cases hsb : spanBytes s sp with
      | nil => rw [hsb] at hb; simp at hb
      | cons x xs => rw [hsb] at hlen; simp at hlen; omega
    have : (spanBytes s sp)[0]? = some b := by
      cases hsb : spanBytes s sp with
      | nil => rw [hsb] at hb; simp at hb
      | cons x xs => rw [hsb] at hb; simpa using hb
    rw [hget 0 h0, Nat.add_zero] at this
    have hb' : isBoundary s sp.start = true := hba
    simp only [isBoundary] at hb'
    rw [this] at hb'
    by_cases h1 : sp.start = 0
    · -- position 0 of a `&str`: use the byte itself
      simp only [h1] at this
      apply hs0 b
      cases hl : s.toList with
      | nil => simp [← Array.getElem?_toList, hl] at this
      | cons x xs => simp [← Array.getElem?_toList, hl] at this; simp [this]
    · have h2 : ¬ (sp.start = s.size) := by omega
      simpa [h1, h2, notCont] using hb'

theorem nch_of_string (str : String) : NCH str.toUTF8.data.toList := by
  intro b hb
  have h0 : str.toUTF8.data[0]? = some b := by
    cases hl : str.toUTF8.data.toList with
    | nil => rw [hl] at hb; simp at hb
    | cons x xs =>
      rw [hl] at hb; simp at hb; subst hb
      rw [← Array.getElem?_toList, hl]; rfl
  have hv : (0 : String.Pos.Raw).IsValid str := String.Pos.Raw.isValid_zero
  have := isBoundary_of_isValid str 0 hv
  rcases String.Pos.Raw.isValid_iff_isUTF8FirstByte.mp hv with h | ⟨hlt, hfb⟩
  · have : str.toUTF8.data.size = 0 := by
      have e : str.rawEndPos.byteIdx = str.toUTF8.data.size := rfl
      rw [← e, ← h]; rfl
    have := get_lt h0; omega
  · have hlt' : (0 : Nat) < str.toUTF8.data.size := get_lt h0
    have hget : str.toUTF8.data[0]? = some (str.getUTF8Byte 0 hlt) := by
      rw [Array.getElem?_eq_getElem hlt']; rfl
    rw [hget] at h0
    cases h0
    exact firstByte_not_cont _ hfb

/-! ## the writer keeps `ATBl` -/

def WB (w : Writer) : Prop := ATBl w.buffer.toList

theorem spaces_ascii (n : Nat) : ∀ b ∈ (spaces n).toList, b < 128 := by
  intro b hb
  simp [spaces] at hb
  rw [hb.2]; decide

theorem wb_writeLiteral {w : Writer} {item : Bytes} (hw : WB w) (hi : GoodB item) : WB (w.writeLiteral item) := by
  unfold WB
  cases h : endsWith w 10
  · rw [writeLiteral_mid_line w item h]
    simp only [Array.toList_append, List.append_assoc]
    refine atb_append hw ?_ ?_
    · split
      · exact (goodB_append (goodB_ascii (l := [13]) (by decide)) (by simpa using hi)).1
      · simpa using hi.1
    · split
      · exact (goodB_append (goodB_ascii (l := [13]) (by decide)) (by simpa using hi)).2
      · simpa using hi.2
  · rw [writeLiteral_after_newline w item h]
    simp only [Array.toList_append, List.append_assoc]
    have hg := goodB_append (goodB_ascii (spaces_ascii (4 * w.indentLevel))) (by simpa using hi : GoodB item)
    exact atb_append hw (by simpa using hg.1) (by simpa using hg.2)

theorem wb_newline {w : Writer} (hw : WB w) : WB w.newline := by
  unfold WB
  rw [newline_buffer]
  simp only [Array.toList_append]
  split
  · exact atb_append hw (goodB_ascii (l := [13, 10]) (by decide)).1 (goodB_ascii (l := [13, 10]) (by decide)).2
  · exact atb_append hw (goodB_ascii (l := [10]) (by decide)).1 (goodB_ascii (l := [10]) (by decide)).2

theorem dropLast_snoc (l : List UInt8) (x : UInt8) (h : l.getLast? = some x) : l = l.dropLast ++ [x] := by
  induction l with
  | nil => simp at h
  | cons a as ih =>
    cases as with
    | nil => simp at h; simp [h]
    | cons b bs =>
      rw [List.getLast?_cons_cons] at h
      rw [List.dropLast_cons_cons, List.cons_append, ← ih h]

theorem popCharGo_prefix (n : Nat) (b : Array UInt8) : ∃ t, b.toList = (popCharGo n b).toList ++ t := by
  induction n generalizing b with
  | zero => exact ⟨[], by simp [popCharGo]⟩
  | succ n ih =>
    rw [popCharGo]
    cases hb : b.back? with
    | none => exact ⟨[], by simp⟩
    | some x =>
      simp only []
      have hpop : b.toList = b.pop.toList ++ [x] := by
        rw [← Array.getLast?_toList] at hb
        rw [Array.toList_pop]
        exact dropLast_snoc _ _ hb
      split
      · obtain ⟨t, ht⟩ := ih b.pop
        exact ⟨t ++ [x], by rw [hpop, ht]; simp⟩
      · exact ⟨[x], hpop⟩

theorem wb_writeCharIntoIndent {w : Writer} (ch : UInt8) (hw : WB w) (hc : ch < 128) : WB (w.writeCharIntoIndent ch) := by
  unfold WB Writer.writeCharIntoIndent
  simp only []
  have key : ∀ b : Array UInt8, ATBl b.toList → ATBl ((popChar b).push ch).toList := by
    intro b hb
    obtain ⟨t, ht⟩ := popCharGo_prefix b.size b
    rw [ht] at hb
    simp only [Array.toList_push]
    exact atb_append (atb_prefix hb) (goodB_ascii (l := [ch]) (by simpa using hc)).1
      (goodB_ascii (l := [ch]) (by simpa using hc)).2
  split
  · apply key
    rw [writeIndent_buffer]
    simp only [Array.toList_append]
    exact atb_append hw (goodB_ascii (spaces_ascii _)).1 (goodB_ascii (spaces_ascii _)).2
  · exact key _ hw

theorem wb_indent {w : Writer} (hw : WB w) : WB w.indent := hw

theorem wb_dedent {w w' : Writer} (hw : WB w) (h : w.dedent = some w') : WB w' := by
  unfold WB; rw [(dedent_eq_some h).2]; exact hw

/-- ASCII literals of the serializer -/
theorem goodB_lit (x : String) (h : ∀ b ∈ lit x, b < 128) : GoodB (lit x) := goodB_ascii h

abbrev GI := allInline GoodB
abbrev GE := allExpr GoodB

theorem gl_quote : GoodB (lit "\"") := goodB_ascii (by decide)
theorem gl_dollar : GoodB (lit "$") := goodB_ascii (by decide)
theorem gl_lparen : GoodB (lit "(") := goodB_ascii (by decide)
theorem gl_rparen : GoodB (lit ")") := goodB_ascii (by decide)
theorem gl_dot : GoodB (lit ".") := goodB_ascii (by decide)
theorem gl_minus : GoodB (lit "-") := goodB_ascii (by decide)
theorem gl_lbrace : GoodB (lit "{") := goodB_ascii (by decide)
theorem gl_rbrace : GoodB (lit "}") := goodB_ascii (by decide)
theorem gl_comma : GoodB (lit ", ") := goodB_ascii (by decide)
theorem gl_colon : GoodB (lit ": ") := goodB_ascii (by decide)
theorem gl_arrow : GoodB (lit " ->") := goodB_ascii (by decide)
theorem gl_lbracket : GoodB (lit "[") := goodB_ascii (by decide)
theorem gl_rbracket : GoodB (lit "]") := goodB_ascii (by decide)
theorem gl_sp : GoodB (lit " ") := goodB_ascii (by decide)
theorem gl_lbrace_sp : GoodB (lit "{ ") := goodB_ascii (by decide)
theorem gl_sp_rbrace : GoodB (lit " }") := goodB_ascii (by decide)
theorem gl_dbl_l : GoodB (lit "{{ ") := goodB_ascii (by decide)
theorem gl_dbl_r : GoodB (lit " }}") := goodB_ascii (by decide)
theorem gl_eq : GoodB (lit " =") := goodB_ascii (by decide)
theorem gl_hash : GoodB (lit "#") := goodB_ascii (by decide)
theorem gl_hash2 : GoodB (lit "##") := goodB_ascii (by decide)
theorem gl_hash3 : GoodB (lit "###") := goodB_ascii (by decide)

theorem patternPre_wb {w : Writer} (p : List (PatElem Bytes)) (hw : WB w) : WB (patternPre w p) := by
  unfold patternPre
  simp only []
  split <;> split <;>
    first
    | exact wb_indent (wb_newline hw)
    | exact wb_newline hw
    | exact wb_indent (wb_writeLiteral hw gl_sp)
    | exact wb_writeLiteral hw gl_sp

theorem vkey_good (key : VKey Bytes) (h : allVKey GoodB key) :
    GoodB (match key with
      | .ident n => n
      | .num v => v) := by
  cases key <;> exact h

mutual

theorem serInline_wb (e : Inline Bytes) (he : allInline GoodB e) (w w' : Writer) (hw : WB w)
    (h : serInline w e = some w') : WB w' := by
  cases e with
  | str v =>
    simp only [serInline, Option.some.injEq] at h; subst h
    exact wb_writeLiteral (wb_writeLiteral (wb_writeLiteral hw gl_quote) he) gl_quote
  | num v => simp only [serInline, Option.some.injEq] at h; subst h; exact wb_writeLiteral hw he
  | var id =>
    simp only [serInline, Option.some.injEq] at h; subst h
    exact wb_writeLiteral (wb_writeLiteral hw gl_dollar) he
  | msg id attr =>
    simp only [allInline] at he
    simp only [serInline, Option.some.injEq] at h; subst h
    cases attr with
    | none => exact wb_writeLiteral hw he.1
    | some a => exact wb_writeLiteral (wb_writeLiteral (wb_writeLiteral hw he.1) gl_dot) he.2
  | fn id pos named =>
    simp only [allInline] at he
    simp only [serInline] at h
    split at h
    · cases h
    · rename_i w1 wr hpos
      simp only [Option.map_eq_some_iff] at h
      obtain ⟨w2, hn, rfl⟩ := h
      have h1 := serPositional_wb pos he.2.1 _ _ _ _
        (wb_writeLiteral (wb_writeLiteral hw he.1) gl_lparen) hpos
      exact wb_writeLiteral (serNamed_wb named he.2.2 _ _ _ h1 hn) gl_rparen
  | term id attr args =>
    cases args with
    | none =>
      simp only [allInline] at he
      simp only [serInline, Option.some.injEq] at h; subst h
      have h0 := wb_writeLiteral (wb_writeLiteral hw gl_minus) he.1
      cases attr with
      | none => exact h0
      | some a => exact wb_writeLiteral (wb_writeLiteral h0 gl_dot) he.2
    | some pn =>
      obtain ⟨pos, named⟩ := pn
      simp only [allInline] at he
      have h0 := wb_writeLiteral (wb_writeLiteral hw gl_minus) he.1
      cases attr with
      | none =>
        simp only [serInline] at h
        split at h
        · cases h
        · rename_i w1 wr hpos
          simp only [Option.map_eq_some_iff] at h
          obtain ⟨w2, hn, rfl⟩ := h
          have h1 := serPositional_wb pos he.2.2.1 _ _ _ _ (wb_writeLiteral h0 gl_lparen) hpos
          exact wb_writeLiteral (serNamed_wb named he.2.2.2 _ _ _ h1 hn) gl_rparen
      | some a =>
        simp only [serInline] at h
        split at h
        · cases h
        · rename_i w1 wr hpos
          simp only [Option.map_eq_some_iff] at h
          obtain ⟨w2, hn, rfl⟩ := h
          have h1 := serPositional_wb pos he.2.2.1 _ _ _ _
            (wb_writeLiteral (wb_writeLiteral (wb_writeLiteral h0 gl_dot) he.2.1) gl_lparen) hpos
          exact wb_writeLiteral (serNamed_wb named he.2.2.2 _ _ _ h1 hn) gl_rparen
  | placeable e =>
    simp only [allInline] at he
    simp only [serInline, Option.map_eq_some_iff] at h
    obtain ⟨w1, h1, rfl⟩ := h
    exact wb_writeLiteral (serExpr_wb e he _ _ (wb_writeLiteral hw gl_lbrace) h1) gl_rbrace

theorem serPositional_wb (xs : List (Inline Bytes)) (he : allInl GoodB xs) (w : Writer) (written : Bool)
    (w' : Writer) (wr : Bool) (hw : WB w) (h : serPositional w written xs = some (w', wr)) : WB w' := by
  cases xs with
  | nil => simp only [serPositional, Option.some.injEq, Prod.mk.injEq] at h; rw [← h.1]; exact hw
  | cons x xs =>
    simp only [allInl] at he
    simp only [serPositional] at h
    split at h
    · cases h
    · rename_i w2 hx
      have hw1 : WB (if written then w.writeLiteral (lit ", ") else w) := by
        split
        · exact wb_writeLiteral hw gl_comma
        · exact hw
      exact serPositional_wb xs he.2 _ _ _ _ (serInline_wb x he.1 _ _ hw1 hx) h

theorem serNamed_wb (xs : List (Bytes × Inline Bytes)) (he : allNamed GoodB xs) (w : Writer) (written : Bool)
    (w' : Writer) (hw : WB w) (h : serNamed w written xs = some w') : WB w' := by
  cases xs with
  | nil => simp only [serNamed, Option.some.injEq] at h; subst h; exact hw
  | cons x xs =>
    obtain ⟨n, v⟩ := x
    simp only [allNamed] at he
    simp only [serNamed] at h
    split at h
    · cases h
    · rename_i w3 hv
      have hw1 : WB (if written then w.writeLiteral (lit ", ") else w) := by
        split
        · exact wb_writeLiteral hw gl_comma
        · exact hw
      exact serNamed_wb xs he.2.2 _ _ _
        (serInline_wb v he.2.1 _ _ (wb_writeLiteral (wb_writeLiteral hw1 he.1) gl_colon) hv) h

theorem serExpr_wb (e : Expr Bytes) (he : allExpr GoodB e) (w w' : Writer) (hw : WB w)
    (h : serExpr w e = some w') : WB w' := by
  cases e with
  | inline i => simp only [allExpr] at he; simp only [serExpr] at h; exact serInline_wb i he _ _ hw h
  | select sel vs =>
    simp only [allExpr] at he
    simp only [serExpr] at h
    split at h
    · cases h
    · rename_i w1 hsel
      split at h
      · cases h
      · rename_i w3 hvs
        have h1 := serInline_wb sel he.1 _ _ hw hsel
        have h2 : WB ((w1.writeLiteral (lit " ->")).newline).indent :=
          wb_indent (wb_newline (wb_writeLiteral h1 gl_arrow))
        exact wb_dedent (serVariants_wb vs he.2 _ _ h2 hvs) h

theorem serVariants_wb (vs : List (Variant Bytes)) (he : allVariants GoodB vs) (w w' : Writer) (hw : WB w)
    (h : serVariants w vs = some w') : WB w' := by
  cases vs with
  | nil => simp only [serVariants, Option.some.injEq] at h; subst h; exact hw
  | cons v vs =>
    simp only [allVariants] at he
    simp only [serVariants] at h
    split at h
    · cases h
    · rename_i w1 hv
      exact serVariants_wb vs he.2 _ _ (wb_newline (serVariant_wb v he.1 _ _ hw hv)) h

theorem serVariant_wb (v : Variant Bytes) (he : allVariant GoodB v) (w w' : Writer) (hw : WB w)
    (h : serVariant w v = some w') : WB w' := by
  cases v with
  | mk key value dflt =>
    simp only [allVariant] at he
    have hw1 : WB (if dflt = true then w.writeCharIntoIndent 42 else w) := by
      split
      · exact wb_writeCharIntoIndent 42 hw (by decide)
      · exact hw
    have fin : ∀ kb : Bytes, GoodB kb → ∀ w3,
        serElements (patternPre ((((if dflt = true then w.writeCharIntoIndent 42 else w).writeLiteral
            (lit "[")).writeLiteral kb).writeLiteral (lit "]")) value) value = some w3 →
        patternPost value w3 = some w' → WB w' := by
      intro kb hk w3 hel hh
      have hw2 := wb_writeLiteral (wb_writeLiteral (wb_writeLiteral hw1 gl_lbracket) hk) gl_rbracket
      have hw4 := serElements_wb value he.2 _ _ (patternPre_wb _ hw2) hel
      unfold patternPost at hh
      split at hh
      · exact wb_dedent hw4 hh
      · cases hh; exact hw4
    cases key with
    | ident n =>
      simp only [serVariant] at h
      split at h
      · cases h
      · rename_i w3 hel; exact fin n he.1 w3 hel h
    | num n =>
      simp only [serVariant] at h
      split at h
      · cases h
      · rename_i w3 hel; exact fin n he.1 w3 hel h

theorem serElements_wb (es : List (PatElem Bytes)) (he : allPat GoodB es) (w w' : Writer) (hw : WB w)
    (h : serElements w es = some w') : WB w' := by
  cases es with
  | nil => simp only [serElements, Option.some.injEq] at h; subst h; exact hw
  | cons e es =>
    simp only [allPat] at he
    simp only [serElements] at h
    split at h
    · cases h
    · rename_i w1 h1
      exact serElements_wb es he.2 _ _ (serElement_wb e he.1 _ _ hw h1) h

theorem serElement_wb (e : PatElem Bytes) (he : allPatElem GoodB e) (w w' : Writer) (hw : WB w)
    (h : serElement w e = some w') : WB w' := by
  cases e with
  | text v => simp only [serElement, Option.some.injEq] at h; subst h; exact wb_writeLiteral hw he
  | placeable x =>
    simp only [allPatElem] at he
    cases x with
    | select sel vs =>
      simp only [serElement, Option.map_eq_some_iff] at h
      obtain ⟨w1, h1, rfl⟩ := h
      exact wb_writeLiteral (serExpr_wb (.select sel vs) he _ _ (wb_writeLiteral hw gl_lbrace_sp) h1) gl_rbrace
    | inline i =>
      simp only [allExpr] at he
      cases i with
      | placeable e2 =>
        simp only [allInline] at he
        simp only [serElement, Option.map_eq_some_iff] at h
        obtain ⟨w1, h1, rfl⟩ := h
        exact wb_writeLiteral (serExpr_wb e2 he _ _ (wb_writeLiteral hw gl_dbl_l) h1) gl_dbl_r
      | str v =>
        simp only [serElement, Option.map_eq_some_iff] at h
        obtain ⟨w1, h1, rfl⟩ := h
        exact wb_writeLiteral (serInline_wb (.str v) he _ _ (wb_writeLiteral hw gl_lbrace_sp) h1) gl_sp_rbrace
      | num v =>
        simp only [serElement, Option.map_eq_some_iff] at h
        obtain ⟨w1, h1, rfl⟩ := h
        exact wb_writeLiteral (serInline_wb (.num v) he _ _ (wb_writeLiteral hw gl_lbrace_sp) h1) gl_sp_rbrace
      | var v =>
        simp only [serElement, Option.map_eq_some_iff] at h
        obtain ⟨w1, h1, rfl⟩ := h
        exact wb_writeLiteral (serInline_wb (.var v) he _ _ (wb_writeLiteral hw gl_lbrace_sp) h1) gl_sp_rbrace
      | msg a b =>
        simp only [serElement, Option.map_eq_some_iff] at h
        obtain ⟨w1, h1, rfl⟩ := h
        exact wb_writeLiteral (serInline_wb (.msg a b) he _ _ (wb_writeLiteral hw gl_lbrace_sp) h1) gl_sp_rbrace
      | term a b c =>
        simp only [serElement, Option.map_eq_some_iff] at h
        obtain ⟨w1, h1, rfl⟩ := h
        exact wb_writeLiteral (serInline_wb (.term a b c) he _ _ (wb_writeLiteral hw gl_lbrace_sp) h1) gl_sp_rbrace
      | fn a b c =>
        simp only [serElement, Option.map_eq_some_iff] at h
        obtain ⟨w1, h1, rfl⟩ := h
        exact wb_writeLiteral (serInline_wb (.fn a b c) he _ _ (wb_writeLiteral hw gl_lbrace_sp) h1) gl_sp_rbrace

end

theorem serPattern_wb (p : List (PatElem Bytes)) (he : allPat GoodB p) (w w' : Writer) (hw : WB w)
    (h : serPattern w p = some w') : WB w' := by
  simp only [serPattern] at h
  split at h
  · cases h
  · rename_i w3 hel
    have hw4 := serElements_wb p he _ _ (patternPre_wb _ hw) hel
    unfold patternPost at h
    split at h
    · exact wb_dedent hw4 h
    · cases h; exact hw4

theorem serComment_wb (pre : Bytes) (hp : GoodB pre) (c : List Bytes) (hc : ∀ l ∈ c, GoodB l) (w : Writer) (hw : WB w) :
    WB (serComment w pre c) := by
  induction c generalizing w with
  | nil => exact hw
  | cons l ls ih =>
    simp only [serComment]
    apply ih (fun x hx => hc x (List.mem_cons_of_mem _ hx))
    apply wb_newline
    split
    · exact wb_writeLiteral (wb_writeLiteral (wb_writeLiteral hw hp) gl_sp) (hc l (List.mem_cons_self))
    · exact wb_writeLiteral hw hp

theorem serAttributesGo_wb (as : List (Attribute Bytes)) (he : ∀ a ∈ as, allAttr GoodB a) (w w' : Writer) (hw : WB w)
    (h : serAttributesGo w as = some w') : WB w' := by
  induction as generalizing w with
  | nil => simp only [serAttributesGo, Option.some.injEq] at h; subst h; exact hw
  | cons a as ih =>
    have ha := he a (List.mem_cons_self)
    simp only [serAttributesGo] at h
    split at h
    · cases h
    · rename_i w2 hp
      refine ih (fun x hx => he x (List.mem_cons_of_mem _ hx)) _ ?_ h
      exact serPattern_wb a.value ha.2 _ _
        (wb_writeLiteral (wb_writeLiteral (wb_writeLiteral (wb_newline hw) gl_dot) ha.1) gl_eq) hp

theorem serAttributes_wb (as : List (Attribute Bytes)) (he : ∀ a ∈ as, allAttr GoodB a) (w w' : Writer) (hw : WB w)
    (h : serAttributes w as = some w') : WB w' := by
  simp only [serAttributes] at h
  split at h
  · cases h; exact hw
  · split at h
    · cases h
    · rename_i w1 h1
      exact wb_dedent (serAttributesGo_wb as he _ _ (wb_indent hw) h1) h

theorem serEntry_wb (withJunk : Bool) (r : List (Entry Bytes)) (he : ∀ e ∈ r, allEntry GoodB e) (w w' : Writer)
    (b : Bool) (hw : WB w) (h : serResourceGo withJunk w b r = some w') : WB w' := by
  induction r generalizing w b with
  | nil => simp only [serResourceGo, Option.some.injEq] at h; subst h; exact hw
  | cons e es ih =>
    have hee := he e (List.mem_cons_self)
    have ih' := ih (fun x hx => he x (List.mem_cons_of_mem _ hx))
    have hfc : ∀ (pre : Bytes), GoodB pre → ∀ c : List Bytes, (∀ l ∈ c, GoodB l) →
        WB (serFreeComment w b pre c) := by
      intro pre hp c hc
      simp only [serFreeComment]
      apply wb_newline
      apply serComment_wb pre hp c hc
      split
      · exact wb_newline hw
      · exact hw
    cases e with
    | message m =>
      simp only [allEntry] at hee
      simp only [serResourceGo] at h
      split at h
      · cases h
      · rename_i w1 hm
        refine ih' _ _ ?_ h
        simp only [serMessage] at hm
        have hw1 : WB (match m.comment with
            | some c => serComment w (lit "#") c
            | none => w) := by
          cases hcm : m.comment with
          | none => exact hw
          | some c => exact serComment_wb _ gl_hash c (hee.2.2.2 c hcm) w hw
        have hw2 := wb_writeLiteral (wb_writeLiteral hw1 hee.1) gl_eq
        split at hm
        · cases hm
        · rename_i w3 hv
          simp only [Option.map_eq_some_iff] at hm
          obtain ⟨w4, ha, rfl⟩ := hm
          apply wb_newline
          refine serAttributes_wb m.attributes hee.2.2.1 _ _ ?_ ha
          cases hval : m.value with
          | none => rw [hval] at hv; simp only [Option.some.injEq] at hv; subst hv; exact hw2
          | some v => rw [hval] at hv; exact serPattern_wb v (hee.2.1 v hval) _ _ hw2 hv
    | term t =>
      simp only [allEntry] at hee
      simp only [serResourceGo] at h
      split at h
      · cases h
      · rename_i w1 hm
        refine ih' _ _ ?_ h
        simp only [serTerm] at hm
        have hw1 : WB (match t.comment with
            | some c => serComment w (lit "#") c
            | none => w) := by
          cases hcm : t.comment with
          | none => exact hw
          | some c => exact serComment_wb _ gl_hash c (hee.2.2.2 c hcm) w hw
        have hw2 := wb_writeLiteral (wb_writeLiteral (wb_writeLiteral hw1 gl_minus) hee.1) gl_eq
        split at hm
        · cases hm
        · rename_i w3 hv
          simp only [Option.map_eq_some_iff] at hm
          obtain ⟨w4, ha, rfl⟩ := hm
          apply wb_newline
          exact serAttributes_wb t.attributes hee.2.2.1 _ _ (serPattern_wb t.value hee.2.1 _ _ hw2 hv) ha
    | comment c => simp only [serResourceGo] at h; exact ih' _ _ (hfc _ gl_hash c hee) h
    | groupComment c => simp only [serResourceGo] at h; exact ih' _ _ (hfc _ gl_hash2 c hee) h
    | resourceComment c => simp only [serResourceGo] at h; exact ih' _ _ (hfc _ gl_hash3 c hee) h
    | junk c =>
      simp only [serResourceGo] at h
      split at h
      · exact ih' _ _ hw h
      · exact ih' _ _ (wb_writeLiteral hw hee) h

theorem atb_array {l : Bytes} (h : ATBl l) : AsciiThenBoundary l.toArray := by
  intro i b hb hb128
  have hlt := get_lt hb
  simp only [isBoundary]
  by_cases h1 : i + 1 = l.toArray.size
  · simp [h1]
  · cases hc : l.toArray[i + 1]? with
    | none => have : i + 1 < l.toArray.size := by omega
              simp at hc; simp at this; omega
    | some c =>
      have := h i b c (by simpa using hb) hb128 (by simpa using hc)
      simp [notCont] at this
      simp [this]

/-- **The serializer's output keeps the `&str` invariant** whenever every string of the tree is good. -/
theorem serialize_atb (withJunk : Bool) (r : Resource Bytes) (he : ∀ e ∈ r, allEntry GoodB e) (out : Bytes)
    (h : serialize withJunk r = some out) : AsciiThenBoundary out.toArray := by
  simp only [serialize, Option.map_eq_some_iff] at h
  obtain ⟨w, hw, rfl⟩ := h
  have := serEntry_wb withJunk r he {} w false (by intro i b c hb; simp at hb) hw
  simpa using atb_array this

section transfer
set_option linter.unusedSectionVars false
variable {S T : Type} (P : S → Prop) (Q : T → Prop) (f : S → T) (hf : ∀ x, P x → Q (f x))
include hf

theorem optAll_map (o : Option S) (h : OptAll P o) : OptAll Q (o.map f) := by
  cases o with
  | none => trivial
  | some a => exact hf a h

mutual
theorem allInline_mapS (e : Inline S) (h : allInline P e) : allInline Q (e.mapS f) := by
  cases e with
  | str v => simp only [allInline, Inline.mapS] at h ⊢; exact hf v h
  | num v => simp only [allInline, Inline.mapS] at h ⊢; exact hf v h
  | var v => simp only [allInline, Inline.mapS] at h ⊢; exact hf v h
  | msg id attr =>
    simp only [allInline, Inline.mapS] at h ⊢
    exact ⟨hf id h.1, optAll_map P Q f hf attr h.2⟩
  | fn id pos named =>
    simp only [allInline, Inline.mapS] at h ⊢
    exact ⟨hf id h.1, allInl_mapS pos h.2.1, allNamed_mapS named h.2.2⟩
  | term id attr args =>
    cases args with
    | none =>
      simp only [allInline, Inline.mapS] at h ⊢
      exact ⟨hf id h.1, optAll_map P Q f hf attr h.2⟩
    | some pn =>
      obtain ⟨pos, named⟩ := pn
      simp only [allInline, Inline.mapS] at h ⊢
      exact ⟨hf id h.1, optAll_map P Q f hf attr h.2.1, allInl_mapS pos h.2.2.1, allNamed_mapS named h.2.2.2⟩
  | placeable e => simp only [allInline, Inline.mapS] at h ⊢; exact allExpr_mapS e h
theorem allInl_mapS (xs : List (Inline S)) (h : allInl P xs) : allInl Q (mapInl f xs) := by
  cases xs with
  | nil => simp [mapInl, allInl]
  | cons x xs => simp only [allInl, mapInl] at h ⊢; exact ⟨allInline_mapS x h.1, allInl_mapS xs h.2⟩
theorem allNamed_mapS (xs : List (S × Inline S)) (h : allNamed P xs) : allNamed Q (mapNamed f xs) := by
  cases xs with
  | nil => simp [mapNamed, allNamed]
  | cons x xs =>
    obtain ⟨n, v⟩ := x
    simp only [allNamed, mapNamed] at h ⊢
    exact ⟨hf n h.1, allInline_mapS v h.2.1, allNamed_mapS xs h.2.2⟩
theorem allExpr_mapS (e : Expr S) (h : allExpr P e) : allExpr Q (e.mapS f) := by
  cases e with
  | inline i => simp only [allExpr, Expr.mapS] at h ⊢; exact allInline_mapS i h
  | select sel vs =>
    simp only [allExpr, Expr.mapS] at h ⊢
    exact ⟨allInline_mapS sel h.1, allVariants_mapS vs h.2⟩
theorem allVariants_mapS (vs : List (Variant S)) (h : allVariants P vs) : allVariants Q (mapVariants f vs) := by
  cases vs with
  | nil => simp [mapVariants, allVariants]
  | cons v vs => simp only [allVariants, mapVariants] at h ⊢; exact ⟨allVariant_mapS v h.1, allVariants_mapS vs h.2⟩
theorem allVariant_mapS (v : Variant S) (h : allVariant P v) : allVariant Q (v.mapS f) := by
  cases v with
  | mk k val d =>
    simp only [allVariant, Variant.mapS] at h ⊢
    refine ⟨?_, allPat_mapS val h.2⟩
    cases k <;> simp only [allVKey, VKey.mapS] at h ⊢ <;> exact hf _ h.1
theorem allPat_mapS (es : List (PatElem S)) (h : allPat P es) : allPat Q (mapPat f es) := by
  cases es with
  | nil => simp [mapPat, allPat]
  | cons e es => simp only [allPat, mapPat] at h ⊢; exact ⟨allPatElem_mapS e h.1, allPat_mapS es h.2⟩
theorem allPatElem_mapS (e : PatElem S) (h : allPatElem P e) : allPatElem Q (e.mapS f) := by
  cases e with
  | text v => simp only [allPatElem, PatElem.mapS] at h ⊢; exact hf v h
  | placeable x => simp only [allPatElem, PatElem.mapS] at h ⊢; exact allExpr_mapS x h
end

theorem allEntry_mapS (e : Entry S) (h : allEntry P e) : allEntry Q (e.mapS f) := by
  have hattr : ∀ as : List (Attribute S), (∀ a ∈ as, allAttr P a) → ∀ a ∈ as.map (Attribute.mapS f), allAttr Q a := by
    intro as has a ha
    simp only [List.mem_map] at ha
    obtain ⟨a', ha', rfl⟩ := ha
    exact ⟨hf _ (has a' ha').1, allPat_mapS P Q f hf _ (has a' ha').2⟩
  have hcom : ∀ c : List S, (∀ l ∈ c, P l) → ∀ l ∈ c.map f, Q l := by
    intro c hc l hl
    simp only [List.mem_map] at hl
    obtain ⟨l', hl', rfl⟩ := hl
    exact hf _ (hc l' hl')
  cases e with
  | message m =>
    simp only [allEntry, Entry.mapS] at h ⊢
    refine ⟨hf _ h.1, ?_, hattr _ h.2.2.1, ?_⟩
    · intro v hv
      cases hm : m.value with
      | none => simp [hm] at hv
      | some v' => simp [hm] at hv; subst hv; exact allPat_mapS P Q f hf _ (h.2.1 v' hm)
    · intro c hc
      cases hm : m.comment with
      | none => simp [hm] at hc
      | some c' => simp [hm] at hc; subst hc; exact hcom _ (h.2.2.2 c' hm)
  | term t =>
    simp only [allEntry, Entry.mapS] at h ⊢
    refine ⟨hf _ h.1, allPat_mapS P Q f hf _ h.2.1, hattr _ h.2.2.1, ?_⟩
    intro c hc
    cases hm : t.comment with
    | none => simp [hm] at hc
    | some c' => simp [hm] at hc; subst hc; exact hcom _ (h.2.2.2 c' hm)
  | comment c => simp only [allEntry, Entry.mapS] at h ⊢; exact hcom c h
  | groupComment c => simp only [allEntry, Entry.mapS] at h ⊢; exact hcom c h
  | resourceComment c => simp only [allEntry, Entry.mapS] at h ⊢; exact hcom c h
  | junk c => simp only [allEntry, Entry.mapS] at h ⊢; exact hf c h

end transfer

end FluentProofs.Ser
