import FluentModel.ResolverSpec
/-!
# Resolver model: what a call does once the scope is `dirty` (the placeable limit was exceeded)

`dirty` is never reset; from then on `writeElems` returns at once, so no further placeable is counted and
`tooManyPlaceables` is never logged again.  The code still runs to the end of the enclosing
constructs (remaining call arguments are resolved, fallbacks are printed), so it may append *other*
errors.  `Ext sc sc'` says exactly that; `DirtyOk sc r` lifts it to a call result (`.fuel` is allowed:
fuel sufficiency is C06's business; `.panic` is excluded when the plural rules are total).
-/
namespace FluentProofs.ResolverRefine
open FluentModel FluentModel.Syntax FluentModel.Num FluentModel.Resolver

/-- `sc'` is a dirty scope whose error log extends `log` by entries none of which is `tooManyPlaceables` -/
def Ext (log : List RErr) (sc' : Scope) : Prop :=
  sc'.dirty = true ∧ ∃ extra, sc'.errors = log ++ extra ∧ RErr.tooManyPlaceables ∉ extra

theorem Ext.refl {sc : Scope} (h : sc.dirty = true) : Ext sc.errors sc := ⟨h, [], by simp, by simp⟩

theorem Ext.trans {l : List RErr} {b c : Scope} (h1 : Ext l b) (h2 : Ext b.errors c) : Ext l c := by
  obtain ⟨_, e1, he1, hn1⟩ := h1
  obtain ⟨hd, e2, he2, hn2⟩ := h2
  exact ⟨hd, e1 ++ e2, by simp [he2, he1], by simp [hn1, hn2]⟩

theorem Ext.addError {l : List RErr} {b : Scope} (h : Ext l b) (e : RErr) (he : e ≠ .tooManyPlaceables) :
    Ext l (b.addError e) := by
  obtain ⟨hd, e1, he1, hn1⟩ := h
  refine ⟨hd, e1 ++ [e], by simp [Scope.addError, he1], ?_⟩
  simp [hn1]; exact fun h => he h.symm

/-- same log and flag: `Ext` does not look at the other fields -/
theorem Ext.congr {l : List RErr} {b b' : Scope} (h : Ext l b) (hd : b'.dirty = b.dirty) (he : b'.errors = b.errors) :
    Ext l b' := by
  obtain ⟨h1, e1, he1, hn1⟩ := h
  exact ⟨by rw [hd, h1], e1, by rw [he, he1], hn1⟩

/-- result of a model call started in (or having reached) a dirty scope: it does not panic; if it returns
(it may run out of fuel: fuel sufficiency is C06) the scope is still dirty and the log extends `log`
without a second `tooManyPlaceables` -/
def DirtyOk {α : Type} (log : List RErr) : RR (α × Scope) → Prop
  | .fuel => True
  | .panic _ => False
  | .ok (_, sc') => Ext log sc'

/-- the plural rules of the bundle's first locale exist (otherwise `key.matches` panics) -/
def CategoryTotal (env : Env) : Prop := ∀ n, (env.category n).isSome = true

theorem valueMatches_isSome (env : Env) (h : CategoryTotal env) (k s : Value) :
    (valueMatches env k s).isSome = true := by
  unfold valueMatches
  split <;> try rfl
  split
  · rfl
  · have := h ‹_›
    revert this
    cases env.category _ <;> simp

theorem selectVariant_no_panic (env : Env) (h : CategoryTotal env) (vs : List (Variant Bytes)) (s : Value) :
    ∃ r, selectVariant env vs s = .ok r := by
  induction vs with
  | nil => exact ⟨_, rfl⟩
  | cons v rest ih =>
    obtain ⟨k, val, d⟩ := v
    unfold selectVariant
    have := valueMatches_isSome env h (match k with | .ident n => .str n | .num v => env.tryNumber v) s
    revert this
    simp only []
    cases valueMatches env _ s with
    | none => simp
    | some b => cases b <;> simp [ih]

theorem writeRefError_dirty (w : Bytes) (lg : List RErr) (sc : Scope) (e : Inline Bytes) (h : Ext lg sc)
    (hk : (refKindOf e).isSome = true) : DirtyOk lg (writeRefError w sc e) := by
  unfold writeRefError
  cases hr : refKindOf e with
  | none => simp [hr] at hk
  | some k => exact h.addError _ (by simp)


/-- all ten functions at fuel `n`, started from a dirty scope `sc` whose log extends `lg` -/
def DirtyAll (env : Env) (n : Nat) : Prop :=
  (∀ whole len es w lg sc, Ext lg sc → DirtyOk lg (writeElems env n whole len es w sc)) ∧
  (∀ p w lg sc, Ext lg sc → DirtyOk lg (writePattern env n p w sc)) ∧
  (∀ p e w lg sc, Ext lg sc → DirtyOk lg (track env n p e w sc)) ∧
  (∀ e w lg sc, Ext lg sc → DirtyOk lg (writeExpr env n e w sc)) ∧
  (∀ vs w lg sc, Ext lg sc → DirtyOk lg (writeDefault env n vs w sc)) ∧
  (∀ e w lg sc, Ext lg sc → DirtyOk lg (writeInline env n e w sc)) ∧
  (∀ e lg sc, Ext lg sc → DirtyOk lg (resolveInline env n e sc)) ∧
  (∀ a lg sc, Ext lg sc → DirtyOk lg (getArguments env n a sc)) ∧
  (∀ es lg sc, Ext lg sc → DirtyOk lg (resolveList env n es sc)) ∧
  (∀ es lg sc, Ext lg sc → DirtyOk lg (resolveNamed env n es sc))

theorem dirtyAll (env : Env) (hc : CategoryTotal env) : ∀ n, DirtyAll env n := by
  intro n
  induction n with
  | zero =>
    refine ⟨?_, ?_, ?_, ?_, ?_, ?_, ?_, ?_, ?_, ?_⟩ <;> intros <;> simp [writeElems, writePattern, track, writeExpr,
      writeDefault, writeInline, resolveInline, getArguments, resolveList, resolveNamed, DirtyOk]
  | succ n ih =>
    obtain ⟨iElems, iPat, iTrack, iExpr, iDef, iInl, iRes, iArgs, iList, iNamed⟩ := ih
    refine ⟨?_, ?_, ?_, ?_, ?_, ?_, ?_, ?_, ?_, ?_⟩
    · -- writeElems
      intro whole len es w lg sc h
      cases es with
      | nil => simpa [writeElems, DirtyOk] using h
      | cons el rest => simp [writeElems, h.1, DirtyOk]; exact h
    · intro p w lg sc h
      simpa [writePattern] using iElems p p.length p w lg sc h
    · -- track
      intro p e w lg sc h
      simp only [track]
      split
      · exact h.addError _ (by simp)
      · have := iPat p w lg { sc with travelled := sc.travelled ++ [p] } (h.congr rfl rfl)
        revert this
        split <;> simp_all [DirtyOk]
        intro h'; exact h'.congr rfl rfl
    · -- writeExpr
      intro e w lg sc h
      cases e with
      | inline e => simpa [writeExpr] using iInl e w lg sc h
      | select sel vs =>
        simp only [writeExpr]
        have h1 := iRes sel lg sc h
        generalize resolveInline env n sel sc = r at h1 ⊢
        match r, h1 with
        | .fuel, _ => simp [DirtyOk]
        | .ok (selector, sc1), h1 =>
          have h1 : Ext lg sc1 := h1
          obtain ⟨r, hr⟩ := selectVariant_no_panic env hc vs selector
          have hsel : DirtyOk lg (match selectVariant env vs selector with
              | .ok (some v) => writePattern env n v w sc1
              | .ok .none => writeDefault env n vs w sc1
              | .panic m => .panic m
              | .fuel => .fuel) := by
            rw [hr]; cases r with
            | none => exact iDef vs w lg sc1 h1
            | some v => exact iPat v w lg sc1 h1
          cases selector <;> first | exact hsel | exact iDef vs w lg sc1 h1
    · -- writeDefault
      intro vs w lg sc h
      simp only [writeDefault]
      split
      · exact iPat _ w lg sc h
      · exact h.addError _ (by simp)
    · -- writeInline
      intro e w lg sc h
      cases e with
      | str v => simpa [writeInline, DirtyOk] using h
      | num v => simpa [writeInline, DirtyOk] using h
      | placeable e => simpa [writeInline] using iExpr e w lg sc h
      | var id =>
        simp only [writeInline]
        split
        · exact h
        · show Ext lg _
          split
          · exact h.addError _ (by simp)
          · exact h
      | msg id attr =>
        simp only [writeInline]
        split
        · split
          · split
            · exact iTrack _ _ w lg sc h
            · exact writeRefError_dirty w lg sc _ h rfl
          · split
            · exact iTrack _ _ w lg sc h
            · exact h.addError _ (by simp)
        · exact writeRefError_dirty w lg sc _ h rfl
      | fn id pos named =>
        simp only [writeInline]
        have h1 := iArgs (some (pos, named)) lg sc h
        generalize getArguments env n (some (pos, named)) sc = r at h1 ⊢
        match r, h1 with
        | .fuel, _ => simp [DirtyOk]
        | .ok ((rp, rn), sc1), h1 =>
          have h1 : Ext lg sc1 := h1
          dsimp only
          split
          · split <;> exact h1
          · exact writeRefError_dirty w lg sc1 _ h1 rfl
      | term id attr args =>
        simp only [writeInline]
        have h1 := iArgs args lg sc h
        generalize getArguments env n args sc = r at h1 ⊢
        match r, h1 with
        | .fuel, _ => simp [DirtyOk]
        | .ok ((rp, named), sc1), h1 =>
          have h1 : Ext lg sc1 := h1
          dsimp only
          have h2 : Ext lg { sc1 with localArgs := some named } := h1.congr rfl rfl
          generalize { sc1 with localArgs := some named } = sc2 at h2 ⊢
          split
          · rename_i w1 sc3 heq
            revert heq
            split
            · rename_i p _
              intro heq
              have := iTrack p (.term id attr args) w lg sc2 h2
              rw [heq] at this
              exact Ext.congr (b := sc3) this rfl rfl
            · intro heq
              have := writeRefError_dirty w lg sc2 (.term id attr args) h2 rfl
              rw [heq] at this
              exact Ext.congr (b := sc3) this rfl rfl
          · rename_i m heq
            revert heq
            split
            · rename_i p _
              intro heq
              have := iTrack p (.term id attr args) w lg sc2 h2
              rw [heq] at this
              exact this.elim
            · intro heq
              have := writeRefError_dirty w lg sc2 (.term id attr args) h2 rfl
              rw [heq] at this
              exact this.elim
          · trivial
    · -- resolveInline
      intro e lg sc h
      have hw : ∀ e : Inline Bytes, DirtyOk lg (match writeInline env n e [] sc with
          | .ok (w, sc1) => RR.ok (Value.str w, sc1)
          | .panic m => .panic m
          | .fuel => .fuel) := by
        intro e
        have h1 := iInl e [] lg sc h
        generalize writeInline env n e [] sc = r at h1 ⊢
        match r, h1 with
        | .fuel, _ => trivial
        | .ok (w, sc1), h1 => exact h1
      cases e with
      | str v => simpa [resolveInline, DirtyOk] using h
      | num v => simpa [resolveInline, DirtyOk] using h
      | placeable e => simp only [resolveInline]; exact hw (.placeable e)
      | msg id attr => simp only [resolveInline]; exact hw (.msg id attr)
      | term id attr args => simp only [resolveInline]; exact hw (.term id attr args)
      | var id =>
        simp only [resolveInline]
        split
        · split <;> exact h
        · split
          · exact h
          · exact h.addError _ (by simp)
      | fn id pos named =>
        simp only [resolveInline]
        have h1 := iArgs (some (pos, named)) lg sc h
        generalize getArguments env n (some (pos, named)) sc = r at h1 ⊢
        match r, h1 with
        | .fuel, _ => trivial
        | .ok ((rp, rn), sc1), h1 =>
          have h1 : Ext lg sc1 := h1
          dsimp only
          split
          · exact h1
          · exact h1.addError _ (by simp)
    · -- getArguments
      intro a lg sc h
      match a with
      | .none => simpa [getArguments, DirtyOk] using h
      | some (pos, named) =>
        simp only [getArguments]
        have h1 := iList pos lg sc h
        generalize resolveList env n pos sc = r at h1 ⊢
        match r, h1 with
        | .fuel, _ => trivial
        | .ok (vs, sc1), h1 =>
          have h1 : Ext lg sc1 := h1
          dsimp only
          have h2 := iNamed named lg sc1 h1
          generalize resolveNamed env n named sc1 = r2 at h2 ⊢
          match r2, h2 with
          | .fuel, _ => trivial
          | .ok (ns, sc2), h2 => exact h2
    · -- resolveList
      intro es lg sc h
      match es with
      | [] => simpa [resolveList, DirtyOk] using h
      | e :: es =>
        simp only [resolveList]
        have h1 := iRes e lg sc h
        generalize resolveInline env n e sc = r at h1 ⊢
        match r, h1 with
        | .fuel, _ => trivial
        | .ok (v, sc1), h1 =>
          have h1 : Ext lg sc1 := h1
          dsimp only
          have h2 := iList es lg sc1 h1
          generalize resolveList env n es sc1 = r2 at h2 ⊢
          match r2, h2 with
          | .fuel, _ => trivial
          | .ok (ns, sc2), h2 => exact h2
    · -- resolveNamed
      intro es lg sc h
      match es with
      | [] => simpa [resolveNamed, DirtyOk] using h
      | (k, e) :: es =>
        simp only [resolveNamed]
        have h1 := iRes e lg sc h
        generalize resolveInline env n e sc = r at h1 ⊢
        match r, h1 with
        | .fuel, _ => trivial
        | .ok (v, sc1), h1 =>
          have h1 : Ext lg sc1 := h1
          dsimp only
          have h2 := iNamed es lg sc1 h1
          generalize resolveNamed env n es sc1 = r2 at h2 ⊢
          match r2, h2 with
          | .fuel, _ => trivial
          | .ok (ns, sc2), h2 => exact h2

end FluentProofs.ResolverRefine
