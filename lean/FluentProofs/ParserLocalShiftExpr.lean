import FluentProofs.ParserLocalShiftLeaf
/-!
# Locality of the parser, SHIFT family, part 2: the expression functions

`ShSpecs d s₁ s₂ n`: the joint statement for the eight mutually recursive functions at fuel `n` — a run on `s₁` that
does not end in `fuel` is reproduced on `s₂` (moved by `d`) with any fuel `m ≥ n`.  This file has the step lemmas of
the six expression functions; `ParserLocalShiftPat.lean` has the pattern loop and the induction.
-/
namespace FluentProofs.Parser
open FluentModel.Syntax

/-! ## AST maps -/

theorem mapInl_snoc' {S T : Type} (f : S → T) (a : List (Inline S)) (x : Inline S) :
    mapInl f (a ++ [x]) = mapInl f a ++ [x.mapS f] := by
  induction a with
  | nil => simp [mapInl]
  | cons y ys ih => simp [mapInl, ih]

theorem mapNamed_snoc' {S T : Type} (f : S → T) (a : List (S × Inline S)) (n : S) (x : Inline S) :
    mapNamed f (a ++ [(n, x)]) = mapNamed f a ++ [(f n, x.mapS f)] := by
  induction a with
  | nil => simp [mapNamed]
  | cons y ys ih => obtain ⟨n', y⟩ := y; simp [mapNamed, ih]

theorem mapVariants_snoc' {S T : Type} (f : S → T) (a : List (Variant S)) (x : Variant S) :
    mapVariants f (a ++ [x]) = mapVariants f a ++ [x.mapS f] := by
  induction a with
  | nil => simp [mapVariants]
  | cons y ys ih => simp [mapVariants, ih]

theorem mapNamed_isEmpty {S T : Type} (f : S → T) (a : List (S × Inline S)) : (mapNamed f a).isEmpty = a.isEmpty := by
  cases a with
  | nil => simp [mapNamed]
  | cons y ys => obtain ⟨n', y⟩ := y; simp [mapNamed]

/-- call arguments moved by `d` -/
def shArgs (d : Nat) (pn : List (Inline Span) × List (Span × Inline Span)) :
    List (Inline Span) × List (Span × Inline Span) := (mapInl (shSpan d) pn.1, mapNamed (shSpan d) pn.2)

theorem Inline.mapS_term {S T : Type} (f : S → T) (id : S) (attr : Option S)
    (args : Option (List (Inline S) × List (S × Inline S))) :
    (Inline.term id attr args).mapS f = .term (f id) (attr.map f) (args.map fun pn => (mapInl f pn.1, mapNamed f pn.2)) := by
  cases args with
  | none => simp [Inline.mapS]
  | some pn => obtain ⟨a, b⟩ := pn; simp [Inline.mapS]

section
variable {S T : Type} (f : S → T)
theorem Inline.mapS_str (v : S) : (Inline.str v).mapS f = .str (f v) := by simp [Inline.mapS]
theorem Inline.mapS_num (v : S) : (Inline.num v).mapS f = .num (f v) := by simp [Inline.mapS]
theorem Inline.mapS_fn (id : S) (pos : List (Inline S)) (named : List (S × Inline S)) :
    (Inline.fn id pos named).mapS f = .fn (f id) (mapInl f pos) (mapNamed f named) := by simp [Inline.mapS]
theorem Inline.mapS_msg (id : S) (attr : Option S) : (Inline.msg id attr).mapS f = .msg (f id) (attr.map f) := by
  simp [Inline.mapS]
theorem Inline.mapS_var (v : S) : (Inline.var v).mapS f = .var (f v) := by simp [Inline.mapS]
theorem Inline.mapS_placeable (e : Expr S) : (Inline.placeable e).mapS f = .placeable (e.mapS f) := by simp [Inline.mapS]
theorem Expr.mapS_inline (e : Inline S) : (Expr.inline e).mapS f = .inline (e.mapS f) := by simp [Expr.mapS]
theorem Expr.mapS_select (e : Inline S) (vs : List (Variant S)) :
    (Expr.select e vs).mapS f = .select (e.mapS f) (mapVariants f vs) := by simp [Expr.mapS]
end

/-- `simp only` with the constructor equations of the AST maps -/
macro "ast_simp" loc:(Lean.Parser.Tactic.location)? : tactic =>
  `(tactic| simp only [Inline.mapS_str, Inline.mapS_num, Inline.mapS_fn, Inline.mapS_msg, Inline.mapS_var,
      Inline.mapS_placeable, Inline.mapS_term, Expr.mapS_inline, Expr.mapS_select, Option.map_some, Option.map_none,
      shR_ok, shR_err, shR_panic, shR_fuel, shErr_mkErr, shEK] $[$loc]?)

section
variable {d : Nat} {s₁ s₂ : Src}

theorem Shift.sh1 (_ : Shift d s₁ s₂) (p : Nat) : p + d + 1 = p + 1 + d := by omega
theorem Shift.sh2 (_ : Shift d s₁ s₂) (p : Nat) : p + d + 2 = p + 2 + d := by omega

theorem usub_succ (q : Nat) : usub (q + 1) 1 = some q := by
  simp only [usub]; rw [if_pos (by omega)]; rfl
theorem usub_succ_sh (d q : Nat) : usub (q + 1 + d) 1 = some (q + d) := by
  simp only [usub]; rw [if_pos (by omega)]; congr 1; omega

theorem named_any_shift_aux (h : Shift d s₁ s₂) (named : List (Span × Inline Span)) (B : FluentModel.Bytes) :
    (mapNamed (shSpan d) named).any (fun na => spanBytes s₂ na.1 == B) =
      named.any (fun na => spanBytes s₁ na.1 == B) := by
  induction named with
  | nil => simp [mapNamed]
  | cons y ys ih => obtain ⟨n', y⟩ := y; simp only [mapNamed, List.any_cons, ih, spanBytes_shift h]

theorem named_any_shift (h : Shift d s₁ s₂) (named : List (Span × Inline Span)) (id : Span) :
    (mapNamed (shSpan d) named).any (fun na => spanBytes s₂ na.1 == spanBytes s₂ (shSpan d id)) =
      named.any (fun na => spanBytes s₁ na.1 == spanBytes s₁ id) := by
  rw [spanBytes_shift h, named_any_shift_aux h]

/-- rewrite every leaf call on `s₂` at a shifted cursor into the corresponding call on `s₁` -/
macro "shs " h:term : tactic =>
  `(tactic| simp only [Shift.get $h, Shift.sh1 $h, Shift.sh2 $h, Shift.lt $h, skipBlank_shift $h, skipBlankInline_shift $h,
      skipEol_shift $h, isEol_shift $h, isCurrentByte_shift $h, expectByte_shift $h, takeByteIf_shift $h,
      isIdentifierStart_shift $h, isNumberStart_shift $h, getNumberLiteral_shift $h, getIdentifierUnchecked_shift $h,
      getIdentifier_shift $h, getAttributeAccessor_shift $h, scanString_shift $h, slice_shift $h, isCallee_shift $h,
      skipBlankBlock_shift_fst $h, getTextSlice_shift $h,
      shR_ok, shR_err, shR_panic, shR_fuel, shErr_mkErr, shEK, id, Option.map_some, Option.map_none])

/-- `shs` that may find nothing to do -/
macro "shs? " h:term : tactic => `(tactic| try shs $h)

/-- joint SHIFT specification of the eight mutually recursive functions at fuel `n` -/
structure ShSpecs (d : Nat) (s₁ s₂ : Src) (n : Nat) : Prop where
  patternLoop : ∀ st p r, getPatternLoop s₁ n st p = r → r ≠ .fuel → ∀ m, n ≤ m →
    getPatternLoop s₂ m (shSt d st) (p + d) = shR (shSt d) d r
  pattern : ∀ p r, getPattern s₁ n p = r → r ≠ .fuel → ∀ m, n ≤ m →
    getPattern s₂ m (p + d) = shR (Option.map (mapPat (shSpan d))) d r
  placeable : ∀ p r, getPlaceable s₁ n p = r → r ≠ .fuel → ∀ m, n ≤ m →
    getPlaceable s₂ m (p + d) = shR (Expr.mapS (shSpan d)) d r
  expression : ∀ p r, getExpression s₁ n p = r → r ≠ .fuel → ∀ m, n ≤ m →
    getExpression s₂ m (p + d) = shR (Expr.mapS (shSpan d)) d r
  inline : ∀ ol p r, getInline s₁ n ol p = r → r ≠ .fuel → ∀ m, n ≤ m →
    getInline s₂ m ol (p + d) = shR (Inline.mapS (shSpan d)) d r
  callArguments : ∀ p r, getCallArguments s₁ n p = r → r ≠ .fuel → ∀ m, n ≤ m →
    getCallArguments s₂ m (p + d) = shR (Option.map (shArgs d)) d r
  callArgsLoop : ∀ pos named p r, getCallArgsLoop s₁ n pos named p = r → r ≠ .fuel → ∀ m, n ≤ m →
    getCallArgsLoop s₂ m (mapInl (shSpan d) pos) (mapNamed (shSpan d) named) (p + d) = shR (shArgs d) d r
  variants : ∀ hd acc p r, getVariants s₁ n hd acc p = r → r ≠ .fuel → ∀ m, n ≤ m →
    getVariants s₂ m hd (mapVariants (shSpan d) acc) (p + d) = shR (mapVariants (shSpan d)) d r

theorem placeable_sh_step (h : Shift d s₁ s₂) {n : Nat} (IH : ShSpecs d s₁ s₂ n) (p : Nat) (r : R (Expr Span))
    (hr : getPlaceable s₁ (n + 1) p = r) (hne : r ≠ .fuel) (m : Nat) (hm : n + 1 ≤ m) :
    getPlaceable s₂ m (p + d) = shR (Expr.mapS (shSpan d)) d r := by
  obtain ⟨m', rfl⟩ : ∃ m', m = m' + 1 := ⟨m - 1, by omega⟩
  subst hr
  simp only [getPlaceable] at hne ⊢
  shs h
  cases he : getExpression s₁ n (skipBlank s₁ p) with
  | fuel => rw [he] at hne; exact absurd rfl hne
  | panic msg => rw [IH.expression _ _ he (by nofun) m' (by omega)]; rfl
  | err e q => rw [IH.expression _ _ he (by nofun) m' (by omega)]; rfl
  | ok e q =>
    rw [IH.expression _ _ he (by nofun) m' (by omega)]
    shs h
    cases hx : expectByte s₁ (skipBlankInline s₁ q) 125 with
    | fuel => rfl
    | panic msg => rfl
    | err e2 q2 => rfl
    | ok u q2 =>
      shs h
      cases e with
      | select sel vs => simp [Expr.mapS]
      | inline i =>
        cases i with
        | term id attr args =>
          cases attr with
          | none => simp [Expr.mapS, Inline.mapS_term]
          | some a => simp [Expr.mapS, Inline.mapS_term, shErr_mkErr, shEK]
        | _ => simp [Expr.mapS, Inline.mapS]

theorem expression_sh_step (h : Shift d s₁ s₂) {n : Nat} (IH : ShSpecs d s₁ s₂ n) (p : Nat) (r : R (Expr Span))
    (hr : getExpression s₁ (n + 1) p = r) (hne : r ≠ .fuel) (m : Nat) (hm : n + 1 ≤ m) :
    getExpression s₂ m (p + d) = shR (Expr.mapS (shSpan d)) d r := by
  obtain ⟨m', rfl⟩ : ∃ m', m = m' + 1 := ⟨m - 1, by omega⟩
  subst hr
  simp only [getExpression] at hne ⊢
  cases hi : getInline s₁ n false p with
  | fuel => rw [hi] at hne; exact absurd rfl hne
  | panic msg => rw [IH.inline _ _ _ hi (by nofun) m' (by omega)]; rfl
  | err e q => rw [IH.inline _ _ _ hi (by nofun) m' (by omega)]; rfl
  | ok exp q =>
    rw [IH.inline _ _ _ hi (by nofun) m' (by omega)]
    shs h
    by_cases hc : (!isCurrentByte s₁ (skipBlank s₁ q) 45 || !s₁[skipBlank s₁ q + 1]? == some 62) = true
    · simp only [hc, if_true]
      rcases exp with v | v | ⟨id, pos, named⟩ | ⟨id, _ | a⟩ | ⟨id, _ | a, args⟩ | id | e <;>
        ast_simp
    · simp only [hc, Bool.false_eq_true, if_false]
      rcases exp with v | v | ⟨id, pos, named⟩ | ⟨id, _ | a⟩ | ⟨id, _ | a, args⟩ | id | e <;>
        ast_simp
      all_goals
        cases hE : skipEol s₁ (skipBlankInline s₁ (skipBlank s₁ q + 2)) with
        | none => shs h
        | some q3 =>
          shs h
          have hv' := fun r hv hne => IH.variants false [] (skipBlank s₁ q3) r hv hne m' (by omega)
          simp only [mapVariants] at hv'
          cases hv : getVariants s₁ n false [] (skipBlank s₁ q3) with
          | fuel => exact absurd (by simp [hi, hc, hE, hv]) hne
          | panic msg => rw [hv' _ hv (by nofun)]; rfl
          | err e2 q5 => rw [hv' _ hv (by nofun)]; rfl
          | ok vs q5 => rw [hv' _ hv (by nofun)]; ast_simp

theorem callArguments_sh_step (h : Shift d s₁ s₂) {n : Nat} (IH : ShSpecs d s₁ s₂ n) (p : Nat)
    (r : R (Option (List (Inline Span) × List (Span × Inline Span))))
    (hr : getCallArguments s₁ (n + 1) p = r) (hne : r ≠ .fuel) (m : Nat) (hm : n + 1 ≤ m) :
    getCallArguments s₂ m (p + d) = shR (Option.map (shArgs d)) d r := by
  obtain ⟨m', rfl⟩ : ∃ m', m = m' + 1 := ⟨m - 1, by omega⟩
  subst hr
  simp only [getCallArguments] at hne ⊢
  shs h
  rcases takeByteIf_cases s₁ (skipBlank s₁ p) 40 with ⟨ht, _⟩ | ⟨ht, _⟩ <;> simp only [ht]
  · simp only [Bool.not_true, Bool.false_eq_true, if_false]
    have hl' := fun r hl hne => IH.callArgsLoop [] [] (skipBlank s₁ (skipBlank s₁ p + 1)) r hl hne m' (by omega)
    simp only [mapInl, mapNamed] at hl'
    cases hl : getCallArgsLoop s₁ n [] [] (skipBlank s₁ (skipBlank s₁ p + 1)) with
    | fuel => exact absurd (by simp [ht, hl]) hne
    | panic msg => rw [hl' _ hl (by nofun)]; rfl
    | err e q => rw [hl' _ hl (by nofun)]; rfl
    | ok pn q =>
      obtain ⟨pos, named⟩ := pn
      rw [hl' _ hl (by nofun)]
      shs h
      simp only [shArgs]
      cases expectByte s₁ q 41 <;> rfl
  · simp only [Bool.not_false, if_true, shR_ok, Option.map_none]

theorem getIdentifierUnchecked_shift2 (h : Shift d s₁ s₂) (p : Nat) :
    getIdentifierUnchecked s₂ (p + 2 + d) = shR (shSpan d) d (getIdentifierUnchecked s₁ (p + 2)) :=
  getIdentifierUnchecked_shift h (p + 1)

theorem inline_sh_step (h : Shift d s₁ s₂) {n : Nat} (IH : ShSpecs d s₁ s₂ n) (ol : Bool) (p : Nat) (r : R (Inline Span))
    (hr : getInline s₁ (n + 1) ol p = r) (hne : r ≠ .fuel) (m : Nat) (hm : n + 1 ≤ m) :
    getInline s₂ m ol (p + d) = shR (Inline.mapS (shSpan d)) d r := by
  obtain ⟨m', rfl⟩ : ∃ m', m = m' + 1 := ⟨m - 1, by omega⟩
  subst hr
  simp only [getInline] at hne ⊢
  shs h
  have hfb : (if ol = true then (R.err (mkErr .expectedLiteral (p + d)) (p + d) : R (Inline Span))
        else .err (mkErr .expectedInlineExpression (p + d)) (p + d)) =
      shR (Inline.mapS (shSpan d)) d
        (if ol = true then .err (mkErr .expectedLiteral p) p else .err (mkErr .expectedInlineExpression p) p) := by
    split <;> simp only [shR_err, shErr_mkErr, shEK]
  cases hb : s₁[p]? with
  | none => exact hfb
  | some b =>
    simp only []
    by_cases c1 : (b == 34) = true
    · simp only [c1, if_true]
      cases hs : scanString s₁ (p + 1) with
      | ok u q =>
        shs h
        simp only [expectByte]
        by_cases hc : isCurrentByte s₁ q 34 = true
        · simp only [hc, if_true, shR_ok, id, usub_succ, usub_succ_sh]
          shs h
          cases slice s₁ (p + 1) q <;> ast_simp
        · simp only [hc, Bool.false_eq_true, if_false]
          shs h
      | err e q => rfl
      | panic msg => rfl
      | fuel => rfl
    · simp only [c1, Bool.false_eq_true, if_false]
      by_cases c2 : isDigit b = true
      · simp only [c2, if_true]
        cases getNumberLiteral s₁ p <;> ast_simp
      · simp only [c2, Bool.false_eq_true, if_false]
        by_cases c3 : (b == 45) = true
        · simp only [c3, if_true]
          by_cases c4 : (!ol && isIdentifierStart s₁ (p + 1)) = true
          · simp only [c4, if_true]
            cases hid : getIdentifierUnchecked s₁ (p + 2) with
            | ok id q =>
              shs h
              cases hat : getAttributeAccessor s₁ q with
              | ok attr q1 =>
                shs h
                cases hca : getCallArguments s₁ n q1 with
                | fuel => exact absurd (by simp [hb, c1, c2, c3, c4, hid, hat, hca]) hne
                | panic msg => rw [IH.callArguments _ _ hca (by nofun) m' (by omega)]; rfl
                | err e q2 => rw [IH.callArguments _ _ hca (by nofun) m' (by omega)]; rfl
                | ok args q2 =>
                  rw [IH.callArguments _ _ hca (by nofun) m' (by omega)]
                  ast_simp
                  rfl
              | err e q1 => rfl
              | panic msg => rfl
              | fuel => rfl
            | err e q => rfl
            | panic msg => rfl
            | fuel => rfl
          · simp only [c4, Bool.false_eq_true, if_false]
            cases getNumberLiteral s₁ p <;> ast_simp
        · simp only [c3, Bool.false_eq_true, if_false]
          by_cases c5 : (b == 36 && !ol) = true
          · simp only [c5, if_true]
            cases getIdentifier s₁ (p + 1) <;> ast_simp
          · simp only [c5, Bool.false_eq_true, if_false]
            by_cases c6 : isAlpha b = true
            · simp only [c6, if_true]
              cases hid : getIdentifierUnchecked s₁ (p + 1) with
              | ok id q =>
                shs h
                cases hca : getCallArguments s₁ n q with
                | fuel => exact absurd (by simp [hb, c1, c2, c3, c5, c6, hid, hca]) hne
                | panic msg => rw [IH.callArguments _ _ hca (by nofun) m' (by omega)]; rfl
                | err e q2 => rw [IH.callArguments _ _ hca (by nofun) m' (by omega)]; rfl
                | ok args q1 =>
                  rw [IH.callArguments _ _ hca (by nofun) m' (by omega)]
                  cases args with
                  | some pn =>
                    obtain ⟨pos, named⟩ := pn
                    simp only [shR_ok, Option.map_some, shArgs]
                    split <;> ast_simp
                  | none =>
                    simp only [shR_ok, Option.map_none]
                    shs h
                    cases getAttributeAccessor s₁ q1 <;> ast_simp
              | err e q => rfl
              | panic msg => rfl
              | fuel => rfl
            · simp only [c6, Bool.false_eq_true, if_false]
              by_cases c7 : (b == 123 && !ol) = true
              · simp only [c7, if_true]
                cases hpl : getPlaceable s₁ n (p + 1) with
                | fuel => exact absurd (by simp [hb, c1, c2, c3, c5, c6, c7, hpl]) hne
                | panic msg => rw [IH.placeable _ _ hpl (by nofun) m' (by omega)]; rfl
                | err e q2 => rw [IH.placeable _ _ hpl (by nofun) m' (by omega)]; rfl
                | ok e q => rw [IH.placeable _ _ hpl (by nofun) m' (by omega)]; ast_simp
              · simp only [c7, Bool.false_eq_true, if_false]
                exact hfb

theorem callArgsLoop_sh_step (h : Shift d s₁ s₂) {n : Nat} (IH : ShSpecs d s₁ s₂ n)
    (pos : List (Inline Span)) (named : List (Span × Inline Span)) (p : Nat)
    (r : R (List (Inline Span) × List (Span × Inline Span)))
    (hr : getCallArgsLoop s₁ (n + 1) pos named p = r) (hne : r ≠ .fuel) (m : Nat) (hm : n + 1 ≤ m) :
    getCallArgsLoop s₂ m (mapInl (shSpan d) pos) (mapNamed (shSpan d) named) (p + d) = shR (shArgs d) d r := by
  obtain ⟨m', rfl⟩ : ∃ m', m = m' + 1 := ⟨m - 1, by omega⟩
  subst hr
  simp only [getCallArgsLoop] at hne ⊢
  shs h
  have nextK : ∀ pos' named' q', getCallArgsLoop s₁ n pos' named' q' ≠ .fuel →
      getCallArgsLoop s₂ m' (mapInl (shSpan d) pos') (mapNamed (shSpan d) named') (q' + d) =
        shR (shArgs d) d (getCallArgsLoop s₁ n pos' named' q') :=
    fun pos' named' q' hne' => IH.callArgsLoop _ _ _ _ rfl hne' m' (by omega)
  by_cases c0 : p < s₁.size
  · simp only [c0, if_true]
    by_cases c1 : isCurrentByte s₁ p 41 = true
    · simp only [c1, if_true, shR_ok, shArgs]
    · simp only [c1, Bool.false_eq_true, if_false]
      cases hi : getInline s₁ n false p with
      | fuel => exact absurd (by simp [c0, c1, hi]) hne
      | panic msg => rw [IH.inline _ _ _ hi (by nofun) m' (by omega)]; rfl
      | err e q => rw [IH.inline _ _ _ hi (by nofun) m' (by omega)]; rfl
      | ok expr q =>
        rw [IH.inline _ _ _ hi (by nofun) m' (by omega)]
        simp only [shR_ok]
        rcases expr with v | v | ⟨id, ps, nm⟩ | ⟨id, _ | a⟩ | ⟨id, attr, args⟩ | id | e
        case msg.none =>
          ast_simp
          shs h
          by_cases c2 : isCurrentByte s₁ (skipBlank s₁ q) 58 = true
          · simp only [c2, if_true, named_any_shift h]
            by_cases c3 : (named.any fun na => spanBytes s₁ na.1 == spanBytes s₁ id) = true
            · simp only [c3, if_true]; ast_simp
            · simp only [c3, Bool.false_eq_true, if_false]
              cases hv : getInline s₁ n true (skipBlank s₁ (skipBlank s₁ q + 1)) with
              | fuel => exact absurd (by simp [c0, c1, hi, c2, c3, hv]) hne
              | panic msg => rw [IH.inline _ _ _ hv (by nofun) m' (by omega)]; rfl
              | err e q => rw [IH.inline _ _ _ hv (by nofun) m' (by omega)]; rfl
              | ok val q3 =>
                rw [IH.inline _ _ _ hv (by nofun) m' (by omega)]
                shs h
                refine Eq.trans ?_ (nextK _ _ _ (fun hf => hne (by simp [c0, c1, hi, c2, c3, hv, hf])))
                simp only [mapNamed_snoc']
          · simp only [c2, Bool.false_eq_true, if_false, mapNamed_isEmpty]
            by_cases c4 : (!named.isEmpty) = true
            · simp only [c4, if_true]; ast_simp
            · simp only [c4, Bool.false_eq_true, if_false]
              refine Eq.trans ?_ (nextK _ _ _ (fun hf => hne (by simp [c0, c1, hi, c2, c4, hf])))
              simp only [mapInl_snoc']; ast_simp
        all_goals
          ast_simp
          simp only [mapNamed_isEmpty]
          by_cases c4 : (!named.isEmpty) = true
          · simp only [c4, if_true]; ast_simp
          · simp only [c4, Bool.false_eq_true, if_false]
            shs h
            refine Eq.trans ?_ (nextK _ _ _ (fun hf => hne (by simp [c0, c1, hi, c4, hf])))
            simp only [mapInl_snoc']; ast_simp
  · simp only [c0, if_false, shR_ok, shArgs]

/-- one level of `get_variants`, with the variant key as a function call -/
theorem getVariants_succ (s : Src) (n : Nat) (hd : Bool) (acc : List (Variant Span)) (p : Nat) :
    getVariants s (n + 1) hd acc p =
      (let (p1, dflt) := takeByteIf s p 42
       if dflt && hd then .err (mkErr .multipleDefaultVariants p1) p1
       else
         let (p2, open_) := takeByteIf s p1 91
         if !open_ then
           if dflt then .err (mkErr (.expectedToken 91) p2) p2
           else if (hd || dflt) then .ok acc p2 else .err (mkErr .missingDefaultVariant p2) p2
         else
           match variantKey s (skipBlank s p2) with
           | .ok key q =>
             (match expectByte s (skipBlank s q) 93 with
              | .ok _ q2 =>
                (match getPattern s n q2 with
                 | .ok (some value) q3 => getVariants s n (hd || dflt) (acc ++ [.mk key value dflt]) (skipBlank s q3)
                 | .ok none q3 => .err (mkErr .missingValue q3) q3
                 | .err e q3 => .err e q3
                 | .panic m => .panic m
                 | .fuel => .fuel)
              | .err e q2 => .err e q2
              | .panic m => .panic m
              | .fuel => .fuel)
           | .err e q => .err e q
           | .panic m => .panic m
           | .fuel => .fuel) := by
  simp only [getVariants]; rfl

theorem variantKey_shift (h : Shift d s₁ s₂) (p : Nat) :
    variantKey s₂ (p + d) = shR (VKey.mapS (shSpan d)) d (variantKey s₁ p) := by
  simp only [variantKey]
  shs h
  split
  · cases getNumberLiteral s₁ p <;> simp only [shR_ok, shR_err, shR_panic, shR_fuel, VKey.mapS]
  · cases getIdentifier s₁ p <;> simp only [shR_ok, shR_err, shR_panic, shR_fuel, VKey.mapS]

theorem variants_sh_step (h : Shift d s₁ s₂) {n : Nat} (IH : ShSpecs d s₁ s₂ n) (hd : Bool) (acc : List (Variant Span))
    (p : Nat) (r : R (List (Variant Span)))
    (hr : getVariants s₁ (n + 1) hd acc p = r) (hne : r ≠ .fuel) (m : Nat) (hm : n + 1 ≤ m) :
    getVariants s₂ m hd (mapVariants (shSpan d) acc) (p + d) = shR (mapVariants (shSpan d)) d r := by
  obtain ⟨m', rfl⟩ : ∃ m', m = m' + 1 := ⟨m - 1, by omega⟩
  subst hr
  rw [getVariants_succ] at hne ⊢
  rw [getVariants_succ]
  shs h
  generalize ht1 : takeByteIf s₁ p 42 = tt at hne ⊢
  obtain ⟨p1, dflt⟩ := tt
  simp only [] at hne ⊢
  by_cases c1 : (dflt && hd) = true
  · simp only [c1, if_true]; ast_simp
  · simp only [c1, Bool.false_eq_true, if_false] at hne ⊢
    shs? h
    generalize ht2 : takeByteIf s₁ p1 91 = tt at hne ⊢
    obtain ⟨p2, opn⟩ := tt
    simp only [] at hne ⊢
    cases opn with
    | false =>
      simp only [Bool.not_false, if_true]
      split
      · ast_simp
      · split
        · ast_simp
        · ast_simp
    | true =>
      simp only [Bool.not_true, Bool.false_eq_true, if_false] at hne ⊢
      shs? h
      rw [variantKey_shift h]
      cases hk : variantKey s₁ (skipBlank s₁ p2) with
      | fuel => rfl
      | panic msg => rfl
      | err e q => rfl
      | ok key q =>
        rw [hk] at hne
        simp only [] at hne
        shs? h
        cases hx : expectByte s₁ (skipBlank s₁ q) 93 with
        | fuel => rfl
        | panic msg => rfl
        | err e q2 => rfl
        | ok u q2 =>
          rw [hx] at hne
          simp only [] at hne
          shs? h
          cases hp : getPattern s₁ n q2 with
          | fuel => rw [hp] at hne; exact absurd rfl hne
          | panic msg => rw [IH.pattern _ _ hp (by nofun) m' (by omega)]; rfl
          | err e q3 => rw [IH.pattern _ _ hp (by nofun) m' (by omega)]; rfl
          | ok o q3 =>
            rw [IH.pattern _ _ hp (by nofun) m' (by omega)]
            rw [hp] at hne
            cases o with
            | none => ast_simp
            | some value =>
              simp only [] at hne
              ast_simp
              shs? h
              refine Eq.trans ?_ (IH.variants _ _ _ _ rfl hne m' (by omega))
              simp only [mapVariants_snoc', Variant.mapS]

end
end FluentProofs.Parser
