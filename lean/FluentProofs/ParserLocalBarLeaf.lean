import FluentProofs.ParserLocalDefs
/-!
# Barrier family (C03 locality), part 1: leaf scanners

`Bar s n E`: position `n` is a line start holding an entry head whose `=` is at `E`.  No leaf scanner started at
or before `E` gets past `E`; scanners that stop at a line feed, started before `n`, stay before `n`.
-/
namespace FluentProofs.Parser
open FluentModel.Syntax

/-! ## upper bounds on outcomes -/

/-- the `ok` cursor is `≤ n`, the `err` cursor is `≤ E` -/
def UN {α : Type} (n E : Nat) (r : R α) : Prop :=
  match r with
  | .ok _ q => q ≤ n
  | .err _ q => q ≤ E
  | .panic _ => True
  | .fuel => True

/-- both cursors are `≤ E` -/
abbrev UE {α : Type} (E : Nat) (r : R α) : Prop := UN E E r

@[simp] theorem un_ok {α : Type} (n E : Nat) (a : α) (q : Nat) : UN n E (.ok a q : R α) ↔ q ≤ n := Iff.rfl
@[simp] theorem un_err {α : Type} (n E : Nat) (e : PErr) (q : Nat) : UN n E (.err e q : R α) ↔ q ≤ E := Iff.rfl
@[simp] theorem un_panic {α : Type} (n E : Nat) (m : String) : UN n E (.panic m : R α) ↔ True := Iff.rfl
@[simp] theorem un_fuel {α : Type} (n E : Nat) : UN n E (.fuel : R α) ↔ True := Iff.rfl

theorem UN.cases {α : Type} {n E : Nat} {r : R α} (h : UN n E r) :
    (∃ a q, r = .ok a q ∧ q ≤ n) ∨ (∃ e q, r = .err e q ∧ q ≤ E) ∨ (∃ m, r = .panic m) ∨ r = .fuel := by
  cases r with
  | ok a q => exact Or.inl ⟨a, q, rfl, h⟩
  | err e q => exact Or.inr (Or.inl ⟨e, q, rfl, h⟩)
  | panic m => exact Or.inr (Or.inr (Or.inl ⟨m, rfl⟩))
  | fuel => exact Or.inr (Or.inr (Or.inr rfl))

theorem UN.weaken {α : Type} {n E n' E' : Nat} {r : R α} (h : UN n E r) (h1 : n ≤ n') (h2 : E ≤ E') : UN n' E' r := by
  cases r <;> simp only [un_ok, un_err, un_panic, un_fuel] at h ⊢ <;> omega

/-- closes `UN` goals on constructor outcomes -/
macro "un_close" : tactic =>
  `(tactic| first
    | trivial
    | (simp only [↓reduceIte, Bool.false_eq_true, un_ok, un_err, un_panic, un_fuel]; omega)
    | omega)

/-! ## byte facts of a barrier -/

namespace Bar
variable {s : Src} {n E : Nat}

theorem lt_size (hb : Bar s n E) : E < s.size := get_lt hb.eq

/-- the byte before `n` is a line feed (when there is one) -/
theorem nl (hb : Bar s n E) {p : Nat} (hp : p < n) : s[n - 1]? = some 10 := by
  rcases hb.ls with h | h
  · omega
  · exact h

theorem byte (hb : Bar s n E) {x : Nat} {b : UInt8} (h1 : n ≤ x) (h2 : x ≤ E) (h : s[x]? = some b) :
    isIdentByte b = true ∨ b = 32 ∨ b = 61 := by
  by_cases hx : x = E
  · subst hx; rw [hb.eq] at h; cases h; exact Or.inr (Or.inr rfl)
  · obtain ⟨b', hb', hc⟩ := hb.head x h1 (by omega)
    rw [h] at hb'; cases hb'
    rcases hc with hc | hc
    · exact Or.inl hc
    · exact Or.inr (Or.inl hc)

/-- a byte at `x ≤ E` that is neither an identifier byte, a space nor `=` lies before `n` -/
theorem stop (hb : Bar s n E) {x : Nat} {b : UInt8} (hx : x ≤ E) (h : s[x]? = some b)
    (hs : (!isIdentByte b && b != 32 && b != 61) = true := by decide) : x < n := by
  apply Classical.byContradiction
  intro hn
  rcases hb.byte (by omega) hx h with h1 | h1 | h1
  · simp [h1] at hs
  · subst h1; exact absurd hs (by decide)
  · subst h1; exact absurd hs (by decide)

/-- … and, unless it is a line feed, so does the position after it -/
theorem stop2 (hb : Bar s n E) {x : Nat} {b : UInt8} (hx : x ≤ E) (h : s[x]? = some b)
    (hs : (!isIdentByte b && b != 32 && b != 61 && b != 10) = true := by decide) : x + 1 < n := by
  have hs' : (!isIdentByte b && b != 32 && b != 61) = true ∧ b ≠ 10 := by
    simp only [Bool.and_eq_true, bne_iff_ne, ne_eq] at hs ⊢
    exact ⟨⟨hs.1.1, hs.1.2⟩, hs.2⟩
  have h1 := hb.stop hx h hs'.1
  have h2 := hb.nl h1
  by_cases hx1 : x + 1 = n
  · have : n - 1 = x := by omega
    rw [this, h] at h2; cases h2; exact absurd rfl hs'.2
  · omega

theorem succ_lt (hb : Bar s n E) {p : Nat} (hp : p < n) (h : s[p]? ≠ some 10) : p + 1 < n := by
  have h2 := hb.nl hp
  by_cases hx1 : p + 1 = n
  · have : n - 1 = p := by omega
    rw [this] at h2; exact absurd h2 h
  · omega

theorem le_E (hb : Bar s n E) {p : Nat} (hp : p ≤ n) : p ≤ E := by have := hb.lt; omega

/-- a run of bytes without `=`, started at or before `E`, ends at or before `E` -/
theorem run_le_E (hb : Bar s n E) {p q : Nat} (h : ∀ j, p ≤ j → j < q → s[j]? ≠ some 61) (hp : p ≤ E) : q ≤ E := by
  apply Classical.byContradiction
  intro hn
  exact h E hp (by omega) hb.eq

/-- a run of bytes without line feed, started before `n`, ends before `n` -/
theorem run_lt_n (hb : Bar s n E) {p q : Nat} (h : ∀ j, p ≤ j → j < q → s[j]? ≠ some 10) (hp : p < n) : q < n := by
  apply Classical.byContradiction
  intro hn
  exact h (n - 1) (by omega) (by omega) (hb.nl hp)

/-- a run of bytes that cannot start an entry, started at or before `n`, ends at or before `n` -/
theorem run_le_n (hb : Bar s n E) {p q : Nat} (h : ∀ j, p ≤ j → j < q → ∀ b, s[j]? = some b → isReal b = false)
    (hp : p ≤ n) : q ≤ n := by
  apply Classical.byContradiction
  intro hn
  obtain ⟨b, hb1, hb2⟩ := hb.real
  have := h n hp (by omega) b hb1
  rw [this] at hb2; cases hb2

/-- the byte at `n` is not a blank, not an end of line, not a `#`, `.`, `{`, … -/
theorem at_n (hb : Bar s n E) {b : UInt8} (h : s[n]? = some b) : isReal b = true := by
  obtain ⟨b', hb1, hb2⟩ := hb.real
  rw [h] at hb1; cases hb1; exact hb2

end Bar

/-! ## blanks -/

variable {s : Src} {n E : Nat}

theorem Bar.skipBlankInline_le_E (hb : Bar s n E) {p : Nat} (hp : p ≤ E) : skipBlankInline s p ≤ E :=
  hb.run_le_E (fun j h1 h2 => by rw [skipBlankInline_spaces s p j h1 h2]; decide) hp

theorem Bar.skipBlankInline_lt_n (hb : Bar s n E) {p : Nat} (hp : p < n) : skipBlankInline s p < n :=
  hb.run_lt_n (fun j h1 h2 => by rw [skipBlankInline_spaces s p j h1 h2]; decide) hp

theorem Bar.skipBlankInline_le_n (hb : Bar s n E) {p : Nat} (hp : p ≤ n) : skipBlankInline s p ≤ n :=
  hb.run_le_n (fun j h1 h2 b hb' => by
    rw [skipBlankInline_spaces s p j h1 h2] at hb'; cases hb'; decide) hp

theorem Bar.skipBlankInline_at_n (hb : Bar s n E) : skipBlankInline s n = n := by
  apply skipBlankInline_of_ne
  intro h
  exact absurd (hb.at_n h) (by decide)

theorem skipBlankGo_bytes (s : Src) (k p : Nat) :
    ∀ j, p ≤ j → j < skipBlankGo s k p → s[j]? = some 32 ∨ s[j]? = some 10 ∨ s[j]? = some 13 := by
  induction k generalizing p with
  | zero => intro j h1 h2; simp only [skipBlankGo] at h2; omega
  | succ k ih =>
    intro j h1 h2
    simp only [skipBlankGo] at h2
    split at h2
    · rename_i h
      by_cases hj : j = p
      · subst hj; exact Or.inl h
      · exact ih _ j (by omega) h2
    · rename_i h
      by_cases hj : j = p
      · subst hj; exact Or.inr (Or.inl h)
      · exact ih _ j (by omega) h2
    · rename_i h
      split at h2
      · rename_i h'
        have h' : s[p + 1]? = some 10 := by simpa using h'
        by_cases hj : j = p
        · subst hj; exact Or.inr (Or.inr h)
        · by_cases hj' : j = p + 1
          · subst hj'; exact Or.inr (Or.inl h')
          · exact ih _ j (by omega) h2
      · omega
    · omega

theorem Bar.skipBlank_le_E (hb : Bar s n E) {p : Nat} (hp : p ≤ E) : skipBlank s p ≤ E :=
  hb.run_le_E (fun j h1 h2 => by
    rcases skipBlankGo_bytes s _ p j h1 h2 with h | h | h <;> rw [h] <;> decide) hp

theorem Bar.skipBlank_le_n (hb : Bar s n E) {p : Nat} (hp : p ≤ n) : skipBlank s p ≤ n :=
  hb.run_le_n (fun j h1 h2 b hb' => by
    rcases skipBlankGo_bytes s _ p j h1 h2 with h | h | h <;> rw [h] at hb' <;> cases hb' <;> decide) hp

theorem Bar.skipEol_le_n (hb : Bar s n E) {p q : Nat} (h : skipEol s p = some q) (hp : p ≤ E) : q ≤ n := by
  unfold skipEol at h
  split at h
  · rename_i h0
    simp at h; subst h
    have := hb.stop hp h0
    omega
  · rename_i h0
    split at h <;> simp at h
    rename_i h1
    subst h
    have h1 : s[p + 1]? = some 10 := by simpa using h1
    have h2 := hb.stop2 hp h0
    have := hb.stop (by have := hb.lt; omega) h1
    omega
  · simp at h

theorem Bar.skipBlankBlockGo_le_n (hb : Bar s n E) (k : Nat) {p : Nat} (c : Nat) (hp : p ≤ n) :
    (skipBlankBlockGo s k p c).1 ≤ n := by
  induction k generalizing p c with
  | zero => exact hp
  | succ k ih =>
    simp only [skipBlankBlockGo]
    have h1 := hb.skipBlankInline_le_n hp
    split
    · rename_i p' h
      exact ih _ (hb.skipEol_le_n h (hb.le_E h1))
    · split
      · exact hp
      · exact h1

theorem Bar.skipBlankBlock_le_n (hb : Bar s n E) {p : Nat} (hp : p ≤ n) : (skipBlankBlock s p).1 ≤ n :=
  hb.skipBlankBlockGo_le_n _ 0 hp

/-! ## `scan_while`, identifiers, numbers -/

theorem scanWhileGo_bytes (s : Src) (pred : UInt8 → Bool) (k p : Nat) :
    ∀ j, p ≤ j → j < scanWhileGo s pred k p → ∃ b, s[j]? = some b ∧ pred b = true := by
  induction k generalizing p with
  | zero => intro j h1 h2; simp only [scanWhileGo] at h2; omega
  | succ k ih =>
    intro j h1 h2
    simp only [scanWhileGo] at h2
    split at h2
    · rename_i b h
      split at h2
      · rename_i hc
        by_cases hj : j = p
        · subst hj; exact ⟨b, h, hc⟩
        · exact ih _ j (by omega) h2
      · omega
    · omega

theorem Bar.scanWhile_le_E (hb : Bar s n E) {pred : UInt8 → Bool} (h61 : pred 61 = false) {p : Nat} (hp : p ≤ E) :
    scanWhile s pred p ≤ E :=
  hb.run_le_E (fun j h1 h2 h => by
    obtain ⟨b, hb1, hb2⟩ := scanWhileGo_bytes s pred _ p j h1 h2
    rw [h] at hb1; cases hb1; rw [h61] at hb2; cases hb2) hp

theorem Bar.scanWhile_lt_n (hb : Bar s n E) {pred : UInt8 → Bool} (h10 : pred 10 = false) {p : Nat} (hp : p < n) :
    scanWhile s pred p < n :=
  hb.run_lt_n (fun j h1 h2 h => by
    obtain ⟨b, hb1, hb2⟩ := scanWhileGo_bytes s pred _ p j h1 h2
    rw [h] at hb1; cases hb1; rw [h10] at hb2; cases hb2) hp

theorem expectByte_cases (s : Src) (p : Nat) (b : UInt8) :
    (expectByte s p b = .ok () (p + 1) ∧ s[p]? = some b) ∨
      (expectByte s p b = .err (mkErr (.expectedToken b) p) p ∧ s[p]? ≠ some b) := by
  unfold expectByte
  split
  · rename_i h; exact Or.inl ⟨rfl, (isCurrentByte_iff s p b).mp h⟩
  · rename_i h; exact Or.inr ⟨rfl, fun h' => h ((isCurrentByte_iff s p b).mpr h')⟩

theorem getIdentifierUnchecked_ub (s : Src) (p m : Nat) (h : scanWhile s isIdentByte p ≤ m) :
    UN m m (getIdentifierUnchecked s p) := by
  unfold getIdentifierUnchecked
  simp only []
  split
  · trivial
  · split <;> un_close

theorem Bar.getIdentifierUnchecked_E (hb : Bar s n E) {p : Nat} (hp : p ≤ E) : UE E (getIdentifierUnchecked s p) :=
  getIdentifierUnchecked_ub s p E (hb.scanWhile_le_E (by decide) hp)

theorem Bar.getIdentifier_E (hb : Bar s n E) {p : Nat} (hp : p ≤ E) : UE E (getIdentifier s p) := by
  unfold getIdentifier
  split
  · un_close
  · rename_i h
    have h : isIdentifierStart s p = true := by simpa using h
    obtain ⟨b, hb1, hb2⟩ := (isIdentifierStart_iff s p).mp h
    have : p ≠ E := by
      intro hpe; subst hpe; rw [hb.eq] at hb1; cases hb1; exact absurd hb2 (by decide)
    exact hb.getIdentifierUnchecked_E (by omega)

/-- started before `n`, an identifier ends before `n` (the scan stops at the line feed) -/
theorem Bar.getIdentifier_lt (hb : Bar s n E) {p : Nat} (hp : p < n) : UN (n - 1) (n - 1) (getIdentifier s p) := by
  unfold getIdentifier
  split
  · un_close
  · rename_i h
    have h : isIdentifierStart s p = true := by simpa using h
    obtain ⟨b, hb1, hb2⟩ := (isIdentifierStart_iff s p).mp h
    have h1 : p + 1 < n := hb.succ_lt hp (by
      intro h10; rw [h10] at hb1; cases hb1; exact absurd hb2 (by decide))
    have := hb.scanWhile_lt_n (pred := isIdentByte) (by decide) h1
    exact getIdentifierUnchecked_ub s (p + 1) (n - 1) (by omega)

theorem Bar.skipDigits_E (hb : Bar s n E) {p : Nat} (hp : p ≤ E) : UE E (skipDigits s p) := by
  unfold skipDigits
  have := hb.scanWhile_le_E (pred := isDigit) (by decide) hp
  simp only []
  split <;> un_close

theorem Bar.takeByteIf_le_E (hb : Bar s n E) {p : Nat} {b : UInt8} (hp : p ≤ E) (hne : b ≠ 61) :
    (takeByteIf s p b).1 ≤ E := by
  rcases takeByteIf_cases s p b with ⟨h, h'⟩ | ⟨h, _⟩ <;> rw [h]
  · have : p ≠ E := by
      intro hpe; subst hpe; rw [hb.eq] at h'; cases h'; exact hne rfl
    simp only []; omega
  · exact hp

theorem Bar.getNumberLiteral_E (hb : Bar s n E) {p : Nat} (hp : p ≤ E) : UE E (getNumberLiteral s p) := by
  unfold getNumberLiteral
  have h0 := hb.takeByteIf_le_E (b := 45) hp (by decide)
  generalize takeByteIf s p 45 = t at h0 ⊢
  obtain ⟨p1, d1⟩ := t
  simp only [] at h0 ⊢
  rcases (hb.skipDigits_E h0).cases with ⟨_, p2, hr, h1⟩ | ⟨e, q, hr, h1⟩ | ⟨m, hr⟩ | hr <;> simp only [hr] <;>
    try un_close
  have h2 := hb.takeByteIf_le_E (b := 46) h1 (by decide)
  generalize takeByteIf s p2 46 = t at h2 ⊢
  obtain ⟨p3, dot⟩ := t
  simp only [] at h2 ⊢
  split
  · rcases (hb.skipDigits_E h2).cases with ⟨_, p4, hr, h3⟩ | ⟨e, q, hr, h3⟩ | ⟨m, hr⟩ | hr <;> simp only [hr] <;>
      try un_close
    split <;> un_close
  · split <;> un_close

theorem Bar.getAttributeAccessor_E (hb : Bar s n E) {p : Nat} (hp : p ≤ E) : UE E (getAttributeAccessor s p) := by
  unfold getAttributeAccessor
  have h0 := hb.takeByteIf_le_E (b := 46) hp (by decide)
  generalize takeByteIf s p 46 = t at h0 ⊢
  obtain ⟨p1, dot⟩ := t
  simp only [] at h0 ⊢
  split
  · rcases (hb.getIdentifier_E h0).cases with ⟨_, p2, hr, h1⟩ | ⟨e, q, hr, h1⟩ | ⟨m, hr⟩ | hr <;> simp only [hr] <;>
      un_close
  · un_close

/-! ## string literals -/

theorem skipHexGo_bytes (s : Src) (k p : Nat) :
    ∀ j, p ≤ j → j < skipHexGo s k p → ∃ b, s[j]? = some b ∧ isHexDigit b = true := by
  induction k generalizing p with
  | zero => intro j h1 h2; simp only [skipHexGo] at h2; omega
  | succ k ih =>
    intro j h1 h2
    simp only [skipHexGo] at h2
    split at h2
    · rename_i b h
      split at h2
      · rename_i hc
        by_cases hj : j = p
        · subst hj; exact ⟨b, h, hc⟩
        · exact ih _ j (by omega) h2
      · omega
    · omega

theorem Bar.skipUnicodeEscapeSequence_lt (hb : Bar s n E) {p : Nat} (len : Nat) (hp : p < n) :
    UN (n - 1) (n - 1) (skipUnicodeEscapeSequence s p len) := by
  unfold skipUnicodeEscapeSequence
  have : skipHexGo s len p < n := hb.run_lt_n (fun j h1 h2 h => by
    obtain ⟨b, hb1, hb2⟩ := skipHexGo_bytes s len p j h1 h2
    rw [h] at hb1; cases hb1; exact absurd hb2 (by decide)) hp
  simp only []
  split
  · split <;> un_close
  · un_close

theorem Bar.scanStringGo_lt (hb : Bar s n E) (k : Nat) {p : Nat} (hp : p < n) :
    UN (n - 1) (n - 1) (scanStringGo s k p) := by
  induction k generalizing p with
  | zero => simp only [scanStringGo]; un_close
  | succ k ih =>
    simp only [scanStringGo]
    have hpE : p + 1 ≤ E := by have := hb.lt; omega
    split
    · un_close
    · rename_i h92
      have hp1 : p + 1 < n := hb.succ_lt hp (by rw [h92]; decide)
      split
      · rename_i h; exact ih (hb.stop2 hpE h)
      · rename_i h; exact ih (hb.stop2 hpE h)
      · rename_i h
        have hp2 : p + 2 < n := hb.succ_lt hp1 (by rw [h]; decide)
        rcases (hb.skipUnicodeEscapeSequence_lt 4 hp2).cases with ⟨_, q, hr, h1⟩ | ⟨e, q, hr, h1⟩ | ⟨m, hr⟩ | hr <;>
          simp only [hr] <;> try un_close
        exact ih (by omega)
      · rename_i h
        have hp2 : p + 2 < n := hb.succ_lt hp1 (by rw [h]; decide)
        rcases (hb.skipUnicodeEscapeSequence_lt 6 hp2).cases with ⟨_, q, hr, h1⟩ | ⟨e, q, hr, h1⟩ | ⟨m, hr⟩ | hr <;>
          simp only [hr] <;> try un_close
        exact ih (by omega)
      · un_close
    · un_close
    · un_close
    · rename_i b h34 h10 h
      exact ih (hb.succ_lt hp (by rw [h]; intro hc; cases hc; exact h10 rfl))

theorem Bar.scanString_lt (hb : Bar s n E) {p : Nat} (hp : p < n) : UN (n - 1) (n - 1) (scanString s p) :=
  hb.scanStringGo_lt _ hp

/-! ## text slices -/

theorem Bar.memchr3Go_lt (hb : Bar s n E) (k : Nat) {p : Nat} (hp : p < n) (hk : n - p ≤ k) :
    ∃ e, memchr3Go s k p = some e ∧ p ≤ e ∧ e < n := by
  induction k generalizing p with
  | zero => omega
  | succ k ih =>
    simp only [memchr3Go]
    split
    · rename_i h
      have : s.size ≤ p := by simpa using h
      have := hb.lt_size; have := hb.lt; omega
    · rename_i b h
      split
      · exact ⟨p, rfl, Nat.le_refl _, hp⟩
      · rename_i hc
        have h10 : s[p]? ≠ some 10 := by
          rw [h]; intro h'; cases h'; exact hc (by decide)
        obtain ⟨e, he, h1, h2⟩ := ih (hb.succ_lt hp h10) (by omega)
        exact ⟨e, he, by omega, h2⟩

/-- a text slice started before `n` ends at or before `n`, and exactly at `n` only behind a line feed -/
theorem Bar.getTextSlice_lt (hb : Bar s n E) {p : Nat} (hp : p < n) :
    match getTextSlice s p with
    | .ok (_, _, _, term) q => q ≤ n ∧ (q = n → term = .lineFeed)
    | .err _ q => q < n
    | _ => True := by
  have hsz : ¬ p > s.size := by have := hb.lt_size; have := hb.lt; omega
  obtain ⟨e, he, h1, h2⟩ := hb.memchr3Go_lt (s.size - p) hp (by have := hb.lt_size; have := hb.lt; omega)
  unfold getTextSlice memchr3
  simp only [hsz, if_false, he]
  split
  · rename_i heq
    split at heq
    · cases heq
    · split at heq
      · simp only [R.ok.injEq, Prod.mk.injEq] at heq
        obtain ⟨⟨_, _, _, rfl⟩, rfl⟩ := heq
        exact ⟨by omega, fun h => by omega⟩
      · simp only [R.ok.injEq, Prod.mk.injEq] at heq
        obtain ⟨⟨_, _, _, rfl⟩, rfl⟩ := heq
        exact ⟨by omega, fun _ => rfl⟩
    · simp only [R.ok.injEq, Prod.mk.injEq] at heq
      obtain ⟨⟨_, _, _, rfl⟩, rfl⟩ := heq
      exact ⟨by omega, fun h => by omega⟩
    · cases heq
  · rename_i heq
    split at heq
    · cases heq; exact h2
    · split at heq <;> cases heq
    · cases heq
    · cases heq
  · trivial

/-! ## comment lines -/

theorem Bar.commentLineEnd_lt (hb : Bar s n E) {p : Nat} (hp : p < n) : commentLineEndGo s (s.size - p) p < n :=
  hb.run_lt_n (commentLineEnd_eol s p).2.2 hp

theorem Bar.getCommentLine_lt (hb : Bar s n E) {p : Nat} (hp : p < n) : UN (n - 1) (n - 1) (getCommentLine s p) := by
  unfold getCommentLine
  have := hb.commentLineEnd_lt hp
  simp only []
  split <;> un_close

/-- the `#`s of a comment line started at or before `n` end before `n` (or there are none) -/
theorem Bar.getCommentLevel_lt (hb : Bar s n E) {p : Nat} (hp : p ≤ n) :
    ∃ l, getCommentLevel s p = (l, p + l) ∧ (l = 0 ∨ p + l < n) := by
  obtain ⟨l, hl, hl3, hbytes, _⟩ := getCommentLevel_spec s p
  refine ⟨l, hl, ?_⟩
  by_cases hl0 : l = 0
  · exact Or.inl hl0
  · right
    have key : ∀ j, j ≤ l → p + j ≤ n ∧ (0 < j → p + j < n) := by
      intro j
      induction j with
      | zero => intro _; exact ⟨hp, fun h => by omega⟩
      | succ j ih =>
        intro hj
        have ih := (ih (by omega)).1
        have h35 := hbytes j (by omega)
        have := hb.stop2 (hb.le_E ih) h35
        exact ⟨by omega, fun _ => this⟩
    exact (key l (Nat.le_refl _)).2 (by omega)

end FluentProofs.Parser
