import FluentProofs.SerializerFinal
import FluentProofs.ParserLocalLoop
/-!
# Serializer lemmas, part 17: resources with Junk, serialised with `with_junk = true` (C04)

`resTextJ` is the text the serializer writes for a resource whose entries are of the class `rtEntry` or Junk (the
Junk content verbatim, `wrote_non_junk_entry` reset after it).  `JGood prev es` collects what the round trip needs
to know about the Junk entries of `es`:

* about the bytes of a Junk `c` (decidable): not empty, ends with `\n` unless it is the last entry, its first line is
  not blank (`nonBlankStart`: a lone `\r` counts as a non-blank byte), and — behind a message or term — its first line
  is one on which `get_pattern` stops (`stopperText`).  Sources with lone `\r` are covered: a Junk may start with a
  lone `\r` and may end with one (only as the last entry, at the end of input);
* about the parser (a statement over ALL sources `s`): wherever the text `c ++ (text of the following entries)` stands at
  a line start `P` and runs to the end of `s`, `get_entry` fails at `P` and junk recovery ends exactly behind `c`
  (`JunkAt`), and — behind a message or term — `get_attributes` finds no attribute at `P` (`AttrStopAt`).
  `FluentProofs/SerializerJunkSrc.lean` proves these for the Junk of every parse tree (two-source simulation,
  `ParserLocalSim*`).

`parseLoop_textJ`: the entry loop on `resTextJ` returns the entries again (Junk with the same content).
-/
namespace FluentProofs.Ser
open FluentModel FluentModel.Syntax FluentModel.Syntax.Ser FluentProofs.Parser

/-! ## the text -/

def entryTextJ (b : Bool) : Entry Bytes → Bytes
  | .junk c => c
  | e => entryText b e

/-- the text of a resource with Junk; `b` = `wrote_non_junk_entry` -/
def resTextJ : Bool → List (Entry Bytes) → Bytes
  | _, [] => []
  | b, e :: es => entryTextJ b e ++ resTextJ (!isJunk e) es

theorem resTextJ_junk (b : Bool) (c : Bytes) (es : List (Entry Bytes)) :
    resTextJ b (.junk c :: es) = c ++ resTextJ false es := rfl

theorem resTextJ_entry (b : Bool) (e : Entry Bytes) (es : List (Entry Bytes)) (he : rtEntry e = true) :
    resTextJ b (e :: es) = entryText b e ++ resTextJ true es := by
  cases e <;> first | rfl | (simp [rtEntry] at he)

/-- without Junk it is `resText` -/
theorem resTextJ_eq_resText (b : Bool) (es : List (Entry Bytes)) (h : ∀ e ∈ es, rtEntry e = true) :
    resTextJ b es = resText b es := by
  induction es generalizing b with
  | nil => rfl
  | cons e es ih =>
    rw [resTextJ_entry b e es (h e List.mem_cons_self), resText, ih true (fun x hx => h x (List.mem_cons_of_mem _ hx))]

/-! ## conditions on the bytes of a Junk -/

/-- number of leading spaces and the first other byte -/
def firstNonSpace : Bytes → Option (Nat × UInt8)
  | [] => none
  | b :: rest => if b == 32 then (firstNonSpace rest).map (fun kb => (kb.1 + 1, kb.2)) else some (0, b)

theorem firstNonSpace_at {c : Bytes} {k : Nat} {b : UInt8} (h : firstNonSpace c = some (k, b)) {s : Src} {P : Nat}
    (hat : At s P c) : (∀ j, j < k → s[P + j]? = some 32) ∧ s[P + k]? = some b ∧ b ≠ 32 ∧ k < c.length := by
  induction c generalizing k P with
  | nil => simp [firstNonSpace] at h
  | cons x xs ih =>
    rw [at_cons] at hat
    simp only [firstNonSpace] at h
    by_cases hx : x = 32
    · subst hx
      simp only [beq_self_eq_true, if_true] at h
      cases hf : firstNonSpace xs with
      | none => rw [hf] at h; cases h
      | some kb =>
        obtain ⟨k', b'⟩ := kb
        rw [hf] at h
        simp only [Option.map_some, Option.some.injEq, Prod.mk.injEq] at h
        obtain ⟨rfl, rfl⟩ := h
        obtain ⟨h1, h2, h3, h4⟩ := ih hf hat.2
        refine ⟨?_, by rw [show P + (k' + 1) = P + 1 + k' by omega]; exact h2, h3, by simp; omega⟩
        intro j hj
        cases j with
        | zero => exact hat.1
        | succ j => rw [show P + (j + 1) = P + 1 + j by omega]; exact h1 j (by omega)
    · have : (x == 32) = false := by simpa using hx
      simp only [this, Bool.false_eq_true, if_false, Option.some.injEq, Prod.mk.injEq] at h
      obtain ⟨rfl, rfl⟩ := h
      exact ⟨fun j hj => by omega, hat.1, hx, by simp⟩

/-- a `\r` at position `k` of `c` is not followed by `\n` in `c` (it is a lone `\r`, or `c` ends with it) -/
def crOK (c : Bytes) (k : Nat) (b : UInt8) : Bool := b != 13 || c[k + 1]? != some 10

/-- the first line is not blank: spaces, then a byte other than a space, `\n`, or the `\r` of a `\r\n` -/
def nonBlankStart (c : Bytes) : Bool :=
  match firstNonSpace c with
  | some (k, b) => b != 10 && crOK c k b
  | none => false

/-- a line on which `get_pattern` stops: a byte other than space, `\n`, the `\r` of a `\r\n`, `{` in column 0, or an
indented `.` `[` `*` `}` -/
def stopperText (c : Bytes) : Bool :=
  match firstNonSpace c with
  | some (0, b) => b != 10 && crOK c 0 b && b != 123
  | some (_ + 1, b) => b == 46 || b == 91 || b == 42 || b == 125
  | none => false

/-- a `\r` of the text `c` that is not followed by `\n` in `c` is not followed by `\n` in a source that holds `c`, if `c`
ends with `\n` or at the end of the source -/
theorem crOK_at {c : Bytes} {s : Src} {P k : Nat} {b : UInt8} (hat : At s P c)
    (hend : c.getLast? = some 10 ∨ P + c.length = s.size) (hk : k < c.length) (hb : s[P + k]? = some b)
    (h : crOK c k b = true) : b = 13 → s[P + k + 1]? ≠ some 10 := by
  intro h13
  subst h13
  simp only [crOK, bne_self_eq_false, Bool.false_or, bne_iff_ne, ne_eq] at h
  by_cases hk1 : k + 1 < c.length
  · have hg := at_get hat (k + 1) hk1
    rw [show P + k + 1 = P + (k + 1) by omega, hg]
    rw [List.getElem?_eq_getElem hk1] at h
    exact h
  · have hlen : c.length = k + 1 := by omega
    rcases hend with h10 | hsz
    · exfalso
      rw [List.getLast?_eq_getElem?, hlen, Nat.add_sub_cancel, List.getElem?_eq_getElem hk] at h10
      have hg := at_get hat k hk
      rw [hb] at hg
      injection hg with hg
      injection h10 with h10
      rw [← hg] at h10
      exact absurd h10 (by decide)
    · have : s[P + k + 1]? = none := by simp; omega
      rw [this]; nofun

theorem blockStop_of_text {c : Bytes} (h : nonBlankStart c = true) {s : Src} {P : Nat} (hat : At s P c)
    (hend : c.getLast? = some 10 ∨ P + c.length = s.size) : BlockStop s P := by
  unfold nonBlankStart at h
  cases hf : firstNonSpace c with
  | none => rw [hf] at h; cases h
  | some kb =>
    obtain ⟨k, b⟩ := kb
    rw [hf] at h
    simp only [Bool.and_eq_true, bne_iff_ne, ne_eq] at h
    obtain ⟨h1, h2, h3, h4⟩ := firstNonSpace_at hf hat
    intro n c'
    have hsbi : skipBlankInline s P = P + k := skipBlankInline_run s k P h1 (by rw [h2]; simpa using h3)
    have heol : skipEol s (P + k) = none := skipEol_lone s (P + k) b h2 h.1 (crOK_at hat hend h4 h2 h.2)
    rw [skipBlankBlockGo, hsbi, heol]
    have := get_lt h2
    simp [this]

theorem stopper_of_text {c : Bytes} (h : stopperText c = true) {s : Src} {P : Nat} (hat : At s P c)
    (hend : c.getLast? = some 10 ∨ P + c.length = s.size) : Stopper s P := by
  unfold stopperText at h
  cases hf : firstNonSpace c with
  | none => rw [hf] at h; cases h
  | some kb =>
    obtain ⟨k, b⟩ := kb
    rw [hf] at h
    obtain ⟨h1, h2, h3, h4⟩ := firstNonSpace_at hf hat
    cases k with
    | zero =>
      simp only [Bool.and_eq_true, bne_iff_ne, ne_eq] at h
      exact Or.inr (Or.inl ⟨b, by simpa using h2, h3, h.1.1, crOK_at hat hend h4 h2 h.1.2, h.2⟩)
    | succ k =>
      simp only [Bool.or_eq_true, beq_iff_eq] at h
      exact Or.inr (Or.inr ⟨k + 1, b, by omega, h1, h2, by
        rcases h with ((h | h) | h) | h
        · exact Or.inl h
        · exact Or.inr (Or.inl h)
        · exact Or.inr (Or.inr (Or.inl h))
        · exact Or.inr (Or.inr (Or.inr h))⟩)

/-! ## what the parser must do on a Junk text (statements over all sources) -/

/-- `get_entry` fails at `P` and junk recovery ends behind the text `c` -/
def JunkAt (s : Src) (P : Nat) (c : Bytes) : Prop :=
  ∃ e q, getEntry s (exprFuel s) P = .err e q ∧ skipToNextEntryStart s P q = some (P + c.length)

/-- `get_attributes` finds no attribute at `P` -/
def AttrStopAt (s : Src) (P : Nat) : Prop :=
  ∀ fuel, 8 * s.size + 16 ≤ fuel → ∀ n acc, getAttributesGo s fuel (n + 1) acc P = .ok acc P

/-- what the round trip needs to know about the Junk entries of a resource (`prev`: the entry in front is a message or
term); the other entries are of the class `rtEntry` -/
def JGood : Bool → List (Entry Bytes) → Prop
  | _, [] => True
  | prev, e :: es =>
    match e with
    | .junk c =>
      c ≠ [] ∧ (c.getLast? = some 10 ∨ es = []) ∧ nonBlankStart c = true ∧
        (prev = true → stopperText c = true) ∧
        (∀ (s : Src) (P : Nat), AsciiThenBoundary s → LS s P → At s P (c ++ resTextJ false es) →
          P + (c ++ resTextJ false es).length = s.size → JunkAt s P c ∧ (prev = true → AttrStopAt s P)) ∧
        JGood false es
    | e => rtEntry e = true ∧ JGood (isMT e) es

theorem JGood.junk {prev : Bool} {c : Bytes} {es : List (Entry Bytes)} (h : JGood prev (.junk c :: es)) :
    c ≠ [] ∧ (c.getLast? = some 10 ∨ es = []) ∧ nonBlankStart c = true ∧
      (prev = true → stopperText c = true) ∧
      (∀ (s : Src) (P : Nat), AsciiThenBoundary s → LS s P → At s P (c ++ resTextJ false es) →
        P + (c ++ resTextJ false es).length = s.size → JunkAt s P c ∧ (prev = true → AttrStopAt s P)) ∧
      JGood false es := h

theorem JGood.entry {prev : Bool} {e : Entry Bytes} {es : List (Entry Bytes)} (h : JGood prev (e :: es))
    (he : isJunk e = false) : rtEntry e = true ∧ JGood (isMT e) es := by
  cases e with
  | junk c => simp [isJunk] at he
  | message m => exact h
  | term t => exact h
  | comment c => exact h
  | groupComment c => exact h
  | resourceComment c => exact h

/-- a resource of class entries is `JGood` -/
theorem JGood.of_rt (prev : Bool) (es : List (Entry Bytes)) (h : ∀ e ∈ es, rtEntry e = true) : JGood prev es := by
  induction es generalizing prev with
  | nil => trivial
  | cons e es ih =>
    have he := h e List.mem_cons_self
    have ih' := ih (isMT e) (fun x hx => h x (List.mem_cons_of_mem _ hx))
    cases e with
    | junk c => simp [rtEntry] at he
    | message m => exact ⟨he, ih'⟩
    | term t => exact ⟨he, ih'⟩
    | comment c => exact ⟨he, ih'⟩
    | groupComment c => exact ⟨he, ih'⟩
    | resourceComment c => exact ⟨he, ih'⟩

/-- a Junk text ends with `\n`, or the source ends behind it -/
theorem junk_hend {c : Bytes} {es : List (Entry Bytes)} {s : Src} {P : Nat} (h : c.getLast? = some 10 ∨ es = [])
    (hsz : P + (c ++ resTextJ false es).length = s.size) : c.getLast? = some 10 ∨ P + c.length = s.size := by
  rcases h with h | h
  · exact Or.inl h
  · subst h; right; simpa [resTextJ] using hsz

/-! ## the serializer writes `resTextJ` -/

theorem serResourceGo_textJ (r : List (Entry Bytes)) : ∀ (prev : Bool), JGood prev r →
    ∀ (w : Writer) (nl b : Bool), WS w 0 nl →
      ∃ w', serResourceGo true w b r = some w' ∧ w'.buffer = w.buffer ++ (resTextJ b r).toArray := by
  induction r with
  | nil => intro _ _ w nl b _; exact ⟨w, rfl, by simp [resTextJ]⟩
  | cons e es ih =>
    intro prev hg w nl b hw
    by_cases hj : isJunk e = true
    · obtain ⟨c, rfl⟩ : ∃ c, e = .junk c := by cases e <;> simp_all [isJunk]
      obtain ⟨hne, hlast, _, _, _, hrest⟩ := hg.junk
      rcases hlast with h10 | hnil
      · have h13 : c.getLast? ≠ some 13 := by rw [h10]; decide
        obtain ⟨hb1, hw1⟩ := ws0_writeLiteral hw c hne h13
        obtain ⟨w2, hs2, hb2⟩ := ih false hrest (w.writeLiteral c) (endsNl c) false hw1
        refine ⟨w2, ?_, ?_⟩
        · simp only [serResourceGo, Bool.not_true, Bool.false_eq_true, if_false]; exact hs2
        · rw [hb2, hb1, resTextJ_junk]; apply Array.ext'; simp
      · -- the last entry: the writer state behind it does not matter
        subst hnil
        obtain ⟨hb1, _, _⟩ := wsc_writeLiteral hw.toC c hne
        rw [hw.2.1] at hb1
        refine ⟨w.writeLiteral c, ?_, ?_⟩
        · simp only [serResourceGo, Bool.not_true, Bool.false_eq_true, if_false]
        · rw [hb1, resTextJ_junk]; apply Array.ext'; cases nl <;> simp [spacesL, resTextJ]
    · have hj' : isJunk e = false := by simpa using hj
      obtain ⟨he, hrest⟩ := hg.entry hj'
      obtain ⟨w1, hb1, hw1, hs1⟩ := serEntry_text true e he es w nl b hw
      obtain ⟨w2, hs2, hb2⟩ := ih (isMT e) hrest w1 true true hw1
      exact ⟨w2, by rw [hs1, hs2], by rw [hb2, hb1, resTextJ_entry b e es he]; apply Array.ext'; simp⟩

/-- **the serializer on a resource with Junk** writes `resTextJ` -/
theorem serialize_textJ (r : List (Entry Bytes)) (hg : JGood false r) : serialize true r = some (resTextJ false r) := by
  obtain ⟨w', hs, hb⟩ := serResourceGo_textJ r false hg {} false false ⟨rfl, rfl, rfl⟩
  simp [serialize, hs, hb]

/-! ## the entry loop on `resTextJ` -/

/-- the Junk step of the entry loop -/
theorem parseLoop_step_junk (s : Src) (fuel n : Nat) (body : List (Entry Span)) (errs : List PErr)
    (lc : Option (List Span)) (cnt p : Nat) (e : PErr) (q q1 : Nat) (hp : p < s.size)
    (he : getEntry s fuel p = .err e q) (hk : skipToNextEntryStart s p q = some q1)
    (hsl : slice s p q1 = some ⟨p, q1⟩) :
    parseLoop s fuel (n + 1) body errs lc cnt p =
      parseLoop s fuel n (body ++ flushC lc ++ [.junk ⟨p, q1⟩])
        (errs ++ [{ clampErr e q1 with slice := some (p, q1) }]) none (skipBlankBlock s q1).2 (skipBlankBlock s q1).1 := by
  simp only [parseLoop, hp, if_true, he]
  cases lc <;> simp [flushC, hk, hsl]

theorem entryText_last (b : Bool) (e : Entry Bytes) (he : rtEntry e = true) : (entryText b e).getLast? = some 10 := by
  cases e with
  | message m => simp only [entryText]; exact List.getLast?_concat
  | term t => simp only [entryText]; rw [← List.cons_append, ← List.append_assoc]; exact List.getLast?_concat
  | comment c => simp only [entryText]; exact List.getLast?_concat
  | groupComment c => simp only [entryText]; exact List.getLast?_concat
  | resourceComment c => simp only [entryText]; exact List.getLast?_concat
  | junk c => simp [rtEntry] at he

theorem leadRes_false (es : List (Entry Bytes)) : leadRes false es = 0 := by
  cases es with
  | nil => rfl
  | cons e es => cases e <;> rfl

theorem LS_after {s : Src} {p : Nat} {bs : Bytes} (h : At s p bs) (hl : bs.getLast? = some 10) : LS s (p + bs.length) := by
  have hne : bs ≠ [] := by intro h0; subst h0; simp at hl
  have hpos : 0 < bs.length := List.length_pos_iff.mpr hne
  right
  have := at_last10 h hl
  exact this

theorem bnd_of_LS {s : Src} (hs : AsciiThenBoundary s) {p : Nat} (h : LS s p) : Bnd s p := by
  rcases h with h | h
  · subst h; exact bnd_zero s
  · by_cases hp : p = 0
    · subst hp; exact bnd_zero s
    · have := bnd_succ hs h (by decide)
      rwa [show p - 1 + 1 = p by omega] at this

/-- what follows an entry in `resTextJ`: empty lines, then a line that is not blank; behind a message or term also a
line at which the entry ends -/
theorem follow_resJ {s : Src} (hs : AsciiThenBoundary s) (prev : Bool) (Q : Nat) (es : List (Entry Bytes))
    (hg : JGood prev es) (hls : LS s Q) (hat : At s Q (resTextJ true es)) (hsz : Q + (resTextJ true es).length = s.size) :
    (∀ j, Q ≤ j → j < Q + leadRes true es → s[j]? = some 10) ∧ (prev = true → EntryStop s (Q + leadRes true es)) ∧
      BlockStop s (Q + leadRes true es) ∧ Q + leadRes true es ≤ s.size := by
  cases es with
  | nil =>
    simp only [resTextJ, List.length_nil, Nat.add_zero] at hsz
    simp only [leadRes, Nat.add_zero]
    have hst : EntryStart s Q := Or.inl (by omega)
    exact ⟨fun j h1 h2 => by omega, fun _ => hst.entryStop, hst.blockStop, by omega⟩
  | cons e es =>
    by_cases hj : isJunk e = true
    · obtain ⟨c, rfl⟩ : ∃ c, e = .junk c := by cases e <;> simp_all [isJunk]
      obtain ⟨hne, hlast, hnb, hstop, hsem, _⟩ := hg.junk
      rw [resTextJ_junk] at hat hsz
      have hend := junk_hend hlast hsz
      have hatc : At s Q c := ((at_append s Q c _).mp hat).1
      have hle : Q ≤ s.size := by rw [List.length_append] at hsz; omega
      simp only [leadRes, lead, Nat.add_zero]
      refine ⟨fun j h1 h2 => by omega, fun hp => ?_, blockStop_of_text hnb hatc hend, hle⟩
      exact ⟨stopper_of_text (hstop hp) hatc hend, blockStop_of_text hnb hatc hend, (hsem s Q hs hls hat hsz).2 hp⟩
    · have hj' : isJunk e = false := by simpa using hj
      obtain ⟨he, _⟩ := hg.entry hj'
      rw [resTextJ_entry true e es he] at hat hsz
      obtain ⟨c, rest, htxt, hc⟩ := entryText_start true e he
      simp only [htxt, List.append_assoc, List.length_append, List.length_replicate, List.length_cons] at hat hsz
      rw [at_append] at hat
      simp only [List.length_replicate, List.cons_append, at_cons] at hat
      simp only [leadRes]
      have hst : EntryStart s (Q + lead true e) := Or.inr ⟨c, hat.2.1, hc⟩
      refine ⟨fun j h1 h2 => ?_, fun _ => hst.entryStop, hst.blockStop, by omega⟩
      have := at_get hat.1 (j - Q) (by simp; omega)
      rw [show Q + (j - Q) = j by omega] at this
      simpa using this

/-- **the entry loop on the text of a resource with Junk** -/
theorem parseLoop_textJ {s : Src} (hs : AsciiThenBoundary s) (es : List (Entry Bytes)) :
    ∀ (prev b : Bool) (P n : Nat) (body : List (Entry Span)) (lc : Option (List Span)) (cnt : Nat),
      JGood prev es → At s P (resTextJ b es) → P + (resTextJ b es).length = s.size → (es ≠ [] → LS s P) →
      (lc = none ∨ 2 ≤ cnt) → s.size - P + 1 ≤ n →
      ∃ t' errs', parseLoop s (exprFuel s) n body [] lc cnt (P + leadRes b es) = .done (body ++ flushC lc ++ t', errs') ∧
        t'.map (Entry.mapS (spanBytes s)) = es.map canonEntry := by
  induction es with
  | nil =>
    intro prev b P n body lc cnt _ _ hsz _ _ hn
    obtain ⟨m, rfl⟩ : ∃ m, n = m + 1 := ⟨n - 1, by omega⟩
    simp only [resTextJ, List.length_nil, Nat.add_zero] at hsz
    refine ⟨[], [], ?_, rfl⟩
    simp only [leadRes, Nat.add_zero, List.append_nil]
    exact parseLoop_end s _ m body lc cnt P (by omega)
  | cons e es ih =>
    intro prev b P n body lc cnt hg hat hsz hls hlc hn
    by_cases hj : isJunk e = true
    · -- a Junk entry
      obtain ⟨c, rfl⟩ : ∃ c, e = .junk c := by cases e <;> simp_all [isJunk]
      obtain ⟨hne, hlast, _, _, hsem, hrest⟩ := hg.junk
      rw [resTextJ_junk] at hat hsz
      obtain ⟨⟨e0, q, hge, hsk⟩, _⟩ := hsem s P hs (hls (by simp)) hat hsz
      rw [at_append] at hat
      obtain ⟨hatc, hatR⟩ := hat
      rw [List.length_append] at hsz
      have hclen : 0 < c.length := List.length_pos_iff.mpr hne
      have hplt : P < s.size := by omega
      obtain ⟨m, rfl⟩ : ∃ m, n = m + 1 := ⟨n - 1, by omega⟩
      -- the Junk slice
      have hbnd2 : Bnd s (P + c.length) := by
        rcases hlast with h10 | hnil
        · exact bnd_of_LS hs (LS_after hatc h10)
        · subst hnil
          simp only [resTextJ, List.length_nil, Nat.add_zero] at hsz
          rw [hsz]; exact bnd_size s
      have hsl : slice s P (P + c.length) = some ⟨P, P + c.length⟩ :=
        slice_ok (by omega) (bnd_of_LS hs (hls (by simp))) hbnd2
      -- no blank lines behind the Junk
      have hblock : BlockStop s (P + c.length) := by
        cases es with
        | nil =>
          simp only [resTextJ, List.length_nil, Nat.add_zero] at hsz
          exact EntryStart.blockStop (Or.inl (by omega))
        | cons e' es' =>
          by_cases hj' : isJunk e' = true
          · obtain ⟨c', rfl⟩ : ∃ c', e' = .junk c' := by cases e' <;> simp_all [isJunk]
            rw [resTextJ_junk] at hatR hsz
            have hend := junk_hend (s := s) (P := P + c.length) hrest.junk.2.1 (by omega)
            rw [at_append] at hatR
            exact blockStop_of_text hrest.junk.2.2.1 hatR.1 hend
          · have hj'' : isJunk e' = false := by simpa using hj'
            obtain ⟨he', _⟩ := hrest.entry hj''
            rw [resTextJ_entry false e' es' he'] at hatR
            obtain ⟨c', rest, htxt, hc'⟩ := entryText_start false e' he'
            have hl0 : lead false e' = 0 := by cases e' <;> rfl
            rw [htxt, hl0] at hatR
            simp only [List.replicate_zero, List.nil_append, List.cons_append, at_cons] at hatR
            exact EntryStart.blockStop (Or.inr ⟨c', hatR.1, hc'⟩)
      have hsbb := hblock.sbb
      simp only [leadRes, lead, Nat.add_zero]
      rw [parseLoop_step_junk s _ m body [] lc cnt P e0 q (P + c.length) hplt hge hsk hsl, hsbb]
      simp only []
      rw [parseLoop_acc_eq]
      have hls' : es ≠ [] → LS s (P + c.length) := by
        intro hne'
        rcases hlast with h10 | hnil
        · exact LS_after hatc h10
        · exact absurd hnil hne'
      obtain ⟨t', errs', hloop, hmt⟩ := ih false false (P + c.length) m [] none 0 hrest hatR (by omega) hls'
        (Or.inl rfl) (by omega)
      rw [leadRes_false, Nat.add_zero] at hloop
      rw [hloop]
      refine ⟨.junk ⟨P, P + c.length⟩ :: t',
        ([] ++ [{ clampErr e0 (P + c.length) with slice := some (P, P + c.length) }]) ++ errs', ?_, ?_⟩
      · simp [prep, flushC]
      · simp [Entry.mapS, canonEntry, hmt, at_spanBytes hatc]
    · -- an entry of the class
      have hj' : isJunk e = false := by simpa using hj
      obtain ⟨he, hrest⟩ := hg.entry hj'
      rw [resTextJ_entry b e es he] at hat hsz
      rw [at_append] at hat
      obtain ⟨hatE, hatR⟩ := hat
      rw [List.length_append] at hsz
      have hlsQ : LS s (P + (entryText b e).length) := LS_after hatE (entryText_last b e he)
      obtain ⟨hnl, hstop, hblock, hEle⟩ := follow_resJ hs (isMT e) (P + (entryText b e).length) es hrest hlsQ hatR (by omega)
      obtain ⟨t', errs', h1, _, h3⟩ := parseLoop_entry hs (exprFuel s) (by simp [exprFuel]) e he b P n (leadRes true es) body
        lc cnt (es.map canonEntry) (fun _ => True) hatE (by omega) hnl hstop hblock hEle hlc hn
        (fun n' body' lc' cnt' hlc' hn' => by
          obtain ⟨t', errs', h1, h2⟩ := ih (isMT e) true (P + (entryText b e).length) n' body' lc' cnt' hrest hatR
            (by omega) (fun _ => hlsQ) hlc' hn'
          exact ⟨t', errs', h1, trivial, h2⟩)
      exact ⟨t', errs', by simpa [leadRes] using h1, by simpa using h3⟩

/-! ## the round trip on trees -/

theorem entryTextJ_canon (b : Bool) (e : Entry Bytes) : entryTextJ b (canonEntry e) = entryTextJ b e := by
  cases e with
  | junk c => rfl
  | message m => exact entryText_canon b (.message m)
  | term t => exact entryText_canon b (.term t)
  | comment c => exact entryText_canon b (.comment c)
  | groupComment c => exact entryText_canon b (.groupComment c)
  | resourceComment c => exact entryText_canon b (.resourceComment c)

theorem resTextJ_canon (b : Bool) (es : List (Entry Bytes)) : resTextJ b (es.map canonEntry) = resTextJ b es := by
  induction es generalizing b with
  | nil => rfl
  | cons e es ih => simp only [List.map_cons, resTextJ, entryTextJ_canon, isJunk_canon, ih]

theorem isMT_canon (e : Entry Bytes) : isMT (canonEntry e) = isMT e := by cases e <;> rfl

theorem JGood.canon {prev : Bool} {es : List (Entry Bytes)} (h : JGood prev es) : JGood prev (es.map canonEntry) := by
  induction es generalizing prev with
  | nil => trivial
  | cons e es ih =>
    by_cases hj : isJunk e = true
    · obtain ⟨c, rfl⟩ : ∃ c, e = .junk c := by cases e <;> simp_all [isJunk]
      obtain ⟨h1, h3, h4, h5, h6, h7⟩ := h.junk
      refine ⟨h1, ?_, h4, h5, ?_, ih h7⟩
      · rcases h3 with h3 | h3
        · exact Or.inl h3
        · exact Or.inr (by rw [h3]; rfl)
      · intro s P hs hls hat hsz
        rw [resTextJ_canon] at hat hsz
        exact h6 s P hs hls hat hsz
    · have hj' : isJunk e = false := by simpa using hj
      obtain ⟨he, hrest⟩ := h.entry hj'
      have := ih hrest
      rw [← isMT_canon] at this
      have hc := rtEntry_canon e he
      simp only [List.map_cons]
      cases e with
      | junk c => simp [isJunk] at hj'
      | message m => exact ⟨hc, this⟩
      | term t => exact ⟨hc, this⟩
      | comment c => exact ⟨hc, this⟩
      | groupComment c => exact ⟨hc, this⟩
      | resourceComment c => exact ⟨hc, this⟩

/-- `skip_blank_block` does not move from the start of the text -/
theorem start_resJ {s : Src} (es : List (Entry Bytes)) (hg : JGood false es) (hat : At s 0 (resTextJ false es))
    (hsz : (resTextJ false es).length = s.size) : skipBlankBlock s 0 = (0, 0) := by
  cases es with
  | nil =>
    simp only [resTextJ, List.length_nil] at hsz
    exact (EntryStart.blockStop (Or.inl (by omega))).sbb
  | cons e es =>
    by_cases hj : isJunk e = true
    · obtain ⟨c, rfl⟩ : ∃ c, e = .junk c := by cases e <;> simp_all [isJunk]
      rw [resTextJ_junk] at hat hsz
      have hend := junk_hend (s := s) (P := 0) hg.junk.2.1 (by omega)
      rw [at_append] at hat
      exact (blockStop_of_text hg.junk.2.2.1 hat.1 hend).sbb
    · have hj' : isJunk e = false := by simpa using hj
      obtain ⟨he, _⟩ := hg.entry hj'
      rw [resTextJ_entry false e es he] at hat
      obtain ⟨c', rest, htxt, hc'⟩ := entryText_start false e he
      have hl0 : lead false e = 0 := by cases e <;> rfl
      rw [htxt, hl0] at hat
      simp only [List.replicate_zero, List.nil_append, List.cons_append, at_cons] at hat
      exact (EntryStart.blockStop (Or.inr ⟨c', hat.1, hc'⟩)).sbb

/-- **round trip for resources with Junk, on trees**: a `JGood` resource is serialised (with Junk) to `resTextJ`; if
that text has the `&str` invariant, `parse` returns a tree that resolves to the resource (whitespace-only comment
lines emptied), and serialising that tree gives the same text -/
theorem roundtrip_junk_tree (r : Resource Bytes) (hg : JGood false r) :
    ∃ out, serialize true r = some out ∧
      (AsciiThenBoundary out.toArray →
        ∃ t' errs', parse out.toArray = .done (t', errs') ∧ resolve out.toArray t' = r.map canonEntry ∧
          serialize true (resolve out.toArray t') = some out) := by
  refine ⟨resTextJ false r, serialize_textJ r hg, fun hs => ?_⟩
  have hat := at_self (resTextJ false r)
  have hsz : 0 + (resTextJ false r).length = (resTextJ false r).toArray.size := by simp
  have hsbb := start_resJ r hg hat (by simp)
  obtain ⟨t', errs', hloop, hmap⟩ := parseLoop_textJ hs r false false 0 ((resTextJ false r).toArray.size + 1) [] none 0
    hg hat hsz (fun _ => LS_zero _) (Or.inl rfl) (by omega)
  rw [leadRes_false] at hloop
  refine ⟨t', errs', ?_, hmap, ?_⟩
  · unfold parse
    simp only [hsbb]
    simpa [flushC] using hloop
  · have : resolve (resTextJ false r).toArray t' = r.map canonEntry := hmap
    rw [this, serialize_textJ _ hg.canon, resTextJ_canon]

end FluentProofs.Ser
