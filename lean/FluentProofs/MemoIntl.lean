import FluentProofs.Memo
/-!
Lemmas for C14, part 2: `IntlMemoizer::get_for_lang` with explicit `Rc`/`Weak` (strong counts, live handles).
-/
namespace FluentModel.Memo
set_option linter.unusedSectionVars false

section Intl
variable {σ L τ α ι ε ρ : Type} [DecidableEq L] [DecidableEq τ] [DecidableEq α]

/-- number of live handles that point to allocation `oid` -/
def liveCount (hs : List (Option Nat)) (oid : Nat) : Nat := hs.count (some oid)

/-- invariant of the `IntlMemoizer` + heap + handles state -/
structure MInv (s : MState σ L τ α ι ε) : Prop where
  /-- a live allocation was handed out before, its strong count is positive and equals the number of live
  handles to it, and its memoizer satisfies the per-memoizer invariant for *its* language -/
  heap_ok : ∀ oid o, aget s.heap oid = some o →
    oid < s.next ∧ 0 < o.strong ∧ o.strong = liveCount s.handles oid ∧ LInv o.lang o.memo
  /-- no dangling handle -/
  handle_ok : ∀ (h oid : Nat), s.handles[h]? = some (some oid) → ∃ o, aget s.heap oid = some o
  /-- a weak table entry for `l` points to an allocation made for `l` (if it is still alive) -/
  table_ok : ∀ l oid, aget s.table l = some oid →
    oid < s.next ∧ ∀ o, aget s.heap oid = some o → o.lang = l

theorem MInv_init (w : σ) : MInv (MState.init w : MState σ L τ α ι ε) := by
  refine ⟨?_, ?_, ?_⟩
  · intro oid o h; simp [MState.init, aget] at h
  · intro h oid hh; simp [MState.init] at hh
  · intro l oid h; simp [MState.init, aget] at h

theorem liveCount_append (hs : List (Option Nat)) (x : Option Nat) (oid : Nat) :
    liveCount (hs ++ [x]) oid = liveCount hs oid + (if x = some oid then 1 else 0) := by
  unfold liveCount
  rw [List.count_append]
  by_cases h : x = some oid
  · subst h; simp
  · simp [h]

theorem liveCount_set_none (hs : List (Option Nat)) (h : Nat) (oid oid' : Nat)
    (hh : hs[h]? = some (some oid)) :
    liveCount (hs.set h none) oid' = liveCount hs oid' - (if oid = oid' then 1 else 0) := by
  unfold liveCount
  have hlt : h < hs.length := by
    rcases Nat.lt_or_ge h hs.length with hl | hl
    · exact hl
    · rw [List.getElem?_eq_none hl] at hh; cases hh
  rw [List.count_set hlt]
  have hget : hs[h] = some oid := by
    rw [List.getElem?_eq_getElem hlt] at hh; exact Option.some.inj hh
  rw [hget]
  by_cases e : oid = oid'
  · subst e; simp
  · have : ¬ (some oid = some oid') := fun h => e (Option.some.inj h)
    simp [e]

theorem liveCount_pos_of_handle (hs : List (Option Nat)) (h oid : Nat)
    (hh : hs[h]? = some (some oid)) : 0 < liveCount hs oid := by
  unfold liveCount
  apply List.count_pos_iff.2
  exact List.mem_of_getElem? hh

theorem handle_of_liveCount_pos (hs : List (Option Nat)) (oid : Nat) (hp : 0 < liveCount hs oid) :
    ∃ h : Nat, hs[h]? = some (some oid) := by
  unfold liveCount at hp
  have := List.count_pos_iff.1 hp
  obtain ⟨i, hi, e⟩ := List.mem_iff_getElem.1 this
  exact ⟨i, by rw [List.getElem?_eq_getElem hi, e]⟩

/-- handles never point to an allocation id that has not been handed out yet -/
theorem MInv.handle_lt {s : MState σ L τ α ι ε} (hi : MInv s) (h oid : Nat)
    (hh : s.handles[h]? = some (some oid)) : oid < s.next := by
  obtain ⟨o, ho⟩ := hi.handle_ok h oid hh
  exact (hi.heap_ok oid o ho).1

theorem MInv.liveCount_next {s : MState σ L τ α ι ε} (hi : MInv s) : liveCount s.handles s.next = 0 := by
  rcases Nat.eq_zero_or_pos (liveCount s.handles s.next) with h | h
  · exact h
  · obtain ⟨i, hi'⟩ := handle_of_liveCount_pos _ _ h
    exact absurd (hi.handle_lt i _ hi') (Nat.lt_irrefl _)

theorem getElem?_append_singleton (hs : List (Option Nat)) (x : Option Nat) (h : Nat) (y : Option Nat)
    (hh : (hs ++ [x])[h]? = some y) : hs[h]? = some y ∨ (h = hs.length ∧ y = x) := by
  rw [List.getElem?_append] at hh
  by_cases hl : h < hs.length
  · simp only [hl, if_true] at hh; exact Or.inl hh
  · simp only [hl, if_false] at hh
    have hge : hs.length ≤ h := Nat.le_of_not_lt hl
    rcases Nat.eq_or_lt_of_le hge with e | e
    · subst e; simp at hh; exact Or.inr ⟨rfl, hh.symm⟩
    · have : h - hs.length ≠ 0 := by omega
      cases hk : h - hs.length with
      | zero => exact absurd hk this
      | succ k => rw [hk] at hh; simp at hh

/-- `Rc::new(IntlLangMemoizer::new(l))` (+ optional registration) preserves the invariant -/
theorem MInv_allocFresh (s : MState σ L τ α ι ε) (l : L) (reg : Bool) (hi : MInv s) :
    MInv (allocFresh (ρ := ρ) s l reg).1 := by
  unfold allocFresh
  refine ⟨?_, ?_, ?_⟩
  · intro oid o h
    simp only at h ⊢
    rw [aget_aset] at h
    by_cases e : oid = s.next
    · subst e
      simp only [if_true] at h
      cases h
      refine ⟨Nat.lt_succ_self _, Nat.lt_succ_self _, ?_, LInv_empty l⟩
      rw [liveCount_append, hi.liveCount_next]; simp
    · simp only [e, if_false] at h
      obtain ⟨h1, h2, h3, h4⟩ := hi.heap_ok oid o h
      refine ⟨Nat.lt_succ_of_lt h1, h2, ?_, h4⟩
      rw [liveCount_append, h3]
      have : ¬ (some s.next = some oid) := fun h => e (Option.some.inj h).symm
      simp [this]
  · intro h oid hh
    simp only at hh ⊢
    rw [aget_aset]
    by_cases e : oid = s.next
    · simp [e]
    · simp only [e, if_false]
      rcases getElem?_append_singleton _ _ _ _ hh with h1 | ⟨_, h2⟩
      · exact hi.handle_ok h oid h1
      · exact absurd (Option.some.inj h2) e
  · intro l' oid h
    simp only at h ⊢
    have key : (reg = true ∧ l' = l ∧ oid = s.next) ∨ aget s.table l' = some oid := by
      cases reg with
      | false => simp at h; exact Or.inr h
      | true =>
        simp only [if_true] at h
        rw [aget_aset] at h
        by_cases e : l' = l
        · simp only [e, if_true] at h
          exact Or.inl ⟨rfl, e, (Option.some.inj h).symm⟩
        · simp only [e, if_false] at h; exact Or.inr h
    rcases key with ⟨_, rfl, rfl⟩ | hold
    · refine ⟨Nat.lt_succ_self _, ?_⟩
      intro o ho
      rw [aget_aset] at ho
      simp at ho; subst ho; rfl
    · obtain ⟨h1, h2⟩ := hi.table_ok l' oid hold
      refine ⟨Nat.lt_succ_of_lt h1, ?_⟩
      intro o ho
      rw [aget_aset] at ho
      have : oid ≠ s.next := Nat.ne_of_lt h1
      simp only [this, if_false] at ho
      exact h2 o ho

/-! ### the re-entrant lookup is a composition of `lookup`, `get_for_lang` and `drop`

`MOp.lookupReenter` is defined from the same step functions as the four basic operations.  Every theorem below
is first proved for the basic operations (`…_base`, the case analyses on `getStep` / `allocFresh` / `dropStep` /
`lookupStep`) and then lifted to `lookupReenter` through `lookupReenter_cases`. -/

/-- the four basic operations (everything except the composite `lookupReenter`) -/
def MOp.isBase : MOp σ L τ α ι ρ → Prop
  | .lookupReenter _ _ => False
  | _ => True

/-- `get_for_lang` always hands out exactly one new handle, the last one -/
theorem getStep_handles (s : MState σ L τ α ι ε) (l : L) :
    ∃ oid, (getStep (ρ := ρ) s l).2 = .handle s.handles.length oid ∧
      (getStep (ρ := ρ) s l).1.handles = s.handles ++ [some oid] := by
  unfold getStep
  cases aget s.table l with
  | none => exact ⟨s.next, rfl, rfl⟩
  | some oid =>
    simp only
    cases aget s.heap oid with
    | none => exact ⟨s.next, rfl, rfl⟩
    | some o => exact ⟨oid, rfl, rfl⟩

/-- dropping a live handle clears exactly that slot -/
theorem dropStep_handles (s : MState σ L τ α ι ε) (h oid : Nat) (hh : s.handles[h]? = some (some oid)) :
    (dropStep (ρ := ρ) s h).1.handles = s.handles.set h none := by
  unfold dropStep
  rw [hh]
  simp only
  cases aget s.heap oid with
  | none => rfl
  | some o => simp only; split <;> rfl

theorem lookupStep_handles (X : Ext σ L τ α ι ε) (s : MState σ L τ α ι ε) (h : Nat) (op : Op σ τ α ι ρ) :
    (lookupStep X s h op).1.handles = s.handles := by
  unfold lookupStep
  cases s.handles[h]? with
  | none => rfl
  | some x =>
    cases x with
    | none => rfl
    | some oid =>
      simp only
      cases aget s.heap oid with
      | none => rfl
      | some o => rfl

/-- the callback's inner `get_for_lang` + `drop`: the state is the one the two basic steps produce, except that
the temporary handle slot (last, cleared by the drop) is removed from the client's handle list again -/
theorem reenterStep_state (ρ : Type) (s : MState σ L τ α ι ε) (l : L) (oid : Nat) :
    (reenterStep ρ s l oid).1 =
      { (dropStep (ρ := ρ) (getStep (ρ := ρ) s l).1 s.handles.length).1 with handles := s.handles } ∧
    (dropStep (ρ := ρ) (getStep (ρ := ρ) s l).1 s.handles.length).1.handles = s.handles ++ [none] := by
  refine ⟨rfl, ?_⟩
  obtain ⟨x, _, hG⟩ := getStep_handles (ρ := ρ) s l
  rw [dropStep_handles (ρ := ρ) _ s.handles.length x (by rw [hG]; simp), hG]
  simp

/-- **decomposition of the re-entrant lookup**: its final state is that of the plain lookup, possibly followed by
the callback's inner `get_for_lang` + `drop` (`reenterStep`) -/
theorem lookupReenter_cases (X : Ext σ L τ α ι ε) (s : MState σ L τ α ι ε) (h : Nat) (op : Op σ τ α ι ρ) :
    (mstep X s (.lookupReenter h op)).1 = (mstep X s (.lookup h op)).1 ∨
    ∃ l oid, (mstep X s (.lookupReenter h op)).1 = (reenterStep ρ (mstep X s (.lookup h op)).1 l oid).1 := by
  simp only [mstep, lookupStep]
  cases s.handles[h]? with
  | none => exact Or.inl rfl
  | some x =>
    cases x with
    | none => exact Or.inl rfl
    | some oid =>
      simp only
      cases aget s.heap oid with
      | none => exact Or.inl rfl
      | some o =>
        simp only
        cases (withTryGet X o.lang o.memo s.world op).out with
        | err e => exact Or.inl rfl
        | ok r => exact Or.inr ⟨o.lang, oid, rfl⟩

/-- the client's handle list is untouched by a re-entrant lookup -/
theorem lookupReenter_handles (X : Ext σ L τ α ι ε) (s : MState σ L τ α ι ε) (h : Nat) (op : Op σ τ α ι ρ) :
    (mstep X s (.lookupReenter h op)).1.handles = s.handles := by
  rcases lookupReenter_cases X s h op with e | ⟨l, oid, e⟩
  · rw [e]; exact lookupStep_handles X s h op
  · rw [e]; exact lookupStep_handles X s h op

/-- a re-entrant lookup never reports a new handle -/
theorem lookupReenter_obs_ne_handle (X : Ext σ L τ α ι ε) (s : MState σ L τ α ι ε) (h : Nat) (op : Op σ τ α ι ρ)
    (h' oid' : Nat) : (mstep X s (.lookupReenter h op)).2 ≠ .handle h' oid' := by
  simp only [mstep]
  cases s.handles[h]? with
  | none => simp
  | some x =>
    cases x with
    | none => simp
    | some oid =>
      simp only
      cases aget s.heap oid with
      | none => simp
      | some o => simp only; split <;> simp

/-- removing a cleared last slot from the handle list keeps the invariant -/
theorem MInv_restore_handles (s : MState σ L τ α ι ε) (hs : List (Option Nat)) (hh : s.handles = hs ++ [none])
    (hi : MInv s) : MInv { s with handles := hs } := by
  refine ⟨?_, ?_, hi.table_ok⟩
  · intro oid o h
    obtain ⟨h1, h2, h3, h4⟩ := hi.heap_ok oid o h
    refine ⟨h1, h2, ?_, h4⟩
    rw [h3, hh, liveCount_append]; simp
  · intro h oid g
    apply hi.handle_ok h oid
    rw [hh, List.getElem?_append_left (List.getElem?_eq_some_iff.1 g).1]
    exact g

theorem MInv_step_base (X : Ext σ L τ α ι ε) (s : MState σ L τ α ι ε) (op : MOp σ L τ α ι ρ) (hi : MInv s)
    (hb : op.isBase) : MInv (mstep X s op).1 := by
  cases op with
  | getForLang l =>
    simp only [mstep, getStep]
    cases ht : aget s.table l with
    | none => exact MInv_allocFresh s l true hi
    | some oid =>
      simp only
      cases hh : aget s.heap oid with
      | none => exact MInv_allocFresh s l true hi
      | some o =>
        simp only
        obtain ⟨h1, h2, h3, h4⟩ := hi.heap_ok oid o hh
        refine ⟨?_, ?_, ?_⟩
        · intro oid' o' h
          simp only at h ⊢
          rw [aget_aset] at h
          by_cases e : oid' = oid
          · subst e
            simp only [if_true] at h
            cases h
            refine ⟨h1, Nat.succ_pos _, ?_, h4⟩
            rw [liveCount_append, h3]; simp
          · simp only [e, if_false] at h
            obtain ⟨g1, g2, g3, g4⟩ := hi.heap_ok oid' o' h
            refine ⟨g1, g2, ?_, g4⟩
            rw [liveCount_append, g3]
            have : ¬ (some oid = some oid') := fun h => e (Option.some.inj h).symm
            simp [this]
        · intro h oid' hh'
          simp only at hh' ⊢
          rw [aget_aset]
          by_cases e : oid' = oid
          · simp [e]
          · simp only [e, if_false]
            rcases getElem?_append_singleton _ _ _ _ hh' with g1 | ⟨_, g2⟩
            · exact hi.handle_ok h oid' g1
            · exact absurd (Option.some.inj g2) e
        · intro l' oid' h
          simp only at h ⊢
          obtain ⟨g1, g2⟩ := hi.table_ok l' oid' h
          refine ⟨g1, ?_⟩
          intro o' ho'
          rw [aget_aset] at ho'
          by_cases e : oid' = oid
          · subst e
            simp only [if_true] at ho'
            cases ho'
            exact g2 o hh
          · simp only [e, if_false] at ho'
            exact g2 o' ho'
  | newLang l => exact MInv_allocFresh s l false hi
  | drop h =>
    simp only [mstep, dropStep]
    cases hh : s.handles[h]? with
    | none => exact hi
    | some x =>
      cases x with
      | none => exact hi
      | some oid =>
        simp only
        obtain ⟨o, ho⟩ := hi.handle_ok h oid hh
        rw [ho]
        simp only
        obtain ⟨h1, h2, h3, h4⟩ := hi.heap_ok oid o ho
        have hset : ∀ (h' oid' : Nat), (s.handles.set h none)[h']? = some (some oid') →
            s.handles[h']? = some (some oid') := by
          intro h' oid' g
          rw [List.getElem?_set] at g
          by_cases e : h = h'
          · simp only [e, if_true] at g
            split at g <;> cases g
          · simpa [e] using g
        by_cases hs1 : o.strong ≤ 1
        · simp only [hs1, if_true]
          refine ⟨?_, ?_, ?_⟩
          · intro oid' o' g
            simp only at g ⊢
            rw [aget_aerase] at g
            by_cases e : oid' = oid
            · simp [e] at g
            · simp only [e, if_false] at g
              obtain ⟨g1, g2, g3, g4⟩ := hi.heap_ok oid' o' g
              refine ⟨g1, g2, ?_, g4⟩
              rw [liveCount_set_none _ _ _ _ hh, g3]
              have : ¬ oid = oid' := fun x => e x.symm
              simp [this]
          · intro h' oid' g
            simp only at g ⊢
            rw [aget_aerase]
            by_cases e : oid' = oid
            · subst e
              -- the last handle is gone: no handle can still point to it
              have hc : liveCount (s.handles.set h none) oid' = 0 := by
                rw [liveCount_set_none _ _ _ _ hh, ← h3]; simp; omega
              have := liveCount_pos_of_handle _ _ _ g
              omega
            · simp only [e, if_false]
              exact hi.handle_ok h' oid' (hset h' oid' g)
          · intro l oid' g
            simp only at g ⊢
            obtain ⟨g1, g2⟩ := hi.table_ok l oid' g
            refine ⟨g1, ?_⟩
            intro o' ho'
            rw [aget_aerase] at ho'
            by_cases e : oid' = oid
            · simp [e] at ho'
            · simp only [e, if_false] at ho'
              exact g2 o' ho'
        · simp only [hs1, if_false]
          refine ⟨?_, ?_, ?_⟩
          · intro oid' o' g
            simp only at g ⊢
            rw [aget_aset] at g
            by_cases e : oid' = oid
            · subst e
              simp only [if_true] at g
              cases g
              refine ⟨h1, by simp only; omega, ?_, h4⟩
              rw [liveCount_set_none _ _ _ _ hh, ← h3]; simp
            · simp only [e, if_false] at g
              obtain ⟨g1, g2, g3, g4⟩ := hi.heap_ok oid' o' g
              refine ⟨g1, g2, ?_, g4⟩
              rw [liveCount_set_none _ _ _ _ hh, g3]
              have : ¬ oid = oid' := fun x => e x.symm
              simp [this]
          · intro h' oid' g
            simp only at g ⊢
            rw [aget_aset]
            by_cases e : oid' = oid
            · simp [e]
            · simp only [e, if_false]
              exact hi.handle_ok h' oid' (hset h' oid' g)
          · intro l oid' g
            simp only at g ⊢
            obtain ⟨g1, g2⟩ := hi.table_ok l oid' g
            refine ⟨g1, ?_⟩
            intro o' ho'
            rw [aget_aset] at ho'
            by_cases e : oid' = oid
            · subst e
              simp only [if_true] at ho'
              cases ho'
              exact g2 o ho
            · simp only [e, if_false] at ho'
              exact g2 o' ho'
  | lookup h op =>
    simp only [mstep, lookupStep]
    cases hh : s.handles[h]? with
    | none => exact hi
    | some x =>
      cases x with
      | none => exact hi
      | some oid =>
        simp only
        obtain ⟨o, ho⟩ := hi.handle_ok h oid hh
        rw [ho]
        simp only
        obtain ⟨h1, h2, h3, h4⟩ := hi.heap_ok oid o ho
        refine ⟨?_, ?_, ?_⟩
        · intro oid' o' g
          simp only at g ⊢
          rw [aget_aset] at g
          by_cases e : oid' = oid
          · subst e
            simp only [if_true] at g
            cases g
            exact ⟨h1, h2, h3, LInv_step X o.lang o.memo s.world op h4⟩
          · simp only [e, if_false] at g
            exact hi.heap_ok oid' o' g
        · intro h' oid' g
          simp only at g ⊢
          rw [aget_aset]
          by_cases e : oid' = oid
          · simp [e]
          · simp only [e, if_false]
            exact hi.handle_ok h' oid' g
        · intro l oid' g
          simp only at g ⊢
          obtain ⟨g1, g2⟩ := hi.table_ok l oid' g
          refine ⟨g1, ?_⟩
          intro o' ho'
          rw [aget_aset] at ho'
          by_cases e : oid' = oid
          · subst e
            simp only [if_true] at ho'
            cases ho'
            exact g2 o ho
          · simp only [e, if_false] at ho'
            exact g2 o' ho'
  | lookupReenter h op => exact hb.elim

/-- the callback's inner `get_for_lang` + `drop` preserve the invariant -/
theorem MInv_reenterStep (X : Ext σ L τ α ι ε) (ρ : Type) (s : MState σ L τ α ι ε) (l : L) (oid : Nat)
    (hi : MInv s) : MInv (reenterStep ρ s l oid).1 := by
  obtain ⟨e, hh⟩ := reenterStep_state ρ s l oid
  rw [e]
  apply MInv_restore_handles _ _ hh
  exact MInv_step_base (ρ := ρ) X _ (.drop s.handles.length)
    (MInv_step_base (ρ := ρ) X s (.getForLang l) hi trivial) trivial

/-- **every operation preserves the invariant** -/
theorem MInv_step (X : Ext σ L τ α ι ε) (s : MState σ L τ α ι ε) (op : MOp σ L τ α ι ρ) (hi : MInv s) :
    MInv (mstep X s op).1 := by
  cases op with
  | lookupReenter h op' =>
    have hL := MInv_step_base X s (.lookup h op') hi trivial
    rcases lookupReenter_cases X s h op' with e | ⟨l, oid, e⟩
    · rw [e]; exact hL
    · rw [e]; exact MInv_reenterStep X ρ _ l oid hL
  | getForLang l => exact MInv_step_base X s _ hi trivial
  | newLang l => exact MInv_step_base X s _ hi trivial
  | drop h => exact MInv_step_base X s _ hi trivial
  | lookup h op' => exact MInv_step_base X s _ hi trivial

theorem MInv_run (X : Ext σ L τ α ι ε) (ops : List (MOp σ L τ α ι ρ)) (s : MState σ L τ α ι ε)
    (hi : MInv s) : MInv (mrun X ops s).2 := by
  induction ops generalizing s with
  | nil => exact hi
  | cons op rest ih => simp only [mrun]; exact ih _ (MInv_step X s op hi)

/-- in a state that satisfies the invariant no operation observes a dangling handle -/
theorem no_dangling_step (X : Ext σ L τ α ι ε) (s : MState σ L τ α ι ε) (op : MOp σ L τ α ι ρ)
    (hi : MInv s) : (mstep X s op).2 ≠ .dangling := by
  cases op with
  | getForLang l =>
    simp only [mstep, getStep]
    cases aget s.table l with
    | none => simp [allocFresh]
    | some oid =>
      simp only
      cases aget s.heap oid with
      | none => simp [allocFresh]
      | some o => simp
  | newLang l => simp [mstep, allocFresh]
  | drop h =>
    simp only [mstep, dropStep]
    cases hh : s.handles[h]? with
    | none => simp
    | some x =>
      cases x with
      | none => simp
      | some oid =>
        obtain ⟨o, ho⟩ := hi.handle_ok h oid hh
        simp only [ho]
        split <;> simp
  | lookup h op =>
    simp only [mstep, lookupStep]
    cases hh : s.handles[h]? with
    | none => simp
    | some x =>
      cases x with
      | none => simp
      | some oid =>
        obtain ⟨o, ho⟩ := hi.handle_ok h oid hh
        simp [ho]
  | lookupReenter h op =>
    simp only [mstep]
    cases hh : s.handles[h]? with
    | none => simp
    | some x =>
      cases x with
      | none => simp
      | some oid =>
        obtain ⟨o, ho⟩ := hi.handle_ok h oid hh
        simp only [ho]
        split <;> simp

theorem no_dangling_run (X : Ext σ L τ α ι ε) (ops : List (MOp σ L τ α ι ρ)) (s : MState σ L τ α ι ε)
    (hi : MInv s) : MObs.dangling ∉ (mrun X ops s).1 := by
  induction ops generalizing s with
  | nil => simp [mrun]
  | cons op rest ih =>
    simp only [mrun, List.mem_cons, not_or]
    exact ⟨fun e => no_dangling_step X s op hi e.symm, ih _ (MInv_step X s op hi)⟩

/-! ### what `get_for_lang` returns -/

theorem allocFresh_spec (s : MState σ L τ α ι ε) (l : L) (reg : Bool) :
    (allocFresh (ρ := ρ) s l reg).2 = .handle s.handles.length s.next ∧
    (allocFresh (ρ := ρ) s l reg).1.handles = s.handles ++ [some s.next] ∧
    aget (allocFresh (ρ := ρ) s l reg).1.heap s.next = some { lang := l, strong := 1, memo := LMemo.empty } ∧
    (allocFresh (ρ := ρ) s l reg).1.next = s.next + 1 ∧
    (reg = true → aget (allocFresh (ρ := ρ) s l reg).1.table l = some s.next) := by
  unfold allocFresh
  refine ⟨rfl, rfl, ?_, rfl, ?_⟩
  · simp only; rw [aget_aset]; simp
  · intro hr; subst hr; simp only [if_true]; rw [aget_aset]; simp

/-- `get_for_lang(l)` while the allocation registered for `l` is alive: that allocation, one more strong
handle, nothing else changes (same cache, same table) -/
theorem getForLang_alive (X : Ext σ L τ α ι ε) (s : MState σ L τ α ι ε) (l : L) (oid : Nat)
    (o : Obj L τ α ι ε) (ht : aget s.table l = some oid) (hh : aget s.heap oid = some o) :
    mstep (ρ := ρ) X s (.getForLang l) =
      ({ s with heap := aset s.heap oid { o with strong := o.strong + 1 }
                handles := s.handles ++ [some oid] }, .handle s.handles.length oid) := by
  simp only [mstep, getStep, ht, hh]

/-- `get_for_lang(l)` when nothing alive is registered for `l`: a brand-new allocation (id `s.next`, never
handed out before) with an empty cache, registered for `l` -/
theorem getForLang_fresh (X : Ext σ L τ α ι ε) (s : MState σ L τ α ι ε) (l : L)
    (hdead : aget s.table l = none ∨ ∃ oid, aget s.table l = some oid ∧ aget s.heap oid = none) :
    mstep (ρ := ρ) X s (.getForLang l) = allocFresh s l true := by
  rcases hdead with ht | ⟨oid, ht, hh⟩
  · simp only [mstep, getStep, ht]
  · simp only [mstep, getStep, ht, hh]

/-- in every state satisfying the invariant, `get_for_lang(l)` returns a live memoizer *of language `l`*
through a new handle, and registers it for `l` -/
theorem getForLang_result (X : Ext σ L τ α ι ε) (s : MState σ L τ α ι ε) (l : L) (hi : MInv s) :
    ∃ oid o, (mstep (ρ := ρ) X s (.getForLang l)).2 = .handle s.handles.length oid ∧
      (mstep (ρ := ρ) X s (.getForLang l)).1.handles = s.handles ++ [some oid] ∧
      aget (mstep (ρ := ρ) X s (.getForLang l)).1.table l = some oid ∧
      aget (mstep (ρ := ρ) X s (.getForLang l)).1.heap oid = some o ∧ o.lang = l := by
  cases ht : aget s.table l with
  | none =>
    rw [getForLang_fresh X s l (Or.inl ht)]
    obtain ⟨h1, h2, h3, _, h5⟩ := allocFresh_spec (ρ := ρ) s l true
    exact ⟨s.next, _, h1, h2, h5 rfl, h3, rfl⟩
  | some oid =>
    cases hh : aget s.heap oid with
    | none =>
      rw [getForLang_fresh X s l (Or.inr ⟨oid, ht, hh⟩)]
      obtain ⟨h1, h2, h3, _, h5⟩ := allocFresh_spec (ρ := ρ) s l true
      exact ⟨s.next, _, h1, h2, h5 rfl, h3, rfl⟩
    | some o =>
      rw [getForLang_alive X s l oid o ht hh]
      refine ⟨oid, { o with strong := o.strong + 1 }, rfl, rfl, ht, ?_, ?_⟩
      · simp only; rw [aget_aset]; simp
      · exact (hi.table_ok l oid ht).2 o hh

/-! ### a live handle keeps its memoizer registered and is never re-pointed -/

/-- handles are append-only / set-to-`none`: a handle that is alive after a step was alive before, pointing to
the same allocation -/
theorem handle_stable (X : Ext σ L τ α ι ε) (s : MState σ L τ α ι ε) (op : MOp σ L τ α ι ρ)
    (h oid : Nat) (hlt : h < s.handles.length)
    (hs : (mstep X s op).1.handles[h]? = some (some oid)) : s.handles[h]? = some (some oid) := by
  have happ : ∀ x, (s.handles ++ [x])[h]? = some (some oid) → s.handles[h]? = some (some oid) := by
    intro x g
    rcases getElem?_append_singleton _ _ _ _ g with g1 | ⟨g2, _⟩
    · exact g1
    · omega
  have hset : ∀ h', (s.handles.set h' none)[h]? = some (some oid) → s.handles[h]? = some (some oid) := by
    intro h' g
    rw [List.getElem?_set] at g
    by_cases e : h' = h
    · simp only [e, if_true] at g
      split at g <;> cases g
    · simpa [e] using g
  cases op with
  | getForLang l =>
    simp only [mstep, getStep] at hs
    cases ht : aget s.table l with
    | none => rw [ht] at hs; exact happ _ hs
    | some oid' =>
      rw [ht] at hs
      simp only at hs
      cases hh : aget s.heap oid' with
      | none => rw [hh] at hs; exact happ _ hs
      | some o => rw [hh] at hs; exact happ _ hs
  | newLang l => exact happ _ hs
  | drop h' =>
    simp only [mstep, dropStep] at hs
    cases hh : s.handles[h']? with
    | none => rw [hh] at hs; exact hs
    | some x =>
      cases x with
      | none => rw [hh] at hs; exact hs
      | some oid' =>
        rw [hh] at hs
        simp only at hs
        cases ho : aget s.heap oid' with
        | none => rw [ho] at hs; exact hset _ hs
        | some o =>
          rw [ho] at hs
          simp only at hs
          split at hs <;> exact hset _ hs
  | lookup h' op' =>
    simp only [mstep, lookupStep] at hs
    cases hh : s.handles[h']? with
    | none => rw [hh] at hs; exact hs
    | some x =>
      cases x with
      | none => rw [hh] at hs; exact hs
      | some oid' =>
        rw [hh] at hs
        simp only at hs
        cases ho : aget s.heap oid' with
        | none => rw [ho] at hs; exact hs
        | some o => rw [ho] at hs; exact hs
  | lookupReenter h' op' => rw [lookupReenter_handles] at hs; exact hs

theorem handles_length_mono (X : Ext σ L τ α ι ε) (s : MState σ L τ α ι ε) (op : MOp σ L τ α ι ρ) :
    s.handles.length ≤ (mstep X s op).1.handles.length := by
  cases op with
  | getForLang l =>
    simp only [mstep, getStep]
    cases aget s.table l with
    | none => simp [allocFresh]
    | some oid =>
      simp only
      cases aget s.heap oid with
      | none => simp [allocFresh]
      | some o => simp
  | newLang l => simp [mstep, allocFresh]
  | drop h =>
    simp only [mstep, dropStep]
    cases s.handles[h]? with
    | none => simp
    | some x =>
      cases x with
      | none => simp
      | some oid =>
        simp only
        cases aget s.heap oid with
        | none => simp
        | some o => simp only; split <;> simp
  | lookup h op' =>
    simp only [mstep, lookupStep]
    cases s.handles[h]? with
    | none => simp
    | some x =>
      cases x with
      | none => simp
      | some oid =>
        simp only
        cases aget s.heap oid with
        | none => simp
        | some o => simp
  | lookupReenter h op' => rw [lookupReenter_handles]; exact Nat.le_refl _

theorem registration_stable_base (X : Ext σ L τ α ι ε) (s : MState σ L τ α ι ε) (op : MOp σ L τ α ι ρ)
    (hi : MInv s) (h oid : Nat) (l : L) (hh : s.handles[h]? = some (some oid))
    (ht : aget s.table l = some oid) (hb : op.isBase) : aget (mstep X s op).1.table l = some oid := by
  obtain ⟨o, ho⟩ := hi.handle_ok h oid hh
  have hfresh : ∀ l' reg, (reg = true → l' ≠ l) →
      aget (allocFresh (ρ := ρ) s l' reg).1.table l = some oid := by
    intro l' reg hne
    unfold allocFresh
    cases reg with
    | false => simpa using ht
    | true =>
      simp only [if_true]
      rw [aget_aset]
      have : l ≠ l' := fun e => hne rfl e.symm
      simp [this, ht]
  cases op with
  | getForLang l' =>
    by_cases e : l' = l
    · subst e
      rw [getForLang_alive X s l' oid o ht ho]
      exact ht
    · simp only [mstep, getStep]
      cases ht' : aget s.table l' with
      | none => exact hfresh l' true (fun _ => e)
      | some oid' =>
        simp only
        cases aget s.heap oid' with
        | none => exact hfresh l' true (fun _ => e)
        | some o' => exact ht
  | newLang l' => exact hfresh l' false (fun h => by cases h)
  | drop h' =>
    simp only [mstep, dropStep]
    cases s.handles[h']? with
    | none => exact ht
    | some x =>
      cases x with
      | none => exact ht
      | some oid' =>
        simp only
        cases aget s.heap oid' with
        | none => exact ht
        | some o' => simp only; split <;> exact ht
  | lookup h' op' =>
    simp only [mstep, lookupStep]
    cases s.handles[h']? with
    | none => exact ht
    | some x =>
      cases x with
      | none => exact ht
      | some oid' =>
        simp only
        cases aget s.heap oid' with
        | none => exact ht
        | some o' => exact ht
  | lookupReenter h' op' => exact hb.elim

theorem registration_reenterStep (X : Ext σ L τ α ι ε) (ρ : Type) (s : MState σ L τ α ι ε) (l' : L) (oid' : Nat)
    (hi : MInv s) (h oid : Nat) (l : L) (hh : s.handles[h]? = some (some oid))
    (ht : aget s.table l = some oid) : aget (reenterStep ρ s l' oid').1.table l = some oid := by
  obtain ⟨e, _⟩ := reenterStep_state ρ s l' oid'
  rw [e]
  have hiG := MInv_step_base (ρ := ρ) X s (.getForLang l') hi trivial
  have htG := registration_stable_base (ρ := ρ) X s (.getForLang l') hi h oid l hh ht trivial
  obtain ⟨x, _, hG⟩ := getStep_handles (ρ := ρ) s l'
  have hhG : (getStep (ρ := ρ) s l').1.handles[h]? = some (some oid) := by
    rw [hG, List.getElem?_append_left (List.getElem?_eq_some_iff.1 hh).1]; exact hh
  exact registration_stable_base (ρ := ρ) X _ (.drop s.handles.length) hiG h oid l hhG htG trivial

/-- while handle `h` (pointing to `oid`) is alive, a registration of `oid` for `l` cannot be replaced -/
theorem registration_stable (X : Ext σ L τ α ι ε) (s : MState σ L τ α ι ε) (op : MOp σ L τ α ι ρ)
    (hi : MInv s) (h oid : Nat) (l : L) (hh : s.handles[h]? = some (some oid))
    (ht : aget s.table l = some oid) : aget (mstep X s op).1.table l = some oid := by
  cases op with
  | lookupReenter h' op' =>
    have hiL := MInv_step_base X s (.lookup h' op') hi trivial
    have htL := registration_stable_base X s (.lookup h' op') hi h oid l hh ht trivial
    have hhL : (mstep X s (.lookup h' op')).1.handles[h]? = some (some oid) := by
      rw [show (mstep X s (.lookup h' op')).1.handles = s.handles from lookupStep_handles X s h' op']
      exact hh
    rcases lookupReenter_cases X s h' op' with e | ⟨l', oid', e⟩
    · rw [e]; exact htL
    · rw [e]; exact registration_reenterStep X ρ _ l' oid' hiL h oid l hhL htL
  | getForLang l' => exact registration_stable_base X s _ hi h oid l hh ht trivial
  | newLang l' => exact registration_stable_base X s _ hi h oid l hh ht trivial
  | drop h' => exact registration_stable_base X s _ hi h oid l hh ht trivial
  | lookup h' op' => exact registration_stable_base X s _ hi h oid l hh ht trivial

/-- **shared while in use** (history form): if handle `h` points to `oid`, `oid` is registered for `l`, and
after any further history `h` is still alive, then `oid` is still registered for `l` and alive – so
`get_for_lang(l)` returns it again -/
theorem shared_while_alive (X : Ext σ L τ α ι ε) (mid : List (MOp σ L τ α ι ρ)) (s : MState σ L τ α ι ε)
    (hi : MInv s) (h oid : Nat) (l : L) (hlt : h < s.handles.length)
    (hreg : s.handles[h]? = some (some oid) → aget s.table l = some oid)
    (halive : (mrun X mid s).2.handles[h]? = some (some oid)) :
    aget (mrun X mid s).2.table l = some oid ∧ ∃ o, aget (mrun X mid s).2.heap oid = some o := by
  induction mid generalizing s with
  | nil =>
    simp only [mrun] at halive ⊢
    exact ⟨hreg halive, hi.handle_ok h oid halive⟩
  | cons op rest ih =>
    simp only [mrun] at halive ⊢
    apply ih (mstep X s op).1 (MInv_step X s op hi)
      (Nat.lt_of_lt_of_le hlt (handles_length_mono X s op))
    · intro hs'
      have hs := handle_stable X s op h oid hlt hs'
      exact registration_stable X s op hi h oid l hs (hreg hs)
    · exact halive

/-! ### independence -/

/-- a lookup through a handle touches only that handle's memoizer: table, handles, ids and every other
allocation are unchanged -/
theorem lookup_isolated (X : Ext σ L τ α ι ε) (s : MState σ L τ α ι ε) (h : Nat) (op : Op σ τ α ι ρ) :
    (mstep X s (.lookup h op)).1.table = s.table ∧ (mstep X s (.lookup h op)).1.handles = s.handles ∧
    (mstep X s (.lookup h op)).1.next = s.next ∧
    ∀ oid, s.handles[h]? = some (some oid) → ∀ oid', oid' ≠ oid →
      aget (mstep X s (.lookup h op)).1.heap oid' = aget s.heap oid' := by
  simp only [mstep, lookupStep]
  cases hh : s.handles[h]? with
  | none => simp
  | some x =>
    cases x with
    | none => simp
    | some oid =>
      simp only
      cases ho : aget s.heap oid with
      | none => simp
      | some o =>
        refine ⟨rfl, rfl, rfl, ?_⟩
        intro oid1 h1 oid' hne
        cases h1
        simp only
        rw [aget_aset]
        simp [hne]

theorem lang_stable_base (X : Ext σ L τ α ι ε) (s : MState σ L τ α ι ε) (op : MOp σ L τ α ι ρ) (hi : MInv s)
    (oid : Nat) (o o' : Obj L τ α ι ε) (ho : aget s.heap oid = some o)
    (ho' : aget (mstep X s op).1.heap oid = some o') (hb : op.isBase) : o'.lang = o.lang := by
  have hlt := (hi.heap_ok oid o ho).1
  have hfresh : ∀ l reg, aget (allocFresh (ρ := ρ) s l reg).1.heap oid = some o' → o'.lang = o.lang := by
    intro l reg g
    unfold allocFresh at g
    simp only at g
    rw [aget_aset] at g
    have : oid ≠ s.next := Nat.ne_of_lt hlt
    simp only [this, if_false] at g
    rw [ho] at g; cases g; rfl
  have hsame : aget s.heap oid = some o' → o'.lang = o.lang := by
    intro g; rw [ho] at g; cases g; rfl
  cases op with
  | getForLang l =>
    simp only [mstep, getStep] at ho'
    cases ht : aget s.table l with
    | none => rw [ht] at ho'; exact hfresh l true ho'
    | some oid1 =>
      rw [ht] at ho'
      simp only at ho'
      cases hh : aget s.heap oid1 with
      | none => rw [hh] at ho'; exact hfresh l true ho'
      | some o1 =>
        rw [hh] at ho'
        simp only at ho'
        rw [aget_aset] at ho'
        by_cases e : oid = oid1
        · subst e
          simp only [if_true] at ho'
          cases ho'
          rw [ho] at hh; cases hh; rfl
        · simp only [e, if_false] at ho'; exact hsame ho'
  | newLang l => exact hfresh l false ho'
  | drop h =>
    simp only [mstep, dropStep] at ho'
    cases hh : s.handles[h]? with
    | none => rw [hh] at ho'; exact hsame ho'
    | some x =>
      cases x with
      | none => rw [hh] at ho'; exact hsame ho'
      | some oid1 =>
        rw [hh] at ho'
        simp only at ho'
        cases h1 : aget s.heap oid1 with
        | none => rw [h1] at ho'; exact hsame ho'
        | some o1 =>
          rw [h1] at ho'
          simp only at ho'
          split at ho'
          · simp only at ho'
            rw [aget_aerase] at ho'
            by_cases e : oid = oid1
            · simp [e] at ho'
            · simp only [e, if_false] at ho'; exact hsame ho'
          · simp only at ho'
            rw [aget_aset] at ho'
            by_cases e : oid = oid1
            · subst e
              simp only [if_true] at ho'
              cases ho'
              rw [ho] at h1; cases h1; rfl
            · simp only [e, if_false] at ho'; exact hsame ho'
  | lookup h op' =>
    simp only [mstep, lookupStep] at ho'
    cases hh : s.handles[h]? with
    | none => rw [hh] at ho'; exact hsame ho'
    | some x =>
      cases x with
      | none => rw [hh] at ho'; exact hsame ho'
      | some oid1 =>
        rw [hh] at ho'
        simp only at ho'
        cases h1 : aget s.heap oid1 with
        | none => rw [h1] at ho'; exact hsame ho'
        | some o1 =>
          rw [h1] at ho'
          simp only at ho'
          rw [aget_aset] at ho'
          by_cases e : oid = oid1
          · subst e
            simp only [if_true] at ho'
            cases ho'
            rw [ho] at h1; cases h1; rfl
          · simp only [e, if_false] at ho'; exact hsame ho'
  | lookupReenter h op' => exact hb.elim

/-! ### dropping the last handle frees the memoizer; ids are never reused -/

theorem drop_last_frees (X : Ext σ L τ α ι ε) (s : MState σ L τ α ι ε) (hi : MInv s) (h oid : Nat)
    (hh : s.handles[h]? = some (some oid)) (hone : liveCount s.handles oid = 1) :
    aget (mstep (ρ := ρ) X s (.drop h)).1.heap oid = none := by
  obtain ⟨o, ho⟩ := hi.handle_ok h oid hh
  obtain ⟨_, _, h3, _⟩ := hi.heap_ok oid o ho
  simp only [mstep, dropStep, hh, ho]
  have : o.strong ≤ 1 := by omega
  simp only [this, if_true]
  rw [aget_aerase]; simp

theorem next_mono_base (X : Ext σ L τ α ι ε) (s : MState σ L τ α ι ε) (op : MOp σ L τ α ι ρ)
    (hb : op.isBase) : s.next ≤ (mstep X s op).1.next := by
  cases op with
  | getForLang l =>
    simp only [mstep, getStep]
    cases aget s.table l with
    | none => simp [allocFresh]
    | some oid =>
      simp only
      cases aget s.heap oid with
      | none => simp [allocFresh]
      | some o => simp
  | newLang l => simp [mstep, allocFresh]
  | drop h =>
    simp only [mstep, dropStep]
    cases s.handles[h]? with
    | none => simp
    | some x =>
      cases x with
      | none => simp
      | some oid =>
        simp only
        cases aget s.heap oid with
        | none => simp
        | some o => simp only; split <;> simp
  | lookup h op' =>
    simp only [mstep, lookupStep]
    cases s.handles[h]? with
    | none => simp
    | some x =>
      cases x with
      | none => simp
      | some oid =>
        simp only
        cases aget s.heap oid with
        | none => simp
        | some o => simp
  | lookupReenter h op' => exact hb.elim

theorem next_mono_reenterStep (X : Ext σ L τ α ι ε) (ρ : Type) (s : MState σ L τ α ι ε) (l : L) (oid : Nat) :
    s.next ≤ (reenterStep ρ s l oid).1.next := by
  rw [(reenterStep_state ρ s l oid).1]
  exact Nat.le_trans (next_mono_base (ρ := ρ) X s (.getForLang l) trivial)
    (next_mono_base (ρ := ρ) X _ (.drop s.handles.length) trivial)

/-- allocation ids are handed out in increasing order -/
theorem next_mono (X : Ext σ L τ α ι ε) (s : MState σ L τ α ι ε) (op : MOp σ L τ α ι ρ) :
    s.next ≤ (mstep X s op).1.next := by
  cases op with
  | lookupReenter h op' =>
    have hL := next_mono_base X s (.lookup h op') trivial
    rcases lookupReenter_cases X s h op' with e | ⟨l, oid, e⟩
    · rw [e]; exact hL
    · rw [e]; exact Nat.le_trans hL (next_mono_reenterStep X ρ _ l oid)
  | getForLang l => exact next_mono_base X s _ trivial
  | newLang l => exact next_mono_base X s _ trivial
  | drop h => exact next_mono_base X s _ trivial
  | lookup h op' => exact next_mono_base X s _ trivial

theorem next_mono_run (X : Ext σ L τ α ι ε) (ops : List (MOp σ L τ α ι ρ)) (s : MState σ L τ α ι ε) :
    s.next ≤ (mrun X ops s).2.next := by
  induction ops generalizing s with
  | nil => exact Nat.le_refl _
  | cons op rest ih => simp only [mrun]; exact Nat.le_trans (next_mono X s op) (ih _)

/-- every allocation id a history ever handed out is below the final `next` -/
theorem handed_out_lt_next (X : Ext σ L τ α ι ε) (ops : List (MOp σ L τ α ι ρ)) (s : MState σ L τ α ι ε)
    (hi : MInv s) (h oid : Nat) (hm : MObs.handle h oid ∈ (mrun X ops s).1) :
    oid < (mrun X ops s).2.next := by
  induction ops generalizing s with
  | nil => simp [mrun] at hm
  | cons op rest ih =>
    simp only [mrun, List.mem_cons] at hm ⊢
    rcases hm with hm | hm
    · apply Nat.lt_of_lt_of_le _ (next_mono_run X rest _)
      have hi' := MInv_step X s op hi
      -- the new handle is alive in the next state
      have hfresh : ∀ l reg, (allocFresh (ρ := ρ) s l reg).2 = MObs.handle h oid →
          oid < (allocFresh (ρ := ρ) s l reg).1.next := by
        intro l reg g
        unfold allocFresh at g ⊢
        simp only at g ⊢
        cases g
        exact Nat.lt_succ_self _
      cases op with
      | getForLang l =>
        simp only [mstep, getStep] at hm ⊢
        cases ht : aget s.table l with
        | none => rw [ht] at hm; exact hfresh l true hm.symm
        | some oid1 =>
          rw [ht] at hm
          simp only at hm ⊢
          cases hh : aget s.heap oid1 with
          | none => rw [hh] at hm; exact hfresh l true hm.symm
          | some o1 =>
            rw [hh] at hm
            simp only at hm ⊢
            cases hm
            exact (hi.heap_ok oid o1 hh).1
      | newLang l => exact hfresh l false hm.symm
      | drop h' =>
        simp only [mstep, dropStep] at hm
        cases hh : s.handles[h']? with
        | none => rw [hh] at hm; cases hm
        | some x =>
          cases x with
          | none => rw [hh] at hm; cases hm
          | some oid1 =>
            rw [hh] at hm
            simp only at hm
            cases h1 : aget s.heap oid1 with
            | none => rw [h1] at hm; cases hm
            | some o1 =>
              rw [h1] at hm
              simp only at hm
              split at hm <;> cases hm
      | lookup h' op' =>
        simp only [mstep, lookupStep] at hm
        cases hh : s.handles[h']? with
        | none => rw [hh] at hm; cases hm
        | some x =>
          cases x with
          | none => rw [hh] at hm; cases hm
          | some oid1 =>
            rw [hh] at hm
            simp only at hm
            cases h1 : aget s.heap oid1 with
            | none => rw [h1] at hm; cases hm
            | some o1 => rw [h1] at hm; cases hm
      | lookupReenter h' op' => exact absurd hm.symm (lookupReenter_obs_ne_handle X s h' op' h oid)
    · exact ih _ (MInv_step X s op hi) hm

/-- `drop` does not touch the weak table or the id counter -/
theorem drop_table (X : Ext σ L τ α ι ε) (s : MState σ L τ α ι ε) (h : Nat) :
    (mstep (ρ := ρ) X s (.drop h)).1.table = s.table ∧ (mstep (ρ := ρ) X s (.drop h)).1.next = s.next := by
  simp only [mstep, dropStep]
  cases s.handles[h]? with
  | none => simp
  | some x =>
    cases x with
    | none => simp
    | some oid =>
      simp only
      cases aget s.heap oid with
      | none => simp
      | some o => simp only; split <;> simp

theorem freed_stays_freed_base (X : Ext σ L τ α ι ε) (s : MState σ L τ α ι ε) (op : MOp σ L τ α ι ρ)
    (oid : Nat) (hlt : oid < s.next) (hn : aget s.heap oid = none) (hb : op.isBase) :
    aget (mstep X s op).1.heap oid = none := by
  have hne : oid ≠ s.next := Nat.ne_of_lt hlt
  have hfresh : ∀ l reg, aget (allocFresh (ρ := ρ) s l reg).1.heap oid = none := by
    intro l reg
    unfold allocFresh
    simp only
    rw [aget_aset]
    simp [hne, hn]
  have hset : ∀ oid1 (o1 : Obj L τ α ι ε), aget s.heap oid1 = some o1 → ∀ o2, aget (aset s.heap oid1 o2) oid = none := by
    intro oid1 o1 h1 o2
    rw [aget_aset]
    by_cases e : oid = oid1
    · subst e; rw [hn] at h1; cases h1
    · simp [e, hn]
  cases op with
  | getForLang l =>
    simp only [mstep, getStep]
    cases aget s.table l with
    | none => exact hfresh l true
    | some oid1 =>
      simp only
      cases hh : aget s.heap oid1 with
      | none => exact hfresh l true
      | some o1 => exact hset oid1 o1 hh _
  | newLang l => exact hfresh l false
  | drop h =>
    simp only [mstep, dropStep]
    cases s.handles[h]? with
    | none => exact hn
    | some x =>
      cases x with
      | none => exact hn
      | some oid1 =>
        simp only
        cases h1 : aget s.heap oid1 with
        | none => exact hn
        | some o1 =>
          simp only
          split
          · simp only; rw [aget_aerase]; simp [hn]
          · exact hset oid1 o1 h1 _
  | lookup h op' =>
    simp only [mstep, lookupStep]
    cases s.handles[h]? with
    | none => exact hn
    | some x =>
      cases x with
      | none => exact hn
      | some oid1 =>
        simp only
        cases h1 : aget s.heap oid1 with
        | none => exact hn
        | some o1 => exact hset oid1 o1 h1 _
  | lookupReenter h op' => exact hb.elim

theorem freed_reenterStep (X : Ext σ L τ α ι ε) (ρ : Type) (s : MState σ L τ α ι ε) (l : L) (oid' : Nat)
    (oid : Nat) (hlt : oid < s.next) (hn : aget s.heap oid = none) :
    aget (reenterStep ρ s l oid').1.heap oid = none := by
  rw [(reenterStep_state ρ s l oid').1]
  have h1 := freed_stays_freed_base (ρ := ρ) X s (.getForLang l) oid hlt hn trivial
  have h2 := Nat.lt_of_lt_of_le hlt (next_mono_base (ρ := ρ) X s (.getForLang l) trivial)
  exact freed_stays_freed_base (ρ := ρ) X _ (.drop s.handles.length) oid h2 h1 trivial

/-- allocation ids are never reused: a freed allocation stays freed -/
theorem freed_stays_freed (X : Ext σ L τ α ι ε) (s : MState σ L τ α ι ε) (op : MOp σ L τ α ι ρ)
    (oid : Nat) (hlt : oid < s.next) (hn : aget s.heap oid = none) :
    aget (mstep X s op).1.heap oid = none := by
  cases op with
  | lookupReenter h op' =>
    have hL := freed_stays_freed_base X s (.lookup h op') oid hlt hn trivial
    have hltL := Nat.lt_of_lt_of_le hlt (next_mono_base X s (.lookup h op') trivial)
    rcases lookupReenter_cases X s h op' with e | ⟨l, oid', e⟩
    · rw [e]; exact hL
    · rw [e]; exact freed_reenterStep X ρ _ l oid' oid hltL hL
  | getForLang l => exact freed_stays_freed_base X s _ oid hlt hn trivial
  | newLang l => exact freed_stays_freed_base X s _ oid hlt hn trivial
  | drop h => exact freed_stays_freed_base X s _ oid hlt hn trivial
  | lookup h op' => exact freed_stays_freed_base X s _ oid hlt hn trivial

theorem lang_reenterStep (X : Ext σ L τ α ι ε) (ρ : Type) (s : MState σ L τ α ι ε) (l : L) (oid' : Nat)
    (hi : MInv s) (oid : Nat) (o o' : Obj L τ α ι ε) (ho : aget s.heap oid = some o)
    (ho' : aget (reenterStep ρ s l oid').1.heap oid = some o') : o'.lang = o.lang := by
  rw [(reenterStep_state ρ s l oid').1] at ho'
  have hlt := (hi.heap_ok oid o ho).1
  have hiG := MInv_step_base (ρ := ρ) X s (.getForLang l) hi trivial
  cases h1 : aget (mstep (ρ := ρ) X s (.getForLang l)).1.heap oid with
  | none =>
    have h2 := Nat.lt_of_lt_of_le hlt (next_mono_base (ρ := ρ) X s (.getForLang l) trivial)
    have := freed_stays_freed_base (ρ := ρ) X _ (.drop s.handles.length) oid h2 h1 trivial
    rw [show aget (mstep (ρ := ρ) X (mstep (ρ := ρ) X s (.getForLang l)).1 (.drop s.handles.length)).1.heap oid
      = some o' from ho'] at this
    cases this
  | some o1 =>
    rw [lang_stable_base (ρ := ρ) X _ (.drop s.handles.length) hiG oid o1 o' h1 ho' trivial]
    exact lang_stable_base (ρ := ρ) X s (.getForLang l) hi oid o o1 ho h1 trivial

/-- the language of a live allocation never changes -/
theorem lang_stable (X : Ext σ L τ α ι ε) (s : MState σ L τ α ι ε) (op : MOp σ L τ α ι ρ) (hi : MInv s)
    (oid : Nat) (o o' : Obj L τ α ι ε) (ho : aget s.heap oid = some o)
    (ho' : aget (mstep X s op).1.heap oid = some o') : o'.lang = o.lang := by
  cases op with
  | lookupReenter h op' =>
    have hlt := (hi.heap_ok oid o ho).1
    have hiL := MInv_step_base X s (.lookup h op') hi trivial
    have hltL := Nat.lt_of_lt_of_le hlt (next_mono_base X s (.lookup h op') trivial)
    cases h1 : aget (mstep X s (.lookup h op')).1.heap oid with
    | none =>
      rcases lookupReenter_cases X s h op' with e | ⟨l, oid', e⟩
      · rw [e, h1] at ho'; cases ho'
      · rw [e, freed_reenterStep X ρ _ l oid' oid hltL h1] at ho'; cases ho'
    | some o1 =>
      have e1 := lang_stable_base X s (.lookup h op') hi oid o o1 ho h1 trivial
      rcases lookupReenter_cases X s h op' with e | ⟨l, oid', e⟩
      · rw [e, h1] at ho'; cases ho'; exact e1
      · rw [e] at ho'
        rw [lang_reenterStep X ρ _ l oid' hiL oid o1 o' h1 ho']; exact e1
  | getForLang l => exact lang_stable_base X s _ hi oid o o' ho ho' trivial
  | newLang l => exact lang_stable_base X s _ hi oid o o' ho ho' trivial
  | drop h => exact lang_stable_base X s _ hi oid o o' ho ho' trivial
  | lookup h op' => exact lang_stable_base X s _ hi oid o o' ho ho' trivial

/-- the language of an allocation is fixed for its whole life, over any history -/
theorem lang_stable_run (X : Ext σ L τ α ι ε) (ops : List (MOp σ L τ α ι ρ)) (s : MState σ L τ α ι ε)
    (hi : MInv s) (oid : Nat) (o o' : Obj L τ α ι ε) (ho : aget s.heap oid = some o)
    (ho' : aget (mrun X ops s).2.heap oid = some o') : o'.lang = o.lang := by
  induction ops generalizing s o with
  | nil => simp only [mrun] at ho'; rw [ho] at ho'; cases ho'; rfl
  | cons op rest ih =>
    simp only [mrun] at ho'
    have hi' := MInv_step X s op hi
    cases h1 : aget (mstep X s op).1.heap oid with
    | some o1 =>
      rw [ih _ hi' o1 h1 ho']
      exact lang_stable X s op hi oid o o1 ho h1
    | none =>
      -- freed: it can never come back
      have hlt : oid < (mstep X s op).1.next :=
        Nat.lt_of_lt_of_le (hi.heap_ok oid o ho).1 (next_mono X s op)
      have : aget (mrun X rest (mstep X s op).1).2.heap oid = none := by
        clear ih ho'
        generalize (mstep X s op).1 = s1 at h1 hlt
        induction rest generalizing s1 with
        | nil => exact h1
        | cons op2 rest2 ih2 =>
          simp only [mrun]
          exact ih2 _ (freed_stays_freed X s1 op2 oid hlt h1)
            (Nat.lt_of_lt_of_le hlt (next_mono X s1 op2))
      rw [this] at ho'; cases ho'

end Intl
end FluentModel.Memo
