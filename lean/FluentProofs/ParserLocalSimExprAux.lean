import FluentProofs.ParserLocalSimLeaf2
import FluentProofs.ParserLocalSimGe
/-!
# Locality of the parser, SIMULATION family, part 3a: one-source auxiliaries of the expression step lemmas

"Once a sub-call has returned a cursor behind `N`, the caller returns a cursor behind `N`" (`*_past`), for an
arbitrary source; `getVariants` and `getCallArgsLoop` cut into named continuations (`variantsBody` / `variantsTail` /
`variantsPat`, `argsArg` / `argsNamed` / `argsPos` / `argsVal` / `argsNext`) with their unfolding equations
(`getVariants_succS`, `getCallArgsLoop_succS`); `getInline` started at `N` itself (`inline_past_real`, `inline_hash`).
-/
namespace FluentProofs.Parser
open FluentModel.Syntax

/-- closes `P (match r with | .ok a q => .ok (g a) q | .err e q => .err e q | …)` from `h : P r` -/
macro "tail_close" h:ident : tactic =>
  `(tactic| (split <;> rename_i hx <;> rw [hx] at $h:ident <;> exact $h))

/-- a `-` at `N` is not followed by `>` (it starts an entry head) -/
theorem TailB.no_arrow {s : Src} {N : Nat} (h : TailB s N) (h45 : s[N]? = some 45) : s[N + 1]? ≠ some 62 := by
  rcases h with h | ⟨E, hb⟩
  · rw [h] at h45; exact absurd h45 (by decide)
  · intro h62
    by_cases hE : N + 1 < E
    · obtain ⟨b, hb1, hb2⟩ := hb.head (N + 1) (by omega) hE
      rw [hb1] at h62; cases h62; revert hb2; decide
    · have hE' : E = N + 1 := by have := hb.lt; omega
      have := hb.eq
      rw [hE', h62] at this
      exact absurd this (by decide)

theorem placeable_past {s : Src} {N f p : Nat} (h : Past N (getExpression s f (skipBlank s p))) :
    Past N (getPlaceable s (f + 1) p) := by
  simp only [getPlaceable]
  rcases h.cases with ⟨a, q, hr, hq⟩ | ⟨e, q, hr, hq⟩ | ⟨m, hr⟩ | hr <;> rw [hr] <;> simp only [] <;> try cur_close
  have := (skipBlankInline_after s q).le
  rcases expectByte_cases s (skipBlankInline s q) 125 with ⟨hx, _⟩ | ⟨hx, _⟩ <;> rw [hx] <;> simp only []
  · split <;> cur_close
  · cur_close

theorem callArguments_past {s : Src} {N f p : Nat} (hb : s[skipBlank s p]? = some 40)
    (h : Past N (getCallArgsLoop s f [] [] (skipBlank s (skipBlank s p + 1)))) : Past N (getCallArguments s (f + 1) p) := by
  simp only [getCallArguments]
  rcases takeByteIf_cases s (skipBlank s p) 40 with ⟨ht, _⟩ | ⟨_, hne⟩
  · rw [ht]
    simp only [Bool.not_true, Bool.false_eq_true, if_false]
    rcases h.cases with ⟨⟨pos, named⟩, q, hr, hq⟩ | ⟨e, q, hr, hq⟩ | ⟨m, hr⟩ | hr <;> rw [hr] <;> simp only [] <;>
      try cur_close
    rcases expectByte_cases s q 41 with ⟨hx, _⟩ | ⟨hx, _⟩ <;> rw [hx] <;> simp only [] <;> cur_close
  · exact absurd hb hne

theorem expression_past {s : Src} {N f p : Nat} (h : Past N (getInline s f false p)) :
    Past N (getExpression s (f + 1) p) := by
  simp only [getExpression]
  rcases h.cases with ⟨exp, q, hr, hq⟩ | ⟨e, q, hr, hq⟩ | ⟨m, hr⟩ | hr <;> rw [hr] <;> simp only [] <;> try cur_close
  have l1 := (skipBlank_after s q).le
  split
  · split <;> cur_close
  · split
    · cur_close
    · have l2 := (skipBlankInline_after s (skipBlank s q + 2)).le
      split
      · cur_close
      · rename_i q3 hq3
        have l3 := (skipEol_some hq3).1
        have l4 := (skipBlank_after s q3).le
        have := ((gspecs_all s f).variants false [] (skipBlank s q3)).past (N := N) (by omega)
        tail_close this

/-! ## `getVariants`, cut into named pieces -/

/-- what `getVariants` does with the outcome of the variant's pattern -/
def variantsPat (s : Src) (n : Nat) (hd' dflt : Bool) (acc : List (Variant Span)) (key : VKey Span) :
    R (Option (Pattern Span)) → R (List (Variant Span))
  | .ok (some value) q3 => getVariants s n hd' (acc ++ [.mk key value dflt]) (skipBlank s q3)
  | .ok none q3 => .err (mkErr .missingValue q3) q3
  | .err e q3 => .err e q3
  | .panic m => .panic m
  | .fuel => .fuel

/-- what `getVariants` does with the outcome of the variant key -/
def variantsTail (s : Src) (n : Nat) (hd' dflt : Bool) (acc : List (Variant Span)) :
    R (VKey Span) → R (List (Variant Span))
  | .ok key q =>
    (match expectByte s (skipBlank s q) 93 with
     | .ok _ q2 => variantsPat s n hd' dflt acc key (getPattern s n q2)
     | .err e q2 => .err e q2
     | .panic m => .panic m
     | .fuel => .fuel)
  | .err e q => .err e q
  | .panic m => .panic m
  | .fuel => .fuel

/-- `getVariants` after the optional `*` -/
def variantsBody (s : Src) (n : Nat) (hd : Bool) (acc : List (Variant Span)) (p1 : Nat) (dflt : Bool) :
    R (List (Variant Span)) :=
  if (dflt && hd) = true then .err (mkErr .multipleDefaultVariants p1) p1
  else if (!(takeByteIf s p1 91).2) = true then
    (if dflt = true then .err (mkErr (.expectedToken 91) (takeByteIf s p1 91).1) (takeByteIf s p1 91).1
     else if (hd || dflt) = true then .ok acc (takeByteIf s p1 91).1
     else .err (mkErr .missingDefaultVariant (takeByteIf s p1 91).1) (takeByteIf s p1 91).1)
  else variantsTail s n (hd || dflt) dflt acc (variantKey s (skipBlank s (takeByteIf s p1 91).1))

theorem getVariants_succS (s : Src) (n : Nat) (hd : Bool) (acc : List (Variant Span)) (p : Nat) :
    getVariants s (n + 1) hd acc p = variantsBody s n hd acc (takeByteIf s p 42).1 (takeByteIf s p 42).2 := by
  simp only [getVariants, variantsBody]
  split
  · rfl
  · split
    · rfl
    · unfold variantsTail
      split <;> rename_i hk <;>
        rw [show variantKey s (skipBlank s (takeByteIf s (takeByteIf s p 42).fst 91).fst) = _ from hk] <;> simp only []
      split <;> rename_i hx <;> rw [hx] <;> simp only []
      unfold variantsPat
      split <;> rename_i hx <;> rw [hx]

theorem variantsPat_past {s : Src} {N n : Nat} {hd' dflt : Bool} {acc : List (Variant Span)} {key : VKey Span}
    {r : R (Option (Pattern Span))} (h : Past N r) : Past N (variantsPat s n hd' dflt acc key r) := by
  rcases h.cases with ⟨o, q, rfl, hq⟩ | ⟨e, q, rfl, hq⟩ | ⟨m, rfl⟩ | rfl <;> try exact h
  cases o with
  | none => exact h
  | some value =>
    have := (skipBlank_after s q).le
    exact ((gspecs_all s n).variants _ _ _).past (by omega)

theorem variantsTail_past {s : Src} {N n : Nat} {hd' dflt : Bool} {acc : List (Variant Span)}
    {r : R (VKey Span)} (h : Past N r) : Past N (variantsTail s n hd' dflt acc r) := by
  rcases h.cases with ⟨key, q, rfl, hq⟩ | ⟨e, q, rfl, hq⟩ | ⟨m, rfl⟩ | rfl <;> try exact h
  simp only [variantsTail]
  have := (skipBlank_after s q).le
  rcases expectByte_cases s (skipBlank s q) 93 with ⟨hx, _⟩ | ⟨hx, _⟩ <;> rw [hx] <;> simp only []
  · exact variantsPat_past (((gspecs_all s n).pattern _).past (by omega))
  · cur_close

/-! ## `getCallArgsLoop`, cut into named pieces -/

/-- `next`: the optional `,` and the next round -/
def argsNext (s : Src) (n : Nat) (pos : List (Inline Span)) (named : List (Span × Inline Span)) (q : Nat) :
    R (List (Inline Span) × List (Span × Inline Span)) :=
  getCallArgsLoop s n pos named (skipBlank s (takeByteIf s (skipBlank s q) 44).1)

/-- after the value of a named argument -/
def argsVal (s : Src) (n : Nat) (pos : List (Inline Span)) (named : List (Span × Inline Span)) (id : Span) :
    R (Inline Span) → R (List (Inline Span) × List (Span × Inline Span))
  | .ok val q3 => argsNext s n pos (named ++ [(id, val)]) q3
  | .err e q3 => .err e q3
  | .panic m => .panic m
  | .fuel => .fuel

/-- a positional argument -/
def argsPos (s : Src) (n : Nat) (pos : List (Inline Span)) (named : List (Span × Inline Span)) (expr : Inline Span)
    (q : Nat) : R (List (Inline Span) × List (Span × Inline Span)) :=
  if (!named.isEmpty) = true then .err (mkErr .positionalArgumentFollowsNamed q) q
  else argsNext s n (pos ++ [expr]) named q

/-- a named argument (`q1` is at the `:`) -/
def argsNamed (s : Src) (n : Nat) (pos : List (Inline Span)) (named : List (Span × Inline Span)) (id : Span) (q1 : Nat) :
    R (List (Inline Span) × List (Span × Inline Span)) :=
  if named.any (fun na => spanBytes s na.1 == spanBytes s id) = true then
    .err (mkErr (.duplicatedNamedArgument id) q1) q1
  else argsVal s n pos named id (getInline s n true (skipBlank s (q1 + 1)))

/-- what the loop does with the outcome of the argument's inline expression -/
def argsArg (s : Src) (n : Nat) (pos : List (Inline Span)) (named : List (Span × Inline Span)) :
    R (Inline Span) → R (List (Inline Span) × List (Span × Inline Span))
  | .ok expr q =>
    (match expr with
     | .msg id none =>
       if isCurrentByte s (skipBlank s q) 58 = true then argsNamed s n pos named id (skipBlank s q)
       else argsPos s n pos named expr (skipBlank s q)
     | _ => argsPos s n pos named expr q)
  | .err e q => .err e q
  | .panic m => .panic m
  | .fuel => .fuel

theorem getCallArgsLoop_succS (s : Src) (n : Nat) (pos : List (Inline Span)) (named : List (Span × Inline Span)) (p : Nat) :
    getCallArgsLoop s (n + 1) pos named p =
      if p < s.size then
        (if isCurrentByte s p 41 = true then .ok (pos, named) p else argsArg s n pos named (getInline s n false p))
      else .ok (pos, named) p := by
  simp only [getCallArgsLoop]
  split
  · split
    · rfl
    · cases getInline s n false p with
      | ok exp q =>
        cases exp with
        | msg id attr =>
          cases attr with
          | none =>
            simp only [argsArg, argsNamed, argsPos, argsNext]
            split
            · split
              · rfl
              · cases getInline s n true (skipBlank s (skipBlank s q + 1)) <;> rfl
            · rfl
          | some a => rfl
        | _ => rfl
      | _ => rfl
  · rfl

theorem argsArg_ok_msg (s : Src) (n : Nat) (pos : List (Inline Span)) (named : List (Span × Inline Span)) (id : Span)
    (q : Nat) : argsArg s n pos named (.ok (.msg id none) q) =
      if isCurrentByte s (skipBlank s q) 58 = true then argsNamed s n pos named id (skipBlank s q)
      else argsPos s n pos named (.msg id none) (skipBlank s q) := rfl

theorem argsArg_ok_other (s : Src) (n : Nat) (pos : List (Inline Span)) (named : List (Span × Inline Span))
    (expr : Inline Span) (q : Nat) (hne : ∀ id, expr ≠ .msg id none) :
    argsArg s n pos named (.ok expr q) = argsPos s n pos named expr q := by
  cases expr with
  | msg id attr =>
    cases attr with
    | none => exact absurd rfl (hne id)
    | some a => rfl
  | _ => rfl

section
variable {s : Src} {N n : Nat} {pos : List (Inline Span)} {named : List (Span × Inline Span)}

theorem argsNext_past {q : Nat} (hq : N < q) : Past N (argsNext s n pos named q) := by
  have := (skipBlank_after s q).le
  have := takeByteIf_le s (skipBlank s q) 44
  have := (skipBlank_after s (takeByteIf s (skipBlank s q) 44).1).le
  exact ((gspecs_all s n).callArgsLoop _ _ _).past (by omega)

theorem argsVal_past {id : Span} {r : R (Inline Span)} (h : Past N r) : Past N (argsVal s n pos named id r) := by
  rcases h.cases with ⟨v, q, rfl, hq⟩ | ⟨e, q, rfl, hq⟩ | ⟨m, rfl⟩ | rfl <;> try exact h
  exact argsNext_past hq

theorem argsPos_past {expr : Inline Span} {q : Nat} (hq : N < q) : Past N (argsPos s n pos named expr q) := by
  unfold argsPos
  split
  · cur_close
  · exact argsNext_past hq

theorem argsNamed_past {id : Span} {q1 : Nat} (hq : N < q1) : Past N (argsNamed s n pos named id q1) := by
  unfold argsNamed
  split
  · cur_close
  · have := (skipBlank_after s (q1 + 1)).le
    exact argsVal_past (((gspecs_all s n).inline true _).past (by omega))

theorem argsArg_past {r : R (Inline Span)} (h : Past N r) : Past N (argsArg s n pos named r) := by
  rcases h.cases with ⟨expr, q, rfl, hq⟩ | ⟨e, q, rfl, hq⟩ | ⟨m, rfl⟩ | rfl <;> try exact h
  have := (skipBlank_after s q).le
  by_cases hm : ∃ id, expr = .msg id none
  · obtain ⟨id, rfl⟩ := hm
    rw [argsArg_ok_msg]
    split
    · exact argsNamed_past (by omega)
    · exact argsPos_past (by omega)
  · rw [argsArg_ok_other _ _ _ _ _ _ (fun id e => hm ⟨id, e⟩)]
    exact argsPos_past hq

end

/-! ## `getInline` -/

theorem real_byte_facts : ∀ b : UInt8, isReal b = true →
    (b == 34) = false ∧ isDigit b = false ∧ (b == 36) = false ∧ (b == 123) = false ∧ b ≠ 35 ∧
      ((isAlpha b = true ∧ (b == 45) = false) ∨ b = 45) := by
  apply forall_uint8; decide +kernel

theorem getIdentifierUnchecked_not_err {s : Src} {p : Nat} {e : PErr} {q : Nat} :
    getIdentifierUnchecked s p ≠ .err e q := by
  unfold getIdentifierUnchecked
  simp only []
  split
  · intro h; cases h
  · split <;> intro h <;> cases h

/-- a number literal that starts with `-` reports a cursor behind the `-` -/
theorem getNumberLiteral_minus {s : Src} {p : Nat} (h : s[p]? = some 45) : CurGe (p + 1) (getNumberLiteral s p) := by
  unfold getNumberLiteral
  rcases takeByteIf_cases s p 45 with ⟨ht, _⟩ | ⟨_, hne⟩
  · rw [ht]
    simp only []
    rcases (skipDigits_ge s (p + 1)).cases with ⟨u, q, hr, hq⟩ | ⟨e, q, hr, hq⟩ | ⟨m, hr⟩ | hr <;> rw [hr] <;>
      simp only [] <;> try cur_close
    have l1 := takeByteIf_le s q 46
    split
    · rcases (skipDigits_ge s (takeByteIf s q 46).1).cases with ⟨u, q', hr', hq'⟩ | ⟨e, q', hr', hq'⟩ | ⟨m, hr'⟩ | hr' <;>
        rw [hr'] <;> simp only [] <;> try cur_close
      split <;> cur_close
    · split <;> cur_close
  · exact absurd h hne

/-- after the call arguments of a message reference / function call -/
theorem inlineCallee_past {s : Src} {N : Nat} {id : Span}
    {r : R (Option (List (Inline Span) × List (Span × Inline Span)))} (h : Past N r) :
    Past N (match r with
      | .ok (some (pos, named)) q1 =>
        if (!isCallee s id) = true then .err (mkErr .forbiddenCallee q1) q1 else .ok (.fn id pos named) q1
      | .ok none q1 =>
        (match getAttributeAccessor s q1 with
         | .ok attr q2 => R.ok (Inline.msg id attr) q2
         | .err e q2 => .err e q2
         | .panic m => .panic m
         | .fuel => .fuel)
      | .err e q1 => .err e q1
      | .panic m => .panic m
      | .fuel => .fuel) := by
  rcases h.cases with ⟨a, q, rfl, hq⟩ | ⟨e, q, rfl, hq⟩ | ⟨m, rfl⟩ | rfl <;> try exact h
  cases a with
  | some pn =>
    obtain ⟨pos, named⟩ := pn
    simp only []
    split <;> cur_close
  | none =>
    simp only []
    have := (getAttributeAccessor_ge s q).past (N := N) hq
    tail_close this

theorem inline_hash {s : Src} {N f : Nat} {ol : Bool} (hb : s[N]? = some 35) :
    getInline s (f + 1) ol N =
      if ol = true then .err (mkErr .expectedLiteral N) N else .err (mkErr .expectedInlineExpression N) N := by
  simp only [getInline, hb]
  rfl

theorem inline_past_real {s : Src} {N f : Nat} {ol : Bool} {b : UInt8} (hb : s[N]? = some b) (hr : isReal b = true) :
    Past N (getInline s (f + 1) ol N) := by
  obtain ⟨f34, fdig, f36, f123, _, hcase⟩ := real_byte_facts b hr
  simp only [getInline, hb, f34, fdig, f36, f123, Bool.false_eq_true, if_false, Bool.false_and]
  rcases hcase with ⟨ha, h45⟩ | rfl
  · simp only [h45, ha, if_true, Bool.false_eq_true, if_false]
    rcases (getIdentifierUnchecked_ge s (N + 1)).cases with ⟨id, q, hr, hq⟩ | ⟨e, q, hr, hq⟩ | ⟨m, hr⟩ | hr <;> rw [hr] <;>
      simp only [] <;> try cur_close
    exact inlineCallee_past (((gspecs_all s f).callArguments q).past (by omega))
  · simp only [show ((45 : UInt8) == 45) = true from rfl, if_true]
    split
    · rcases (getIdentifierUnchecked_ge s (N + 2)).cases with ⟨id, q, hr, hq⟩ | ⟨e, q, hr, hq⟩ | ⟨m, hr⟩ | hr <;> rw [hr] <;>
        simp only [] <;> try cur_close
      rcases (getAttributeAccessor_ge s q).cases with ⟨attr, q1, hr1, hq1⟩ | ⟨e, q1, hr1, hq1⟩ | ⟨m, hr1⟩ | hr1 <;>
        rw [hr1] <;> simp only [] <;> try cur_close
      have := ((gspecs_all s f).callArguments q1).past (N := N) (by omega)
      tail_close this
    · have := (getNumberLiteral_minus hb).past (N := N) (by omega)
      tail_close this

end FluentProofs.Parser
