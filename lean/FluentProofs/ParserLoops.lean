import FluentModel.Parser
/-!
# Loop-level facts about `parse` / `parseRuntime` (C03 accounting)

These depend only on the structure of the two entry loops, not on what the entry parsers accept.
-/
namespace FluentModel.Syntax

/-- spans of the Junk entries of a body, in order -/
def junkSpans : List (Entry Span) → List Span
  | [] => []
  | .junk c :: rest => c :: junkSpans rest
  | _ :: rest => junkSpans rest

def Entry.isJunk : Entry Span → Bool
  | .junk _ => true
  | _ => false

theorem junkSpans_append (a b : List (Entry Span)) : junkSpans (a ++ b) = junkSpans a ++ junkSpans b := by
  induction a with
  | nil => rfl
  | cons e rest ih => cases e <;> simp [junkSpans, ih]

theorem junkSpans_single_nonjunk (e : Entry Span) (h : e.isJunk = false) : junkSpans [e] = [] := by
  cases e <;> simp_all [junkSpans, Entry.isJunk]

/-- the byte at `b` looks like the start of an entry at the start of a line, or `b` is the end of input -/
def EndsAtEntryStart (s : Src) (b : Nat) : Prop :=
  s.size ≤ b ∨ (∃ c, s[b]? = some c ∧ (isAlpha c || c == 45 || c == 35) = true ∧ (b = 0 ∨ s[b - 1]? = some 10))

/-- accounting invariant between the accumulated body and error list -/
structure Acc (s : Src) (body : List (Entry Span)) (errors : List PErr) : Prop where
  /-- errors and Junk entries correspond one-to-one, in order; each error's slice is its Junk's span -/
  slices : errors.map (·.slice) = (junkSpans body).map (fun sp => some (sp.start, sp.stop))
  /-- every Junk span is a valid slice of the source (in range, on char boundaries) -/
  valid : ∀ sp ∈ junkSpans body, slice s sp.start sp.stop = some sp
  /-- the reported position is not beyond the Junk; the Junk ends at an entry start or at the end of input -/
  ends : ∀ e ∈ errors, ∃ a b, e.slice = some (a, b) ∧ e.posStart ≤ b ∧ EndsAtEntryStart s b

theorem Acc.nil (s : Src) : Acc s [] [] := ⟨rfl, by simp [junkSpans], by simp⟩

theorem Acc.push_nonjunk {s : Src} {body : List (Entry Span)} {errors : List PErr}
    (h : Acc s body errors) (e : Entry Span) (he : e.isJunk = false) : Acc s (body ++ [e]) errors := by
  refine ⟨?_, ?_, h.ends⟩
  · rw [junkSpans_append, junkSpans_single_nonjunk e he, List.append_nil]; exact h.slices
  · rw [junkSpans_append, junkSpans_single_nonjunk e he, List.append_nil]; exact h.valid

theorem slice_some_eq {s : Src} {a b : Nat} {sp : Span} (h : slice s a b = some sp) : sp = ⟨a, b⟩ := by
  unfold slice at h; split at h <;> simp_all

theorem clampErr_le (e : PErr) (q : Nat) : (clampErr e q).posStart ≤ q := by
  unfold clampErr; split <;> simp_all <;> omega

theorem skipToNextEntryStartGo_ends (s : Src) (n p : Nat) (hn : s.size - p ≤ n) :
    EndsAtEntryStart s (skipToNextEntryStartGo s n p) := by
  induction n generalizing p with
  | zero => left; simp [skipToNextEntryStartGo]; omega
  | succ n ih =>
    unfold skipToNextEntryStartGo
    split
    · rename_i hnone
      left
      have : ¬ p < s.size := by
        intro hlt
        simp [Array.getElem?_eq_getElem hlt] at hnone
      omega
    · rename_i b hb
      simp only
      split
      · rename_i hcond
        right
        refine ⟨b, hb, ?_, ?_⟩
        · simp only [Bool.and_eq_true] at hcond; exact hcond.2
        · simp only [Bool.and_eq_true, Bool.or_eq_true, beq_iff_eq] at hcond
          rcases hcond.1 with h | h
          · left; exact h
          · right; exact h
      · apply ih; omega

theorem skipToNextEntryStart_ends (s : Src) (entryStart p q : Nat)
    (h : skipToNextEntryStart s entryStart p = some q) : EndsAtEntryStart s q := by
  unfold skipToNextEntryStart at h
  simp only at h
  split at h
  · simp only [Option.some.injEq] at h
    subst h
    apply skipToNextEntryStartGo_ends; omega
  · cases h

theorem Acc.push_junk {s : Src} {body : List (Entry Span)} {errors : List PErr}
    (h : Acc s body errors) (e : PErr) (entryStart p q1 : Nat) (content : Span)
    (hq : skipToNextEntryStart s entryStart p = some q1)
    (hs : slice s entryStart q1 = some content) :
    Acc s (body ++ [.junk content]) (errors ++ [{ clampErr e q1 with slice := some (entryStart, q1) }]) := by
  have hc := slice_some_eq hs
  refine ⟨?_, ?_, ?_⟩
  · rw [junkSpans_append, List.map_append, List.map_append, h.slices]
    simp [junkSpans, hc]
  · rw [junkSpans_append]
    intro sp hsp
    rcases List.mem_append.1 hsp with h1 | h1
    · exact h.valid sp h1
    · simp [junkSpans] at h1; subst h1; rw [hc] at hs ⊢; exact hs
  · intro e' he'
    rcases List.mem_append.1 he' with h1 | h1
    · exact h.ends e' h1
    · simp at h1; subst h1
      exact ⟨entryStart, q1, rfl, clampErr_le e q1, skipToNextEntryStart_ends s entryStart p q1 hq⟩

end FluentModel.Syntax

namespace FluentModel.Syntax

theorem getEntry_not_junk (s : Src) (fuel p : Nat) (e : Entry Span) (q : Nat)
    (h : getEntry s fuel p = .ok e q) : e.isJunk = false := by
  unfold getEntry at h
  split at h
  · split at h
    · split at h
      · cases h; rfl
      · split at h
        · cases h; rfl
        · split at h
          · cases h; rfl
          · cases h
    all_goals cases h
  · split at h <;> first | (cases h; rfl) | cases h
  · split at h <;> first | (cases h; rfl) | cases h

/-- **C03 (full parser loop)**: the accounting invariant is preserved by the entry loop. -/
theorem parseLoop_acc (s : Src) (fuel : Nat) (n : Nat) (body : List (Entry Span)) (errors : List PErr)
    (lc : Option (List Span)) (lbc p : Nat) (h : Acc s body errors) :
    ∀ b e, parseLoop s fuel n body errors lc lbc p = .done (b, e) → Acc s b e := by
  induction n generalizing body errors lc lbc p with
  | zero => intro b e hd; simp [parseLoop] at hd
  | succ n ih =>
    intro b e hd
    unfold parseLoop at hd
    split at hd
    · -- p < size: one iteration
      simp only at hd
      -- case analysis on the pending comment and the entry result
      cases hlc : lc with
      | none =>
        simp only [hlc] at hd
        cases hr : getEntry s fuel p with
        | ok ent q =>
          simp only [hr] at hd
          have hnj := getEntry_not_junk s fuel p ent q hr
          cases ent with
          | comment c => exact ih _ _ _ _ _ h b e hd
          | junk c => simp [Entry.isJunk] at hnj
          | message m => exact ih _ _ _ _ _ (h.push_nonjunk _ rfl) b e hd
          | term t => exact ih _ _ _ _ _ (h.push_nonjunk _ rfl) b e hd
          | groupComment c => exact ih _ _ _ _ _ (h.push_nonjunk _ rfl) b e hd
          | resourceComment c => exact ih _ _ _ _ _ (h.push_nonjunk _ rfl) b e hd
        | err er q =>
          simp only [hr] at hd
          split at hd
          · cases hd
          · rename_i q1 hq1
            split at hd
            · rename_i content hcontent
              exact ih _ _ _ _ _ (h.push_junk er p q q1 content hq1 hcontent) b e hd
            · cases hd
        | panic m => simp [hr] at hd
        | fuel => simp [hr] at hd
      | some c =>
        simp only [hlc] at hd
        have hb1 : Acc s (body ++ [.comment c]) errors := h.push_nonjunk _ rfl
        cases hr : getEntry s fuel p with
        | ok ent q =>
          simp only [hr] at hd
          have hnj := getEntry_not_junk s fuel p ent q hr
          cases ent with
          | comment c' => exact ih _ _ _ _ _ hb1 b e hd
          | junk c' => simp [Entry.isJunk] at hnj
          | message m =>
            by_cases hl : lbc < 2
            · simp only [hl, if_true] at hd
              exact ih _ _ _ _ _ (h.push_nonjunk _ rfl) b e hd
            · simp only [hl, if_false] at hd
              exact ih _ _ _ _ _ (hb1.push_nonjunk _ rfl) b e hd
          | term t =>
            by_cases hl : lbc < 2
            · simp only [hl, if_true] at hd
              exact ih _ _ _ _ _ (h.push_nonjunk _ rfl) b e hd
            · simp only [hl, if_false] at hd
              exact ih _ _ _ _ _ (hb1.push_nonjunk _ rfl) b e hd
          | groupComment c' => exact ih _ _ _ _ _ (hb1.push_nonjunk _ rfl) b e hd
          | resourceComment c' => exact ih _ _ _ _ _ (hb1.push_nonjunk _ rfl) b e hd
        | err er q =>
          simp only [hr] at hd
          split at hd
          · cases hd
          · rename_i q1 hq1
            split at hd
            · rename_i content hcontent
              exact ih _ _ _ _ _ (hb1.push_junk er p q q1 content hq1 hcontent) b e hd
            · cases hd
        | panic m => simp [hr] at hd
        | fuel => simp [hr] at hd
    · -- end of input
      split at hd
      · cases hd; exact h.push_nonjunk _ rfl
      · cases hd; exact h

end FluentModel.Syntax

namespace FluentModel.Syntax

theorem getEntryRuntime_not_junk (s : Src) (fuel p : Nat) (e : Entry Span) (q : Nat)
    (h : getEntryRuntime s fuel p = .ok (some e) q) : e.isJunk = false := by
  unfold getEntryRuntime at h
  split at h
  · cases h
  · split at h <;> first | (cases h; rfl) | cases h
  · split at h <;> first | (cases h; rfl) | cases h

/-- **C03 (runtime parser loop)** -/
theorem parseRuntimeLoop_acc (s : Src) (fuel : Nat) (n : Nat) (body : List (Entry Span)) (errors : List PErr)
    (p : Nat) (h : Acc s body errors) :
    ∀ b e, parseRuntimeLoop s fuel n body errors p = .done (b, e) → Acc s b e := by
  induction n generalizing body errors p with
  | zero => intro b e hd; simp [parseRuntimeLoop] at hd
  | succ n ih =>
    intro b e hd
    unfold parseRuntimeLoop at hd
    split at hd
    · simp only at hd
      cases hr : getEntryRuntime s fuel p with
      | ok oe q =>
        simp only [hr] at hd
        cases oe with
        | none => exact ih _ _ _ h b e hd
        | some ent =>
          exact ih _ _ _ (h.push_nonjunk _ (getEntryRuntime_not_junk s fuel p ent q hr)) b e hd
      | err er q =>
        simp only [hr] at hd
        split at hd
        · cases hd
        · rename_i q1 hq1
          split at hd
          · rename_i content hcontent
            exact ih _ _ _ (h.push_junk er p q q1 content hq1 hcontent) b e hd
          · cases hd
      | panic m => simp [hr] at hd
      | fuel => simp [hr] at hd
    · cases hd; exact h

end FluentModel.Syntax
