import FluentProofs.SerializerOutDeep
import FluentProofs.SerializerOutComment
import FluentProofs.ParserValidEntry
import FluentProofs.SerializerFinal
/-!
# Serializer lemmas, part 20: from `ValidEntry` to the class `rtEntry` (C04, "parser output is in the class")

`parse_valid` (C03) says that every entry the parser produces satisfies the AST-visible syntax rules
(`validEntry`, over span trees).  Here: those rules imply the byte-tree predicates of the
`RoundTrippable` class on the resolved tree (`validIdent`, `validNumber`, `validStrBody`,
`isCalleeName`, `namesNodup`, `selShapeB`, `validKey`, exactly one default variant); together with
the pattern shape (`mlPattern`, a hypothesis here, lifted to every depth by `parse_deep`), the shape of
named-argument values and the comments (`parse_comments`), every non-junk entry of the tree returned
by `parse` is `rtEntry` (select expressions are allowed at every inline position of the class).
-/
namespace FluentProofs.Ser
open FluentModel FluentModel.Syntax FluentModel.Syntax.Ser FluentProofs.Parser

/-! ## leaves -/

theorem identBytesOk_eq (l : Bytes) : identBytesOk l = validIdent l := by
  cases l <;> rfl

theorem stripSign_eq (l : Bytes) : stripSign l = numBody l := by
  cases l with
  | nil => rfl
  | cons b r =>
    by_cases hb : b = 45
    · subst hb; rfl
    · have h1 : stripSign (b :: r) = b :: r := by simp [stripSign, hb]
      have h2 : numBody (b :: r) = b :: r := by
        unfold numBody; split
        · rename_i r' heq; cases heq; exact absurd rfl hb
        · rfl
      rw [h1, h2]

theorem validNumber_of (l : Bytes) (h : numBytesOk l = true) : validNumber l = true := by
  unfold numBytesOk at h
  unfold validNumber validNumBody
  rw [stripSign_eq] at h
  generalize numBody l = body at h ⊢
  simp only [Bool.and_eq_true] at h ⊢
  refine ⟨h.1, ?_⟩
  have h2 := h.2
  cases hr : body.dropWhile isDigit with
  | nil => rfl
  | cons c r2 =>
    rw [hr] at h2
    simp only [Bool.and_eq_true, beq_iff_eq] at h2
    obtain ⟨⟨rfl, h3⟩, h4⟩ := h2
    simp [h3, h4]

theorem validStrBody_of (l : Bytes) (h : strBytesOk l = true) : validStrBody l = true := by
  fun_induction strBytesOk l <;> simp_all [validStrBody]
  · rename_i h1 _
    rcases h1 with rfl | rfl <;> simp_all [validStrBody]

theorem isCalleeName_of {s : Src} {sp : Span} (h : calleeOk s sp = true) : isCalleeName (spanBytes s sp) = true := by
  simp only [calleeOk, Bool.and_eq_true] at h
  exact h.1

theorem identOk_valid {s : Src} {sp : Span} (h : identOk s sp = true) : validIdent (spanBytes s sp) = true := by
  rw [← identBytesOk_eq]; exact h

theorem optIdent_of {s : Src} {a : Option Span} (h : optIdentOk s a = true) : optIdent (a.map (spanBytes s)) = true := by
  cases a with
  | none => rfl
  | some a => exact identOk_valid h

theorem mapNamed_fst (f : Span → Bytes) (named : List (Span × Inline Span)) :
    (mapNamed f named).map Prod.fst = (named.map (·.1)).map f := by
  induction named with
  | nil => rfl
  | cons x xs ih => obtain ⟨n, v⟩ := x; simp [mapNamed, ih]

theorem nodup_of_namesDistinct (s : Src) : ∀ (l : List Span), namesDistinct s l = true → (l.map (spanBytes s)).Nodup := by
  intro l
  induction l with
  | nil => intro _; simp
  | cons n rest ih =>
    intro h
    simp only [namesDistinct, Bool.and_eq_true, Bool.not_eq_true', List.any_eq_false, beq_iff_eq] at h
    simp only [List.map_cons, List.nodup_cons, List.mem_map, not_exists, not_and]
    exact ⟨fun m hm => h.1 m hm, ih h.2⟩

theorem namesNodup_of {s : Src} {named : List (Span × Inline Span)} (h : namesDistinct s (named.map (·.1)) = true) :
    namesNodup (mapNamed (spanBytes s) named) = true := by
  simp only [namesNodup, decide_eq_true_eq, mapNamed_fst]
  exact nodup_of_namesDistinct s _ h

theorem validKey_of {s : Src} {k : VKey Span} (h : vkeyOk s k = true) : validKey (k.mapS (spanBytes s)) = true := by
  cases k with
  | ident n => exact identOk_valid h
  | num v => exact validNumber_of _ h

theorem filter_default_length (f : Span → Bytes) (vs : List (Variant Span)) :
    ((mapVariants f vs).filter isDefault).length = vs.countP variantDefault := by
  induction vs with
  | nil => rfl
  | cons v vs ih =>
    obtain ⟨k, val, d⟩ := v
    cases d <;> simp [mapVariants, Variant.mapS, isDefault, variantDefault, List.filter_cons, List.countP_cons, ih]

theorem isNamedValue_of {f : Span → Bytes} {v : Inline Span} (h : nvShape v) : isNamedValue (v.mapS f) = true := by
  cases v with
  | term id attr args => cases h
  | var id => cases h
  | placeable e => cases h
  | _ => simp [Inline.mapS, isNamedValue]

/-! ## the bridge, by structural induction over the span tree -/

/-- an inline expression that is not a term attribute, as the expression of a placeable -/
theorem rtExpr_inline_of {f : Span → Bytes} (i : Inline Span) (hnt : isTermAttr i = false)
    (hi : rtInline (i.mapS f) = true) : rtExpr (.inline (i.mapS f)) = true := by
  cases i with
  | term id attr args =>
    cases attr with
    | some a => simp [isTermAttr] at hnt
    | none =>
      cases args with
      | none => simpa [Inline.mapS, rtExpr] using hi
      | some pn => obtain ⟨pos, named⟩ := pn; simpa [Inline.mapS, rtExpr] using hi
  | _ => simpa [Inline.mapS, rtExpr] using hi

theorem selShapeB_of {f : Span → Bytes} (sel : Inline Span) (hs : selectorOk sel = true) :
    selShapeB (sel.mapS f) = true := by
  cases sel with
  | term id attr args =>
    cases attr with
    | none => simp [selectorOk] at hs
    | some a =>
      cases args with
      | none => simp [Inline.mapS, selShapeB]
      | some pn => obtain ⟨pos, named⟩ := pn; simp [Inline.mapS, selShapeB]
  | msg id attr => simp [selectorOk] at hs
  | placeable e => simp [selectorOk] at hs
  | _ => simp [Inline.mapS, selShapeB]

/-- the per-call pattern fact that is assumed: the pattern shape of the resolved pattern -/
abbrev PPs (s : Src) : List (PatElem Span) → Prop := fun els => mlPattern (mapPat (spanBytes s) els) = true

section bridge
variable {s : Src}

mutual
theorem bInline : ∀ (i : Inline Span), vInline s i = true → dInline (PPs s) nvShape i →
    rtInline (i.mapS (spanBytes s)) = true
  | .str v, hv, _ => validStrBody_of _ hv
  | .num v, hv, _ => validNumber_of _ hv
  | .var id, hv, _ => identOk_valid hv
  | .msg id attr, hv, _ => by
    simp only [vInline, Bool.and_eq_true] at hv
    simp only [Inline.mapS, rtInline, Bool.and_eq_true]
    exact ⟨identOk_valid hv.1, optIdent_of hv.2⟩
  | .term id attr none, hv, _ => by
    simp only [vInline, Bool.and_eq_true] at hv
    simp only [Inline.mapS, rtInline, Bool.and_eq_true]
    exact ⟨identOk_valid hv.1, optIdent_of hv.2⟩
  | .term id attr (some (pos, named)), hv, hd => by
    simp only [vInline, Bool.and_eq_true] at hv
    simp only [dInline] at hd
    simp only [Inline.mapS, rtInline, Bool.and_eq_true]
    exact ⟨⟨⟨⟨identOk_valid hv.1.1.1.1, optIdent_of hv.1.1.1.2⟩, bInl pos hv.1.1.2 hd.1⟩,
      bNamed named hv.1.2 hd.2⟩, namesNodup_of hv.2⟩
  | .fn id pos named, hv, hd => by
    simp only [vInline, Bool.and_eq_true] at hv
    simp only [dInline] at hd
    simp only [Inline.mapS, rtInline, Bool.and_eq_true]
    exact ⟨⟨⟨⟨identOk_valid hv.1.1.1.1, isCalleeName_of hv.1.1.1.2⟩, bInl pos hv.1.1.2 hd.1⟩,
      bNamed named hv.1.2 hd.2⟩, namesNodup_of hv.2⟩
  | .placeable e, hv, hd => by
    simp only [vInline] at hv
    simp only [dInline] at hd
    simp only [Inline.mapS, rtInline]
    exact bExpr e hv hd
theorem bInl : ∀ (xs : List (Inline Span)), vInl s xs = true → dInl (PPs s) nvShape xs →
    rtInl (mapInl (spanBytes s) xs) = true
  | [], _, _ => rfl
  | x :: xs, hv, hd => by
    simp only [vInl, Bool.and_eq_true] at hv
    simp only [dInl] at hd
    simp only [mapInl, rtInl, Bool.and_eq_true]
    exact ⟨bInline x hv.1 hd.1, bInl xs hv.2 hd.2⟩
theorem bNamed : ∀ (xs : List (Span × Inline Span)), vNamed s xs = true → dNamed (PPs s) nvShape xs →
    rtNamed (mapNamed (spanBytes s) xs) = true
  | [], _, _ => rfl
  | (n, x) :: xs, hv, hd => by
    simp only [vNamed, Bool.and_eq_true] at hv
    simp only [dNamed] at hd
    simp only [mapNamed, rtNamed, Bool.and_eq_true]
    exact ⟨⟨⟨identOk_valid hv.1.1, isNamedValue_of hd.1.1⟩, bInline x hv.1.2 hd.1.2⟩, bNamed xs hv.2 hd.2⟩
theorem bExpr : ∀ (e : Expr Span), vExpr s e = true → dExpr (PPs s) nvShape e →
    rtExpr (e.mapS (spanBytes s)) = true
  | .inline i, hv, hd => by
    simp only [vExpr, Bool.and_eq_true, Bool.not_eq_true'] at hv
    simp only [dExpr] at hd
    simp only [Expr.mapS]
    exact rtExpr_inline_of i hv.2 (bInline i hv.1 hd)
  | .select sel vs, hv, hd => by
    simp only [vExpr, Bool.and_eq_true, beq_iff_eq] at hv
    simp only [dExpr] at hd
    simp only [Expr.mapS, rtExpr, Bool.and_eq_true, decide_eq_true_eq]
    refine ⟨⟨⟨bInline sel hv.1.1.1 hd.1, selShapeB_of sel hv.1.1.2⟩, bVariants vs hv.1.2 hd.2⟩, ?_⟩
    rw [filter_default_length]; exact hv.2
theorem bVariants : ∀ (vs : List (Variant Span)), vVariants s vs = true → dVariants (PPs s) nvShape vs →
    rtVariants (mapVariants (spanBytes s) vs) = true
  | [], _, _ => rfl
  | v :: vs, hv, hd => by
    simp only [vVariants, Bool.and_eq_true] at hv
    simp only [dVariants] at hd
    simp only [mapVariants, rtVariants, Bool.and_eq_true]
    exact ⟨bVariant v hv.1 hd.1, bVariants vs hv.2 hd.2⟩
theorem bVariant : ∀ (v : Variant Span), vVariant s v = true → dVariant (PPs s) nvShape v →
    rtVariant (v.mapS (spanBytes s)) = true
  | .mk k val d, hv, hd => by
    simp only [vVariant, Bool.and_eq_true] at hv
    simp only [dVariant] at hd
    simp only [Variant.mapS, rtVariant, Bool.and_eq_true]
    exact ⟨⟨validKey_of hv.1.1, hd.1⟩, bElems val hv.2 hd.2⟩
theorem bElems : ∀ (es : List (PatElem Span)), vPat s es = true → dElems (PPs s) nvShape es →
    rtElems (mapPat (spanBytes s) es) = true
  | [], _, _ => rfl
  | .text v :: es, hv, hd => by
    simp only [vPat, Bool.and_eq_true] at hv
    simp only [dElems] at hd
    simp only [mapPat, PatElem.mapS, rtElems]
    exact bElems es hv.2 hd.2
  | .placeable e :: es, hv, hd => by
    simp only [vPat, vPatElem, Bool.and_eq_true] at hv
    simp only [dElems, dElem] at hd
    simp only [mapPat, PatElem.mapS, rtElems, Bool.and_eq_true]
    exact ⟨bExpr e hv.1 hd.1, bElems es hv.2 hd.2⟩
end

end bridge

/-! ## patterns, attributes, entries -/

theorem rtPattern_of {s : Src} (els : List (PatElem Span)) (hv : vPat s els = true) (hd : dPat (PPs s) nvShape els) :
    rtPattern (mapPat (spanBytes s) els) = true := by
  simp only [rtPattern, Bool.and_eq_true]
  exact ⟨hd.1, bElems els hv hd.2⟩

theorem rtAttrs_of {s : Src} (as : List (Attribute Span)) (hv : as.all (attrOk s) = true) (hd : dAttrs (PPs s) nvShape as) :
    (as.map (Attribute.mapS (spanBytes s))).all rtAttr = true := by
  simp only [List.all_eq_true, List.mem_map] at hv ⊢
  rintro _ ⟨a, ha, rfl⟩
  have h1 := hv a ha
  simp only [attrOk, patOk, Bool.and_eq_true] at h1
  simp only [rtAttr, Attribute.mapS, Bool.and_eq_true]
  exact ⟨identOk_valid h1.1, rtPattern_of _ h1.2.2 (hd a ha)⟩

theorem rtOptComment_of {s : Src} (o : Option (List Span)) (h : OptCmtOK s o) :
    rtOptComment (o.map (List.map (spanBytes s))) = true := by
  cases o with
  | none => rfl
  | some c => exact h c rfl

/-- one entry: valid, deeply of the pattern shape, comments of the class -/
theorem rtEntry_of {s : Src} (e : Entry Span) (hv : ValidEntry s e) (hd : dEntry (PPs s) nvShape e) (hc : cEntry s e) :
    (∃ c, e = .junk c) ∨ rtEntry (e.mapS (spanBytes s)) = true := by
  cases e with
  | junk c => exact Or.inl ⟨c, rfl⟩
  | comment c => exact Or.inr hc
  | groupComment c => exact Or.inr hc
  | resourceComment c => exact Or.inr hc
  | term t =>
    right
    simp only [ValidEntry, validEntry, patOk, Bool.and_eq_true] at hv
    simp only [Entry.mapS, rtEntry, Bool.and_eq_true]
    exact ⟨⟨⟨identOk_valid hv.1.1, rtPattern_of _ hv.1.2.2 hd.1⟩, rtAttrs_of _ hv.2 hd.2⟩, rtOptComment_of _ hc⟩
  | message m =>
    right
    simp only [ValidEntry, validEntry, Bool.and_eq_true] at hv
    simp only [Entry.mapS, rtEntry, Bool.and_eq_true]
    refine ⟨⟨⟨identOk_valid hv.1.1.1, ?_⟩, rtAttrs_of _ hv.1.2 hd.2⟩, rtOptComment_of _ hc⟩
    cases hval : m.value with
    | none =>
      have := hv.2
      simp only [hval, Option.isSome_none, Bool.false_or] at this
      simpa using this
    | some v =>
      have h1 := hv.1.1.2
      simp only [hval, patOk, Bool.and_eq_true] at h1
      simp only [Option.map_some]
      exact rtPattern_of v h1.2 (hd.1 v hval)

/-- **The parser's output is in the class.**  For a source without the byte 13, given the pattern shape of
everything `get_pattern` returns: every entry of the tree returned by `parse` is Junk or an entry of the class
`rtEntry`. -/
theorem rtEntry_of_parse (s : Src) (hcr : ∀ j : Nat, s[j]? ≠ some (13 : UInt8))
    (hpat : ∀ n p els q, getPattern s n p = .ok (some els) q → mlPattern (mapPat (spanBytes s) els) = true)
    (t : Resource Span) (errs : List PErr) (h : parse s = .done (t, errs)) :
    ∀ e ∈ t, (∃ c, e = .junk c) ∨ rtEntry (e.mapS (spanBytes s)) = true := by
  intro e he
  exact rtEntry_of e (parse_valid s t errs h e he)
    (parse_deep s (PPs s) nvShape hpat (getInline_literal_shape s) t errs h e he)
    (parse_comments s hcr t errs h e he)

/-- resource form: the resolved tree is `RoundTrippable withJunk`, provided — when Junk is to be serialised —
that there is no Junk entry -/
theorem roundTrippable_of_parse (s : Src) (hcr : ∀ j : Nat, s[j]? ≠ some (13 : UInt8))
    (hpat : ∀ n p els q, getPattern s n p = .ok (some els) q → mlPattern (mapPat (spanBytes s) els) = true)
    (t : Resource Span) (errs : List PErr) (h : parse s = .done (t, errs)) :
    ∀ withJunk : Bool, (withJunk = true → ∀ e ∈ t, ∀ c, e ≠ .junk c) →
      RoundTrippable withJunk (resolve s t) = true := by
  intro withJunk hnj
  simp only [RoundTrippable, resolve, List.all_eq_true, List.mem_map]
  rintro _ ⟨e, he, rfl⟩
  rcases rtEntry_of_parse s hcr hpat t errs h e he with ⟨c, hc⟩ | h'
  · subst hc
    cases withJunk with
    | true => exact absurd rfl (hnj rfl _ he c)
    | false => simp [Entry.mapS, isJunk]
  · simp [h']

end FluentProofs.Ser
