import FluentProofs.SerializerOutDeep
import FluentProofs.SerializerOutComment
import FluentProofs.ParserValidEntry
/-!
# Serializer lemmas, part 20: from `ValidEntry` to the class `rtEntry` (C04, "parser output is in the class")

`parse_valid` (C03) says that every entry the parser produces satisfies the AST-visible syntax rules
(`validEntry`, over span trees).  Here: those rules imply the byte-tree predicates of the
`RoundTrippable` class on the resolved tree (`validIdent`, `validNumber`, `validStrBody`,
`isCalleeName`, `namesNodup`, `validSelector`, `validKey`, exactly one default variant); together with
the pattern shape (`mlPattern`, a hypothesis here, lifted to every depth by `parse_deep`), the shape of
named-argument values and the comments (`parse_comments`), every non-junk entry of the tree returned
by `parse` that has no select expression inside a nested placeable (`noInnerSelectEntry`) is `rtEntry`.
-/
namespace FluentProofs.Ser
open FluentModel FluentModel.Syntax FluentModel.Syntax.Ser FluentProofs.Parser

/-! ## leaves -/

theorem identBytesOk_eq (l : Bytes) : identBytesOk l = validIdent l := by
  cases l <;> rfl

theorem stripSign_eq (l : Bytes) : stripSign l = numBody l := by
  cases l with
  | nil => rfl
  | cons b r =>
    by_cases hb : b = 45
    · subst hb; rfl
    · have h1 : stripSign (b :: r) = b :: r := by simp [stripSign, hb]
      have h2 : numBody (b :: r) = b :: r := by
        unfold numBody; split
        · rename_i r' heq; cases heq; exact absurd rfl hb
        · rfl
      rw [h1, h2]

theorem validNumber_of (l : Bytes) (h : numBytesOk l = true) : validNumber l = true := by
  unfold numBytesOk at h
  unfold validNumber validNumBody
  rw [stripSign_eq] at h
  generalize numBody l = body at h ⊢
  simp only [Bool.and_eq_true] at h ⊢
  refine ⟨h.1, ?_⟩
  have h2 := h.2
  cases hr : body.dropWhile isDigit with
  | nil => rfl
  | cons c r2 =>
    rw [hr] at h2
    simp only [Bool.and_eq_true, beq_iff_eq] at h2
    obtain ⟨⟨rfl, h3⟩, h4⟩ := h2
    simp [h3, h4]

theorem validStrBody_of (l : Bytes) (h : strBytesOk l = true) : validStrBody l = true := by
  fun_induction strBytesOk l <;> simp_all [validStrBody]
  · rename_i h1 _
    rcases h1 with rfl | rfl <;> simp_all [validStrBody]

theorem isCalleeName_of {s : Src} {sp : Span} (h : calleeOk s sp = true) : isCalleeName (spanBytes s sp) = true := by
  simp only [calleeOk, Bool.and_eq_true] at h
  exact h.1

theorem identOk_valid {s : Src} {sp : Span} (h : identOk s sp = true) : validIdent (spanBytes s sp) = true := by
  rw [← identBytesOk_eq]; exact h

theorem optIdent_of {s : Src} {a : Option Span} (h : optIdentOk s a = true) : optIdent (a.map (spanBytes s)) = true := by
  cases a with
  | none => rfl
  | some a => exact identOk_valid h

theorem mapNamed_fst (f : Span → Bytes) (named : List (Span × Inline Span)) :
    (mapNamed f named).map Prod.fst = (named.map (·.1)).map f := by
  induction named with
  | nil => rfl
  | cons x xs ih => obtain ⟨n, v⟩ := x; simp [mapNamed, ih]

theorem nodup_of_namesDistinct (s : Src) : ∀ (l : List Span), namesDistinct s l = true → (l.map (spanBytes s)).Nodup := by
  intro l
  induction l with
  | nil => intro _; simp
  | cons n rest ih =>
    intro h
    simp only [namesDistinct, Bool.and_eq_true, Bool.not_eq_true', List.any_eq_false, beq_iff_eq] at h
    simp only [List.map_cons, List.nodup_cons, List.mem_map, not_exists, not_and]
    exact ⟨fun m hm => h.1 m hm, ih h.2⟩

theorem namesNodup_of {s : Src} {named : List (Span × Inline Span)} (h : namesDistinct s (named.map (·.1)) = true) :
    namesNodup (mapNamed (spanBytes s) named) = true := by
  simp only [namesNodup, decide_eq_true_eq, mapNamed_fst]
  exact nodup_of_namesDistinct s _ h

theorem validKey_of {s : Src} {k : VKey Span} (h : vkeyOk s k = true) : validKey (k.mapS (spanBytes s)) = true := by
  cases k with
  | ident n => exact identOk_valid h
  | num v => exact validNumber_of _ h

theorem filter_default_length (f : Span → Bytes) (vs : List (Variant Span)) :
    ((mapVariants f vs).filter isDefault).length = vs.countP variantDefault := by
  induction vs with
  | nil => rfl
  | cons v vs ih =>
    obtain ⟨k, val, d⟩ := v
    cases d <;> simp [mapVariants, Variant.mapS, isDefault, variantDefault, List.filter_cons, List.countP_cons, ih]

theorem isNamedValue_of {f : Span → Bytes} {v : Inline Span} (h : nvShape v) : isNamedValue (v.mapS f) = true := by
  cases v with
  | term id attr args => cases h
  | var id => cases h
  | placeable e => cases h
  | _ => simp [Inline.mapS, isNamedValue]

/-! ## no select expression in a nested placeable -/

mutual
/-- no `{ { sel -> … } }`: a placeable at an inline position (call argument, nested placeable) never
contains a select expression — the one restriction of the class that the parser does not enforce -/
def nisInline : Inline Span → Bool
  | .fn _ pos named => nisInl pos && nisNamed named
  | .term _ _ (some (pos, named)) => nisInl pos && nisNamed named
  | .placeable (.inline e) => nisInline e
  | .placeable (.select _ _) => false
  | _ => true
def nisInl : List (Inline Span) → Bool
  | [] => true
  | x :: xs => nisInline x && nisInl xs
def nisNamed : List (Span × Inline Span) → Bool
  | [] => true
  | (_, x) :: xs => nisInline x && nisNamed xs
/-- an expression at a pattern position -/
def nisExpr : Expr Span → Bool
  | .inline e => nisInline e
  | .select sel vs => nisInline sel && nisVariants vs
def nisVariants : List (Variant Span) → Bool
  | [] => true
  | v :: vs => nisVariant v && nisVariants vs
def nisVariant : Variant Span → Bool
  | .mk _ val _ => nisElems val
def nisElems : List (PatElem Span) → Bool
  | [] => true
  | e :: es => nisElem e && nisElems es
def nisElem : PatElem Span → Bool
  | .text _ => true
  | .placeable e => nisExpr e
end

def noInnerSelectEntry : Entry Span → Bool
  | .message m =>
    (match m.value with
     | some v => nisElems v
     | none => true) && m.attributes.all (fun a => nisElems a.value)
  | .term t => nisElems t.value && t.attributes.all (fun a => nisElems a.value)
  | _ => true

/-! ## the bridge, by structural induction over the span tree -/

/-- **the only place where the restriction "no select in a nested placeable" is used**: the expression
of a placeable at an inline position -/
theorem validInner_of {s : Src} (e : Expr Span) (hn : nisInline (.placeable e) = true) (hv : vExpr s e = true)
    (ih : ∀ i, e = .inline i → validInline (i.mapS (spanBytes s)) = true) :
    validInner (e.mapS (spanBytes s)) = true := by
  cases e with
  | select sel vs => simp [nisInline] at hn
  | inline i =>
    have hi := ih i rfl
    simp only [vExpr, Bool.and_eq_true, Bool.not_eq_true'] at hv
    cases i with
    | term id attr args =>
      cases attr with
      | some a => simp [isTermAttr] at hv
      | none =>
        cases args with
        | none => simpa [Expr.mapS, Inline.mapS, validInner] using hi
        | some pn => obtain ⟨pos, named⟩ := pn; simpa [Expr.mapS, Inline.mapS, validInner] using hi
    | _ => simpa [Expr.mapS, Inline.mapS, validInner] using hi

/-- the inline expression of a top-level placeable -/
theorem validInner_inline_of {s : Src} (i : Inline Span) (hv : vExpr s (.inline i) = true)
    (hi : validInline (i.mapS (spanBytes s)) = true) : validInner (.inline (i.mapS (spanBytes s))) = true := by
  simp only [vExpr, Bool.and_eq_true, Bool.not_eq_true'] at hv
  cases i with
  | term id attr args =>
    cases attr with
    | some a => simp [isTermAttr] at hv
    | none =>
      cases args with
      | none => simpa [Inline.mapS, validInner] using hi
      | some pn => obtain ⟨pos, named⟩ := pn; simpa [Inline.mapS, validInner] using hi
  | _ => simpa [Inline.mapS, validInner] using hi

theorem validSelector_of {f : Span → Bytes} (sel : Inline Span) (hs : selectorOk sel = true)
    (hv : validInline (sel.mapS f) = true) : validSelector (sel.mapS f) = true := by
  simp only [validSelector, hv, Bool.true_and]
  cases sel with
  | term id attr args =>
    cases attr with
    | none => simp [selectorOk] at hs
    | some a =>
      cases args with
      | none => simp [Inline.mapS]
      | some pn => obtain ⟨pos, named⟩ := pn; simp [Inline.mapS]
  | msg id attr => simp [selectorOk] at hs
  | placeable e => simp [selectorOk] at hs
  | _ => simp [Inline.mapS]

/-- the per-call pattern fact that is assumed: the pattern shape of the resolved pattern -/
abbrev PPs (s : Src) : List (PatElem Span) → Prop := fun els => mlPattern (mapPat (spanBytes s) els) = true

section bridge
variable {s : Src}


mutual
theorem bInline : ∀ (i : Inline Span), vInline s i = true → dInline (PPs s) nvShape i →
    nisInline i = true → validInline (i.mapS (spanBytes s)) = true
  | .str v, hv, _, _ => validStrBody_of _ hv
  | .num v, hv, _, _ => validNumber_of _ hv
  | .var id, hv, _, _ => identOk_valid hv
  | .msg id attr, hv, _, _ => by
    simp only [vInline, Bool.and_eq_true] at hv
    simp only [Inline.mapS, validInline, Bool.and_eq_true]
    exact ⟨identOk_valid hv.1, optIdent_of hv.2⟩
  | .term id attr none, hv, _, _ => by
    simp only [vInline, Bool.and_eq_true] at hv
    simp only [Inline.mapS, validInline, Bool.and_eq_true]
    exact ⟨identOk_valid hv.1, optIdent_of hv.2⟩
  | .term id attr (some (pos, named)), hv, hd, hn => by
    simp only [vInline, Bool.and_eq_true] at hv
    simp only [dInline] at hd
    simp only [nisInline, Bool.and_eq_true] at hn
    simp only [Inline.mapS, validInline, Bool.and_eq_true]
    exact ⟨⟨⟨⟨identOk_valid hv.1.1.1.1, optIdent_of hv.1.1.1.2⟩, bInl pos hv.1.1.2 hd.1 hn.1⟩,
      bNamed named hv.1.2 hd.2 hn.2⟩, namesNodup_of hv.2⟩
  | .fn id pos named, hv, hd, hn => by
    simp only [vInline, Bool.and_eq_true] at hv
    simp only [dInline] at hd
    simp only [nisInline, Bool.and_eq_true] at hn
    simp only [Inline.mapS, validInline, Bool.and_eq_true]
    exact ⟨⟨⟨⟨identOk_valid hv.1.1.1.1, isCalleeName_of hv.1.1.1.2⟩, bInl pos hv.1.1.2 hd.1 hn.1⟩,
      bNamed named hv.1.2 hd.2 hn.2⟩, namesNodup_of hv.2⟩
  | .placeable (.inline i), hv, hd, hn => by
    simp only [vInline] at hv
    simp only [Inline.mapS, validInline]
    refine validInner_of _ hn hv ?_
    intro i' hi'
    cases hi'
    simp only [vExpr, Bool.and_eq_true] at hv
    simp only [dInline, dExpr] at hd
    simp only [nisInline] at hn
    exact bInline i hv.1 hd hn
  | .placeable (.select sel vs), _, _, hn => by simp [nisInline] at hn
theorem bInl : ∀ (xs : List (Inline Span)), vInl s xs = true → dInl (PPs s) nvShape xs →
    nisInl xs = true → validInl (mapInl (spanBytes s) xs) = true
  | [], _, _, _ => rfl
  | x :: xs, hv, hd, hn => by
    simp only [vInl, Bool.and_eq_true] at hv
    simp only [dInl] at hd
    simp only [nisInl, Bool.and_eq_true] at hn
    simp only [mapInl, validInl, Bool.and_eq_true]
    exact ⟨bInline x hv.1 hd.1 hn.1, bInl xs hv.2 hd.2 hn.2⟩
theorem bNamed : ∀ (xs : List (Span × Inline Span)), vNamed s xs = true →
    dNamed (PPs s) nvShape xs →
    nisNamed xs = true → validNamed (mapNamed (spanBytes s) xs) = true
  | [], _, _, _ => rfl
  | (n, x) :: xs, hv, hd, hn => by
    simp only [vNamed, Bool.and_eq_true] at hv
    simp only [dNamed] at hd
    simp only [nisNamed, Bool.and_eq_true] at hn
    simp only [mapNamed, validNamed, Bool.and_eq_true]
    exact ⟨⟨⟨identOk_valid hv.1.1, isNamedValue_of hd.1.1⟩, bInline x hv.1.2 hd.1.2 hn.1⟩, bNamed xs hv.2 hd.2 hn.2⟩
theorem bExpr : ∀ (e : Expr Span), vExpr s e = true → dExpr (PPs s) nvShape e →
    nisExpr e = true → rtExpr (e.mapS (spanBytes s)) = true
  | .inline i, hv, hd, hn => by
    have hv' := hv
    simp only [vExpr, Bool.and_eq_true] at hv'
    simp only [dExpr] at hd
    simp only [nisExpr] at hn
    simp only [Expr.mapS, rtExpr]
    exact validInner_inline_of i hv (bInline i hv'.1 hd hn)
  | .select sel vs, hv, hd, hn => by
    simp only [vExpr, Bool.and_eq_true, beq_iff_eq] at hv
    simp only [dExpr] at hd
    simp only [nisExpr, Bool.and_eq_true] at hn
    simp only [Expr.mapS, rtExpr, Bool.and_eq_true, decide_eq_true_eq]
    refine ⟨⟨validSelector_of sel hv.1.1.2 (bInline sel hv.1.1.1 hd.1 hn.1), bVariants vs hv.1.2 hd.2 hn.2⟩, ?_⟩
    rw [filter_default_length]; exact hv.2
theorem bVariants : ∀ (vs : List (Variant Span)), vVariants s vs = true →
    dVariants (PPs s) nvShape vs →
    nisVariants vs = true → rtVariants (mapVariants (spanBytes s) vs) = true
  | [], _, _, _ => rfl
  | v :: vs, hv, hd, hn => by
    simp only [vVariants, Bool.and_eq_true] at hv
    simp only [dVariants] at hd
    simp only [nisVariants, Bool.and_eq_true] at hn
    simp only [mapVariants, rtVariants, Bool.and_eq_true]
    exact ⟨bVariant v hv.1 hd.1 hn.1, bVariants vs hv.2 hd.2 hn.2⟩
theorem bVariant : ∀ (v : Variant Span), vVariant s v = true →
    dVariant (PPs s) nvShape v →
    nisVariant v = true → rtVariant (v.mapS (spanBytes s)) = true
  | .mk k val d, hv, hd, hn => by
    simp only [vVariant, Bool.and_eq_true] at hv
    simp only [dVariant] at hd
    simp only [nisVariant] at hn
    simp only [Variant.mapS, rtVariant, Bool.and_eq_true]
    exact ⟨⟨validKey_of hv.1.1, hd.1⟩, bElems val hv.2 hd.2 hn⟩
theorem bElems : ∀ (es : List (PatElem Span)), vPat s es = true →
    dElems (PPs s) nvShape es →
    nisElems es = true → rtElems (mapPat (spanBytes s) es) = true
  | [], _, _, _ => rfl
  | .text v :: es, hv, hd, hn => by
    simp only [vPat, Bool.and_eq_true] at hv
    simp only [dElems] at hd
    simp only [nisElems, Bool.and_eq_true] at hn
    simp only [mapPat, PatElem.mapS, rtElems]
    exact bElems es hv.2 hd.2 hn.2
  | .placeable e :: es, hv, hd, hn => by
    simp only [vPat, vPatElem, Bool.and_eq_true] at hv
    simp only [dElems, dElem] at hd
    simp only [nisElems, nisElem, Bool.and_eq_true] at hn
    simp only [mapPat, PatElem.mapS, rtElems, Bool.and_eq_true]
    exact ⟨bExpr e hv.1 hd.1 hn.1, bElems es hv.2 hd.2 hn.2⟩
end

end bridge

/-! ## patterns, attributes, entries -/

theorem rtPattern_of {s : Src} (els : List (PatElem Span)) (hv : vPat s els = true) (hd : dPat (PPs s) nvShape els)
    (hn : nisElems els = true) : rtPattern (mapPat (spanBytes s) els) = true := by
  simp only [rtPattern, Bool.and_eq_true]
  exact ⟨hd.1, bElems els hv hd.2 hn⟩

theorem rtAttrs_of {s : Src} (as : List (Attribute Span)) (hv : as.all (attrOk s) = true) (hd : dAttrs (PPs s) nvShape as)
    (hn : as.all (fun a => nisElems a.value) = true) :
    (as.map (Attribute.mapS (spanBytes s))).all rtAttr = true := by
  simp only [List.all_eq_true, List.mem_map] at hv hn ⊢
  rintro _ ⟨a, ha, rfl⟩
  have h1 := hv a ha
  simp only [attrOk, patOk, Bool.and_eq_true] at h1
  simp only [rtAttr, Attribute.mapS, Bool.and_eq_true]
  exact ⟨identOk_valid h1.1, rtPattern_of _ h1.2.2 (hd a ha) (hn a ha)⟩

theorem rtOptComment_of {s : Src} (o : Option (List Span)) (h : OptCmtOK s o) :
    rtOptComment (o.map (List.map (spanBytes s))) = true := by
  cases o with
  | none => rfl
  | some c => exact h c rfl

/-- one entry: valid, deeply of the pattern shape, comments of the class, no inner select -/
theorem rtEntry_of {s : Src} (e : Entry Span) (hv : ValidEntry s e) (hd : dEntry (PPs s) nvShape e) (hc : cEntry s e)
    (hn : noInnerSelectEntry e = true) : (∃ c, e = .junk c) ∨ rtEntry (e.mapS (spanBytes s)) = true := by
  cases e with
  | junk c => exact Or.inl ⟨c, rfl⟩
  | comment c => exact Or.inr hc
  | groupComment c => exact Or.inr hc
  | resourceComment c => exact Or.inr hc
  | term t =>
    right
    simp only [ValidEntry, validEntry, patOk, Bool.and_eq_true] at hv
    simp only [noInnerSelectEntry, Bool.and_eq_true] at hn
    simp only [Entry.mapS, rtEntry, Bool.and_eq_true]
    exact ⟨⟨⟨identOk_valid hv.1.1, rtPattern_of _ hv.1.2.2 hd.1 hn.1⟩, rtAttrs_of _ hv.2 hd.2 hn.2⟩,
      rtOptComment_of _ hc⟩
  | message m =>
    right
    simp only [ValidEntry, validEntry, Bool.and_eq_true] at hv
    simp only [noInnerSelectEntry, Bool.and_eq_true] at hn
    simp only [Entry.mapS, rtEntry, Bool.and_eq_true]
    refine ⟨⟨⟨identOk_valid hv.1.1.1, ?_⟩, rtAttrs_of _ hv.1.2 hd.2 hn.2⟩, rtOptComment_of _ hc⟩
    cases hval : m.value with
    | none =>
      have := hv.2
      simp only [hval, Option.isSome_none, Bool.false_or] at this
      simpa using this
    | some v =>
      have h1 := hv.1.1.2
      have h2 := hn.1
      simp only [hval, patOk, Bool.and_eq_true] at h1 h2
      simp only [Option.map_some]
      exact rtPattern_of v h1.2 (hd.1 v hval) h2

/-- **The parser's output is in the class.**  For a source without the byte 13, given the pattern shape of
everything `get_pattern` returns: every entry of the tree returned by `parse` is Junk, or — unless it
contains a select expression inside a nested placeable — an entry of the class `rtEntry`. -/
theorem rtEntry_of_parse (s : Src) (hcr : ∀ j : Nat, s[j]? ≠ some (13 : UInt8))
    (hpat : ∀ n p els q, getPattern s n p = .ok (some els) q → mlPattern (mapPat (spanBytes s) els) = true)
    (t : Resource Span) (errs : List PErr) (h : parse s = .done (t, errs)) :
    ∀ e ∈ t, (∃ c, e = .junk c) ∨ (noInnerSelectEntry e = true → rtEntry (e.mapS (spanBytes s)) = true) := by
  intro e he
  have hv := parse_valid s t errs h e he
  have hd := parse_deep s (PPs s) nvShape hpat (getInline_literal_shape s) t errs h e he
  have hc := parse_comments s hcr t errs h e he
  by_cases hj : ∃ c, e = .junk c
  · exact Or.inl hj
  · right
    intro hn
    rcases rtEntry_of e hv hd hc hn with h' | h'
    · exact absurd h' hj
    · exact h'

/-- resource form: if no entry is Junk and no entry has a select inside a nested placeable, the resolved tree
is `RoundTrippable` -/
theorem roundTrippable_of_parse (s : Src) (hcr : ∀ j : Nat, s[j]? ≠ some (13 : UInt8))
    (hpat : ∀ n p els q, getPattern s n p = .ok (some els) q → mlPattern (mapPat (spanBytes s) els) = true)
    (t : Resource Span) (errs : List PErr) (h : parse s = .done (t, errs))
    (hnj : ∀ e ∈ t, ∀ c, e ≠ .junk c) (hn : ∀ e ∈ t, noInnerSelectEntry e = true) :
    ∀ e ∈ resolve s t, rtEntry e = true := by
  intro e he
  simp only [resolve, List.mem_map] at he
  obtain ⟨e', he', rfl⟩ := he
  rcases rtEntry_of_parse s hcr hpat t errs h e' he' with ⟨c, hc⟩ | h'
  · exact absurd hc (hnj e' he' c)
  · exact h' (hn e' he')

end FluentProofs.Ser
