import FluentProofs.ParserLocalLoop
import FluentProofs.ParserLocalShiftEntry
import FluentProofs.ParserLocalBarEntry
import FluentProofs.ParserLocalPreLoop
/-!
# Locality of the parser (C03, containment sentence): assembly

From the three lemma families (`ParserLocalShift*`, `ParserLocalBar*`, `ParserLocalPre*`) and the loop facts of
`ParserLocalLoop`:

* `parse_suffix` / `parseRuntime_suffix` — **suffix independence**: for ANY bytes `P` that are empty or end with a
  line feed and any `B` that starts with an entry head, the parse of `P ++ B` ends with exactly the parse of `B`, moved
  by `|P|` (full parser: a comment pending at the end of `P` is attached to `B`'s first entry, `attachO`).
* `parse_prefix` / `parseRuntime_prefix` — **prefix independence**: an error-free `A` (empty or ending with a line feed)
  yields the same entries in front of every continuation that is empty or starts with a letter or `-`.
* `parse_containment` / `parseRuntime_containment` — both together, for `A ++ X ++ B` with `X` arbitrary damage.
-/
namespace FluentProofs.Parser
open FluentModel.Syntax

/-! ## sources put together from pieces -/

/-- `B` starts with an entry head at column 0 (`Bar B 0 E`: a letter or `-`, then identifier bytes and spaces up
to an `=` at `E`) -/
def Head (B : Src) : Prop := ∃ E, Bar B 0 E

/-- `Z` is empty or starts with a letter or `-` -/
def RealOrEmpty (Z : Src) : Prop := Z.size = 0 ∨ ∃ b, Z[0]? = some b ∧ isReal b = true

/-- `Z` is empty or starts with a `stopByte`: any byte except a space, LF, CR, `#`, `.`, `{` and the UTF-8
continuation bytes (a space / line break / `.` / `{` at column 0 would continue the previous entry, `#` merges with a
preceding comment) -/
def StopOrEmpty (Z : Src) : Prop := Z.size = 0 ∨ ∃ b, Z[0]? = some b ∧ stopByte b = true

theorem RealOrEmpty.stopOrEmpty {Z : Src} (h : RealOrEmpty Z) : StopOrEmpty Z := by
  rcases h with h | ⟨b, hb, hr⟩
  · exact Or.inl h
  · exact Or.inr ⟨b, hb, stopByte_of_isReal b hr⟩

/-- `P` is empty or ends with a line feed -/
abbrev EndsNl (P : Src) : Prop := LS P P.size

theorem isReal_lt' : ∀ b : UInt8, isReal b = true → b < 128 := by
  apply forall_uint8; decide +kernel

theorem isReal_lt {b : UInt8} (h : isReal b = true) : b < 128 := isReal_lt' b h

theorem Head.realOrEmpty {B : Src} (h : Head B) : RealOrEmpty B := by
  obtain ⟨E, hb⟩ := h
  exact Or.inr hb.real

theorem shift_of_append {P B : Src} (hP : EndsNl P) (hB : RealOrEmpty B) : Shift P.size B (P ++ B) := by
  refine ⟨?_, ?_, ?_, ?_⟩
  · intro i
    rw [Array.getElem?_append_right (by omega)]
    congr 1; omega
  · rw [Array.size_append]; omega
  · unfold isBoundary
    rcases hB with h0 | ⟨b, hb, hr⟩
    · have : (P ++ B).size = P.size := by rw [Array.size_append]; omega
      simp [this]
    · have : (P ++ B)[P.size]? = some b := by
        rw [Array.getElem?_append_right (Nat.le_refl _)]; simpa using hb
      simp only [this, Bool.or_eq_true]
      right
      exact ascii_not_cont b (isReal_lt hr)
  · rcases hP with h0 | h
    · exact Or.inl h0
    · by_cases h0 : P.size = 0
      · exact Or.inl h0
      · right
        rw [Array.getElem?_append_left (by omega)]; exact h

theorem bar_of_append {P B : Src} (hP : EndsNl P) {E : Nat} (hB : Bar B 0 E) : Bar (P ++ B) P.size (P.size + E) := by
  have hget : ∀ i, (P ++ B)[P.size + i]? = B[i]? := by
    intro i
    rw [Array.getElem?_append_right (by omega)]
    congr 1; omega
  refine ⟨?_, by have := hB.lt; omega, ?_, ?_, ?_⟩
  · rcases hP with h0 | h
    · exact Or.inl h0
    · by_cases h0 : P.size = 0
      · exact Or.inl h0
      · right
        rw [Array.getElem?_append_left (by omega)]; exact h
  · have := hget 0; rw [Nat.add_zero] at this; rw [this]; exact hB.real
  · intro i h1 h2
    have := hget (i - P.size)
    rw [show P.size + (i - P.size) = i by omega] at this
    rw [this]
    exact hB.head (i - P.size) (by omega) (by omega)
  · rw [hget]; exact hB.eq

theorem pre_of_append {A Z : Src} (hA : EndsNl A) (hZ : StopOrEmpty Z) : Pre A.size A (A ++ Z) := by
  refine ⟨rfl, ?_, hA, ?_⟩
  · intro i hi
    exact Array.getElem?_append_left hi
  · rcases hZ with h0 | ⟨b, hb, hr⟩
    · left; rw [Array.size_append]; omega
    · right
      refine ⟨b, ?_, hr⟩
      rw [Array.getElem?_append_right (Nat.le_refl _)]; simpa using hb

theorem exprFuel_append_left (P B : Src) : exprFuel B ≤ exprFuel (P ++ B) := by
  unfold exprFuel; rw [Array.size_append]; omega

theorem exprFuel_append_right (A Z : Src) : exprFuel A ≤ exprFuel (A ++ Z) := by
  unfold exprFuel; rw [Array.size_append]; omega

/-- at a letter or `-` the blank-block skipper does not move -/
theorem skipBlankBlock_real {s : Src} {p : Nat} {b : UInt8} (h : s[p]? = some b) (hr : isReal b = true) :
    skipBlankBlock s p = (p, 0) := by
  have hne : s[p]? ≠ some 32 := by rw [h]; intro h'; cases h'; revert hr; decide
  have hlt := get_lt h
  unfold skipBlankBlock
  rw [show s.size - p + 1 = (s.size - p) + 1 by omega]
  simp only [skipBlankBlockGo, skipBlankInline_of_ne hne]
  have : skipEol s p = none := by
    unfold skipEol
    rw [h]
    split
    · rename_i h'; cases h'; exact absurd hr (by decide)
    · rename_i h'; cases h'; exact absurd hr (by decide)
    · rfl
  simp [this, hlt]

/-- the start-up of `parse` on a source with a barrier at `n` stays at or before `n` -/
theorem start_le_bar {s : Src} {n E : Nat} (hb : Bar s n E) : (skipBlankBlock s 0).1 ≤ n := by
  have h := skipBlankBlock_noRS s 0
  apply Classical.byContradiction
  intro hgt
  exact h n (Nat.zero_le _) (by omega) ⟨hb.ls, hb.real⟩

/-! ## the seam: the loop at the start of `B` inside `P ++ B` -/

theorem parse_head_eq {B : Src} (hB : Head B) :
    parse B = parseLoop B (exprFuel B) (B.size + 1) [] [] none 0 0 := by
  obtain ⟨E, hb⟩ := hB
  obtain ⟨b, h0, hr⟩ := hb.real
  unfold parse
  simp only [skipBlankBlock_real h0 hr]

theorem parseRuntime_head_eq {B : Src} (hB : Head B) :
    parseRuntime B = parseRuntimeLoop B (exprFuel B) (B.size + 1) [] [] 0 := by
  obtain ⟨E, hb⟩ := hB
  obtain ⟨b, h0, hr⟩ := hb.real
  unfold parseRuntime
  simp only [skipBlankBlock_real h0 hr]

/-- **seam lemma (full parser)**: once the loop on `P ++ B` stands at `|P|`, what it produces from there is the
parse of `B` moved by `|P|`, the pending comment (if any) attached to / put before `B`'s first entry. -/
theorem parseLoop_seam {P B : Src} (hP : EndsNl P) (hB : Head B) {F N : Nat} (hF : exprFuel B ≤ F)
    {body : List (Entry Span)} {errs : List PErr} {lc : Option (List Span)} {cnt : Nat}
    {r rB : List (Entry Span) × List PErr}
    (h : parseLoop (P ++ B) F N body errs lc cnt P.size = .done r) (hpB : parse B = .done rB) :
    r = (body ++ attachO lc cnt (rB.1.map (shEntry P.size)), errs ++ rB.2.map (shErr P.size)) := by
  have hsh := shift_of_append hP hB.realOrEmpty
  rw [parse_head_eq hB] at hpB
  have hB2 := parseLoop_shift hsh hF (B.size + 1) (max N (B.size + 1)) (Nat.le_max_right _ _) [] [] none 0 0 rB hpB
  simp only [List.map_nil, Option.map_none, Nat.zero_add] at hB2
  rw [parseLoop_acc_eq] at h
  obtain ⟨r₀, h₀, rfl⟩ := mapD_eq_done h
  obtain ⟨E, hb⟩ := hB
  have hbar := bar_of_append hP hb
  obtain ⟨b, hbn, hbr⟩ := hbar.real
  cases lc with
  | none =>
    rw [parseLoop_none_cnt] at h₀
    have h₁ := parseLoop_mono_N _ _ (Nat.le_max_left N (B.size + 1)) h₀
    rw [h₁] at hB2
    cases hB2
    rfl
  | some c =>
    have h35 : (P ++ B)[P.size]? ≠ some 35 := by
      rw [hbn]; intro h'; cases h'; revert hbr; decide
    rw [parseLoop_pending (get_lt hbn) h35] at h₀
    obtain ⟨r₁, h₁, rfl⟩ := mapD_eq_done h₀
    have h₂ := parseLoop_mono_N _ _ (Nat.le_max_left N (B.size + 1)) h₁
    rw [h₂] at hB2
    cases hB2
    rfl

/-- **seam lemma (runtime parser)** -/
theorem parseRuntimeLoop_seam {P B : Src} (hP : EndsNl P) (hB : Head B) {F N : Nat} (hF : exprFuel B ≤ F)
    {body : List (Entry Span)} {errs : List PErr} {r rB : List (Entry Span) × List PErr}
    (h : parseRuntimeLoop (P ++ B) F N body errs P.size = .done r) (hpB : parseRuntime B = .done rB) :
    r = (body ++ rB.1.map (shEntry P.size), errs ++ rB.2.map (shErr P.size)) := by
  have hsh := shift_of_append hP hB.realOrEmpty
  rw [parseRuntime_head_eq hB] at hpB
  have hB2 := parseRuntimeLoop_shift hsh hF (B.size + 1) (max N (B.size + 1)) (Nat.le_max_right _ _) [] [] 0 rB hpB
  simp only [List.map_nil, Nat.zero_add] at hB2
  rw [parseRuntimeLoop_acc_eq] at h
  obtain ⟨r₀, h₀, rfl⟩ := mapD_eq_done h
  have h₁ := parseRuntimeLoop_mono_N _ _ (Nat.le_max_left N (B.size + 1)) h₀
  rw [h₁] at hB2
  cases hB2
  rfl

/-! ## (3) suffix independence -/

/-- **suffix independence, full parser.**  `P` is ANY byte string that is empty or ends with a line feed, `B` starts
with an entry head.  Then the parse of `P ++ B` is: some entries / errors produced while the cursor was inside
`P` (their Junk spans and error slices end at or before `|P|`), followed by exactly the parse of `B` with every
position moved by `|P|` — except that a comment pending at the end of `P` is attached to (or put in front of) `B`'s
first entry (`attachO`). -/
theorem parse_suffix {P B : Src} (hP : EndsNl P) (hB : Head B) {r rB : Resource Span × List PErr}
    (h : parse (P ++ B) = .done r) (hpB : parse B = .done rB) :
    ∃ pre preErrs lc cnt,
      r = (pre ++ attachO lc cnt (rB.1.map (shEntry P.size)), preErrs ++ rB.2.map (shErr P.size)) ∧
      (∀ sp ∈ junkSpans pre, sp.stop ≤ P.size) ∧
      (∀ e ∈ preErrs, ∃ a b, e.slice = some (a, b) ∧ b ≤ P.size) := by
  obtain ⟨E, hb⟩ := hB
  have hbar := bar_of_append hP hb
  unfold parse at h
  obtain ⟨N', mid, errsMid, lc', cnt', _, h', hj, he⟩ :=
    parseLoop_reach_loc hbar _ _ [] [] none 0 _ r (start_le_bar hbar) h
  have := parseLoop_seam hP ⟨E, hb⟩ (exprFuel_append_left P B) h' hpB
  refine ⟨mid, errsMid, lc', cnt', by simpa using this, fun sp hsp => (hj sp hsp).2, fun e hmem => ?_⟩
  obtain ⟨a, b, h1, _, h3⟩ := he e hmem
  exact ⟨a, b, h1, h3⟩

/-- **suffix independence, runtime parser** (no comments, hence no caveat) -/
theorem parseRuntime_suffix {P B : Src} (hP : EndsNl P) (hB : Head B) {r rB : Resource Span × List PErr}
    (h : parseRuntime (P ++ B) = .done r) (hpB : parseRuntime B = .done rB) :
    ∃ pre preErrs, r = (pre ++ rB.1.map (shEntry P.size), preErrs ++ rB.2.map (shErr P.size)) ∧
      (∀ sp ∈ junkSpans pre, sp.stop ≤ P.size) ∧
      (∀ e ∈ preErrs, ∃ a b, e.slice = some (a, b) ∧ b ≤ P.size) := by
  obtain ⟨E, hb⟩ := hB
  have hbar := bar_of_append hP hb
  unfold parseRuntime at h
  obtain ⟨N', mid, errsMid, _, h', hj, he⟩ := parseRuntimeLoop_reach_loc hbar _ _ [] [] _ r (start_le_bar hbar) h
  have := parseRuntimeLoop_seam hP ⟨E, hb⟩ (exprFuel_append_left P B) h' hpB
  refine ⟨mid, errsMid, by simpa using this, fun sp hsp => (hj sp hsp).2, fun e hmem => ?_⟩
  obtain ⟨a, b, h1, _, h3⟩ := he e hmem
  exact ⟨a, b, h1, h3⟩

/-! ## (2) prefix independence -/

theorem start_le_size (s : Src) : (skipBlankBlock s 0).1 ≤ s.size :=
  (skipBlankBlock_after s 0).le_size (Nat.zero_le _)

/-- **prefix independence, full parser.**  `A` is empty or ends with a line feed and parses without errors.  Then
there is a state `(body', lc')` of the entry loop — `A`'s body, a trailing standalone comment still pending — such
that for EVERY continuation `Z` that is empty or starts with a `stopByte` (e.g. a letter or `-`), the parse of
`A ++ Z` is `body'` followed by what the loop produces when started at `|A|` with `lc'` pending. -/
theorem parse_prefix {A : Src} (hA : EndsNl A) {bodyA : Resource Span} (hpA : parse A = .done (bodyA, [])) :
    ∃ body' lc', bodyA = body' ++ flushC lc' ∧
      ∀ Z : Src, StopOrEmpty Z → ∀ r, parse (A ++ Z) = .done r →
        ∃ N cnt r₀, parseLoop (A ++ Z) (exprFuel (A ++ Z)) N [] [] lc' cnt A.size = .done r₀ ∧
          r = (body' ++ r₀.1, r₀.2) := by
  unfold parse at hpA
  obtain ⟨body', lc', heq, H⟩ :=
    parseLoop_prefix rfl hA (exprFuel A) (A.size + 1) [] none 0 _ bodyA (start_le_size A) hpA
  refine ⟨body', lc', heq, ?_⟩
  intro Z hZ r h
  have hpre := pre_of_append hA hZ
  unfold parse at h
  rw [skipBlankBlock_pre hpre (Nat.zero_le _)] at h
  obtain ⟨N₂', cnt', _, h'⟩ := H (A ++ Z) _ hpre (exprFuel_append_right A Z) _ r h
  rw [parseLoop_acc_eq] at h'
  obtain ⟨r₀, h₀, rfl⟩ := mapD_eq_done h'
  exact ⟨N₂', cnt', r₀, h₀, by simp [prep]⟩

/-- **prefix independence, runtime parser** -/
theorem parseRuntime_prefix {A : Src} (hA : EndsNl A) {bodyA : Resource Span} (hpA : parseRuntime A = .done (bodyA, []))
    {Z : Src} (hZ : StopOrEmpty Z) {r : Resource Span × List PErr} (h : parseRuntime (A ++ Z) = .done r) :
    ∃ N r₀, parseRuntimeLoop (A ++ Z) (exprFuel (A ++ Z)) N [] [] A.size = .done r₀ ∧ r = (bodyA ++ r₀.1, r₀.2) := by
  unfold parseRuntime at hpA h
  have hpre := pre_of_append hA hZ
  rw [skipBlankBlock_pre hpre (Nat.zero_le _)] at h
  obtain ⟨N₂', _, h'⟩ :=
    parseRuntimeLoop_prefix rfl hA (exprFuel A) (A.size + 1) [] _ bodyA (start_le_size A) hpA
      (A ++ Z) _ hpre (exprFuel_append_right A Z) _ r h
  rw [parseRuntimeLoop_acc_eq] at h'
  obtain ⟨r₀, h₀, rfl⟩ := mapD_eq_done h'
  exact ⟨N₂', r₀, h₀, by simp [prep]⟩

/-! ## (4) containment -/

/-- a damaged entry: ANY bytes that end with a line feed and whose first byte is a `stopByte` (not a space, LF, CR, `#`,
`.`, `{` or UTF-8 continuation byte — those would make the text part of the entry before it; in particular the first
byte may be a letter or `-`, or a damaged first byte such as a digit) -/
structure Damage (X : Src) : Prop where
  first : ∃ b, X[0]? = some b ∧ stopByte b = true
  last : X[X.size - 1]? = some 10

theorem Damage.pos {X : Src} (h : Damage X) : 0 < X.size := by
  obtain ⟨b, hb, _⟩ := h.first
  exact get_lt hb

theorem Damage.endsNl {A X : Src} (h : Damage X) : EndsNl (A ++ X) := by
  right
  have := h.pos
  rw [Array.size_append, Array.getElem?_append_right (by omega)]
  rw [show A.size + X.size - 1 - A.size = X.size - 1 by omega]
  exact h.last

theorem Damage.stopOrEmpty {X B : Src} (h : Damage X) : StopOrEmpty (X ++ B) := by
  obtain ⟨b, hb, hr⟩ := h.first
  right
  exact ⟨b, by rw [Array.getElem?_append_left h.pos]; exact hb, hr⟩

/-- **C03 containment, full parser.**  `A` (empty or ending with a line feed) parses without errors.  Then there is a
fixed list `body'` — `A`'s body, minus a trailing standalone comment `lc'` that is still pending at the end of `A` —
such that for EVERY damaged entry `X` and EVERY following text `B` that starts with an entry head, the parse of
`A ++ X ++ B` is `body'`, then whatever `X` produces, then exactly the parse of `B` moved by `|A| + |X|` (a comment
pending at the end of `X` attached to / put before `B`'s first entry); the errors are those of the `X` region
followed by those of `B`, moved; the Junk spans and error slices of the `X` region lie inside `[|A|, |A| + |X|]`. -/
theorem parse_containment {A : Src} (hA : EndsNl A) {bodyA : Resource Span} (hpA : parse A = .done (bodyA, [])) :
    ∃ body' lc', bodyA = body' ++ flushC lc' ∧
      ∀ X B : Src, Damage X → Head B → ∀ r rB, parse (A ++ X ++ B) = .done r → parse B = .done rB →
        ∃ mid errsMid lc cnt,
          r = (body' ++ mid ++ attachO lc cnt (rB.1.map (shEntry (A.size + X.size))),
               errsMid ++ rB.2.map (shErr (A.size + X.size))) ∧
          (∀ sp ∈ junkSpans mid, A.size ≤ sp.start ∧ sp.stop ≤ A.size + X.size) ∧
          (∀ e ∈ errsMid, ∃ a b, e.slice = some (a, b) ∧ A.size ≤ a ∧ b ≤ A.size + X.size) := by
  obtain ⟨body', lc', heq, H⟩ := parse_prefix hA hpA
  refine ⟨body', lc', heq, ?_⟩
  intro X B hX hB r rB h hpB
  obtain ⟨N, cnt, r₀, h₀, rfl⟩ := H (X ++ B) hX.stopOrEmpty r (by rw [← Array.append_assoc]; exact h)
  rw [← Array.append_assoc] at h₀
  obtain ⟨E, hb⟩ := hB
  have hP : EndsNl (A ++ X) := hX.endsNl
  have hbar := bar_of_append hP hb
  have hle : A.size ≤ (A ++ X).size := by rw [Array.size_append]; omega
  obtain ⟨N', mid, errsMid, lc'', cnt'', _, h', hj, he⟩ :=
    parseLoop_reach_loc hbar _ N [] [] lc' cnt A.size r₀ hle h₀
  have := parseLoop_seam hP ⟨E, hb⟩ (exprFuel_append_left (A ++ X) B) h' hpB
  rw [Array.size_append] at this hj he
  refine ⟨mid, errsMid, lc'', cnt'', ?_, hj, he⟩
  rw [this]
  simp [List.append_assoc]

/-- **C03 containment, runtime parser** -/
theorem parseRuntime_containment {A : Src} (hA : EndsNl A) {bodyA : Resource Span}
    (hpA : parseRuntime A = .done (bodyA, [])) {X B : Src} (hX : Damage X) (hB : Head B)
    {r rB : Resource Span × List PErr} (h : parseRuntime (A ++ X ++ B) = .done r) (hpB : parseRuntime B = .done rB) :
    ∃ mid errsMid,
      r = (bodyA ++ mid ++ rB.1.map (shEntry (A.size + X.size)), errsMid ++ rB.2.map (shErr (A.size + X.size))) ∧
      (∀ sp ∈ junkSpans mid, A.size ≤ sp.start ∧ sp.stop ≤ A.size + X.size) ∧
      (∀ e ∈ errsMid, ∃ a b, e.slice = some (a, b) ∧ A.size ≤ a ∧ b ≤ A.size + X.size) := by
  obtain ⟨N, r₀, h₀, rfl⟩ := parseRuntime_prefix hA hpA (Z := X ++ B) hX.stopOrEmpty (by rw [← Array.append_assoc]; exact h)
  rw [← Array.append_assoc] at h₀
  obtain ⟨E, hb⟩ := hB
  have hP : EndsNl (A ++ X) := hX.endsNl
  have hbar := bar_of_append hP hb
  have hle : A.size ≤ (A ++ X).size := by rw [Array.size_append]; omega
  obtain ⟨N', mid, errsMid, _, h', hj, he⟩ := parseRuntimeLoop_reach_loc hbar _ N [] [] A.size r₀ hle h₀
  have := parseRuntimeLoop_seam hP ⟨E, hb⟩ (exprFuel_append_left (A ++ X) B) h' hpB
  rw [Array.size_append] at this hj he
  refine ⟨mid, errsMid, ?_, hj, he⟩
  rw [this]
  simp [List.append_assoc]

/-! ## messages and terms only (`msgsTerms` strips attached comments) -/

theorem msgsTerms_flushC (lc : Option (List Span)) : msgsTerms (flushC lc) = [] := by
  cases lc <;> rfl

theorem msgsTerms_attachO (lc : Option (List Span)) (cnt : Nat) (l : List (Entry Span)) :
    msgsTerms (attachO lc cnt l) = msgsTerms l := by
  cases lc with
  | none => rfl
  | some c =>
    simp only [attachO]
    cases l with
    | nil => rfl
    | cons e rest =>
      cases e <;> simp only [attachC, msgsTerms] <;> split <;> simp [msgsTerms]

theorem msgsTerms_map_sh (d : Nat) (l : List (Entry Span)) :
    msgsTerms (l.map (shEntry d)) = (msgsTerms l).map (shEntry d) := by
  induction l with
  | nil => rfl
  | cons e rest ih => cases e <;> simp [msgsTerms, Entry.mapS, ih]

end FluentProofs.Parser
