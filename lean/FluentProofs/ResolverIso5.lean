import FluentProofs.ResolverIso4
/-!
# C09: the hypothesis "own text contains no FSI/PDI" in one structure, and how it feeds the inductions

`Pieces env p` is the precondition of the property, spelled out: every text element (after the
transform), string literal (raw and unescaped), number literal (raw and formatted), identifier,
argument value, function output and formatter output is `MarkFree` — for the pattern `p` and every
entry of the bundle.  `NoSites` says that no pattern has an isolation site.
-/
namespace FluentProofs.Bidi
open FluentModel FluentModel.Syntax FluentModel.Resolver

/-- every atom is mark-free (nothing is asked at isolation sites) -/
def AtomsMarkFree (env : Env) (as : List Atom) : Prop := ∀ a ∈ as, AtomOK env True a

structure Pieces (env : Env) (p : Pattern Bytes) : Prop where
  pattern : AtomsMarkFree env (patAtoms p)
  msgValue : ∀ id m q, env.msg id = some m → m.value = some q → AtomsMarkFree env (patAtoms q)
  msgAttr : ∀ id m a, env.msg id = some m → a ∈ m.attributes → AtomsMarkFree env (patAtoms a.value)
  termValue : ∀ id t, env.term id = some t → AtomsMarkFree env (patAtoms t.value)
  termAttr : ∀ id t a, env.term id = some t → a ∈ t.attributes → AtomsMarkFree env (patAtoms a.value)
  /-- the caller's argument values are written mark-free -/
  args : ∀ a, env.args = some a → ∀ kv ∈ a, MarkFree (valueString env kv.2)
  /-- function outputs are written mark-free -/
  fn : ∀ id f ps (ns : ArgList), env.fn id = some f → MarkFree (valueString env (f ps ns))
  /-- custom formatter outputs are mark-free -/
  formatter : ∀ f v s, env.formatter = some f → f v = some s → MarkFree s

/-- no pattern of the bundle (nor `p`) has an isolatable placeable in a multi-element pattern -/
structure NoSites (env : Env) (p : Pattern Bytes) : Prop where
  pattern : Atom.site ∉ patAtoms p
  msgValue : ∀ id m q, env.msg id = some m → m.value = some q → Atom.site ∉ patAtoms q
  msgAttr : ∀ id m a, env.msg id = some m → a ∈ m.attributes → Atom.site ∉ patAtoms a.value
  termValue : ∀ id t, env.term id = some t → Atom.site ∉ patAtoms t.value
  termAttr : ∀ id t a, env.term id = some t → a ∈ t.attributes → Atom.site ∉ patAtoms a.value

theorem AtomOK.mono {env : Env} {s₁ s₂ : Prop} {a : Atom} (h : a = .site → s₁ → s₂) : AtomOK env s₁ a → AtomOK env s₂ a := by
  cases a with
  | site => exact h rfl
  | text v => exact id
  | str v => exact id
  | num v => exact id
  | ident v => exact id

theorem atomsOK_of_site {env : Env} {L : Bytes → Prop} {as : List Atom} (hS : SiteOK env L)
    (h : AtomsMarkFree env as) : AtomsOK env L as :=
  fun a ha => AtomOK.mono (fun _ _ => hS) (h a ha)

theorem atomsOK_of_noSite {env : Env} {L : Bytes → Prop} {as : List Atom} (hS : Atom.site ∉ as)
    (h : AtomsMarkFree env as) : AtomsOK env L as :=
  fun a ha => AtomOK.mono (fun e _ => absurd (e ▸ ha) hS) (h a ha)

/-- `Pieces` feeds the induction for every language closed where the model isolates -/
theorem Pieces.envOK {env : Env} {p : Pattern Bytes} {L : Bytes → Prop} (P : Pieces env p) (hL : Lang L)
    (hS : SiteOK env L) : EnvOK env L ∧ PatOK env L p :=
  ⟨{ lang := hL
     formatter := P.formatter
     args := fun a ha kv hkv => hL.mf (P.args a ha kv hkv)
     fn := fun id f ps ns hf _ _ => hL.mf (P.fn id f ps ns hf)
     msgValue := fun id m q h1 h2 => atomsOK_of_site hS (P.msgValue id m q h1 h2)
     msgAttr := fun id m a h1 h2 => atomsOK_of_site hS (P.msgAttr id m a h1 h2)
     termValue := fun id t h1 => atomsOK_of_site hS (P.termValue id t h1)
     termAttr := fun id t a h1 h2 => atomsOK_of_site hS (P.termAttr id t a h1 h2) },
   atomsOK_of_site hS P.pattern⟩

theorem Pieces.envOK_noSites {env : Env} {p : Pattern Bytes} {L : Bytes → Prop} (P : Pieces env p) (hL : Lang L)
    (N : NoSites env p) : EnvOK env L ∧ PatOK env L p :=
  ⟨{ lang := hL
     formatter := P.formatter
     args := fun a ha kv hkv => hL.mf (P.args a ha kv hkv)
     fn := fun id f ps ns hf _ _ => hL.mf (P.fn id f ps ns hf)
     msgValue := fun id m q h1 h2 => atomsOK_of_noSite (N.msgValue id m q h1 h2) (P.msgValue id m q h1 h2)
     msgAttr := fun id m a h1 h2 => atomsOK_of_noSite (N.msgAttr id m a h1 h2) (P.msgAttr id m a h1 h2)
     termValue := fun id t h1 => atomsOK_of_noSite (N.termValue id t h1) (P.termValue id t h1)
     termAttr := fun id t a h1 h2 => atomsOK_of_noSite (N.termAttr id t a h1 h2) (P.termAttr id t a h1 h2) },
   atomsOK_of_noSite N.pattern P.pattern⟩

theorem Pieces.withIso {env : Env} {p : Pattern Bytes} (P : Pieces env p) (b : Bool) : Pieces (withIso env b) p :=
  ⟨P.pattern, P.msgValue, P.msgAttr, P.termValue, P.termAttr, P.args, P.fn, P.formatter⟩

theorem siteOK_off {env : Env} (L : Bytes → Prop) (h : env.useIsolating = false) : SiteOK env L := by
  intro h'; rw [h] at h'; cases h'

theorem siteOK_dyck (env : Env) : SiteOK env Dyck := fun _ _ ha => ha.isolate

theorem scOK_empty (env : Env) (L : Bytes → Prop) : ScOK env L {} := by
  intro l hl; cases hl

/-- `NoIsolatedValueFlow`: neither the pattern nor any entry of the bundle resolves a select selector or
a call argument (of a function or of a parameterized term) by writing a pattern into a string: selectors
and arguments are string / number literals, variables, or function calls whose arguments are again of this
kind.  (Message / term / term-attribute references and nested placeables in these positions are excluded:
their value is the *written* string, which carries the marks — finding F15.) -/
structure NoIsolatedValueFlow (env : Env) (p : Pattern Bytes) : Prop where
  pattern : nfElems p = true
  bundle : NoFlowEnv env


/-! ## the top level (`format_pattern`: single-text fast path, else `write`) -/

theorem resolvePattern_out {env : Env} {L : Bytes → Prop} {p : Pattern Bytes} (H : EnvOK env L) (hp : PatOK env L p)
    (fuel : Nat) (sc : Scope) (hsc : ScOK env L sc) : OutW L [] sc (resolvePattern env fuel p sc) := by
  unfold resolvePattern
  split
  · rename_i v
    have : MarkFree (match env.transform with | some f => f v | .none => v) :=
      hp (.text v) (by simp [patAtoms, elemsAtoms, elemAtoms])
    exact ⟨⟨_, rfl, H.lang.mf this⟩, rfl⟩
  · exact (inv_all H fuel).writePattern p [] sc hp hsc

theorem resolvePattern_rel {env : Env} {p : Pattern Bytes} (F : NoIsolatedValueFlow env p) (fuel : Nat) (sc : Scope) :
    Rel [] [] (resolvePattern (withIso env true) fuel p sc) (resolvePattern (withIso env false) fuel p sc) := by
  unfold resolvePattern
  split
  · simp only [withIso_transform]; exact Rel.same (w₁ := []) (w₂ := []) _ sc
  · exact (inv2_all F.bundle fuel).writePattern p [] [] sc F.pattern

end FluentProofs.Bidi
