import FluentProofs.Num
/-!
# What the code prints and which operands it computes (support for C12)

* `strBytes_display`: the bytes of `display d`
* `asString_eq`: the explicit shape of `asString n`
* `operandsOf_eq`: the operands `From<&FluentNumber> for PluralOperands` computes
* `cldrOperands_asString`: the CLDR operands of the printed string
-/
namespace FluentProofs.Num
open FluentModel FluentModel.Num FluentModel.Plural

/-- the bytes of `display d` -/
def displayBytes (d : Dec) : Bytes :=
  signBytes d.neg ++ (digitBytes (stripLeadingZeros d.int) ++
    (if (stripTrailingZeros d.frac).isEmpty then [] else 46 :: digitBytes (stripTrailingZeros d.frac)))

theorem strBytes_minus : strBytes "-" = [45] := by decide
theorem strBytes_dot : strBytes "." = [46] := by decide
theorem strBytes_empty : strBytes "" = [] := by decide
theorem digitByte_zero : digitByte 0 = 48 := by decide

theorem strBytes_display {d : Dec} (h : WF d) : strBytes (display d) = displayBytes d := by
  unfold display displayBytes signBytes
  simp only [strBytes_append]
  rw [strBytes_digitChars h.int_digits.stripLeading, List.append_assoc]
  congr 1
  · cases d.neg <;> simp [strBytes_minus, strBytes_empty]
  · congr 1
    split
    · exact strBytes_empty
    · rw [strBytes_append, strBytes_digitChars h.frac_digits.stripTrailing, strBytes_dot]; rfl

/-- the fraction digits the user sees: the significant ones, padded up to the (clamped)
`minimum_fraction_digits` -/
def visibleFrac (n : FluentNumber) : List Nat :=
  match n.options.minimumFractionDigits with
  | none => stripTrailingZeros n.value.frac
  | some m =>
    stripTrailingZeros n.value.frac ++
      List.replicate (min m maxFractionDigits - (stripTrailingZeros n.value.frac).length) 0

def printedHasDot (n : FluentNumber) : Bool :=
  n.options.minimumFractionDigits.isSome || !(stripTrailingZeros n.value.frac).isEmpty

theorem visibleFrac_digits {n : FluentNumber} (h : WF n.value) : Digits (visibleFrac n) := by
  unfold visibleFrac
  split
  · exact h.frac_digits.stripTrailing
  · exact h.frac_digits.stripTrailing.append (Digits.replicate_zero _)

theorem stripTrailingZeros_visibleFrac (n : FluentNumber) :
    stripTrailingZeros (visibleFrac n) = stripTrailingZeros n.value.frac := by
  unfold visibleFrac
  split
  · exact stripTrailingZeros_idem _
  · rw [stripTrailingZeros_append_zeros, stripTrailingZeros_idem]

theorem length_le_visibleFrac (n : FluentNumber) :
    (stripTrailingZeros n.value.frac).length ≤ (visibleFrac n).length := by
  unfold visibleFrac
  split <;> simp

theorem digitBytes_append (a b : List Nat) : digitBytes (a ++ b) = digitBytes a ++ digitBytes b := by
  simp [digitBytes]

theorem digitBytes_replicate_zero (k : Nat) : digitBytes (List.replicate k 0) = List.replicate k 48 := by
  simp [digitBytes, digitByte]

theorem digitBytes_length (l : List Nat) : (digitBytes l).length = l.length := by simp [digitBytes]

theorem splitAtDot_sign (neg : Bool) (b : Bytes) :
    splitAtDot (signBytes neg ++ b) = (signBytes neg ++ (splitAtDot b).1, (splitAtDot b).2) := by
  cases neg with
  | false => simp [signBytes]
  | true =>
    simp only [signBytes, if_true, List.singleton_append, splitAtDot]
    have : ((45 : UInt8) == 46) = false := by decide
    simp [this]

theorem splitAtDot_displayBytes {d : Dec} (h : WF d) :
    splitAtDot (displayBytes d) =
      (signBytes d.neg ++ digitBytes (stripLeadingZeros d.int),
       if (stripTrailingZeros d.frac).isEmpty then none else some (digitBytes (stripTrailingZeros d.frac))) := by
  unfold displayBytes
  rw [splitAtDot_sign]
  split
  · simp [splitAtDot_digits_nodot h.int_digits.stripLeading]
  · simp [splitAtDot_digits_dot h.int_digits.stripLeading]

/-- the explicit shape of what `as_string` prints -/
theorem asString_eq {n : FluentNumber} (h : WF n.value) :
    asString n = signBytes n.value.neg ++ (digitBytes (stripLeadingZeros n.value.int) ++
      (if printedHasDot n then 46 :: digitBytes (visibleFrac n) else [])) := by
  unfold asString printedHasDot visibleFrac
  simp only [strBytes_display h]
  cases hm : n.options.minimumFractionDigits with
  | none =>
    simp only [Option.isSome_none, Bool.false_or]
    unfold displayBytes
    cases hf : (stripTrailingZeros n.value.frac).isEmpty <;> simp
  | some m =>
    simp only [Option.isSome_some, Bool.true_or, if_true, splitAtDot_displayBytes h]
    cases hf : (stripTrailingZeros n.value.frac).isEmpty with
    | true =>
      have he : stripTrailingZeros n.value.frac = [] := List.isEmpty_iff.mp hf
      simp [displayBytes, he, digitBytes, digitByte_zero]
    | false =>
      simp [displayBytes, hf, digitBytes_append, digitBytes_replicate_zero, digitBytes_length]

/-! ## the operands the code computes -/

theorem stripMinus_cons_ne {a : UInt8} (t : Bytes) (ha : a ≠ 45) : stripMinus (a :: t) = a :: t := by
  unfold stripMinus
  split
  · rename_i r heq
    simp only [List.cons.injEq] at heq
    exact absurd heq.1 ha
  · rfl

theorem stripPlus_cons_ne {a : UInt8} (t : Bytes) (ha : a ≠ 43) : stripPlus (a :: t) = a :: t := by
  unfold stripPlus
  split
  · rename_i r heq
    simp only [List.cons.injEq] at heq
    exact absurd heq.1 ha
  · rfl

theorem stripMinus_digitBytes {l : List Nat} (h : Digits l) (hne : l ≠ []) (tail : Bytes) :
    stripMinus (digitBytes l ++ tail) = digitBytes l ++ tail := by
  cases l with
  | nil => exact absurd rfl hne
  | cons a t =>
    have ha : digitByte a ≠ 45 := by
      intro h45
      have := digitByte_isDigit h.head
      rw [h45] at this
      exact absurd this (by decide)
    simp only [digitBytes, List.map_cons, List.cons_append]
    exact stripMinus_cons_ne _ ha

theorem stripMinus_sign {l : List Nat} (h : Digits l) (hne : l ≠ []) (neg : Bool) (tail : Bytes) :
    stripMinus (signBytes neg ++ (digitBytes l ++ tail)) = digitBytes l ++ tail := by
  cases neg with
  | true => simp [signBytes, stripMinus]
  | false =>
    simp only [signBytes, Bool.false_eq_true, if_false, List.nil_append]
    exact stripMinus_digitBytes h hne tail

theorem u64FromStr_digitBytes {l : List Nat} (h : Digits l) (hne : l ≠ []) :
    u64FromStr (digitBytes l) = if digitsToNat l ≤ u64Max then some (digitsToNat l) else none := by
  unfold u64FromStr
  have hplus : stripPlus (digitBytes l) = digitBytes l := by
    cases l with
    | nil => exact absurd rfl hne
    | cons a t =>
      have ha : digitByte a ≠ 43 := by
        intro h43
        have := digitByte_isDigit h.head
        rw [h43] at this
        exact absurd this (by decide)
      simp only [digitBytes, List.map_cons]
      exact stripPlus_cons_ne _ ha
  simp only [hplus, digitsOf_digitBytes h hne]

theorem dropWhile_digitBytes {l : List Nat} (h : Digits l) :
    (digitBytes l).dropWhile (· == 48) = digitBytes (l.dropWhile (· == 0)) := by
  induction l with
  | nil => simp [digitBytes]
  | cons a t ih =>
    have ha := h.head
    have hb : (digitByte a == 48) = (a == 0) := by
      rcases lt10_cases ha with rfl|rfl|rfl|rfl|rfl|rfl|rfl|rfl|rfl|rfl <;> decide
    simp only [digitBytes, List.map_cons, List.dropWhile_cons, hb]
    cases a == 0 with
    | true => simpa [digitBytes] using ih h.tail
    | false => simp

theorem trimEndZeros_digitBytes {l : List Nat} (h : Digits l) :
    trimEndZeros (digitBytes l) = digitBytes (stripTrailingZeros l) := by
  unfold trimEndZeros stripTrailingZeros
  have hr : (digitBytes l).reverse = digitBytes l.reverse := by simp [digitBytes]
  have hd : Digits l.reverse := fun x hx => h x (List.mem_reverse.mp hx)
  rw [hr, dropWhile_digitBytes hd]
  simp [digitBytes]

/-- stripping the sign in `TryFrom<&str>` -/
theorem absStr_displayBytes {d : Dec} (h : WF d) :
    stripMinus (displayBytes d) =
    digitBytes (stripLeadingZeros d.int) ++
      (if (stripTrailingZeros d.frac).isEmpty then [] else 46 :: digitBytes (stripTrailingZeros d.frac)) := by
  unfold displayBytes
  exact stripMinus_sign h.int_digits.stripLeading (stripLeadingZeros_ne_nil h.int_ne) _ _

theorem u64Max_ge : 10 ^ 19 ≤ u64Max := by decide

/-- `TryFrom<&str>` applied to `value.to_string()` -/
theorem operandsOfStr_display {d : Dec} (h : WF d)
    (hi : digitsToNat (stripLeadingZeros d.int) ≤ u64Max)
    (hf : (stripTrailingZeros d.frac).length ≤ 19) :
    operandsOfStr (displayBytes d) =
      some ⟨⟨false, stripLeadingZeros d.int, stripTrailingZeros d.frac⟩,
            digitsToNat (stripLeadingZeros d.int), (stripTrailingZeros d.frac).length,
            (stripTrailingZeros d.frac).length, digitsToNat (stripTrailingZeros d.frac),
            digitsToNat (stripTrailingZeros d.frac)⟩ := by
  have hid := h.int_digits.stripLeading
  have hin := stripLeadingZeros_ne_nil h.int_ne
  have hfd := h.frac_digits.stripTrailing
  unfold operandsOfStr
  simp only [absStr_displayBytes h]
  cases hfe : (stripTrailingZeros d.frac).isEmpty with
  | true =>
    have he : stripTrailingZeros d.frac = [] := List.isEmpty_iff.mp hfe
    have hp := parseDec_printed_int false hid hin
    simp only [signBytes, Bool.false_eq_true, if_false, List.nil_append] at hp
    simp only [if_true, List.append_nil, hp, splitAtDot_digits_nodot hid, he, List.length_nil]
    have hmin := Nat.min_eq_left hi
    simp only [digitsToNat] at hmin ⊢
    simp [hmin]
  | false =>
    have hfn : stripTrailingZeros d.frac ≠ [] := by
      intro he; rw [he] at hfe; simp at hfe
    have hp := parseDec_printed_frac false hid hin hfd hfn
    simp only [signBytes, Bool.false_eq_true, if_false, List.nil_append] at hp
    have hflt : digitsToNat (stripTrailingZeros d.frac) ≤ u64Max := by
      have h1 := digitsToNat_lt hfd
      have h2 : 10 ^ (stripTrailingZeros d.frac).length ≤ 10 ^ 19 := Nat.pow_le_pow_right (by decide) hf
      have h3 := u64Max_ge
      omega
    simp only [Bool.false_eq_true, if_false, hp, splitAtDot_digits_dot hid, u64FromStr_digitBytes hid hin,
      if_pos hi, trimEndZeros_digitBytes hfd, stripTrailingZeros_idem, u64FromStr_digitBytes hfd hfn,
      if_pos hflt, digitBytes_length, Option.getD_some]

theorem pow10Checked_eq {k : Nat} (h : k ≤ 19) : pow10Checked k = 10 ^ k := by
  unfold pow10Checked
  have h1 : 10 ^ k ≤ 10 ^ 19 := Nat.pow_le_pow_right (by decide) h
  have h2 := u64Max_ge
  rw [if_pos (by omega)]

theorem satMul_eq {a b : Nat} (h : a * b ≤ u64Max) : satMul a b = a * b := by
  unfold satMul; exact Nat.min_eq_left h

/-- the operands `From<&FluentNumber> for PluralOperands` computes, when the integer part fits a `u64`
and at most 18 fraction digits are visible -/
theorem operandsOf_eq {n : FluentNumber} (h : WF n.value)
    (hi : digitsToNat (stripLeadingZeros n.value.int) ≤ u64Max)
    (hv : (visibleFrac n).length ≤ 18) :
    operandsOf n =
      some ⟨⟨false, stripLeadingZeros n.value.int, stripTrailingZeros n.value.frac⟩,
            digitsToNat (stripLeadingZeros n.value.int), (visibleFrac n).length,
            (stripTrailingZeros n.value.frac).length, digitsToNat (visibleFrac n),
            digitsToNat (stripTrailingZeros n.value.frac)⟩ := by
  have hlen := length_le_visibleFrac n
  unfold operandsOf
  rw [strBytes_display h, operandsOfStr_display h hi (by omega)]
  simp only
  unfold visibleFrac at hv hlen ⊢
  cases hm : n.options.minimumFractionDigits with
  | none => simp
  | some m =>
    simp only [hm] at hv hlen ⊢
    by_cases hgt : min m maxFractionDigits > (stripTrailingZeros n.value.frac).length
    · simp only [hgt, if_true]
      have hk : min m maxFractionDigits - (stripTrailingZeros n.value.frac).length ≤ 19 := by
        simp at hv; omega
      have hlen2 : (stripTrailingZeros n.value.frac ++
          List.replicate (min m maxFractionDigits - (stripTrailingZeros n.value.frac).length) 0).length
          = min m maxFractionDigits := by
        simp; omega
      rw [pow10Checked_eq hk, hlen2, digitsToNat_append_zeros]
      have hd : Digits (stripTrailingZeros n.value.frac ++
          List.replicate (min m maxFractionDigits - (stripTrailingZeros n.value.frac).length) 0) :=
        h.frac_digits.stripTrailing.append (Digits.replicate_zero _)
      have hlt := digitsToNat_lt hd
      rw [digitsToNat_append_zeros, hlen2] at hlt
      have h18 : 10 ^ min m maxFractionDigits ≤ 10 ^ 18 :=
        Nat.pow_le_pow_right (by decide) (by rw [hlen2] at hv; exact hv)
      have h19 : (10 : Nat) ^ 18 ≤ u64Max := by decide
      rw [satMul_eq (by omega)]
    · have hz : min m maxFractionDigits - (stripTrailingZeros n.value.frac).length = 0 := by omega
      simp only [hgt, if_false, hz, List.replicate_zero, List.append_nil]

/-! ## the CLDR operands of the printed string -/

theorem cldrOperands_asString {n : FluentNumber} (h : WF n.value) :
    cldrOperands (asString n) =
      some ⟨⟨false, stripLeadingZeros n.value.int, visibleFrac n⟩,
            digitsToNat (stripLeadingZeros n.value.int), (visibleFrac n).length,
            (stripTrailingZeros n.value.frac).length, digitsToNat (visibleFrac n),
            digitsToNat (stripTrailingZeros n.value.frac)⟩ := by
  have hid := h.int_digits.stripLeading
  have hin := stripLeadingZeros_ne_nil h.int_ne
  have hvd := visibleFrac_digits h
  rw [asString_eq h]
  unfold cldrOperands
  simp only [stripMinus_sign hid hin]
  cases hdot : printedHasDot n with
  | false =>
    -- no dot: no minimum, no significant fraction digit
    have hv : visibleFrac n = [] := by
      unfold printedHasDot at hdot
      unfold visibleFrac
      cases hm : n.options.minimumFractionDigits with
      | none =>
        simp only [hm, Option.isSome_none, Bool.false_or, Bool.not_eq_false'] at hdot
        simpa using List.isEmpty_iff.mp hdot
      | some m => simp [hm] at hdot
    have hs : stripTrailingZeros n.value.frac = [] := by
      have := stripTrailingZeros_visibleFrac n
      rw [hv] at this
      rw [← this]; rfl
    simp only [Bool.false_eq_true, if_false, List.append_nil, splitAtDot_digits_nodot hid, Option.getD_none,
      List.isEmpty_nil, if_true, digitsOf_digitBytes hid hin, hv, hs]
    rfl
  | true =>
    simp only [if_true, splitAtDot_digits_dot hid, Option.getD_some, digitsOf_digitBytes hid hin]
    cases hve : visibleFrac n with
    | nil =>
      have hs : stripTrailingZeros n.value.frac = [] := by
        have := stripTrailingZeros_visibleFrac n
        rw [hve] at this
        rw [← this]; rfl
      have hst : stripTrailingZeros ([] : List Nat) = [] := by decide
      simp [digitBytes, hs, hst]
    | cons a t =>
      have hne : visibleFrac n ≠ [] := by rw [hve]; simp
      have hemp : (digitBytes (visibleFrac n)).isEmpty = false := by
        rw [hve]; simp [digitBytes]
      rw [← hve]
      simp only [hemp, Bool.false_eq_true, if_false, digitsOf_digitBytes hvd hne, stripTrailingZeros_visibleFrac]

/-! ## what `FromStr` remembers -/

theorem stripTrailingZeros_length_le (l : List Nat) : (stripTrailingZeros l).length ≤ l.length := by
  unfold stripTrailingZeros
  have := (List.dropWhile_sublist (fun (y : Nat) => y == 0) (l := l.reverse)).length_le
  simpa using this

theorem splitAtDot_minus (b : Bytes) : (splitAtDot (45 :: b)).2 = (splitAtDot b).2 := by
  have : ((45 : UInt8) == 46) = false := by decide
  simp [splitAtDot, this]

theorem mfdOfSource_eq (bs : Bytes) : mfdOfSource bs = (splitAtDot bs).2.map List.length := by
  unfold mfdOfSource
  cases h : splitAtDot bs with
  | mk a b => cases b <;> rfl

/-- what `FromStr` remembers is the number of digits written after the point -/
theorem mfdOfSource_parseDec {src : Bytes} {d : Dec} (h : parseDec src = some d) :
    mfdOfSource src = (if (splitAtDot src).2.isSome then some d.frac.length else none) ∧
    ((splitAtDot src).2 = none → d.frac = []) ∧
    ((splitAtDot src).2.isSome → d.frac ≠ []) := by
  have key : ∀ (neg : Bool) (body : Bytes), parseBody neg body = some d →
      (splitAtDot body).2.map List.length = (if (splitAtDot body).2.isSome then some d.frac.length else none) ∧
      ((splitAtDot body).2 = none → d.frac = []) ∧ ((splitAtDot body).2.isSome → d.frac ≠ []) := by
    intro neg body hb
    unfold parseBody at hb
    cases h1 : digitsOf (splitAtDot body).1 with
    | none => simp [h1] at hb
    | some id =>
      cases h2 : (splitAtDot body).2 with
      | none =>
        simp only [h1, h2, Option.some.injEq] at hb
        subst hb
        simp
      | some fb =>
        simp only [h1, h2] at hb
        cases h3 : digitsOf fb with
        | none => simp [h3] at hb
        | some fd =>
          simp only [h3, Option.some.injEq] at hb
          subst hb
          have hfd := digitsOf_some h3
          simp [hfd.2.2.2, hfd.2.1]
  rw [mfdOfSource_eq]
  cases src with
  | nil => exact key false [] (by rw [← parseDec_pos (by intro r; simp)]; exact h)
  | cons a t =>
    by_cases ha : a = 45
    · subst ha
      rw [parseDec_neg] at h
      rw [splitAtDot_minus]
      exact key true t h
    · have hp : parseDec (a :: t) = parseBody false (a :: t) :=
        parseDec_pos (by intro r hr; simp only [List.cons.injEq] at hr; exact ha hr.1)
      rw [hp] at h
      exact key false _ h

end FluentProofs.Num
