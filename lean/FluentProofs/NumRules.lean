import FluentProofs.NumOperands
/-!
# Rule functions depend on the operand `n` only through its value; selection lemmas (support for C12)
-/
namespace FluentProofs.Num
open FluentModel FluentModel.Num FluentModel.Plural

/-- two operand records that agree except for the spelling of `n` (same numeric value) -/
def Same (a b : Operands) : Prop :=
  a.n.valueEq b.n = true ∧ a.i = b.i ∧ a.v = b.v ∧ a.w = b.w ∧ a.f = b.f ∧ a.t = b.t

theorem digitsToNat_zero_cons (l : List Nat) : digitsToNat (0 :: l) = digitsToNat l := by
  simp [digitsToNat]

theorem digitsToNat_stripLeading : ∀ (l : List Nat), digitsToNat (stripLeadingZeros l) = digitsToNat l
  | [] => by simp [stripLeadingZeros]
  | [y] => by cases y <;> simp [stripLeadingZeros]
  | 0 :: d :: rest => by
    rw [stripLeadingZeros, digitsToNat_zero_cons]; exact digitsToNat_stripLeading (d :: rest)
  | (n + 1) :: d :: rest => by simp [stripLeadingZeros]

theorem nInt_congr {a b : Operands} (h : Same a b) : a.nInt = b.nInt := by
  have hv := h.1
  unfold Dec.valueEq at hv
  simp only [Bool.and_eq_true, beq_iff_eq, Prod.mk.injEq] at hv
  obtain ⟨⟨hi, hf⟩, _⟩ := hv
  unfold Operands.nInt
  rw [hf]
  have : digitsToNat a.n.int = digitsToNat b.n.int := by
    rw [← digitsToNat_stripLeading a.n.int, ← digitsToNat_stripLeading b.n.int, hi]
  rw [this]

/-- a rule function that looks at `n` only through its numeric value (true of every CLDR rule) -/
def RespectsValue (rule : NumType → Rule) : Prop := ∀ ty a b, Same a b → rule ty a = rule ty b

theorem cldrRule_respects (lang : String) : RespectsValue (cldrRule lang) := by
  intro ty a b h
  have hn := nInt_congr h
  obtain ⟨_, hi, hv, hw, hf, ht⟩ := h
  unfold cldrRule
  split <;> split <;>
    simp only [cardEn, cardPl, cardRu, cardAr, cardFr, cardCs, cardLt, cardJa, cardSl, cardCy, cardRo, cardPt, cardPtPT,
      ordEn, ordFr, ordUk, ordCy, ordSv, ordOther, nEq, nModEq, nModIn, hn, hi, hv, hf] <;> rfl

theorem crateRule_respects (lang : String) : RespectsValue (crateRule lang) := by
  intro ty a b h
  have hc := cldrRule_respects lang ty a b h
  have hn := nInt_congr h
  obtain ⟨_, hi, hv, hw, hf, ht⟩ := h
  unfold crateRule
  split <;> first
    | exact hc
    | (simp only [crateCardAr, crateCardLt, crateCardRo, crateOrdEn, crateOrdUk, crateOrdSv, nEq, nModEq, nModIn,
        hn, hi, hv, hf] <;> rfl)

/-! ## where the rules of intl_pluralrules 7.0.2 still agree with CLDR (the boundary of known finding F26)

`o.nInt = some o.i` says the value is integral (and `i` not saturated). -/

theorem crate_ar_agrees (o : Operands) (hn : o.nInt = some o.i) (h : o.i < 100) :
    crateCardAr o = cardAr o := by
  have hm : o.i % 100 = o.i := Nat.mod_eq_of_lt h
  simp only [crateCardAr, cardAr, nEq, nModIn, hn, hm, inRange]
  by_cases h0 : o.i = 0
  · simp [h0]
  by_cases h1 : o.i = 1
  · simp [h1]
  by_cases h2 : o.i = 2
  · simp [h2]
  by_cases h3 : 3 ≤ o.i ∧ o.i ≤ 10
  · simp [h0, h1, h2, h3]
  by_cases h4 : 11 ≤ o.i ∧ o.i ≤ 99
  · have : ¬ (3 ≤ o.i ∧ o.i ≤ 10) := h3
    simp [h0, h1, h2, h3, h4]
  · omega

theorem crate_lt_agrees (o : Operands) (hn : o.nInt = some o.i) (hf : o.f = 0) (h : o.i < 20) :
    crateCardLt o = cardLt o := by
  simp only [crateCardLt, cardLt, nModEq, nModIn, hn, inRange]
  have : o.i = 0 ∨ o.i = 1 ∨ o.i = 2 ∨ o.i = 3 ∨ o.i = 4 ∨ o.i = 5 ∨ o.i = 6 ∨ o.i = 7 ∨ o.i = 8 ∨ o.i = 9 ∨
      o.i = 10 ∨ o.i = 11 ∨ o.i = 12 ∨ o.i = 13 ∨ o.i = 14 ∨ o.i = 15 ∨ o.i = 16 ∨ o.i = 17 ∨ o.i = 18 ∨ o.i = 19 := by omega
  rcases this with h|h|h|h|h|h|h|h|h|h|h|h|h|h|h|h|h|h|h|h <;> simp [h, hf]

theorem crate_ordEn_agrees (o : Operands) (hn : o.nInt = some o.i) : crateOrdEn o = ordEn o := by
  simp only [crateOrdEn, ordEn, nModEq, hn]
  have h10 : o.i % 10 < 10 := Nat.mod_lt _ (by decide)
  by_cases h3 : o.i % 10 = 3
  · simp [h3]
  by_cases h1 : o.i % 10 = 1
  · simp [h1]
  · simp [h3, h1]

/-! ## the select loop -/

theorem firstMatch_append (cat : FluentNumber → Option Category) (sel : Val)
    (pre : List (Key × Bool)) (post : List (Key × Bool)) (i : Nat)
    (hpre : ∀ kd ∈ pre, ∃ kv, keyValue kd.1 = .val kv ∧ keyMatches cat kv sel = some false) :
    firstMatch cat sel (pre ++ post) i = firstMatch cat sel post (i + pre.length) := by
  induction pre generalizing i with
  | nil => simp
  | cons p t ih =>
    obtain ⟨k, d⟩ := p
    obtain ⟨kv, h1, h2⟩ := hpre (k, d) (by simp)
    simp only [List.cons_append, firstMatch, h1, h2]
    rw [ih (i + 1) (fun kd hkd => hpre kd (by simp [hkd]))]
    simp only [List.length_cons]
    congr 1
    omega

theorem firstMatch_none (cat : FluentNumber → Option Category) (sel : Val)
    (vs : List (Key × Bool)) (i : Nat)
    (h : ∀ kd ∈ vs, ∃ kv, keyValue kd.1 = .val kv ∧ keyMatches cat kv sel = some false) :
    firstMatch cat sel vs i = none := by
  have := firstMatch_append cat sel vs [] i h
  simpa [firstMatch] using this

end FluentProofs.Num
