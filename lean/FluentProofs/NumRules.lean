import FluentProofs.NumOperands
/-!
# Rule functions depend on the operand `n` only through its value; selection lemmas (support for C12)
-/
namespace FluentProofs.Num
open FluentModel FluentModel.Num FluentModel.Plural

/-- two operand records that agree except for the spelling of `n` (same numeric value) -/
def Same (a b : Operands) : Prop :=
  a.n.valueEq b.n = true ∧ a.i = b.i ∧ a.v = b.v ∧ a.w = b.w ∧ a.f = b.f ∧ a.t = b.t

theorem digitsToNat_zero_cons (l : List Nat) : digitsToNat (0 :: l) = digitsToNat l := by
  simp [digitsToNat]

theorem digitsToNat_stripLeading : ∀ (l : List Nat), digitsToNat (stripLeadingZeros l) = digitsToNat l
  | [] => by simp [stripLeadingZeros]
  | [y] => by cases y <;> simp [stripLeadingZeros]
  | 0 :: d :: rest => by
    rw [stripLeadingZeros, digitsToNat_zero_cons]; exact digitsToNat_stripLeading (d :: rest)
  | (n + 1) :: d :: rest => by simp [stripLeadingZeros]

theorem nInt_congr {a b : Operands} (h : Same a b) : a.nInt = b.nInt := by
  have hv := h.1
  unfold Dec.valueEq at hv
  simp only [Bool.and_eq_true, beq_iff_eq, Prod.mk.injEq] at hv
  obtain ⟨⟨hi, hf⟩, _⟩ := hv
  unfold Operands.nInt
  rw [hf]
  have : digitsToNat a.n.int = digitsToNat b.n.int := by
    rw [← digitsToNat_stripLeading a.n.int, ← digitsToNat_stripLeading b.n.int, hi]
  rw [this]

/-- a rule function that looks at `n` only through its numeric value (true of every CLDR rule) -/
def RespectsValue (rule : NumType → Rule) : Prop := ∀ ty a b, Same a b → rule ty a = rule ty b

theorem cldrRule_respects (lang : String) : RespectsValue (cldrRule lang) := by
  intro ty a b h
  have hn := nInt_congr h
  obtain ⟨_, hi, hv, hw, hf, ht⟩ := h
  unfold cldrRule
  split <;> split <;>
    simp only [cardEn, cardPl, cardRu, cardAr, cardFr, cardCs, cardLt, cardJa, cardSl, cardCy, cardRo,
      ordEn, ordFr, ordUk, ordCy, ordSv, ordOther, nEq, nModEq, nModIn, hn, hi, hv, hf] <;> rfl

theorem crateRule_respects (lang : String) : RespectsValue (crateRule lang) := by
  intro ty a b h
  have hc := cldrRule_respects lang ty a b h
  have hn := nInt_congr h
  obtain ⟨_, hi, hv, hw, hf, ht⟩ := h
  unfold crateRule
  split <;> first
    | exact hc
    | (simp only [crateCardAr, crateCardLt, crateCardRo, crateOrdEn, crateOrdUk, crateOrdSv, nEq, nModEq, nModIn,
        hn, hi, hv, hf] <;> rfl)

/-! ## the select loop -/

theorem firstMatch_append (cat : FluentNumber → Option Category) (sel : Val)
    (pre : List (Key × Bool)) (post : List (Key × Bool)) (i : Nat)
    (hpre : ∀ kd ∈ pre, ∃ kv, keyValue kd.1 = .val kv ∧ keyMatches cat kv sel = some false) :
    firstMatch cat sel (pre ++ post) i = firstMatch cat sel post (i + pre.length) := by
  induction pre generalizing i with
  | nil => simp
  | cons p t ih =>
    obtain ⟨k, d⟩ := p
    obtain ⟨kv, h1, h2⟩ := hpre (k, d) (by simp)
    simp only [List.cons_append, firstMatch, h1, h2]
    rw [ih (i + 1) (fun kd hkd => hpre kd (by simp [hkd]))]
    simp only [List.length_cons]
    congr 1
    omega

theorem firstMatch_none (cat : FluentNumber → Option Category) (sel : Val)
    (vs : List (Key × Bool)) (i : Nat)
    (h : ∀ kd ∈ vs, ∃ kv, keyValue kd.1 = .val kv ∧ keyMatches cat kv sel = some false) :
    firstMatch cat sel vs i = none := by
  have := firstMatch_append cat sel vs [] i h
  simpa [firstMatch] using this

end FluentProofs.Num
