import FluentProofs.ParserLocalPreExpr2
/-!
# Locality of the parser, PREFIX family, part 5: attributes, messages, terms, comments, entries

Under `Pre n s₁ s₂` a successful entry-level run on `s₁` started before `n` ends at or before `n` and is reproduced on
`s₂`.  Two provisos:

* `get_attributes` swallows the error of a failing attribute, and a failing attribute of `s₁` need not fail the same
  way on `s₂`; the hypothesis "the result cursor is not followed by an attribute-looking line"
  (`s₁[skipBlankInline s₁ q]? ≠ some 46`) excludes it;
* a comment whose last line ends at the end of `s₁` leaves the cursor at `n` on `s₁`, but at the final line feed
  (`n - 1`) on `s₂` when `s₂` goes on.
-/
namespace FluentProofs.Parser
open FluentModel.Syntax

section
variable {n : Nat} {s₁ s₂ : Src}

theorem getAttribute_pre (h : Pre n s₁ s₂) {F p : Nat} {a : Attribute Span} {q : Nat} (hp : p < n)
    (hr : getAttribute s₁ F p = .ok a q) : q ≤ n ∧ ∀ M, F ≤ M → getAttribute s₂ M p = .ok a q := by
  unfold getAttribute at hr
  rcases hid : getIdentifier s₁ p with ⟨id, q0⟩ | ⟨e1, q1⟩ | m' | _ <;> simp only [hid] at hr <;> try contradiction
  rcases hx : expectByte s₁ (skipBlankInline s₁ q0) 61 with ⟨u, q2⟩ | ⟨e1, q2⟩ | m' | _ <;> simp only [hx] at hr <;>
    try contradiction
  obtain ⟨rfl, hb⟩ := pre_expectByte_ok hx
  rcases hpat : getPattern s₁ F (skipBlankInline s₁ q0 + 1) with ⟨o, q3⟩ | ⟨e1, q3⟩ | m' | _ <;> simp only [hpat] at hr <;>
    try contradiction
  have hq0 := ((getIdentifier_pre h hp).2 id q0 hid).1
  have hq1 : skipBlankInline s₁ q0 + 1 < n := h.succ_lt hb (by decide)
  obtain ⟨c1, c2⟩ := getPattern_pre h hq1 hpat
  have e : q3 = q := by
    cases o with
    | none => simp only [] at hr; contradiction
    | some pat => simp only [] at hr; injection hr
  refine ⟨by omega, fun M hM => ?_⟩
  unfold getAttribute
  rw [(getIdentifier_pre h hp).1, hid]
  simp only []
  rw [skipBlankInline_pre h (Nat.le_of_lt hq0), expectByte_pre h (by omega), hx]
  simp only []
  rw [c2 M hM]
  exact hr

theorem getAttributesGo_pre (h : Pre n s₁ s₂) (F k₁ : Nat) : ∀ (acc : List (Attribute Span)) (p : Nat)
    (attrs : List (Attribute Span)) (q : Nat), p ≤ n → getAttributesGo s₁ F k₁ acc p = .ok attrs q →
    s₁[skipBlankInline s₁ q]? ≠ some 46 →
    q ≤ n ∧ ∀ M, F ≤ M → ∀ k₂, k₁ ≤ k₂ → getAttributesGo s₂ M k₂ acc p = .ok attrs q := by
  induction k₁ with
  | zero => intro acc p attrs q _ hr; simp [getAttributesGo] at hr
  | succ k₁ ih =>
    intro acc p attrs q hp hr hdot
    simp only [getAttributesGo] at hr
    have hp1 := skipBlankInline_le_n h hp
    rcases takeByteIf_cases s₁ (skipBlankInline s₁ p) 46 with ⟨ht, hb⟩ | ⟨ht, hnb⟩ <;> rw [ht] at hr <;>
      simp only [] at hr
    · simp only [Bool.not_true, Bool.false_eq_true, if_false] at hr
      have hp2 : skipBlankInline s₁ p + 1 < n := h.succ_lt hb (by decide)
      cases ha : getAttribute s₁ F (skipBlankInline s₁ p + 1) with
      | ok a q' =>
        simp only [ha] at hr
        obtain ⟨c1, c2⟩ := getAttribute_pre h hp2 ha
        obtain ⟨d1, d2⟩ := ih _ _ _ _ c1 hr hdot
        refine ⟨d1, fun M hM k₂ hk => ?_⟩
        obtain ⟨k₂', rfl⟩ : ∃ k, k₂ = k + 1 := ⟨k₂ - 1, by omega⟩
        simp only [getAttributesGo]
        rw [skipBlankInline_pre h hp, takeByteIf_pre h (by omega), ht]
        simp only [Bool.not_true, Bool.false_eq_true, if_false]
        rw [c2 M hM]
        exact d2 M hM k₂' (by omega)
      | err e q' =>
        simp only [ha] at hr
        injection hr with h1 h2
        subst h2
        exact absurd hb hdot
      | panic m' => simp only [ha] at hr; contradiction
      | fuel => simp only [ha] at hr; contradiction
    · simp only [Bool.not_false, if_true] at hr
      injection hr with h1 h2
      subst h1 h2
      refine ⟨hp, fun M hM k₂ hk => ?_⟩
      obtain ⟨k₂', rfl⟩ : ∃ k, k₂ = k + 1 := ⟨k₂ - 1, by omega⟩
      simp only [getAttributesGo]
      rw [skipBlankInline_pre h hp, takeByteIf_pre' h hp1 (by decide), ht]
      simp only [Bool.not_false, if_true]

theorem getAttributes_pre (h : Pre n s₁ s₂) {F p : Nat} {attrs : List (Attribute Span)} {q : Nat} (hp : p ≤ n)
    (hr : getAttributes s₁ F p = .ok attrs q) (hdot : s₁[skipBlankInline s₁ q]? ≠ some 46) :
    q ≤ n ∧ ∀ M, F ≤ M → getAttributes s₂ M p = .ok attrs q := by
  unfold getAttributes at hr
  obtain ⟨c1, c2⟩ := getAttributesGo_pre h F _ _ _ _ _ hp hr hdot
  refine ⟨c1, fun M hM => ?_⟩
  unfold getAttributes
  exact c2 M hM _ (by have := h.size; have := h.le₂; omega)

theorem getMessage_pre (h : Pre n s₁ s₂) {F es p : Nat} {m : Message Span} {q : Nat} (hp : p < n)
    (hr : getMessage s₁ F es p = .ok m q) (hdot : s₁[skipBlankInline s₁ q]? ≠ some 46) :
    q ≤ n ∧ ∀ M, F ≤ M → getMessage s₂ M es p = .ok m q := by
  unfold getMessage at hr
  rcases hid : getIdentifier s₁ p with ⟨id, q0⟩ | ⟨e1, q1⟩ | m' | _ <;> simp only [hid] at hr <;> try contradiction
  rcases hx : expectByte s₁ (skipBlankInline s₁ q0) 61 with ⟨u, q2⟩ | ⟨e1, q2⟩ | m' | _ <;> simp only [hx] at hr <;>
    try contradiction
  obtain ⟨rfl, hb⟩ := pre_expectByte_ok hx
  rcases hpat : getPattern s₁ F (skipBlankInline s₁ q0 + 1) with ⟨o, q3⟩ | ⟨e1, q3⟩ | m' | _ <;> simp only [hpat] at hr <;>
    try contradiction
  rcases hat : getAttributes s₁ F (skipBlankBlock s₁ q3).fst with ⟨attrs, q5⟩ | ⟨e1, q5⟩ | m' | _ <;>
    simp only [hat] at hr <;> try contradiction
  have hq0 := ((getIdentifier_pre h hp).2 id q0 hid).1
  have hq1 : skipBlankInline s₁ q0 + 1 < n := h.succ_lt hb (by decide)
  obtain ⟨c1, c2⟩ := getPattern_pre h hq1 hpat
  have e : q5 = q := by
    split at hr
    · contradiction
    · injection hr
  obtain ⟨d1, d2⟩ := getAttributes_pre h (skipBlankBlock_le_n h c1) hat (e ▸ hdot)
  refine ⟨by omega, fun M hM => ?_⟩
  unfold getMessage
  rw [(getIdentifier_pre h hp).1, hid]
  simp only []
  rw [skipBlankInline_pre h (Nat.le_of_lt hq0), expectByte_pre h (by omega), hx]
  simp only []
  rw [c2 M hM]
  simp only []
  rw [skipBlankBlock_pre h c1, d2 M hM]
  exact hr

theorem getTerm_pre (h : Pre n s₁ s₂) {F es p : Nat} {t : Term Span} {q : Nat} (hp : p < n)
    (hr : getTerm s₁ F es p = .ok t q) (hdot : s₁[skipBlankInline s₁ q]? ≠ some 46) :
    q ≤ n ∧ ∀ M, F ≤ M → getTerm s₂ M es p = .ok t q := by
  unfold getTerm at hr
  rcases hx0 : expectByte s₁ p 45 with ⟨u0, p0⟩ | ⟨e1, q1⟩ | m' | _ <;> simp only [hx0] at hr <;> try contradiction
  obtain ⟨rfl, hb0⟩ := pre_expectByte_ok hx0
  have hp0 : p + 1 < n := h.succ_lt hb0 (by decide)
  rcases hid : getIdentifier s₁ (p + 1) with ⟨id, q0⟩ | ⟨e1, q1⟩ | m' | _ <;> simp only [hid] at hr <;> try contradiction
  rcases hx : expectByte s₁ (skipBlankInline s₁ q0) 61 with ⟨u, q2⟩ | ⟨e1, q2⟩ | m' | _ <;> simp only [hx] at hr <;>
    try contradiction
  obtain ⟨rfl, hb⟩ := pre_expectByte_ok hx
  rcases hpat : getPattern s₁ F (skipBlankInline s₁ (skipBlankInline s₁ q0 + 1)) with ⟨o, q3⟩ | ⟨e1, q3⟩ | m' | _ <;>
    simp only [hpat] at hr <;> try contradiction
  rcases hat : getAttributes s₁ F (skipBlankBlock s₁ q3).fst with ⟨attrs, q5⟩ | ⟨e1, q5⟩ | m' | _ <;>
    simp only [hat] at hr <;> try contradiction
  have hq0 := ((getIdentifier_pre h hp0).2 id q0 hid).1
  have hq1 : skipBlankInline s₁ q0 + 1 < n := h.succ_lt hb (by decide)
  have hq2 := skipBlankInline_lt_n h hq1
  obtain ⟨c1, c2⟩ := getPattern_pre h hq2 hpat
  have e : q5 = q := by
    cases o with
    | none => simp only [] at hr; contradiction
    | some v => simp only [] at hr; injection hr
  obtain ⟨d1, d2⟩ := getAttributes_pre h (skipBlankBlock_le_n h c1) hat (e ▸ hdot)
  refine ⟨by omega, fun M hM => ?_⟩
  unfold getTerm
  rw [expectByte_pre h hp, hx0]
  simp only []
  rw [(getIdentifier_pre h hp0).1, hid]
  simp only []
  rw [skipBlankInline_pre h (Nat.le_of_lt hq0), expectByte_pre h (by omega), hx]
  simp only []
  rw [skipBlankInline_pre h (Nat.le_of_lt hq1), c2 M hM]
  simp only []
  rw [skipBlankBlock_pre h c1, d2 M hM]
  exact hr

/-! ## comments -/

/-- how the cursor `q'` left by `get_comment` on `s₂` relates to the cursor `q` left on `s₁` -/
def CurRel (n : Nat) (s₂ : Src) (q q' : Nat) : Prop := q' = q ∨ (q = n ∧ q' + 1 = n ∧ n < s₂.size)

theorem pre_usub_some {a b c : Nat} (h : usub a b = some c) : c = a - b ∧ b ≤ a := by
  unfold usub at h
  split at h
  · injection h with h; exact ⟨h.symm, by assumption⟩
  · cases h

theorem getCommentGo_pre (h : Pre n s₁ s₂) (hn : 0 < n) (k₁ : Nat) : ∀ (k₂ level : Nat) (content : List Span) (p : Nat)
    (v : List Span × Nat) (q : Nat), p ≤ n → k₁ ≤ k₂ → getCommentGo s₁ k₁ level content p = .ok v q →
    q ≤ n ∧ ∃ q', getCommentGo s₂ k₂ level content p = .ok v q' ∧ CurRel n s₂ q q' := by
  induction k₁ with
  | zero => intro k₂ level content p v q _ _ hr; simp [getCommentGo] at hr
  | succ k₁ ih =>
    intro k₂ level content p v q hp hk hr
    obtain ⟨k₂, rfl⟩ : ∃ k, k₂ = k + 1 := ⟨k₂ - 1, by omega⟩
    simp only [getCommentGo] at hr ⊢
    by_cases hpn : p = n
    · -- at the seam
      rw [hpn] at hr ⊢
      rw [if_neg (by rw [h.size]; omega)] at hr
      have hq : q = n := by injection hr with _ h2; exact h2.symm
      by_cases hlt : n < s₂.size
      · rw [if_pos hlt]
        have e1 : getCommentLevel s₁ n = (0, n) := by
          rcases getCommentLevel_cases s₁ n with ⟨hl, _⟩ | ⟨l, _, _, _, h35, _⟩
          · exact hl
          · rw [h.none₁ (Nat.le_refl _)] at h35; cases h35
        rw [getCommentLevel_pre h (Nat.le_refl _), e1]
        simp only [beq_self_eq_true, if_true, usub, show 1 ≤ n from hn]
        refine ⟨by omega, n - 1, ?_, Or.inr ⟨hq, by omega, hlt⟩⟩
        injection hr with h1 _
        rw [h1]
      · rw [if_neg hlt]
        exact ⟨by omega, q, by rw [hq] at hr ⊢; exact hr, Or.inl rfl⟩
    · have hlt : p < n := by omega
      rw [if_pos (show p < s₁.size by rw [h.size]; exact hlt)] at hr
      rw [if_pos (h.lt₂ hlt), getCommentLevel_pre h hp]
      -- the recursive step shared by the two `get_comment_line` arms
      have step : ∀ l p2, p2 < n → k₁ ≤ k₂ →
          (match getCommentLine s₁ p2 with
            | .ok line q => getCommentGo s₁ k₁ l (content ++ [line]) ((skipEol s₁ q).getD q)
            | .err e q => .err e q
            | .panic m => .panic m
            | .fuel => .fuel) = R.ok v q →
          q ≤ n ∧ ∃ q',
            (match getCommentLine s₂ p2 with
              | .ok line q => getCommentGo s₂ k₂ l (content ++ [line]) ((skipEol s₂ q).getD q)
              | .err e q => .err e q
              | .panic m => .panic m
              | .fuel => .fuel) = R.ok v q' ∧ CurRel n s₂ q q' := by
        intro l p2 hp2 hk' hs
        rw [(getCommentLine_pre h hp2).1]
        rcases hcl : getCommentLine s₁ p2 with ⟨line, q0⟩ | ⟨e1, q1⟩ | m' | _ <;> simp only [hcl] at hs ⊢ <;>
          try contradiction
        have hq0 := (getCommentLine_pre h hp2).2 line q0 hcl
        rw [skipEol_pre h (Nat.le_of_lt hq0)]
        refine ih k₂ l _ _ v q ?_ hk' hs
        cases hE : skipEol s₁ q0 with
        | none => simp only [Option.getD_none]; omega
        | some q1 => simp only [Option.getD_some]; exact skipEol_le_n h hE
      rcases getCommentLevel_cases s₁ p with ⟨hl, _⟩ | ⟨l, hl1, hl3, hl, h35, h35'⟩ <;> rw [hl] at hr ⊢ <;>
        simp only [] at hr ⊢
      · -- not a comment line: `ptr -= 1`
        refine ⟨?_, q, hr, Or.inl rfl⟩
        simp only [beq_self_eq_true, if_true] at hr
        split at hr
        · rename_i q0 hu
          have := pre_usub_some hu
          injection hr with _ h2
          omega
        · contradiction
      · have hl0 : (l == 0) = false := by simp; omega
        have hpl : p + l < n := by
          have := h.succ_lt h35' (by decide)
          omega
        simp only [hl0, Bool.false_eq_true, if_false] at hr ⊢
        split at hr
        · -- a comment of another level: `ptr -= level`
          rename_i hc
          rw [if_pos hc]
          refine ⟨?_, q, hr, Or.inl rfl⟩
          split at hr
          · rename_i q0 hu
            have := pre_usub_some hu
            injection hr with _ h2
            omega
          · contradiction
        · rename_i hc
          rw [if_neg hc, isEol_pre h hpl]
          split at hr
          · rename_i hc2
            rw [if_pos hc2]
            exact step l (p + l) hpl (by omega) hr
          · rename_i hc2
            rw [if_neg hc2, expectByte_pre h hpl]
            cases hx : expectByte s₁ (p + l) 32 with
            | ok u p2 =>
              simp only [hx] at hr ⊢
              obtain ⟨rfl, h32⟩ := pre_expectByte_ok hx
              exact step l (p + l + 1) (h.succ_lt h32 (by decide)) (by omega) hr
            | err e q0 =>
              simp only [hx] at hr ⊢
              refine ⟨?_, q, hr, Or.inl rfl⟩
              split at hr
              · contradiction
              · split at hr
                · rename_i q1 hu
                  have := pre_usub_some hu
                  injection hr with _ h2
                  omega
                · contradiction
            | panic m' => simp only [hx] at hr; contradiction
            | fuel => simp only [hx] at hr; contradiction

theorem getComment_pre (h : Pre n s₁ s₂) {p : Nat} {v : List Span × Nat} {q : Nat} (hp : p < n)
    (hr : getComment s₁ p = .ok v q) : q ≤ n ∧ ∃ q', getComment s₂ p = .ok v q' ∧ CurRel n s₂ q q' := by
  unfold getComment at hr ⊢
  exact getCommentGo_pre h (by omega) _ _ _ _ _ _ _ (Nat.le_of_lt hp) (by have := h.size; have := h.le₂; omega) hr

/-! ## entries -/

theorem getEntry_pre (h : Pre n s₁ s₂) {F₁ F₂ p : Nat} {e : Entry Span} {q : Nat} (hF : F₁ ≤ F₂) (hp : p < n)
    (hr : getEntry s₁ F₁ p = .ok e q) (hdot : s₁[p]? ≠ some 35 → s₁[skipBlankInline s₁ q]? ≠ some 46) :
    q ≤ n ∧ ∃ q', getEntry s₂ F₂ p = .ok e q' ∧ CurRel n s₂ q q' := by
  unfold getEntry at hr ⊢
  rw [h.get p hp]
  split at hr
  · rcases hc : getComment s₁ p with ⟨⟨content, level⟩, q0⟩ | ⟨e1, q1⟩ | m' | _ <;> simp only [hc] at hr <;>
      try contradiction
    obtain ⟨c1, q', c2, c3⟩ := getComment_pre h hp hc
    rw [c2]
    simp only []
    split at hr
    · rename_i hl
      rw [if_pos hl]
      injection hr with h1 h2
      subst h2
      exact ⟨c1, q', by rw [h1], c3⟩
    · rename_i hl
      rw [if_neg hl]
      split at hr
      · rename_i hl2
        rw [if_pos hl2]
        injection hr with h1 h2
        subst h2
        exact ⟨c1, q', by rw [h1], c3⟩
      · rename_i hl2
        rw [if_neg hl2]
        split at hr
        · rename_i hl3
          rw [if_pos hl3]
          injection hr with h1 h2
          subst h2
          exact ⟨c1, q', by rw [h1], c3⟩
        · contradiction
  · rename_i h45
    rcases ht : getTerm s₁ F₁ p p with ⟨t, q0⟩ | ⟨e1, q1⟩ | m' | _ <;> simp only [ht] at hr <;> try contradiction
    injection hr with h1 h2
    subst h1 h2
    obtain ⟨c1, c2⟩ := getTerm_pre h hp ht (hdot (by rw [h45]; decide))
    rw [c2 F₂ hF]
    exact ⟨c1, q0, rfl, Or.inl rfl⟩
  · rename_i h35 _
    rcases hm : getMessage s₁ F₁ p p with ⟨t, q0⟩ | ⟨e1, q1⟩ | m' | _ <;> simp only [hm] at hr <;> try contradiction
    injection hr with h1 h2
    subst h1 h2
    obtain ⟨c1, c2⟩ := getMessage_pre h hp hm (hdot h35)
    rw [c2 F₂ hF]
    exact ⟨c1, q0, rfl, Or.inl rfl⟩

theorem getEntryRuntime_pre (h : Pre n s₁ s₂) {F₁ F₂ p : Nat} {o : Option (Entry Span)} {q : Nat} (hF : F₁ ≤ F₂)
    (hp : p < n) (hr : getEntryRuntime s₁ F₁ p = .ok o q)
    (hdot : s₁[p]? ≠ some 35 → s₁[skipBlankInline s₁ q]? ≠ some 46) :
    q ≤ n ∧ getEntryRuntime s₂ F₂ p = .ok o q := by
  unfold getEntryRuntime at hr ⊢
  rw [h.get p hp]
  split at hr
  · rw [(skipComment_pre h hp).1]
    refine ⟨?_, hr⟩
    injection hr with _ h2
    rw [← h2]; exact (skipComment_pre h hp).2
  · rename_i h45
    rcases ht : getTerm s₁ F₁ p p with ⟨t, q0⟩ | ⟨e1, q1⟩ | m' | _ <;> simp only [ht] at hr <;> try contradiction
    injection hr with h1 h2
    subst h1 h2
    obtain ⟨c1, c2⟩ := getTerm_pre h hp ht (hdot (by rw [h45]; decide))
    rw [c2 F₂ hF]
    exact ⟨c1, rfl⟩
  · rename_i h35 _
    rcases hm : getMessage s₁ F₁ p p with ⟨t, q0⟩ | ⟨e1, q1⟩ | m' | _ <;> simp only [hm] at hr <;> try contradiction
    injection hr with h1 h2
    subst h1 h2
    obtain ⟨c1, c2⟩ := getMessage_pre h hp hm (hdot h35)
    rw [c2 F₂ hF]
    exact ⟨c1, rfl⟩

/-! ## the blank block after an entry -/

/-- the cursors `q` (on `s₁`) and `q'` (on `s₂`) lead to the same entry start -/
theorem skipBlankBlock_curRel (h : Pre n s₁ s₂) {q q' : Nat} (hq : q ≤ n) (hrel : CurRel n s₂ q q') :
    (skipBlankBlock s₂ q').1 = (skipBlankBlock s₁ q).1 ∧
      ((skipBlankBlock s₂ q').2 = (skipBlankBlock s₁ q).2 ∨ (skipBlankBlock s₁ q).1 = n) := by
  rcases hrel with rfl | ⟨rfl, hq', hlt⟩
  · rw [skipBlankBlock_pre h hq]; exact ⟨rfl, Or.inl rfl⟩
  · have e1 : (skipBlankBlock s₁ q).1 = q := by
      have := skipBlankBlock_le_n h hq
      have := skipBlankBlock_le s₁ q
      omega
    refine ⟨?_, Or.inr e1⟩
    rw [e1]
    have h10 : s₂[q']? = some 10 := by
      have := h.last₂ (by omega)
      rwa [show q - 1 = q' by omega] at this
    have hsb : skipBlankInline s₂ q' = q' := skipBlankInline_of_ne (by rw [h10]; decide)
    have hse : skipEol s₂ q' = some q := by
      unfold skipEol; rw [h10]; simp only []; congr 1
    have hsb2 : skipBlankInline s₂ q = q := skipBlankInline_of_ne (h.ne_n (by decide))
    have hse2 : skipEol s₂ q = none := pre_skipEol_none_of (h.ne_n (by decide)) (h.ne_n (by decide))
    unfold skipBlankBlock
    obtain ⟨k, hk⟩ : ∃ k, s₂.size - q' + 1 = k + 2 := ⟨s₂.size - q' - 1, by omega⟩
    rw [hk]
    simp only [skipBlankBlockGo, hsb, hse, hsb2, hse2, hlt, if_true]

end
end FluentProofs.Parser
