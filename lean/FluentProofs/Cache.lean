import FluentModel.Cache
/-!
# Lemmas about the cache LTS (`FluentModel.Cache`): safety invariants

`Safe all s` – the cache and the unread script together are the source's item order `all`, the pull
counter equals the cache length, every stream has been handed exactly the first `curr` cached items,
and a cursor beyond the cache exists only once the source has ended.
-/
namespace FluentProofs.Cache
open FluentModel.Cache

variable {α : Type}

/-! ### field projections of the state updates -/

@[simp] theorem modCons_cons (s : St α) (c : Task) (f) (t : Task) :
    (s.modCons c f).cons t = if t = c then f (s.cons c) else s.cons t := rfl
@[simp] theorem modCons_items (s : St α) (c : Task) (f) : (s.modCons c f).items = s.items := rfl
@[simp] theorem modCons_src (s : St α) (c : Task) (f) : (s.modCons c f).src = s.src := rfl
@[simp] theorem modCons_pending (s : St α) (c : Task) (f) : (s.modCons c f).pending = s.pending := rfl
@[simp] theorem modCons_wakeLog (s : St α) (c : Task) (f) : (s.modCons c f).wakeLog = s.wakeLog := rfl
@[simp] theorem modCons_grp (s : St α) (c : Task) (f) : (s.modCons c f).grp = s.grp := rfl

@[simp] theorem wake_items (s : St α) (t : Task) : (s.wake t).items = s.items := rfl
@[simp] theorem wake_src (s : St α) (t : Task) : (s.wake t).src = s.src := rfl
@[simp] theorem wake_pending (s : St α) (t : Task) : (s.wake t).pending = s.pending := rfl
@[simp] theorem wake_grp (s : St α) (t : Task) : (s.wake t).grp = s.grp := rfl
/-- waker `w` makes every consumer of its group runnable, and touches nobody else -/
@[simp] theorem wake_cons (s : St α) (w u : Task) :
    (s.wake w).cons u = if s.grp u = w then { s.cons u with woken := true } else s.cons u := rfl

@[simp] theorem wakeAll_items (s : St α) (ts : List Task) : (s.wakeAll ts).items = s.items := by
  induction ts generalizing s with
  | nil => rfl
  | cons t r ih => simp [St.wakeAll, List.foldl] at ih ⊢; rw [ih]; rfl
@[simp] theorem wakeAll_src (s : St α) (ts : List Task) : (s.wakeAll ts).src = s.src := by
  induction ts generalizing s with
  | nil => rfl
  | cons t r ih => simp [St.wakeAll, List.foldl] at ih ⊢; rw [ih]; rfl
@[simp] theorem wakeAll_pending (s : St α) (ts : List Task) : (s.wakeAll ts).pending = s.pending := by
  induction ts generalizing s with
  | nil => rfl
  | cons t r ih => simp [St.wakeAll, List.foldl] at ih ⊢; rw [ih]; rfl
@[simp] theorem wakeAll_grp (s : St α) (ts : List Task) : (s.wakeAll ts).grp = s.grp := by
  induction ts generalizing s with
  | nil => rfl
  | cons t r ih => simp [St.wakeAll, List.foldl] at ih ⊢; rw [ih]; rfl

/-- waking only ever sets `woken` flags: every other field of every consumer is untouched -/
theorem wakeAll_cons (s : St α) (ts : List Task) (u : Task) :
    (s.wakeAll ts).cons u = { s.cons u with woken := (s.cons u).woken || decide (s.grp u ∈ ts) } := by
  induction ts generalizing s with
  | nil => simp [St.wakeAll]
  | cons t r ih =>
    have : St.wakeAll s (t :: r) = St.wakeAll (s.wake t) r := rfl
    rw [this, ih]
    have hmem : decide (s.grp u ∈ t :: r) = (decide (s.grp u = t) || decide (s.grp u ∈ r)) := by
      simp
    rw [hmem]
    by_cases h : s.grp u = t
    · simp [h]
    · simp [h]; rfl


/-! ### the scripted source -/

theorem poll_ready_some {src src' : Source α} {w : Task} {it : α}
    (h : src.poll w = (src', .ready (some it))) :
    src.need = 0 ∧ ∃ n r, src.rest = (n, it) :: r ∧
      src' = { src with rest := r, polls := src.polls + 1, pulls := src.pulls + 1 } := by
  unfold Source.poll at h
  split at h
  · rename_i hn
    split at h
    · rename_i n it' r hr
      simp only [Prod.mk.injEq, PollRes.ready.injEq, Option.some.injEq] at h
      exact ⟨hn, n, r, by rw [hr, h.2], h.1.symm⟩
    · simp at h
  · simp at h

theorem poll_ready_none {src src' : Source α} {w : Task}
    (h : src.poll w = (src', .ready none)) :
    src.need = 0 ∧ src.rest = [] ∧ src.endNeed = 0 ∧ src' = { src with polls := src.polls + 1 } := by
  unfold Source.poll at h
  split at h
  · rename_i hn
    split at h
    · simp at h
    · rename_i hr
      simp only [Prod.mk.injEq] at h
      refine ⟨hn, hr, ?_, h.1.symm⟩
      simpa [Source.need, hr] using hn
  · simp at h

theorem poll_pending {src src' : Source α} {w : Task}
    (h : src.poll w = (src', .pending)) :
    src.need ≠ 0 ∧ src' = { src with waker := some w, polls := src.polls + 1 } := by
  unfold Source.poll at h
  split at h
  · split at h <;> simp at h
  · rename_i hn
    simp only [Prod.mk.injEq] at h
    exact ⟨hn, h.1.symm⟩

/-! ### safety invariant -/

structure Safe (all : List α) (s : St α) : Prop where
  /-- cache ++ unread script = the source's items, in order -/
  order : s.items ++ s.src.rest.map (·.2) = all
  /-- every item the source yielded is in the cache exactly once -/
  pulls : s.src.pulls = s.items.length
  /-- what a stream has delivered is the cache prefix up to its cursor -/
  got : ∀ c, (s.cons c).got = s.items.take (s.cons c).curr
  bound : ∀ c, (s.cons c).curr ≤ s.items.length + 1
  /-- a cursor beyond the cache means the source has ended (so the cache will not grow) -/
  over : ∀ c, s.items.length < (s.cons c).curr → s.src.rest = [] ∧ s.src.endNeed = 0

theorem safe_init (script : List (Nat × α)) (e : Nat) (grp : Task → Task := id) :
    Safe (script.map (·.2)) (init script e grp) := by
  constructor <;> simp [init]

theorem pollNextItem_pending {s s' : St α} {c : Task} (h : pollNextItem s c = (s', .pending)) :
    ∃ src', s.src.poll (s.grp c) = (src', .pending) ∧
      s' = { s with src := src', pending := s.pending ++ [s.grp c] } := by
  unfold pollNextItem at h
  split at h
  · simp at h
  · rename_i src' hp
    simp only [Prod.mk.injEq, and_true] at h
    exact ⟨src', hp, h.symm⟩

theorem pollNextItem_ready {s s' : St α} {c : Task} {v : Option α} (h : pollNextItem s c = (s', .ready v)) :
    ∃ src', s.src.poll (s.grp c) = (src', .ready v) ∧
      s' = St.wakeAll { s with src := src', pending := [] } s.pending := by
  unfold pollNextItem at h
  split at h
  · rename_i src' v' hp
    simp only [Prod.mk.injEq, PollRes.ready.injEq] at h
    exact ⟨src', by rw [hp, h.2], h.1.symm⟩
  · simp at h


/-- consumer update: the stream hands out `xs` and moves its cursor to `n` -/
def deliver (n : Nat) (xs : List α) (k : Consumer α) : Consumer α :=
  { k with curr := n, waiting := false, got := k.got ++ xs }
/-- consumer update: the stream reports the end and moves its cursor to `n` -/
def advance (n : Nat) (k : Consumer α) : Consumer α := { k with curr := n, waiting := false }
/-- consumer update: the stream returned `Pending` -/
def park (k : Consumer α) : Consumer α := { k with waiting := true }
/-- consumer update: the stream returned `Ready(None)` beyond the cache -/
def unpark (k : Consumer α) : Consumer α := { k with waiting := false }

/-- the five ways one `poll_next` of a stream can go, with the resulting state spelled out -/
inductive PollCase (s : St α) (c : Task) : St α × PollRes α → Prop
  | cached (h : (s.cons c).curr < s.items.length) :
    PollCase s c (s.modCons c (deliver ((s.cons c).curr + 1) (s.items[(s.cons c).curr]?).toList),
      .ready s.items[(s.cons c).curr]?)
  | pend (src' : Source α) (h : (s.cons c).curr = s.items.length)
      (hp : s.src.poll (s.grp c) = (src', .pending)) :
    PollCase s c (St.modCons { s with src := src', pending := s.pending ++ [s.grp c] } c park, .pending)
  | item (src' : Source α) (it : α) (h : (s.cons c).curr = s.items.length)
      (hp : s.src.poll (s.grp c) = (src', .ready (some it))) :
    PollCase s c (St.modCons { (St.wakeAll { s with src := src', pending := [] } s.pending) with
        items := s.items ++ [it] } c (deliver ((s.cons c).curr + 1) [it]), .ready (some it))
  | ended (src' : Source α) (h : (s.cons c).curr = s.items.length)
      (hp : s.src.poll (s.grp c) = (src', .ready none)) :
    PollCase s c (St.modCons (St.wakeAll { s with src := src', pending := [] } s.pending) c
        (advance ((s.cons c).curr + 1)), .ready none)
  | over (h : s.items.length < (s.cons c).curr) :
    PollCase s c (s.modCons c unpark, .ready none)

theorem pollNext_cases (s : St α) (c : Task) : PollCase s c (pollNext s c) := by
  unfold pollNext
  simp only []
  split
  · rename_i h; exact .cached h
  · rename_i h1
    split
    · rename_i h
      split
      · rename_i s' hq
        obtain ⟨src', hp, rfl⟩ := pollNextItem_pending hq
        exact .pend src' h hp
      · rename_i s' it hq
        obtain ⟨src', hp, rfl⟩ := pollNextItem_ready hq
        have := PollCase.item (s := s) (c := c) src' it h hp
        simp only [wakeAll_items]
        exact this
      · rename_i s' hq
        obtain ⟨src', hp, rfl⟩ := pollNextItem_ready hq
        exact .ended src' h hp
    · rename_i h2
      exact .over (by omega)


@[simp] theorem deliver_curr (n : Nat) (xs : List α) (k) : (deliver n xs k).curr = n := rfl
@[simp] theorem deliver_got (n : Nat) (xs : List α) (k) : (deliver n xs k).got = k.got ++ xs := rfl
@[simp] theorem deliver_waiting (n : Nat) (xs : List α) (k) : (deliver n xs k).waiting = false := rfl
@[simp] theorem deliver_active (n : Nat) (xs : List α) (k) : (deliver n xs k).active = k.active := rfl
@[simp] theorem deliver_woken (n : Nat) (xs : List α) (k) : (deliver n xs k).woken = k.woken := rfl
@[simp] theorem deliver_want (n : Nat) (xs : List α) (k) : (deliver n xs k).want = k.want := rfl
@[simp] theorem advance_curr (n : Nat) (k : Consumer α) : (advance n k).curr = n := rfl
@[simp] theorem advance_got (n : Nat) (k : Consumer α) : (advance n k).got = k.got := rfl
@[simp] theorem advance_waiting (n : Nat) (k : Consumer α) : (advance n k).waiting = false := rfl
@[simp] theorem advance_active (n : Nat) (k : Consumer α) : (advance n k).active = k.active := rfl
@[simp] theorem advance_woken (n : Nat) (k : Consumer α) : (advance n k).woken = k.woken := rfl
@[simp] theorem advance_want (n : Nat) (k : Consumer α) : (advance n k).want = k.want := rfl
@[simp] theorem park_curr (k : Consumer α) : (park k).curr = k.curr := rfl
@[simp] theorem park_got (k : Consumer α) : (park k).got = k.got := rfl
@[simp] theorem park_waiting (k : Consumer α) : (park k).waiting = true := rfl
@[simp] theorem park_active (k : Consumer α) : (park k).active = k.active := rfl
@[simp] theorem park_woken (k : Consumer α) : (park k).woken = k.woken := rfl
@[simp] theorem park_want (k : Consumer α) : (park k).want = k.want := rfl
@[simp] theorem unpark_curr (k : Consumer α) : (unpark k).curr = k.curr := rfl
@[simp] theorem unpark_got (k : Consumer α) : (unpark k).got = k.got := rfl
@[simp] theorem unpark_waiting (k : Consumer α) : (unpark k).waiting = false := rfl
@[simp] theorem unpark_active (k : Consumer α) : (unpark k).active = k.active := rfl
@[simp] theorem unpark_woken (k : Consumer α) : (unpark k).woken = k.woken := rfl
@[simp] theorem unpark_want (k : Consumer α) : (unpark k).want = k.want := rfl

theorem safe_pollNext {all : List α} {s : St α} (c : Task) (hs : Safe all s) :
    Safe all (pollNext s c).1 := by
  have hc := pollNext_cases s c
  generalize pollNext s c = r at hc
  cases hc with
  | cached h =>
    refine ⟨hs.order, hs.pulls, ?_, ?_, ?_⟩
    · intro t
      by_cases ht : t = c
      · subst ht
        simp [hs.got, List.take_add_one]
      · simp [ht, hs.got]
    · intro t
      by_cases ht : t = c
      · subst ht; simp; omega
      · simp [ht, hs.bound]
    · intro t
      by_cases ht : t = c
      · subst ht; simp; omega
      · simpa [ht] using hs.over t
  | pend src' h hp =>
    obtain ⟨_, rfl⟩ := poll_pending hp
    refine ⟨hs.order, hs.pulls, ?_, ?_, ?_⟩
    · intro t
      by_cases ht : t = c
      · subst ht; simp [hs.got]
      · simp [ht, hs.got]
    · intro t
      by_cases ht : t = c
      · subst ht; simp [hs.bound]
      · simp [ht, hs.bound]
    · intro t
      by_cases ht : t = c
      · subst ht; simpa using hs.over t
      · simpa [ht] using hs.over t
  | item src' it h hp =>
    obtain ⟨_, n, r, hr, rfl⟩ := poll_ready_some hp
    have hover : ∀ t, (s.cons t).curr ≤ s.items.length := by
      intro t
      rcases Nat.lt_or_ge s.items.length (s.cons t).curr with hlt | hge
      · have := (hs.over t hlt).1; rw [hr] at this; cases this
      · exact hge
    refine ⟨?_, ?_, ?_, ?_, ?_⟩
    · have := hs.order; rw [hr] at this; simpa using this
    · simp [hs.pulls]
    · intro t
      by_cases ht : t = c
      · subst ht
        simp [wakeAll_cons, hs.got, h]
        exact (List.take_of_length_le (by simp)).symm
      · have := hover t
        simp [ht, wakeAll_cons, hs.got, List.take_append_of_le_length this]
    · intro t
      by_cases ht : t = c
      · subst ht; simp [h]
      · have := hover t
        simp [ht, wakeAll_cons]; omega
    · intro t
      by_cases ht : t = c
      · subst ht; simp [h]
      · have := hover t
        simp [ht, wakeAll_cons]; omega
  | ended src' h hp =>
    obtain ⟨_, hr, he, rfl⟩ := poll_ready_none hp
    refine ⟨?_, ?_, ?_, ?_, ?_⟩
    · simpa using hs.order
    · simpa using hs.pulls
    · intro t
      by_cases ht : t = c
      · subst ht
        simp [wakeAll_cons, hs.got, h, List.take_of_length_le]
      · simp [ht, wakeAll_cons, hs.got]
    · intro t
      by_cases ht : t = c
      · subst ht; simp [h]
      · simpa [ht, wakeAll_cons] using hs.bound t
    · intro t _
      simp [hr, he]
  | over h =>
    refine ⟨hs.order, hs.pulls, ?_, ?_, ?_⟩
    · intro t
      by_cases ht : t = c
      · subst ht; simp [hs.got]
      · simp [ht, hs.got]
    · intro t
      by_cases ht : t = c
      · subst ht; simp [hs.bound]
      · simp [ht, hs.bound]
    · intro t
      by_cases ht : t = c
      · subst ht; simpa using hs.over t
      · simpa [ht] using hs.over t


/-- updates that leave cursor and deliveries of every consumer alone keep `Safe` -/
theorem safe_of_same {all : List α} {s s' : St α} (hs : Safe all s)
    (hi : s'.items = s.items) (hr : s'.src.rest = s.src.rest) (he : s'.src.endNeed = s.src.endNeed)
    (hp : s'.src.pulls = s.src.pulls)
    (hc : ∀ t, (s'.cons t).curr = (s.cons t).curr ∧ (s'.cons t).got = (s.cons t).got) : Safe all s' := by
  refine ⟨?_, ?_, ?_, ?_, ?_⟩
  · rw [hi, hr]; exact hs.order
  · rw [hi, hp]; exact hs.pulls
  · intro t; rw [(hc t).1, (hc t).2, hi]; exact hs.got t
  · intro t; rw [(hc t).1, hi]; exact hs.bound t
  · intro t; rw [(hc t).1, hi, hr, he]; exact hs.over t

theorem safe_clearWoken {all : List α} {s : St α} (c : Task) (hs : Safe all s) :
    Safe all (clearWoken s c) := by
  refine safe_of_same hs rfl rfl rfl rfl ?_
  intro t; by_cases ht : t = c
  · subst ht; simp [clearWoken]
  · simp [clearWoken, ht]

theorem safe_startReq {all : List α} {s : St α} (c : Task) (d : Nat) (hs : Safe all s) :
    Safe all (startReq s c d) := by
  unfold startReq
  split
  · exact hs
  · refine ⟨hs.order, hs.pulls, ?_, ?_, ?_⟩
    · intro t; by_cases ht : t = c
      · subst ht; simp
      · simp [ht, hs.got]
    · intro t; by_cases ht : t = c
      · subst ht; simp
      · simp [ht, hs.bound]
    · intro t; by_cases ht : t = c
      · subst ht; simp
      · simpa [ht] using hs.over t

theorem safe_finishReq {all : List α} {s : St α} (c : Task) (hs : Safe all s) :
    Safe all (finishReq s c) := by
  unfold finishReq
  split
  · exact hs
  · refine safe_of_same hs rfl rfl rfl rfl ?_
    intro t; by_cases ht : t = c
    · subst ht; simp
    · simp [ht]

theorem fire_cases (src : Source α) :
    (src.need = 0 ∧ src.fire = (src, none)) ∨
    (src.need ≠ 0 ∧ ∃ src', src.fire = (src', src.waker) ∧ src'.need + 1 = src.need ∧
      src'.rest.map (·.2) = src.rest.map (·.2) ∧ (src'.rest = [] ↔ src.rest = []) ∧
      src'.pulls = src.pulls ∧ src'.polls = src.polls ∧ src'.waker = none ∧
      (src.rest = [] → src'.endNeed + 1 = src.endNeed) ∧ (src.rest ≠ [] → src'.endNeed = src.endNeed)) := by
  unfold Source.fire
  by_cases h : src.need = 0
  · left; simp [h]
  · right
    refine ⟨h, ?_⟩
    simp only [h, if_false]
    cases hr : src.rest with
    | nil =>
      simp only [Source.need, hr] at h
      refine ⟨_, rfl, ?_⟩
      simp [Source.need, hr]; omega
    | cons p r =>
      obtain ⟨n, it⟩ := p
      simp only [Source.need, hr] at h
      refine ⟨_, rfl, ?_⟩
      simp [Source.need, hr]; omega

theorem safe_fireSrc {all : List α} {s : St α} (hs : Safe all s) : Safe all (fireSrc s) := by
  unfold fireSrc
  rcases fire_cases s.src with ⟨_, h⟩ | ⟨hn, src', h, _, hm, hnil, hpu, _, _, he1, he2⟩
  · rw [h]; exact hs
  · rw [h]
    have key : Safe all { s with src := src' } := by
      refine ⟨?_, ?_, hs.got, hs.bound, ?_⟩
      · show s.items ++ src'.rest.map (·.2) = all
        rw [hm]; exact hs.order
      · show src'.pulls = s.items.length
        rw [hpu]; exact hs.pulls
      · intro t ht
        have := hs.over t ht
        exfalso
        apply hn
        simp [Source.need, this.1, this.2]
    cases hw : s.src.waker with
    | none => exact key
    | some w =>
      refine safe_of_same key rfl rfl rfl rfl ?_
      intro t; by_cases ht : s.grp t = w
      · simp [ht]
      · simp [ht]

/-! ### the waker assignment `grp` never changes -/

@[simp] theorem pollNext_grp (s : St α) (c : Task) : (pollNext s c).1.grp = s.grp := by
  have hc := pollNext_cases s c
  generalize pollNext s c = r at hc
  cases hc <;> simp

@[simp] theorem clearWoken_grp (s : St α) (c : Task) : (clearWoken s c).grp = s.grp := rfl

@[simp] theorem startReq_grp (s : St α) (c : Task) (d : Nat) : (startReq s c d).grp = s.grp := by
  unfold startReq; split <;> rfl

@[simp] theorem finishReq_grp (s : St α) (c : Task) : (finishReq s c).grp = s.grp := by
  unfold finishReq; split <;> rfl

@[simp] theorem fireSrc_grp (s : St α) : (fireSrc s).grp = s.grp := by
  unfold fireSrc; split <;> rfl

@[simp] theorem step_grp (s : St α) (l : Label) : (step s l).grp = s.grp := by
  cases l with
  | start c d => exact startReq_grp s c d
  | poll c fresh =>
    simp only [step]
    split
    · cases fresh <;> simp
    · rfl
  | finish c => exact finishReq_grp s c
  | fire => exact fireSrc_grp s

@[simp] theorem run_grp (s : St α) (ls : List Label) : (run s ls).grp = s.grp := by
  induction ls generalizing s with
  | nil => rfl
  | cons l r ih => exact (ih (step s l)).trans (step_grp s l)

theorem safe_step {all : List α} {s : St α} (l : Label) (hs : Safe all s) : Safe all (step s l) := by
  cases l with
  | start c d => exact safe_startReq c d hs
  | poll c fresh =>
    simp only [step]
    split
    · cases fresh
      · exact safe_pollNext c hs
      · exact safe_pollNext c (safe_clearWoken c hs)
    · exact hs
  | finish c => exact safe_finishReq c hs
  | fire => exact safe_fireSrc hs

theorem safe_run {all : List α} {s : St α} (ls : List Label) (hs : Safe all s) : Safe all (run s ls) := by
  induction ls generalizing s with
  | nil => exact hs
  | cons l r ih => exact ih (safe_step l hs)

end FluentProofs.Cache
