import FluentModel.Pseudo
/-!
# Lemmas for C20 (pseudolocalisation)

`imgChar` / `image` are the specification written from the property text: every ASCII letter is replaced
by its table counterpart for the selected style (doubled exactly for `a e o u` when elongation is on), every
other character is left untouched and in place.
-/
namespace FluentProofs.Pseudo
open FluentModel FluentModel.Pseudo

/-! ## specification -/

def smallOf (T : Tables) (flipped : Bool) : List Nat := if flipped then T.flippedSmall else T.small
def capsOf (T : Tables) (flipped : Bool) : List Nat := if flipped then T.flippedCaps else T.caps

/-- all four tables have one entry per letter -/
def FullTables (T : Tables) : Prop :=
  T.small.length = 26 ∧ T.caps.length = 26 ∧ T.flippedSmall.length = 26 ∧ T.flippedCaps.length = 26

def isLower (c : Char) : Prop := 97 ≤ c.toNat ∧ c.toNat ≤ 122
def isUpper (c : Char) : Prop := 65 ≤ c.toNat ∧ c.toNat ≤ 90
instance (c : Char) : Decidable (isLower c) := by unfold isLower; exact inferInstance
instance (c : Char) : Decidable (isUpper c) := by unfold isUpper; exact inferInstance

/-- the letters that are doubled when elongation is on -/
def isElongated (c : Char) : Prop := c = 'a' ∨ c = 'e' ∨ c = 'o' ∨ c = 'u'
instance (c : Char) : Decidable (isElongated c) := by unfold isElongated; exact inferInstance

/-- image of one character -/
def imgChar (T : Tables) (flipped elongate : Bool) (c : Char) : List Char :=
  if isLower c then
    let nc := Char.ofNat ((smallOf T flipped).getD (c.toNat - 97) 0)
    if elongate = true ∧ isElongated c then [nc, nc] else [nc]
  else if isUpper c then [Char.ofNat ((capsOf T flipped).getD (c.toNat - 65) 0)]
  else [c]

/-- image of a text -/
def image (T : Tables) (flipped elongate : Bool) (s : List Char) : List Char :=
  s.flatMap (imgChar T flipped elongate)

/-! ## `transform` -/

theorem char_eq_of_toNat {c d : Char} (h : c.toNat = d.toNat) : c = d := by
  apply Char.ext
  apply UInt32.toNat_inj.1
  exact h

theorem isAsciiLetter_iff (c : Char) : isAsciiLetter c = true ↔ isLower c ∨ isUpper c := by
  simp [isAsciiLetter, isLower, isUpper]

theorem transformChar_spec (T : Tables) (hT : FullTables T) (flipped elongate : Bool) (c : Char)
    (hc : isAsciiLetter c = true) :
    transformChar (smallOf T flipped) (capsOf T flipped) elongate c = .done (imgChar T flipped elongate c) := by
  have hs : (smallOf T flipped).length = 26 := by
    unfold smallOf; cases flipped <;> simp [hT.1, hT.2.2.1]
  have hcp : (capsOf T flipped).length = 26 := by
    unfold capsOf; cases flipped <;> simp [hT.2.1, hT.2.2.2]
  rcases (isAsciiLetter_iff c).1 hc with hl | hu
  · have hmod : c.toNat % 256 = c.toNat := Nat.mod_eq_of_lt (by unfold isLower at hl; omega)
    have hidx : c.toNat - 97 < (smallOf T flipped).length := by unfold isLower at hl; omega
    have hcond : (decide (97 ≤ c.toNat) && decide (c.toNat ≤ 122)) = true := by
      unfold isLower at hl; simp [hl.1, hl.2]
    unfold transformChar imgChar
    simp only [hmod, hcond, ↓reduceIte, if_pos hl, List.getElem?_eq_getElem hidx,
      List.getD_eq_getElem?_getD, Option.getD_some]
    by_cases he : elongate = true ∧ isElongated c
    · have : (elongate && (c.toNat == 97 || c.toNat == 101 || c.toNat == 111 || c.toNat == 117)) = true := by
        obtain ⟨h1, h2⟩ := he
        rcases h2 with rfl | rfl | rfl | rfl <;> simp [h1] <;> decide
      rw [if_pos this, if_pos he]
    · have : ¬ (elongate && (c.toNat == 97 || c.toNat == 101 || c.toNat == 111 || c.toNat == 117)) = true := by
        intro h
        apply he
        simp only [Bool.and_eq_true, Bool.or_eq_true, beq_iff_eq] at h
        refine ⟨h.1, ?_⟩
        rcases h.2 with ((h | h) | h) | h
        · exact Or.inl (char_eq_of_toNat h)
        · exact Or.inr (Or.inl (char_eq_of_toNat h))
        · exact Or.inr (Or.inr (Or.inl (char_eq_of_toNat h)))
        · exact Or.inr (Or.inr (Or.inr (char_eq_of_toNat h)))
      rw [if_neg this, if_neg he]
  · have hmod : c.toNat % 256 = c.toNat := Nat.mod_eq_of_lt (by unfold isUpper at hu; omega)
    have hidx : c.toNat - 65 < (capsOf T flipped).length := by unfold isUpper at hu; omega
    have hnl : ¬ isLower c := by unfold isLower; unfold isUpper at hu; omega
    have hcond1 : (decide (97 ≤ c.toNat) && decide (c.toNat ≤ 122)) = false := by
      unfold isUpper at hu
      have : ¬ 97 ≤ c.toNat := by omega
      simp [this]
    have hcond2 : (decide (65 ≤ c.toNat) && decide (c.toNat ≤ 90)) = true := by
      unfold isUpper at hu; simp [hu.1, hu.2]
    unfold transformChar imgChar
    simp only [hmod, hcond1, hcond2, Bool.false_eq_true, ↓reduceIte, if_neg hnl, if_pos hu,
      List.getElem?_eq_getElem hidx, List.getD_eq_getElem?_getD, Option.getD_some]

theorem imgChar_nonletter (T : Tables) (flipped elongate : Bool) (c : Char) (hc : isAsciiLetter c = false) :
    imgChar T flipped elongate c = [c] := by
  have : ¬ (isLower c ∨ isUpper c) := by
    rw [← isAsciiLetter_iff]; simp [hc]
  unfold imgChar
  rw [if_neg (fun h => this (Or.inl h)), if_neg (fun h => this (Or.inr h))]

theorem replaceAll_spec (T : Tables) (hT : FullTables T) (flipped elongate : Bool) (s : List Char) :
    replaceAll (transformChar (smallOf T flipped) (capsOf T flipped) elongate) s =
      .done (image T flipped elongate s) := by
  induction s with
  | nil => rfl
  | cons c cs ih =>
    unfold replaceAll
    cases hc : isAsciiLetter c
    · simp only [Bool.false_eq_true, ↓reduceIte, ih]
      show Outcome.done (c :: image T flipped elongate cs) = _
      simp [image, imgChar_nonletter T flipped elongate c hc]
    · simp only [↓reduceIte, transformChar_spec T hT flipped elongate c hc, ih]
      show Outcome.done (imgChar T flipped elongate c ++ image T flipped elongate cs) = _
      simp [image]

/-- `transform` never panics and is the per-character image -/
theorem transform_spec (T : Tables) (hT : FullTables T) (flipped elongate : Bool) (s : List Char) :
    transform T flipped elongate s = .done (image T flipped elongate s) := by
  have := replaceAll_spec T hT flipped elongate s
  unfold transform
  cases flipped <;> simpa [smallOf, capsOf] using this

/-! ## byte lengths -/

@[simp] theorem blen_nil : blen [] = 0 := rfl
@[simp] theorem blen_cons (c : Char) (cs : List Char) : blen (c :: cs) = c.utf8Size + blen cs := rfl

theorem blen_append (a b : List Char) : blen (a ++ b) = blen a + blen b := by
  induction a with
  | nil => simp
  | cons c a ih => simp [ih]; omega

theorem utf8Size_letter (c : Char) (h : c.toNat ≤ 127) : c.utf8Size = 1 := by
  have hle : c.val ≤ 0x7f := by
    rw [UInt32.le_iff_toNat_le]
    have : (0x7f : UInt32).toNat = 127 := rfl
    rw [this]; exact h
  simp [Char.utf8Size, hle]

/-- the image of a character is never shorter (in bytes) than the character -/
theorem blen_imgChar_ge (T : Tables) (flipped elongate : Bool) (c : Char) :
    c.utf8Size ≤ blen (imgChar T flipped elongate c) := by
  unfold imgChar
  by_cases hl : isLower c
  · have h1 : c.utf8Size = 1 := utf8Size_letter c (by unfold isLower at hl; omega)
    rw [if_pos hl, h1]
    dsimp only
    generalize Char.ofNat ((smallOf T flipped).getD (c.toNat - 97) 0) = nc
    have := nc.utf8Size_pos
    split <;> simp <;> omega
  · rw [if_neg hl]
    by_cases hu : isUpper c
    · have h1 : c.utf8Size = 1 := utf8Size_letter c (by unfold isUpper at hu; omega)
      rw [if_pos hu, h1]
      generalize Char.ofNat ((capsOf T flipped).getD (c.toNat - 65) 0) = nc
      have := nc.utf8Size_pos
      simp; omega
    · rw [if_neg hu]; simp

/-- … hence `transform_sub.len() - sub_len` never underflows -/
theorem blen_image_ge (T : Tables) (flipped elongate : Bool) (s : List Char) :
    blen s ≤ blen (image T flipped elongate s) := by
  induction s with
  | nil => simp [image]
  | cons c cs ih =>
    have := blen_imgChar_ge T flipped elongate c
    simp only [image, List.flatMap_cons, blen_append, blen_cons] at ih ⊢
    omega

/-! ## slicing and splicing at byte offsets -/

theorem splitAtByte_zero (cs : List Char) : splitAtByte cs 0 = some ([], cs) := by
  cases cs <;> rfl

theorem splitAtByte_append (a b : List Char) : splitAtByte (a ++ b) (blen a) = some (a, b) := by
  induction a with
  | nil => exact splitAtByte_zero b
  | cons c a ih =>
    have hpos := c.utf8Size_pos
    obtain ⟨k, hk⟩ : ∃ k, blen (c :: a) = k + 1 := ⟨c.utf8Size + blen a - 1, by simp; omega⟩
    rw [hk]
    show (if c.utf8Size ≤ k + 1 then
        match splitAtByte (a ++ b) (k + 1 - c.utf8Size) with
        | some (x, y) => some (c :: x, y)
        | none => none
      else none) = some (c :: a, b)
    have h1 : c.utf8Size ≤ k + 1 := by simp at hk; omega
    have h2 : k + 1 - c.utf8Size = blen a := by simp at hk; omega
    rw [if_pos h1, h2, ih]

/-- `&s[a..b]` between two split points -/
theorem strIndex_split (a b c : List Char) :
    strIndex (a ++ (b ++ c)) (blen a) (blen a + blen b) = .done b := by
  unfold strIndex
  rw [if_pos (by omega), splitAtByte_append]
  have : blen a + blen b - blen a = blen b := by omega
  simp only [this, splitAtByte_append]

/-- `replace_range` between two split points -/
theorem replaceRange_split (a b c w : List Char) :
    replaceRange (a ++ (b ++ c)) (blen a) (blen a + blen b) w = .done (a ++ w ++ c) := by
  unfold replaceRange
  rw [if_pos (by omega), splitAtByte_append]
  have : blen a + blen b - blen a = blen b := by omega
  simp only [this, splitAtByte_append]

theorem checkedSub_ok (a b : Nat) (h : b ≤ a) : checkedSub a b = .done (a - b) := by
  unfold checkedSub; rw [if_pos h]

/-! ## the `pos`/`diff` loop -/

/-- source text of a decomposition into `(text, match)` pairs -/
def flatten (parts : List (List Char × List Char)) : List Char :=
  parts.flatMap fun p => p.1 ++ p.2

/-- expected output of a decomposition: every text segment transformed, every match copied -/
def flattenImage (T : Tables) (flipped elongate : Bool) (parts : List (List Char × List Char)) : List Char :=
  parts.flatMap fun p => image T flipped elongate p.1 ++ p.2

@[simp] theorem bind_done {α β : Type} (a : α) (f : α → Outcome β) : (Outcome.done a >>= f) = f a := rfl

/-- Loop invariant: `A` = source consumed so far, `A'` = its output; `pos = |A|`, `pos + diff = |A'|`,
`result = A' ++ (rest of the source)`. -/
theorem spliceLoop_spec (T : Tables) (hT : FullTables T) (flipped elongate : Bool)
    (parts : List (List Char × List Char)) : ∀ (A A' last : List Char) (diff : Nat),
    blen A + diff = blen A' →
    spliceLoop (transform T flipped elongate) (A ++ (flatten parts ++ last)) (offsets (blen A) parts)
        (A' ++ (flatten parts ++ last)) (blen A) diff =
      .done (A' ++ flattenImage T flipped elongate parts ++ last, blen (A ++ flatten parts),
        blen (A' ++ flattenImage T flipped elongate parts) - blen (A ++ flatten parts)) := by
  induction parts with
  | nil =>
    intro A A' last diff h
    simp only [flatten, flattenImage, List.flatMap_nil, List.nil_append, List.append_nil, offsets, spliceLoop]
    congr 3; omega
  | cons p parts ih =>
    intro A A' last diff h
    obtain ⟨seg, tag⟩ := p
    have hge := blen_image_ge T flipped elongate seg
    have hsrc : A ++ (flatten ((seg, tag) :: parts) ++ last) = A ++ (seg ++ (tag ++ (flatten parts ++ last))) := by
      simp [flatten]
    have hres : A' ++ (flatten ((seg, tag) :: parts) ++ last) = A' ++ (seg ++ (tag ++ (flatten parts ++ last))) := by
      simp [flatten]
    have hdiff : blen A + diff = blen A' := h
    simp only [offsets, spliceLoop]
    rw [checkedSub_ok _ _ (by omega)]
    simp only [bind_done]
    rw [hsrc, strIndex_split A seg]
    simp only [bind_done]
    rw [transform_spec T hT]
    simp only [bind_done]
    rw [checkedSub_ok _ _ (by omega)]
    simp only [bind_done]
    rw [hres]
    have e1 : blen A + diff = blen A' := hdiff
    have e2 : blen A + blen seg + diff = blen A' + blen seg := by omega
    rw [e1, e2, replaceRange_split A' seg]
    simp only [bind_done]
    -- re-associate to apply the induction hypothesis with A := A ++ seg ++ tag
    have hA : blen A + blen seg + blen tag = blen (A ++ (seg ++ tag)) := by
      simp [blen_append]; omega
    have hsrc2 : A ++ (seg ++ (tag ++ (flatten parts ++ last))) = (A ++ (seg ++ tag)) ++ (flatten parts ++ last) := by
      simp
    have hres2 : A' ++ image T flipped elongate seg ++ (tag ++ (flatten parts ++ last)) =
        (A' ++ (image T flipped elongate seg ++ tag)) ++ (flatten parts ++ last) := by
      simp
    rw [hA, hsrc2, hres2]
    rw [ih (A ++ (seg ++ tag)) (A' ++ (image T flipped elongate seg ++ tag)) last _ (by
      simp only [blen_append] at hge ⊢; omega)]
    simp [flatten, flattenImage, List.append_assoc]

theorem blen_flattenImage_ge (T : Tables) (flipped elongate : Bool) (parts : List (List Char × List Char)) :
    blen (flatten parts) ≤ blen (flattenImage T flipped elongate parts) := by
  induction parts with
  | nil => simp [flatten, flattenImage]
  | cons p parts ih =>
    have := blen_image_ge T flipped elongate p.1
    simp only [flatten, flattenImage, List.flatMap_cons, blen_append] at ih ⊢
    omega

/-- `[` … `]` iff `with_markers` -/
def bracket (withMarkers : Bool) (r : List Char) : List Char :=
  if withMarkers then '[' :: r ++ [']'] else r

/-- `transform_dom` on any decomposition of the input into text segments and matches -/
theorem transformDomWith_spec (T : Tables) (hT : FullTables T) (flipped elongate withMarkers : Bool)
    (parts : List (List Char × List Char)) (last : List Char)
    (hlen : (flatten parts ++ last).length ≠ 1) :
    transformDomWith T (offsets 0 parts) (flatten parts ++ last) flipped elongate withMarkers =
      .done (bracket withMarkers
        (flattenImage T flipped elongate parts ++ image T flipped elongate last)) := by
  unfold transformDomWith
  have h1 : ((flatten parts ++ last).length == 1) = false := by simpa using hlen
  rw [h1]
  simp only [Bool.false_eq_true, ↓reduceIte]
  have hloop := spliceLoop_spec T hT flipped elongate parts [] [] last 0 rfl
  simp only [List.nil_append, blen_nil] at hloop
  rw [hloop]
  simp only [bind_done]
  have hge := blen_flattenImage_ge T flipped elongate parts
  have hs : flatten parts ++ last = flatten parts ++ (last ++ []) := by simp
  have hbs : blen (flatten parts ++ last) = blen (flatten parts) + blen last := blen_append _ _
  rw [hbs]
  conv => lhs; arg 1; arg 1; rw [hs]
  rw [strIndex_split (flatten parts) last []]
  simp only [bind_done]
  rw [transform_spec T hT]
  simp only [bind_done]
  have hr : flattenImage T flipped elongate parts ++ last =
      flattenImage T flipped elongate parts ++ (last ++ []) := by simp
  have hbr : blen (flattenImage T flipped elongate parts ++ last) =
      blen (flattenImage T flipped elongate parts) + blen last := blen_append _ _
  have hpd : blen (flatten parts) + (blen (flattenImage T flipped elongate parts) - blen (flatten parts)) =
      blen (flattenImage T flipped elongate parts) := by omega
  rw [hbr, hpd]
  conv => lhs; arg 1; arg 1; rw [hr]
  rw [replaceRange_split (flattenImage T flipped elongate parts) last []]
  simp only [bind_done, List.append_nil]
  unfold bracket
  cases withMarkers <;> rfl

/-- one-character strings are returned unchanged (no brackets either), whatever the regex found -/
theorem transformDomWith_one (T : Tables) (ms : List (Nat × Nat)) (s : List Char)
    (flipped elongate withMarkers : Bool) (h : s.length = 1) :
    transformDomWith T ms s flipped elongate withMarkers = .done s := by
  unfold transformDomWith
  simp [h]

/-! ## the matcher yields a decomposition -/

theorem matchEntity_suffix {l t : List Char} (h : matchEntity l = some t) :
    ∃ tag, tag ≠ [] ∧ l = tag ++ t := by
  unfold matchEntity at h
  split at h
  · rename_i c r
    split at h
    · split at h
      · rename_i t' heq
        have hs : (';' :: t') <:+ (c :: r) := by rw [← heq]; exact List.dropWhile_suffix _
        obtain ⟨pre, hpre⟩ := hs
        cases h
        exact ⟨'&' :: (pre ++ [';']), by simp, by simp [← hpre]⟩
      · cases h
    · cases h
  · cases h

theorem matchClose_suffix {l t : List Char} (h : matchClose l = some t) : ∃ pre, l = pre ++ '>' :: t := by
  unfold matchClose at h
  split at h
  · rename_i t' heq
    have hs : ('>' :: t') <:+ l := by rw [← heq]; exact List.dropWhile_suffix _
    obtain ⟨pre, hpre⟩ := hs
    cases h
    exact ⟨pre, hpre.symm⟩
  · cases h

theorem matchLazy_suffix : ∀ {l t : List Char}, matchLazy l = some t → ∃ pre, l = pre ++ '>' :: t := by
  intro l
  induction l with
  | nil => intro t h; simp [matchLazy] at h
  | cons c r ih =>
    intro t h
    unfold matchLazy at h
    split at h
    · rename_i t' heq
      cases h
      exact matchClose_suffix heq
    · split at h
      · obtain ⟨pre, hpre⟩ := ih h
        exact ⟨c :: pre, by simp [hpre]⟩
      · cases h

theorem matchBody_suffix {l t : List Char} (h : matchBody l = some t) : ∃ pre, l = pre ++ '>' :: t := by
  unfold matchBody at h
  split at h
  · cases h
  · rename_i c r
    split at h
    · obtain ⟨pre, hpre⟩ := matchLazy_suffix h
      exact ⟨c :: pre, by simp [hpre]⟩
    · cases h

theorem matchAfterLt_suffix : ∀ {l t : List Char}, matchAfterLt l = some t → ∃ pre, l = pre ++ '>' :: t := by
  intro l
  induction l with
  | nil => intro t h; simp [matchAfterLt] at h
  | cons c r ih =>
    intro t h
    unfold matchAfterLt at h
    split at h
    · split at h
      · rename_i t' heq
        cases h
        obtain ⟨pre, hpre⟩ := ih heq
        exact ⟨c :: pre, by simp [hpre]⟩
      · exact matchBody_suffix h
    · exact matchBody_suffix h

theorem matchTag_suffix {l t : List Char} (h : matchTag l = some t) : ∃ tag, tag ≠ [] ∧ l = tag ++ t := by
  unfold matchTag at h
  split at h
  · rename_i r
    obtain ⟨pre, hpre⟩ := matchAfterLt_suffix h
    exact ⟨'<' :: (pre ++ ['>']), by simp, by simp [hpre]⟩
  · cases h

/-- a match at the head is a non-empty prefix of the input; the matcher answers the rest -/
theorem matchHere_suffix {l t : List Char} (h : matchHere l = some t) : ∃ tag, tag ≠ [] ∧ l = tag ++ t := by
  unfold matchHere at h
  split at h
  · rename_i t' heq; cases h; exact matchEntity_suffix heq
  · exact matchTag_suffix h

/-- the parts found by the matcher always re-assemble to the input (for any fuel) -/
theorem findParts_flatten : ∀ (fuel : Nat) (acc l : List Char),
    flatten (findParts fuel acc l).1 ++ (findParts fuel acc l).2 = acc.reverse ++ l := by
  intro fuel
  induction fuel with
  | zero => intro acc l; simp [findParts, flatten]
  | succ fuel ih =>
    intro acc l
    cases l with
    | nil => simp [findParts, flatten]
    | cons c r =>
      unfold findParts
      split
      · rename_i t heq
        obtain ⟨tag, _, htag⟩ := matchHere_suffix heq
        have hih := ih [] t
        simp only [List.reverse_nil, List.nil_append] at hih
        have htake : (c :: r).take ((c :: r).length - t.length) = tag := by
          rw [htag]; simp
        simp only [htake, flatten, List.flatMap_cons]
        simp only [flatten] at hih
        rw [List.append_assoc, List.append_assoc, hih, htag]
      · have := ih (c :: acc) r
        simpa using this

/-- fuel `> l.length` is sufficient: more fuel does not change the result -/
theorem findParts_fuel : ∀ (f₁ f₂ : Nat) (acc l : List Char), l.length < f₁ → l.length < f₂ →
    findParts f₁ acc l = findParts f₂ acc l := by
  intro f₁
  induction f₁ with
  | zero => intro f₂ acc l h; omega
  | succ f₁ ih =>
    intro f₂ acc l h1 h2
    obtain ⟨f₂, rfl⟩ : ∃ k, f₂ = k + 1 := ⟨f₂ - 1, by omega⟩
    cases l with
    | nil => simp [findParts]
    | cons c r =>
      unfold findParts
      split
      · rename_i t heq
        obtain ⟨tag, hne, htag⟩ := matchHere_suffix heq
        have hlt : t.length < (c :: r).length := by
          rw [htag, List.length_append]
          have : 0 < tag.length := List.length_pos_iff.2 hne
          omega
        rw [ih f₂ [] t (by omega) (by omega)]
      · exact ih f₂ (c :: acc) r (by simp at h1; omega) (by simp at h2; omega)

/-! ## every ordered, non-overlapping, boundary-aligned match list is a decomposition -/

/-- byte offset `i` is a char boundary of `s` (the length of a prefix of characters) -/
def IsBoundary (s : List Char) (i : Nat) : Prop := ∃ a b, s = a ++ b ∧ blen a = i

/-- matches are ordered, non-overlapping (`lo` = end of the previous one) and boundary-aligned -/
def ValidMatches (s : List Char) : Nat → List (Nat × Nat) → Prop
  | _, [] => True
  | lo, (a, b) :: ms => lo ≤ a ∧ a ≤ b ∧ IsBoundary s a ∧ IsBoundary s b ∧ ValidMatches s b ms

/-- two prefixes of the same string: the one that is shorter in bytes is a prefix of the other -/
theorem prefix_of_blen_le : ∀ (A R A₁ R₁ : List Char), A ++ R = A₁ ++ R₁ → blen A ≤ blen A₁ →
    ∃ seg, A₁ = A ++ seg ∧ R = seg ++ R₁ := by
  intro A
  induction A with
  | nil => intro R A₁ R₁ h _; exact ⟨A₁, rfl, by simpa using h⟩
  | cons c A ih =>
    intro R A₁ R₁ h hle
    cases A₁ with
    | nil =>
      have := c.utf8Size_pos
      simp at hle; omega
    | cons c₁ A₁ =>
      simp only [List.cons_append, List.cons.injEq] at h
      obtain ⟨rfl, h⟩ := h
      obtain ⟨seg, h1, h2⟩ := ih R A₁ R₁ h (by simp at hle; omega)
      exact ⟨seg, by simp [h1], h2⟩

theorem validMatches_decompose (s : List Char) (ms : List (Nat × Nat)) : ∀ (A R : List Char),
    s = A ++ R → ValidMatches s (blen A) ms →
    ∃ parts last, R = flatten parts ++ last ∧ ms = offsets (blen A) parts := by
  induction ms with
  | nil => intro A R _ _; exact ⟨[], R, by simp [flatten], rfl⟩
  | cons m ms ih =>
    intro A R hs hv
    obtain ⟨a, b⟩ := m
    obtain ⟨hlo, hab, ⟨A₁, R₁, hs₁, hA₁⟩, ⟨A₂, R₂, hs₂, hA₂⟩, hrest⟩ := hv
    obtain ⟨seg, hseg, hR⟩ := prefix_of_blen_le A R A₁ R₁ (by rw [← hs, ← hs₁]) (by omega)
    obtain ⟨tag, htag, hR₁⟩ := prefix_of_blen_le A₁ R₁ A₂ R₂ (by rw [← hs₁, ← hs₂]) (by omega)
    rw [← hA₂] at hrest
    obtain ⟨parts, last, hR₂, hms⟩ := ih A₂ R₂ hs₂ hrest
    refine ⟨(seg, tag) :: parts, last, ?_, ?_⟩
    · rw [hR, hR₁, hR₂]; simp [flatten]
    · have e1 : a = blen A + blen seg := by rw [← hA₁, hseg, blen_append]
      have e2 : b = blen A + blen seg + blen tag := by rw [← hA₂, htag, hseg, blen_append, blen_append]
      simp only [offsets]
      rw [hms, e1, e2, htag, hseg]
      simp [blen_append, Nat.add_assoc]

/-! ## length facts -/

theorem isElongated_isLower (c : Char) (h : isElongated c) : isLower c := by
  rcases h with rfl | rfl | rfl | rfl <;> decide

theorem length_imgChar (T : Tables) (flipped elongate : Bool) (c : Char) :
    (imgChar T flipped elongate c).length = if elongate = true ∧ isElongated c then 2 else 1 := by
  unfold imgChar
  by_cases hl : isLower c
  · rw [if_pos hl]
    by_cases he : elongate = true ∧ isElongated c
    · simp only [if_pos he]; rfl
    · simp only [if_neg he]; rfl
  · have he : ¬ (elongate = true ∧ isElongated c) := fun h => hl (isElongated_isLower c h.2)
    rw [if_neg hl, if_neg he]
    split <;> rfl

/-- the output has one character per input character, plus one for every doubled letter -/
theorem length_image (T : Tables) (flipped elongate : Bool) (s : List Char) :
    (image T flipped elongate s).length =
      s.length + (if elongate = true then s.countP (fun c => decide (isElongated c)) else 0) := by
  induction s with
  | nil => simp [image]
  | cons c cs ih =>
    simp only [image, List.flatMap_cons, List.length_append, List.length_cons] at ih ⊢
    rw [ih, length_imgChar, List.countP_cons]
    cases elongate
    · simp; omega
    · by_cases h : isElongated c
      · simp [h]; omega
      · simp [h]; omega

end FluentProofs.Pseudo
