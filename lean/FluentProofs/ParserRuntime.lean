import FluentProofs.ParserLoops
/-!
# Runtime parser vs full parser (C05): lock-step on entries that do not start with `#`
-/
namespace FluentModel.Syntax

/-- strip the attached comment (what the runtime parser never produces) -/
def Entry.noComment : Entry Span → Entry Span
  | .message m => .message { m with comment := none }
  | .term t => .term { t with comment := none }
  | e => e

/-- messages and terms of a body, without comments -/
def msgsTerms : List (Entry Span) → List (Entry Span)
  | [] => []
  | .message m :: rest => .message { m with comment := none } :: msgsTerms rest
  | .term t :: rest => .term { t with comment := none } :: msgsTerms rest
  | _ :: rest => msgsTerms rest

/-- `getMessage`/`getTerm` never attach a comment -/
theorem getMessage_comment_none (s : Src) (fuel a p : Nat) (m : Message Span) (q : Nat)
    (h : getMessage s fuel a p = .ok m q) : m.comment = none := by
  unfold getMessage at h
  cases h1 : getIdentifier s p <;> simp only [h1] at h <;> try cases h
  rename_i id q1
  cases h2 : expectByte s (skipBlankInline s q1) 61 <;> simp only [h2] at h <;> try cases h
  rename_i u q2
  cases h3 : getPattern s fuel q2 <;> simp only [h3] at h <;> try cases h
  rename_i pat q3
  cases h4 : getAttributes s fuel (skipBlankBlock s q3).fst <;> simp only [h4] at h <;> try cases h
  rename_i attrs q5
  split at h
  · cases h
  · cases h; rfl

theorem getTerm_comment_none (s : Src) (fuel a p : Nat) (t : Term Span) (q : Nat)
    (h : getTerm s fuel a p = .ok t q) : t.comment = none := by
  unfold getTerm at h
  cases h0 : expectByte s p 45 <;> simp only [h0] at h <;> try cases h
  rename_i u0 p0
  cases h1 : getIdentifier s p0 <;> simp only [h1] at h <;> try cases h
  rename_i id q1
  cases h2 : expectByte s (skipBlankInline s q1) 61 <;> simp only [h2] at h <;> try cases h
  rename_i u q2
  cases h3 : getPattern s fuel (skipBlankInline s q2) <;> simp only [h3] at h <;> try cases h
  rename_i pat q3
  cases h4 : getAttributes s fuel (skipBlankBlock s q3).fst <;> simp only [h4] at h <;> try cases h
  rename_i attrs q5
  cases pat with
  | none => cases h
  | some v => cases h; rfl

/-- the dispatch of `get_entry` on a byte other than `#` -/
theorem getEntry_of_not_hash (s : Src) (fuel p : Nat) (h : s[p]? ≠ some 35) :
    getEntry s fuel p =
      if s[p]? = some 45 then
        (match getTerm s fuel p p with
         | .ok t q => .ok (.term t) q | .err e q => .err e q | .panic m => .panic m | .fuel => .fuel)
      else
        (match getMessage s fuel p p with
         | .ok m q => .ok (.message m) q | .err e q => .err e q | .panic m => .panic m | .fuel => .fuel) := by
  unfold getEntry
  split
  · rename_i h35; exact absurd h35 h
  · rename_i h45; simp only [h45, if_true]; cases getTerm s fuel p p <;> rfl
  · rename_i hn35 hn45
    have : ¬ s[p]? = some 45 := fun e => hn45 e
    simp only [this, if_false]; cases getMessage s fuel p p <;> rfl

theorem getEntryRuntime_of_not_hash (s : Src) (fuel p : Nat) (h : s[p]? ≠ some 35) :
    getEntryRuntime s fuel p =
      if s[p]? = some 45 then
        (match getTerm s fuel p p with
         | .ok t q => .ok (some (.term t)) q | .err e q => .err e q | .panic m => .panic m | .fuel => .fuel)
      else
        (match getMessage s fuel p p with
         | .ok m q => .ok (some (.message m)) q | .err e q => .err e q | .panic m => .panic m | .fuel => .fuel) := by
  unfold getEntryRuntime
  split
  · rename_i h35; exact absurd h35 h
  · rename_i h45; simp only [h45, if_true]; cases getTerm s fuel p p <;> rfl
  · rename_i hn35 hn45
    have : ¬ s[p]? = some 45 := fun e => hn45 e
    simp only [this, if_false]; cases getMessage s fuel p p <;> rfl

end FluentModel.Syntax

namespace FluentModel.Syntax

/-- no `#` byte anywhere in the source -/
def NoHash (s : Src) : Prop := ∀ i : Nat, s[i]? ≠ some (35 : UInt8)

/-- lock-step of the two entry loops when no entry can start with `#` (then no comment is ever pending) -/
theorem parseLoop_eq_runtime_of_noHash (s : Src) (h : NoHash s) (fuel n : Nat) (body : List (Entry Span))
    (errors : List PErr) (lbc p : Nat) :
    parseLoop s fuel n body errors none lbc p = parseRuntimeLoop s fuel n body errors p := by
  induction n generalizing body errors lbc p with
  | zero => rfl
  | succ n ih =>
    unfold parseLoop parseRuntimeLoop
    by_cases hp : p < s.size
    · simp only [hp, if_true]
      rw [getEntry_of_not_hash s fuel p (h p), getEntryRuntime_of_not_hash s fuel p (h p)]
      by_cases h45 : s[p]? = some 45
      · simp only [h45, if_true]
        cases hr : getTerm s fuel p p with
        | ok t q => simp only; exact ih _ _ _ _
        | err e q =>
          simp only
          cases skipToNextEntryStart s p q with
          | none => rfl
          | some q1 =>
            simp only
            cases slice s p q1 with
            | none => rfl
            | some c => simp only; exact ih _ _ _ _
        | panic m => rfl
        | fuel => rfl
      · simp only [h45, if_false]
        cases hr : getMessage s fuel p p with
        | ok t q => simp only; exact ih _ _ _ _
        | err e q =>
          simp only
          cases skipToNextEntryStart s p q with
          | none => rfl
          | some q1 =>
            simp only
            cases slice s p q1 with
            | none => rfl
            | some c => simp only; exact ih _ _ _ _
        | panic m => rfl
        | fuel => rfl
    · simp only [hp, if_false]

end FluentModel.Syntax
