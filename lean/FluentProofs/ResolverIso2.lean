import FluentProofs.ResolverIso
/-!
# C09: the output language of the resolver model (one induction over the mutual block)

`Atom`s are the places of a pattern where the resolver takes bytes from the program (texts, string
and number literals, identifiers) plus the `site` marker for an isolatable placeable of a pattern with
more than one element.  `EnvOK env L` collects the piece hypotheses of the property: every atom of the
pattern and of every entry of the bundle is `MarkFree`, argument values, function outputs and formatter
outputs are in the language `L`.  The generic theorem `inv_all` says: every `.ok (w', sc')` result of
every function of the mutual block started from writer `w` satisfies `w' = w ++ out` with `L out`,
for every language `L ⊇ MarkFree` closed under concatenation and — only where the model isolates —
under `fsi ++ · ++ pdi`.
-/
namespace FluentProofs.Bidi
open FluentModel FluentModel.Syntax FluentModel.Resolver

/-! ## atoms of a pattern -/

inductive Atom where
  /-- a `TextElement` -/
  | text (v : Bytes)
  /-- a string literal (raw form, written by `write_error`; unescaped form, written as a value) -/
  | str (v : Bytes)
  /-- a number literal -/
  | num (v : Bytes)
  /-- an identifier that can be written by `write_error` (message, term, attribute, function, variable) -/
  | ident (v : Bytes)
  /-- an isolatable placeable of a pattern with more than one element -/
  | site
  deriving DecidableEq, Repr

def optAtom : Option Bytes → List Atom
  | some a => [.ident a]
  | .none => []

mutual
def inlineAtoms : Inline Bytes → List Atom
  | .str v => [.str v]
  | .num v => [.num v]
  | .fn id pos named => .ident id :: (inlinesAtoms pos ++ namedAtoms named)
  | .msg id attr => .ident id :: optAtom attr
  | .term id attr .none => .ident id :: optAtom attr
  | .term id attr (some (pos, named)) => .ident id :: (optAtom attr ++ (inlinesAtoms pos ++ namedAtoms named))
  | .var id => [.ident id]
  | .placeable e => exprAtoms e
def inlinesAtoms : List (Inline Bytes) → List Atom
  | [] => []
  | x :: xs => inlineAtoms x ++ inlinesAtoms xs
def namedAtoms : List (Bytes × Inline Bytes) → List Atom
  | [] => []
  | (_, x) :: xs => inlineAtoms x ++ namedAtoms xs
def exprAtoms : Expr Bytes → List Atom
  | .inline e => inlineAtoms e
  | .select sel vs => inlineAtoms sel ++ variantsAtoms vs
def variantsAtoms : List (Variant Bytes) → List Atom
  | [] => []
  | v :: vs => variantAtoms v ++ variantsAtoms vs
def variantAtoms : Variant Bytes → List Atom
  | .mk _ val _ => elemsAtoms (decide (val.length > 1)) val
/-- `multi` = the enclosing pattern has more than one element -/
def elemsAtoms (multi : Bool) : List (PatElem Bytes) → List Atom
  | [] => []
  | e :: es => elemAtoms multi e ++ elemsAtoms multi es
def elemAtoms (multi : Bool) : PatElem Bytes → List Atom
  | .text v => [.text v]
  | .placeable e => (if multi && isolatable e then [Atom.site] else []) ++ exprAtoms e
end

def patAtoms (p : Pattern Bytes) : List Atom := elemsAtoms (decide (p.length > 1)) p

/-- the arguments part of a call -/
def argsAtoms : Option (List (Inline Bytes) × List (Bytes × Inline Bytes)) → List Atom
  | .none => []
  | some (pos, named) => inlinesAtoms pos ++ namedAtoms named

/-- what the property assumes about one atom; `site` is what is assumed at an isolation site -/
def AtomOK (env : Env) (site : Prop) : Atom → Prop
  | .text v => MarkFree (match env.transform with | some f => f v | .none => v)
  | .str v => MarkFree v ∧ MarkFree (env.unescape v)
  | .num v => MarkFree v ∧ MarkFree (valueString env (env.tryNumber v))
  | .ident v => MarkFree v
  | .site => site

/-! ## languages -/

structure Lang (L : Bytes → Prop) : Prop where
  mf : ∀ {b}, MarkFree b → L b
  app : ∀ {a b}, L a → L b → L (a ++ b)

theorem Lang.nil {L : Bytes → Prop} (h : Lang L) : L [] := h.mf .nil

theorem lang_markFree : Lang MarkFree := ⟨id, MarkFree.append⟩
theorem lang_dyck : Lang Dyck := ⟨Dyck.of_markFree, Dyck.append⟩

/-- the value is written as a word of `L` -/
def LVal (env : Env) (L : Bytes → Prop) (v : Value) : Prop := L (valueString env v)

/-- closure needed where the model isolates -/
def SiteOK (env : Env) (L : Bytes → Prop) : Prop := env.useIsolating = true → ∀ a, L a → L (fsi ++ (a ++ pdi))

def AtomsOK (env : Env) (L : Bytes → Prop) (as : List Atom) : Prop := ∀ a ∈ as, AtomOK env (SiteOK env L) a

def PatOK (env : Env) (L : Bytes → Prop) (p : Pattern Bytes) : Prop := AtomsOK env L (patAtoms p)

/-- the piece hypotheses on the bundle and the caller's arguments -/
structure EnvOK (env : Env) (L : Bytes → Prop) : Prop where
  lang : Lang L
  /-- custom formatter outputs are mark-free -/
  formatter : ∀ f v s, env.formatter = some f → f v = some s → MarkFree s
  /-- argument values are written as words of `L` -/
  args : ∀ a, env.args = some a → ∀ kv ∈ a, LVal env L kv.2
  /-- functions map `L`-valued arguments to `L`-valued results -/
  fn : ∀ id f ps (ns : ArgList), env.fn id = some f → (∀ v ∈ ps, LVal env L v) → (∀ kv ∈ ns, LVal env L kv.2) →
    LVal env L (f ps ns)
  msgValue : ∀ id m p, env.msg id = some m → m.value = some p → PatOK env L p
  msgAttr : ∀ id m a, env.msg id = some m → a ∈ m.attributes → PatOK env L a.value
  termValue : ∀ id t, env.term id = some t → PatOK env L t.value
  termAttr : ∀ id t a, env.term id = some t → a ∈ t.attributes → PatOK env L a.value

/-! ## small facts -/

theorem getL_mem {κ V : Type} (lt : κ → κ → Bool) : ∀ (l : List (κ × V)) (k : κ) (v : V),
    Args.getL lt l k = some v → ∃ k', (k', v) ∈ l
  | [], _, _, h => by simp [Args.getL] at h
  | (k', v') :: rest, k, v, h => by
    simp only [Args.getL] at h
    split at h
    · obtain ⟨k'', hk⟩ := getL_mem lt rest k v h
      exact ⟨k'', List.mem_cons_of_mem _ hk⟩
    · split at h
      · cases h
      · cases h; exact ⟨k', List.mem_cons_self⟩

theorem mem_setL {κ V : Type} (lt : κ → κ → Bool) : ∀ (l : List (κ × V)) (k : κ) (v : V) (x : κ × V),
    x ∈ Args.setL lt l k v → x = (k, v) ∨ x ∈ l
  | [], k, v, x, h => by simp [Args.setL] at h; exact Or.inl h
  | (k', v') :: rest, k, v, x, h => by
    simp only [Args.setL] at h
    split at h
    · rcases List.mem_cons.1 h with h | h
      · exact Or.inr (h ▸ List.mem_cons_self)
      · rcases mem_setL lt rest k v x h with h | h
        · exact Or.inl h
        · exact Or.inr (List.mem_cons_of_mem _ h)
    · split at h
      · rcases List.mem_cons.1 h with h | h
        · exact Or.inl h
        · exact Or.inr h
      · rcases List.mem_cons.1 h with h | h
        · exact Or.inl h
        · exact Or.inr (List.mem_cons_of_mem _ h)

theorem mem_foldl_setL {κ V : Type} (lt : κ → κ → Bool) : ∀ (ps a : List (κ × V)) (x : κ × V),
    x ∈ ps.foldl (fun a kv => Args.setL lt a kv.1 kv.2) a → x ∈ a ∨ x ∈ ps
  | [], a, x, h => Or.inl h
  | p :: ps, a, x, h => by
    rcases mem_foldl_setL lt ps _ x h with h | h
    · rcases mem_setL lt a p.1 p.2 x h with h | h
      · exact Or.inr (h ▸ List.mem_cons_self)
      · exact Or.inl h
    · exact Or.inr (List.mem_cons_of_mem _ h)

theorem mem_ofPairs {ns : List (Bytes × Value)} {x : Bytes × Value} (h : x ∈ ArgList.ofPairs ns) : x ∈ ns := by
  rcases mem_foldl_setL bytesLt ns [] x h with h | h
  · cases h
  · exact h

theorem get_mem {l : ArgList} {k : Bytes} {v : Value} (h : l.get k = some v) : ∃ k', (k', v) ∈ l :=
  getL_mem bytesLt l k v h

theorem findAttr_mem {attrs : List (Attribute Bytes)} {name : Bytes} {p : Pattern Bytes}
    (h : findAttr attrs name = some p) : ∃ a ∈ attrs, a.value = p := by
  unfold findAttr at h
  cases hf : attrs.find? (fun a => a.id == name) with
  | none => simp [hf] at h
  | some a =>
    simp [hf] at h
    exact ⟨a, List.mem_of_find?_eq_some hf, h⟩

theorem markFree_braced {b : Bytes} (h : MarkFree b) : MarkFree (braced b) := by
  unfold braced
  exact ((MarkFree.single (by decide)).append h).append (MarkFree.single (by decide))

section atoms
variable {env : Env} {site : Prop}

theorem AtomsOK_append {env : Env} {L : Bytes → Prop} {a b : List Atom} :
    AtomsOK env L (a ++ b) ↔ AtomsOK env L a ∧ AtomsOK env L b := by
  unfold AtomsOK; simp only [List.mem_append]
  constructor
  · intro h; exact ⟨fun x hx => h x (Or.inl hx), fun x hx => h x (Or.inr hx)⟩
  · intro ⟨h1, h2⟩ x hx; rcases hx with hx | hx
    · exact h1 x hx
    · exact h2 x hx

theorem AtomsOK_cons {env : Env} {L : Bytes → Prop} {a : Atom} {b : List Atom} :
    AtomsOK env L (a :: b) ↔ AtomOK env (SiteOK env L) a ∧ AtomsOK env L b := by
  unfold AtomsOK; simp

theorem optAtom_mf {env : Env} {L : Bytes → Prop} {attr : Option Bytes} (h : AtomsOK env L (optAtom attr)) :
    ∀ a, attr = some a → MarkFree a := by
  intro a e; subst e
  exact h (.ident a) (by simp [optAtom])

mutual
theorem inlineWriteError_mf {env : Env} {L : Bytes → Prop} : ∀ (e : Inline Bytes), AtomsOK env L (inlineAtoms e) →
    MarkFree (inlineWriteError e)
  | .str v, h => by
    have := h (.str v) (by simp [inlineAtoms])
    simp only [inlineWriteError]
    exact ((MarkFree.single (by decide)).append this.1).append (MarkFree.single (by decide))
  | .num v, h => by
    have := h (.num v) (by simp [inlineAtoms])
    simp only [inlineWriteError]; exact this.1
  | .fn id pos named, h => by
    have : MarkFree id := h (.ident id) (by simp [inlineAtoms])
    simp only [inlineWriteError]
    exact this.append ((MarkFree.single (by decide)).append (MarkFree.single (by decide)))
  | .msg id attr, h => by
    simp only [inlineAtoms] at h
    have hid : MarkFree id := (AtomsOK_cons.1 h).1
    have ha := optAtom_mf (AtomsOK_cons.1 h).2
    cases attr with
    | none => simp only [inlineWriteError]; exact hid
    | some a =>
      simp only [inlineWriteError]
      exact (hid.append (MarkFree.single (by decide))).append (ha a rfl)
  | .term id attr args, h => by
    have hid : MarkFree id := h (.ident id) (by cases args with | none => simp [inlineAtoms] | some pn => obtain ⟨p, n⟩ := pn; simp [inlineAtoms])
    have ha : ∀ a, attr = some a → MarkFree a := by
      intro a e; subst e
      exact h (.ident a) (by cases args with | none => simp [inlineAtoms, optAtom] | some pn => obtain ⟨p, n⟩ := pn; simp [inlineAtoms, optAtom])
    cases attr with
    | none => simp only [inlineWriteError]; exact (MarkFree.single (by decide)).append hid
    | some a =>
      simp only [inlineWriteError]
      exact (((MarkFree.single (by decide)).append hid).append (MarkFree.single (by decide))).append (ha a rfl)
  | .var id, h => by
    have : MarkFree id := h (.ident id) (by simp [inlineAtoms])
    simp only [inlineWriteError]; exact (MarkFree.single (by decide)).append this
  | .placeable e, h => by
    simp only [inlineWriteError]
    exact exprWriteError_mf e (by simpa only [inlineAtoms] using h)
theorem exprWriteError_mf {env : Env} {L : Bytes → Prop} : ∀ (e : Expr Bytes), AtomsOK env L (exprAtoms e) →
    MarkFree (exprWriteError e)
  | .inline e, h => by
    simp only [exprWriteError]
    exact inlineWriteError_mf e (by simpa only [exprAtoms] using h)
  | .select sel _, h => by
    simp only [exprWriteError]
    simp only [exprAtoms] at h
    exact inlineWriteError_mf sel (AtomsOK_append.1 h).1
end

theorem defaultVariant_ok {env : Env} {L : Bytes → Prop} : ∀ (vs : List (Variant Bytes)) (v : Pattern Bytes),
    AtomsOK env L (variantsAtoms vs) → defaultVariant vs = some v → PatOK env L v
  | [], _, _, h => by simp [defaultVariant] at h
  | .mk k val d :: rest, v, ha, h => by
    simp only [variantsAtoms, variantAtoms] at ha
    simp only [defaultVariant] at h
    split at h
    · cases h; exact (AtomsOK_append.1 ha).1
    · exact defaultVariant_ok rest v (AtomsOK_append.1 ha).2 h

theorem selectVariant_ok {env : Env} {L : Bytes → Prop} : ∀ (vs : List (Variant Bytes)) (sel : Value) (v : Pattern Bytes),
    AtomsOK env L (variantsAtoms vs) → selectVariant env vs sel = .ok (some v) → PatOK env L v
  | [], _, _, _, h => by simp [selectVariant] at h
  | .mk k val d :: rest, sel, v, ha, h => by
    simp only [variantsAtoms, variantAtoms] at ha
    simp only [selectVariant] at h
    split at h
    · cases h
    · cases h; exact (AtomsOK_append.1 ha).1
    · exact selectVariant_ok rest sel v (AtomsOK_append.1 ha).2 h

end atoms

/-! ## the joint statement -/

/-- the local arguments of the scope are `L`-valued -/
def ScOK (env : Env) (L : Bytes → Prop) (sc : Scope) : Prop :=
  ∀ l, sc.localArgs = some l → ∀ kv ∈ l, LVal env L kv.2

theorem ScOK.of_eq {env : Env} {L : Bytes → Prop} {a b : Scope} (h : b.localArgs = a.localArgs) (ha : ScOK env L a) :
    ScOK env L b := by
  unfold ScOK; rw [h]; exact ha

/-- result of a writing function started from `w`: the old writer plus a word of `L`; local arguments restored -/
def OutW (L : Bytes → Prop) (w : Bytes) (sc : Scope) : RR (Bytes × Scope) → Prop
  | .ok (w', sc') => (∃ o, w' = w ++ o ∧ L o) ∧ sc'.localArgs = sc.localArgs
  | _ => True

/-- result of a resolving function -/
def OutV {α : Type} (P : α → Prop) (sc : Scope) : RR (α × Scope) → Prop
  | .ok (v, sc') => P v ∧ sc'.localArgs = sc.localArgs
  | _ => True

@[simp] theorem outW_ok {L : Bytes → Prop} {w : Bytes} {sc : Scope} {w' : Bytes} {sc' : Scope} :
    OutW L w sc (.ok (w', sc')) = ((∃ o, w' = w ++ o ∧ L o) ∧ sc'.localArgs = sc.localArgs) := rfl
@[simp] theorem outW_panic {L : Bytes → Prop} {w : Bytes} {sc : Scope} {m : String} : OutW L w sc (.panic m) = True := rfl
@[simp] theorem outW_fuel {L : Bytes → Prop} {w : Bytes} {sc : Scope} : OutW L w sc .fuel = True := rfl
@[simp] theorem outV_ok {α : Type} {P : α → Prop} {sc : Scope} {v : α} {sc' : Scope} :
    OutV P sc (.ok (v, sc')) = (P v ∧ sc'.localArgs = sc.localArgs) := rfl
@[simp] theorem outV_panic {α : Type} {P : α → Prop} {sc : Scope} {m : String} : OutV P sc (.panic m) = True := rfl
@[simp] theorem outV_fuel {α : Type} {P : α → Prop} {sc : Scope} : OutV (α := α) P sc .fuel = True := rfl

theorem OutW.prefix {L : Bytes → Prop} (hL : Lang L) {w w1 o : Bytes} {sc sc1 : Scope} {r : RR (Bytes × Scope)}
    (hw : w1 = w ++ o) (ho : L o) (hs : sc1.localArgs = sc.localArgs) (h : OutW L w1 sc1 r) : OutW L w sc r := by
  rcases r with ⟨⟨w', sc'⟩⟩ | _ | _
  · simp only [outW_ok] at h ⊢
    obtain ⟨⟨o', e, ho'⟩, hs'⟩ := h
    exact ⟨⟨o ++ o', by rw [e, hw, List.append_assoc], hL.app ho ho'⟩, hs'.trans hs⟩
  · trivial
  · trivial

theorem outW_app {L : Bytes → Prop} {w o : Bytes} {sc sc' : Scope} (ho : L o) (hs : sc'.localArgs = sc.localArgs) :
    OutW L w sc (.ok (w ++ o, sc')) := ⟨⟨o, rfl, ho⟩, hs⟩

theorem outV_intro {α : Type} {P : α → Prop} {sc sc' : Scope} {v : α} (h : P v) (hs : sc'.localArgs = sc.localArgs) :
    OutV P sc (.ok (v, sc')) := ⟨h, hs⟩

theorem outW_same {L : Bytes → Prop} (hL : Lang L) {w : Bytes} {sc sc' : Scope} (hs : sc'.localArgs = sc.localArgs) :
    OutW L w sc (.ok (w, sc')) := ⟨⟨[], by simp, hL.nil⟩, hs⟩

structure Inv (env : Env) (L : Bytes → Prop) (n : Nat) : Prop where
  writeElems : ∀ whole len els w sc, AtomsOK env L (elemsAtoms (decide (len > 1)) els) → ScOK env L sc →
    OutW L w sc (writeElems env n whole len els w sc)
  writePattern : ∀ p w sc, PatOK env L p → ScOK env L sc → OutW L w sc (writePattern env n p w sc)
  track : ∀ p e w sc, PatOK env L p → MarkFree (inlineWriteError e) → ScOK env L sc → OutW L w sc (track env n p e w sc)
  writeExpr : ∀ e w sc, AtomsOK env L (exprAtoms e) → ScOK env L sc → OutW L w sc (writeExpr env n e w sc)
  writeDefault : ∀ vs w sc, AtomsOK env L (variantsAtoms vs) → ScOK env L sc → OutW L w sc (writeDefault env n vs w sc)
  writeInline : ∀ e w sc, AtomsOK env L (inlineAtoms e) → ScOK env L sc → OutW L w sc (writeInline env n e w sc)
  resolveInline : ∀ e sc, AtomsOK env L (inlineAtoms e) → ScOK env L sc → OutV (LVal env L) sc (resolveInline env n e sc)
  getArguments : ∀ a sc, AtomsOK env L (argsAtoms a) → ScOK env L sc →
    OutV (fun (r : List Value × ArgList) => (∀ v ∈ r.1, LVal env L v) ∧ (∀ kv ∈ r.2, LVal env L kv.2)) sc
      (getArguments env n a sc)
  resolveList : ∀ es sc, AtomsOK env L (inlinesAtoms es) → ScOK env L sc →
    OutV (fun (vs : List Value) => ∀ v ∈ vs, LVal env L v) sc (resolveList env n es sc)
  resolveNamed : ∀ es sc, AtomsOK env L (namedAtoms es) → ScOK env L sc →
    OutV (fun (ns : List (Bytes × Value)) => ∀ kv ∈ ns, LVal env L kv.2) sc (resolveNamed env n es sc)

theorem inv_zero (env : Env) (L : Bytes → Prop) : Inv env L 0 := by
  constructor <;> intros <;> simp [writeElems, writePattern, track, writeExpr, writeDefault, writeInline,
    resolveInline, getArguments, resolveList, resolveNamed]

/-! ## values -/

section values
variable {env : Env} {L : Bytes → Prop} (H : EnvOK env L)
include H

theorem lval_of_own (v : Value)
    (h : L (match v with | .str s => s | .num n => Num.asString n | .custom t => env.customStr t | .error => [] | .none => [])) :
    LVal env L v := by
  unfold LVal valueString
  cases hf : env.formatter.bind (fun f => f v) with
  | some s =>
    obtain ⟨f, hf1, hf2⟩ := Option.bind_eq_some_iff.1 hf
    exact H.lang.mf (H.formatter f v s hf1 hf2)
  | none => exact h

theorem lval_str {w : Bytes} (h : L w) : LVal env L (.str w) := lval_of_own H _ h
theorem lval_error : LVal env L .error := lval_of_own H _ H.lang.nil

theorem lookup_lval {sc : Scope} (hsc : ScOK env L sc) {id : Bytes} {v : Value}
    (h : (match sc.localArgs with | some l => some l | .none => env.args).bind (·.get id) = some v) : LVal env L v := by
  obtain ⟨a, ha, hg⟩ := Option.bind_eq_some_iff.1 h
  obtain ⟨k', hk⟩ := get_mem hg
  cases hl : sc.localArgs with
  | some l =>
    rw [hl] at ha; injection ha with ha; subst ha
    exact hsc _ hl _ hk
  | none =>
    rw [hl] at ha
    exact H.args a ha _ hk

end values

/-! ## the induction step -/

section step
set_option linter.unusedSectionVars false
variable {env : Env} {L : Bytes → Prop} {n : Nat} (H : EnvOK env L) (IH : Inv env L n)
include H IH

theorem writePattern_step (p : Pattern Bytes) (w : Bytes) (sc : Scope) (hp : PatOK env L p) (hsc : ScOK env L sc) :
    OutW L w sc (writePattern env (n + 1) p w sc) := by
  simp only [writePattern]; exact IH.writeElems _ _ _ _ _ hp hsc

theorem writeDefault_step (vs : List (Variant Bytes)) (w : Bytes) (sc : Scope)
    (hv : AtomsOK env L (variantsAtoms vs)) (hsc : ScOK env L sc) :
    OutW L w sc (writeDefault env (n + 1) vs w sc) := by
  simp only [writeDefault]
  split
  · rename_i v hd
    exact IH.writePattern _ _ _ (defaultVariant_ok vs v hv hd) hsc
  · exact outW_same H.lang rfl

theorem track_step (p : Pattern Bytes) (e : Inline Bytes) (w : Bytes) (sc : Scope)
    (hp : PatOK env L p) (he : MarkFree (inlineWriteError e)) (hsc : ScOK env L sc) :
    OutW L w sc (track env (n + 1) p e w sc) := by
  simp only [track]
  split
  · exact outW_app (H.lang.mf (markFree_braced he)) rfl
  · have h := IH.writePattern p w { sc with travelled := sc.travelled ++ [p] } hp (ScOK.of_eq rfl hsc)
    rcases hr : writePattern env n p w { sc with travelled := sc.travelled ++ [p] } with ⟨⟨w1, sc1⟩⟩ | ⟨m⟩ | _
    · rw [hr] at h; simp only [outW_ok] at h ⊢
      exact h
    · trivial
    · trivial

theorem writeElems_step (whole : Pattern Bytes) (len : Nat) (els : List (PatElem Bytes)) (w : Bytes) (sc : Scope)
    (he : AtomsOK env L (elemsAtoms (decide (len > 1)) els)) (hsc : ScOK env L sc) :
    OutW L w sc (writeElems env (n + 1) whole len els w sc) := by
  cases els with
  | nil => simp only [writeElems]; exact outW_same H.lang rfl
  | cons el rest =>
    simp only [elemsAtoms] at he
    obtain ⟨he1, he2⟩ := AtomsOK_append.1 he
    cases el with
    | text v =>
      simp only [writeElems]
      split
      · exact outW_same H.lang rfl
      · have ht : MarkFree (match env.transform with | some f => f v | .none => v) :=
          he1 (.text v) (by simp [elemAtoms])
        exact OutW.prefix H.lang rfl (H.lang.mf ht) rfl (IH.writeElems _ _ _ _ _ he2 hsc)
    | placeable e =>
      simp only [elemAtoms] at he1
      obtain ⟨hsite, hexpr⟩ := AtomsOK_append.1 he1
      simp only [writeElems]
      split
      · exact outW_same H.lang rfl
      split
      · trivial
      split
      · exact outW_same H.lang rfl
      · generalize hsc2 : (if ({ sc with placeables := sc.placeables + 1 } : Scope).travelled.isEmpty = true
          then { sc with placeables := sc.placeables + 1, travelled := [whole] }
          else { sc with placeables := sc.placeables + 1 }) = sc2
        have hl2 : sc2.localArgs = sc.localArgs := by rw [← hsc2]; split <;> rfl
        have hfb : MarkFree (braced (exprWriteError e)) := markFree_braced (exprWriteError_mf e hexpr)
        cases hiso : (env.useIsolating && decide (len > 1) && isolatable e) with
        | false =>
          simp only [Bool.false_eq_true, if_false]
          have h := IH.writeExpr e w sc2 hexpr (ScOK.of_eq hl2 hsc)
          rcases hr : writeExpr env n e w sc2 with ⟨⟨w2, sc3⟩⟩ | ⟨m⟩ | _
          · rw [hr] at h; simp only [outW_ok] at h
            obtain ⟨⟨o, hw2, ho⟩, hl3⟩ := h
            simp only []
            have hl3' : sc3.localArgs = sc.localArgs := hl3.trans hl2
            refine OutW.prefix H.lang (o := o ++ (if sc3.dirty = true then braced (exprWriteError e) else [])) ?_ ?_ hl3'
              (IH.writeElems _ _ _ _ _ he2 (ScOK.of_eq hl3' hsc))
            · subst hw2; split <;> simp [List.append_assoc]
            · refine H.lang.app ho ?_
              split
              · exact H.lang.mf hfb
              · exact H.lang.nil
          · trivial
          · trivial
        | true =>
          simp only [if_true]
          have hb : env.useIsolating = true ∧ decide (len > 1) = true ∧ isolatable e = true := by
            simp only [Bool.and_eq_true] at hiso; exact ⟨hiso.1.1, hiso.1.2, hiso.2⟩
          have hS : SiteOK env L := by
            have := hsite .site (by simp [hb.2.1, hb.2.2])
            exact this
          have h := IH.writeExpr e (w ++ fsi) sc2 hexpr (ScOK.of_eq hl2 hsc)
          rcases hr : writeExpr env n e (w ++ fsi) sc2 with ⟨⟨w2, sc3⟩⟩ | ⟨m⟩ | _
          · rw [hr] at h; simp only [outW_ok] at h
            obtain ⟨⟨o, hw2, ho⟩, hl3⟩ := h
            simp only []
            have hl3' : sc3.localArgs = sc.localArgs := hl3.trans hl2
            refine OutW.prefix H.lang
              (o := fsi ++ ((o ++ (if sc3.dirty = true then braced (exprWriteError e) else [])) ++ pdi)) ?_ ?_ hl3'
              (IH.writeElems _ _ _ _ _ he2 (ScOK.of_eq hl3' hsc))
            · subst hw2; split <;> simp [List.append_assoc]
            · refine hS hb.1 _ (H.lang.app ho ?_)
              split
              · exact H.lang.mf hfb
              · exact H.lang.nil
          · trivial
          · trivial

theorem writeExpr_step (e : Expr Bytes) (w : Bytes) (sc : Scope)
    (he : AtomsOK env L (exprAtoms e)) (hsc : ScOK env L sc) :
    OutW L w sc (writeExpr env (n + 1) e w sc) := by
  cases e with
  | inline e => simp only [writeExpr]; exact IH.writeInline e w sc (by simpa only [exprAtoms] using he) hsc
  | select sel vs =>
    simp only [exprAtoms] at he
    obtain ⟨hsel, hvs⟩ := AtomsOK_append.1 he
    simp only [writeExpr]
    have h := IH.resolveInline sel sc hsel hsc
    rcases hr : resolveInline env n sel sc with ⟨⟨v, sc1⟩⟩ | ⟨m⟩ | _
    · rw [hr] at h; simp only [outV_ok] at h
      have hsc1 : ScOK env L sc1 := ScOK.of_eq h.2 hsc
      have hdef : OutW L w sc (writeDefault env n vs w sc1) :=
        OutW.prefix H.lang (o := []) (by simp) H.lang.nil h.2 (IH.writeDefault vs w sc1 hvs hsc1)
      have hsel' : OutW L w sc (match selectVariant env vs v with
          | .ok (some p) => writePattern env n p w sc1
          | .ok .none => writeDefault env n vs w sc1
          | .panic m => .panic m
          | .fuel => .fuel) := by
        rcases hs : selectVariant env vs v with ⟨_ | p⟩ | ⟨m⟩ | _
        · exact hdef
        · exact OutW.prefix H.lang (o := []) (by simp) H.lang.nil h.2
            (IH.writePattern p w sc1 (selectVariant_ok vs v p hvs hs) hsc1)
        · trivial
        · trivial
      cases v with
      | str s => exact hsel'
      | num x => exact hsel'
      | custom t => exact hdef
      | none => exact hdef
      | error => exact hdef
    · trivial
    · trivial

theorem resolveList_step (es : List (Inline Bytes)) (sc : Scope)
    (he : AtomsOK env L (inlinesAtoms es)) (hsc : ScOK env L sc) :
    OutV (fun (vs : List Value) => ∀ v ∈ vs, LVal env L v) sc (resolveList env (n + 1) es sc) := by
  cases es with
  | nil => simp [resolveList]
  | cons e es =>
    simp only [inlinesAtoms] at he
    obtain ⟨h1, h2⟩ := AtomsOK_append.1 he
    simp only [resolveList]
    have h := IH.resolveInline e sc h1 hsc
    rcases hr : resolveInline env n e sc with ⟨⟨v, sc1⟩⟩ | ⟨m⟩ | _
    · rw [hr] at h; simp only [outV_ok] at h
      simp only []
      have h' := IH.resolveList es sc1 h2 (ScOK.of_eq h.2 hsc)
      rcases hr' : resolveList env n es sc1 with ⟨⟨vs, sc2⟩⟩ | ⟨m⟩ | _
      · rw [hr'] at h'; simp only [outV_ok] at h'
        refine ⟨?_, h'.2.trans h.2⟩
        intro x hx
        rcases List.mem_cons.1 hx with rfl | hx
        · exact h.1
        · exact h'.1 x hx
      · trivial
      · trivial
    · trivial
    · trivial

theorem resolveNamed_step (es : List (Bytes × Inline Bytes)) (sc : Scope)
    (he : AtomsOK env L (namedAtoms es)) (hsc : ScOK env L sc) :
    OutV (fun (ns : List (Bytes × Value)) => ∀ kv ∈ ns, LVal env L kv.2) sc (resolveNamed env (n + 1) es sc) := by
  cases es with
  | nil => simp [resolveNamed]
  | cons ke es =>
    obtain ⟨k, e⟩ := ke
    simp only [namedAtoms] at he
    obtain ⟨h1, h2⟩ := AtomsOK_append.1 he
    simp only [resolveNamed]
    have h := IH.resolveInline e sc h1 hsc
    rcases hr : resolveInline env n e sc with ⟨⟨v, sc1⟩⟩ | ⟨m⟩ | _
    · rw [hr] at h; simp only [outV_ok] at h
      simp only []
      have h' := IH.resolveNamed es sc1 h2 (ScOK.of_eq h.2 hsc)
      rcases hr' : resolveNamed env n es sc1 with ⟨⟨vs, sc2⟩⟩ | ⟨m⟩ | _
      · rw [hr'] at h'; simp only [outV_ok] at h'
        refine ⟨?_, h'.2.trans h.2⟩
        intro x hx
        rcases List.mem_cons.1 hx with rfl | hx
        · exact h.1
        · exact h'.1 x hx
      · trivial
      · trivial
    · trivial
    · trivial

theorem getArguments_step (a : Option (List (Inline Bytes) × List (Bytes × Inline Bytes))) (sc : Scope)
    (he : AtomsOK env L (argsAtoms a)) (hsc : ScOK env L sc) :
    OutV (fun (r : List Value × ArgList) => (∀ v ∈ r.1, LVal env L v) ∧ (∀ kv ∈ r.2, LVal env L kv.2)) sc
      (getArguments env (n + 1) a sc) := by
  cases a with
  | none => simp [getArguments]
  | some pn =>
    obtain ⟨pos, named⟩ := pn
    simp only [argsAtoms] at he
    obtain ⟨h1, h2⟩ := AtomsOK_append.1 he
    simp only [getArguments]
    have h := IH.resolveList pos sc h1 hsc
    rcases hr : resolveList env n pos sc with ⟨⟨vs, sc1⟩⟩ | ⟨m⟩ | _
    · rw [hr] at h; simp only [outV_ok] at h
      simp only []
      have h' := IH.resolveNamed named sc1 h2 (ScOK.of_eq h.2 hsc)
      rcases hr' : resolveNamed env n named sc1 with ⟨⟨ns, sc2⟩⟩ | ⟨m⟩ | _
      · rw [hr'] at h'; simp only [outV_ok] at h'
        exact ⟨⟨h.1, fun kv hkv => h'.1 kv (mem_ofPairs hkv)⟩, h'.2.trans h.2⟩
      · trivial
      · trivial
    · trivial
    · trivial

theorem writeRefError_out (w : Bytes) (sc : Scope) (e : Inline Bytes) (he : MarkFree (inlineWriteError e)) :
    OutW L w sc (writeRefError w sc e) := by
  unfold writeRefError
  split
  · trivial
  · exact outW_app (H.lang.mf (markFree_braced he)) rfl

theorem writeInline_step (e : Inline Bytes) (w : Bytes) (sc : Scope)
    (he : AtomsOK env L (inlineAtoms e)) (hsc : ScOK env L sc) :
    OutW L w sc (writeInline env (n + 1) e w sc) := by
  have herr : MarkFree (inlineWriteError e) := inlineWriteError_mf e he
  cases e with
  | str v =>
    simp only [writeInline]
    exact outW_app (H.lang.mf (he (.str v) (by simp [inlineAtoms])).2) rfl
  | num v =>
    simp only [writeInline]
    exact outW_app (H.lang.mf (he (.num v) (by simp [inlineAtoms])).2) rfl
  | msg id attr =>
    simp only [writeInline]
    cases hm : env.msg id with
    | none => exact writeRefError_out H IH w sc _ herr
    | some m =>
      simp only []
      cases attr with
      | some a =>
        simp only []
        cases hf : findAttr m.attributes a with
        | none => exact writeRefError_out H IH w sc _ herr
        | some p =>
          obtain ⟨at', hmem, rfl⟩ := findAttr_mem hf
          exact IH.track _ _ w sc (H.msgAttr id m at' hm hmem) herr hsc
      | none =>
        simp only []
        cases hv : m.value with
        | none => exact outW_app (H.lang.mf (markFree_braced herr)) rfl
        | some p => exact IH.track _ _ w sc (H.msgValue id m p hm hv) herr hsc
  | term id attr args =>
    have hargs : AtomsOK env L (argsAtoms args) := by
      cases args with
      | none => intro a ha; simp [argsAtoms] at ha
      | some pn =>
        obtain ⟨p, q⟩ := pn
        simp only [inlineAtoms] at he
        exact (AtomsOK_append.1 (AtomsOK_cons.1 he).2).2
    simp only [writeInline]
    have h := IH.getArguments args sc hargs hsc
    rcases hr : getArguments env n args sc with ⟨⟨⟨rp, named⟩, sc1⟩⟩ | ⟨m⟩ | _
    · rw [hr] at h; simp only [outV_ok] at h
      simp only []
      have hsc2 : ScOK env L { sc1 with localArgs := some named } := by
        intro l hl kv hkv
        cases hl
        exact h.1.2 kv hkv
      have key : ∀ r : RR (Bytes × Scope), OutW L w { sc1 with localArgs := some named } r →
          OutW L w sc (match r with
            | .ok (w1, sc3) => .ok (w1, { sc3 with localArgs := sc1.localArgs })
            | .panic m => .panic m
            | .fuel => .fuel) := by
        intro r hr
        rcases r with ⟨⟨w1, sc3⟩⟩ | _ | _
        · simp only [outW_ok] at hr ⊢; exact ⟨hr.1, h.2⟩
        · trivial
        · trivial
      apply key
      cases ht : env.term id with
      | none => exact writeRefError_out H IH w _ _ herr
      | some t =>
        simp only []
        cases attr with
        | none => exact IH.track _ _ w _ (H.termValue id t ht) herr hsc2
        | some a =>
          simp only []
          cases hf : findAttr t.attributes a with
          | none => exact writeRefError_out H IH w _ _ herr
          | some p =>
            obtain ⟨at', hmem, rfl⟩ := findAttr_mem hf
            exact IH.track _ _ w _ (H.termAttr id t at' ht hmem) herr hsc2
    · trivial
    · trivial
  | fn id pos named =>
    have hargs : AtomsOK env L (argsAtoms (some (pos, named))) := by
      simp only [inlineAtoms] at he
      exact (AtomsOK_cons.1 he).2
    simp only [writeInline]
    have h := IH.getArguments (some (pos, named)) sc hargs hsc
    rcases hr : getArguments env n (some (pos, named)) sc with ⟨⟨⟨rp, rn⟩, sc1⟩⟩ | ⟨m⟩ | _
    · rw [hr] at h; simp only [outV_ok] at h
      simp only []
      cases hf : env.fn id with
      | none =>
        exact OutW.prefix H.lang (o := []) (by simp) H.lang.nil h.2 (writeRefError_out H IH w sc1 _ herr)
      | some f =>
        simp only []
        have hres : LVal env L (f rp rn) := H.fn id f rp rn hf h.1.1 h.1.2
        split
        · exact outW_app (H.lang.mf herr) h.2
        · exact outW_app hres h.2
    · trivial
    · trivial
  | var id =>
    simp only [writeInline]
    split
    · rename_i v hv
      exact outW_app (lookup_lval H hsc hv) rfl
    · refine outW_app (H.lang.mf (markFree_braced herr)) ?_
      split <;> rfl
  | placeable e =>
    simp only [writeInline]
    exact IH.writeExpr e w sc (by simpa only [inlineAtoms] using he) hsc

theorem resolveInline_step (e : Inline Bytes) (sc : Scope)
    (he : AtomsOK env L (inlineAtoms e)) (hsc : ScOK env L sc) :
    OutV (LVal env L) sc (resolveInline env (n + 1) e sc) := by
  have viaWrite : ∀ e', AtomsOK env L (inlineAtoms e') →
      OutV (LVal env L) sc (match writeInline env n e' [] sc with
        | .ok (w, sc1) => .ok (.str w, sc1)
        | .panic m => .panic m
        | .fuel => .fuel) := by
    intro e' he'
    have h := IH.writeInline e' [] sc he' hsc
    rcases hr : writeInline env n e' [] sc with ⟨⟨w1, sc1⟩⟩ | ⟨m⟩ | _
    · rw [hr] at h; simp only [outW_ok] at h
      obtain ⟨⟨o, rfl, ho⟩, hl⟩ := h
      simp only [outV_ok]
      exact ⟨lval_str H (by simpa using ho), hl⟩
    · trivial
    · trivial
  cases e with
  | str v =>
    simp only [resolveInline]
    exact outV_intro (lval_str H (H.lang.mf (he (.str v) (by simp [inlineAtoms])).2)) rfl
  | num v =>
    simp only [resolveInline]
    exact outV_intro (P := LVal env L) (H.lang.mf (he (.num v) (by simp [inlineAtoms])).2) rfl
  | var id =>
    simp only [resolveInline]
    cases hl : sc.localArgs with
    | some l =>
      simp only []
      cases hg : l.get id with
      | some v =>
        obtain ⟨k', hk⟩ := get_mem hg
        exact outV_intro (P := LVal env L) (hsc l hl _ hk) rfl
      | none => exact outV_intro (P := LVal env L) (lval_error H) rfl
    | none =>
      simp only []
      cases hg : env.args.bind (·.get id) with
      | some v =>
        obtain ⟨a, ha, hg'⟩ := Option.bind_eq_some_iff.1 hg
        obtain ⟨k', hk⟩ := get_mem hg'
        exact outV_intro (P := LVal env L) (H.args a ha _ hk) rfl
      | none => exact outV_intro (P := LVal env L) (lval_error H) rfl
  | fn id pos named =>
    have hargs : AtomsOK env L (argsAtoms (some (pos, named))) := by
      simp only [inlineAtoms] at he
      exact (AtomsOK_cons.1 he).2
    simp only [resolveInline]
    have h := IH.getArguments (some (pos, named)) sc hargs hsc
    rcases hr : getArguments env n (some (pos, named)) sc with ⟨⟨⟨rp, rn⟩, sc1⟩⟩ | ⟨m⟩ | _
    · rw [hr] at h; simp only [outV_ok] at h
      simp only []
      cases hf : env.fn id with
      | none => exact outV_intro (P := LVal env L) (lval_error H) h.2
      | some f => exact outV_intro (P := LVal env L) (H.fn id f rp rn hf h.1.1 h.1.2) h.2
    · trivial
    · trivial
  | msg id attr => simp only [resolveInline]; exact viaWrite _ he
  | term id attr args => simp only [resolveInline]; exact viaWrite _ he
  | placeable e => simp only [resolveInline]; exact viaWrite _ he

end step

/-- **the output language of the resolver**: by induction on the fuel, jointly for the ten functions -/
theorem inv_all {env : Env} {L : Bytes → Prop} (H : EnvOK env L) : ∀ n, Inv env L n
  | 0 => inv_zero env L
  | n + 1 =>
    have IH := inv_all H n
    { writeElems := fun _ _ _ _ _ => writeElems_step H IH _ _ _ _ _
      writePattern := fun _ _ _ => writePattern_step H IH _ _ _
      track := fun _ _ _ _ => track_step H IH _ _ _ _
      writeExpr := fun _ _ _ => writeExpr_step H IH _ _ _
      writeDefault := fun _ _ _ => writeDefault_step H IH _ _ _
      writeInline := fun _ _ _ => writeInline_step H IH _ _ _
      resolveInline := fun _ _ => resolveInline_step H IH _ _
      getArguments := fun _ _ => getArguments_step H IH _ _
      resolveList := fun _ _ => resolveList_step H IH _ _
      resolveNamed := fun _ _ => resolveNamed_step H IH _ _ }

end FluentProofs.Bidi
