import FluentProofs.ParserLocalSimDefs
/-!
# Locality of the parser, SIMULATION family, part 1: cursors never move before the start (one source)

`CurGe p r`: the cursor of an `ok` / `err` outcome `r` of a parser function started at `p` is `≥ p` (for `err` this
is the *cursor* reported with the error, not the error's `posStart` as in `CurGe`).  Hypothesis-free, any fuel.
-/
namespace FluentProofs.Parser
open FluentModel.Syntax

/-! ## leaves -/

theorem expectByte_ge (s : Src) (p : Nat) (b : UInt8) : CurGe p (expectByte s p b) := by
  unfold expectByte
  split <;> cur_close

theorem skipDigits_ge (s : Src) (p : Nat) : CurGe p (skipDigits s p) := by
  unfold skipDigits
  have := scanWhile_le s isDigit p
  simp only []
  split <;> cur_close

theorem getNumberLiteral_ge (s : Src) (p : Nat) : CurGe p (getNumberLiteral s p) := by
  unfold getNumberLiteral
  have h0 := takeByteIf_le s p 45
  generalize takeByteIf s p 45 = t at h0 ⊢
  obtain ⟨p1, d1⟩ := t
  simp only [] at h0 ⊢
  rcases (skipDigits_ge s p1).cases with ⟨_, p2, hr, h1⟩ | ⟨e, q, hr, h1⟩ | ⟨m, hr⟩ | hr <;> simp only [hr] <;>
    try cur_close
  have h2 := takeByteIf_le s p2 46
  generalize takeByteIf s p2 46 = t at h2 ⊢
  obtain ⟨p3, dot⟩ := t
  simp only [] at h2 ⊢
  split
  · rcases (skipDigits_ge s p3).cases with ⟨_, p4, hr, h3⟩ | ⟨e, q, hr, h3⟩ | ⟨m, hr⟩ | hr <;> simp only [hr] <;>
      try cur_close
    split <;> cur_close
  · split <;> cur_close

theorem getIdentifierUnchecked_ge (s : Src) (p : Nat) : CurGe p (getIdentifierUnchecked s p) := by
  unfold getIdentifierUnchecked
  have := scanWhile_le s isIdentByte p
  simp only []
  split
  · cur_close
  · split <;> cur_close

theorem getIdentifier_ge (s : Src) (p : Nat) : CurGe p (getIdentifier s p) := by
  unfold getIdentifier
  split
  · cur_close
  · exact (getIdentifierUnchecked_ge s (p + 1)).weaken (by omega)

theorem getAttributeAccessor_ge (s : Src) (p : Nat) : CurGe p (getAttributeAccessor s p) := by
  unfold getAttributeAccessor
  have h0 := takeByteIf_le s p 46
  generalize takeByteIf s p 46 = t at h0 ⊢
  obtain ⟨p1, dot⟩ := t
  simp only [] at h0 ⊢
  split
  · rcases (getIdentifier_ge s p1).cases with ⟨_, p2, hr, h1⟩ | ⟨e, q, hr, h1⟩ | ⟨m, hr⟩ | hr <;> simp only [hr] <;>
      cur_close
  · cur_close


theorem skipUnicodeEscapeSequence_ge (s : Src) (p len : Nat) : CurGe p (skipUnicodeEscapeSequence s p len) := by
  unfold skipUnicodeEscapeSequence
  have := skipHexGo_le s len p
  simp only []
  split
  · split <;> cur_close
  · cur_close

theorem scanStringGo_ge (s : Src) (n p : Nat) : CurGe p (scanStringGo s n p) := by
  induction n generalizing p with
  | zero => simp [scanStringGo]
  | succ n ih =>
    simp only [scanStringGo]
    split
    · cur_close
    · split
      · exact (ih (p + 2)).weaken (by omega)
      · exact (ih (p + 2)).weaken (by omega)
      · rcases (skipUnicodeEscapeSequence_ge s (p + 2) 4).cases with ⟨_, q, hr, h1⟩ | ⟨e, q, hr, h1⟩ | ⟨m, hr⟩ | hr <;>
          simp only [hr] <;> try cur_close
        exact (ih q).weaken (by omega)
      · rcases (skipUnicodeEscapeSequence_ge s (p + 2) 6).cases with ⟨_, q, hr, h1⟩ | ⟨e, q, hr, h1⟩ | ⟨m, hr⟩ | hr <;>
          simp only [hr] <;> try cur_close
        exact (ih q).weaken (by omega)
      · cur_close
    · cur_close
    · cur_close
    · exact (ih (p + 1)).weaken (by omega)

theorem scanString_ge (s : Src) (p : Nat) : CurGe p (scanString s p) := scanStringGo_ge s _ p

theorem getTextSlice_ge (s : Src) (p : Nat) : CurGe p (getTextSlice s p) := by
  unfold getTextSlice
  split
  · cur_close
  · split
    · cur_close
    · rename_i e he
      have := memchr3Go_ge he
      split
      · cur_close
      · split <;> cur_close
      · cur_close
      · cur_close

theorem variantKey_ge (s : Src) (p : Nat) : CurGe p (variantKey s p) := by
  unfold variantKey
  split
  · rcases (getNumberLiteral_ge s p).cases with ⟨sp, q, hr, h1⟩ | ⟨e, q, hr, h1⟩ | ⟨m, hr⟩ | hr <;> simp only [hr] <;>
      cur_close
  · rcases (getIdentifier_ge s p).cases with ⟨sp, q, hr, h1⟩ | ⟨e, q, hr, h1⟩ | ⟨m, hr⟩ | hr <;> simp only [hr] <;>
      cur_close

/-! ## the eight mutually recursive functions -/

structure GSpecs (s : Src) (n : Nat) : Prop where
  patternLoop : ∀ st p, CurGe p (getPatternLoop s n st p)
  pattern : ∀ p, CurGe p (getPattern s n p)
  placeable : ∀ p, CurGe p (getPlaceable s n p)
  expression : ∀ p, CurGe p (getExpression s n p)
  inline : ∀ ol p, CurGe p (getInline s n ol p)
  callArguments : ∀ p, CurGe p (getCallArguments s n p)
  callArgsLoop : ∀ pos named p, CurGe p (getCallArgsLoop s n pos named p)
  variants : ∀ hd acc p, CurGe p (getVariants s n hd acc p)

theorem placeable_ge_step {s : Src} {n : Nat} (IH : GSpecs s n) (p : Nat) : CurGe p (getPlaceable s (n + 1) p) := by
  simp only [getPlaceable]
  have h0 := (skipBlank_after s p).le
  rcases (IH.expression (skipBlank s p)).cases with ⟨e, q, hr, h1⟩ | ⟨e, q, hr, h1⟩ | ⟨m, hr⟩ | hr <;> simp only [hr] <;>
    try cur_close
  have h2 := (skipBlankInline_after s q).le
  rcases (expectByte_ge s (skipBlankInline s q) 125).cases with ⟨_, q2, hr2, h3⟩ | ⟨e2, q2, hr2, h3⟩ | ⟨m, hr2⟩ | hr2 <;>
    simp only [hr2] <;> try cur_close
  split <;> cur_close

theorem pattern_ge_step {s : Src} {n : Nat} (IH : GSpecs s n) (p : Nat) : CurGe p (getPattern s (n + 1) p) := by
  have key : ∀ role p2, p ≤ p2 →
      CurGe p (match getPatternLoop s n ⟨[], none, none, role, none⟩ p2 with
        | .ok st q =>
          (match st.lastNonBlank with
           | some lnb =>
             (match finishElements s st.keptCommonIndent lnb 0 st.elements with
              | some els => .ok (some els) q
              | none => .panic "get_pattern slice")
           | none => .ok none q)
        | .err e q => .err e q
        | .panic m => .panic m
        | .fuel => .fuel) := by
    intro role p2 hle
    rcases (IH.patternLoop ⟨[], none, none, role, none⟩ p2).cases with ⟨st, q, hr, h1⟩ | ⟨e, q, hr, h1⟩ | ⟨m, hr⟩ | hr <;>
      simp only [hr] <;> try cur_close
    split
    · split <;> cur_close
    · cur_close
  simp only [getPattern]
  have hA1 := (skipBlankInline_after s p).le
  cases hE : skipEol s (skipBlankInline s p) with
  | none => exact key _ _ hA1
  | some q =>
    have h1 := (skipEol_after hE).le
    have h2 := skipBlankBlock_le s q
    have h3 : p ≤ (skipBlankBlock s q).1 := by omega
    exact key _ _ h3

theorem callArguments_ge_step {s : Src} {n : Nat} (IH : GSpecs s n) (p : Nat) :
    CurGe p (getCallArguments s (n + 1) p) := by
  simp only [getCallArguments]
  have h1 := (skipBlank_after s p).le
  rcases takeByteIf_cases s (skipBlank s p) 40 with ⟨h, h'⟩ | ⟨h, _⟩ <;> rw [h] <;> simp only []
  · have h3 := (skipBlank_after s (skipBlank s p + 1)).le
    simp only [Bool.not_true, Bool.false_eq_true, if_false]
    rcases (IH.callArgsLoop [] [] (skipBlank s (skipBlank s p + 1))).cases with
      ⟨⟨pos, named⟩, q, hr, h5⟩ | ⟨e, q, hr, h5⟩ | ⟨m, hr⟩ | hr <;> simp only [hr] <;> try cur_close
    rcases (expectByte_ge s q 41).cases with ⟨_, q2, hr2, h8⟩ | ⟨e2, q2, hr2, h8⟩ | ⟨m, hr2⟩ | hr2 <;>
      simp only [hr2] <;> cur_close
  · simp; omega

theorem expression_ge_step {s : Src} {n : Nat} (IH : GSpecs s n) (p : Nat) : CurGe p (getExpression s (n + 1) p) := by
  simp only [getExpression]
  rcases (IH.inline false p).cases with ⟨exp, q, hr, h1⟩ | ⟨e, q, hr, h1⟩ | ⟨m, hr⟩ | hr <;> simp only [hr] <;>
    try cur_close
  have h5 := (skipBlank_after s q).le
  split
  · split <;> cur_close
  · split
    · cur_close
    · have h7 := (skipBlankInline_after s (skipBlank s q + 2)).le
      split
      · cur_close
      · rename_i q3 hq3
        have h8 := (skipEol_after hq3).le
        have h9 := (skipBlank_after s q3).le
        rcases (IH.variants false [] (skipBlank s q3)).cases with ⟨vs, q5, hr5, h11⟩ | ⟨e, q5, hr5, h11⟩ | ⟨m, hr5⟩ | hr5 <;>
          simp only [hr5] <;> cur_close

theorem variants_ge_step {s : Src} {n : Nat} (IH : GSpecs s n) (hd : Bool) (acc : List (Variant Span)) (p : Nat) :
    CurGe p (getVariants s (n + 1) hd acc p) := by
  simp only [getVariants]
  have h1 := takeByteIf_le s p 42
  generalize takeByteIf s p 42 = t at h1 ⊢
  obtain ⟨p1, dflt⟩ := t
  simp only [] at h1 ⊢
  split
  · cur_close
  · rcases takeByteIf_cases s p1 91 with ⟨h, h'⟩ | ⟨h, _⟩ <;> rw [h] <;> simp only []
    · simp only [Bool.not_true, Bool.false_eq_true, if_false]
      have h3 := (skipBlank_after s (p1 + 1)).le
      have hk := variantKey_ge s (skipBlank s (p1 + 1))
      split
      · rename_i key q heq
        rw [show variantKey s (skipBlank s (p1 + 1)) = R.ok key q from heq] at hk
        simp only [curGe_ok] at hk
        have h9 := (skipBlank_after s q).le
        rcases (expectByte_ge s (skipBlank s q) 93).cases with ⟨_, q2, hr2, h11⟩ | ⟨e2, q2, hr2, h11⟩ | ⟨m, hr2⟩ | hr2 <;>
          simp only [hr2] <;> try cur_close
        rcases (IH.pattern q2).cases with ⟨o, q3, hr3, h15⟩ | ⟨e3, q3, hr3, h15⟩ | ⟨m, hr3⟩ | hr3 <;>
          simp only [hr3] <;> try cur_close
        cases o with
        | none => cur_close
        | some value =>
          simp only []
          have h19 := (skipBlank_after s q3).le
          exact (IH.variants _ _ (skipBlank s q3)).weaken (by omega)
      · rename_i e q heq
        rw [show variantKey s (skipBlank s (p1 + 1)) = R.err e q from heq] at hk
        simp only [curGe_err] at hk
        cur_close
      · cur_close
      · cur_close
    · simp only [Bool.not_false, if_true]
      (repeat' split) <;> cur_close

theorem callArgsLoop_ge_step {s : Src} {n : Nat} (IH : GSpecs s n)
    (pos : List (Inline Span)) (named : List (Span × Inline Span)) (p : Nat) :
    CurGe p (getCallArgsLoop s (n + 1) pos named p) := by
  simp only [getCallArgsLoop]
  split
  · split
    · cur_close
    · have next_ok : ∀ pos' named' q', p ≤ q' →
          CurGe p (getCallArgsLoop s n pos' named' (skipBlank s (takeByteIf s (skipBlank s q') 44).fst)) := by
        intro pos' named' q' h1
        have h2 := (skipBlank_after s q').le
        have h3 := takeByteIf_le s (skipBlank s q') 44
        have h4 := (skipBlank_after s (takeByteIf s (skipBlank s q') 44).fst).le
        exact (IH.callArgsLoop pos' named' _).weaken (by omega)
      rcases (IH.inline false p).cases with ⟨exp, q, hr, h1⟩ | ⟨e, q, hr, h1⟩ | ⟨m, hr⟩ | hr <;> simp only [hr] <;>
        try cur_close
      have h5 := (skipBlank_after s q).le
      split
      · rename_i id
        split
        · split
          · cur_close
          · have h7 := (skipBlank_after s (skipBlank s q + 1)).le
            rcases (IH.inline true (skipBlank s (skipBlank s q + 1))).cases with
              ⟨val, q3, hr3, h9⟩ | ⟨e, q3, hr3, h9⟩ | ⟨m, hr3⟩ | hr3 <;> simp only [hr3] <;> try cur_close
            exact next_ok _ _ q3 (by omega)
        · split
          · cur_close
          · exact next_ok _ _ _ (by omega)
      · split
        · cur_close
        · exact next_ok _ _ _ (by omega)
  · cur_close

theorem inline_ge_step {s : Src} {n : Nat} (IH : GSpecs s n) (ol : Bool) (p : Nat) :
    CurGe p (getInline s (n + 1) ol p) := by
  simp only [getInline]
  have hfb : CurGe p (if ol = true then (R.err (mkErr .expectedLiteral p) p : R (Inline Span))
      else .err (mkErr .expectedInlineExpression p) p) := by
    split <;> cur_close
  split
  · exact hfb
  · rename_i b hb
    split
    · rcases (scanString_ge s (p + 1)).cases with ⟨_, q, hr, h1⟩ | ⟨e, q, hr, h1⟩ | ⟨m, hr⟩ | hr <;> simp only [hr] <;>
        try cur_close
      rcases (expectByte_ge s q 34).cases with ⟨_, q1, hr1, h3⟩ | ⟨e, q1, hr1, h3⟩ | ⟨m, hr1⟩ | hr1 <;> simp only [hr1] <;>
        try cur_close
      split
      · cur_close
      · split <;> cur_close
    · split
      · rcases (getNumberLiteral_ge s p).cases with ⟨sp, q, hr, h1⟩ | ⟨e, q, hr, h1⟩ | ⟨m, hr⟩ | hr <;> simp only [hr] <;>
          cur_close
      · split
        · split
          · rcases (getIdentifierUnchecked_ge s (p + 2)).cases with ⟨id, q, hr, h1⟩ | ⟨e, q, hr, h1⟩ | ⟨m, hr⟩ | hr <;>
              simp only [hr] <;> try cur_close
            rcases (getAttributeAccessor_ge s q).cases with ⟨attr, q1, hr1, h6⟩ | ⟨e, q1, hr1, h6⟩ | ⟨m, hr1⟩ | hr1 <;>
              simp only [hr1] <;> try cur_close
            rcases (IH.callArguments q1).cases with ⟨args, q2, hr2, h9⟩ | ⟨e, q2, hr2, h9⟩ | ⟨m, hr2⟩ | hr2 <;>
              simp only [hr2] <;> cur_close
          · rcases (getNumberLiteral_ge s p).cases with ⟨sp, q, hr, h1⟩ | ⟨e, q, hr, h1⟩ | ⟨m, hr⟩ | hr <;>
              simp only [hr] <;> cur_close
        · split
          · rcases (getIdentifier_ge s (p + 1)).cases with ⟨id, q, hr, h1⟩ | ⟨e, q, hr, h1⟩ | ⟨m, hr⟩ | hr <;>
              simp only [hr] <;> cur_close
          · split
            · rcases (getIdentifierUnchecked_ge s (p + 1)).cases with ⟨id, q, hr, h1⟩ | ⟨e, q, hr, h1⟩ | ⟨m, hr⟩ | hr <;>
                simp only [hr] <;> try cur_close
              rcases (IH.callArguments q).cases with ⟨args, q1, hr1, h6⟩ | ⟨e, q1, hr1, h6⟩ | ⟨m, hr1⟩ | hr1 <;>
                simp only [hr1] <;> try cur_close
              cases args with
              | some pn =>
                obtain ⟨pos, named⟩ := pn
                simp only []
                split <;> cur_close
              | none =>
                simp only []
                rcases (getAttributeAccessor_ge s q1).cases with ⟨attr, q2, hr2, h9⟩ | ⟨e, q2, hr2, h9⟩ | ⟨m, hr2⟩ | hr2 <;>
                  simp only [hr2] <;> cur_close
            · split
              · rcases (IH.placeable (p + 1)).cases with ⟨e, q, hr, h1⟩ | ⟨e, q, hr, h1⟩ | ⟨m, hr⟩ | hr <;>
                  simp only [hr] <;> cur_close
              · exact hfb

theorem patternLoop_ge_step {s : Src} {n : Nat} (IH : GSpecs s n) (st : PatState) (p : Nat) :
    CurGe p (getPatternLoop s (n + 1) st p) := by
  simp only [getPatternLoop]
  split
  · split
    · rcases (IH.placeable (p + 1)).cases with ⟨e, q, hr, h1⟩ | ⟨e, q, hr, h1⟩ | ⟨m, hr⟩ | hr <;>
        simp only [hr] <;> try cur_close
      exact (IH.patternLoop _ q).weaken (by omega)
    · have hle := (skipBlankInline_after s p).le
      split
      · simp only [curGe_ok]
        split
        · split
          · exact hle
          · split
            · exact Nat.le_refl _
            · exact hle
        · exact hle
      · rename_i indent p1 hpre
        have hp1 : p ≤ p1 := by
          split at hpre
          · split at hpre
            · split at hpre <;> split at hpre <;> simp at hpre <;> obtain ⟨_, rfl⟩ := hpre <;> exact hle
            · simp at hpre
          · simp at hpre
            obtain ⟨_, rfl⟩ := hpre
            exact Nat.le_refl _
        clear hpre
        rcases (getTextSlice_ge s p1).cases with ⟨⟨start, stop, nb, term⟩, q, hr, h1⟩ | ⟨e, q, hr, h1⟩ | ⟨m, hr⟩ | hr <;>
          simp only [hr] <;> try cur_close
        split
        · exact (IH.patternLoop _ q).weaken (by omega)
        · cur_close
  · cur_close

theorem gspecs_all (s : Src) (n : Nat) : GSpecs s n := by
  induction n with
  | zero =>
    refine ⟨?_, ?_, ?_, ?_, ?_, ?_, ?_, ?_⟩ <;> intros <;>
      simp [getPatternLoop, getPattern, getPlaceable, getExpression, getInline, getCallArguments, getCallArgsLoop,
        getVariants]
  | succ n ih =>
    exact {
      patternLoop := fun st p => patternLoop_ge_step ih st p
      pattern := fun p => pattern_ge_step ih p
      placeable := fun p => placeable_ge_step ih p
      expression := fun p => expression_ge_step ih p
      inline := fun ol p => inline_ge_step ih ol p
      callArguments := fun p => callArguments_ge_step ih p
      callArgsLoop := fun pos named p => callArgsLoop_ge_step ih pos named p
      variants := fun hd acc p => variants_ge_step ih hd acc p }

theorem getPattern_ge (s : Src) (fuel p : Nat) : CurGe p (getPattern s fuel p) := (gspecs_all s fuel).pattern p

/-! ## attributes, messages, terms -/

theorem getAttribute_ge (s : Src) (fuel p : Nat) : CurGe p (getAttribute s fuel p) := by
  unfold getAttribute
  rcases (getIdentifier_ge s p).cases with ⟨id, q, hr, h1⟩ | ⟨e, q, hr, h1⟩ | ⟨m, hr⟩ | hr <;> simp only [hr] <;>
    try cur_close
  have h2 := (skipBlankInline_after s q).le
  rcases (expectByte_ge s (skipBlankInline s q) 61).cases with ⟨_, q2, hr2, h3⟩ | ⟨e2, q2, hr2, h3⟩ | ⟨m, hr2⟩ | hr2 <;>
    simp only [hr2] <;> try cur_close
  rcases (getPattern_ge s fuel q2).cases with ⟨o, q3, hr3, h4⟩ | ⟨e3, q3, hr3, h4⟩ | ⟨m, hr3⟩ | hr3 <;>
    simp only [hr3] <;> try cur_close
  cases o <;> cur_close

theorem getAttributesGo_ge (s : Src) (fuel n : Nat) (acc : List (Attribute Span)) (p : Nat) :
    CurGe p (getAttributesGo s fuel n acc p) := by
  induction n generalizing acc p with
  | zero => simp [getAttributesGo]
  | succ n ih =>
    simp only [getAttributesGo]
    have h1 := (skipBlankInline_after s p).le
    have h2 := takeByteIf_le s (skipBlankInline s p) 46
    split
    · cur_close
    · rcases (getAttribute_ge s fuel (takeByteIf s (skipBlankInline s p) 46).fst).cases with
        ⟨a, q, hr, h3⟩ | ⟨e, q, hr, h3⟩ | ⟨m, hr⟩ | hr <;> simp only [hr] <;> try cur_close
      exact (ih _ q).weaken (by omega)

theorem getAttributes_ge (s : Src) (fuel p : Nat) : CurGe p (getAttributes s fuel p) :=
  getAttributesGo_ge s fuel _ [] p

theorem getMessage_ge (s : Src) (fuel es p : Nat) : CurGe p (getMessage s fuel es p) := by
  unfold getMessage
  rcases (getIdentifier_ge s p).cases with ⟨id, q, hr, h1⟩ | ⟨e, q, hr, h1⟩ | ⟨m, hr⟩ | hr <;> simp only [hr] <;>
    try cur_close
  have h2 := (skipBlankInline_after s q).le
  rcases (expectByte_ge s (skipBlankInline s q) 61).cases with ⟨_, q2, hr2, h3⟩ | ⟨e2, q2, hr2, h3⟩ | ⟨m, hr2⟩ | hr2 <;>
    simp only [hr2] <;> try cur_close
  rcases (getPattern_ge s fuel q2).cases with ⟨o, q3, hr3, h4⟩ | ⟨e3, q3, hr3, h4⟩ | ⟨m, hr3⟩ | hr3 <;>
    simp only [hr3] <;> try cur_close
  have h5 := skipBlankBlock_le s q3
  rcases (getAttributes_ge s fuel (skipBlankBlock s q3).fst).cases with
    ⟨attrs, q5, hr5, h6⟩ | ⟨e5, q5, hr5, h6⟩ | ⟨m, hr5⟩ | hr5 <;> simp only [hr5] <;> try cur_close
  split <;> cur_close

theorem getTerm_ge (s : Src) (fuel es p : Nat) : CurGe p (getTerm s fuel es p) := by
  unfold getTerm
  rcases (expectByte_ge s p 45).cases with ⟨_, p0, hr0, h0⟩ | ⟨e, q, hr0, h0⟩ | ⟨m, hr0⟩ | hr0 <;> simp only [hr0] <;>
    try cur_close
  rcases (getIdentifier_ge s p0).cases with ⟨id, q, hr, h1⟩ | ⟨e, q, hr, h1⟩ | ⟨m, hr⟩ | hr <;> simp only [hr] <;>
    try cur_close
  have h2 := (skipBlankInline_after s q).le
  rcases (expectByte_ge s (skipBlankInline s q) 61).cases with ⟨_, q2, hr2, h3⟩ | ⟨e2, q2, hr2, h3⟩ | ⟨m, hr2⟩ | hr2 <;>
    simp only [hr2] <;> try cur_close
  have h3' := (skipBlankInline_after s q2).le
  rcases (getPattern_ge s fuel (skipBlankInline s q2)).cases with ⟨o, q3, hr3, h4⟩ | ⟨e3, q3, hr3, h4⟩ | ⟨m, hr3⟩ | hr3 <;>
    simp only [hr3] <;> try cur_close
  have h5 := skipBlankBlock_le s q3
  rcases (getAttributes_ge s fuel (skipBlankBlock s q3).fst).cases with
    ⟨attrs, q5, hr5, h6⟩ | ⟨e5, q5, hr5, h6⟩ | ⟨m, hr5⟩ | hr5 <;> simp only [hr5] <;> try cur_close
  split <;> cur_close

end FluentProofs.Parser
