import FluentProofs.SerializerRoundtrip
/-!
# Serializer lemmas, part 6: single-line patterns (C04 / T2 `roundtrip_singleline_partial`)

Patterns without `\n` and without select expressions: the text written by `serialize_pattern` /
`serialize_element` (`patBytes`) is read back by `get_pattern` as the same pattern.
-/
namespace FluentProofs.Ser
open FluentModel FluentModel.Syntax FluentModel.Syntax.Ser FluentProofs.Parser

/-! ## placeables as pattern elements: `{ i }` and `{{ i }}` -/

/-- `get_placeable` around an inline expression, blanks allowed on both sides -/
theorem getPlaceable_gen (s : Src) (k p1 p1' : Nat) (e' : Inline Span) (pe pc : Nat) (hsb : skipBlank s p1 = p1')
    (he : getInline s k false p1' = .ok e' pe) (hsb2 : skipBlank s pe = pc) (h125 : s[pc]? = some 125)
    (hnt : ∀ a b c, e' ≠ .term a (some b) c) :
    getPlaceable s (k + 2) p1 = .ok (.inline e') (pc + 1) := by
  have hsb3 : skipBlankInline s pc = pc := skipBlankInline_stay s pc (by rw [h125]; decide)
  have h45 : isCurrentByte s pc 45 = false := by simp [isCurrentByte, h125]
  have hex : getExpression s (k + 1) p1' = .ok (.inline e') pc := by
    rw [getExpression, he]
    simp only [hsb2, h45, Bool.not_false, Bool.true_or, if_true]
  rw [getPlaceable, hsb, hex]
  simp only [hsb3, expectByte, isCurrentByte, h125, beq_self_eq_true, if_true]
  cases e' with
  | term a b c => cases b with
    | none => rfl
    | some b => exact absurd rfl (hnt a b c)
  | _ => rfl

theorem skipBlank_endPos (i : Inline Bytes) (s : Src) (pe : Nat) (h32 : s[pe]? = some 32) (h125 : s[pe + 1]? = some 125) :
    skipBlank s (endPos i s pe) = pe + 1 ∧ Follow s pe := by
  have h1 : skipBlank s (pe + 1) = pe + 1 := skipBlank_at_byte s _ 125 h125 (by decide) (by decide) (by decide)
  have h2 : skipBlank s pe = pe + 1 := by rw [skipBlank_space s pe h32, h1]
  refine ⟨?_, ⟨fun c hc => ?_, ?_, ?_⟩⟩
  · unfold endPos; split <;> simp [h1, h2]
  · rw [h32] at hc; cases hc; decide
  · rw [h2, h125]; decide
  · rw [h2, h125]; decide

/-- `{ i }` read by `get_placeable` (cursor just after the `{`) -/
theorem getPlaceable_spaced {s : Src} (hs : AsciiThenBoundary s) (i : Inline Bytes) (hv : validInner (.inline i) = true)
    (p1 k : Nat) (h : At s p1 (32 :: (inlineBytes i ++ [32, 125]))) (hk : fuelInline i ≤ k) :
    ∃ e', getPlaceable s (k + 2) p1 = .ok (.inline e') (p1 + 1 + (inlineBytes i).length + 2) ∧
      e'.mapS (spanBytes s) = i := by
  have hi := validInner_inline hv
  rw [at_cons, at_append] at h
  obtain ⟨h0, h1, h2⟩ := h
  simp only [at_cons] at h2
  obtain ⟨b, hb, hnb⟩ := inlineBytes_head i hi
  obtain ⟨n1, n2, n3, _⟩ := (notBlank_iff b).mp hnb
  have hsb : skipBlank s p1 = p1 + 1 := by
    rw [skipBlank_space s p1 h0]; exact skipBlank_at_byte s _ b (at_head h1 hb) n1 n2 n3
  obtain ⟨hsb2, hfol⟩ := skipBlank_endPos i s _ h2.1 h2.2.1
  obtain ⟨e', he, hm⟩ := getInline_bytes hs i hi (p1 + 1) k h1 hfol hk
  refine ⟨e', ?_, hm⟩
  rw [getPlaceable_gen s k p1 (p1 + 1) e' _ _ hsb he hsb2 h2.2.1 (notTermAttr_of_valid hv e' _ hm)]

/-- `{{ i }}` read by `get_placeable` (cursor just after the first `{`) -/
theorem getPlaceable_double {s : Src} (hs : AsciiThenBoundary s) (i : Inline Bytes) (hv : validInner (.inline i) = true)
    (p1 k : Nat) (h : At s p1 (123 :: 32 :: (inlineBytes i ++ [32, 125, 125]))) (hk : fuelInline i ≤ k) :
    ∃ e', getPlaceable s (k + 5) p1 = .ok (.inline (.placeable (.inline e'))) (p1 + 2 + (inlineBytes i).length + 3) ∧
      e'.mapS (spanBytes s) = i := by
  rw [at_cons] at h
  obtain ⟨h0, h1⟩ := h
  have h1' : At s (p1 + 1) (32 :: (inlineBytes i ++ [32, 125])) ∧
      s[p1 + 1 + 1 + (inlineBytes i).length + 2]? = some 125 := by
    rw [at_cons, at_append] at h1
    obtain ⟨a, b, c⟩ := h1
    simp only [at_cons] at c
    refine ⟨by rw [at_cons, at_append]; exact ⟨a, b, by simp only [at_cons]; exact ⟨c.1, c.2.1, trivial⟩⟩, ?_⟩
    have := c.2.2.1
    rw [show p1 + 1 + 1 + (inlineBytes i).length + 2 = p1 + 1 + 1 + (inlineBytes i).length + 1 + 1 by omega]
    exact this
  obtain ⟨e', he, hm⟩ := getPlaceable_spaced hs i hv (p1 + 1) k h1'.1 hk
  refine ⟨e', ?_, hm⟩
  have hin : getInline s (k + 3) false p1 =
      .ok (.placeable (.inline e')) (p1 + 1 + 1 + (inlineBytes i).length + 2) := by
    rw [getInline, h0]
    simp only [he]
    simp [isDigit, isAlpha]
  have hsb : skipBlank s p1 = p1 := skipBlank_at_byte s p1 123 h0 (by decide) (by decide) (by decide)
  have hsb2 := skipBlank_at_byte s _ 125 h1'.2 (by decide) (by decide) (by decide)
  rw [getPlaceable_gen s (k + 3) p1 p1 _ _ _ hsb hin hsb2 h1'.2 (by intro a b c h; cases h)]

/-! ## text slices -/

/-- text of a single-line pattern element: non-empty, no line break, no brace -/
def validText (v : Bytes) : Bool := !v.isEmpty && v.all fun b => b != 10 && b != 13 && b != 123 && b != 125

theorem validText_mem {v : Bytes} (h : validText v = true) : ∀ b ∈ v, b ≠ 10 ∧ b ≠ 13 ∧ b ≠ 123 ∧ b ≠ 125 := by
  intro b hb
  simp only [validText, Bool.and_eq_true, List.all_eq_true] at h
  have := h.2 b hb
  simpa [and_assoc] using this

theorem validText_ne {v : Bytes} (h : validText v = true) : v ≠ [] := by
  intro h0; subst h0; simp [validText] at h

theorem memchr3Go_at (s : Src) (v : Bytes) (p n : Nat) (h : At s p v) (hv : ∀ b ∈ v, b ≠ 10 ∧ b ≠ 123 ∧ b ≠ 125)
    (c : UInt8) (hc : s[p + v.length]? = some c) (hc' : c = 10 ∨ c = 123 ∨ c = 125) (hn : v.length < n) :
    memchr3Go s n p = some (p + v.length) := by
  induction v generalizing p n with
  | nil =>
    obtain ⟨m, rfl⟩ : ∃ m, n = m + 1 := ⟨n - 1, by simp at hn; omega⟩
    simp only [List.length_nil, Nat.add_zero] at hc ⊢
    rw [memchr3Go, hc]
    rcases hc' with rfl | rfl | rfl <;> simp
  | cons x xs ih =>
    obtain ⟨m, rfl⟩ : ∃ m, n = m + 1 := ⟨n - 1, by simp at hn; omega⟩
    rw [at_cons] at h
    obtain ⟨h1, h2, h3⟩ := hv x (by simp)
    rw [memchr3Go, h.1]
    have : (x == 10 || x == 123 || x == 125) = false := by simp [h1, h2, h3]
    simp only [this, Bool.false_eq_true, if_false]
    rw [ih (p + 1) m h.2 (fun b hb => hv b (by simp [hb])) (by
      rw [show p + 1 + xs.length = p + (x :: xs).length by simp; omega]; exact hc) (by simp at hn; omega)]
    simp; omega

theorem memchr3_at (s : Src) (v : Bytes) (p : Nat) (h : At s p v) (hv : ∀ b ∈ v, b ≠ 10 ∧ b ≠ 123 ∧ b ≠ 125)
    (c : UInt8) (hc : s[p + v.length]? = some c) (hc' : c = 10 ∨ c = 123 ∨ c = 125) :
    memchr3 s p = some (p + v.length) :=
  memchr3Go_at s v p _ h hv c hc hc' (by have := get_lt hc; omega)

theorem nonBlankGo_at (s : Src) (v : Bytes) (p n : Nat) (h : At s p v) (hn : v.length ≤ n) :
    nonBlankGo s n p (p + v.length) = v.any (fun b => b != 32) := by
  induction v generalizing p n with
  | nil =>
    cases n <;> simp [nonBlankGo]
  | cons x xs ih =>
    obtain ⟨m, rfl⟩ : ∃ m, n = m + 1 := ⟨n - 1, by simp at hn; omega⟩
    rw [at_cons] at h
    rw [nonBlankGo]
    simp only [List.length_cons, show p < p + (xs.length + 1) by omega, if_true, h.1, List.any_cons]
    by_cases hx : x = 32
    · subst hx
      have := ih (p + 1) m h.2 (by simpa using hn)
      rw [show p + 1 + xs.length = p + (xs.length + 1) by omega] at this
      simp [this]
    · simp [hx]

theorem nonBlank_at (s : Src) (v : Bytes) (p : Nat) (h : At s p v) :
    nonBlank s p (p + v.length) = v.any (fun b => b != 32) := by
  unfold nonBlank
  exact nonBlankGo_at s v p _ h (by omega)

/-- `get_text_slice` on a text that is followed by `{` -/
theorem getTextSlice_brace (s : Src) (v : Bytes) (hv : validText v = true) (p : Nat) (h : At s p v)
    (hc : s[p + v.length]? = some 123) :
    getTextSlice s p = .ok (p, p + v.length, v.any (fun b => b != 32), .placeableStart) (p + v.length) := by
  have hlt := get_lt hc
  unfold getTextSlice
  simp only [show ¬ p > s.size by omega, if_false]
  rw [memchr3_at s v p h (fun b hb => by have := validText_mem hv b hb; exact ⟨this.1, this.2.2⟩) 123 hc
    (by decide)]
  simp only [hc, nonBlank_at s v p h]

/-- `get_text_slice` on a text that is followed by `\n` -/
theorem getTextSlice_lf (s : Src) (v : Bytes) (hv : validText v = true) (p : Nat) (h : At s p v)
    (hc : s[p + v.length]? = some 10) :
    getTextSlice s p = .ok (p, p + v.length + 1, v.any (fun b => b != 32), .lineFeed) (p + v.length + 1) := by
  have hlt := get_lt hc
  have hne := validText_ne hv
  have hlen : 0 < v.length := by cases v <;> simp_all
  unfold getTextSlice
  simp only [show ¬ p > s.size by omega, if_false]
  rw [memchr3_at s v p h (fun b hb => by have := validText_mem hv b hb; exact ⟨this.1, this.2.2⟩) 10 hc
    (by decide)]
  simp only [hc]
  have h13 : s[p + v.length - 1]? ≠ some 13 := by
    have hg := at_get h (v.length - 1) (by omega)
    rw [show p + (v.length - 1) = p + v.length - 1 by omega] at hg
    rw [hg]
    have := (validText_mem hv _ (List.getElem_mem (by omega : v.length - 1 < v.length))).2.1
    simpa using this
  simp only [beq_iff_eq, h13, and_false, if_false, nonBlank_at s v p h]

/-- `get_text_slice` right at a `\n` (after a placeable) -/
theorem getTextSlice_nl (s : Src) (p : Nat) (hc : s[p]? = some 10) :
    getTextSlice s p = .ok (p, p + 1, false, .lineFeed) (p + 1) := by
  have hlt := get_lt hc
  unfold getTextSlice
  simp only [show ¬ p > s.size by omega, if_false]
  have : memchr3 s p = some p := by
    have := memchr3_at s [] p (by simp) (by simp) 10 (by simpa using hc) (by decide)
    simpa using this
  rw [this]
  simp only [hc, show ¬ p > p by omega, false_and, if_false]
  simp [nonBlank, nonBlankGo]

/-! ## `trim` of the last text -/

theorem trimEndGo_stop (s : Src) (start n e : Nat) (c : UInt8) (he : start < e) (hc : s[e - 1]? = some c)
    (h1 : c ≠ 32) (h2 : c ≠ 13) (h3 : c ≠ 10) : trimEndGo s start n e = e := by
  cases n with
  | zero => rfl
  | succ n =>
    rw [trimEndGo]
    simp [he, hc, h1, h2, h3]

/-- trimming `v ++ "\n"` (with `v` ending in a byte that is not trimmed) removes exactly the `\n` -/
theorem trimEnd_lf (s : Src) (a e : Nat) (c : UInt8) (hae : a < e) (h10 : s[e]? = some 10) (hc : s[e - 1]? = some c)
    (h1 : c ≠ 32) (h2 : c ≠ 13) (h3 : c ≠ 10) : trimEnd s ⟨a, e + 1⟩ = ⟨a, e⟩ := by
  unfold trimEnd
  simp only
  rw [show e + 1 - a = (e - a) + 1 by omega, trimEndGo]
  simp only [show e + 1 > a by omega, if_true, Nat.add_sub_cancel, h10]
  simp only [show ((10 : UInt8) == 32 || (10 : UInt8) == 13 || (10 : UInt8) == 10) = true by decide, if_true]
  rw [trimEndGo_stop s a _ e c hae hc h1 h2 h3]

/-- no trimming when the last byte is not trimmable -/
theorem trimEnd_none (s : Src) (a e : Nat) (c : UInt8) (hae : a < e) (hc : s[e - 1]? = some c)
    (h1 : c ≠ 32) (h2 : c ≠ 13) (h3 : c ≠ 10) : trimEnd s ⟨a, e⟩ = ⟨a, e⟩ := by
  unfold trimEnd
  simp only
  rw [trimEndGo_stop s a _ e c hae hc h1 h2 h3]

/-! ## one iteration of the `get_pattern` loop (not at a line start) -/

def roleOf : Termination → TextPos
  | .lineFeed => .lineStart
  | .crlf => .lineStart
  | .placeableStart => .continuation
  | .eof => .continuation

theorem patternLoop_text_step (s : Src) (n : Nat) (st : PatState) (p stop q : Nat) (nb : Bool) (term : Termination)
    (hp : p < s.size) (h123 : s[p]? ≠ some 123) (hrole : (st.role == .lineStart) = false)
    (hts : getTextSlice s p = .ok (p, stop, nb, term) q) (hne : p < stop)
    (hsl : slice s p stop = some ⟨p, stop⟩) :
    getPatternLoop s (n + 1) st p =
      getPatternLoop s n
        { elements := st.elements ++ [.text p stop 0 st.role],
          lastNonBlank := if nb && (trimEnd s ⟨p, stop⟩).stop != p then some st.elements.length else st.lastNonBlank,
          commonIndent := st.commonIndent,
          role := roleOf term,
          keptCommonIndent := if nb && (trimEnd s ⟨p, stop⟩).stop != p then st.commonIndent
            else st.keptCommonIndent } q := by
  rw [getPatternLoop]
  have h1 : isCurrentByte s p 123 = false := by simp [isCurrentByte, h123]
  have h2 : (p != stop) = true := by simp; omega
  simp only [hp, if_true, h1, Bool.false_eq_true, if_false, hrole, hts, Bool.false_and, h2, Bool.true_or,
    Bool.not_false]
  have h3 : (st.role != TextPos.lineStart) = true := by simp [bne, hrole]
  simp only [h3, Bool.true_or, if_true, hsl, Option.map_some]
  cases nb <;> cases term <;> simp [roleOf]

theorem patternLoop_placeable_step (s : Src) (n : Nat) (st : PatState) (p : Nat) (ex : Expr Span) (q : Nat)
    (h123 : s[p]? = some 123) (hrole : (st.role == .lineStart) = false)
    (hpl : getPlaceable s n (p + 1) = .ok ex q) :
    getPatternLoop s (n + 1) st p =
      getPatternLoop s n
        { elements := st.elements ++ [.placeable ex], lastNonBlank := some st.elements.length,
          commonIndent := st.commonIndent, role := .continuation, keptCommonIndent := st.commonIndent } q := by
  rw [getPatternLoop]
  have h1 : isCurrentByte s p 123 = true := by simp [isCurrentByte, h123]
  simp only [get_lt h123, if_true, h1, hrole, Bool.false_eq_true, if_false, hpl]

/-- what follows the pattern's line: end of input, or a line that starts with a byte that cannot
continue the pattern -/
def LineEndOK (s : Src) (q : Nat) : Prop :=
  s.size ≤ q ∨ ∃ b, s[q]? = some b ∧ b ≠ 123 ∧ b ≠ 32 ∧ b ≠ 10 ∧ (b = 13 → s[q + 1]? ≠ some 10)

theorem patternLoop_end (s : Src) (n : Nat) (st : PatState) (q : Nat) (hrole : st.role = .lineStart)
    (hend : LineEndOK s q) : getPatternLoop s (n + 1) st q = .ok st q := by
  rw [getPatternLoop]
  rcases hend with hq | ⟨b, hb, b1, b2, b3, b4⟩
  · simp [show ¬ q < s.size by omega]
  · have hlt := get_lt hb
    have h1 : isCurrentByte s q 123 = false := by simp [isCurrentByte, hb, b1]
    have h2 : skipBlankInline s q = q := skipBlankInline_stay s q (by rw [hb]; simpa using b2)
    have h3 : isEol s q = false := by
      unfold isEol
      rw [hb]
      split
      · rename_i hh; cases hh; exact absurd rfl b3
      · rename_i hh; cases hh; simpa using b4 rfl
      · rename_i hh; cases hh
      · rfl
    simp only [hlt, if_true, h1, Bool.false_eq_true, if_false, hrole, beq_self_eq_true, h2, Nat.sub_self, hb, h3,
      Bool.not_false]

/-! ## single-line patterns -/

def validElem : PatElem Bytes → Bool
  | .text v => validText v
  | .placeable e => validInner e

/-- the text `serialize_element` writes -/
def elemBytes : PatElem Bytes → Bytes
  | .text v => v
  | .placeable (.inline (.placeable e)) => 123 :: 123 :: 32 :: (innerBytes e ++ [32, 125, 125])
  | .placeable (.inline i) => 123 :: 32 :: (inlineBytes i ++ [32, 125])
  | .placeable (.select _ _) => []

def patBytes : List (PatElem Bytes) → Bytes
  | [] => []
  | e :: es => elemBytes e ++ patBytes es

/-- no two adjacent text elements -/
def noAdjText : List (PatElem Bytes) → Bool
  | .text _ :: .text _ :: _ => false
  | _ :: rest => noAdjText rest
  | [] => true

/-- the last element, if a text, does not end with a byte that `trim` removes (` `; `\r`, `\n` are
excluded by `validText` already) -/
def lastOK : List (PatElem Bytes) → Bool
  | [] => true
  | [.text v] => v.getLast? != some 32
  | _ :: rest => lastOK rest

def fuelElem : PatElem Bytes → Nat
  | .text _ => 0
  | .placeable (.inline (.placeable e)) => fuelInner e + 5
  | .placeable (.inline i) => fuelInline i + 2
  | .placeable (.select _ _) => 0

def fuelPat : List (PatElem Bytes) → Nat
  | [] => 2
  | e :: es => fuelElem e + fuelPat es + 1

/-- placeholder `ph` (collected by `get_pattern`) stands for the element `e`; the slice of the last
text also contains the line feed -/
def PhRel (s : Src) (ph : Placeholder) (e : PatElem Bytes) (last : Bool) : Prop :=
  match ph, e with
  | .placeable ex, .placeable x => ex.mapS (spanBytes s) = x
  | .text a b ind role, .text v =>
    ind = 0 ∧ (role == .lineStart) = false ∧ Bnd s a ∧ Bnd s b ∧ At s a v ∧ validText v = true ∧
      (if last then b = a + v.length + 1 ∧ s[a + v.length]? = some 10 ∧ v.getLast? ≠ some 32 else b = a + v.length)
  | _, _ => False

def PhsRel (s : Src) : List Placeholder → List (PatElem Bytes) → Prop
  | [], [] => True
  | ph :: phs, e :: es => PhRel s ph e es.isEmpty ∧ PhsRel s phs es
  | _, _ => False

theorem elemBytes_placeable_head (e : Expr Bytes) (hv : validInner e = true) :
    ∃ rest, elemBytes (.placeable e) = 123 :: rest := by
  cases e with
  | select a b => simp [validInner] at hv
  | inline i =>
    cases i with
    | placeable e => exact ⟨_, rfl⟩
    | str v => exact ⟨_, rfl⟩
    | num v => exact ⟨_, rfl⟩
    | var v => exact ⟨_, rfl⟩
    | msg a b => exact ⟨_, rfl⟩
    | term a b c => exact ⟨_, rfl⟩
    | fn a b c => exact ⟨_, rfl⟩

/-- the byte that follows a text element: `{` of the next placeable or the final `\n` -/
theorem after_text (s : Src) (p : Nat) (v : Bytes) (rest : List (PatElem Bytes))
    (hvr : ∀ e ∈ rest, validElem e = true) (hadj : noAdjText (.text v :: rest) = true)
    (h : At s p (patBytes (.text v :: rest) ++ [10])) :
    At s p v ∧ At s (p + v.length) (patBytes rest ++ [10]) ∧
      ((rest = [] ∧ s[p + v.length]? = some 10) ∨ (rest ≠ [] ∧ s[p + v.length]? = some 123)) := by
  simp only [patBytes, elemBytes, List.append_assoc] at h
  rw [at_append] at h
  refine ⟨h.1, h.2, ?_⟩
  cases rest with
  | nil => left; simp only [patBytes, List.nil_append, at_cons] at h; exact ⟨rfl, h.2.1⟩
  | cons r rs =>
    right
    refine ⟨by simp, ?_⟩
    cases r with
    | text w => simp [noAdjText] at hadj
    | placeable e =>
      obtain ⟨tl, htl⟩ := elemBytes_placeable_head e (by simpa [validElem] using hvr _ (List.mem_cons_self))
      have := h.2
      simp only [patBytes, htl, List.cons_append, at_cons] at this
      exact this.1

theorem getPlaceable_elem {s : Src} (hs : AsciiThenBoundary s) (e : Expr Bytes) (hv : validInner e = true) (p n : Nat)
    (h : At s p (elemBytes (.placeable e))) (hn : fuelElem (.placeable e) ≤ n) :
    ∃ ex, getPlaceable s n (p + 1) = .ok ex (p + (elemBytes (.placeable e)).length) ∧ ex.mapS (spanBytes s) = e := by
  have spaced : ∀ i : Inline Bytes, validInner (.inline i) = true →
      At s p (123 :: 32 :: (inlineBytes i ++ [32, 125])) → fuelInline i + 2 ≤ n →
      ∃ ex, getPlaceable s n (p + 1) = .ok ex (p + (123 :: 32 :: (inlineBytes i ++ [32, 125])).length) ∧
        ex.mapS (spanBytes s) = .inline i := by
    intro i hvi hat hfu
    obtain ⟨k, rfl⟩ : ∃ k, n = k + 2 := ⟨n - 2, by omega⟩
    rw [at_cons] at hat
    obtain ⟨e', he, hm⟩ := getPlaceable_spaced hs i hvi (p + 1) k hat.2 (by omega)
    refine ⟨.inline e', ?_, by simp [Expr.mapS, hm]⟩
    rw [he]; simp; omega
  cases e with
  | select a b => simp [validInner] at hv
  | inline i =>
    cases i with
    | placeable e2 =>
      cases e2 with
      | select a b =>
        have : validInner (.inline (.placeable (.select a b))) = validInline (.placeable (.select a b)) := rfl
        rw [this] at hv
        simp [validInline, validInner] at hv
      | inline j =>
        have hvj : validInner (.inline j) = true := by
          have : validInner (.inline (.placeable (.inline j))) = validInline (.placeable (.inline j)) := rfl
          rw [this] at hv
          simpa [validInline] using hv
        simp only [elemBytes, innerBytes, fuelElem, fuelInner] at h hn ⊢
        obtain ⟨k, rfl⟩ : ∃ k, n = k + 5 := ⟨n - 5, by omega⟩
        rw [at_cons] at h
        obtain ⟨e', he, hm⟩ := getPlaceable_double hs j hvj (p + 1) k h.2 (by omega)
        refine ⟨.inline (.placeable (.inline e')), ?_, by simp [Expr.mapS, Inline.mapS, hm]⟩
        rw [he]; simp; omega
    | str v => exact spaced _ hv h hn
    | num v => exact spaced _ hv h hn
    | var v => exact spaced _ hv h hn
    | msg a b => exact spaced _ hv h hn
    | term a b c => exact spaced _ hv h hn
    | fn a b c => exact spaced _ hv h hn

theorem elemBytes_placeable_last (e : Expr Bytes) (hv : validInner e = true) :
    ∃ pre, elemBytes (.placeable e) = pre ++ [125] := by
  cases e with
  | select a b => simp [validInner] at hv
  | inline i =>
    cases i with
    | placeable e => exact ⟨123 :: 123 :: 32 :: (innerBytes e ++ [32, 125]), by simp [elemBytes]⟩
    | str v => exact ⟨123 :: 32 :: (inlineBytes (.str v) ++ [32]), by simp [elemBytes]⟩
    | num v => exact ⟨123 :: 32 :: (inlineBytes (.num v) ++ [32]), by simp [elemBytes]⟩
    | var v => exact ⟨123 :: 32 :: (inlineBytes (.var v) ++ [32]), by simp [elemBytes]⟩
    | msg a b => exact ⟨123 :: 32 :: (inlineBytes (.msg a b) ++ [32]), by simp [elemBytes]⟩
    | term a b c => exact ⟨123 :: 32 :: (inlineBytes (.term a b c) ++ [32]), by simp [elemBytes]⟩
    | fn a b c => exact ⟨123 :: 32 :: (inlineBytes (.fn a b c) ++ [32]), by simp [elemBytes]⟩

theorem noAdjText_tail {e : PatElem Bytes} {es : List (PatElem Bytes)} (h : noAdjText (e :: es) = true) :
    noAdjText es = true := by
  cases e <;> cases es <;> try rfl
  all_goals (rename_i r rs; cases r <;> simp_all [noAdjText])

theorem lastOK_tail {e : PatElem Bytes} {es : List (PatElem Bytes)} (h : lastOK (e :: es) = true) :
    lastOK es = true := by
  cases es with
  | nil => rfl
  | cons r rs => cases e <;> simpa [lastOK] using h

theorem getLast_any_ne32 (v : Bytes) (c : UInt8) (h : v.getLast? = some c) (hc : c ≠ 32) :
    v.any (fun b => b != 32) = true := by
  rw [List.any_eq_true]
  exact ⟨c, List.mem_of_getLast? h, by simpa using hc⟩

theorem patternLoop_elems {s : Src} (hs : AsciiThenBoundary s) (es : List (PatElem Bytes))
    (hv : ∀ e ∈ es, validElem e = true) (hadj : noAdjText es = true) (hlast : lastOK es = true) :
    ∀ (n p : Nat) (st : PatState), (st.role == .lineStart) = false → st.commonIndent = none →
      st.keptCommonIndent = none → Bnd s p →
      At s p (patBytes es ++ [10]) → LineEndOK s (p + (patBytes es).length + 1) → fuelPat es ≤ n →
      ∃ phs tr, getPatternLoop s n st p =
          .ok ⟨st.elements ++ phs ++ tr,
               (if es.isEmpty then st.lastNonBlank else some (st.elements.length + es.length - 1)),
               none, .lineStart, none⟩ (p + (patBytes es).length + 1) ∧ PhsRel s phs es := by
  induction es with
  | nil =>
    intro n p st hrole hci hk hb h hend hn
    obtain ⟨m, rfl⟩ : ∃ m, n = m + 2 := ⟨n - 2, by simp [fuelPat] at hn; omega⟩
    simp only [patBytes, List.nil_append, at_cons, List.length_nil, Nat.add_zero] at h hend ⊢
    have hts := getTextSlice_nl s p h.1
    have hsl : slice s p (p + 1) = some ⟨p, p + 1⟩ := slice_ok (by omega) hb (bnd_succ hs h.1 (by decide))
    rw [patternLoop_text_step s (m + 1) st p (p + 1) (p + 1) false .lineFeed (get_lt h.1) (by rw [h.1]; decide)
      hrole hts (by omega) hsl, patternLoop_end s m _ (p + 1) rfl hend]
    exact ⟨[], [.text p (p + 1) 0 st.role], by simp [hci, hk, roleOf], trivial⟩
  | cons e es ih =>
    intro n p st hrole hci hk hb h hend hn
    obtain ⟨m, rfl⟩ : ∃ m, n = m + 1 := ⟨n - 1, by simp [fuelPat] at hn; omega⟩
    have hvt : ∀ e ∈ es, validElem e = true := fun x hx => hv x (List.mem_cons_of_mem _ hx)
    have ih' := ih hvt (noAdjText_tail hadj) (lastOK_tail hlast)
    cases e with
    | placeable x =>
      have hvx : validInner x = true := by simpa [validElem] using hv _ (List.mem_cons_self)
      have h' : At s p (elemBytes (.placeable x)) ∧
          At s (p + (elemBytes (.placeable x)).length) (patBytes es ++ [10]) := by
        simp only [patBytes, List.append_assoc] at h; rw [at_append] at h; exact h
      obtain ⟨ex, hpl, hmx⟩ := getPlaceable_elem hs x hvx p m h'.1 (by simp [fuelPat] at hn; omega)
      obtain ⟨tl, htl⟩ := elemBytes_placeable_head x hvx
      have h123 : s[p]? = some 123 := by have := h'.1; rw [htl, at_cons] at this; exact this.1
      obtain ⟨pre, hpre⟩ := elemBytes_placeable_last x hvx
      have hbq : Bnd s (p + (elemBytes (.placeable x)).length) := by
        have := h'.1
        rw [hpre, at_append] at this
        simp only [at_cons] at this
        have := bnd_succ hs this.2.1 (by decide)
        rw [hpre]; simpa [Nat.add_assoc] using this
      rw [patternLoop_placeable_step s m st p ex _ h123 hrole hpl]
      obtain ⟨phs, tr, hloop, hrel⟩ := ih' m _
        ⟨st.elements ++ [.placeable ex], some st.elements.length, st.commonIndent, .continuation, st.commonIndent⟩
        rfl hci hci hbq h'.2
        (by simp only [patBytes, List.length_append] at hend; rw [← Nat.add_assoc] at hend; exact hend)
        (by simp [fuelPat] at hn; omega)
      refine ⟨.placeable ex :: phs, tr, ?_, ⟨hmx, hrel⟩⟩
      rw [hloop]
      simp only [patBytes, List.length_append, List.append_assoc, List.singleton_append, List.length_cons,
        List.length_nil, List.isEmpty_cons]
      congr 1
      · congr 1
        cases es <;> simp
        omega
      · omega
    | text v =>
      have hvv : validText v = true := by simpa [validElem] using hv _ (List.mem_cons_self)
      obtain ⟨hatv, hrest, hnext⟩ := after_text s p v es hvt hadj h
      have hne := validText_ne hvv
      have hlen : 0 < v.length := by cases v <;> simp_all
      have hp0 : s[p]? ≠ some 123 := by
        have hg := at_get hatv 0 hlen
        rw [Nat.add_zero] at hg
        rw [hg]
        have := (validText_mem hvv _ (List.getElem_mem hlen)).2.2.1
        simpa using this
      have hplt : p < s.size := by
        have hg := at_get hatv 0 hlen
        rw [Nat.add_zero] at hg; exact get_lt hg
      rcases hnext with ⟨rfl, h10⟩ | ⟨hnes, h123⟩
      · -- the last text: its slice takes the line feed
        obtain ⟨m', rfl⟩ : ∃ m', m = m' + 1 := ⟨m - 1, by simp [fuelPat] at hn; omega⟩
        have hts := getTextSlice_lf s v hvv p hatv h10
        have hb2 : Bnd s (p + v.length + 1) := bnd_succ hs h10 (by decide)
        have hsl := slice_ok (show p ≤ p + v.length + 1 by omega) hb hb2
        have hend' : LineEndOK s (p + v.length + 1) := by simpa [patBytes, elemBytes] using hend
        rw [patternLoop_text_step s (m' + 1) st p _ _ _ .lineFeed hplt hp0 hrole hts (by omega) hsl,
          patternLoop_end s m' _ _ rfl hend']
        -- the last byte of `v`
        obtain ⟨c, hc⟩ : ∃ c, v.getLast? = some c := by
          cases hg : v.getLast? with
          | none => simp at hg; exact absurd hg hne
          | some c => exact ⟨c, rfl⟩
        have hc32 : c ≠ 32 := by
          simp only [lastOK] at hlast
          intro h0; subst h0; simp [hc] at hlast
        have hcm := validText_mem hvv c (List.mem_of_getLast? hc)
        have hsc : s[p + v.length - 1]? = some c := by
          have hg := at_get hatv (v.length - 1) (by omega)
          rw [show p + (v.length - 1) = p + v.length - 1 by omega] at hg
          rw [hg]
          rw [List.getLast?_eq_getElem?] at hc
          rw [List.getElem?_eq_getElem (by omega)] at hc
          exact hc
        have htrim := trimEnd_lf s p (p + v.length) c (by omega) h10 hsc hc32 hcm.2.1 hcm.1
        refine ⟨[.text p (p + v.length + 1) 0 st.role], [], ?_, ?_⟩
        · simp only [htrim, getLast_any_ne32 v c hc hc32, Bool.true_and, patBytes, elemBytes, List.append_nil,
            List.length_cons, List.length_nil, List.isEmpty_cons, hci, hk, roleOf]
          have : (p + v.length != p) = true := by simp; omega
          simp [this]
        · refine ⟨⟨rfl, hrole, hb, hb2, hatv, hvv, ?_⟩, trivial⟩
          simp only [List.isEmpty_nil, if_true]
          exact ⟨trivial, h10, by rw [hc]; simpa using hc32⟩
      · -- a text followed by a placeable
        have hts := getTextSlice_brace s v hvv p hatv h123
        have hb2 : Bnd s (p + v.length) := bnd_of_ascii h123 (by decide)
        have hsl := slice_ok (show p ≤ p + v.length by omega) hb hb2
        rw [patternLoop_text_step s m st p _ _ _ .placeableStart hplt hp0 hrole hts (by omega) hsl]
        obtain ⟨phs, tr, hloop, hrel⟩ := ih' m _
          ⟨st.elements ++ [.text p (p + v.length) 0 st.role],
           (if (v.any (fun b => b != 32) && (trimEnd s ⟨p, p + v.length⟩).stop != p) = true
             then some st.elements.length else st.lastNonBlank), st.commonIndent, roleOf .placeableStart,
           (if (v.any (fun b => b != 32) && (trimEnd s ⟨p, p + v.length⟩).stop != p) = true
             then st.commonIndent else st.keptCommonIndent)⟩
          rfl hci (by simp only []; split <;> assumption) hb2 hrest
          (by simp only [patBytes, elemBytes, List.length_append] at hend; rw [← Nat.add_assoc] at hend; exact hend)
          (by simp [fuelPat, fuelElem] at hn; omega)
        refine ⟨.text p (p + v.length) 0 st.role :: phs, tr, ?_, ⟨⟨rfl, hrole, hb, hb2, hatv, hvv, ?_⟩, hrel⟩⟩
        · rw [hloop]
          have hes : es.isEmpty = false := by cases es <;> simp_all
          simp only [hes, Bool.false_eq_true, if_false, patBytes, elemBytes, List.length_append, List.append_assoc,
            List.singleton_append, List.length_cons, List.length_nil, List.isEmpty_cons]
          congr 1
          · congr 1; congr 1; omega
          · omega
        · have hes : es.isEmpty = false := by cases es <;> simp_all
          simp [hes]

theorem finishElements_past (s : Src) (ci : Option Nat) (L j : Nat) (l : List Placeholder) (h : L < j) :
    finishElements s ci L j l = some [] := by
  cases l with
  | nil => rfl
  | cons x xs => simp only [finishElements, h, if_true]

theorem finishElements_rel (s : Src) (es : List (PatElem Bytes)) (hne : es ≠ []) :
    ∀ (phs tr : List Placeholder) (i : Nat), PhsRel s phs es →
      ∃ els, finishElements s none (i + es.length - 1) i (phs ++ tr) = some els ∧ mapPat (spanBytes s) els = es := by
  induction es with
  | nil => exact absurd rfl hne
  | cons e es ih =>
    intro phs tr i hrel
    cases phs with
    | nil => simp [PhsRel] at hrel
    | cons ph phs =>
      simp only [PhsRel] at hrel
      obtain ⟨hph, hrest⟩ := hrel
      obtain ⟨L, hL⟩ : ∃ L, L = i + (e :: es).length - 1 := ⟨_, rfl⟩
      have hLi : ¬ i > L := by rw [hL]; simp
      have hLe : (L == i) = es.isEmpty := by
        rw [hL]; cases es <;> simp
      rw [← hL]
      -- the rest
      have hrestR : ∃ els, finishElements s none L (i + 1) (phs ++ tr) = some els ∧
          mapPat (spanBytes s) els = es := by
        cases es with
        | nil =>
          cases phs with
          | nil => exact ⟨[], finishElements_past s none _ _ _ (by rw [hL]; simp), rfl⟩
          | cons x xs => simp [PhsRel] at hrest
        | cons e2 rest =>
          have := ih (by simp) phs tr (i + 1) hrest
          rw [show i + 1 + (e2 :: rest).length - 1 = L by rw [hL]; simp; omega] at this
          exact this
      obtain ⟨els, hels, hmap⟩ := hrestR
      rw [List.cons_append]
      simp only [finishElements, hLi, if_false]
      cases ph with
      | placeable ex =>
        cases e with
        | text v => simp [PhRel] at hph
        | placeable x =>
          simp only [PhRel] at hph
          exact ⟨.placeable ex :: els, by simp [hels], by simp [mapPat, PatElem.mapS, hph, hmap]⟩
      | text a b ind role =>
        cases e with
        | placeable x => simp [PhRel] at hph
        | text v =>
          simp only [PhRel] at hph
          obtain ⟨rfl, hrole, hba, hbb, hat, hvv, hlast⟩ := hph
          have hne' := validText_ne hvv
          have hlen : 0 < v.length := by cases v <;> simp_all
          simp only [hrole, Bool.false_eq_true, if_false, hLe]
          by_cases hl : es.isEmpty = true
          · simp only [hl, if_true] at hlast ⊢
            obtain ⟨rfl, h10, h32⟩ := hlast
            obtain ⟨c, hc⟩ : ∃ c, v.getLast? = some c := by
              cases hg : v.getLast? with
              | none => simp at hg; exact absurd hg hne'
              | some c => exact ⟨c, rfl⟩
            have hcm := validText_mem hvv c (List.mem_of_getLast? hc)
            have hsc : s[a + v.length - 1]? = some c := by
              have hg := at_get hat (v.length - 1) (by omega)
              rw [show a + (v.length - 1) = a + v.length - 1 by omega] at hg
              rw [hg]
              rw [List.getLast?_eq_getElem?, List.getElem?_eq_getElem (by omega)] at hc
              exact hc
            have htrim := trimEnd_lf s a (a + v.length) c (by omega) h10 hsc (by rw [hc] at h32; simpa using h32)
              hcm.2.1 hcm.1
            have h1 : (a == a + v.length + 1) = false := by simp; omega
            simp only [h1, Bool.false_eq_true, if_false, slice_ok (show a ≤ a + v.length + 1 by omega) hba hbb,
              hels, Option.map_some]
            refine ⟨_, rfl, ?_⟩
            have hes : es = [] := by simpa using hl
            simp [mapPat, PatElem.mapS, htrim, at_spanBytes hat, hmap, hes]
          · simp only [hl, Bool.false_eq_true, if_false] at hlast ⊢
            subst hlast
            have h1 : (a == a + v.length) = false := by simp; omega
            simp only [h1, Bool.false_eq_true, if_false, slice_ok (show a ≤ a + v.length by omega) hba hbb, hels,
              Option.map_some]
            refine ⟨_, rfl, ?_⟩
            simp [mapPat, PatElem.mapS, at_spanBytes hat, hmap]

/-- the first element, if a text, does not start with a space (`get_pattern` skips blanks after `=`) -/
def firstOK : List (PatElem Bytes) → Bool
  | .text (b :: _) :: _ => b != 32
  | _ => true

/-- **valid single-line pattern**: non-empty; texts non-empty without `\n`, `\r`, `{`, `}`; placeables
hold a valid inline expression (no select, no term attribute); no two adjacent texts; does not start
or end with a space -/
def validSingleLine (es : List (PatElem Bytes)) : Bool :=
  !es.isEmpty && es.all validElem && noAdjText es && firstOK es && lastOK es

theorem patBytes_head (es : List (PatElem Bytes)) (hne : es ≠ []) (hv : ∀ e ∈ es, validElem e = true)
    (hf : firstOK es = true) : ∃ b, (patBytes es).head? = some b ∧ b ≠ 32 ∧ b ≠ 10 ∧ b ≠ 13 := by
  cases es with
  | nil => exact absurd rfl hne
  | cons e es =>
    cases e with
    | placeable x =>
      obtain ⟨tl, htl⟩ := elemBytes_placeable_head x (by simpa [validElem] using hv _ (List.mem_cons_self))
      exact ⟨123, by simp [patBytes, htl], by decide, by decide, by decide⟩
    | text v =>
      have hvv : validText v = true := by simpa [validElem] using hv _ (List.mem_cons_self)
      cases v with
      | nil => simp [validText] at hvv
      | cons b rest =>
        have := validText_mem hvv b (by simp)
        exact ⟨b, by simp [patBytes, elemBytes], by simpa [firstOK] using hf, this.1, this.2.1⟩

/-- **single-line pattern round trip at the `get_pattern` level.**  On a source that contains
`" " ++ patBytes es ++ "\n"` at `p` (what `serialize_pattern` writes after `=`) and continues with the
end of input or a line that does not continue the pattern, `get_pattern` returns a pattern that
resolves to `es` and stops after the line feed. -/
theorem getPattern_singleline {s : Src} (hs : AsciiThenBoundary s) (es : List (PatElem Bytes))
    (hv : validSingleLine es = true) (p n : Nat) (h : At s p (32 :: (patBytes es ++ [10])))
    (hend : LineEndOK s (p + 1 + (patBytes es).length + 1)) (hn : fuelPat es + 1 ≤ n) :
    ∃ els, getPattern s n p = .ok (some els) (p + 1 + (patBytes es).length + 1) ∧
      mapPat (spanBytes s) els = es := by
  simp only [validSingleLine, Bool.and_eq_true, Bool.not_eq_true', List.isEmpty_eq_false_iff,
    List.all_eq_true] at hv
  obtain ⟨⟨⟨⟨hne, hve⟩, hadj⟩, hfirst⟩, hlast⟩ := hv
  obtain ⟨m, rfl⟩ : ∃ m, n = m + 1 := ⟨n - 1, by omega⟩
  rw [at_cons] at h
  obtain ⟨h0, h1⟩ := h
  obtain ⟨b, hb, b1, b2, b3⟩ := patBytes_head es hne hve hfirst
  have hb0 : s[p + 1]? = some b := by
    have : (patBytes es ++ [10]).head? = some b := by
      cases hpb : patBytes es with
      | nil => simp [hpb] at hb
      | cons x xs => simp [hpb] at hb ⊢; exact hb
    exact at_head h1 this
  have hsbi : skipBlankInline s p = p + 1 := by
    rw [skipBlankInline_space s p h0]
    exact skipBlankInline_stay s _ (by rw [hb0]; simpa using b1)
  have heol : skipEol s (p + 1) = none := by
    unfold skipEol
    rw [hb0]
    split <;> simp_all
  obtain ⟨phs, tr, hloop, hrel⟩ := patternLoop_elems hs es hve hadj hlast m (p + 1)
    ⟨[], none, none, .initialLineStart, none⟩ rfl rfl rfl (bnd_succ hs h0 (by decide)) h1 hend (by omega)
  obtain ⟨els, hfin, hmap⟩ := finishElements_rel s es hne phs tr 0 hrel
  refine ⟨els, ?_, hmap⟩
  rw [getPattern]
  simp only [hsbi, heol, hloop]
  have hes : es.isEmpty = false := by cases es <;> simp_all
  simp only [hes, Bool.false_eq_true, if_false, List.length_nil, List.nil_append]
  rw [Nat.zero_add] at hfin ⊢
  rw [hfin]

/-! ## the serializer on single-line patterns -/

@[simp] theorem lit_dbl_lbrace : lit "{{ " = [123, 123, 32] := rfl
@[simp] theorem lit_dbl_rbrace : lit " }}" = [32, 125, 125] := rfl

theorem validText_tidy {v : Bytes} (h : validText v = true) : tidy v = true :=
  tidy_of_all v (validText_ne h) (fun b hb => by have := validText_mem h b hb; exact ⟨this.1, this.2.1⟩)

theorem serElement_eq (e : PatElem Bytes) (hv : validElem e = true) (w : Writer) (acc : Bytes) (ha : tidy acc = true) :
    serElement (w.writeLiteral acc) e = some (w.writeLiteral (acc ++ elemBytes e)) ∧
      tidy (acc ++ elemBytes e) = true := by
  have spaced : ∀ i : Inline Bytes, validInner (.inline i) = true →
      (serInline ((w.writeLiteral acc).writeLiteral [123, 32]) i).map (fun w1 => w1.writeLiteral [32, 125]) =
        some (w.writeLiteral (acc ++ 123 :: 32 :: (inlineBytes i ++ [32, 125]))) ∧
      tidy (acc ++ 123 :: 32 :: (inlineBytes i ++ [32, 125])) = true := by
    intro i hvi
    have hi := validInner_inline hvi
    rw [join_tidy _ _ _ ha]
    have t1 : tidy (acc ++ [123, 32]) = true := tidy_append _ _ (by decide)
    obtain ⟨e1, t2⟩ := serInline_eq_bytes i hi (w.writeLiteral (acc ++ [123, 32]))
    rw [e1, Option.map_some, join_tidy _ _ _ t1, join_tidy _ _ _ (tidy_append _ _ t2)]
    refine ⟨by simp, ?_⟩
    have : acc ++ 123 :: 32 :: (inlineBytes i ++ [32, 125]) = (acc ++ 123 :: 32 :: (inlineBytes i ++ [32])) ++ [125] := by
      simp
    rw [this]
    exact tidy_concat _ 125 (by decide) (by decide)
  cases e with
  | text v =>
    have hvv : validText v = true := by simpa [validElem] using hv
    simp only [serElement, elemBytes]
    exact ⟨by rw [join_tidy _ _ _ ha], tidy_append _ _ (validText_tidy hvv)⟩
  | placeable x =>
    have hvx : validInner x = true := by simpa [validElem] using hv
    cases x with
    | select a b => simp [validInner] at hvx
    | inline i =>
      cases i with
      | placeable e2 =>
        cases e2 with
        | select a b =>
          have : validInner (.inline (.placeable (.select a b))) = validInline (.placeable (.select a b)) := rfl
          rw [this] at hvx
          simp [validInline, validInner] at hvx
        | inline j =>
          have hvj : validInner (.inline j) = true := by
            have : validInner (.inline (.placeable (.inline j))) = validInline (.placeable (.inline j)) := rfl
            rw [this] at hvx
            simpa [validInline] using hvx
          have hj := validInner_inline hvj
          simp only [serElement, serExpr, elemBytes, innerBytes, lit_dbl_lbrace, lit_dbl_rbrace]
          rw [join_tidy _ _ _ ha]
          have t1 : tidy (acc ++ [123, 123, 32]) = true := tidy_append _ _ (by decide)
          obtain ⟨e1, t2⟩ := serInline_eq_bytes j hj (w.writeLiteral (acc ++ [123, 123, 32]))
          rw [e1, Option.map_some, join_tidy _ _ _ t1, join_tidy _ _ _ (tidy_append _ _ t2)]
          refine ⟨by simp, ?_⟩
          have : acc ++ 123 :: 123 :: 32 :: (inlineBytes j ++ [32, 125, 125]) =
              (acc ++ 123 :: 123 :: 32 :: (inlineBytes j ++ [32, 125])) ++ [125] := by simp
          rw [this]
          exact tidy_concat _ 125 (by decide) (by decide)
      | str v => simpa [serElement, elemBytes] using spaced _ hvx
      | num v => simpa [serElement, elemBytes] using spaced _ hvx
      | var v => simpa [serElement, elemBytes] using spaced _ hvx
      | msg a b => simpa [serElement, elemBytes] using spaced _ hvx
      | term a b c => simpa [serElement, elemBytes] using spaced _ hvx
      | fn a b c => simpa [serElement, elemBytes] using spaced _ hvx

theorem serElements_eq (es : List (PatElem Bytes)) (hv : ∀ e ∈ es, validElem e = true) (w : Writer) (acc : Bytes)
    (ha : tidy acc = true) :
    serElements (w.writeLiteral acc) es = some (w.writeLiteral (acc ++ patBytes es)) ∧
      tidy (acc ++ patBytes es) = true := by
  induction es generalizing acc with
  | nil => simp [serElements, patBytes, ha]
  | cons e es ih =>
    obtain ⟨e1, t1⟩ := serElement_eq e (hv e (List.mem_cons_self)) w acc ha
    obtain ⟨e2, t2⟩ := ih (fun x hx => hv x (List.mem_cons_of_mem _ hx)) _ t1
    simp only [serElements, e1, patBytes]
    rw [e2]
    exact ⟨by simp, by simpa using t2⟩

mutual
theorem isSelectInline_valid (i : Inline Bytes) (hv : validInline i = true) : isSelectInline i = false := by
  cases i with
  | placeable e => simp only [isSelectInline]; exact isSelectExpr_valid e (by simpa [validInline] using hv)
  | _ => rfl
theorem isSelectExpr_valid (e : Expr Bytes) (hv : validInner e = true) : isSelectExpr e = false := by
  cases e with
  | select a b => simp [validInner] at hv
  | inline i => simp only [isSelectExpr]; exact isSelectInline_valid i (validInner_inline hv)
end

theorem isMultiline_valid (es : List (PatElem Bytes)) (hv : ∀ e ∈ es, validElem e = true) : isMultiline es = false := by
  induction es with
  | nil => rfl
  | cons e es ih =>
    have ih' := ih (fun x hx => hv x (List.mem_cons_of_mem _ hx))
    have he := hv e (List.mem_cons_self)
    cases e with
    | text v =>
      have := validText_mem (by simpa [validElem] using he : validText v = true)
      simp only [isMultiline, ih', Bool.or_false]
      rw [List.contains_eq_mem]
      simp only [decide_eq_false_iff_not]
      intro h10; exact (this 10 h10).1 rfl
    | placeable x =>
      have hvx : validInner x = true := by simpa [validElem] using he
      simp only [isMultiline, ih', Bool.or_false]
      exact isSelectExpr_valid x hvx

/-- **`serialize_pattern` on a single-line pattern** writes ` ` and the elements, nothing else. -/
theorem serPattern_eq (es : List (PatElem Bytes)) (hv : ∀ e ∈ es, validElem e = true) (w : Writer) (acc : Bytes)
    (ha : tidy acc = true) :
    serPattern (w.writeLiteral acc) es = some (w.writeLiteral (acc ++ 32 :: patBytes es)) ∧
      tidy (acc ++ 32 :: patBytes es) = true := by
  have hml := isMultiline_valid es hv
  simp only [serPattern, patternPre, patternPost, startsOnNewLine, hml, Bool.and_false, Bool.false_eq_true, if_false,
    lit_sp]
  rw [join_tidy _ _ _ ha]
  obtain ⟨e1, t1⟩ := serElements_eq es hv w (acc ++ [32]) (tidy_append _ _ (by decide))
  rw [e1]
  exact ⟨by simp, by simpa using t1⟩

/-! ## the fuel the parser passes is enough -/

theorem namedTail_length (named : List (Bytes × Inline Bytes)) : named.length + 1 ≤ (namedTail named).length := by
  induction named with
  | nil => simp [namedTail]
  | cons x xs ih => obtain ⟨n, v⟩ := x; rw [namedTail]; simp; omega

mutual
theorem fuelInline_le (e : Inline Bytes) (hv : validInline e = true) :
    fuelInline e ≤ 2 * (inlineBytes e).length + 2 := by
  cases e with
  | str v => simp [fuelInline]
  | num v => simp [fuelInline]
  | var v => simp [fuelInline]
  | msg a b => simp [fuelInline]
  | term id attr args =>
    cases args with
    | none => simp [fuelInline]
    | some pn =>
      obtain ⟨pos, named⟩ := pn
      simp only [validInline, Bool.and_eq_true] at hv
      have := fuelArgs_le pos hv.1.1.2 named (fuelNamed named) (fuelNamed_le named hv.1.2)
      simp only [fuelInline, inlineBytes, List.length_cons, List.length_append]
      omega
  | fn id pos named =>
    simp only [validInline, Bool.and_eq_true] at hv
    have := fuelArgs_le pos hv.1.1.2 named (fuelNamed named) (fuelNamed_le named hv.1.2)
    have hid : 1 ≤ id.length := by
      have := validIdent_ne_nil hv.1.1.1.1
      cases id <;> simp_all
    simp only [fuelInline, inlineBytes, List.length_cons, List.length_append]
    omega
  | placeable e =>
    cases e with
    | select a b => simp [validInline, validInner] at hv
    | inline i =>
      have := fuelInline_le i (validInner_inline (by simpa [validInline] using hv))
      simp only [fuelInline, fuelInner, inlineBytes, innerBytes, List.length_cons, List.length_append, List.length_nil]
      omega

/-- `fn` = the fuel of the named arguments, bounded by their text (`fuelNamed_le`, passed as a hypothesis so
that the mutual induction stays structural) -/
theorem fuelArgs_le (xs : List (Inline Bytes)) (hv : validInl xs = true) (named : List (Bytes × Inline Bytes))
    (fn : Nat) (hfn : fn + 2 ≤ 2 * (namedTail named).length) :
    fuelArgs xs + fn ≤ 2 * (posTail xs named.isEmpty (namedTail named)).length + 1 := by
  cases xs with
  | nil =>
    simp only [fuelArgs, posTail]
    omega
  | cons x xs =>
    simp only [validInl, Bool.and_eq_true] at hv
    have h1 := fuelInline_le x hv.1
    have h2 := fuelArgs_le xs hv.2 named fn hfn
    rw [posTail]
    simp only [fuelArgs, List.length_append]
    by_cases hl : (xs.isEmpty && named.isEmpty) = true
    · simp only [Bool.and_eq_true, List.isEmpty_iff] at hl
      obtain ⟨rfl, rfl⟩ := hl
      simp [fuelArgs, posTail, namedTail] at h2 hfn ⊢
      omega
    · simp only [hl, Bool.false_eq_true, if_false, List.length_cons, List.length_nil]
      omega

theorem fuelNamed_le (named : List (Bytes × Inline Bytes)) (hv : validNamed named = true) :
    fuelNamed named + 2 ≤ 2 * (namedTail named).length := by
  cases named with
  | nil => simp [fuelNamed, namedTail]
  | cons x xs =>
    obtain ⟨n, v⟩ := x
    simp only [validNamed, Bool.and_eq_true] at hv
    have h1 := fuelInline_le v hv.1.2
    have h2 := fuelNamed_le xs hv.2
    have hn : 1 ≤ n.length := by
      have := validIdent_ne_nil hv.1.1.1
      cases n <;> simp_all
    rw [namedTail]
    simp only [fuelNamed, List.length_append, List.length_cons, List.length_nil]
    omega
end

theorem fuelElem_le (e : PatElem Bytes) (hv : validElem e = true) : fuelElem e + 1 ≤ 3 * (elemBytes e).length := by
  cases e with
  | text v =>
    have := validText_ne (by simpa [validElem] using hv : validText v = true)
    have : 1 ≤ v.length := by cases v <;> simp_all
    simp [fuelElem, elemBytes]; omega
  | placeable x =>
    have hvx : validInner x = true := by simpa [validElem] using hv
    have spaced : ∀ i : Inline Bytes, validInner (.inline i) = true →
        fuelInline i + 2 + 1 ≤ 3 * (123 :: 32 :: (inlineBytes i ++ [32, 125])).length := by
      intro i hvi
      have := fuelInline_le i (validInner_inline hvi)
      simp; omega
    cases x with
    | select a b => simp [validInner] at hvx
    | inline i =>
      cases i with
      | placeable e2 =>
        cases e2 with
        | select a b =>
          have : validInner (.inline (.placeable (.select a b))) = validInline (.placeable (.select a b)) := rfl
          rw [this] at hvx
          simp [validInline, validInner] at hvx
        | inline j =>
          have hvj : validInner (.inline j) = true := by
            have : validInner (.inline (.placeable (.inline j))) = validInline (.placeable (.inline j)) := rfl
            rw [this] at hvx
            simpa [validInline] using hvx
          have := fuelInline_le j (validInner_inline hvj)
          simp [fuelElem, fuelInner, elemBytes, innerBytes]; omega
      | str v => exact spaced _ hvx
      | num v => exact spaced _ hvx
      | var v => exact spaced _ hvx
      | msg a b => exact spaced _ hvx
      | term a b c => exact spaced _ hvx
      | fn a b c => exact spaced _ hvx

theorem fuelPat_le (es : List (PatElem Bytes)) (hv : ∀ e ∈ es, validElem e = true) :
    fuelPat es ≤ 3 * (patBytes es).length + 2 := by
  induction es with
  | nil => simp [fuelPat, patBytes]
  | cons e es ih =>
    have h1 := fuelElem_le e (hv e (List.mem_cons_self))
    have h2 := ih (fun x hx => hv x (List.mem_cons_of_mem _ hx))
    simp only [fuelPat, patBytes, List.length_append]
    omega

end FluentProofs.Ser
