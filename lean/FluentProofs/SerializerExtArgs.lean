import FluentProofs.SerializerExt
/-!
# Serializer lemmas, part 13c: call arguments in the level-indexed inline layer (C04 / T3)

`F(a, { $x -> … }, k: G({ … }))`, `-t.a(…)`: if every positional argument and every value of a named argument
has the round-trip property at level `L` (`InlRT L`), so has the call.
-/
namespace FluentProofs.Ser
open FluentModel FluentModel.Syntax FluentModel.Syntax.Ser FluentProofs.Parser

/-- on the text of `v`, `get_inline_expression(only_literal = true)` behaves like
`get_inline_expression(only_literal = false)` -/
def OLFree (L : Nat) (v : Inline Bytes) : Prop :=
  ∀ (s : Src) (p n : Nat), At s p (inlineText L v) → getInline s (n + 1) true p = getInline s (n + 1) false p

/-- the named arguments of a call: names are identifiers, values round-trip and are accepted with `only_literal` -/
def NamedOK (L : Nat) (named : List (Bytes × Inline Bytes)) : Prop :=
  ∀ nv ∈ named, validIdent nv.1 = true ∧ InlRT L nv.2 ∧ OLFree L nv.2

theorem NamedOK.tail {L : Nat} {x : Bytes × Inline Bytes} {xs : List (Bytes × Inline Bytes)} (h : NamedOK L (x :: xs)) :
    NamedOK L xs := fun nv hnv => h nv (List.mem_cons_of_mem _ hnv)

/-! ## `only_literal` is only looked at in front of `$`, `{` and `-letter` -/

theorem getInline_ol_quote (s : Src) (n p : Nat) (h0 : s[p]? = some 34) :
    getInline s (n + 1) true p = getInline s (n + 1) false p := by
  rw [getInline, getInline, h0]
  simp

theorem getInline_ol_digit (s : Src) (n p : Nat) (b : UInt8) (h0 : s[p]? = some b) (hb : isDigit b = true) :
    getInline s (n + 1) true p = getInline s (n + 1) false p := by
  obtain ⟨h1, _, _⟩ := digit_facts b hb
  rw [getInline, getInline, h0]
  simp only [beq_iff_eq, h1, if_false, hb, if_true]

theorem getInline_ol_minus (s : Src) (n p : Nat) (d : UInt8) (h0 : s[p]? = some 45) (h1 : s[p + 1]? = some d)
    (hd : isDigit d = true) : getInline s (n + 1) true p = getInline s (n + 1) false p := by
  obtain ⟨_, _, h3⟩ := digit_facts d hd
  have : isIdentifierStart s (p + 1) = false := by simp [isIdentifierStart, h1, h3]
  rw [getInline, getInline, h0]
  simp [this, isDigit]

/-- literals, message references and function calls are accepted as values of named arguments -/
theorem olFree_of_head (L : Nat) (v : Inline Bytes)
    (h : (∃ r, inlineText L v = 34 :: r) ∨ (∃ b r, inlineText L v = b :: r ∧ isDigit b = true) ∨
      (∃ d r, inlineText L v = 45 :: d :: r ∧ isDigit d = true) ∨ (∃ b r, inlineText L v = b :: r ∧ isAlpha b = true)) :
    OLFree L v := by
  intro s p n hat
  rcases h with ⟨r, hr⟩ | ⟨b, r, hr, hb⟩ | ⟨d, r, hr, hd⟩ | ⟨b, r, hr, hb⟩
  · rw [hr, at_cons] at hat; exact getInline_ol_quote s n p hat.1
  · rw [hr, at_cons] at hat; exact getInline_ol_digit s n p b hat.1 hb
  · rw [hr] at hat; simp only [at_cons] at hat; exact getInline_ol_minus s n p d hat.1 hat.2.1 hd
  · rw [hr, at_cons] at hat; exact getInline_ol_alpha s n p b hat.1 hb

/-! ## the serializer on call arguments -/

theorem serNamed_rt (L : Nat) (named : List (Bytes × Inline Bytes)) (hn : NamedOK L named) :
    ∀ (w : Writer) (written : Bool), WS w L false →
      ∃ w', (serNamed w written named).map (fun w2 => w2.writeLiteral [41]) = some w' ∧
        w'.buffer = w.buffer ++ ((if written && !named.isEmpty then [44, 32] else []) ++ namedText L named).toArray ∧
        WS w' L false := by
  induction named with
  | nil =>
    intro w written hw
    obtain ⟨hb, hw1⟩ := ws_writeTidy hw [41] (by decide)
    exact ⟨_, by simp [serNamed], by rw [hb]; simp [namedText], hw1⟩
  | cons x xs ih =>
    obtain ⟨n, v⟩ := x
    intro w written hw
    obtain ⟨hid, hv, _⟩ : validIdent n = true ∧ InlRT L v ∧ OLFree L v := hn (n, v) (List.mem_cons_self)
    -- the separator
    obtain ⟨w1, e1, hb1, hw1⟩ : ∃ w1, (if written = true then w.writeLiteral [44, 32] else w) = w1 ∧
        w1.buffer = w.buffer ++ (if written then [44, 32] else [] : Bytes).toArray ∧ WS w1 L false := by
      cases written with
      | true =>
        obtain ⟨hb, hw'⟩ := ws_writeTidy hw [44, 32] (by decide)
        exact ⟨_, rfl, by simpa using hb, hw'⟩
      | false => exact ⟨w, rfl, by simp, hw⟩
    obtain ⟨hb2, hw2⟩ := ws_writeTidy hw1 n (validIdent_tidy hid)
    obtain ⟨hb3, hw3⟩ := ws_writeTidy hw2 [58, 32] (by decide)
    obtain ⟨w4, hs4, hb4, hw4⟩ := hv.ser _ hw3
    obtain ⟨w5, hs5, hb5, hw5⟩ := ih hn.tail w4 true hw4
    refine ⟨w5, ?_, ?_, hw5⟩
    · rw [serNamed]
      simp only [lit_comma, lit_colon, e1, hs4]
      exact hs5
    · rw [hb5, hb4, hb3, hb2, hb1]
      apply Array.ext'
      cases written <;> cases xs <;> simp [namedText]

theorem serArgs_rt (L : Nat) (xs : List (Inline Bytes)) (hx : ∀ x ∈ xs, InlRT L x) (named : List (Bytes × Inline Bytes))
    (hn : NamedOK L named) :
    ∀ (w : Writer) (written : Bool), WS w L false →
      ∃ w', serArgs w written xs named = some w' ∧
        w'.buffer = w.buffer ++ ((if written && !(xs.isEmpty && named.isEmpty) then [44, 32] else []) ++
          posText L xs named.isEmpty (namedText L named)).toArray ∧
        WS w' L false := by
  induction xs with
  | nil =>
    intro w written hw
    obtain ⟨w', h1, h2, h3⟩ := serNamed_rt L named hn w written hw
    refine ⟨w', ?_, by simpa [posText] using h2, h3⟩
    simp only [serArgs, serPositional]
    exact h1
  | cons x xs ih =>
    intro w written hw
    obtain ⟨w1, e1, hb1, hw1⟩ : ∃ w1, (if written = true then w.writeLiteral [44, 32] else w) = w1 ∧
        w1.buffer = w.buffer ++ (if written then [44, 32] else [] : Bytes).toArray ∧ WS w1 L false := by
      cases written with
      | true =>
        obtain ⟨hb, hw'⟩ := ws_writeTidy hw [44, 32] (by decide)
        exact ⟨_, rfl, by simpa using hb, hw'⟩
      | false => exact ⟨w, rfl, by simp, hw⟩
    obtain ⟨w2, hs2, hb2, hw2⟩ := (hx x (List.mem_cons_self)).ser _ hw1
    obtain ⟨w3, hs3, hb3, hw3⟩ := ih (fun y hy => hx y (List.mem_cons_of_mem _ hy)) w2 true hw2
    refine ⟨w3, ?_, ?_, hw3⟩
    · rw [serArgs_cons, e1, hs2]
      exact hs3
    · rw [hb3, hb2, hb1]
      apply Array.ext'
      rw [posText]
      cases written <;> cases xs <;> cases named <;> simp

/-! ## first and last byte of the argument text -/

theorem namedText_head (L : Nat) (named : List (Bytes × Inline Bytes)) (hn : NamedOK L named) :
    ∃ b, (namedText L named).head? = some b ∧ b ≠ 32 ∧ b ≠ 10 ∧ b ≠ 13 ∧ (named = [] → b = 41) ∧
      (named ≠ [] → b ≠ 41) := by
  cases named with
  | nil => exact ⟨41, by simp [namedText], by decide, by decide, by decide, fun _ => rfl, fun h => absurd rfl h⟩
  | cons x xs =>
    obtain ⟨n, v⟩ := x
    obtain ⟨hid, _, _⟩ : validIdent n = true ∧ InlRT L v ∧ OLFree L v := hn (n, v) (List.mem_cons_self)
    obtain ⟨b, rest, rfl, hb, _⟩ := validIdent_head hid
    obtain ⟨h1, h2, h3, h4⟩ := (notBlank_iff b).mp (alpha_notBlank b hb)
    exact ⟨b, by simp [namedText], h1, h2, h3, fun h => by simp at h, fun _ => h4⟩

theorem posText_head (L : Nat) (xs : List (Inline Bytes)) (hx : ∀ x ∈ xs, InlRT L x)
    (named : List (Bytes × Inline Bytes)) (hn : NamedOK L named) :
    ∃ b, (posText L xs named.isEmpty (namedText L named)).head? = some b ∧ b ≠ 32 ∧ b ≠ 10 ∧ b ≠ 13 := by
  cases xs with
  | nil =>
    obtain ⟨b, h1, h2, h3, h4, _⟩ := namedText_head L named hn
    exact ⟨b, by simpa [posText] using h1, h2, h3, h4⟩
  | cons x xs =>
    obtain ⟨b, h1, h2⟩ := (hx x (List.mem_cons_self)).head
    obtain ⟨n1, n2, n3, _⟩ := (notBlank_iff b).mp h2
    refine ⟨b, ?_, n1, n2, n3⟩
    rw [posText]
    cases hxt : inlineText L x with
    | nil => simp [hxt] at h1
    | cons y ys => simp [hxt] at h1 ⊢; exact h1

theorem posText_last (L : Nat) (xs : List (Inline Bytes)) (named : List (Bytes × Inline Bytes)) :
    ∃ pre, posText L xs named.isEmpty (namedText L named) = pre ++ [41] := by
  have hn : ∀ named : List (Bytes × Inline Bytes), ∃ pre, namedText L named = pre ++ [41] := by
    intro named
    induction named with
    | nil => exact ⟨[], rfl⟩
    | cons x xs ih =>
      obtain ⟨n, v⟩ := x
      obtain ⟨pre, hpre⟩ := ih
      exact ⟨_, by rw [namedText, hpre, ← List.append_assoc]⟩
  induction xs with
  | nil => simpa [posText] using hn named
  | cons x xs ih =>
    obtain ⟨pre, hpre⟩ := ih
    exact ⟨_, by rw [posText, hpre, ← List.append_assoc]⟩

/-! ## the parser on call arguments -/

theorem getCallArgsLoop_namedT {s : Src} (hs : AsciiThenBoundary s) (L : Nat) (named : List (Bytes × Inline Bytes))
    (hn : NamedOK L named) (hnd : (named.map Prod.fst).Nodup) :
    ∀ (p fuel : Nat) (pos0 : List (Inline Span)) (named0 : List (Span × Inline Span)),
      At s p (namedText L named) → 4 * (namedText L named).length + 4 ≤ fuel →
      (∀ n ∈ named.map Prod.fst, n ∉ accNames s named0) →
      ∃ named', getCallArgsLoop s fuel pos0 named0 p =
          .ok (pos0, named0 ++ named') (p + (namedText L named).length - 1) ∧
        mapNamed (spanBytes s) named' = named := by
  induction named with
  | nil =>
    intro p fuel pos0 named0 h hf _
    obtain ⟨k, rfl⟩ : ∃ k, fuel = k + 1 := ⟨fuel - 1, by omega⟩
    simp only [namedText, at_cons] at h
    refine ⟨[], ?_, rfl⟩
    rw [getCallArgsLoop]
    simp only [get_lt h.1, if_true, isCurrentByte, h.1, beq_self_eq_true, namedText, List.append_nil,
      List.length_cons, List.length_nil]
    rfl
  | cons x xs ih =>
    obtain ⟨n, v⟩ := x
    intro p fuel pos0 named0 h hf hdis
    obtain ⟨hid, hv, hol⟩ : validIdent n = true ∧ InlRT L v ∧ OLFree L v := hn (n, v) (List.mem_cons_self)
    have hxs := hn.tail
    simp only [List.map_cons, List.nodup_cons] at hnd
    have hlenT : (namedText L ((n, v) :: xs)).length =
        n.length + 2 + (inlineText L v).length + (if xs.isEmpty then 0 else 2) + (namedText L xs).length := by
      rw [namedText]; cases xs <;> simp <;> omega
    rw [hlenT] at hf
    obtain ⟨k, rfl⟩ : ∃ k, fuel = k + 3 := ⟨fuel - 3, by omega⟩
    rw [namedText, at_append, at_append, at_append, at_append] at h
    obtain ⟨⟨⟨⟨h1, h2⟩, h3⟩, h4⟩, h5⟩ := h
    simp only [at_cons, List.length_append, List.length_cons, List.length_nil] at h2 h3 h4 h5
    -- first byte: a letter
    obtain ⟨b, rest, hnb, hb, _⟩ := validIdent_head hid
    have hp0 : s[p]? = some b := by rw [hnb, at_cons] at h1; exact h1.1
    have hb41 : b ≠ 41 := ((notBlank_iff b).mp (alpha_notBlank b hb)).2.2.2
    -- the name
    obtain ⟨hfol, hsb⟩ := follow_of_byte 58 h2.1 (by decide)
    have e1 := getInline_msg_none hs n hid p k h1 hfol.ident hfol.2
    rw [hsb] at e1
    -- the value
    obtain ⟨vb, hvb, hvnb⟩ := hv.head
    have hv0 := at_head h3 hvb
    obtain ⟨nb1, nb2, nb3, _⟩ := (notBlank_iff vb).mp hvnb
    have hsb2 : skipBlank s (p + n.length + 1) = p + n.length + 2 := by
      rw [skipBlank_space s _ h2.2.1]
      exact skipBlank_at_byte s _ vb (by simpa [Nat.add_assoc] using hv0) nb1 nb2 nb3
    have e3 : p + (n.length + (0 + 1 + 1)) = p + n.length + 2 := by omega
    have e4 : p + (n.length + (0 + 1 + 1) + (inlineText L v).length) = p + n.length + 2 + (inlineText L v).length := by
      omega
    rw [e3] at h3 hv0
    rw [e4] at h4
    -- where the loop restarts
    obtain ⟨q', hnext, hat', hfolv, hsbv, hlen⟩ : ∃ q',
        skipBlank s (takeByteIf s (skipBlank s (p + n.length + 2 + (inlineText L v).length)) 44).fst = q' ∧
        At s q' (namedText L xs) ∧ Follow s (p + n.length + 2 + (inlineText L v).length) ∧
        skipBlank s (p + n.length + 2 + (inlineText L v).length) = p + n.length + 2 + (inlineText L v).length ∧
        q' + (namedText L xs).length = p + (namedText L ((n, v) :: xs)).length := by
      cases xs with
      | nil =>
        simp only [List.isEmpty_nil, if_true, List.length_nil, Nat.add_zero, namedText, at_cons] at h5
        rw [e4] at h5
        refine ⟨_, nextPos_close s _ h5.1, by simp [namedText, at_cons, h5.1],
          (follow_of_byte 41 h5.1 (by decide)).1, (follow_of_byte 41 h5.1 (by decide)).2, ?_⟩
        simp [namedText]; omega
      | cons y ys =>
        simp only [List.isEmpty_cons, Bool.false_eq_true, if_false, at_cons, List.length_cons, List.length_nil] at h4 h5
        obtain ⟨yb, hyb, y1, y2, y3, _⟩ := namedText_head L (y :: ys) hxs
        have e5 : p + (n.length + (0 + 1 + 1) + (inlineText L v).length + (0 + 1 + 1)) =
            p + n.length + 2 + (inlineText L v).length + 2 := by omega
        rw [e5] at h5
        refine ⟨_, nextPos_comma s _ yb h4.1 h4.2.1 (at_head h5 hyb) ⟨y1, y2, y3⟩, h5,
          (follow_of_byte 44 h4.1 (by decide)).1, (follow_of_byte 44 h4.1 (by decide)).2, ?_⟩
        have : namedText L ((n, v) :: y :: ys) =
            n ++ [58, 32] ++ inlineText L v ++ [44, 32] ++ namedText L (y :: ys) := by
          rw [namedText]; rfl
        rw [this]
        simp; omega
    obtain ⟨v', ev, rv⟩ : ∃ v', getInline s (k + 1 + 1) true (p + n.length + 2) =
        .ok v' (p + n.length + 2 + (inlineText L v).length) ∧ v'.mapS (spanBytes s) = v := by
      obtain ⟨v', ev, rv⟩ := hv.parse s (p + n.length + 2) (k + 2) hs h3 hfolv (by omega)
      rw [endPos_stay v s _ hsbv] at ev
      exact ⟨v', by rw [hol s _ (k + 1) h3]; exact ev, rv⟩
    have hdup : (named0.any fun na => spanBytes s na.fst == spanBytes s ⟨p, p + n.length⟩) = false := by
      rw [at_spanBytes h1, List.any_eq_false]
      intro na hna heq
      apply hdis n (by simp)
      simp only [accNames, List.mem_map]
      exact ⟨na, hna, by simpa using heq⟩
    obtain ⟨named', eih, rih⟩ := ih hxs hnd.2 q' (k + 2) pos0 (named0 ++ [(⟨p, p + n.length⟩, v')]) hat'
      (by omega) (by
        intro m hm
        simp only [accNames, List.map_append, List.map_cons, List.map_nil, List.mem_append, List.mem_singleton,
          at_spanBytes h1, not_or]
        refine ⟨hdis m (by simp [hm]), ?_⟩
        intro hmn; subst hmn
        exact hnd.1 (by simpa using hm))
    refine ⟨(⟨p, p + n.length⟩, v') :: named', ?_, ?_⟩
    · rw [getCallArgsLoop]
      have hc41 : isCurrentByte s p 41 = false := by simp [isCurrentByte, hp0, hb41]
      have hc58 : isCurrentByte s (p + n.length) 58 = true := by simp [isCurrentByte, h2.1]
      rw [hsbv] at hnext
      simp only [get_lt hp0, if_true, hc41, Bool.false_eq_true, if_false, e1, hsb, hc58, hdup, hsb2, ev, hsbv, hnext, eih]
      simp only [List.append_assoc, List.singleton_append]
      congr 1
      omega
    · simp [mapNamed, rv, rih, at_spanBytes h1]

theorem getCallArgsLoop_posT {s : Src} (hs : AsciiThenBoundary s) (L : Nat) (xs : List (Inline Bytes))
    (hx : ∀ x ∈ xs, InlRT L x) (named : List (Bytes × Inline Bytes)) (hn : NamedOK L named)
    (hnd : (named.map Prod.fst).Nodup) :
    ∀ (p fuel : Nat) (pos0 : List (Inline Span)), At s p (posText L xs named.isEmpty (namedText L named)) →
      4 * (posText L xs named.isEmpty (namedText L named)).length + 4 ≤ fuel →
      ∃ xs' named', getCallArgsLoop s fuel pos0 [] p =
          .ok (pos0 ++ xs', named') (p + (posText L xs named.isEmpty (namedText L named)).length - 1) ∧
        mapInl (spanBytes s) xs' = xs ∧ mapNamed (spanBytes s) named' = named := by
  induction xs with
  | nil =>
    intro p fuel pos0 h hfuel
    simp only [posText] at h hfuel ⊢
    obtain ⟨named', hl, hm⟩ := getCallArgsLoop_namedT hs L named hn hnd p fuel pos0 [] h hfuel (by simp [accNames])
    exact ⟨[], named', by simpa using hl, rfl, hm⟩
  | cons x xs ih =>
    intro p fuel pos0 h hfuel
    have hx0 := hx x (List.mem_cons_self)
    have hxr : ∀ y ∈ xs, InlRT L y := fun y hy => hx y (List.mem_cons_of_mem _ hy)
    obtain ⟨k, rfl⟩ : ∃ k, fuel = k + 1 := ⟨fuel - 1, by omega⟩
    have hpt : posText L (x :: xs) named.isEmpty (namedText L named) =
        inlineText L x ++ (if xs.isEmpty && named.isEmpty then [] else [44, 32]) ++
          posText L xs named.isEmpty (namedText L named) := by rw [posText]
    have hTlen : 1 ≤ (posText L xs named.isEmpty (namedText L named)).length := by
      obtain ⟨pre, hpre⟩ := posText_last L xs named; rw [hpre]; simp
    rw [hpt] at h hfuel
    simp only [List.length_append] at hfuel
    rw [at_append, at_append] at h
    obtain ⟨⟨h1, h2⟩, h3⟩ := h
    -- what follows `x`
    obtain ⟨q', hnext, hat', hfol, hsb, h58, hlen⟩ : ∃ q',
        skipBlank s (takeByteIf s (p + (inlineText L x).length) 44).fst = q' ∧
        At s q' (posText L xs named.isEmpty (namedText L named)) ∧ Follow s (p + (inlineText L x).length) ∧
        skipBlank s (p + (inlineText L x).length) = p + (inlineText L x).length ∧
        isCurrentByte s (p + (inlineText L x).length) 58 = false ∧
        q' + (posText L xs named.isEmpty (namedText L named)).length =
          p + (posText L (x :: xs) named.isEmpty (namedText L named)).length := by
      by_cases hlast : (xs.isEmpty && named.isEmpty) = true
      · simp only [Bool.and_eq_true, List.isEmpty_iff] at hlast
        obtain ⟨rfl, rfl⟩ := hlast
        simp only [List.isEmpty_nil, Bool.and_self, if_true, posText, namedText, at_cons, List.append_nil] at h3 ⊢
        obtain ⟨hf1, hf2⟩ := follow_of_byte 41 h3.1 (by decide)
        have := nextPos_close s _ h3.1
        rw [hf2] at this
        exact ⟨_, this, by simp [h3.1], hf1, hf2, by simp [isCurrentByte, h3.1], by simp; omega⟩
      · simp only [hlast, Bool.false_eq_true, if_false, at_cons] at h2 h3
        rw [hpt]
        simp only [hlast, Bool.false_eq_true, if_false]
        obtain ⟨hf1, hf2⟩ := follow_of_byte 44 h2.1 (by decide)
        obtain ⟨b, hb, hnb⟩ := posText_head L xs hxr named hn
        have e5 : p + (inlineText L x ++ [44, 32]).length = p + (inlineText L x).length + 2 := by simp; omega
        rw [e5] at h3
        have := nextPos_comma s _ b h2.1 h2.2.1 (at_head h3 hb) hnb
        rw [hf2] at this
        exact ⟨_, this, h3, hf1, hf2, by simp [isCurrentByte, h2.1], by simp; omega⟩
    have hxlen : 1 ≤ (inlineText L x).length := by
      obtain ⟨b, hb, _⟩ := hx0.head
      cases hxt : inlineText L x with
      | nil => simp [hxt] at hb
      | cons y ys => simp
    obtain ⟨e', he, hme⟩ := hx0.parse s p k hs h1 hfol (by omega)
    rw [endPos_stay x s _ hsb] at he
    obtain ⟨xs', named', hloop, hmx, hmn⟩ := ih hxr q' k (pos0 ++ [e']) hat' (by omega)
    obtain ⟨b, hb, hnb⟩ := hx0.head
    have hb0 := at_head h1 hb
    have h41 : isCurrentByte s p 41 = false := by
      have := ((notBlank_iff b).mp hnb).2.2.2
      simp [isCurrentByte, hb0, this]
    refine ⟨e' :: xs', named', ?_, by simp [mapInl, hme, hmx], hmn⟩
    rw [getCallArgsLoop_step_pos s k pos0 p e' _ (get_lt hb0) h41 he hsb h58, hnext, hloop]
    simp only [List.append_assoc, List.singleton_append]
    congr 1
    omega

/-! ## function calls and parameterized terms -/

/-- `get_call_arguments` on `(` + the argument text -/
theorem getCallArguments_text {s : Src} (hs : AsciiThenBoundary s) (L : Nat) (pos : List (Inline Bytes))
    (hx : ∀ x ∈ pos, InlRT L x) (named : List (Bytes × Inline Bytes)) (hn : NamedOK L named)
    (hnd : (named.map Prod.fst).Nodup) (q m : Nat)
    (hat : At s q (40 :: posText L pos named.isEmpty (namedText L named)))
    (hm : 4 * (posText L pos named.isEmpty (namedText L named)).length + 4 ≤ m) :
    ∃ xs' named', getCallArguments s (m + 1) q =
        .ok (some (xs', named')) (q + 1 + (posText L pos named.isEmpty (namedText L named)).length) ∧
      mapInl (spanBytes s) xs' = pos ∧ mapNamed (spanBytes s) named' = named := by
  rw [at_cons] at hat
  obtain ⟨h40, hT⟩ := hat
  obtain ⟨xs', named', hloop, hmx, hmn⟩ := getCallArgsLoop_posT hs L pos hx named hn hnd (q + 1) m [] hT hm
  have h41 := at_last_paren hT (posText_last L pos named)
  have hTlen : 1 ≤ (posText L pos named.isEmpty (namedText L named)).length := by
    obtain ⟨pre, hpre⟩ := posText_last L pos named; rw [hpre]; simp
  obtain ⟨b, hb, hnb⟩ := posText_head L pos hx named hn
  have hca := getCallArguments_open s m q b _ _ h40 (at_head hT hb) hnb hloop h41
  refine ⟨xs', named', ?_, hmx, hmn⟩
  rw [hca]
  simp only [List.nil_append]
  congr 1
  omega

theorem inlRT_fn (L : Nat) (id : Bytes) (pos : List (Inline Bytes)) (named : List (Bytes × Inline Bytes))
    (hid : validIdent id = true) (hcallee : isCalleeName id = true) (hx : ∀ x ∈ pos, InlRT L x)
    (hn : NamedOK L named) (hnd : (named.map Prod.fst).Nodup) : InlRT L (.fn id pos named) := by
  obtain ⟨c, rest, hidc, hc, _⟩ := validIdent_head hid
  refine ⟨⟨c, by simp [inlineText, hidc], alpha_notBlank c hc⟩, fun w hw => ?_, fun s p fuel hs h hf hfuel => ?_⟩
  · obtain ⟨hb1, hw1⟩ := ws_writeTidy hw id (validIdent_tidy hid)
    obtain ⟨hb2, hw2⟩ := ws_writeTidy hw1 [40] (by decide)
    obtain ⟨w3, hs3, hb3, hw3⟩ := serArgs_rt L pos hx named hn _ false hw2
    refine ⟨w3, by rw [serInline_fn]; exact hs3, ?_, hw3⟩
    rw [hb3, hb2, hb1]
    apply Array.ext'
    simp [inlineText]
  · simp only [inlineText] at h hf hfuel ⊢
    simp only [List.length_append, List.length_cons] at hf hfuel ⊢
    obtain ⟨m, rfl⟩ : ∃ m, fuel = m + 2 := ⟨fuel - 2, by omega⟩
    rw [at_append] at h
    obtain ⟨h1, hT⟩ := h
    have h40 : s[p + id.length]? = some 40 := by rw [at_cons] at hT; exact hT.1
    obtain ⟨xs', named', hca, hmx, hmn⟩ := getCallArguments_text hs L pos hx named hn hnd (p + id.length) m hT (by omega)
    have h0 : s[p]? = some c := by rw [hidc, at_cons] at h1; exact h1.1
    obtain ⟨f1, f2, f3, f4⟩ := alpha_facts c hc
    have hstop : StopAt s (p + id.length) isIdentByte := fun c hc => by rw [h40] at hc; cases hc; decide
    have hcal : isCallee s ⟨p, p + id.length⟩ = true := by
      simp only [isCallee, at_spanBytes h1]; exact hcallee
    refine ⟨.fn ⟨p, p + id.length⟩ xs' named', ?_, by simp [Inline.mapS, at_spanBytes h1, hmx, hmn]⟩
    rw [getInline, h0]
    simp only [beq_iff_eq, f1, f2, f3, if_false, hc, if_true, Bool.false_eq_true,
      getIdentifierUnchecked_at hs p id hid h1 hstop, hca, hcal]
    simp [f4, endPos]
    omega

theorem inlRT_term_args (L : Nat) (id : Bytes) (attr : Option Bytes) (pos : List (Inline Bytes))
    (named : List (Bytes × Inline Bytes)) (hid : validIdent id = true) (hattr : optIdent attr = true)
    (hx : ∀ x ∈ pos, InlRT L x) (hn : NamedOK L named) (hnd : (named.map Prod.fst).Nodup) :
    InlRT L (.term id attr (some (pos, named))) := by
  have t1 : tidy ([45] ++ id) = true := tidy_append _ _ (validIdent_tidy hid)
  refine ⟨⟨45, by simp [inlineText], by decide⟩, fun w hw => ?_, fun s p fuel hs h hf hfuel => ?_⟩
  · obtain ⟨hb0, hw0⟩ := ws_writeTidy hw [45] (by decide)
    obtain ⟨hb1, hw1⟩ := ws_writeTidy hw0 id (validIdent_tidy hid)
    rw [serInline_term_args]
    cases attr with
    | none =>
      obtain ⟨hb2, hw2⟩ := ws_writeTidy hw1 [40] (by decide)
      obtain ⟨w3, hs3, hb3, hw3⟩ := serArgs_rt L pos hx named hn _ false hw2
      refine ⟨w3, hs3, ?_, hw3⟩
      rw [hb3, hb2, hb1, hb0]
      apply Array.ext'
      simp [inlineText, attrBytes]
    | some a =>
      simp only [optIdent] at hattr
      obtain ⟨hba, hwa⟩ := ws_writeTidy hw1 [46] (by decide)
      obtain ⟨hbb, hwb⟩ := ws_writeTidy hwa a (validIdent_tidy hattr)
      obtain ⟨hb2, hw2⟩ := ws_writeTidy hwb [40] (by decide)
      obtain ⟨w3, hs3, hb3, hw3⟩ := serArgs_rt L pos hx named hn _ false hw2
      refine ⟨w3, hs3, ?_, hw3⟩
      rw [hb3, hb2, hbb, hba, hb1, hb0]
      apply Array.ext'
      simp [inlineText, attrBytes]
  · simp only [inlineText] at h hf hfuel ⊢
    simp only [List.length_append, List.length_cons] at hf hfuel ⊢
    obtain ⟨m, rfl⟩ : ∃ m, fuel = m + 2 := ⟨fuel - 2, by omega⟩
    rw [at_cons, at_append, at_append] at h
    obtain ⟨h0, ⟨h1, h2⟩, hT⟩ := h
    simp only [List.length_append] at hT
    rw [← Nat.add_assoc] at hT
    have h40 : s[p + 1 + id.length + (attrBytes attr).length]? = some 40 := by rw [at_cons] at hT; exact hT.1
    obtain ⟨xs', named', hca, hmx, hmn⟩ := getCallArguments_text hs L pos hx named hn hnd _ m hT (by omega)
    obtain ⟨c, rest, hidc, hc, _⟩ := validIdent_head hid
    have hc0 : s[p + 1]? = some c := by rw [hidc, at_cons] at h1; exact h1.1
    have his : isIdentifierStart s (p + 1) = true := by simp [isIdentifierStart, hc0, hc]
    cases attr with
    | none =>
      simp only [attrBytes, List.length_nil, Nat.add_zero] at h40 hca ⊢
      have hstop : StopAt s (p + 1 + id.length) isIdentByte := fun c hc => by rw [h40] at hc; cases hc; decide
      have hid' := getIdentifierUnchecked_at hs (p + 1) id hid h1 hstop
      simp only [show p + 1 + 1 = p + 2 by omega] at hid'
      refine ⟨.term ⟨p + 1, p + 1 + id.length⟩ none (some (xs', named')), ?_,
        by simp [Inline.mapS, at_spanBytes h1, hmx, hmn]⟩
      rw [getInline, h0]
      simp only [his, hid', getAttributeAccessor_none s _ (by rw [h40]; decide), hca]
      simp [isDigit, endPos]
      omega
    | some a =>
      simp only [optIdent] at hattr
      simp only [attrBytes, at_cons, List.length_cons] at h2 h40 hca ⊢
      have hstop : StopAt s (p + 1 + id.length) isIdentByte := fun c hc => by rw [h2.1] at hc; cases hc; decide
      have hid' := getIdentifierUnchecked_at hs (p + 1) id hid h1 hstop
      simp only [show p + 1 + 1 = p + 2 by omega] at hid'
      have e3 : p + 1 + id.length + (a.length + 1) = p + 1 + id.length + 1 + a.length := by omega
      rw [e3] at h40 hca
      have hstop2 : StopAt s (p + 1 + id.length + 1 + a.length) isIdentByte := fun c hc => by
        rw [h40] at hc; cases hc; decide
      refine ⟨.term ⟨p + 1, p + 1 + id.length⟩ (some ⟨p + 1 + id.length + 1, p + 1 + id.length + 1 + a.length⟩)
        (some (xs', named')), ?_, by simp [Inline.mapS, at_spanBytes h1, at_spanBytes h2.2, hmx, hmn]⟩
      rw [getInline, h0]
      simp only [his, hid', getAttributeAccessor_some hs _ a hattr (by rw [at_cons]; exact h2) hstop2, hca]
      simp [isDigit, endPos]
      omega

end FluentProofs.Ser
