import FluentProofs.SerializerOutShape1
/-!
# Serializer lemmas, part 18: the loop of `get_pattern` keeps the shape invariant (C04)

Every iteration of `getPatternLoop` (text slice in the middle of a line, blank line, content line,
indentation in front of a placeable, placeable) keeps `PInv`; hence the state the loop returns
satisfies it (`patternLoop_pinv`), for sources without the byte 13.
-/
namespace FluentProofs.Ser
open FluentModel FluentModel.Syntax FluentModel.Syntax.Ser FluentProofs.Parser

/-- the common part of what `get_text_slice` guarantees, whatever the termination -/
structure SliceN (s : Src) (p1 stop : Nat) (nb : Bool) (term : Termination) (q : Nat) : Prop where
  le : p1 ≤ stop
  sz : stop ≤ s.size
  nobrace : ∀ j, p1 ≤ j → j < stop → s[j]? ≠ some 123 ∧ s[j]? ≠ some 125
  nonl : ∀ j, p1 ≤ j → j + 1 < stop → s[j]? ≠ some 10
  lf : term = .lineFeed → p1 < stop ∧ s[stop - 1]? = some 10 ∧ q = stop ∧ nb = nonBlank s p1 (stop - 1)
  pl : term = .placeableStart → s[stop]? = some 123 ∧ q = stop ∧ nb = nonBlank s p1 stop ∧ (p1 < stop → s[stop - 1]? ≠ some 10)
  eof : term = .eof → stop = s.size ∧ q = s.size ∧ nb = nonBlank s p1 stop ∧ (p1 < stop → s[stop - 1]? ≠ some 10)
  nocrlf : term ≠ .crlf

theorem sliceN {s : Src} (hcr : NoCR s) {p1 start stop : Nat} {nb : Bool} {term : Termination} {q : Nat}
    (hp : p1 ≤ s.size) (h : getTextSlice s p1 = .ok (start, stop, nb, term) q) :
    start = p1 ∧ SliceN s p1 stop nb term q := by
  obtain ⟨h1, h2, h3⟩ := getTextSlice_nocr hcr hp h
  refine ⟨h1, ?_⟩
  rcases h3 with ⟨rfl, a, b, c, d, e⟩ | ⟨rfl, a, b, c, d, e⟩ | ⟨rfl, a, b, c, d, e⟩
  · exact {
      le := by omega
      sz := h2
      nobrace := by
        intro j j1 j2
        by_cases hj : j < stop - 1
        · exact (e j j1 hj).2
        · have : j = stop - 1 := by omega
          subst this; rw [b]; exact ⟨by decide, by decide⟩
      nonl := fun j j1 j2 => (e j j1 (by omega)).1
      lf := fun _ => ⟨a, b, c, d⟩
      pl := fun h => by cases h
      eof := fun h => by cases h
      nocrlf := fun h => by cases h }
  · exact {
      le := a
      sz := h2
      nobrace := fun j j1 j2 => (e j j1 j2).2
      nonl := fun j j1 j2 => (e j j1 (by omega)).1
      lf := fun h => by cases h
      pl := fun _ => ⟨b, c, d, fun hlt => (e (stop - 1) (by omega) (by omega)).1⟩
      eof := fun h => by cases h
      nocrlf := fun h => by cases h }
  · exact {
      le := a
      sz := h2
      nobrace := fun j j1 j2 => (e j j1 j2).2
      nonl := fun j j1 j2 => (e j j1 (by omega)).1
      lf := fun h => by cases h
      pl := fun h => by cases h
      eof := fun _ => ⟨b, c, d, fun hlt => (e (stop - 1) (by omega) (by omega)).1⟩
      nocrlf := fun h => by cases h }

/-- role and cursor after a text placeholder that is not a ghost -/
theorem roleOK_after_text {s : Src} {p1 stop : Nat} {nb : Bool} {term : Termination} {q : Nat}
    (hS : SliceN s p1 stop nb term q) (hlt : p1 < stop) (a ind : Nat) (role : TextPos)
    (hg : isGhost a stop ind role = false) : RoleOK s (nxt s (.text a stop ind role)) (pRoleOf term) q := by
  simp only [nxt, hg, Bool.false_eq_true, if_false]
  cases term with
  | lineFeed =>
    obtain ⟨_, h2, _, _⟩ := hS.lf rfl
    simp [endsLF, h2, RoleOK, pRoleOf]
  | crlf => exact absurd rfl hS.nocrlf
  | placeableStart =>
    obtain ⟨h1, h2, _, h4⟩ := hS.pl rfl
    have := h4 hlt
    simp only [endsLF, beq_iff_eq, this, if_false, RoleOK, pRoleOf]
    subst h2
    exact ⟨trivial, Or.inl h1⟩
  | eof =>
    obtain ⟨h1, h2, _, h4⟩ := hS.eof rfl
    have := h4 hlt
    simp only [endsLF, beq_iff_eq, this, if_false, RoleOK, pRoleOf]
    subst h2
    exact ⟨trivial, Or.inr (Nat.le_refl _)⟩

theorem textBytes_of {s : Src} (hcr : NoCR s) {p p1 stop : Nat} {nb : Bool} {term : Termination} {q : Nat}
    (hS : SliceN s p1 stop nb term q) (hsp : ∀ j, p ≤ j → j < p1 → s[j]? = some 32) : TextBytes s p stop := by
  refine ⟨hS.sz, ?_, ?_, fun j _ _ h13 => absurd h13 (hcr j)⟩
  · intro j j1 j2
    by_cases hj : j < p1
    · rw [hsp j j1 hj]; exact ⟨by decide, by decide⟩
    · exact hS.nobrace j (by omega) j2
  · intro j j1 j2
    by_cases hj : j < p1
    · rw [hsp j j1 hj]; decide
    · exact hS.nonl j (by omega) j2

/-- **a text slice in the middle of a line** (after a placeable, or the first line of an inline pattern) -/
theorem step_mid {s : Src} (hcr : NoCR s) {r0 : TextPos} {st : PatState} {p : Nat} (hI : PInv s r0 st p)
    (hp : p < s.size) (h123 : s[p]? ≠ some 123) (hr : (st.role == .lineStart) = false)
    {start stop : Nat} {nb : Bool} {term : Termination} {q : Nat} {st2 : PatState}
    (hts : getTextSlice s p = .ok (start, stop, nb, term) q)
    (h2 : st2Of s st p 0 start stop nb term = some st2) : PInv s r0 { st2 with role := pRoleOf term } q := by
  obtain ⟨rfl, hS⟩ := sliceN hcr (Nat.le_of_lt hp) hts
  have hlt : start < stop := by
    cases term with
    | lineFeed => exact (hS.lf rfl).1
    | crlf => exact absurd rfl hS.nocrlf
    | placeableStart =>
      have h1 := (hS.pl rfl).1
      have h2' := hS.le
      by_cases h : start = stop
      · subst h; exact absurd h1 h123
      · omega
    | eof => have := (hS.eof rfl).1; omega
  have hne : (start != stop) = true := by simp; omega
  have hg : isGhost start stop 0 st.role = false := by simp [isGhost, hr]
  have hTB := textBytes_of (p := start) hcr hS (fun j j1 j2 => by omega)
  have hr' : st.role ≠ .lineStart := by simpa using hr
  refine text_push hI h2 (by simp [hne]) (by simp [hr, hr']) (.text start stop 0 st.role) (by simp [elOf, hr]) ?_ ?_
    (surv_of_survives (by omega)) (roleOK_after_text hS hlt start 0 st.role hg)
  · rcases roleOK_nls hI.role hr hp h123 with ⟨hE, hrole, hc⟩ | ⟨hE, hrole⟩
    · rw [hE]
      have hsome : s[start]? = some s[start] := by simp [hp]
      exact ⟨hrole, hlt, hTB, _, hsome, hc _ hsome⟩
    · rw [hE]; exact ⟨hrole, hlt, hTB⟩
  · simp only [hr, Bool.false_and, Bool.false_eq_true, if_false, lineInd, List.append_nil]
    exact hI.ci

/-! ## slices at a line start -/

theorem slice_at_nl {s : Src} {p1 stop : Nat} {nb : Bool} {term : Termination} {q : Nat}
    (hS : SliceN s p1 stop nb term q) (h10 : s[p1]? = some 10) :
    term = .lineFeed ∧ stop = p1 + 1 ∧ q = p1 + 1 ∧ nb = false := by
  cases term with
  | lineFeed =>
    obtain ⟨h1, _, h3, h4⟩ := hS.lf rfl
    have : stop = p1 + 1 := by
      by_cases h : p1 + 1 < stop
      · exact absurd h10 (hS.nonl p1 (Nat.le_refl _) h)
      · omega
    subst this
    exact ⟨rfl, rfl, h3, by rw [h4]; simp [nonBlank_self]⟩
  | crlf => exact absurd rfl hS.nocrlf
  | placeableStart =>
    exfalso
    obtain ⟨h1, _, _, h4⟩ := hS.pl rfl
    have hle := hS.le
    by_cases h : p1 = stop
    · subst h; rw [h10] at h1; cases h1
    · by_cases h' : p1 + 1 < stop
      · exact hS.nonl p1 (Nat.le_refl _) h' h10
      · have : stop - 1 = p1 := by omega
        exact h4 (by omega) (by rw [this]; exact h10)
  | eof =>
    exfalso
    obtain ⟨h1, _, _, h4⟩ := hS.eof rfl
    have hlt := get_lt h10
    by_cases h' : p1 + 1 < stop
    · exact hS.nonl p1 (Nat.le_refl _) h' h10
    · have : stop - 1 = p1 := by omega
      exact h4 (by omega) (by rw [this]; exact h10)

theorem slice_at_brace {s : Src} {p1 stop : Nat} {nb : Bool} {term : Termination} {q : Nat}
    (hS : SliceN s p1 stop nb term q) (h123 : s[p1]? = some 123) :
    term = .placeableStart ∧ stop = p1 ∧ q = p1 ∧ nb = false := by
  have hle := hS.le
  have hstop : stop = p1 := by
    by_cases h : p1 < stop
    · exact absurd h123 (hS.nobrace p1 (Nat.le_refl _) h).1
    · omega
  subst hstop
  cases term with
  | lineFeed => have := (hS.lf rfl).1; omega
  | crlf => exact absurd rfl hS.nocrlf
  | placeableStart =>
    obtain ⟨_, h2, h3, _⟩ := hS.pl rfl
    exact ⟨rfl, rfl, h2, by rw [h3]; exact nonBlank_self s stop⟩
  | eof => have := (hS.eof rfl).1; have := get_lt h123; omega

theorem slice_at_content {s : Src} {p1 stop : Nat} {nb : Bool} {term : Termination} {q : Nat} {b : UInt8}
    (hS : SliceN s p1 stop nb term q) (hb : s[p1]? = some b) (h32 : b ≠ 32) (h10 : b ≠ 10) (h123 : b ≠ 123) :
    p1 < stop ∧ nb = true := by
  have hle := hS.le
  have hlt := get_lt hb
  cases term with
  | lineFeed =>
    obtain ⟨h1, h2, _, h4⟩ := hS.lf rfl
    refine ⟨h1, ?_⟩
    rw [h4]
    refine nonBlank_first ?_ hb h32
    by_cases h : p1 = stop - 1
    · rw [← h, hb] at h2; cases h2; exact absurd rfl h10
    · omega
  | crlf => exact absurd rfl hS.nocrlf
  | placeableStart =>
    obtain ⟨h1, _, h3, _⟩ := hS.pl rfl
    have : p1 < stop := by
      by_cases h : p1 = stop
      · subst h; rw [hb] at h1; cases h1; exact absurd rfl h123
      · omega
    exact ⟨this, by rw [h3]; exact nonBlank_first this hb h32⟩
  | eof =>
    obtain ⟨h1, _, h3, _⟩ := hS.eof rfl
    have : p1 < stop := by omega
    exact ⟨this, by rw [h3]; exact nonBlank_first this hb h32⟩

/-! ## the three kinds of line starts -/

/-- **a blank line** -/
theorem step_blank {s : Src} {r0 : TextPos} {st : PatState} {p : Nat} (hI : PInv s r0 st p)
    (hr : st.role = .lineStart) {indent p1 : Nat} (hp1 : p1 = skipBlankInline s p) (h10 : s[p1]? = some 10)
    {start stop : Nat} {nb : Bool} {term : Termination} {q : Nat} {st2 : PatState}
    (hst : start = p1) (hS : SliceN s p1 stop nb term q)
    (h2 : st2Of s st p indent start stop nb term = some st2) : PInv s r0 { st2 with role := pRoleOf term } q := by
  obtain ⟨rfl, rfl, rfl, rfl⟩ := slice_at_nl hS h10
  subst hst
  have hE : endSt s (.first r0) st.elements = .afterNl := by
    rcases roleOK_ls hI.role hr with ⟨_, h⟩ | h
    · rw [← hp1] at h; exact absurd h10 h
    · exact h
  refine text_push hI h2 (by simp) (by simp) (.text start (start + 1) 0 st.role)
    (by simp [elOf, hr, usub]) ?_ ?_ (by simp [survivesOf]) ?_
  · rw [hE]; exact ⟨hr, Or.inr (Or.inr ⟨rfl, rfl, h10⟩)⟩
  · simp only [hr, Bool.false_or, Bool.and_false, Bool.false_eq_true, if_false, lineInd, isBlankPh, h10,
      beq_self_eq_true, Bool.and_self, Bool.not_true, List.append_nil]
    simpa using hI.ci
  · have : nxt s (.text start (start + 1) 0 st.role) = .afterNl := by
      simp [nxt, isGhost, endsLF, h10]
    rw [this]; simp [RoleOK, pRoleOf]

/-- **the indentation in front of a placeable that starts a line** -/
theorem step_ghost {s : Src} {r0 : TextPos} {st : PatState} {p : Nat} (hI : PInv s r0 st p)
    (hr : st.role = .lineStart) {indent p1 : Nat} (hind : p + indent = p1) (hpos : 0 < indent)
    (hsp : ∀ j, p ≤ j → j < p1 → s[j]? = some 32) (h123 : s[p1]? = some 123)
    {start stop : Nat} {nb : Bool} {term : Termination} {q : Nat} {st2 : PatState}
    (hst : start = p1) (hS : SliceN s p1 stop nb term q)
    (h2 : st2Of s st p indent start stop nb term = some st2) : PInv s r0 { st2 with role := pRoleOf term } q := by
  obtain ⟨rfl, rfl, rfl, rfl⟩ := slice_at_brace hS h123
  subst hst
  have hlt := get_lt h123
  have hgl : GhostLine s p start indent := ⟨by omega, by omega, hsp⟩
  refine text_push hI h2 (by simp [hr]) (by simp [hr]) (.text p start indent st.role)
    (by simp [elOf, hr]) ?_ ?_ (by simp [survivesOf]) ?_
  · rcases roleOK_ls hI.role hr with ⟨h, _⟩ | h
    · rw [h]; exact ⟨hr, Or.inr hgl⟩
    · rw [h]; exact ⟨hr, Or.inr (Or.inl hgl)⟩
  · have hb : isBlankPh s p start indent = false := by
      simp only [isBlankPh, Bool.and_eq_false_iff, beq_eq_false_iff_ne]; left; left; omega
    simp only [hr, beq_self_eq_true, Bool.and_self, Bool.or_true, if_true, lineInd, hb, Bool.not_false]
    rw [minL_snoc, ← hI.ci]
  · have : nxt s (.text p start indent st.role) = .afterGhost := by
      simp [nxt, isGhost, hr]; omega
    rw [this]; simp [RoleOK, pRoleOf, h123]

/-- **a line with content** -/
theorem step_content {s : Src} (hcr : NoCR s) {r0 : TextPos} {st : PatState} {p : Nat} (hI : PInv s r0 st p)
    (hr : st.role = .lineStart) {indent p1 : Nat} (hind : p + indent = p1) (hpos : 0 < indent)
    (hsp : ∀ j, p ≤ j → j < p1 → s[j]? = some 32) {b : UInt8} (hb : s[p1]? = some b)
    (h32 : b ≠ 32) (h10 : b ≠ 10) (h123 : b ≠ 123) (hcont : b ≠ 46 ∧ b ≠ 125 ∧ b ≠ 91 ∧ b ≠ 42)
    {start stop : Nat} {nb : Bool} {term : Termination} {q : Nat} {st2 : PatState}
    (hst : start = p1) (hS : SliceN s p1 stop nb term q)
    (h2 : st2Of s st p indent start stop nb term = some st2) : PInv s r0 { st2 with role := pRoleOf term } q := by
  obtain ⟨hlt, rfl⟩ := slice_at_content hS hb h32 h10 h123
  subst hst
  have hne : (start == stop) = false := by simp; omega
  have hcl : ContentLine s p stop indent :=
    ⟨by omega, fun j j1 j2 => hsp j j1 (by omega), ⟨b, by rw [hind]; exact hb, h32, h10, hcont.1, hcont.2.2.1, hcont.2.2.2⟩,
      textBytes_of hcr hS hsp⟩
  have hg : isGhost p stop indent st.role = false := by simp [isGhost]; intro _; omega
  have hne' : start ≠ stop := by omega
  refine text_push hI h2 (by simp [hne']) (by simp) (.text p stop indent st.role)
    (by simp [elOf]) ?_ ?_ (surv_of_survives (by omega)) (roleOK_after_text hS hlt p indent st.role hg)
  · rcases roleOK_ls hI.role hr with ⟨h, _⟩ | h
    · rw [h]; exact ⟨hr, Or.inl hcl⟩
    · rw [h]; exact ⟨hr, Or.inl hcl⟩
  · have hbl : isBlankPh s p stop indent = false := by
      simp only [isBlankPh, Bool.and_eq_false_iff, beq_eq_false_iff_ne]; left; left; omega
    simp only [hr, beq_self_eq_true, Bool.true_or, Bool.and_self, if_true, lineInd, hbl, Bool.not_false]
    rw [minL_snoc, ← hI.ci]

/-! ## the loop -/

/-- one text step, whatever the kind -/
theorem step_text {s : Src} (hcr : NoCR s) {r0 : TextPos} {st : PatState} {p : Nat} (hI : PInv s r0 st p)
    (hp : p < s.size) (h123 : s[p]? ≠ some 123) {indent p1 : Nat} (hpre : preOf s st p = some (indent, p1))
    {start stop : Nat} {nb : Bool} {term : Termination} {q : Nat} {st2 : PatState}
    (hts : getTextSlice s p1 = .ok (start, stop, nb, term) q)
    (h2 : st2Of s st p indent start stop nb term = some st2) : PInv s r0 { st2 with role := pRoleOf term } q := by
  rcases preOf_facts hcr hpre with ⟨hr, hp1, hind, b, hb, h32, hz, hpos⟩ | ⟨hr, rfl, rfl⟩
  · have hsz : p1 ≤ s.size := Nat.le_of_lt (get_lt hb)
    obtain ⟨hst, hS⟩ := sliceN hcr hsz hts
    have hsp : ∀ j, p ≤ j → j < p1 → s[j]? = some 32 := by rw [hp1]; exact skipBlankInline_spaces s p
    by_cases h10 : b = 10
    · subst h10; exact step_blank hI hr hp1 hb hst hS h2
    · have hi : 0 < indent := by
        rcases Nat.eq_zero_or_pos indent with h | h
        · exact absurd (hz h) h10
        · exact h
      by_cases hb123 : b = 123
      · subst hb123; exact step_ghost hI hr hind hi hsp hb hst hS h2
      · exact step_content hcr hI hr hind hi hsp hb h32 h10 hb123 (hpos hi) hst hS h2
  · exact step_mid hcr hI hp h123 hr hts h2

theorem stepMin_zero (c : Option Nat) : stepMin c 0 = some 0 := by
  cases c with
  | none => rfl
  | some c => simp [stepMin]

/-- **the loop of `get_pattern` keeps the shape invariant** -/
theorem patternLoop_pinv {s : Src} (hcr : NoCR s) (r0 : TextPos) :
    ∀ (n : Nat) (st : PatState) (p : Nat) (st' : PatState) (q : Nat), PInv s r0 st p →
      getPatternLoop s n st p = .ok st' q → ∃ p', PInv s r0 st' p' := by
  intro n
  induction n with
  | zero => intro st p st' q _ h; simp [getPatternLoop] at h
  | succ n ih =>
    intro st p st' q hI h
    by_cases hp : p < s.size
    · by_cases h123 : s[p]? = some 123
      · cases hpl : getPlaceable s n (p + 1) with
        | ok e q1 =>
          rw [loop_placeable s n st p hp h123 hpl] at h
          refine ih _ _ _ _ ?_ h
          have hnl := roleOK_nl hI.role
          have key := push_pinv hI (.placeable e) (if st.role == .lineStart then some 0 else st.commonIndent) true
            .continuation q1 (by cases endSt s (.first r0) st.elements <;> trivial)
            (by
              simp only [lineInd, ← hnl]
              split
              · rw [minL_snoc, ← hI.ci, stepMin_zero]
              · rw [List.append_nil]; exact hI.ci)
            (fun _ => trivial) (by simp [nxt, RoleOK])
          simp only [if_true] at key
          exact key
        | err e q1 =>
          have hc : isCurrentByte s p 123 = true := by simp [isCurrentByte, h123]
          simp [getPatternLoop, hp, hc, hpl] at h
        | panic m =>
          have hc : isCurrentByte s p 123 = true := by simp [isCurrentByte, h123]
          simp [getPatternLoop, hp, hc, hpl] at h
        | fuel =>
          have hc : isCurrentByte s p 123 = true := by simp [isCurrentByte, h123]
          simp [getPatternLoop, hp, hc, hpl] at h
      · have hc : isCurrentByte s p 123 = false := by simpa [isCurrentByte] using h123
        rw [loop_unfold s n st p hp hc] at h
        cases hpre : preOf s st p with
        | none =>
          simp only [hpre] at h
          cases h
          exact ⟨p, hI⟩
        | some ip =>
          obtain ⟨indent, p1⟩ := ip
          simp only [hpre] at h
          cases hts : getTextSlice s p1 with
          | ok v q1 =>
            obtain ⟨start, stop, nb, term⟩ := v
            simp only [hts] at h
            cases h2 : st2Of s st p indent start stop nb term with
            | none => simp [h2] at h
            | some st2 =>
              simp only [h2] at h
              exact ih _ _ _ _ (step_text hcr hI hp h123 hpre hts h2) h
          | err e q1 => simp [hts] at h
          | panic m => simp [hts] at h
          | fuel => simp [hts] at h
    · have : getPatternLoop s (n + 1) st p = .ok st p := by
        simp only [getPatternLoop, hp, if_false]
      rw [this] at h
      cases h
      exact ⟨p, hI⟩

end FluentProofs.Ser
