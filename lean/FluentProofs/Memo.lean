import FluentModel.Memo
/-!
Lemmas for C14, part 1: finite-map laws and one `IntlLangMemoizer` (sequential histories).
-/
namespace FluentModel.Memo
set_option linter.unusedSectionVars false

/-! ### association lists are finite maps -/
section AList
variable {κ β : Type} [DecidableEq κ]

theorem aget_aset (m : List (κ × β)) (k : κ) (v : β) (k' : κ) :
    aget (aset m k v) k' = if k' = k then some v else aget m k' := by
  induction m with
  | nil =>
    by_cases h : k' = k
    · subst h; simp [aset, aget]
    · have : ¬ k = k' := fun e => h e.symm
      simp [aset, aget, h, this]
  | cons p r ih =>
    obtain ⟨k₁, v₁⟩ := p
    by_cases h1 : k₁ = k
    · subst h1
      by_cases h : k' = k₁
      · subst h; simp [aset, aget]
      · have : ¬ k₁ = k' := fun e => h e.symm
        simp [aset, aget, h, this]
    · by_cases h : k' = k
      · subst h; simp [aset, aget, h1, ih]
      · simp [aset, aget, h1, ih, h]

theorem aget_aerase (m : List (κ × β)) (k k' : κ) :
    aget (aerase m k) k' = if k' = k then none else aget m k' := by
  induction m with
  | nil => simp [aerase, aget]
  | cons p r ih =>
    obtain ⟨k₁, v₁⟩ := p
    unfold aerase at ih ⊢
    by_cases h1 : k₁ = k
    · subst h1
      by_cases h : k' = k₁
      · subst h; simpa [List.filter_cons] using ih
      · have : ¬ k₁ = k' := fun e => h e.symm
        simpa [List.filter_cons, aget, this, h] using ih
    · by_cases h : k' = k
      · subst h
        simp only [List.filter_cons, ne_eq, h1, not_false_eq_true, decide_true, if_true, aget, if_false]
        simpa using ih
      · simp only [List.filter_cons, ne_eq, h1, not_false_eq_true, decide_true, if_true, aget]
        rw [ih]; simp [h]

end AList

section Lang
variable {σ L τ α ι ε ρ : Type} [DecidableEq τ] [DecidableEq α]

theorem cacheOf_aset (m : List (τ × List (α × ι))) (t : τ) (c : List (α × ι)) (t' : τ) :
    cacheOf (aset m t c) t' = if t' = t then c else cacheOf m t' := by
  unfold cacheOf
  rw [aget_aset]
  by_cases h : t' = t <;> simp [h]

/-- writing the per-type cache back unchanged (`or_insert_with` / `into_mut`) changes no lookup -/
theorem find_touch (m : List (τ × List (α × ι))) (t t' : τ) (a : α) :
    find (aset m t (cacheOf m t)) t' a = find m t' a := by
  unfold find
  rw [cacheOf_aset]
  by_cases h : t' = t <;> simp [h]

/-- `entry.insert(val)` -/
theorem find_insert (m : List (τ × List (α × ι))) (t t' : τ) (a a' : α) (i : ι) :
    find (aset m t (aset (cacheOf m t) a i)) t' a' =
      if t' = t ∧ a' = a then some i else find m t' a' := by
  unfold find
  rw [cacheOf_aset]
  by_cases h : t' = t
  · subst h
    simp only [if_true, true_and]
    rw [aget_aset]
  · simp [h]

variable (X : Ext σ L τ α ι ε) (lang : L) (m : LMemo L τ α ι ε) (w : σ) (op : Op σ τ α ι ρ)

/-- cache hit: no construction, callback against the cached instance, result returned unchanged -/
theorem withTryGet_hit {i : ι} (h : find m.map op.ty op.args = some i) :
    (withTryGet X lang m w op).out = .ok (op.cb i w).1 ∧
    (withTryGet X lang m w op).ev = none ∧
    (withTryGet X lang m w op).world = (op.cb i w).2 ∧
    (withTryGet X lang m w op).memo.log = m.log ∧
    (withTryGet X lang m w op).memo.calls = (op.ty, op.args, i) :: m.calls ∧
    ∀ t a, find (withTryGet X lang m w op).memo.map t a = find m.map t a := by
  unfold find at h
  unfold withTryGet
  simp only [h]
  refine ⟨by trivial, by trivial, by trivial, by trivial, by trivial, ?_⟩
  intro t a
  exact find_touch m.map op.ty t a

/-- cache miss, construction fails: the error is returned, nothing is cached, no callback runs -/
theorem withTryGet_miss_err {e : ε} (h : find m.map op.ty op.args = none)
    (hc : (X.construct w lang op.ty op.args).1 = .error e) :
    (withTryGet X lang m w op).out = .err e ∧
    (withTryGet X lang m w op).ev = some ⟨lang, op.ty, op.args, .error e⟩ ∧
    (withTryGet X lang m w op).world = (X.construct w lang op.ty op.args).2 ∧
    (withTryGet X lang m w op).memo.log = ⟨lang, op.ty, op.args, .error e⟩ :: m.log ∧
    (withTryGet X lang m w op).memo.calls = m.calls ∧
    ∀ t a, find (withTryGet X lang m w op).memo.map t a = find m.map t a := by
  unfold find at h
  unfold withTryGet
  simp only [h, hc]
  refine ⟨by trivial, by trivial, by trivial, by trivial, by trivial, ?_⟩
  intro t a
  exact find_touch m.map op.ty t a

/-- cache miss, construction succeeds: constructed with the memoizer's language and exactly the looked-up
arguments, cached under exactly that key, callback against the new instance -/
theorem withTryGet_miss_ok {i : ι} (h : find m.map op.ty op.args = none)
    (hc : (X.construct w lang op.ty op.args).1 = .ok i) :
    (withTryGet X lang m w op).out = .ok (op.cb i (X.construct w lang op.ty op.args).2).1 ∧
    (withTryGet X lang m w op).ev = some ⟨lang, op.ty, op.args, .ok i⟩ ∧
    (withTryGet X lang m w op).world = (op.cb i (X.construct w lang op.ty op.args).2).2 ∧
    (withTryGet X lang m w op).memo.log = ⟨lang, op.ty, op.args, .ok i⟩ :: m.log ∧
    (withTryGet X lang m w op).memo.calls = (op.ty, op.args, i) :: m.calls ∧
    ∀ t a, find (withTryGet X lang m w op).memo.map t a =
      if t = op.ty ∧ a = op.args then some i else find m.map t a := by
  unfold find at h
  unfold withTryGet
  simp only [h, hc]
  refine ⟨by trivial, by trivial, by trivial, by trivial, by trivial, ?_⟩
  intro t a
  exact find_insert m.map op.ty t op.args a i

/-- the three cases are exhaustive -/
theorem withTryGet_cases :
    (∃ i, find m.map op.ty op.args = some i) ∨
    (find m.map op.ty op.args = none ∧ ∃ e, (X.construct w lang op.ty op.args).1 = .error e) ∨
    (find m.map op.ty op.args = none ∧ ∃ i, (X.construct w lang op.ty op.args).1 = .ok i) := by
  cases h : find m.map op.ty op.args with
  | some i => exact Or.inl ⟨i, rfl⟩
  | none =>
    cases hc : (X.construct w lang op.ty op.args).1 with
    | error e => exact Or.inr (Or.inl ⟨rfl, e, rfl⟩)
    | ok i => exact Or.inr (Or.inr ⟨rfl, i, rfl⟩)

/-! ### the invariant of one language memoizer -/

/-- successful construct events for key `(t, a)` -/
def okEvents (m : LMemo L τ α ι ε) (t : τ) (a : α) : List (Event L τ α ι ε) :=
  m.log.filter fun e => e.okFor t a

/-- * every construct event carries the memoizer's language;
    * a key that is not cached has no successful construct event, a cached key has exactly one, and it is the
      event that produced the cached instance (constructed with that key's type and arguments);
    * every callback that ever ran for a key ran against the instance cached for that key. -/
structure LInv (lang : L) (m : LMemo L τ α ι ε) : Prop where
  lang_ok : ∀ e ∈ m.log, e.lang = lang
  cached : ∀ t a, match find m.map t a with
    | none => okEvents m t a = []
    | some i => okEvents m t a = [⟨lang, t, a, .ok i⟩]
  calls_ok : ∀ t a i, (t, a, i) ∈ m.calls → find m.map t a = some i

theorem LInv_empty : LInv lang (LMemo.empty : LMemo L τ α ι ε) := by
  refine ⟨?_, ?_, ?_⟩
  · intro e he; simp [LMemo.empty] at he
  · intro t a; simp [LMemo.empty, find, cacheOf, aget, okEvents]
  · intro t a i h; simp [LMemo.empty] at h

theorem okFor_err (t t' : τ) (a a' : α) (e : ε) :
    Event.okFor (⟨lang, t, a, .error e⟩ : Event L τ α ι ε) t' a' = false := by
  simp [Event.okFor]

theorem okFor_ok (t t' : τ) (a a' : α) (i : ι) :
    Event.okFor (⟨lang, t, a, .ok i⟩ : Event L τ α ι ε) t' a' = (decide (t = t') && decide (a = a')) := by
  simp [Event.okFor]

/-- **the invariant is preserved by every `with_try_get`** -/
theorem LInv_step (hi : LInv lang m) : LInv lang (withTryGet X lang m w op).memo := by
  rcases withTryGet_cases X lang m w op with ⟨i, h⟩ | ⟨h, e, hc⟩ | ⟨h, i, hc⟩
  · obtain ⟨_, _, _, hlog, hcalls, hfind⟩ := withTryGet_hit X lang m w op h
    refine ⟨?_, ?_, ?_⟩
    · rw [hlog]; exact hi.lang_ok
    · intro t a
      have := hi.cached t a
      rw [hfind]; unfold okEvents at this ⊢; rw [hlog]; exact this
    · intro t a i' hm
      rw [hcalls] at hm
      rw [hfind]
      rcases List.mem_cons.1 hm with heq | hm
      · cases heq; exact h
      · exact hi.calls_ok t a i' hm
  · obtain ⟨_, _, _, hlog, hcalls, hfind⟩ := withTryGet_miss_err X lang m w op h hc
    refine ⟨?_, ?_, ?_⟩
    · rw [hlog]; intro e' he'
      rcases List.mem_cons.1 he' with rfl | he'
      · rfl
      · exact hi.lang_ok e' he'
    · intro t a
      have := hi.cached t a
      rw [hfind]; unfold okEvents at this ⊢; rw [hlog, List.filter_cons, okFor_err]
      simpa using this
    · intro t a i' hm
      rw [hcalls] at hm; rw [hfind]; exact hi.calls_ok t a i' hm
  · obtain ⟨_, _, _, hlog, hcalls, hfind⟩ := withTryGet_miss_ok X lang m w op h hc
    refine ⟨?_, ?_, ?_⟩
    · rw [hlog]; intro e' he'
      rcases List.mem_cons.1 he' with rfl | he'
      · rfl
      · exact hi.lang_ok e' he'
    · intro t a
      have hold := hi.cached t a
      rw [hfind]; unfold okEvents at hold ⊢; rw [hlog, List.filter_cons, okFor_ok]
      by_cases hk : t = op.ty ∧ a = op.args
      · obtain ⟨rfl, rfl⟩ := hk
        rw [h] at hold
        simp only [and_self, if_true, decide_true, Bool.and_self]
        simp only [hold]
      · have hk' : (decide (op.ty = t) && decide (op.args = a)) = false := by
          rcases Classical.not_and_iff_not_or_not.1 hk with h1 | h1
          · have : ¬ op.ty = t := fun e => h1 e.symm
            simp [this]
          · have : ¬ op.args = a := fun e => h1 e.symm
            simp [this]
        simp only [hk, if_false, hk']
        simpa using hold
    · intro t a i' hm
      rw [hcalls] at hm; rw [hfind]
      rcases List.mem_cons.1 hm with heq | hm
      · cases heq; simp
      · have hf := hi.calls_ok t a i' hm
        by_cases hk : t = op.ty ∧ a = op.args
        · obtain ⟨rfl, rfl⟩ := hk
          rw [h] at hf; cases hf
        · simp [hk, hf]

theorem LInv_runOps (ops : List (Op σ τ α ι ρ)) (hi : LInv lang m) :
    LInv lang (runOps X lang ops m w).2.1 := by
  induction ops generalizing m w with
  | nil => exact hi
  | cons op rest ih =>
    simp only [runOps]
    exact ih _ _ (LInv_step X lang m w op hi)

/-- consequence of the invariant: at most one successful construction per key -/
theorem LInv.at_most_once {lang : L} {m : LMemo L τ α ι ε} (hi : LInv lang m) (t : τ) (a : α) :
    (okEvents m t a).length ≤ 1 := by
  have := hi.cached t a
  cases h : find m.map t a with
  | none => rw [h] at this; simp [this]
  | some i => rw [h] at this; simp [this]

/-- consequence of the invariant: the instance a callback saw is the one the (unique) successful construction
for its key returned -/
theorem LInv.call_instance {lang : L} {m : LMemo L τ α ι ε} (hi : LInv lang m) (t : τ) (a : α) (i : ι)
    (h : (t, a, i) ∈ m.calls) : okEvents m t a = [⟨lang, t, a, .ok i⟩] := by
  have := hi.cached t a
  rw [hi.calls_ok t a i h] at this
  exact this

/-! ### memoization is transparent when `construct` is a function of (language, type, arguments) -/

/-- every cached instance is what the pure `construct` returns for its key -/
def PInv (f : L → τ → α → Except ε ι) (lang : L) (m : LMemo L τ α ι ε) : Prop :=
  ∀ t a i, find m.map t a = some i → f lang t a = .ok i

theorem PInv_empty (f : L → τ → α → Except ε ι) : PInv f lang (LMemo.empty : LMemo L τ α ι ε) := by
  intro t a i h; simp [LMemo.empty, find, cacheOf, aget] at h

theorem PInv_step (f : L → τ → α → Except ε ι) (hpure : ∀ w l t a, (X.construct w l t a).1 = f l t a)
    (hp : PInv f lang m) : PInv f lang (withTryGet X lang m w op).memo := by
  rcases withTryGet_cases X lang m w op with ⟨i, h⟩ | ⟨h, e, hc⟩ | ⟨h, i, hc⟩
  · obtain ⟨_, _, _, _, _, hfind⟩ := withTryGet_hit X lang m w op h
    intro t a i' hf; rw [hfind] at hf; exact hp t a i' hf
  · obtain ⟨_, _, _, _, _, hfind⟩ := withTryGet_miss_err X lang m w op h hc
    intro t a i' hf; rw [hfind] at hf; exact hp t a i' hf
  · obtain ⟨_, _, _, _, _, hfind⟩ := withTryGet_miss_ok X lang m w op h hc
    intro t a i' hf; rw [hfind] at hf
    by_cases hk : t = op.ty ∧ a = op.args
    · obtain ⟨rfl, rfl⟩ := hk
      simp at hf; subst hf
      rw [← hpure w]; exact hc
    · simp [hk] at hf; exact hp t a i' hf

/-- the outcome of a lookup does not depend on the cache: it is the callback applied to what `construct`
returns for the key, or `construct`'s error -/
theorem lookup_eq_construct_step (f : L → τ → α → Except ε ι)
    (hpure : ∀ w l t a, (X.construct w l t a).1 = f l t a) (hp : PInv f lang m) :
    match f lang op.ty op.args with
    | .ok i => ∃ w', (withTryGet X lang m w op).out = .ok (op.cb i w').1
    | .error e => (withTryGet X lang m w op).out = .err e := by
  rcases withTryGet_cases X lang m w op with ⟨i, h⟩ | ⟨h, e, hc⟩ | ⟨h, i, hc⟩
  · rw [hp _ _ _ h]
    exact ⟨w, (withTryGet_hit X lang m w op h).1⟩
  · rw [← hpure w, hc]
    exact (withTryGet_miss_err X lang m w op h hc).1
  · rw [← hpure w, hc]
    exact ⟨_, (withTryGet_miss_ok X lang m w op h hc).1⟩

/-- the transparent outcome of one lookup -/
def pureOutcome (f : L → τ → α → Except ε ι) (lang : L) (w₀ : σ) (op : Op σ τ α ι ρ) : Outcome ε ρ :=
  match f lang op.ty op.args with
  | .ok i => .ok (op.cb i w₀).1
  | .error e => .err e

theorem lookup_eq_construct_run (f : L → τ → α → Except ε ι)
    (hpure : ∀ w l t a, (X.construct w l t a).1 = f l t a) (w₀ : σ)
    (ops : List (Op σ τ α ι ρ)) (hcb : ∀ op ∈ ops, ∀ i w w', (op.cb i w).1 = (op.cb i w').1)
    (hp : PInv f lang m) :
    (runOps X lang ops m w).1 = ops.map (pureOutcome f lang w₀) := by
  induction ops generalizing m w with
  | nil => rfl
  | cons op rest ih =>
    simp only [runOps, List.map_cons]
    have hrest : ∀ op' ∈ rest, ∀ i w w', (op'.cb i w).1 = (op'.cb i w').1 :=
      fun op' h => hcb op' (List.mem_cons_of_mem _ h)
    rw [ih _ _ hrest (PInv_step X lang m w op f hpure hp)]
    congr 1
    have := lookup_eq_construct_step X lang m w op f hpure hp
    unfold pureOutcome
    cases hf : f lang op.ty op.args with
    | ok i =>
      rw [hf] at this
      obtain ⟨w', hw'⟩ := this
      rw [hw', hcb op List.mem_cons_self i w' w₀]
    | error e => rw [hf] at this; exact this

end Lang
end FluentModel.Memo
